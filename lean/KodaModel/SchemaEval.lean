/-
  KodaModel.SchemaEval — an evaluator for the keyword set `toSchema` emits, under the reading C11 fixes:
  Draft 2020-12 plus OpenAPI `nullable` ("… or null", wherever it stands); `integer` = Python `int`
  (not `bool`), `number` = Python `float`; `format`, `description`, `additionalItems` are annotations;
  `pattern` is an ECMA-262 search over the pattern texts the generator can emit for the fragment
  (`parsePat` reads them back into `Pat`; the NotBlank text is recognised as a whole).

  The result is `Option Bool`: `none` = not evaluated (fuel exhausted below a `$ref`, a keyword or a
  pattern text outside the emitted set, a non-JSON constant).  `none` is strict, so more fuel can only
  turn `none` into `some _`.
-/
import KodaModel.Schema

namespace Koda

/-! ### JSON data (what `json.loads` delivers), as `PyVal`s -/

mutual
def isJson : PyVal → Bool
  | .none => true
  | .bool _ => true
  | .int _ => true
  | .float (.fin _ _ _) => true
  | .str _ => true
  | .list _ xs => isJsonL xs
  | .dict _ kvs => isJsonO kvs
  | _ => false
termination_by structural x => x
def isJsonL : List PyVal → Bool
  | [] => true
  | x :: xs => isJson x && isJsonL xs
termination_by structural xs => xs
def isJsonO : List (PyVal × PyVal) → Bool
  | [] => true
  | (k, v) :: rest => (match k with | .str _ => true | _ => false) && isJson v && isJsonO rest
termination_by structural kvs => kvs
end

def isNum : PyVal → Bool
  | .int _ => true
  | .float _ => true
  | _ => false

/- JSON equality of two data values: numbers by value, booleans are not numbers, arrays
   positionally, objects as finite maps -/
mutual
def jsonEq : PyVal → PyVal → Bool
  | .none, b => match b with | .none => true | _ => false
  | .bool x, b => match b with | .bool y => x == y | _ => false
  | .int x, b => isNum b && numEq (.int x) b
  | .float x, b => isNum b && numEq (.float x) b
  | .str x, b => match b with | .str y => x == y | _ => false
  | .list _ xs, b => match b with | .list _ ys => jsonEqL xs ys | _ => false
  | .dict _ kvs, b => match b with | .dict _ kvs' => kvs.length == kvs'.length && jsonSub kvs kvs' | _ => false
  | _, _ => false
termination_by structural x => x
def jsonEqL : List PyVal → List PyVal → Bool
  | [], [] => true
  | x :: xs, y :: ys => jsonEq x y && jsonEqL xs ys
  | _, _ => false
termination_by structural x => x
def jsonSub : List (PyVal × PyVal) → List (PyVal × PyVal) → Bool
  | [], _ => true
  | (k, v) :: rest, o => o.any (fun p => jsonEq k p.1 && jsonEq v p.2) && jsonSub rest o
termination_by structural x => x
end

/-- `uniqueItems` -/
def jsonUnique : List PyVal → Bool
  | [] => true
  | x :: xs => !(xs.any (jsonEq x)) && jsonUnique xs

/-- a schema constant as a datum -/
def J.toVal : J → Option PyVal
  | .null => some .none
  | .bool b => some (.bool b)
  | .int i => some (.int i)
  | .float f => some (.float f)
  | .str s => some (.str s)
  | _ => none

/-! ### pattern texts -/

def notBlankText : List Nat := kw "^(?!\\s*$).+"

/-- ECMA-262 `\s` (WhiteSpace + LineTerminator) -/
def isSpaceEcma (c : Nat) : Bool :=
  (9 ≤ c && c ≤ 13) || c == 32 || c == 0xA0 || c == 0x1680 || (0x2000 ≤ c && c ≤ 0x200A)
  || c == 0x2028 || c == 0x2029 || c == 0x202F || c == 0x205F || c == 0x3000 || c == 0xFEFF

/-- ECMA-262 LineTerminator (what `.` does not match) -/
def isLineTerm (c : Nat) : Bool := c == 10 || c == 13 || c == 0x2028 || c == 0x2029

/-- `^(?!\s*$).+` searched in `s`: the string is not all whitespace and starts with a character `.`
    matches -/
def notBlankPattern (s : List Nat) : Bool :=
  match s with
  | [] => false
  | c :: _ => !isLineTerm c && !s.all isSpaceEcma

/-- characters `re.escape` escapes: raw occurrences of them are syntax -/
def isSpecial (c : Nat) : Bool :=
  [40, 41, 91, 93, 123, 125, 63, 42, 43, 45, 124, 94, 36, 92, 46, 38, 126, 35, 32, 9, 10, 13, 11, 12].contains c

/-- reader state: elements so far (reversed), the class being read (reversed), flags -/
structure PState where
  first : Bool := true            -- nothing consumed yet
  anchorStart : Bool := false
  els : List PatEl := []          -- reversed
  cur : Option (List Nat) := none -- inside `[...]`
  esc : Bool := false             -- a backslash is pending
  closed : Bool := false          -- the last thing read was a `]`
  ended : Bool := false           -- `$` was read
  bad : Bool := false
deriving Inhabited

def PState.fail (st : PState) : PState := { st with bad := true }

def pstep (st : PState) (c : Nat) : PState :=
  if st.bad then st
  else if st.ended then st.fail
  else if st.esc then
    match st.cur with
    | some cs => { st with esc := false, cur := some (c :: cs), first := false }
    | none => { st with esc := false, els := .lit c :: st.els, closed := false, first := false }
  else if c == 92 then { st with esc := true, first := false }
  else
    match st.cur with
    | some cs =>
      if c == 93 then { st with cur := none, els := .cls cs.reverse :: st.els, closed := true }
      else if isSpecial c then st.fail
      else { st with cur := some (c :: cs) }
    | none =>
      if c == 94 then (if st.first then { st with anchorStart := true, first := false } else st.fail)
      else if c == 91 then { st with cur := some [], closed := false, first := false }
      else if c == 42 then
        (match st.closed, st.els with
         | true, .cls cs :: rest => { st with els := .star cs :: rest, closed := false }
         | _, _ => st.fail)
      else if c == 46 then { st with els := .any :: st.els, closed := false, first := false }
      else if c == 36 then { st with ended := true, closed := false, first := false }
      else if isSpecial c then st.fail
      else { st with els := .lit c :: st.els, closed := false, first := false }

/-- read a pattern text of the restricted syntax back -/
def parsePat (t : List Nat) : Option Pat :=
  let st := t.foldl pstep {}
  if st.bad || st.esc || st.cur.isSome then none
  else some { anchorStart := st.anchorStart, els := st.els.reverse, anchorEnd := st.ended }

/-- `pattern: t` on the string `s` -/
def patHolds (t s : List Nat) : Option Bool :=
  if t == notBlankText then some (notBlankPattern s)
  else (parsePat t).map (fun p => p.search s)

/-! ### keywords -/

def jGet (o : JObj) (k : String) : Option J := (o.find? (fun p => p.1 == kw k)).map (·.2)

def OB.and (a b : Option Bool) : Option Bool :=
  match a, b with
  | some x, some y => some (x && y)
  | _, _ => none

def allM {α : Type} (f : α → Option Bool) : List α → Option Bool
  | [] => some true
  | x :: xs => OB.and (f x) (allM f xs)

/-- number of members satisfying `f`; `none` if `f` is undetermined anywhere -/
def countM {α : Type} (f : α → Option Bool) : List α → Option Nat
  | [] => some 0
  | x :: xs =>
    match f x, countM f xs with
    | some b, some n => some (if b then n + 1 else n)
    | _, _ => none

def typeOk (t : List Nat) (x : PyVal) : Option Bool :=
  if t == kw "string" then some (match x with | .str _ => true | _ => false)
  else if t == kw "integer" then some (match x with | .int _ => true | _ => false)
  else if t == kw "number" then some (match x with | .float _ => true | _ => false)
  else if t == kw "boolean" then some (match x with | .bool _ => true | _ => false)
  else if t == kw "array" then some (match x with | .list _ _ => true | _ => false)
  else if t == kw "object" then some (match x with | .dict _ _ => true | _ => false)
  else if t == kw "null" then some (match x with | .none => true | _ => false)
  else none

/-- constants of `enum`: JSON equality with the datum -/
def enumHolds (js : List J) (x : PyVal) : Option Bool :=
  if js.all (fun j => j.toVal.isSome) then
    some (js.any (fun j => match j.toVal with | some v => jsonEq v x | none => false))
  else none

def ofExcept (r : Except Exn Bool) : Option Bool :=
  match r with
  | .ok b => some b
  | .error _ => none

/-- a numeric bound; `cmp bound x` -/
def boundHolds (v : J) (x : PyVal) (cmp : PyVal → PyVal → Except Exn Bool) : Option Bool :=
  match v.toVal with
  | some b => if isNum b then (if isNum x then ofExcept (cmp b x) else some true) else none
  | none => none

def propNames (o : JObj) : List (List Nat) :=
  match jGet o "properties" with
  | some (.obj ps) => ps.map (·.1)
  | _ => []

def prefixLen (o : JObj) : Nat :=
  match jGet o "prefixItems" with
  | some (.arr js) => js.length
  | _ => 0

def keyText : PyVal → Option (List Nat)
  | .str s => some s
  | _ => none

/-- one keyword `k: v` of the schema object `o` on the datum `x`; `ev` evaluates sub-schemas,
    `ref` is the one reference that resolves (to `root`) -/
def evalKw (ev : J → PyVal → Option Bool) (root : J) (ref : Option (List Nat)) (o : JObj)
    (k : List Nat) (v : J) (x : PyVal) : Option Bool :=
  if k == kw "type" then (match v with | .str t => typeOk t x | _ => none)
  else if k == kw "nullable" then (match v with | .bool _ => some true | _ => none)
  else if k == kw "format" || k == kw "description" || k == kw "additionalItems" then some true
  else if k == kw "enum" then (match v with | .arr js => enumHolds js x | _ => none)
  else if k == kw "minLength" then
    (match v, x with | .int n, .str s => some (decide ((s.length : Int) ≥ n)) | .int _, _ => some true | _, _ => none)
  else if k == kw "maxLength" then
    (match v, x with | .int n, .str s => some (decide ((s.length : Int) ≤ n)) | .int _, _ => some true | _, _ => none)
  else if k == kw "pattern" then
    (match v, x with | .str t, .str s => patHolds t s | .str t, _ => (patHolds t []).map (fun _ => true) | _, _ => none)
  else if k == kw "minimum" then boundHolds v x pyLe
  else if k == kw "exclusiveMinimum" then boundHolds v x pyLt
  else if k == kw "maximum" then boundHolds v x (fun b y => pyLe y b)
  else if k == kw "exclusiveMaximum" then boundHolds v x (fun b y => pyLt y b)
  else if k == kw "minItems" then
    (match v, x with | .int n, .list _ xs => some (decide ((xs.length : Int) ≥ n)) | .int _, _ => some true | _, _ => none)
  else if k == kw "maxItems" then
    (match v, x with | .int n, .list _ xs => some (decide ((xs.length : Int) ≤ n)) | .int _, _ => some true | _, _ => none)
  else if k == kw "uniqueItems" then
    (match v, x with
     | .bool true, .list _ xs => some (jsonUnique xs)
     | .bool _, _ => some true
     | _, _ => none)
  else if k == kw "items" then
    (match x with | .list _ xs => allM (ev v) (xs.drop (prefixLen o)) | _ => some true)
  else if k == kw "prefixItems" then
    (match v, x with
     | .arr js, .list _ xs => allM (fun p => ev p.1 p.2) (js.zip xs)
     | .arr _, _ => some true
     | _, _ => none)
  else if k == kw "minProperties" then
    (match v, x with | .int n, .dict _ kvs => some (decide ((kvs.length : Int) ≥ n)) | .int _, _ => some true | _, _ => none)
  else if k == kw "maxProperties" then
    (match v, x with | .int n, .dict _ kvs => some (decide ((kvs.length : Int) ≤ n)) | .int _, _ => some true | _, _ => none)
  else if k == kw "required" then
    (match v, x with
     | .arr names, .dict _ kvs =>
       allM (fun j => match j with | .str nm => some (dictHas kvs (.str nm)) | _ => none) names
     | .arr _, _ => some true
     | _, _ => none)
  else if k == kw "properties" then
    (match v, x with
     | .obj ps, .dict _ kvs =>
       allM (fun p => match dictGet kvs (.str p.1) with | some val => ev p.2 val | none => some true) ps
     | .obj _, _ => some true
     | _, _ => none)
  else if k == kw "additionalProperties" then
    (match x with
     | .dict _ kvs =>
       allM (fun p => match keyText p.1 with
                      | some nm => if (propNames o).contains nm then some true else ev v p.2
                      | none => none) kvs
     | _ => some true)
  else if k == kw "oneOf" then
    (match v with | .arr js => (countM (fun j => ev j x) js).map (fun n => n == 1) | _ => none)
  else if k == kw "allOf" then
    (match v with | .arr js => allM (fun j => ev j x) js | _ => none)
  else if k == kw "$ref" then
    (match v, ref with
     | .str r, some r' => if r == r' then ev root x else none
     | _, _ => none)
  else none

def isNullable (o : JObj) : Bool :=
  match jGet o "nullable" with
  | some (.bool true) => true
  | _ => false

def isNoneV : PyVal → Bool
  | .none => true
  | _ => false

/-- the `type` keyword of an object fails on the datum (then nothing else needs evaluating) -/
def typeFails (o : JObj) (x : PyVal) : Bool :=
  match jGet o "type" with
  | some (.str t) => (match typeOk t x with | some false => true | _ => false)
  | _ => false

/-- does the datum satisfy the schema?  `root` / `ref`: the named schema a `$ref` points to.
    `nullable` first ("… or null"), then `type` (a datum of the wrong type is rejected whatever the other
    keywords say), then every keyword, strictly. -/
def evalSchema (root : J) (ref : Option (List Nat)) : Nat → J → PyVal → Option Bool
  | 0, _, _ => none
  | _ + 1, .bool b, _ => some b
  | n + 1, .obj o, x =>
    if isNullable o && isNoneV x then some true
    else if typeFails o x then some false
    else allM (fun kv => evalKw (evalSchema root ref n) root ref o kv.1 kv.2 x) o
  | _ + 1, _, _ => none

end Koda
