/-
  KodaModel.Typehint — typehint-derived validators (typehints.py `get_typehint_validator_base`,
  signature.py `resolve_signature_typehint_default`) and the exact-type reading of annotations.
-/
import KodaModel.Eval

namespace Koda

/-- a record field of a dataclass / NamedTuple / TypedDict annotation -/
structure AField (α : Type) where
  name : String
  ann : α
  /-- dataclass / NamedTuple: the declared default; TypedDict: unused -/
  dflt : Option PyVal
  /-- TypedDict: the key is required -/
  req : Bool

/-- the supported annotation grammar -/
inductive Ann
  | str | int | float | none | uuid | date | datetime | bool | decimal | bytes | any
  | listBare | setBare | tupleBare | dictBare
  | list (a : Ann) | set (a : Ann) | dict (k v : Ann)
  | union (as : List Ann)
  | maybe (a : Ann)
  | tupleVar (a : Ann)
  | tupleFixed (as : List Ann)
  | literal (vs : List PyVal)
  /-- `Annotated[T, v, …]`: the first validator among the metadata is used as is -/
  | annotated (a : Ann) (v : V)
  | dataclass (c : ClassId) (names : List String) (anns : List Ann) (dflts : List (Option PyVal))
  | namedtuple (c : ClassId) (names : List String) (anns : List Ann) (dflts : List (Option PyVal))
  | typeddict (c : ClassId) (names : List String) (anns : List Ann) (reqs : List Bool)
  | cls (c : ClassId)
  /-- `Required[T]` / `NotRequired[T]` (the marker itself is read from the class) -/
  | marked (a : Ann)
deriving Inhabited

inductive ResolveMode | dflt | signature
deriving DecidableEq, Repr, Inhabited

/-- fixed identities of the library's module-level singletons -/
def ALWAYS_VID : Nat := 1
def NONE_SINGLETON_VID : Nat := 4

def isNone (v : PyVal) : Bool := match v with | .none => true | _ => false

/-- all literal arguments have the exact type of the first -/
def sameTypeAs (t : Ty) (vs : List PyVal) : Bool := vs.all (fun v => v.ty == t)

abbrev Fresh := StateM Nat

def fresh : Fresh Nat := fun n => (n, n + 1)

mutual
/-- `derive m a`: the validator the resolver builds for annotation `a`.  Validator identities are
    drawn from a counter in construction order. -/
def derive (m : ResolveMode) : Ann → Fresh V
  | .str => do pure (.scalar (← fresh) .str none [] [] [])
  | .int => do pure (.scalar (← fresh) .int none [] [] [])
  | .float => do pure (.scalar (← fresh) .float none [] [] [])
  | .none => do pure (.noneV (← fresh) none)
  | .uuid => do pure (.scalar (← fresh) .uuid (if m = .signature then none else some .dflt) [] [] [])
  | .date => do pure (.scalar (← fresh) .date (if m = .signature then none else some .dflt) [] [] [])
  | .datetime => do pure (.scalar (← fresh) .datetime (if m = .signature then none else some .dflt) [] [] [])
  | .bool => do pure (.scalar (← fresh) .bool none [] [] [])
  | .decimal => do pure (.scalar (← fresh) .decimal (if m = .signature then none else some .dflt) [] [] [])
  | .bytes => do pure (.scalar (← fresh) .bytes none [] [] [])
  | .any => pure (.always ALWAYS_VID)
  | .listBare => do pure (.list (← fresh) (.always ALWAYS_VID) [] [] none)
  | .setBare => do pure (.set (← fresh) (.always ALWAYS_VID) [] [] none)
  | .tupleBare => do pure (.utuple (← fresh) (.always ALWAYS_VID) [] [] (if m = .signature then none else some .dflt))
  | .dictBare => do pure (.map (← fresh) (.always ALWAYS_VID) (.always ALWAYS_VID) [] [] none)
  | .list a => do
    let item ← derive m a
    pure (.list (← fresh) item [] [] none)
  | .set a => do
    let item ← derive m a
    pure (.set (← fresh) item [] [] none)
  | .dict k v => do
    let kv ← derive m k
    let vv ← derive m v
    pure (.map (← fresh) kv vv [] [] none)
  | .union as => do
    let vs ← deriveL m as
    pure (.union (← fresh) vs)
  | .maybe a => do
    let inner ← derive m a
    pure (.maybe (← fresh) inner)
  | .tupleVar a => do
    let item ← derive m a
    pure (.utuple (← fresh) item [] [] (if m = .signature then none else some .dflt))
  | .tupleFixed as => do
    let fs ← deriveL m as
    let vid ← fresh
    let lp ← fresh
    pure (.ntuple vid fs none (if m = .signature then none else some .dflt) lp)
  | .literal vs =>
    match vs with
    | [] => pure (.union 0 [])
    | v :: rest =>
      let t := v.ty
      if sameTypeAs t rest && (t == .str || t == .int || t == .bool || t == .bytes) then do
        let vid ← fresh
        let pid ← fresh
        pure (.scalar vid t none [] [⟨pid, .choices (v :: rest)⟩] [])
      else if sameTypeAs t rest && t == .none then pure (.noneV NONE_SINGLETON_VID none)
      else do
        let es ← (v :: rest).mapM (fun a => do
          let vid ← fresh
          let pid ← fresh
          pure (V.equals vid a [] pid))
        pure (.union (← fresh) es)
  | .annotated _ v => pure v
  | .dataclass c names anns dflts => do
    -- record fields are always resolved with the *default* resolver unless the resolver is passed on
    let vs ← deriveL m anns
    let cfg : RecCfg := {
      kind := RecKind.dataclass
      keys := names.map keyStr
      reqs := dflts.map (fun d => d.isNone)
      cls := c
      fieldNames := names
      defaults := dflts
      intoId := 0
      into := fun _ => PyVal.none
      oc := none
      aoc := none
      failUnknown := false
      coerce := (if m = .signature then some CoerceK.classOnly else none) }
    pure (.record (← fresh) cfg vs)
  | .namedtuple c names anns dflts => do
    let vs ← deriveL m anns
    let cfg : RecCfg := {
      kind := RecKind.namedtuple
      keys := names.map keyStr
      reqs := dflts.map (fun d => d.isNone)
      cls := c
      fieldNames := names
      defaults := dflts
      intoId := 0
      into := fun _ => PyVal.none
      oc := none
      aoc := none
      failUnknown := false
      coerce := (if m = .signature then some CoerceK.classOnly else none) }
    pure (.record (← fresh) cfg vs)
  | .typeddict c names anns reqs => do
    let vs ← deriveL m anns
    let cfg : RecCfg := {
      kind := RecKind.typeddict
      keys := names.map keyStr
      reqs := reqs
      cls := c
      fieldNames := names
      defaults := names.map (fun _ => none)
      intoId := 0
      into := fun _ => PyVal.none
      oc := none
      aoc := none
      failUnknown := false
      coerce := none }
    pure (.record (← fresh) cfg vs)
  | .cls c => do pure (.scalar (← fresh) (.cls c) none [] [] [])
  | .marked a => derive m a
termination_by structural a => a
def deriveL (m : ResolveMode) : List Ann → Fresh (List V)
  | [] => pure []
  | a :: as => do
    let v ← derive m a
    let vs ← deriveL m as
    pure (v :: vs)
termination_by structural as => as
end

/-! ### the exact-type reading of an annotation -/

mutual
/-- `x` is a value of type `a` under the exact-type reading (written independently of `derive`) -/
def hasType : Ann → PyVal → Bool
  | .str, x => x.ty == .str
  | .int, x => x.ty == .int
  | .float, x => x.ty == .float
  | .none, x => isNone x
  | .uuid, x => x.ty == .uuid
  | .date, x => x.ty == .date
  | .datetime, x => x.ty == .datetime
  | .bool, x => x.ty == .bool
  | .decimal, x => x.ty == .decimal
  | .bytes, x => x.ty == .bytes
  | .any, _ => true
  | .listBare, x => x.ty == .list
  | .setBare, x => x.ty == .set
  | .tupleBare, x => x.ty == .tuple
  | .dictBare, x => x.ty == .dict
  | .list a, x => match x with | .list _ xs => xs.all (hasType a) | _ => false
  | .set a, x => match x with | .set _ xs => xs.all (hasType a) | _ => false
  | .dict k v, x => match x with | .dict _ kvs => kvs.all (fun p => hasType k p.1 && hasType v p.2) | _ => false
  | .union as, x => hasTypeAny as x
  | .maybe a, x => match x with | .nothing => true | .just _ v => hasType a v | _ => false
  | .tupleVar a, x => match x with | .tuple _ xs => xs.all (hasType a) | _ => false
  | .tupleFixed as, x => match x with | .tuple _ xs => hasTypeZip as xs | _ => false
  | .literal vs, x => vs.any (fun v => v.ty == x.ty && pyEq x v)
  | .annotated a _, x => hasType a x
  | .dataclass c _ anns _, x => match x with | .inst _ _ c' _ vs => c == c' && hasTypeZip anns vs | _ => false
  | .namedtuple c _ anns _, x => match x with | .inst _ _ c' _ vs => c == c' && hasTypeZip anns vs | _ => false
  | .typeddict _ names anns reqs, x =>
    match x with
    | .dict _ kvs => hasTypeTD names anns reqs kvs && kvs.all (fun p => (names.map keyStr).any (fun k => pyEq k p.1))
    | _ => false
  | .cls c, x => x.ty == .cls c
  | .marked a, x => hasType a x
termination_by structural a => a
def hasTypeAny : List Ann → PyVal → Bool
  | [], _ => false
  | a :: as, x => hasType a x || hasTypeAny as x
termination_by structural as => as
def hasTypeZip : List Ann → List PyVal → Bool
  | [], [] => true
  | a :: as, x :: xs => hasType a x && hasTypeZip as xs
  | _, _ => false
termination_by structural as => as
/-- every required key present, every present declared key of the declared type -/
def hasTypeTD : List String → List Ann → List Bool → List (PyVal × PyVal) → Bool
  | n :: ns, a :: as, r :: rs, kvs =>
    (match dictGet kvs (keyStr n) with
     | some v => hasType a v
     | none => !r) && hasTypeTD ns as rs kvs
  | _, _, _, _ => true
termination_by structural _ as => as
end

end Koda
