/-
  KodaModel.PyDictAny — the Python subset in which `DictValidatorAny._validate_to_tuple` and
  `_validate_to_tuple_async` (koda_validate/dictionary.py) are written, with a big-step interpreter.
  `harness/pysrc.py` translates the current source of both methods (`Generated/DictAnySrc.lean`);
  `Properties/C04DictAny.lean` proves that running them is the model's `recordStep` for the `dictAny` kind: for every
  schema (keys, per-key validators, which keys are required), either unknown-key policy, whole-object checks of
  either flavour, and every input — exact `dict` only, undeclared keys decided before any value is validated, every
  declared key looked at (missing-and-required, present-and-invalid: one entry each, the child's own `Invalid`), the
  payload dict built from the children's payloads for the declared keys that are present, then the whole-object check(s).

  `__init__` (pinned) precomputes `_fast_keys_sync` / `_fast_keys_async`: triples `(key, wrapped validator, required)`
  where a `KeyNotRequired` marker has been replaced by the validator it wraps and `required = False`.
-/
import KodaModel.Eval

namespace Koda

inductive DVar
  | keyU | validator | keyRequired | successDict | errs | success | newVal | result
  | args | obj | asyncResult                 -- RecordValidator
  | coerced | coercedVal                     -- the class-based record validators
deriving DecidableEq, Repr, Inhabited

inductive DSelf
  | disallowSync | cls | failOnUnknownKeys | keysSet | unknownKeysErr | fastKeysSync | fastKeysAsync
  | validateObject | validateObjectAsync
  | into                                     -- RecordValidator
  | coerce
  | targetCls                                -- `self.data_cls` / `self.named_tuple_cls`
  | other (name : String)
deriving DecidableEq, Repr, Inhabited

inductive DAttr | isJust | valA | compatibleTypes | other (name : String)
deriving DecidableEq, Repr, Inhabited

inductive DExp
  | var (v : DVar)
  | attr (e : DExp) (a : DAttr)
  | mkCoercionErr (compat dest : DExp)
  | instToDict (e : DExp)                    -- `_dataclass_instance_to_dict(e)` / `e._asdict()`
  | dictOrCls                                -- the set `{dict, self.<target class>}`
  | construct (e : DExp)                     -- `self.<target class>(**e)`
  | self
  | data                                     -- the parameter `data`
  | selfAttr (a : DSelf)
  | walrus (v : DVar) (e : DExp)
  | call1 (f : DExp) (a : DExp)
  | subscript (d k : DExp)                   -- `d[k]`
  | typeIs (e : DExp) (t : DExp)
  | not (e : DExp)
  | notIn (a b : DExp)                       -- `a not in b`
  | and (a b : DExp)
  | dictTy
  | isInstDict (e : DExp)                    -- `isinstance(e, dict)`
  | mkMissingKeyErr                          -- `MissingKeyErr()`
  | nothing                                  -- koda's `nothing`
  | emptyList
  | callStar (f : DExp) (a : DExp)           -- `f(*a)`
  | missingKeyErr                            -- the module constant `missing_key_err`
  | raiseAsyncInSync (e : DExp)              -- `_raise_validate_object_async_in_sync_mode(e)`
  | mkTypeErr (t : DExp)
  | mkKeyErrs (e : DExp)
  | mkInvalid (errE valE slfE : DExp)
  | emptyDict
  | pair (a b : DExp)
  | bool (b : Bool)
  | await (e : DExp)
  | unsupported (why : String)
deriving Repr, Inhabited

inductive DStmt
  | assign (v : DVar) (e : DExp)
  | assign2 (v w : DVar) (e : DExp)
  | ite (c : DExp) (t e : List DStmt)
  | forIn (v : DVar) (iter : DExp) (body : List DStmt)          -- `for key_ in data:`
  | forIn3 (u v w : DVar) (iter : DExp) (body : List DStmt)     -- `for key_, validator, key_required in …:`
  | ret (e : DExp)
  | expr (e : DExp)
  | setItem (d : DVar) (k v : DExp)
  | append (l : DVar) (e : DExp)
  | unsupported (why : String)
deriving Repr, Inhabited

structure DictAnyCfg where
  vid : Nat
  keys : List PyVal
  evs : List Ev1
  reqs : List Bool
  oc : Option ObjCheck
  aoc : Option ObjCheck
  failUnknown : Bool
  /-- RecordValidator: the target constructor and its identity -/
  into : List PyVal → PyVal := fun _ => .none
  intoId : Nat := 0
  /-- the class-based record validators: the coercer, the target class -/
  coerce : Option CoerceK := none
  cls : ClassId := default
  /-- dataclass / NamedTuple: the constructor's parameters and their defaults; which of the two it is -/
  fieldNames : List String := []
  defaults : List (Option PyVal) := []
  isNT : Bool := false

inductive AV
  | py (v : PyVal)
  | bool (b : Bool)
  | none
  | self
  | cls
  | tyName (t : Ty)
  | errK (k : ErrK)
  | keyErrK (es : List (PyVal × Inv))
  | invalid (e : Inv)
  | pair (a b : AV)
  | fieldV (ev : Ev1)
  | triples (ts : List (PyVal × Ev1 × Bool))
  | keysSet
  | objCheck (c : ObjCheck)
  | aobjCheck (c : ObjCheck)
  | customErr (e : Nat)
  | dictPayload (kvs : List (PyVal × PyVal))   -- `success_dict` (and `{}` before anything was stored in it)
  | keyErrs (es : List (PyVal × Inv))          -- `errs`
  | payloadList (ws : List PyVal)              -- `args`
  | built (v : PyVal)                          -- `obj = self.into(*args)`
  | intoFn
  | coercer (c : CoerceK)
  | maybe (m : Option PyVal)
  | tys (ts : List Ty)
deriving Inhabited

structure DEnv where
  keyU : AV := .none
  validator : AV := .none
  keyRequired : AV := .none
  successDict : AV := .none
  errs : AV := .none
  success : AV := .none
  newVal : AV := .none
  result : AV := .none
  args : AV := .none
  obj : AV := .none
  asyncResult : AV := .none
  coerced : AV := .none
  coercedVal : AV := .none

def DEnv.get (e : DEnv) : DVar → AV
  | .keyU => e.keyU | .validator => e.validator | .keyRequired => e.keyRequired | .successDict => e.successDict
  | .errs => e.errs | .success => e.success | .newVal => e.newVal | .result => e.result
  | .args => e.args | .obj => e.obj | .asyncResult => e.asyncResult
  | .coerced => e.coerced | .coercedVal => e.coercedVal

def DEnv.set (e : DEnv) (v : DVar) (d : AV) : DEnv :=
  match v with
  | .keyU => { e with keyU := d } | .validator => { e with validator := d } | .keyRequired => { e with keyRequired := d }
  | .successDict => { e with successDict := d } | .errs => { e with errs := d } | .success => { e with success := d }
  | .newVal => { e with newVal := d } | .result => { e with result := d }
  | .args => { e with args := d } | .obj => { e with obj := d } | .asyncResult => { e with asyncResult := d }
  | .coerced => { e with coerced := d } | .coercedVal => { e with coercedVal := d }

inductive DErr
  | exn (e : Exn)
  | diverge
  | stuck (why : String)
deriving Inhabited

structure DSt where
  env : DEnv
  tr : List Ev

abbrev DM (α : Type) := Except (DErr × List Ev) (α × DSt)

def dtruthy : AV → Option Bool
  | .bool b => some b
  | .none => some false
  | .objCheck _ => some true
  | .aobjCheck _ => some true
  | .customErr _ => some true
  | .coercer _ => some true
  | .dictPayload kvs => some (!kvs.isEmpty)
  | .keyErrs es => some (!es.isEmpty)
  | _ => Option.none

def dselfAttr (cfg : DictAnyCfg) : DSelf → Option AV
  -- `self._disallow_synchronous = bool(validate_object_async)` (pinned by `src_dictany_init`)
  | .disallowSync => some (.bool cfg.aoc.isSome)
  | .cls => some .cls
  | .failOnUnknownKeys => some (.bool cfg.failUnknown)
  | .keysSet => some .keysSet
  | .unknownKeysErr => some (.errK (.extraKeys cfg.keys))
  | .fastKeysSync => some (.triples (cfg.keys.zip (cfg.evs.zip cfg.reqs)))
  | .fastKeysAsync => some (.triples (cfg.keys.zip (cfg.evs.zip cfg.reqs)))
  | .validateObject => some (match cfg.oc with | some c => .objCheck c | none => .none)
  | .validateObjectAsync => some (match cfg.aoc with | some c => .aobjCheck c | none => .none)
  | .into => some .intoFn
  | .coerce => some (match cfg.coerce with | some c => .coercer c | none => .none)
  | .targetCls => some (.tyName (.cls cfg.cls))
  | .other _ => Option.none

/-- calling the record's coercer (target and destination type `dict`; no default coercer exists for dicts, so the
    oracle of the stdlib parsers plays no part) -/
def callDictCoercer (cls : ClassId) (c : CoerceK) (x : PyVal) : Option PyVal × List Ev :=
  match applyCoerce default .dict .dict cls c x with
  | .acc y t => (some y, t)
  | .rej _ t => (none, t)
  | .exn _ t => (none, t)

def dictCompat (cls : ClassId) : CoerceK → List Ty
  | .dflt => defaultCompat .dict
  | .classOnly => [.cls cls]
  | .user _ compat _ => compat

/-- the model-side configuration of a class-instantiating record validator -/
def DictAnyCfg.toClass (c : DictAnyCfg) : RecCfg :=
  { kind := if c.isNT then .namedtuple else .dataclass, keys := c.keys, reqs := c.reqs, cls := c.cls,
    fieldNames := c.fieldNames, defaults := c.defaults, intoId := 0, into := fun _ => .none, oc := c.oc, aoc := c.aoc,
    failUnknown := c.failUnknown, coerce := c.coerce }

inductive DFlow
  | next (st : DSt)
  | returned (d : AV) (st : DSt)

def dforFold (execBody : DSt → Except (DErr × List Ev) DFlow) (v : DVar) : List PyVal → DSt → Except (DErr × List Ev) DFlow
  | [], st => .ok (.next st)
  | k :: rest, st =>
    match execBody { st with env := st.env.set v (.py k) } with
    | .ok (.next st') => dforFold execBody v rest st'
    | other => other

def dforFold3 (execBody : DSt → Except (DErr × List Ev) DFlow) (u v w : DVar) :
    List (PyVal × Ev1 × Bool) → DSt → Except (DErr × List Ev) DFlow
  | [], st => .ok (.next st)
  | (k, ev, req) :: rest, st =>
    match execBody { st with env := ((st.env.set u (.py k)).set v (.fieldV ev)).set w (.bool req) } with
    | .ok (.next st') => dforFold3 execBody u v w rest st'
    | other => other

def DExp.eval (cfg : DictAnyCfg) (x : PyVal) (st : DSt) : DExp → DM AV
  | .var v => .ok (st.env.get v, st)
  | .self => .ok (.self, st)
  | .data => .ok (.py x, st)
  | .selfAttr a => (match dselfAttr cfg a with | some r => .ok (r, st) | none => .error (.stuck "self attribute", st.tr))
  | .walrus v e =>
    match e.eval cfg x st with
    | .error err => .error err
    | .ok (d, st) => .ok (d, { st with env := st.env.set v d })
  | .attr e a =>
    match e.eval cfg x st with
    | .error err => .error err
    | .ok (d, st) =>
      (match d, a with
       | .maybe m, .isJust => .ok (.bool m.isSome, st)
       | .maybe (some y), .valA => .ok (.py y, st)
       | .coercer c, .compatibleTypes => .ok (.tys (dictCompat cfg.cls c), st)
       | _, _ => .error (.stuck "attribute", st.tr))
  | .instToDict e =>
    match e.eval cfg x st with
    | .error err => .error err
    | .ok (.py (.inst _ doid _ names vals), st) =>
      .ok (.py (if cfg.isNT || cfg.cls.slots then instDict 0 names vals else instDict doid names vals), st)
    | .ok (_, st) => .error (.stuck "instance to dict", st.tr)
  | .dictOrCls => .ok (.tys [.dict, .cls cfg.cls], st)
  | .construct e =>
    match e.eval cfg x st with
    | .error err => .error err
    | .ok (.dictPayload kvs, st) => .ok (.built (Koda.construct cfg.toClass kvs), st)
    | .ok (_, st) => .error (.stuck "constructor call", st.tr)
  | .mkCoercionErr compat dest =>
    match compat.eval cfg x st with
    | .error err => .error err
    | .ok (cd, st) =>
      match dest.eval cfg x st with
      | .error err => .error err
      | .ok (dd, st) =>
        (match cd, dd with
         | .tys ts, .tyName ty => .ok (.errK (.coercion ts ty), st)
         | _, _ => .error (.stuck "CoercionErr", st.tr))
  | .call1 f a =>
    match f.eval cfg x st with
    | .error err => .error err
    | .ok (fd, st) =>
      match a.eval cfg x st with
      | .error err => .error err
      | .ok (ad, st) =>
        match fd, ad with
        | .coercer c, .py y =>
          let r := callDictCoercer cfg.cls c y
          .ok (.maybe r.1, { st with tr := st.tr ++ r.2 })
        | .fieldV ev, .py y =>
          (match ev y with
           | Option.none => .error (.diverge, st.tr)
           | some (.raised e, t) => .error (.exn e, st.tr ++ t)
           | some (.valid w, t) => .ok (.pair (.bool true) (.py w), { st with tr := st.tr ++ t })
           | some (.invalid e, t) => .ok (.pair (.bool false) (.invalid e), { st with tr := st.tr ++ t }))
        | .objCheck c, .dictPayload kvs =>
          (match c.f (.dict 0 kvs) with
           | Option.none => .ok (.none, { st with tr := st.tr ++ [.oc c.id] })
           | some e => .ok (.customErr e, { st with tr := st.tr ++ [.oc c.id] }))
        | .objCheck c, .built v =>
          (match c.f v with
           | Option.none => .ok (.none, { st with tr := st.tr ++ [.oc c.id] })
           | some e => .ok (.customErr e, { st with tr := st.tr ++ [.oc c.id] }))
        | .aobjCheck c, .built v =>
          (match c.f v with
           | Option.none => .ok (.none, { st with tr := st.tr ++ [.aoc c.id] })
           | some e => .ok (.customErr e, { st with tr := st.tr ++ [.aoc c.id] }))
        | .aobjCheck c, .dictPayload kvs =>
          (match c.f (.dict 0 kvs) with
           | Option.none => .ok (.none, { st with tr := st.tr ++ [.aoc c.id] })
           | some e => .ok (.customErr e, { st with tr := st.tr ++ [.aoc c.id] }))
        | _, _ => .error (.stuck "call", st.tr)
  | .subscript d k =>
    match d.eval cfg x st with
    | .error err => .error err
    | .ok (dd, st) =>
      match k.eval cfg x st with
      | .error err => .error err
      | .ok (kd, st) =>
        (match dd, kd with
         | .py y, .py kk =>
           (match dictItems y with
            | some kvs => (match dictGet kvs kk with | some v => .ok (.py v, st) | Option.none => .error (.stuck "KeyError", st.tr))
            | Option.none => .error (.stuck "subscript", st.tr))
         | _, _ => .error (.stuck "subscript", st.tr))
  | .typeIs e t =>
    match e.eval cfg x st with
    | .error err => .error err
    | .ok (.py y, st) =>
      (match t.eval cfg x st with
       | .error err => .error err
       | .ok (.tyName ty, st) => .ok (.bool (y.ty == ty), st)
       | .ok (_, st) => .error (.stuck "is", st.tr))
    | .ok (_, st) => .error (.stuck "type()", st.tr)
  | .not e =>
    match e.eval cfg x st with
    | .error err => .error err
    | .ok (d, st) => (match dtruthy d with | some b => .ok (.bool (!b), st) | none => .error (.stuck "truth value", st.tr))
  | .notIn a b =>
    match a.eval cfg x st with
    | .error err => .error err
    | .ok (ad, st) =>
      match b.eval cfg x st with
      | .error err => .error err
      | .ok (bd, st) =>
        (match ad, bd with
         | .py k, .keysSet => .ok (.bool (!memL k cfg.keys), st)
         | .py k, .py y =>
           (match dictItems y with
            | some kvs => .ok (.bool (dictGet kvs k).isNone, st)
            | Option.none => .error (.stuck "not in", st.tr))
         | _, _ => .error (.stuck "not in", st.tr))
  | .and a b =>
    match a.eval cfg x st with
    | .error err => .error err
    | .ok (ad, st) =>
      (match dtruthy ad with
       | none => .error (.stuck "truth value", st.tr)
       | some false => .ok (ad, st)
       | some true => b.eval cfg x st)
  | .dictTy => .ok (.tyName .dict, st)
  | .isInstDict e =>
    match e.eval cfg x st with
    | .error err => .error err
    | .ok (.py y, st) => .ok (.bool (y.baseTy == .dict), st)
    | .ok (_, st) => .error (.stuck "isinstance", st.tr)
  | .mkMissingKeyErr => .ok (.errK .missingKey, st)
  | .nothing => .ok (.py .nothing, st)
  | .emptyList => .ok (.payloadList [], st)
  | .callStar f a =>
    match f.eval cfg x st with
    | .error err => .error err
    | .ok (fd, st) =>
      match a.eval cfg x st with
      | .error err => .error err
      | .ok (ad, st) =>
        (match fd, ad with
         | .intoFn, .payloadList ws => .ok (.built (cfg.into ws), { st with tr := st.tr ++ [.into cfg.intoId] })
         | _, _ => .error (.stuck "call", st.tr))
  | .missingKeyErr => .ok (.errK .missingKey, st)
  | .raiseAsyncInSync e =>
    match e.eval cfg x st with
    | .error err => .error err
    | .ok (_, st) => .error (.exn .assertion, st.tr)
  | .mkTypeErr t =>
    match t.eval cfg x st with
    | .error err => .error err
    | .ok (.tyName ty, st) => .ok (.errK (.type ty), st)
    | .ok (_, st) => .error (.stuck "TypeErr", st.tr)
  | .mkKeyErrs e =>
    match e.eval cfg x st with
    | .error err => .error err
    | .ok (.keyErrs es, st) => .ok (.keyErrK es, st)
    | .ok (_, st) => .error (.stuck "KeyErrs", st.tr)
  | .mkInvalid errE valE slfE =>
    match errE.eval cfg x st with
    | .error e => .error e
    | .ok (ed, st) =>
      match valE.eval cfg x st with
      | .error e => .error e
      | .ok (vd, st) =>
        match slfE.eval cfg x st with
        | .error e => .error e
        | .ok (sd, st) =>
          (match ed, vd, sd with
           | .errK k, .py y, .self => .ok (.invalid (.mk k y cfg.vid []), st)
           | .keyErrK es, .py y, .self => .ok (.invalid (.mk (.keys (es.map Prod.fst)) y cfg.vid (es.map Prod.snd)), st)
           | .customErr e, .dictPayload kvs, .self => .ok (.invalid (.mk (.custom e) (.dict 0 kvs) cfg.vid []), st)
           | .customErr e, .built v, .self => .ok (.invalid (.mk (.custom e) v cfg.vid []), st)
           | _, _, _ => .error (.stuck "Invalid", st.tr))
  | .emptyDict => .ok (.dictPayload [], st)
  | .pair a b =>
    match a.eval cfg x st with
    | .error err => .error err
    | .ok (ad, st) =>
      match b.eval cfg x st with
      | .error err => .error err
      | .ok (bd, st) => .ok (.pair ad bd, st)
  | .bool b => .ok (.bool b, st)
  | .await e => e.eval cfg x st
  | .unsupported why => .error (.stuck why, st.tr)

mutual
def DStmt.exec (cfg : DictAnyCfg) (x : PyVal) (st : DSt) : DStmt → Except (DErr × List Ev) DFlow
  | .assign v e =>
    match e.eval cfg x st with
    | .error err => .error err
    | .ok (d, st) => .ok (.next { st with env := st.env.set v d })
  | .assign2 v w e =>
    match e.eval cfg x st with
    | .error err => .error err
    | .ok (.pair a b, st) => .ok (.next { st with env := (st.env.set v a).set w b })
    | .ok (_, st) => .error (.stuck "unpacking", st.tr)
  | .ite c t e =>
    match c.eval cfg x st with
    | .error err => .error err
    | .ok (d, st) =>
      match dtruthy d with
      | none => .error (.stuck "truth value", st.tr)
      | some true => DStmt.execL cfg x st t
      | some false => DStmt.execL cfg x st e
  | .forIn v iter body =>
    match iter.eval cfg x st with
    | .error err => .error err
    | .ok (.py y, st) =>
      (match dictItems y with
       | some kvs => dforFold (fun st => DStmt.execL cfg x st body) v (kvs.map Prod.fst) st
       | Option.none => .error (.stuck "iteration", st.tr))
    | .ok (_, st) => .error (.stuck "iteration", st.tr)
  | .forIn3 u v w iter body =>
    match iter.eval cfg x st with
    | .error err => .error err
    | .ok (.triples ts, st) => dforFold3 (fun st => DStmt.execL cfg x st body) u v w ts st
    | .ok (_, st) => .error (.stuck "iteration", st.tr)
  | .ret e =>
    match e.eval cfg x st with
    | .error err => .error err
    | .ok (d, st) => .ok (.returned d st)
  | .expr e =>
    match e.eval cfg x st with
    | .error err => .error err
    | .ok (_, st) => .ok (.next st)
  | .setItem d k v =>
    match k.eval cfg x st with
    | .error err => .error err
    | .ok (kd, st) =>
      match v.eval cfg x st with
      | .error err => .error err
      | .ok (vd, st) =>
        (match st.env.get d, kd, vd with
         -- `success_dict[key_] = new_val`: a declared key (hashable, each declared once)
         | .dictPayload kvs, .py k, .py v => .ok (.next { st with env := st.env.set d (.dictPayload (kvs ++ [(k, v)])) })
         -- `errs[key_] = <Invalid>`
         | .keyErrs es, .py k, .invalid e => .ok (.next { st with env := st.env.set d (.keyErrs (es ++ [(k, e)])) })
         | .dictPayload [], .py k, .invalid e => .ok (.next { st with env := st.env.set d (.keyErrs [(k, e)]) })
         | _, _, _ => .error (.stuck "item assignment", st.tr))
  | .append l e =>
    match e.eval cfg x st with
    | .error err => .error err
    | .ok (d, st) =>
      (match st.env.get l, d with
       | .payloadList ws, .py w => .ok (.next { st with env := st.env.set l (.payloadList (ws ++ [w])) })
       | _, _ => .error (.stuck "append", st.tr))
  | .unsupported why => .error (.stuck why, st.tr)
termination_by structural s => s
def DStmt.execL (cfg : DictAnyCfg) (x : PyVal) (st : DSt) : List DStmt → Except (DErr × List Ev) DFlow
  | [] => .ok (.next st)
  | s :: rest =>
    match s.exec cfg x st with
    | .error err => .error err
    | .ok (.next st) => DStmt.execL cfg x st rest
    | .ok (.returned d st) => .ok (.returned d st)
termination_by structural l => l
end

/-- run a method body on input `x` -/
def runDictAnyMethod (cfg : DictAnyCfg) (body : List DStmt) (x : PyVal) : Option (Out × List Ev) :=
  match DStmt.execL cfg x { env := {}, tr := [] } body with
  | .error (.exn e, t) => some (.raised e, t)
  | .error (_, _) => none
  | .ok (.returned (.pair (.bool true) (.dictPayload kvs)) st) => some (.valid (.dict 0 kvs), st.tr)
  | .ok (.returned (.pair (.bool true) (.built v)) st) => some (.valid v, st.tr)
  | .ok (.returned (.pair (.bool false) (.invalid e)) st) => some (.invalid e, st.tr)
  | .ok _ => none

end Koda
