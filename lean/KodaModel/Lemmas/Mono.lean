/-
  Fuel monotonicity: more fuel never changes a result that was already produced.
  Each step is monotone in its child evaluators; `run_mono` follows by one case per kind.
-/
import KodaModel.Eval

namespace Koda

/-- `g` is at least as defined as `f` and agrees with it -/
def Le (f g : Ev1) : Prop := ∀ a b, f a = some b → g a = some b

theorem Le.refl (f : Ev1) : Le f f := fun _ _ h => h

theorem loopItems_mono {f g : Ev1} (h : Le f g) (hr : Bool) :
    ∀ xs i ne r, loopItems f hr xs i ne = some r → loopItems g hr xs i ne = some r := by
  intro xs
  induction xs with
  | nil => intro i ne r hres; simpa [loopItems] using hres
  | cons x xs ih =>
    intro i ne r hres
    simp only [loopItems] at hres ⊢
    cases hx : f x with
    | none => simp [hx] at hres
    | some p =>
      rw [h x p hx]
      rw [hx] at hres
      obtain ⟨o, t⟩ := p
      cases o with
      | raised e => simpa using hres
      | valid w =>
        simp only at hres ⊢
        split at hres
        · rename_i hc; simp only [hc, if_true]; exact hres
        · rename_i hc
          simp only [hc]
          cases hl : loopItems f hr xs (i + 1) ne with
          | none => simp [hl] at hres
          | some r' => rw [ih _ _ _ hl]; simpa [hl] using hres
      | invalid e =>
        simp only at hres ⊢
        cases hl : loopItems f hr xs (i + 1) false with
        | none => simp [hl] at hres
        | some r' => rw [ih _ _ _ hl]; simpa [hl] using hres

/-- pointwise refinement of lists of evaluators -/
inductive LeL : List Ev1 → List Ev1 → Prop
  | nil : LeL [] []
  | cons {f g fs gs} : Le f g → LeL fs gs → LeL (f :: fs) (g :: gs)

theorem LeL.length {fs gs : List Ev1} (h : LeL fs gs) : fs.length = gs.length := by
  induction h with
  | nil => rfl
  | cons _ _ ih => simp [ih]

theorem LeL.map {α} (F G : α → Ev1) (h : ∀ a, Le (F a) (G a)) : ∀ l : List α, LeL (l.map F) (l.map G)
  | [] => .nil
  | a :: l => .cons (h a) (LeL.map F G h l)

theorem loopFields_mono {fs gs : List Ev1} (h : LeL fs gs) :
    ∀ xs i r, loopFields fs xs i = some r → loopFields gs xs i = some r := by
  induction h with
  | nil => intro xs i r hres; simpa [loopFields] using hres
  | @cons f g fs gs hfg _ ih =>
    intro xs i r hres
    cases xs with
    | nil => simpa [loopFields] using hres
    | cons x xs =>
      simp only [loopFields] at hres ⊢
      cases hx : f x with
      | none => simp [hx] at hres
      | some p =>
        rw [hfg x p hx]
        rw [hx] at hres
        obtain ⟨o, t⟩ := p
        cases o with
        | raised e => simpa using hres
        | valid w =>
          simp only at hres ⊢
          cases hl : loopFields fs xs (i + 1) with
          | none => simp [hl] at hres
          | some r' => rw [ih _ _ _ hl]; simpa [hl] using hres
        | invalid e =>
          simp only at hres ⊢
          cases hl : loopFields fs xs (i + 1) with
          | none => simp [hl] at hres
          | some r' => rw [ih _ _ _ hl]; simpa [hl] using hres

theorem unionLoop_mono {fs gs : List Ev1} (h : LeL fs gs) (x : PyVal) :
    ∀ r, unionLoop x fs = some r → unionLoop x gs = some r := by
  induction h with
  | nil => intro r hres; simpa [unionLoop] using hres
  | @cons f g fs gs hfg _ ih =>
    intro r hres
    simp only [unionLoop] at hres ⊢
    cases hx : f x with
    | none => simp [hx] at hres
    | some p =>
      rw [hfg x p hx]
      rw [hx] at hres
      obtain ⟨o, t⟩ := p
      cases o with
      | raised e => simpa using hres
      | valid w => simpa using hres
      | invalid e =>
        simp only at hres ⊢
        cases hl : unionLoop x fs with
        | none => simp [hl] at hres
        | some r' => rw [ih _ hl]; simpa [hl] using hres

theorem mapLoop_mono {fk gk fv gv : Ev1} (hk : Le fk gk) (hv : Le fv gv) :
    ∀ kvs acc r, mapLoop fk fv kvs acc = some r → mapLoop gk gv kvs acc = some r := by
  intro kvs
  induction kvs with
  | nil => intro acc r hres; simpa [mapLoop] using hres
  | cons kv rest ih =>
    intro acc r hres
    obtain ⟨k, v⟩ := kv
    simp only [mapLoop] at hres ⊢
    cases hx : fk k with
    | none => simp [hx] at hres
    | some p =>
      rw [hk k p hx]
      rw [hx] at hres
      obtain ⟨ko, tk⟩ := p
      cases ko with
      | raised e => simpa using hres
      | valid kw =>
        simp only at hres ⊢
        cases hy : fv v with
        | none => simp [hy] at hres
        | some q =>
          rw [hv v q hy]
          rw [hy] at hres
          obtain ⟨vo, tv⟩ := q
          cases vo with
          | raised e => simpa using hres
          | valid vw =>
            simp only at hres ⊢
            split at hres
            · rename_i hc; simp only [hc, if_true]; exact hres
            · rename_i hc
              simp only [hc]
              cases hl : mapLoop fk fv rest (dictSet acc kw vw) with
              | none => simp [hl] at hres
              | some r' => rw [ih _ _ hl]; simpa [hl] using hres
          | invalid e =>
            simp only at hres ⊢
            cases hl : mapLoop fk fv rest acc with
            | none => simp [hl] at hres
            | some r' => rw [ih _ _ hl]; simpa [hl] using hres
      | invalid ke =>
        simp only at hres ⊢
        cases hy : fv v with
        | none => simp [hy] at hres
        | some q =>
          rw [hv v q hy]
          rw [hy] at hres
          obtain ⟨vo, tv⟩ := q
          cases vo with
          | raised e => simpa using hres
          | valid vw =>
            simp only at hres ⊢
            cases hl : mapLoop fk fv rest acc with
            | none => simp [hl] at hres
            | some r' => rw [ih _ _ hl]; simpa [hl] using hres
          | invalid e =>
            simp only at hres ⊢
            cases hl : mapLoop fk fv rest acc with
            | none => simp [hl] at hres
            | some r' => rw [ih _ _ hl]; simpa [hl] using hres

theorem recLoop_mono (vid : Nat) (dv : PyVal) (data : List (PyVal × PyVal)) {fs gs : List Ev1}
    (h : LeL fs gs) :
    ∀ ks reqs r, recLoop vid dv data fs ks reqs = some r → recLoop vid dv data gs ks reqs = some r := by
  induction h with
  | nil => intro ks reqs r hres; simpa [recLoop] using hres
  | @cons f g fs gs hfg _ ih =>
    intro ks reqs r hres
    cases ks with
    | nil => simpa [recLoop] using hres
    | cons k ks =>
      cases reqs with
      | nil => simpa [recLoop] using hres
      | cons req reqs =>
        simp only [recLoop] at hres ⊢
        cases hd : dictGet data k with
        | none =>
          simp only [hd] at hres ⊢
          cases hl : recLoop vid dv data fs ks reqs with
          | none => simp [hl] at hres
          | some r' => rw [ih _ _ _ hl]; simpa [hl] using hres
        | some xv =>
          simp only [hd] at hres ⊢
          cases hx : f xv with
          | none => simp [hx] at hres
          | some p =>
            rw [hfg xv p hx]
            rw [hx] at hres
            obtain ⟨o, t⟩ := p
            cases o with
            | raised e => simpa using hres
            | valid w =>
              simp only at hres ⊢
              cases hl : recLoop vid dv data fs ks reqs with
              | none => simp [hl] at hres
              | some r' => rw [ih _ _ _ hl]; simpa [hl] using hres
            | invalid e =>
              simp only at hres ⊢
              cases hl : recLoop vid dv data fs ks reqs with
              | none => simp [hl] at hres
              | some r' => rw [ih _ _ _ hl]; simpa [hl] using hres

end Koda

namespace Koda

theorem seqStep_mono (k : SeqKind) (o : Oracle) (m : Mode) (vid : Nat) (ps aps : List Pred)
    (c : Option CoerceK) {f g : Ev1} (h : Le f g) (x : PyVal) (r : Out × List Ev)
    (hres : seqStep k o m vid ps aps c f x = some r) : seqStep k o m vid ps aps c g x = some r := by
  unfold seqStep at hres ⊢
  cases hp : seqPre k o m vid ps aps c x with
  | inl r' => simpa [hp] using hres
  | inr q =>
    obtain ⟨y, xs, t⟩ := q
    simp only [hp] at hres ⊢
    cases hl : loopItems f (k == .set) xs 0 true with
    | none => simp [hl] at hres
    | some r' => rw [loopItems_mono h _ _ _ _ _ hl]; simpa [hl] using hres

theorem ntupleStep_mono (o : Oracle) (vid : Nat) (oc : Option ObjCheck) (c : Option CoerceK)
    (lp : Nat) {fs gs : List Ev1} (h : LeL fs gs) (x : PyVal) (r : Out × List Ev)
    (hres : ntupleStep o vid oc c lp fs x = some r) : ntupleStep o vid oc c lp gs x = some r := by
  unfold ntupleStep at hres ⊢
  rw [← h.length]
  cases hp : ntuplePre o vid c lp fs.length x with
  | inl r' => simpa [hp] using hres
  | inr q =>
    obtain ⟨y, xs, t⟩ := q
    simp only [hp] at hres ⊢
    cases hl : loopFields fs xs 0 with
    | none => simp [hl] at hres
    | some r' => rw [loopFields_mono h _ _ _ hl]; simpa [hl] using hres

theorem mapStep_mono (o : Oracle) (m : Mode) (vid : Nat) (ps aps : List Pred) (c : Option CoerceK)
    {fk gk fv gv : Ev1} (hk : Le fk gk) (hv : Le fv gv) (x : PyVal) (r : Out × List Ev)
    (hres : mapStep o m vid ps aps c fk fv x = some r) : mapStep o m vid ps aps c gk gv x = some r := by
  unfold mapStep at hres ⊢
  cases hp : mapPre o m vid ps aps c x with
  | inl r' => simpa [hp] using hres
  | inr q =>
    obtain ⟨y, kvs, t⟩ := q
    simp only [hp] at hres ⊢
    cases hl : mapLoop fk fv kvs [] with
    | none => simp [hl] at hres
    | some r' => rw [mapLoop_mono hk hv _ _ _ hl]; simpa [hl] using hres

theorem recordStep_mono (o : Oracle) (m : Mode) (vid : Nat) (cfg : RecCfg) {fs gs : List Ev1}
    (h : LeL fs gs) (x : PyVal) (r : Out × List Ev)
    (hres : recordStep o m vid cfg fs x = some r) : recordStep o m vid cfg gs x = some r := by
  unfold recordStep at hres ⊢
  cases hp : recPre o m vid cfg x with
  | inl r' => simpa [hp] using hres
  | inr q =>
    obtain ⟨y, data, t⟩ := q
    simp only [hp] at hres ⊢
    cases hl : recLoop vid y data fs cfg.keys cfg.reqs with
    | none => simp [hl] at hres
    | some r' => rw [recLoop_mono vid y data h _ _ _ hl]; simpa [hl] using hres

theorem unionStep_mono (vid : Nat) {fs gs : List Ev1} (h : LeL fs gs) (x : PyVal) (r : Out × List Ev)
    (hres : unionStep vid fs x = some r) : unionStep vid gs x = some r := by
  unfold unionStep at hres ⊢
  cases hl : unionLoop x fs with
  | none => simp [hl] at hres
  | some r' => rw [unionLoop_mono h x _ hl]; simpa [hl] using hres

theorem maybeStep_mono (vid : Nat) {f g : Ev1} (h : Le f g) (x : PyVal) (r : Out × List Ev)
    (hres : maybeStep vid f x = some r) : maybeStep vid g x = some r := by
  cases x with
  | just oid v =>
    simp only [maybeStep] at hres ⊢
    cases hx : f v with
    | none => simp [hx] at hres
    | some p => rw [h v p hx]; simpa [hx] using hres
  | _ => simpa [maybeStep] using hres

theorem knrStep_mono {f g : Ev1} (h : Le f g) (x : PyVal) (r : Out × List Ev)
    (hres : knrStep f x = some r) : knrStep g x = some r := by
  unfold knrStep at hres ⊢
  cases hx : f x with
  | none => simp [hx] at hres
  | some p => rw [h x p hx]; simpa [hx] using hres

theorem userStep_mono (vid : Nat) (m : Mode) {f g : Ev1} (h : Le f g) (x : PyVal) (r : Out × List Ev)
    (hres : userStep vid m f x = some r) : userStep vid m g x = some r := by
  unfold userStep at hres ⊢
  cases hx : f x with
  | none => simp [hx] at hres
  | some p => rw [h x p hx]; simpa [hx] using hres

/-- one more unit of fuel never changes a produced result -/
theorem run_mono (o : Oracle) (env : Nat → V) (m : Mode) :
    ∀ n v x r, run o env m n v x = some r → run o env m (n + 1) v x = some r := by
  intro n
  induction n with
  | zero => intro v x r h; simp [run] at h
  | succ n ih =>
    intro v x r h
    have le : ∀ w, Le (run o env m n w) (run o env m (n + 1) w) := fun w a b hb => ih w a b hb
    cases v with
    | scalar vid tg c pre ps aps => simpa [run] using h
    | equals vid mt pre pid => simpa [run] using h
    | noneV vid c => simpa [run] using h
    | always vid => simpa [run] using h
    | isDict vid => simpa [run] using h
    | list vid item ps aps c =>
      simp only [run] at h ⊢; exact seqStep_mono _ _ _ _ _ _ _ (le item) _ _ h
    | set vid item ps aps c =>
      simp only [run] at h ⊢; exact seqStep_mono _ _ _ _ _ _ _ (le item) _ _ h
    | utuple vid item ps aps c =>
      simp only [run] at h ⊢; exact seqStep_mono _ _ _ _ _ _ _ (le item) _ _ h
    | ntuple vid fs oc c lp =>
      simp only [run] at h ⊢
      exact ntupleStep_mono _ _ _ _ _ (LeL.map _ _ le fs) _ _ h
    | map vid kv vv ps aps c =>
      simp only [run] at h ⊢; exact mapStep_mono _ _ _ _ _ _ (le kv) (le vv) _ _ h
    | record vid cfg vs =>
      simp only [run] at h ⊢
      exact recordStep_mono _ _ _ _ (LeL.map _ _ le vs) _ _ h
    | union vid vs =>
      simp only [run] at h ⊢
      exact unionStep_mono _ (LeL.map _ _ le vs) _ _ h
    | optional vid nv inner =>
      simp only [run] at h ⊢
      exact unionStep_mono _ (.cons (le nv) (.cons (le inner) .nil)) _ _ h
    | maybe vid inner => simp only [run] at h ⊢; exact maybeStep_mono _ (le inner) _ _ h
    | «lazy» vid ref => simp only [run] at h ⊢; exact ih _ _ _ h
    | knr vid inner => simp only [run] at h ⊢; exact knrStep_mono (le inner) _ _ h
    | user vid inner => simp only [run] at h ⊢; exact userStep_mono _ _ (le inner) _ _ h

/-- … and neither does any larger amount -/
theorem run_mono_le (o : Oracle) (env : Nat → V) (m : Mode) {n k : Nat} (hk : n ≤ k) (v : V)
    (x : PyVal) (r : Out × List Ev) (h : run o env m n v x = some r) : run o env m k v x = some r := by
  induction hk with
  | refl => exact h
  | step _ ih => exact run_mono _ _ _ _ _ _ _ ih

/-- `Run m v x r t`: validation of `x` by `v` terminates with outcome `r` and trace `t` -/
def Run (o : Oracle) (env : Nat → V) (m : Mode) (v : V) (x : PyVal) (r : Out) (t : List Ev) : Prop :=
  ∃ n, run o env m n v x = some (r, t)

/-- `Run` is a partial function: the outcome does not depend on how much fuel was supplied -/
theorem Run.unique {o : Oracle} {env : Nat → V} {m : Mode} {v : V} {x : PyVal} {r r' : Out}
    {t t' : List Ev} (h : Run o env m v x r t) (h' : Run o env m v x r' t') : r = r' ∧ t = t' := by
  obtain ⟨n, hn⟩ := h
  obtain ⟨k, hk⟩ := h'
  have a := run_mono_le o env m (Nat.le_max_left n k) v x _ hn
  have b := run_mono_le o env m (Nat.le_max_right n k) v x _ hk
  rw [a] at b
  simp only [Option.some.injEq, Prod.mk.injEq] at b
  exact b

end Koda
