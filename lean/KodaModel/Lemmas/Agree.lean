/-
  Sync/async agreement, step by step.

  `Rel evS evA`: whenever the sync child evaluator returns an outcome other than the guard's
  `AssertionError`, the async child evaluator returns the *same* outcome, and its trace contains no
  async-only event.  Every step preserves `Rel`; `run` therefore satisfies it (Properties/C06).
-/
import KodaModel.Lemmas.Mono

namespace Koda

/-- no async-only check was evaluated -/
def noA (t : List Ev) : Bool :=
  t.all (fun e => match e with | .apred _ => false | .aoc _ => false | _ => true)

@[simp] theorem noA_nil : noA [] = true := rfl
@[simp] theorem noA_append (a b : List Ev) : noA (a ++ b) = (noA a && noA b) := by
  simp [noA, List.all_append]
@[simp] theorem noA_cons (e : Ev) (t : List Ev) :
    noA (e :: t) = ((match e with | .apred _ => false | .aoc _ => false | _ => true) && noA t) := by
  simp [noA]

def Rel (evS evA : Ev1) : Prop :=
  ∀ x r t, evS x = some (r, t) → r ≠ .raised .assertion → ∃ ta, evA x = some (r, ta) ∧ noA ta = true

inductive RelL : List Ev1 → List Ev1 → Prop
  | nil : RelL [] []
  | cons {f g fs gs} : Rel f g → RelL fs gs → RelL (f :: fs) (g :: gs)

theorem RelL.length {fs gs} (h : RelL fs gs) : fs.length = gs.length := by
  induction h with
  | nil => rfl
  | cons _ _ ih => simp [ih]

theorem RelL.map {α} (F G : α → Ev1) (h : ∀ a, Rel (F a) (G a)) : ∀ l : List α, RelL (l.map F) (l.map G)
  | [] => .nil
  | a :: l => .cons (h a) (RelL.map F G h l)

/-! ### traces of the non-recursive parts contain no async-only event -/

theorem noA_pred_ev (p : Pred) : noA p.ev = true := by
  unfold Pred.ev; split <;> simp

theorem noA_runPreds (ps : List Pred) (x : PyVal) : noA (runPreds ps x).2.1 = true := by
  induction ps with
  | nil => simp [runPreds]
  | cons p ps ih =>
    simp only [runPreds]
    split
    · simp [noA_pred_ev]
    · simp [noA_pred_ev, ih]

theorem noA_proc_ev (p : Proc) : noA p.ev = true := by
  unfold Proc.ev; split <;> simp

theorem noA_runProcs (ps : List Proc) (x : PyVal) : noA (runProcs ps x).2 = true := by
  induction ps generalizing x with
  | nil => simp [runProcs]
  | cons p ps ih =>
    simp only [runProcs]
    split
    · simp [noA_proc_ev]
    · simp [noA_proc_ev, ih]

def Gate.trace : Gate → List Ev
  | .acc _ t => t | .rej _ t => t | .exn _ t => t

theorem noA_applyCoerce (o : Oracle) (tg d : Ty) (cls : ClassId) (c : CoerceK) (x : PyVal) :
    noA (applyCoerce o tg d cls c x).trace = true := by
  cases c with
  | dflt =>
    simp only [applyCoerce]
    cases defaultCoerce o tg x <;> simp [Gate.trace]
  | classOnly =>
    simp only [applyCoerce]
    cases x with
    | inst oid doid c' names vals =>
      simp only
      by_cases h1 : c' = cls
      · by_cases h2 : (cls.kind == 2 || cls.slots) = true <;> simp [h1, h2, Gate.trace]
      · simp [h1, Gate.trace]
    | _ => simp [Gate.trace]
  | user cid compat f =>
    simp only [applyCoerce]
    cases f x <;> simp [Gate.trace]

theorem noA_gate (o : Oracle) (tg d : Ty) (c : Option CoerceK) (x : PyVal) :
    noA (gate o tg d c x).trace = true := by
  cases c with
  | some c => exact noA_applyCoerce _ _ _ _ _ _
  | none =>
    simp only [gate]
    split <;> simp [Gate.trace]

theorem noA_runObjCheck (oc : Option ObjCheck) (vid : Nat) (obj : PyVal) :
    noA (runObjCheck oc vid obj).2 = true := by
  unfold runObjCheck
  split
  · simp
  · split <;> simp

/-- with no async predicates the two modes evaluate the same predicates -/
theorem contPreds_async_nil (ps : List Pred) (x : PyVal) :
    contPreds .async ps [] x = contPreds .sync ps [] x := by
  simp only [contPreds]
  split
  · rfl
  · simp [runAPreds]

theorem noA_contPreds_sync (ps aps : List Pred) (x : PyVal) : noA (contPreds .sync ps aps x).2.1 = true := by
  simp only [contPreds]
  split <;> simp [noA_runPreds]

/-! ### leaves -/

theorem scalarStep_agree (o : Oracle) (vid : Nat) (tg : Ty) (c : Option CoerceK) (pre : List Proc)
    (ps aps : List Pred) (x : PyVal) (r : Out) (t : List Ev)
    (h : scalarStep o .sync vid tg c pre ps aps x = (r, t)) (hr : r ≠ .raised .assertion) :
    scalarStep o .async vid tg c pre ps aps x = (r, t) ∧ noA t = true := by
  have haps : aps = [] := by
    by_cases ha : aps = []
    · exact ha
    · simp [scalarStep, ha] at h; exact absurd h.1.symm hr
  subst haps
  have e : scalarStep o .async vid tg c pre ps [] x = scalarStep o .sync vid tg c pre ps [] x := by
    simp [scalarStep, contPreds_async_nil]
  refine ⟨by rw [e, h], ?_⟩
  -- the trace: gate ++ processors ++ sync predicates
  simp only [scalarStep, ne_eq, not_true_eq_false, and_false, if_false] at h
  have hg := noA_gate o tg tg c x
  split at h
  · rename_i hgate
    rw [hgate] at hg
    simp only [Prod.mk.injEq] at h; rw [← h.2]; simpa [Gate.trace] using hg
  · rename_i hgate
    rw [hgate] at hg
    simp only [Prod.mk.injEq] at h; rw [← h.2]; simpa [Gate.trace] using hg
  · rename_i y t0 hgate
    rw [hgate] at hg
    simp only [Gate.trace] at hg
    have hp := noA_runProcs pre y
    split at h
    · rename_i e' t2 hpr
      rw [hpr] at hp
      simp only [Prod.mk.injEq] at h; rw [← h.2]; simp [hg, hp]
    · rename_i z t2 hpr
      rw [hpr] at hp
      have hc := noA_contPreds_sync ps [] z
      unfold finishPreds at h
      split at h
      · simp only [Prod.mk.injEq] at h; rw [← h.2]; simp [hg, hp, hc]
      · split at h <;> (simp only [Prod.mk.injEq] at h; rw [← h.2]; simp [hg, hp, hc])

theorem equalsStep_noA (vid : Nat) (mt : PyVal) (pre : List Proc) (pid : Nat) (x : PyVal) :
    noA (equalsStep vid mt pre pid x).2 = true := by
  unfold equalsStep
  split
  · have hp := noA_runProcs pre x
    split
    · rename_i e t hpr; rw [hpr] at hp; simpa using hp
    · rename_i z t hpr; rw [hpr] at hp
      split <;> simpa using hp
  · simp

theorem noneStep_noA (o : Oracle) (vid : Nat) (c : Option CoerceK) (x : PyVal) :
    noA (noneStep o vid c x).2 = true := by
  unfold noneStep
  split
  · rename_i c'
    have := noA_applyCoerce o .none .none default c' x
    split <;> simp_all [Gate.trace]
  · split <;> simp

/-! ### loops -/

theorem loopItems_agree {evS evA : Ev1} (h : Rel evS evA) (hq : Bool) :
    ∀ xs i ne rS, loopItems evS hq xs i ne = some rS → rS.r ≠ some .assertion →
      ∃ rA, loopItems evA hq xs i ne = some rA ∧ rA.ws = rS.ws ∧ rA.es = rS.es ∧ rA.r = rS.r ∧
        noA rA.t = true := by
  intro xs
  induction xs with
  | nil =>
    intro i ne rS hS _
    simp [loopItems] at hS
    subst hS
    exact ⟨⟨[], [], [], none⟩, rfl, rfl, rfl, rfl, rfl⟩
  | cons x xs ih =>
    intro i ne rS hS hne
    simp only [loopItems] at hS ⊢
    cases hx : evS x with
    | none => simp [hx] at hS
    | some p =>
      obtain ⟨o, t⟩ := p
      rw [hx] at hS
      cases o with
      | raised e =>
        simp only [Option.some.injEq] at hS
        subst hS
        have he : Out.raised e ≠ .raised .assertion := by
          intro hh; simp only [Out.raised.injEq] at hh; subst hh; exact hne rfl
        obtain ⟨ta, hA, hn⟩ := h x _ _ hx he
        exact ⟨⟨[], [], ta, some e⟩, by simp [hA], rfl, rfl, rfl, hn⟩
      | valid w =>
        obtain ⟨ta, hA, hn⟩ := h x _ _ hx (by simp)
        simp only [hA]
        simp only at hS
        split at hS
        · rename_i hc
          simp only [Option.some.injEq] at hS
          subst hS
          exact ⟨⟨[], [], ta, some .typeError⟩, by simp [hc], rfl, rfl, rfl, hn⟩
        · rename_i hc
          cases hl : loopItems evS hq xs (i + 1) ne with
          | none => simp [hl] at hS
          | some r' =>
            simp only [hl, Option.some.injEq] at hS
            subst hS
            obtain ⟨rA, hlA, h1, h2, h3, h4⟩ := ih _ _ _ hl hne
            exact ⟨⟨w :: rA.ws, rA.es, ta ++ rA.t, rA.r⟩, by simp [hc, hlA], by simp [h1], h2, h3,
              by simp [hn, h4]⟩
      | invalid e =>
        obtain ⟨ta, hA, hn⟩ := h x _ _ hx (by simp)
        simp only [hA]
        simp only at hS
        cases hl : loopItems evS hq xs (i + 1) false with
        | none => simp [hl] at hS
        | some r' =>
          simp only [hl, Option.some.injEq] at hS
          subst hS
          obtain ⟨rA, hlA, h1, h2, h3, h4⟩ := ih _ _ _ hl hne
          exact ⟨⟨rA.ws, (i, e) :: rA.es, ta ++ rA.t, rA.r⟩, by simp [hlA], h1, by simp [h2], h3,
            by simp [hn, h4]⟩

theorem loopFields_agree {fs gs : List Ev1} (h : RelL fs gs) :
    ∀ xs i rS, loopFields fs xs i = some rS → rS.r ≠ some .assertion →
      ∃ rA, loopFields gs xs i = some rA ∧ rA.ws = rS.ws ∧ rA.es = rS.es ∧ rA.r = rS.r ∧
        noA rA.t = true := by
  induction h with
  | nil =>
    intro xs i rS hS _
    simp [loopFields] at hS
    subst hS
    exact ⟨⟨[], [], [], none⟩, by simp [loopFields], rfl, rfl, rfl, rfl⟩
  | @cons f g fs gs hfg _ ih =>
    intro xs i rS hS hne
    cases xs with
    | nil =>
      simp [loopFields] at hS
      subst hS
      exact ⟨⟨[], [], [], none⟩, by simp [loopFields], rfl, rfl, rfl, rfl⟩
    | cons x xs =>
      simp only [loopFields] at hS ⊢
      cases hx : f x with
      | none => simp [hx] at hS
      | some p =>
        obtain ⟨o, t⟩ := p
        rw [hx] at hS
        cases o with
        | raised e =>
          simp only [Option.some.injEq] at hS
          subst hS
          have he : Out.raised e ≠ .raised .assertion := by
            intro hh; simp only [Out.raised.injEq] at hh; subst hh; exact hne rfl
          obtain ⟨ta, hA, hn⟩ := hfg x _ _ hx he
          exact ⟨⟨[], [], ta, some e⟩, by simp [hA], rfl, rfl, rfl, hn⟩
        | valid w =>
          obtain ⟨ta, hA, hn⟩ := hfg x _ _ hx (by simp)
          simp only [hA]
          simp only at hS
          cases hl : loopFields fs xs (i + 1) with
          | none => simp [hl] at hS
          | some r' =>
            simp only [hl, Option.some.injEq] at hS
            subst hS
            obtain ⟨rA, hlA, h1, h2, h3, h4⟩ := ih _ _ _ hl hne
            exact ⟨⟨w :: rA.ws, rA.es, ta ++ rA.t, rA.r⟩, by simp [hlA], by simp [h1], h2, h3,
              by simp [hn, h4]⟩
        | invalid e =>
          obtain ⟨ta, hA, hn⟩ := hfg x _ _ hx (by simp)
          simp only [hA]
          simp only at hS
          cases hl : loopFields fs xs (i + 1) with
          | none => simp [hl] at hS
          | some r' =>
            simp only [hl, Option.some.injEq] at hS
            subst hS
            obtain ⟨rA, hlA, h1, h2, h3, h4⟩ := ih _ _ _ hl hne
            exact ⟨⟨rA.ws, (i, e) :: rA.es, ta ++ rA.t, rA.r⟩, by simp [hlA], h1, by simp [h2], h3,
              by simp [hn, h4]⟩

theorem unionLoop_agree {fs gs : List Ev1} (h : RelL fs gs) (x : PyVal) :
    ∀ w es t r, unionLoop x fs = some (w, es, t, r) → r ≠ some .assertion →
      ∃ ta, unionLoop x gs = some (w, es, ta, r) ∧ noA ta = true := by
  induction h with
  | nil =>
    intro w es t r hS _
    simp [unionLoop] at hS
    obtain ⟨rfl, rfl, rfl, rfl⟩ := hS
    exact ⟨[], by simp [unionLoop], rfl⟩
  | @cons f g fs gs hfg _ ih =>
    intro w es t r hS hne
    simp only [unionLoop] at hS ⊢
    cases hx : f x with
    | none => simp [hx] at hS
    | some p =>
      obtain ⟨o, t0⟩ := p
      rw [hx] at hS
      cases o with
      | raised e =>
        simp only [Option.some.injEq, Prod.mk.injEq] at hS
        obtain ⟨rfl, rfl, rfl, rfl⟩ := hS
        have he : Out.raised e ≠ .raised .assertion := by
          intro hh; simp only [Out.raised.injEq] at hh; subst hh; exact hne rfl
        obtain ⟨ta, hA, hn⟩ := hfg x _ _ hx he
        exact ⟨ta, by simp [hA], hn⟩
      | valid w' =>
        simp only [Option.some.injEq, Prod.mk.injEq] at hS
        obtain ⟨rfl, rfl, rfl, rfl⟩ := hS
        obtain ⟨ta, hA, hn⟩ := hfg x _ _ hx (by simp)
        exact ⟨ta, by simp [hA], hn⟩
      | invalid e =>
        obtain ⟨ta, hA, hn⟩ := hfg x _ _ hx (by simp)
        simp only [hA]
        simp only at hS
        cases hl : unionLoop x fs with
        | none => simp [hl] at hS
        | some q =>
          obtain ⟨w', es', t', r'⟩ := q
          simp only [hl, Option.some.injEq, Prod.mk.injEq] at hS
          obtain ⟨rfl, rfl, rfl, rfl⟩ := hS
          obtain ⟨ta', hlA, hn'⟩ := ih _ _ _ _ hl hne
          exact ⟨ta ++ ta', by simp [hlA], by simp [hn, hn']⟩

theorem mapLoop_agree {fk gk fv gv : Ev1} (hk : Rel fk gk) (hv : Rel fv gv) :
    ∀ kvs acc rS, mapLoop fk fv kvs acc = some rS → rS.r ≠ some .assertion →
      ∃ rA, mapLoop gk gv kvs acc = some rA ∧ rA.out = rS.out ∧ rA.ks = rS.ks ∧ rA.shape = rS.shape ∧
        rA.errs = rS.errs ∧ rA.r = rS.r ∧ noA rA.t = true := by
  intro kvs
  induction kvs with
  | nil =>
    intro acc rS hS _
    simp [mapLoop] at hS
    subst hS
    exact ⟨⟨acc, [], [], [], [], none⟩, by simp [mapLoop], rfl, rfl, rfl, rfl, rfl, rfl⟩
  | cons kv rest ih =>
    intro acc rS hS hne
    obtain ⟨k, v⟩ := kv
    simp only [mapLoop] at hS ⊢
    cases hx : fk k with
    | none => simp [hx] at hS
    | some p =>
      obtain ⟨ko, tk⟩ := p
      rw [hx] at hS
      cases ko with
      | raised e =>
        simp only [Option.some.injEq] at hS
        subst hS
        have he : Out.raised e ≠ .raised .assertion := by
          intro hh; simp only [Out.raised.injEq] at hh; subst hh; exact hne rfl
        obtain ⟨ta, hA, hn⟩ := hk k _ _ hx he
        exact ⟨⟨acc, [], [], [], ta, some e⟩, by simp [hA], rfl, rfl, rfl, rfl, rfl, hn⟩
      | valid kw =>
        obtain ⟨tka, hKA, hkn⟩ := hk k _ _ hx (by simp)
        simp only [hKA]
        simp only at hS
        cases hy : fv v with
        | none => simp [hy] at hS
        | some q =>
          obtain ⟨vo, tv⟩ := q
          rw [hy] at hS
          cases vo with
          | raised e =>
            simp only [Option.some.injEq] at hS
            subst hS
            have he : Out.raised e ≠ .raised .assertion := by
              intro hh; simp only [Out.raised.injEq] at hh; subst hh; exact hne rfl
            obtain ⟨ta, hA, hn⟩ := hv v _ _ hy he
            exact ⟨⟨acc, [], [], [], tka ++ ta, some e⟩, by simp [hA], rfl, rfl, rfl, rfl, rfl,
              by simp [hkn, hn]⟩
          | valid vw =>
            obtain ⟨tva, hVA, hvn⟩ := hv v _ _ hy (by simp)
            simp only [hVA]
            simp only at hS
            split at hS
            · rename_i hc
              simp only [Option.some.injEq] at hS
              subst hS
              exact ⟨⟨acc, [], [], [], tka ++ tva, some .typeError⟩, by simp [hc], rfl, rfl, rfl, rfl, rfl,
                by simp [hkn, hvn]⟩
            · rename_i hc
              cases hl : mapLoop fk fv rest (dictSet acc kw vw) with
              | none => simp [hl] at hS
              | some r' =>
                simp only [hl, Option.some.injEq] at hS
                subst hS
                obtain ⟨rA, hlA, h1, h2, h3, h4, h5, h6⟩ := ih _ _ hl hne
                exact ⟨{ rA with t := tka ++ tva ++ rA.t }, by simp [hc, hlA], h1, h2, h3, h4, h5,
                  by simp [hkn, hvn, h6]⟩
          | invalid ve =>
            obtain ⟨tva, hVA, hvn⟩ := hv v _ _ hy (by simp)
            simp only [hVA]
            simp only at hS
            cases hl : mapLoop fk fv rest acc with
            | none => simp [hl] at hS
            | some r' =>
              simp only [hl, Option.some.injEq] at hS
              subst hS
              obtain ⟨rA, hlA, h1, h2, h3, h4, h5, h6⟩ := ih _ _ hl hne
              refine ⟨_, by simp [hlA]; rfl, ?_, ?_, ?_, ?_, ?_, ?_⟩ <;> simp [h1, h2, h3, h4, h5, h6, hkn, hvn]
      | invalid ke =>
        obtain ⟨tka, hKA, hkn⟩ := hk k _ _ hx (by simp)
        simp only [hKA]
        simp only at hS
        cases hy : fv v with
        | none => simp [hy] at hS
        | some q =>
          obtain ⟨vo, tv⟩ := q
          rw [hy] at hS
          cases vo with
          | raised e =>
            simp only [Option.some.injEq] at hS
            subst hS
            have he : Out.raised e ≠ .raised .assertion := by
              intro hh; simp only [Out.raised.injEq] at hh; subst hh; exact hne rfl
            obtain ⟨ta, hA, hn⟩ := hv v _ _ hy he
            exact ⟨⟨acc, [], [], [], tka ++ ta, some e⟩, by simp [hA], rfl, rfl, rfl, rfl, rfl,
              by simp [hkn, hn]⟩
          | valid vw =>
            obtain ⟨tva, hVA, hvn⟩ := hv v _ _ hy (by simp)
            simp only [hVA]
            simp only at hS
            cases hl : mapLoop fk fv rest acc with
            | none => simp [hl] at hS
            | some r' =>
              simp only [hl, Option.some.injEq] at hS
              subst hS
              obtain ⟨rA, hlA, h1, h2, h3, h4, h5, h6⟩ := ih _ _ hl hne
              refine ⟨_, by simp [hlA]; rfl, ?_, ?_, ?_, ?_, ?_, ?_⟩ <;> simp [h1, h2, h3, h4, h5, h6, hkn, hvn]
          | invalid ve =>
            obtain ⟨tva, hVA, hvn⟩ := hv v _ _ hy (by simp)
            simp only [hVA]
            simp only at hS
            cases hl : mapLoop fk fv rest acc with
            | none => simp [hl] at hS
            | some r' =>
              simp only [hl, Option.some.injEq] at hS
              subst hS
              obtain ⟨rA, hlA, h1, h2, h3, h4, h5, h6⟩ := ih _ _ hl hne
              refine ⟨_, by simp [hlA]; rfl, ?_, ?_, ?_, ?_, ?_, ?_⟩ <;> simp [h1, h2, h3, h4, h5, h6, hkn, hvn]

theorem recLoop_agree (vid : Nat) (dv : PyVal) (data : List (PyVal × PyVal)) {fs gs : List Ev1}
    (h : RelL fs gs) :
    ∀ ks reqs rS, recLoop vid dv data fs ks reqs = some rS → rS.r ≠ some .assertion →
      ∃ rA, recLoop vid dv data gs ks reqs = some rA ∧ rA.got = rS.got ∧ rA.ks = rS.ks ∧
        rA.errs = rS.errs ∧ rA.r = rS.r ∧ noA rA.t = true := by
  induction h with
  | nil =>
    intro ks reqs rS hS _
    simp [recLoop] at hS
    subst hS
    exact ⟨⟨[], [], [], [], none⟩, by simp [recLoop], rfl, rfl, rfl, rfl, rfl⟩
  | @cons f g fs gs hfg _ ih =>
    intro ks reqs rS hS hne
    cases ks with
    | nil =>
      simp [recLoop] at hS; subst hS
      exact ⟨⟨[], [], [], [], none⟩, by simp [recLoop], rfl, rfl, rfl, rfl, rfl⟩
    | cons k ks =>
      cases reqs with
      | nil =>
        simp [recLoop] at hS; subst hS
        exact ⟨⟨[], [], [], [], none⟩, by simp [recLoop], rfl, rfl, rfl, rfl, rfl⟩
      | cons req reqs =>
        simp only [recLoop] at hS ⊢
        cases hd : dictGet data k with
        | none =>
          simp only [hd] at hS ⊢
          cases hl : recLoop vid dv data fs ks reqs with
          | none => simp [hl] at hS
          | some r' =>
            simp only [hl] at hS
            have hne' : r'.r ≠ some .assertion := by
              split at hS <;> (simp only [Option.some.injEq] at hS; subst hS; exact hne)
            obtain ⟨rA, hlA, h1, h2, h3, h4, h5⟩ := ih _ _ _ hl hne'
            simp only [hlA]
            split at hS <;> (simp only [Option.some.injEq] at hS; subst hS)
            · rename_i hreq
              refine ⟨_, by simp [hreq]; rfl, ?_, ?_, ?_, ?_, ?_⟩ <;> simp [h1, h2, h3, h4, h5]
            · rename_i hreq
              refine ⟨_, by simp [hreq]; rfl, ?_, ?_, ?_, ?_, ?_⟩ <;> simp [h1, h2, h3, h4, h5]
        | some xv =>
          simp only [hd] at hS ⊢
          cases hx : f xv with
          | none => simp [hx] at hS
          | some p =>
            obtain ⟨o, t⟩ := p
            rw [hx] at hS
            cases o with
            | raised e =>
              simp only [Option.some.injEq] at hS
              subst hS
              have he : Out.raised e ≠ .raised .assertion := by
                intro hh; simp only [Out.raised.injEq] at hh; subst hh; exact hne rfl
              obtain ⟨ta, hA, hn⟩ := hfg xv _ _ hx he
              exact ⟨⟨[], [], [], ta, some e⟩, by simp [hA], rfl, rfl, rfl, rfl, hn⟩
            | valid w =>
              obtain ⟨ta, hA, hn⟩ := hfg xv _ _ hx (by simp)
              simp only [hA]
              simp only at hS
              cases hl : recLoop vid dv data fs ks reqs with
              | none => simp [hl] at hS
              | some r' =>
                simp only [hl, Option.some.injEq] at hS
                subst hS
                obtain ⟨rA, hlA, h1, h2, h3, h4, h5⟩ := ih _ _ _ hl hne
                refine ⟨_, by simp [hlA]; rfl, ?_, ?_, ?_, ?_, ?_⟩ <;> simp [h1, h2, h3, h4, h5, hn]
            | invalid e =>
              obtain ⟨ta, hA, hn⟩ := hfg xv _ _ hx (by simp)
              simp only [hA]
              simp only at hS
              cases hl : recLoop vid dv data fs ks reqs with
              | none => simp [hl] at hS
              | some r' =>
                simp only [hl, Option.some.injEq] at hS
                subst hS
                obtain ⟨rA, hlA, h1, h2, h3, h4, h5⟩ := ih _ _ _ hl hne
                refine ⟨_, by simp [hlA]; rfl, ?_, ?_, ?_, ?_, ?_⟩ <;> simp [h1, h2, h3, h4, h5, hn]

/-! ### container levels: the two modes coincide once the guard passed -/

theorem seqPre_async_nil (k : SeqKind) (o : Oracle) (vid : Nat) (ps : List Pred) (c : Option CoerceK)
    (x : PyVal) : seqPre k o .async vid ps [] c x = seqPre k o .sync vid ps [] c x := by
  simp [seqPre, contPreds_async_nil]

theorem mapPre_async_nil (o : Oracle) (vid : Nat) (ps : List Pred) (c : Option CoerceK) (x : PyVal) :
    mapPre o .async vid ps [] c x = mapPre o .sync vid ps [] c x := by
  simp [mapPre, contPreds_async_nil]

def preTrace {α} : (Out × List Ev) ⊕ (PyVal × α × List Ev) → List Ev
  | .inl r => r.2
  | .inr q => q.2.2

theorem noA_seqPre (k : SeqKind) (o : Oracle) (vid : Nat) (ps aps : List Pred) (c : Option CoerceK)
    (x : PyVal) : noA (preTrace (seqPre k o .sync vid ps aps c x)) = true := by
  unfold seqPre
  split
  · simp [preTrace]
  · have hg := noA_gate o k.gateTy k.destTy c x
    split
    · rename_i hgate; rw [hgate] at hg; simpa [preTrace, Gate.trace] using hg
    · rename_i hgate; rw [hgate] at hg; simpa [preTrace, Gate.trace] using hg
    · rename_i y t hgate
      rw [hgate] at hg
      simp only [Gate.trace] at hg
      have hc := noA_contPreds_sync ps aps y
      split
      · rename_i hp; rw [hp] at hc; simp [preTrace, hg]; simpa using hc
      · rename_i f t2 hp
        rw [hp] at hc
        simp only at hc
        split
        · simp [preTrace, hg, hc]
        · split <;> simp [preTrace, hg, hc]

theorem noA_ntuplePre (o : Oracle) (vid : Nat) (c : Option CoerceK) (lp n : Nat) (x : PyVal) :
    noA (preTrace (ntuplePre o vid c lp n x)) = true := by
  unfold ntuplePre
  have hg := noA_gate o .tuple .list c x
  split
  · rename_i hgate; rw [hgate] at hg; simpa [preTrace, Gate.trace] using hg
  · rename_i hgate; rw [hgate] at hg; simpa [preTrace, Gate.trace] using hg
  · rename_i y t hgate
    rw [hgate] at hg
    simp only [Gate.trace] at hg
    split
    · simp [preTrace, hg]
    · split
      · simp [preTrace, hg]
      · split <;> simp [preTrace, hg]

theorem noA_mapPre (o : Oracle) (vid : Nat) (ps aps : List Pred) (c : Option CoerceK) (x : PyVal) :
    noA (preTrace (mapPre o .sync vid ps aps c x)) = true := by
  unfold mapPre
  split
  · simp [preTrace]
  · have hg := noA_gate o .dict .dict c x
    split
    · rename_i hgate; rw [hgate] at hg; simpa [preTrace, Gate.trace] using hg
    · rename_i hgate; rw [hgate] at hg; simpa [preTrace, Gate.trace] using hg
    · rename_i y t hgate
      rw [hgate] at hg
      simp only [Gate.trace] at hg
      have hc := noA_contPreds_sync ps aps y
      split
      · rename_i hp; rw [hp] at hc; simp [preTrace, hg]; simpa using hc
      · rename_i f t2 hp
        rw [hp] at hc
        simp only at hc
        split
        · simp [preTrace, hg, hc]
        · split <;> simp [preTrace, hg, hc]

theorem noA_recGate (o : Oracle) (cfg : RecCfg) (x : PyVal) : noA (recGate o cfg x).trace = true := by
  unfold recGate
  split
  · split <;> simp [Gate.trace]
  · split <;> simp [Gate.trace]
  · split
    · exact noA_applyCoerce _ _ _ _ _ _
    · split <;> simp [Gate.trace]
  · split
    · exact noA_applyCoerce _ _ _ _ _ _
    · split
      · simp [Gate.trace]
      · cases x with
        | inst oid doid c' names vals =>
          simp only
          by_cases h1 : c' = cfg.cls
          · by_cases h2 : (decide (cfg.kind = .namedtuple) || cfg.cls.slots) = true <;> simp [h1, h2, Gate.trace]
          · simp [h1, Gate.trace]
        | _ => simp [Gate.trace]

theorem noA_recPre (o : Oracle) (m : Mode) (vid : Nat) (cfg : RecCfg) (x : PyVal) :
    noA (preTrace (recPre o m vid cfg x)) = true := by
  unfold recPre
  split
  · simp [preTrace]
  · have hg := noA_recGate o cfg x
    split
    · rename_i hgate; rw [hgate] at hg; simpa [preTrace, Gate.trace] using hg
    · rename_i hgate; rw [hgate] at hg; simpa [preTrace, Gate.trace] using hg
    · rename_i y t hgate
      rw [hgate] at hg
      simp only [Gate.trace] at hg
      split
      · simp [preTrace, hg]
      · split <;> simp [preTrace, hg]

/-- the record container level does not depend on the mode once the sync guard passed -/
theorem recPre_async (o : Oracle) (vid : Nat) (cfg : RecCfg) (x : PyVal) (h : cfg.aoc = none) :
    recPre o .async vid cfg x = recPre o .sync vid cfg x := by
  simp [recPre, h]

/-! ### steps -/

theorem finishSeq_congr (k : SeqKind) (vid : Nat) (y : PyVal) (a b : LoopR)
    (h1 : a.ws = b.ws) (h2 : a.es = b.es) (h3 : a.r = b.r) : finishSeq k vid y a = finishSeq k vid y b := by
  simp [finishSeq, h1, h2, h3]

theorem finishSeq_assert (k : SeqKind) (vid : Nat) (y : PyVal) (a : LoopR)
    (h : finishSeq k vid y a ≠ .raised .assertion) : a.r ≠ some .assertion := by
  intro hr; apply h; simp [finishSeq, hr]

theorem seqStep_agree (k : SeqKind) (o : Oracle) (vid : Nat) (ps aps : List Pred) (c : Option CoerceK)
    {evS evA : Ev1} (hrel : Rel evS evA) : Rel (seqStep k o .sync vid ps aps c evS) (seqStep k o .async vid ps aps c evA) := by
  intro x r t h hr
  by_cases ha : aps = []
  · subst ha
    unfold seqStep at h ⊢
    rw [seqPre_async_nil]
    have hn := noA_seqPre k o vid ps [] c x
    cases hp : seqPre k o .sync vid ps [] c x with
    | inl r' =>
      rw [hp] at h hn
      simp only [Option.some.injEq] at h
      subst h
      exact ⟨t, rfl, by simpa [preTrace] using hn⟩
    | inr q =>
      obtain ⟨y, xs, t0⟩ := q
      rw [hp] at h hn
      simp only [preTrace] at hn
      simp only at h ⊢
      cases hl : loopItems evS (k == .set) xs 0 true with
      | none => simp [hl] at h
      | some rS =>
        simp only [hl, Option.some.injEq, Prod.mk.injEq] at h
        obtain ⟨h1, rfl⟩ := h
        subst h1
        obtain ⟨rA, hlA, e1, e2, e3, e4⟩ := loopItems_agree hrel _ _ _ _ _ hl (finishSeq_assert _ _ _ _ hr)
        exact ⟨t0 ++ rA.t, by simp [hlA, finishSeq_congr k vid y rA rS e1 e2 e3], by simp [hn, e4]⟩
  · simp [seqStep, seqPre, ha] at h
    exact absurd h.1.symm hr

theorem ntupleFinish_noA (vid : Nat) (oc : Option ObjCheck) (y : PyVal) (t : List Ev) (r : LoopR)
    (h1 : noA t = true) (h2 : noA r.t = true) : noA (ntupleFinish vid oc y t r).2 = true := by
  unfold ntupleFinish
  split
  · simp [h1, h2]
  · split
    · simp [h1, h2]
    · simp [h1, h2, noA_runObjCheck]

theorem ntupleFinish_congr (vid : Nat) (oc : Option ObjCheck) (y : PyVal) (t : List Ev) (a b : LoopR)
    (h1 : a.ws = b.ws) (h2 : a.es = b.es) (h3 : a.r = b.r) :
    (ntupleFinish vid oc y t a).1 = (ntupleFinish vid oc y t b).1 := by
  simp only [ntupleFinish, h1, h2, h3]
  split
  · rfl
  · split <;> rfl

theorem ntupleFinish_assert (vid : Nat) (oc : Option ObjCheck) (y : PyVal) (t : List Ev) (a : LoopR)
    (h : (ntupleFinish vid oc y t a).1 ≠ .raised .assertion) : a.r ≠ some .assertion := by
  intro hr; apply h; simp [ntupleFinish, hr]

theorem ntupleStep_agree (o : Oracle) (vid : Nat) (oc : Option ObjCheck) (c : Option CoerceK) (lp : Nat)
    {fs gs : List Ev1} (hrel : RelL fs gs) : Rel (ntupleStep o vid oc c lp fs) (ntupleStep o vid oc c lp gs) := by
  intro x r t h hr
  unfold ntupleStep at h ⊢
  rw [← hrel.length]
  have hn := noA_ntuplePre o vid c lp fs.length x
  cases hp : ntuplePre o vid c lp fs.length x with
  | inl r' =>
    rw [hp] at h hn
    simp only [Option.some.injEq] at h
    subst h
    exact ⟨t, rfl, by simpa [preTrace] using hn⟩
  | inr q =>
    obtain ⟨y, xs, t0⟩ := q
    rw [hp] at h hn
    simp only [preTrace] at hn
    simp only at h ⊢
    cases hl : loopFields fs xs 0 with
    | none => simp [hl] at h
    | some rS =>
      simp only [hl, Option.some.injEq] at h
      have hr' : (ntupleFinish vid oc y t0 rS).1 ≠ .raised .assertion := by rw [h]; exact hr
      obtain ⟨rA, hlA, e1, e2, e3, e4⟩ := loopFields_agree hrel _ _ _ hl (ntupleFinish_assert _ _ _ _ _ hr')
      refine ⟨(ntupleFinish vid oc y t0 rA).2, ?_, ntupleFinish_noA _ _ _ _ _ hn e4⟩
      have := ntupleFinish_congr vid oc y t0 rA rS e1 e2 e3
      rw [h] at this
      simp only [hlA, Option.some.injEq]
      exact Prod.ext this rfl

theorem mapFinish_agree (vid : Nat) (y : PyVal) (t : List Ev) (a b : MapR)
    (h1 : a.out = b.out) (h2 : a.ks = b.ks) (h3 : a.shape = b.shape) (h4 : a.errs = b.errs) (h5 : a.r = b.r)
    (hn : noA t = true) (hn' : noA a.t = true) :
    (mapFinish vid y t a).1 = (mapFinish vid y t b).1 ∧ noA (mapFinish vid y t a).2 = true := by
  simp only [mapFinish, h1, h2, h3, h4, h5]
  split
  · simp [hn, hn']
  · split <;> simp [hn, hn']

theorem mapStep_agree (o : Oracle) (vid : Nat) (ps aps : List Pred) (c : Option CoerceK)
    {fk gk fv gv : Ev1} (hk : Rel fk gk) (hv : Rel fv gv) :
    Rel (mapStep o .sync vid ps aps c fk fv) (mapStep o .async vid ps aps c gk gv) := by
  intro x r t h hr
  by_cases ha : aps = []
  · subst ha
    unfold mapStep at h ⊢
    rw [mapPre_async_nil]
    have hn := noA_mapPre o vid ps [] c x
    cases hp : mapPre o .sync vid ps [] c x with
    | inl r' =>
      rw [hp] at h hn
      simp only [Option.some.injEq] at h
      subst h
      exact ⟨t, rfl, by simpa [preTrace] using hn⟩
    | inr q =>
      obtain ⟨y, kvs, t0⟩ := q
      rw [hp] at h hn
      simp only [preTrace] at hn
      simp only at h ⊢
      cases hl : mapLoop fk fv kvs [] with
      | none => simp [hl] at h
      | some rS =>
        simp only [hl, Option.some.injEq] at h
        have hne : rS.r ≠ some .assertion := by
          intro hh
          apply hr
          have : (mapFinish vid y t0 rS).1 = .raised .assertion := by simp [mapFinish, hh]
          rw [h] at this; exact this
        obtain ⟨rA, hlA, e1, e2, e3, e4, e5, e6⟩ := mapLoop_agree hk hv _ _ _ hl hne
        obtain ⟨c1, c2⟩ := mapFinish_agree vid y t0 rA rS e1 e2 e3 e4 e5 hn e6
        rw [h] at c1
        exact ⟨(mapFinish vid y t0 rA).2, by simp only [hlA, Option.some.injEq]; exact Prod.ext c1 rfl, c2⟩
  · simp [mapStep, mapPre, ha] at h
    exact absurd h.1.symm hr

theorem recFinish_agree (vid : Nat) (cfg : RecCfg) (y : PyVal) (t : List Ev) (a b : RecR)
    (haoc : cfg.aoc = none)
    (h1 : a.got = b.got) (h2 : a.ks = b.ks) (h3 : a.errs = b.errs) (h4 : a.r = b.r)
    (hn : noA t = true) (hn' : noA a.t = true) :
    (recFinish .async vid cfg y t a).1 = (recFinish .sync vid cfg y t b).1 ∧
      noA (recFinish .async vid cfg y t a).2 = true := by
  simp only [recFinish, h1, h2, h3, h4, runAObjCheck, haoc]
  have ho := noA_runObjCheck cfg.oc vid (recBuild cfg b.got)
  split
  · simp [hn, hn']
  · split
    · simp [hn, hn']
    · split
      · simp [hn, hn', ho]
        split <;> simp
      · simp [hn, hn', ho]
        split <;> simp

theorem recordStep_agree (o : Oracle) (vid : Nat) (cfg : RecCfg) {fs gs : List Ev1} (hrel : RelL fs gs) :
    Rel (recordStep o .sync vid cfg fs) (recordStep o .async vid cfg gs) := by
  intro x r t h hr
  by_cases ha : cfg.aoc = none
  · unfold recordStep at h ⊢
    rw [recPre_async o vid cfg x ha]
    have hn := noA_recPre o .sync vid cfg x
    cases hp : recPre o .sync vid cfg x with
    | inl r' =>
      rw [hp] at h hn
      simp only [Option.some.injEq] at h
      subst h
      exact ⟨t, rfl, by simpa [preTrace] using hn⟩
    | inr q =>
      obtain ⟨y, data, t0⟩ := q
      rw [hp] at h hn
      simp only [preTrace] at hn
      simp only at h ⊢
      cases hl : recLoop vid y data fs cfg.keys cfg.reqs with
      | none => simp [hl] at h
      | some rS =>
        simp only [hl, Option.some.injEq] at h
        have hne : rS.r ≠ some .assertion := by
          intro hh
          apply hr
          have : (recFinish .sync vid cfg y t0 rS).1 = .raised .assertion := by simp [recFinish, hh]
          rw [h] at this; exact this
        obtain ⟨rA, hlA, e1, e2, e3, e4, e5⟩ := recLoop_agree vid y data hrel _ _ _ hl hne
        obtain ⟨c1, c2⟩ := recFinish_agree vid cfg y t0 rA rS ha e1 e2 e3 e4 hn e5
        rw [h] at c1
        exact ⟨(recFinish .async vid cfg y t0 rA).2,
          by simp only [hlA, Option.some.injEq]; exact Prod.ext c1 rfl, c2⟩
  · have : cfg.aoc.isSome = true := by
      cases hc : cfg.aoc with
      | none => exact absurd hc ha
      | some _ => rfl
    simp [recordStep, recPre, this] at h
    exact absurd h.1.symm hr

theorem unionStep_agree (vid : Nat) {fs gs : List Ev1} (hrel : RelL fs gs) :
    Rel (unionStep vid fs) (unionStep vid gs) := by
  intro x r t h hr
  unfold unionStep at h ⊢
  cases hl : unionLoop x fs with
  | none => simp [hl] at h
  | some q =>
    obtain ⟨w, es, t', rr⟩ := q
    have hne : rr ≠ some .assertion := by
      intro hh; subst hh; simp [hl] at h; exact hr h.1.symm
    obtain ⟨ta, hlA, hn⟩ := unionLoop_agree hrel x _ _ _ _ hl hne
    rw [hl] at h
    rw [hlA]
    cases rr with
    | some e =>
      simp only [Option.some.injEq, Prod.mk.injEq] at h
      exact ⟨ta, by simp [h.1], hn⟩
    | none =>
      cases w with
      | some w' =>
        simp only [Option.some.injEq, Prod.mk.injEq] at h
        exact ⟨ta, by simp [h.1], hn⟩
      | none =>
        simp only [Option.some.injEq, Prod.mk.injEq] at h
        exact ⟨ta, by simp [h.1], hn⟩

theorem maybeStep_agree (vid : Nat) {f g : Ev1} (hrel : Rel f g) : Rel (maybeStep vid f) (maybeStep vid g) := by
  intro x r t h hr
  cases x with
  | just oid v =>
    simp only [maybeStep] at h ⊢
    cases hx : f v with
    | none => simp [hx] at h
    | some p =>
      obtain ⟨o, t0⟩ := p
      rw [hx] at h
      cases o with
      | valid w =>
        simp only [Option.some.injEq, Prod.mk.injEq] at h
        obtain ⟨ta, hA, hn⟩ := hrel v _ _ hx (by simp)
        obtain ⟨rfl, rfl⟩ := h
        exact ⟨ta, by simp [hA], hn⟩
      | invalid e =>
        simp only [Option.some.injEq, Prod.mk.injEq] at h
        obtain ⟨ta, hA, hn⟩ := hrel v _ _ hx (by simp)
        obtain ⟨rfl, rfl⟩ := h
        exact ⟨ta, by simp [hA], hn⟩
      | raised e =>
        simp only [Option.some.injEq, Prod.mk.injEq] at h
        have he : Out.raised e ≠ .raised .assertion := by rw [h.1]; exact hr
        obtain ⟨ta, hA, hn⟩ := hrel v _ _ hx he
        obtain ⟨rfl, rfl⟩ := h
        exact ⟨ta, by simp [hA], hn⟩
  | _ =>
    simp only [maybeStep, Option.some.injEq, Prod.mk.injEq] at h ⊢
    exact ⟨[], ⟨h.1, rfl⟩, rfl⟩

theorem knrStep_agree {f g : Ev1} (hrel : Rel f g) : Rel (knrStep f) (knrStep g) := by
  intro x r t h hr
  unfold knrStep at h ⊢
  cases hx : f x with
  | none => simp [hx] at h
  | some p =>
    obtain ⟨o, t0⟩ := p
    rw [hx] at h
    cases o with
    | valid w =>
      simp only [Option.some.injEq, Prod.mk.injEq] at h
      obtain ⟨ta, hA, hn⟩ := hrel x _ _ hx (by simp)
      obtain ⟨rfl, rfl⟩ := h
      exact ⟨ta, by simp [hA], hn⟩
    | invalid e =>
      simp only [Option.some.injEq, Prod.mk.injEq] at h
      obtain ⟨ta, hA, hn⟩ := hrel x _ _ hx (by simp)
      obtain ⟨rfl, rfl⟩ := h
      exact ⟨ta, by simp [hA], hn⟩
    | raised e =>
      simp only [Option.some.injEq, Prod.mk.injEq] at h
      have he : Out.raised e ≠ .raised .assertion := by rw [h.1]; exact hr
      obtain ⟨ta, hA, hn⟩ := hrel x _ _ hx he
      obtain ⟨rfl, rfl⟩ := h
      exact ⟨ta, by simp [hA], hn⟩

theorem userStep_agree (vid : Nat) {f g : Ev1} (hrel : Rel f g) :
    Rel (userStep vid .sync f) (userStep vid .async g) := by
  intro x r t h hr
  unfold userStep at h ⊢
  cases hx : f x with
  | none => simp [hx] at h
  | some p =>
    obtain ⟨o, t0⟩ := p
    rw [hx] at h
    simp only [Option.some.injEq, Prod.mk.injEq] at h
    obtain ⟨rfl, rfl⟩ := h
    obtain ⟨ta, hA, hn⟩ := hrel x _ _ hx hr
    exact ⟨.uv vid .async :: ta, by simp [hA], by simp [hn]⟩

end Koda
