/-
  C06 — Sync and async validation agree; async-only checks are never silently skipped.
-/
import KodaModel.Lemmas.Agree

namespace Koda

/-- **Agreement, for every validator tree, input and amount of fuel**: if the synchronous run
    returns an outcome `r` other than the guard's `AssertionError`, the asynchronous run of the same
    input returns the *same* outcome — same verdict, same payload, the same error tree with the same
    values (object identities included) and the same validator identities — and evaluated no
    async-only predicate or object check. -/
theorem C06_agree (o : Oracle) (env : Nat → V) :
    ∀ n v, Rel (run o env .sync n v) (run o env .async n v) := by
  intro n
  induction n with
  | zero => intro v x r t h; simp [run] at h
  | succ n ih =>
    intro v
    cases v with
    | scalar vid tg c pre ps aps =>
      intro x r t h hr
      simp only [run, Option.some.injEq] at h ⊢
      obtain ⟨e1, e2⟩ := scalarStep_agree o vid tg c pre ps aps x r t h hr
      exact ⟨t, e1, e2⟩
    | equals vid mt pre pid =>
      intro x r t h hr
      simp only [run, Option.some.injEq] at h ⊢
      exact ⟨t, h, by have := equalsStep_noA vid mt pre pid x; rw [h] at this; exact this⟩
    | noneV vid c =>
      intro x r t h hr
      simp only [run, Option.some.injEq] at h ⊢
      exact ⟨t, h, by have := noneStep_noA o vid c x; rw [h] at this; exact this⟩
    | always vid =>
      intro x r t h hr
      simp only [run, Option.some.injEq, Prod.mk.injEq] at h ⊢
      exact ⟨[], ⟨h.1, rfl⟩, rfl⟩
    | isDict vid =>
      intro x r t h hr
      simp only [run, Option.some.injEq] at h ⊢
      refine ⟨t, h, ?_⟩
      unfold isDictStep at h
      split at h <;> (simp only [Prod.mk.injEq] at h; rw [← h.2]; rfl)
    | list vid item ps aps c => simp only [run]; exact seqStep_agree _ _ _ _ _ _ (ih item)
    | set vid item ps aps c => simp only [run]; exact seqStep_agree _ _ _ _ _ _ (ih item)
    | utuple vid item ps aps c => simp only [run]; exact seqStep_agree _ _ _ _ _ _ (ih item)
    | ntuple vid fs oc c lp => simp only [run]; exact ntupleStep_agree _ _ _ _ _ (RelL.map _ _ ih fs)
    | map vid kv vv ps aps c => simp only [run]; exact mapStep_agree _ _ _ _ _ (ih kv) (ih vv)
    | record vid cfg vs => simp only [run]; exact recordStep_agree _ _ _ (RelL.map _ _ ih vs)
    | union vid vs => simp only [run]; exact unionStep_agree _ (RelL.map _ _ ih vs)
    | optional vid nv inner =>
      simp only [run]; exact unionStep_agree _ (.cons (ih nv) (.cons (ih inner) .nil))
    | maybe vid inner => simp only [run]; exact maybeStep_agree _ (ih inner)
    | «lazy» vid ref => simp only [run]; exact ih _
    | knr vid inner => simp only [run]; exact knrStep_agree (ih inner)
    | user vid inner => simp only [run]; exact userStep_agree _ (ih inner)

/-- the same, stated on terminating runs -/
theorem C06_agree_Run (o : Oracle) (env : Nat → V) (v : V) (x : PyVal) (r : Out) (ts : List Ev)
    (h : Run o env .sync v x r ts) (hr : r ≠ .raised .assertion) :
    ∃ ta, Run o env .async v x r ta ∧ noA ta = true := by
  obtain ⟨n, hn⟩ := h
  obtain ⟨ta, h1, h2⟩ := C06_agree o env n v x r ts hn hr
  exact ⟨ta, ⟨n, h1⟩, h2⟩

/-- **never silently skipped**: a verdict of the sync run coincides with the async verdict, whose
    run contained no async-only check — so no async-only check that *would* be evaluated was left
    out of a sync verdict.  (Contrapositive form: if the async run evaluates an async-only check,
    the sync run raised `AssertionError`.) -/
theorem C06_never_skipped (o : Oracle) (env : Nat → V) (v : V) (x : PyVal) (rs ra : Out) (ts ta : List Ev)
    (hs : Run o env .sync v x rs ts) (ha : Run o env .async v x ra ta) (hev : noA ta = false) :
    rs = .raised .assertion := by
  by_cases hr : rs = .raised .assertion
  · exact hr
  · obtain ⟨ta', h1, h2⟩ := C06_agree_Run o env v x rs ts hs hr
    obtain ⟨_, e⟩ := Run.unique h1 ha
    rw [e] at h2
    rw [h2] at hev
    exact absurd hev (by simp)

/-! ### whenever no async-only check is configured the synchronous call does return -/

mutual
/-- no async predicate / async object check is configured in the tree (a `Lazy` is judged through
    the environment, see `C06_sync_returns`) -/
def afree : V → Bool
  | .scalar _ _ _ _ _ aps => aps.isEmpty
  | .equals .. => true
  | .noneV .. => true
  | .always _ => true
  | .isDict _ => true
  | .list _ item _ aps _ => aps.isEmpty && afree item
  | .set _ item _ aps _ => aps.isEmpty && afree item
  | .utuple _ item _ aps _ => aps.isEmpty && afree item
  | .ntuple _ fs _ _ _ => afreeL fs
  | .map _ k v _ aps _ => aps.isEmpty && afree k && afree v
  | .record _ cfg vs => cfg.aoc.isNone && afreeL vs
  | .union _ vs => afreeL vs
  | .optional _ nv inner => afree nv && afree inner
  | .maybe _ inner => afree inner
  | .lazy _ _ => true
  | .knr _ inner => afree inner
  | .user _ inner => afree inner
termination_by structural v => v
def afreeL : List V → Bool
  | [] => true
  | v :: vs => afree v && afreeL vs
termination_by structural vs => vs
end

/-- an evaluator that never raises the guard's `AssertionError` -/
def NoAssert (ev : Ev1) : Prop := ∀ x r t, ev x = some (r, t) → r ≠ .raised .assertion

theorem loopItems_noAssert {ev : Ev1} (h : NoAssert ev) (hq : Bool) :
    ∀ xs i ne r, loopItems ev hq xs i ne = some r → r.r ≠ some .assertion := by
  intro xs
  induction xs with
  | nil => intro i ne r hr; simp [loopItems] at hr; subst hr; simp
  | cons x xs ih =>
    intro i ne r hr
    simp only [loopItems] at hr
    cases hx : ev x with
    | none => simp [hx] at hr
    | some p =>
      obtain ⟨o, t⟩ := p
      rw [hx] at hr
      cases o with
      | raised e =>
        simp only [Option.some.injEq] at hr; subst hr
        intro hh; simp only [Option.some.injEq] at hh; subst hh
        exact h x _ _ hx rfl
      | valid w =>
        simp only at hr
        split at hr
        · simp only [Option.some.injEq] at hr; subst hr; simp
        · cases hl : loopItems ev hq xs (i + 1) ne with
          | none => simp [hl] at hr
          | some r' => simp only [hl, Option.some.injEq] at hr; subst hr; exact ih _ _ r' hl
      | invalid e =>
        simp only at hr
        cases hl : loopItems ev hq xs (i + 1) false with
        | none => simp [hl] at hr
        | some r' => simp only [hl, Option.some.injEq] at hr; subst hr; exact ih _ _ r' hl

/-- a sequence validator without async predicates over a child that never raises the guard error
    never raises it either -/
theorem seqStep_noAssert (k : SeqKind) (o : Oracle) (m : Mode) (vid : Nat) (ps : List Pred)
    (c : Option CoerceK) {ev : Ev1} (h : NoAssert ev)
    (hp : ∀ x r, seqPre k o m vid ps [] c x = .inl r → r.1 ≠ .raised .assertion) :
    NoAssert (seqStep k o m vid ps [] c ev) := by
  intro x r t hr
  unfold seqStep at hr
  cases hpre : seqPre k o m vid ps [] c x with
  | inl r' =>
    simp only [hpre, Option.some.injEq] at hr
    have := hp x r' hpre
    rw [hr] at this; exact this
  | inr q =>
    obtain ⟨y, xs, t0⟩ := q
    simp only [hpre] at hr
    cases hl : loopItems ev (k == .set) xs 0 true with
    | none => simp [hl] at hr
    | some rr =>
      simp only [hl, Option.some.injEq, Prod.mk.injEq] at hr
      have := loopItems_noAssert h _ _ _ _ _ hl
      rw [← hr.1]
      unfold finishSeq
      split
      · rename_i e he; intro hh; simp only [Out.raised.injEq] at hh; subst hh; exact this he
      · split
        · simp
        · split <;> simp

/-! ### non-vacuity: a tree with an async predicate two levels down -/

/-- sync raises, async evaluates the async predicate -/
example :
    (run default (fun _ => .always 0) .sync 3
      (.list 1 (.scalar 2 .int none [] [] [⟨9, .user (fun _ => true)⟩]) [] [] none) (.list 5 [.int 1])).map (·.1)
      = some (.raised .assertion) ∧
    (run default (fun _ => .always 0) .async 3
      (.list 1 (.scalar 2 .int none [] [] [⟨9, .user (fun _ => true)⟩]) [] [] none) (.list 5 [.int 1])).map (·.2)
      = some [.apred 9] := by
  constructor <;> rfl

end Koda
