/-
  C05 — Unions pick the first match and list all failures; wrappers are transparent.

  Only property theorems and non-vacuity examples live here.  Child evaluators are *arbitrary*
  (`Ev1`), so every statement holds for built-in and user-written children, in both modes, at
  every nesting position.
-/
import KodaModel.Lemmas.Mono

namespace Koda

/-- every evaluator of the list rejects `x`; `es` are their errors in order, `t` the concatenated trace -/
inductive AllReject (x : PyVal) : List Ev1 → List Inv → List Ev → Prop
  | nil : AllReject x [] [] []
  | cons {ev evs e es t t'} : ev x = some (.invalid e, t) → AllReject x evs es t' →
      AllReject x (ev :: evs) (e :: es) (t ++ t')

/-- **first match wins, later variants are not consulted**: if the variants before `ev` reject and
    `ev` accepts with payload `w`, the union returns `w` — for *any* list `post` of later variants
    (even ones that would not terminate), and its trace contains nothing from them. -/
theorem C05_union_first {x : PyVal} {pre : List Ev1} {es : List Inv} {t : List Ev}
    (hpre : AllReject x pre es t) {ev : Ev1} {w : PyVal} {tw : List Ev}
    (hev : ev x = some (.valid w, tw)) (post : List Ev1) (vid : Nat) :
    unionStep vid (pre ++ ev :: post) x = some (.valid w, t ++ tw) := by
  have : unionLoop x (pre ++ ev :: post) = some (some w, es, t ++ tw, none) := by
    induction hpre with
    | nil => simp [unionLoop, hev]
    | cons h _ ih => simp [unionLoop, h, ih, List.append_assoc]
  simp [unionStep, this]

/-- **every failure is listed, in order**: if all variants reject, the union rejects with a
    `UnionErrs` holding each variant's own error, the input itself, and the union's identity. -/
theorem C05_union_all_errs {x : PyVal} {evs : List Ev1} {es : List Inv} {t : List Ev}
    (h : AllReject x evs es t) (vid : Nat) :
    unionStep vid evs x = some (.invalid (.mk .union x vid es), t) := by
  have : unionLoop x evs = some (none, es, t, none) := by
    induction h with
    | nil => simp [unionLoop]
    | cons h _ ih => simp [unionLoop, h, ih]
  simp [unionStep, this]

/-- converse: a union only accepts through a first accepting variant -/
theorem C05_union_valid_inv {x : PyVal} {vid : Nat} {w : PyVal} :
    ∀ {evs : List Ev1} {t : List Ev}, unionStep vid evs x = some (.valid w, t) →
    ∃ pre ev post es t1 tw, evs = pre ++ ev :: post ∧ AllReject x pre es t1 ∧
      ev x = some (.valid w, tw) ∧ t = t1 ++ tw := by
  intro evs
  induction evs with
  | nil => intro t h; simp [unionStep, unionLoop] at h
  | cons ev evs ih =>
    intro t h
    simp only [unionStep, unionLoop] at h
    cases hx : ev x with
    | none => simp [hx] at h
    | some p =>
      obtain ⟨o, t0⟩ := p
      cases o with
      | raised e => simp [hx] at h
      | valid w' =>
        simp [hx] at h
        obtain ⟨rfl, rfl⟩ := h
        exact ⟨[], ev, evs, [], [], t0, rfl, .nil, hx, rfl⟩
      | invalid e =>
        simp only [hx] at h
        cases hl : unionLoop x evs with
        | none => simp [hl] at h
        | some q =>
          obtain ⟨ow, es, t', r⟩ := q
          simp only [hl] at h
          have hstep : unionStep vid evs x = some (.valid w, t') := by
            cases r with
            | some e' => simp at h
            | none =>
              cases ow with
              | none => simp at h
              | some w'' =>
                simp at h
                obtain ⟨rfl, _⟩ := h
                simp [unionStep, hl]
          obtain ⟨pre, ev', post, es', t1, tw, rfl, hr, hv, rfl⟩ := ih hstep
          have ht : t = t0 ++ (t1 ++ tw) := by
            cases r with
            | some e' => simp at h
            | none =>
              cases ow with
              | none => simp at h
              | some w'' => simp at h; exact h.2.symm
          exact ⟨ev :: pre, ev', post, e :: es', t0 ++ t1, tw, rfl, .cons hx hr, hv,
            by rw [ht, List.append_assoc]⟩

/-- converse: a union only rejects when every variant rejected, and then reports all of them -/
theorem C05_union_invalid_inv {x : PyVal} {vid : Nat} :
    ∀ {evs : List Ev1} {e : Inv} {t : List Ev}, unionStep vid evs x = some (.invalid e, t) →
    ∃ es, AllReject x evs es t ∧ e = .mk .union x vid es := by
  intro evs
  induction evs with
  | nil =>
    intro e t h
    simp [unionStep, unionLoop] at h
    obtain ⟨rfl, rfl⟩ := h
    exact ⟨[], .nil, rfl⟩
  | cons ev evs ih =>
    intro e t h
    simp only [unionStep, unionLoop] at h
    cases hx : ev x with
    | none => simp [hx] at h
    | some p =>
      obtain ⟨o, t0⟩ := p
      cases o with
      | raised e' => simp [hx] at h
      | valid w' => simp [hx] at h
      | invalid e0 =>
        simp only [hx] at h
        cases hl : unionLoop x evs with
        | none => simp [hl] at h
        | some q =>
          obtain ⟨ow, es, t', r⟩ := q
          simp only [hl] at h
          cases r with
          | some e' => simp at h
          | none =>
            cases ow with
            | some w'' => simp at h
            | none =>
              simp at h
              obtain ⟨rfl, rfl⟩ := h
              have hstep : unionStep vid evs x = some (.invalid (.mk .union x vid es), t') := by
                simp [unionStep, hl]
              obtain ⟨es', hr, he⟩ := ih hstep
              simp only [Inv.mk.injEq, true_and] at he
              obtain ⟨rfl⟩ := he
              exact ⟨e0 :: es, .cons hx hr, rfl⟩

/-- `run` on a union node is `unionStep` over its variants, whatever the variants are -/
theorem C05_union_run (o : Oracle) (env : Nat → V) (m : Mode) (n vid : Nat) (vs : List V) (x : PyVal) :
    run o env m (n + 1) (.union vid vs) x = unionStep vid (vs.map (run o env m n)) x := rfl

/-- OptionalValidator is the two-variant union (None validator, inner validator) -/
theorem C05_optional_run (o : Oracle) (env : Nat → V) (m : Mode) (n vid : Nat) (nv inner : V) (x : PyVal) :
    run o env m (n + 1) (.optional vid nv inner) x =
      unionStep vid [run o env m n nv, run o env m n inner] x := rfl

/-- Optional accepts `None` as `None` (with the library's None validator) -/
theorem C05_optional_none (o : Oracle) (env : Nat → V) (m : Mode) (n vid nvid : Nat) (inner : V) :
    run o env m (n + 2) (.optional vid (.noneV nvid none) inner) .none = some (.valid .none, []) := by
  simp [run, unionStep, unionLoop, noneStep]

/-- … otherwise it accepts exactly what the inner validator accepts, with the inner payload -/
theorem C05_optional_inner_valid (o : Oracle) (env : Nat → V) (m : Mode) (n vid nvid : Nat) (inner : V)
    (x w : PyVal) (t : List Ev) (hx : x ≠ .none)
    (h : run o env m (n + 1) inner x = some (.valid w, t)) :
    run o env m (n + 2) (.optional vid (.noneV nvid none) inner) x = some (.valid w, t) := by
  have hn : run o env m (n + 1) (.noneV nvid none) x =
      some (.invalid (.mk (.type .none) x nvid []), []) := by
    cases x <;> simp_all [run, noneStep]
  rw [C05_optional_run]
  have := C05_union_first (x := x) (.cons hn .nil) h [] vid
  simpa using this

/-- … and reports both the None failure and the inner failure when neither applies -/
theorem C05_optional_both_errs (o : Oracle) (env : Nat → V) (m : Mode) (n vid nvid : Nat) (inner : V)
    (x : PyVal) (e : Inv) (t : List Ev) (hx : x ≠ .none)
    (h : run o env m (n + 1) inner x = some (.invalid e, t)) :
    run o env m (n + 2) (.optional vid (.noneV nvid none) inner) x =
      some (.invalid (.mk .union x vid [.mk (.type .none) x nvid [], e]), t) := by
  have hn : run o env m (n + 1) (.noneV nvid none) x =
      some (.invalid (.mk (.type .none) x nvid []), []) := by
    cases x <;> simp_all [run, noneStep]
  rw [C05_optional_run]
  have := C05_union_all_errs (x := x) (.cons hn (.cons h .nil)) vid
  simpa using this

/-! ### Maybe -/

theorem C05_maybe_nothing (vid : Nat) (ev : Ev1) : maybeStep vid ev .nothing = some (.valid .nothing, []) := rfl

theorem C05_maybe_just_valid (vid oid : Nat) (ev : Ev1) (v w : PyVal) (t : List Ev)
    (h : ev v = some (.valid w, t)) : maybeStep vid ev (.just oid v) = some (.valid (.just 0 w), t) := by
  simp [maybeStep, h]

theorem C05_maybe_just_invalid (vid oid : Nat) (ev : Ev1) (v : PyVal) (e : Inv) (t : List Ev)
    (h : ev v = some (.invalid e, t)) :
    maybeStep vid ev (.just oid v) = some (.invalid (.mk .container (.just oid v) vid [e]), t) := by
  simp [maybeStep, h]

/-- anything that is neither `nothing` nor a `Just` is rejected, without consulting the child -/
theorem C05_maybe_other (vid : Nat) (ev : Ev1) (x : PyVal) (h1 : x ≠ .nothing)
    (h2 : ∀ oid v, x ≠ .just oid v) :
    maybeStep vid ev x = some (.invalid (.mk (.type .maybeAny) x vid []), []) := by
  cases x <;> simp_all [maybeStep]

/-! ### Lazy, KeyNotRequired, user wrappers, AlwaysValid -/

/-- a `Lazy` returns exactly what the validator it stands for returns (one unit of fuel later) -/
theorem C05_lazy_run (o : Oracle) (env : Nat → V) (m : Mode) (n vid ref : Nat) (x : PyVal) :
    run o env m (n + 1) (.lazy vid ref) x = run o env m n (env ref) x := rfl

theorem C05_lazy (o : Oracle) (env : Nat → V) (m : Mode) (vid ref : Nat) (x : PyVal) (r : Out)
    (t : List Ev) : Run o env m (.lazy vid ref) x r t ↔ Run o env m (env ref) x r t := by
  constructor
  · rintro ⟨n, hn⟩
    cases n with
    | zero => simp [run] at hn
    | succ n => exact ⟨n, hn⟩
  · rintro ⟨n, hn⟩
    exact ⟨n + 1, hn⟩

theorem C05_knr_valid (ev : Ev1) (x w : PyVal) (t : List Ev) (h : ev x = some (.valid w, t)) :
    knrStep ev x = some (.valid (.just 0 w), t) := by
  simp [knrStep, h]

theorem C05_knr_invalid (ev : Ev1) (x : PyVal) (e : Inv) (t : List Ev) (h : ev x = some (.invalid e, t)) :
    knrStep ev x = some (.invalid e, t) := by
  simp [knrStep, h]

/-- a user-written wrapper forwarding to `inner` returns `inner`'s outcome (its own entry point is the
    only thing it adds to the trace) -/
theorem C05_user (vid : Nat) (m : Mode) (ev : Ev1) (x : PyVal) (r : Out) (t : List Ev)
    (h : ev x = some (r, t)) : userStep vid m ev x = some (r, .uv vid m :: t) := by
  simp [userStep, h]

theorem C05_always (o : Oracle) (env : Nat → V) (m : Mode) (n vid : Nat) (x : PyVal) :
    run o env m (n + 1) (.always vid) x = some (.valid x, []) := rfl

/-! ### mapping a function over a result -/

/-- `Valid.map` / `Invalid.map` -/
def Out.map (f : PyVal → PyVal) : Out → Out
  | .valid w => .valid (f w)
  | other => other

theorem C05_map_valid (f : PyVal → PyVal) (w : PyVal) : (Out.valid w).map f = .valid (f w) := rfl
theorem C05_map_invalid (f : PyVal → PyVal) (e : Inv) : (Out.invalid e).map f = .invalid e := rfl

/-! ### self-referential definitions over arbitrarily deep finite data

`T = Union[int, List[T]]`, written with `Lazy`: every finite nesting of lists of ints is accepted,
with no bound on the depth. -/

/-- finite nestings of integer lists -/
inductive NestedInts : PyVal → Prop
  | leaf (i : Int) : NestedInts (.int i)
  | node (oid : Nat) (xs : List PyVal) : (∀ y ∈ xs, NestedInts y) → NestedInts (.list oid xs)

/-- the recursive definition: `env 0 = Union[int, List[Lazy(env 0)]]` -/
def recEnv : Nat → V
  | _ => .union 10 [.scalar 11 .int none [] [] [], .list 12 (.lazy 13 0) [] [] none]

theorem loopItems_all_valid (ev : Ev1) (xs : List PyVal)
    (h : ∀ y ∈ xs, ∃ w, ev y = some (.valid w, [])) :
    ∀ i, ∃ ws, loopItems ev false xs i true = some ⟨ws, [], [], none⟩ := by
  induction xs with
  | nil => intro i; exact ⟨[], rfl⟩
  | cons y ys ih =>
    intro i
    obtain ⟨w, hw⟩ := h y (by simp)
    obtain ⟨ws, hws⟩ := ih (fun z hz => h z (by simp [hz])) (i + 1)
    exact ⟨w :: ws, by simp [loopItems, hw, hws]⟩

/-- finitely many terminating runs have a common sufficient fuel -/
theorem common_fuel (o : Oracle) (env : Nat → V) (m : Mode) (v : V) (xs : List PyVal)
    (h : ∀ y ∈ xs, ∃ n w, run o env m n v y = some (.valid w, [])) :
    ∃ N, ∀ y ∈ xs, ∃ w, run o env m N v y = some (.valid w, []) := by
  induction xs with
  | nil => exact ⟨0, by simp⟩
  | cons y ys ihs =>
    obtain ⟨N, hN⟩ := ihs (fun z hz => h z (by simp [hz]))
    obtain ⟨n, w, hn⟩ := h y (by simp)
    refine ⟨max N n, ?_⟩
    intro z hz
    simp only [List.mem_cons] at hz
    rcases hz with rfl | hz
    · exact ⟨w, run_mono_le _ _ _ (Nat.le_max_right N n) _ _ _ hn⟩
    · obtain ⟨w', hw'⟩ := hN z hz
      exact ⟨w', run_mono_le _ _ _ (Nat.le_max_left N n) _ _ _ hw'⟩

theorem C05_recursive_terminates (o : Oracle) (m : Mode) (x : PyVal) (hx : NestedInts x) :
    ∃ n w, run o recEnv m n (recEnv 0) x = some (.valid w, []) := by
  induction hx with
  | leaf i =>
    refine ⟨2, .int i, ?_⟩
    simp [recEnv, run, unionStep, unionLoop, scalarStep, gate, PyVal.ty, runProcs, finishPreds, contPreds,
      runPreds, runAPreds]
  | node oid xs _ ih =>
    have hfuel := common_fuel o recEnv m (recEnv 0) xs ih
    obtain ⟨N, hN⟩ := hfuel
    have hitems : ∀ y ∈ xs, ∃ w, run o recEnv m (N + 1) (.lazy 13 0) y = some (.valid w, []) := by
      intro y hy
      obtain ⟨w, hw⟩ := hN y hy
      exact ⟨w, by rw [C05_lazy_run]; exact hw⟩
    obtain ⟨ws, hws⟩ := loopItems_all_valid _ xs hitems 0
    refine ⟨N + 3, .list 0 ws, ?_⟩
    have hs : run o recEnv m (N + 2) (.scalar 11 .int none [] [] []) (.list oid xs) =
        some (.invalid (.mk (.type .int) (.list oid xs) 11 []), []) := by
      simp [run, scalarStep, gate, PyVal.ty]
    have hl : run o recEnv m (N + 2) (.list 12 (.lazy 13 0) [] [] none) (.list oid xs) =
        some (.valid (.list 0 ws), []) := by
      have hpre : seqPre .list o m 12 [] [] none (.list oid xs) = .inr (.list oid xs, xs, []) := by
        simp [seqPre, gate, SeqKind.gateTy, PyVal.ty, contPreds, runPreds, pyIter]
        cases m <;> simp [runAPreds]
      rw [show run o recEnv m (N + 2) (.list 12 (.lazy 13 0) [] [] none) (.list oid xs) =
        seqStep .list o m 12 [] [] none (run o recEnv m (N + 1) (.lazy 13 0)) (.list oid xs) from rfl]
      simp only [seqStep, hpre]
      have : ((SeqKind.list == SeqKind.set) = false) := by decide
      rw [this, hws]
      simp [finishSeq, SeqKind.build]
    show run o recEnv m (N + 3) (.union 10 _) (.list oid xs) = _
    rw [C05_union_run]
    have := C05_union_first (x := .list oid xs) (.cons hs .nil) hl [] 10
    simpa using this

/-! ### non-vacuity -/

/-- a union whose second variant accepts after the first rejected -/
example : run default (fun _ => .always 0) .sync 3
    (.union 1 [.scalar 2 .int none [] [] [], .scalar 3 .str none [] [] []]) (.str [97]) =
    some (.valid (.str [97]), []) := by rfl

/-- depth-3 data for the recursive definition -/
example : NestedInts (.list 1 [.int 1, .list 2 [.list 3 [.int 2]]]) := by
  repeat (first | apply NestedInts.leaf | apply NestedInts.node | (intro y hy; simp at hy; rcases hy with rfl | rfl) | (intro y hy; simp at hy; subst hy))

end Koda
