/-
  C07 / C09 strictness for more annotation forms (strict resolver): in addition to the forms of
  `annFrag` — bare `list` / `tuple`, `Tuple[T, ...]`, `Tuple[A, B, …]`, `Maybe[T]`, nested at will.
-/
import KodaModel.Properties.C07Tree

namespace Koda

def isTupleV : PyVal → Bool
  | .tuple _ _ => true
  | _ => false

def tupleItems : PyVal → List PyVal
  | .tuple _ xs => xs
  | _ => []

theorem isTupleV_ty (x : PyVal) : (x.ty = .tuple) ↔ isTupleV x = true := by
  cases x <;> simp [PyVal.ty, isTupleV]

/-- the uniform-tuple node without coercer or predicates, for arbitrary Python values -/
theorem node_utuple_plain (o : Oracle) (env : Nat → V) (vid : Nat) (item : V) (x : PyVal) (a : PyVal → Bool)
    (hitems : ∀ y ∈ tupleItems x, VDecides o env item y (a y)) :
    VDecides o env (.utuple vid item [] [] none) x (isTupleV x && (tupleItems x).all a) := by
  by_cases hl : isTupleV x = true
  · obtain ⟨oid, xs, rfl⟩ : ∃ oid xs, x = .tuple oid xs := by
      cases x <;> simp [isTupleV] at hl
      exact ⟨_, _, rfl⟩
    simp only [tupleItems] at hitems
    obtain ⟨N, hN⟩ := common_fuel_decided o env item a xs hitems
    have hpre : seqPre .utuple o .sync vid [] [] none (.tuple oid xs) = .inr (.tuple oid xs, xs, [] ++ []) := by
      rw [C03_pre_iff]
      exact ⟨by simp, [], [], by simp [gate, SeqKind.gateTy, PyVal.ty], by simp [contPreds, runPreds], rfl, rfl⟩
    obtain ⟨r, hr, hrn, hre⟩ := loopItems_decided (run o env .sync N item) a xs 0 true (hN N (Nat.le_refl N))
    refine ⟨N + 1, finishSeq .utuple vid (.tuple oid xs) r, ([] ++ []) ++ r.t, ?_, ?_⟩
    · simp only [run]
      rw [seqStep_inr hpre _ (by intro h; cases h), hr]
      rfl
    · simp only [finishSeq, hrn, isTupleV, tupleItems, Bool.true_and]
      rw [← hre]
      cases he : r.es.isEmpty <;> simp [he, Out.verdict]
  · have hl' : isTupleV x = false := by simpa using hl
    have hty : ¬ x.ty = .tuple := fun h => hl ((isTupleV_ty x).1 h)
    refine ⟨1, .invalid (.mk (.type .tuple) x vid []), [], ?_, by simp [Out.verdict, hl']⟩
    simp [run, seqStep, seqPre, gate, SeqKind.gateTy, hty]

/-- `nothing`, or `Just` of something `a` holds of -/
def maybeSpec (a : PyVal → Bool) : PyVal → Bool
  | .nothing => true
  | .just _ v => a v
  | _ => false

/-- the Maybe node -/
theorem node_maybe (o : Oracle) (env : Nat → V) (vid : Nat) (inner : V) (x : PyVal) (a : PyVal → Bool)
    (hinner : ∀ oid v, x = .just oid v → VDecides o env inner v (a v)) :
    VDecides o env (.maybe vid inner) x (maybeSpec a x) := by
  cases x with
  | nothing => exact ⟨1, .valid .nothing, [], by simp [run, maybeStep], rfl⟩
  | just oid v =>
    obtain ⟨n, out, t, hr, hv⟩ := hinner oid v rfl
    cases out with
    | raised e => simp [Out.verdict] at hv
    | valid w => exact ⟨n + 1, .valid (.just 0 w), t, by simp [run, maybeStep, hr], by simpa [Out.verdict, maybeSpec] using hv⟩
    | invalid e =>
      exact ⟨n + 1, .invalid (.mk .container (.just oid v) vid [e]), t, by simp [run, maybeStep, hr],
        by simpa [Out.verdict, maybeSpec] using hv⟩
  | _ => exact ⟨1, .invalid (.mk (.type .maybeAny) _ vid []), [], rfl, rfl⟩

/-! ### n-tuples with one verdict per slot -/

/-- slot by slot: each field validator decides its own verdict function on the element in its slot -/
def SlotsDecide (o : Oracle) (env : Nat → V) : List (V × (PyVal → Bool)) → List PyVal → Prop
  | (v, a) :: sl, y :: ys => VDecides o env v y (a y) ∧ SlotsDecide o env sl ys
  | _, _ => True

def allSlots : List (V × (PyVal → Bool)) → List PyVal → Bool
  | (_, a) :: sl, y :: ys => a y && allSlots sl ys
  | _, _ => true

theorem slots_common_fuel (o : Oracle) (env : Nat → V) : ∀ (sl : List (V × (PyVal → Bool))) (ys : List PyVal),
    SlotsDecide o env sl ys →
    ∃ N, ∀ n, N ≤ n → ∀ i, ∃ r, loopFields (sl.map (fun p => run o env .sync n p.1)) ys i = some r ∧ r.r = none ∧
      r.es.isEmpty = allSlots sl ys := by
  intro sl
  induction sl with
  | nil =>
    intro ys _
    exact ⟨0, fun n _ i => ⟨⟨[], [], [], none⟩, by simp [loopFields], rfl, by simp [allSlots]⟩⟩
  | cons p sl ih =>
    obtain ⟨v, a⟩ := p
    intro ys h
    cases ys with
    | nil => exact ⟨0, fun n _ i => ⟨⟨[], [], [], none⟩, by simp [loopFields], rfl, by simp [allSlots]⟩⟩
    | cons y ys =>
      obtain ⟨hv, hrest⟩ := h
      obtain ⟨N1, h1⟩ := ih ys hrest
      obtain ⟨N2, h2⟩ := hv.at_fuel
      refine ⟨max N1 N2, fun n hn i => ?_⟩
      obtain ⟨out, t, hr, hvd⟩ := h2 n (by omega)
      obtain ⟨r, hl, hrn, hre⟩ := h1 n (by omega) (i + 1)
      cases out with
      | raised e => simp [Out.verdict] at hvd
      | valid w =>
        simp only [Out.verdict, Option.some.injEq] at hvd
        exact ⟨⟨w :: r.ws, r.es, t ++ r.t, r.r⟩, by simp [loopFields, hr, hl], hrn, by simp [allSlots, ← hvd, hre]⟩
      | invalid e =>
        simp only [Out.verdict, Option.some.injEq] at hvd
        exact ⟨⟨r.ws, (i, e) :: r.es, t ++ r.t, r.r⟩, by simp [loopFields, hr, hl], hrn, by simp [allSlots, ← hvd]⟩

/-- the n-tuple node without coercer or whole-object check, for arbitrary Python values -/
theorem node_ntuple_plain (o : Oracle) (env : Nat → V) (vid lp : Nat) (sl : List (V × (PyVal → Bool))) (x : PyVal)
    (hkids : SlotsDecide o env sl (tupleItems x)) :
    VDecides o env (.ntuple vid (sl.map Prod.fst) none none lp) x
      (isTupleV x && (decide ((tupleItems x).length = sl.length) && allSlots sl (tupleItems x))) := by
  by_cases hl : isTupleV x = true
  · obtain ⟨oid, xs, rfl⟩ : ∃ oid xs, x = .tuple oid xs := by
      cases x <;> simp [isTupleV] at hl
      exact ⟨_, _, rfl⟩
    simp only [tupleItems] at hkids ⊢
    have hg : gate o .tuple .list none (.tuple oid xs) = .acc (.tuple oid xs) [] := by simp [gate, PyVal.ty]
    by_cases hlen : xs.length = sl.length
    · obtain ⟨N, hN⟩ := slots_common_fuel o env sl xs hkids
      obtain ⟨r, hr, hrn, hre⟩ := hN N (Nat.le_refl N) 0
      have hmap : (sl.map Prod.fst).map (run o env .sync N) = sl.map (fun p => run o env .sync N p.1) := by
        simp [List.map_map, Function.comp_def]
      have hpre : ntuplePre o vid none lp ((sl.map Prod.fst).map (run o env .sync N)).length (.tuple oid xs) =
          .inr (.tuple oid xs, xs, []) := by
        simp [ntuplePre, hg, pyLen, pyIter, hlen]
      refine ⟨N + 1, (ntupleFinish vid none (.tuple oid xs) [] r).1, (ntupleFinish vid none (.tuple oid xs) [] r).2, ?_, ?_⟩
      · simp only [run, ntupleStep, hpre]
        rw [hmap, hr]
      · simp only [ntupleFinish, hrn, isTupleV, Bool.true_and, hlen, decide_true]
        rw [← hre]
        cases he : r.es.isEmpty <;> simp [he, Out.verdict, runObjCheck]
    · refine ⟨1, .invalid (.mk (.preds [lp]) (.tuple oid xs) vid []), [], ?_, by simp [Out.verdict, isTupleV, hlen]⟩
      simp only [run, ntupleStep, ntuplePre, hg, pyLen, List.length_map]
      simp [hlen]
  · have hl' : isTupleV x = false := by simpa using hl
    have hty : ¬ x.ty = .tuple := fun h => hl ((isTupleV_ty x).1 h)
    exact ⟨1, .invalid (.mk (.type .tuple) x vid []), [], by simp [run, ntupleStep, ntuplePre, gate, hty],
      by simp [Out.verdict, hl']⟩

/-! ### the extended tree theorem -/

mutual
/-- the annotations covered by the extended tree theorem -/
def annFrag2 : Ann → Bool
  | .str | .int | .float | .bool | .bytes | .uuid | .date | .datetime | .decimal | .cls _ => true
  | .any | .none | .listBare | .tupleBare => true
  | .list a => annFrag2 a
  | .tupleVar a => annFrag2 a
  | .maybe a => annFrag2 a
  | .union as => annFrag2L as
  | .tupleFixed as => annFrag2L as
  | _ => false
termination_by structural a => a
def annFrag2L : List Ann → Bool
  | [] => true
  | a :: as => annFrag2 a && annFrag2L as
termination_by structural as => as
end

theorem derive_listBare (s : Nat) :
    (derive .signature .listBare s).1 = .list s (.always ALWAYS_VID) [] [] none := rfl
theorem derive_tupleBare (s : Nat) :
    (derive .signature .tupleBare s).1 = .utuple s (.always ALWAYS_VID) [] [] none := rfl
theorem derive_tupleVar (a : Ann) (s : Nat) :
    (derive .signature (.tupleVar a) s).1 = .utuple (derive .signature a s).2 (derive .signature a s).1 [] [] none := rfl
theorem derive_maybe (a : Ann) (s : Nat) :
    (derive .signature (.maybe a) s).1 = .maybe (derive .signature a s).2 (derive .signature a s).1 := rfl
theorem derive_tupleFixed (as : List Ann) (s : Nat) :
    (derive .signature (.tupleFixed as) s).1 =
      .ntuple (deriveL .signature as s).2 (deriveL .signature as s).1 none none ((deriveL .signature as s).2 + 1) := rfl

theorem deriveL_length (m : ResolveMode) : ∀ (as : List Ann) (s : Nat), (deriveL m as s).1.length = as.length
  | [], s => rfl
  | a :: as, s => by rw [deriveL_cons]; simp [deriveL_length m as]

/-- the slots of a derived n-tuple: field validators paired with the slot annotations' readings -/
def slotsOf (fs : List V) (as : List Ann) : List (V × (PyVal → Bool)) := fs.zip (as.map hasType)

theorem slotsOf_fst : ∀ (fs : List V) (as : List Ann), fs.length = as.length → (slotsOf fs as).map Prod.fst = fs
  | [], [], _ => rfl
  | [], _ :: _, h => by simp at h
  | _ :: _, [], h => by simp at h
  | f :: fs, a :: as, h => by
    simp only [slotsOf, List.map_cons, List.zip_cons_cons, List.cons.injEq, true_and]
    exact slotsOf_fst fs as (by simpa using h)

theorem slotsOf_length (fs : List V) (as : List Ann) (h : fs.length = as.length) : (slotsOf fs as).length = as.length := by
  simp [slotsOf, h]

theorem hasTypeZip_slots : ∀ (fs : List V) (as : List Ann) (xs : List PyVal), fs.length = as.length →
    hasTypeZip as xs = (decide (xs.length = as.length) && allSlots (slotsOf fs as) xs)
  | [], [], [], _ => by simp [hasTypeZip, slotsOf, allSlots]
  | [], [], x :: xs, _ => by simp [hasTypeZip]
  | [], _ :: _, _, h => by simp at h
  | _ :: _, [], _, h => by simp at h
  | f :: fs, a :: as, [], _ => by simp [hasTypeZip]
  | f :: fs, a :: as, x :: xs, h => by
    have ih := hasTypeZip_slots fs as xs (by simpa using h)
    simp only [hasTypeZip, ih, slotsOf, List.map_cons, List.zip_cons_cons, allSlots, List.length_cons,
      Nat.add_right_cancel_iff]
    cases hasType a x <;> simp [slotsOf]

mutual
/-- **C07 / C09 strictness, whole annotations, extended fragment** -/
theorem C07_strict_tree2_partial (o : Oracle) (env : Nat → V) :
    ∀ (a : Ann), annFrag2 a = true → ∀ (s : Nat) (x : PyVal),
      VDecides o env (derive .signature a s).1 x (hasType a x)
  | .str, _, s, x => strict_scalar_decides o env .str .str rfl s x
  | .int, _, s, x => strict_scalar_decides o env .int .int rfl s x
  | .float, _, s, x => strict_scalar_decides o env .float .float rfl s x
  | .bool, _, s, x => strict_scalar_decides o env .bool .bool rfl s x
  | .bytes, _, s, x => strict_scalar_decides o env .bytes .bytes rfl s x
  | .uuid, _, s, x => strict_scalar_decides o env .uuid .uuid rfl s x
  | .date, _, s, x => strict_scalar_decides o env .date .date rfl s x
  | .datetime, _, s, x => strict_scalar_decides o env .datetime .datetime rfl s x
  | .decimal, _, s, x => strict_scalar_decides o env .decimal .decimal rfl s x
  | .cls c, _, s, x => strict_scalar_decides o env (.cls c) (.cls c) rfl s x
  | .any, _, s, x => node_always_validator o env ALWAYS_VID x
  | .none, _, s, x => by
    have := node_none_validator o env s x
    have h2 : hasType .none x = isNoneV x := by cases x <;> rfl
    rw [h2]; exact this
  | .listBare, _, s, x => by
    rw [derive_listBare]
    have := node_list_plain o env s (.always ALWAYS_VID) x (fun _ => true)
      (fun y _ => node_always_validator o env ALWAYS_VID y)
    have h2 : hasType .listBare x = (isListV x && (listItems x).all (fun _ => true)) := by
      cases x <;> simp [hasType, PyVal.ty, isListV]
    rw [h2]; exact this
  | .tupleBare, _, s, x => by
    rw [derive_tupleBare]
    have := node_utuple_plain o env s (.always ALWAYS_VID) x (fun _ => true)
      (fun y _ => node_always_validator o env ALWAYS_VID y)
    have h2 : hasType .tupleBare x = (isTupleV x && (tupleItems x).all (fun _ => true)) := by
      cases x <;> simp [hasType, PyVal.ty, isTupleV]
    rw [h2]; exact this
  | .list a, hf, s, x => by
    simp only [annFrag2] at hf
    rw [derive_list]
    have := node_list_plain o env (derive .signature a s).2 (derive .signature a s).1 x (hasType a)
      (fun y _ => C07_strict_tree2_partial o env a hf s y)
    have h2 : hasType (.list a) x = (isListV x && (listItems x).all (hasType a)) := by cases x <;> rfl
    rw [h2]; exact this
  | .tupleVar a, hf, s, x => by
    simp only [annFrag2] at hf
    rw [derive_tupleVar]
    have := node_utuple_plain o env (derive .signature a s).2 (derive .signature a s).1 x (hasType a)
      (fun y _ => C07_strict_tree2_partial o env a hf s y)
    have h2 : hasType (.tupleVar a) x = (isTupleV x && (tupleItems x).all (hasType a)) := by cases x <;> rfl
    rw [h2]; exact this
  | .maybe a, hf, s, x => by
    simp only [annFrag2] at hf
    rw [derive_maybe]
    have := node_maybe o env (derive .signature a s).2 (derive .signature a s).1 x (hasType a)
      (fun _ v _ => C07_strict_tree2_partial o env a hf s v)
    have h2 : hasType (.maybe a) x = maybeSpec (hasType a) x := by cases x <;> rfl
    rw [h2]; exact this
  | .union as, hf, s, x => by
    simp only [annFrag2] at hf
    rw [derive_union]
    have hv := C07_strict_tree2_partialL o env as hf s x
    exact union_of_variants o env _ x _ as hv
  | .tupleFixed as, hf, s, x => by
    simp only [annFrag2] at hf
    rw [derive_tupleFixed]
    have hlen := deriveL_length .signature as s
    have hk := C07_strict_tree2_slots o env as hf s (tupleItems x)
    have := node_ntuple_plain o env (deriveL .signature as s).2 ((deriveL .signature as s).2 + 1)
      (slotsOf (deriveL .signature as s).1 as) x hk
    rw [slotsOf_fst _ _ hlen, slotsOf_length _ _ hlen] at this
    have h2 : hasType (.tupleFixed as) x =
        (isTupleV x && (decide ((tupleItems x).length = as.length) &&
          allSlots (slotsOf (deriveL .signature as s).1 as) (tupleItems x))) := by
      cases x <;> simp [hasType, isTupleV, tupleItems]
      exact hasTypeZip_slots _ as _ hlen
    rw [h2]; exact this
  | .setBare, hf, _, _ => by simp [annFrag2] at hf
  | .dictBare, hf, _, _ => by simp [annFrag2] at hf
  | .set _, hf, _, _ => by simp [annFrag2] at hf
  | .dict _ _, hf, _, _ => by simp [annFrag2] at hf
  | .literal _, hf, _, _ => by simp [annFrag2] at hf
  | .annotated _ _, hf, _, _ => by simp [annFrag2] at hf
  | .dataclass _ _ _ _, hf, _, _ => by simp [annFrag2] at hf
  | .namedtuple _ _ _ _, hf, _, _ => by simp [annFrag2] at hf
  | .typeddict _ _ _ _, hf, _, _ => by simp [annFrag2] at hf
  | .marked _, hf, _, _ => by simp [annFrag2] at hf
theorem C07_strict_tree2_partialL (o : Oracle) (env : Nat → V) :
    ∀ (as : List Ann), annFrag2L as = true → ∀ (s : Nat) (x : PyVal),
      VariantsDecide o env x (deriveL .signature as s).1 as
  | [], _, s, x => trivial
  | a :: as, hf, s, x => by
    simp only [annFrag2L, Bool.and_eq_true] at hf
    rw [deriveL_cons]
    exact ⟨C07_strict_tree2_partial o env a hf.1 s x, C07_strict_tree2_partialL o env as hf.2 _ x⟩
theorem C07_strict_tree2_slots (o : Oracle) (env : Nat → V) :
    ∀ (as : List Ann), annFrag2L as = true → ∀ (s : Nat) (ys : List PyVal),
      SlotsDecide o env (slotsOf (deriveL .signature as s).1 as) ys
  | [], _, s, ys => by simp [slotsOf, SlotsDecide]
  | a :: as, hf, s, [] => by simp [slotsOf, deriveL_cons, SlotsDecide]
  | a :: as, hf, s, y :: ys => by
    simp only [annFrag2L, Bool.and_eq_true] at hf
    rw [deriveL_cons]
    simp only [slotsOf, List.map_cons, List.zip_cons_cons, SlotsDecide]
    exact ⟨C07_strict_tree2_partial o env a hf.1 s y, C07_strict_tree2_slots o env as hf.2 _ ys⟩
end

/-- sound and complete: the strict validator accepts `x` iff `x` has the annotated type -/
theorem C07_strict_iff2_partial (o : Oracle) (env : Nat → V) (a : Ann) (hf : annFrag2 a = true) (s : Nat) (x : PyVal) :
    (∃ n w t, run o env .sync n (derive .signature a s).1 x = some (.valid w, t)) ↔ hasType a x = true := by
  obtain ⟨n, out, t, hr, hv⟩ := C07_strict_tree2_partial o env a hf s x
  constructor
  · rintro ⟨n', w, t', hr'⟩
    have h1 := run_mono_le o env .sync (Nat.le_max_left n n') _ x _ hr
    have h2 := run_mono_le o env .sync (Nat.le_max_right n n') _ x _ hr'
    rw [h1] at h2
    simp only [Option.some.injEq, Prod.mk.injEq] at h2
    rw [h2.1] at hv
    simpa [Out.verdict] using hv.symm
  · intro h
    rw [h] at hv
    cases out with
    | valid w => exact ⟨n, w, t, hr⟩
    | invalid e => simp [Out.verdict] at hv
    | raised e => simp [Out.verdict] at hv

/-- non-vacuity: `Tuple[int, Maybe[List[str]], Tuple[bool, ...]]` -/
example : annFrag2 (.tupleFixed [.int, .maybe (.list .str), .tupleVar .bool]) = true := by decide
example : hasType (.tupleFixed [.int, .maybe (.list .str), .tupleVar .bool])
      (.tuple 1 [.int 3, .just 2 (.list 3 [.str [97]]), .tuple 4 [.bool true]]) = true ∧
    hasType (.tupleFixed [.int, .maybe (.list .str), .tupleVar .bool])
      (.tuple 1 [.bool true, .nothing, .tuple 4 []]) = false := by
  constructor <;> rfl

end Koda
