/-
  C19 — Validator equality is a behavioural congruence.

  `==` on validators compares the configuration (target type, children, predicates, processors,
  coercer, requiredness, unknown-key policy, …) and not the identity of the validator / built-in
  predicate *objects*.  In the model an object's identity is the number it carries (`vid`, `pid`);
  everything else in the syntax tree is configuration.  The theorem here: **identities are inert** —
  renaming them in the validator renames them in the result and changes nothing else
  (`C19_rename`), for every validator kind, input, mode, amount of fuel and environment of named
  validators.  Hence two validators that become the same tree once identities are renamed — what
  `==` decides — return, on every input, results that are the same once identities are renamed
  (`C19_congruence`): same verdict, same payload, same error tree with the same values, the same
  failing predicates and validators *up to that renaming*, and the same callbacks called in the same
  order.
-/
import KodaModel.Rename

namespace Koda

/-! ### predicates, processors, gates -/

theorem Pred.ev_rn (r : Rn) (p : Pred) : (p.rn r).ev = p.ev.map (Ev.rn r) := by
  cases p with
  | mk pid k => cases k <;> simp [Pred.rn, Pred.ev, Ev.rn]

theorem Proc.ev_rn (r : Rn) (p : Proc) : (p.rn r).ev = p.ev.map (Ev.rn r) := by
  cases p with
  | mk pid k => cases k <;> simp [Proc.rn, Proc.ev, Ev.rn]

/-- renaming the three components a predicate run returns -/
def rnPR (r : Rn) (q : List Nat × List Ev × Option Exn) : List Nat × List Ev × Option Exn :=
  (q.1.map r.p, q.2.1.map (Ev.rn r), q.2.2)

theorem runPreds_rn (r : Rn) (x : PyVal) : ∀ ps, runPreds (ps.map (Pred.rn r)) x = rnPR r (runPreds ps x)
  | [] => rfl
  | p :: ps => by
    simp only [List.map_cons, runPreds]
    have hk : (p.rn r).k = p.k := rfl
    rw [hk]
    cases p.k.call x with
    | error e => simp [rnPR, Pred.ev_rn]
    | ok b =>
      simp only [runPreds_rn r x ps, rnPR, Pred.ev_rn]
      cases b <;> simp [Pred.rn]

theorem runAPreds_rn (r : Rn) (x : PyVal) : ∀ ps, runAPreds (ps.map (Pred.rn r)) x = rnPR r (runAPreds ps x)
  | [] => rfl
  | p :: ps => by
    simp only [List.map_cons, runAPreds]
    have hk : (p.rn r).k = p.k := rfl
    rw [hk]
    cases p.k.call x with
    | error e => simp [rnPR, Pred.rn, Ev.rn]
    | ok b =>
      simp only [runAPreds_rn r x ps, rnPR]
      cases b <;> simp [Pred.rn, Ev.rn]

theorem contPreds_rn (r : Rn) (m : Mode) (ps aps : List Pred) (x : PyVal) :
    contPreds m (ps.map (Pred.rn r)) (aps.map (Pred.rn r)) x = rnPR r (contPreds m ps aps x) := by
  simp only [contPreds, runPreds_rn, runAPreds_rn]
  cases h : (runPreds ps x).2.2 with
  | some e => simp [rnPR, h]
  | none =>
    by_cases hm : m = .async <;> simp [rnPR, h, hm]

theorem runProcs_rn (r : Rn) : ∀ pre x,
    runProcs (pre.map (Proc.rn r)) x = ((runProcs pre x).1, (runProcs pre x).2.map (Ev.rn r))
  | [], x => rfl
  | p :: ps, x => by
    simp only [List.map_cons, runProcs]
    have hk : (p.rn r).k = p.k := rfl
    rw [hk]
    cases p.k.call x with
    | error e => simp [Proc.ev_rn]
    | ok y => simp [runProcs_rn r ps y, Proc.ev_rn]

def Gate.tr : Gate → List Ev
  | .acc _ t => t | .rej _ t => t | .exn _ t => t

/-- what a coercer logs is a callback identity, which is configuration: renaming leaves it alone -/
theorem applyCoerce_tr (r : Rn) (o : Oracle) (tg d : Ty) (cls : ClassId) (c : CoerceK) (x : PyVal) :
    (applyCoerce o tg d cls c x).tr.map (Ev.rn r) = (applyCoerce o tg d cls c x).tr := by
  cases c with
  | dflt =>
    simp only [applyCoerce]
    cases defaultCoerce o tg x <;> simp [Gate.tr]
  | classOnly =>
    simp only [applyCoerce]
    cases x with
    | inst oid doid c' names vals =>
      simp only
      by_cases h1 : c' = cls
      · by_cases h2 : (cls.kind == 2 || cls.slots) = true <;> simp [h1, h2, Gate.tr]
      · simp [h1, Gate.tr]
    | _ => simp [Gate.tr]
  | user cid compat f =>
    simp only [applyCoerce]
    cases f x <;> simp [Gate.tr, Ev.rn]

theorem gate_tr (r : Rn) (o : Oracle) (tg d : Ty) (c : Option CoerceK) (x : PyVal) :
    (gate o tg d c x).tr.map (Ev.rn r) = (gate o tg d c x).tr := by
  cases c with
  | some c => exact applyCoerce_tr r _ _ _ _ _ _
  | none =>
    simp only [gate]
    split <;> simp [Gate.tr]

/-- a gate never rejects with a predicate error, so renaming leaves its error kind alone -/
theorem applyCoerce_rej (r : Rn) (o : Oracle) (tg d : Ty) (cls : ClassId) (c : CoerceK) (x : PyVal)
    (k : ErrK) (t : List Ev) (h : applyCoerce o tg d cls c x = .rej k t) : k.rn r = k := by
  cases c with
  | dflt =>
    simp only [applyCoerce] at h
    cases hd : defaultCoerce o tg x <;> simp [hd] at h
    rw [← h.1]; rfl
  | classOnly =>
    simp only [applyCoerce] at h
    split at h
    · split at h
      · split at h <;> simp at h
      · simp at h; rw [← h.1]; rfl
    · simp at h; rw [← h.1]; rfl
  | user cid compat f =>
    simp only [applyCoerce] at h
    cases hf : f x <;> simp [hf] at h
    rw [← h.1]; rfl

theorem gate_rej (r : Rn) (o : Oracle) (tg d : Ty) (c : Option CoerceK) (x : PyVal)
    (k : ErrK) (t : List Ev) (h : gate o tg d c x = .rej k t) : k.rn r = k := by
  cases c with
  | some c => exact applyCoerce_rej r _ _ _ _ _ _ _ _ h
  | none =>
    simp only [gate] at h
    split at h <;> simp at h
    rw [← h.1]; rfl

/-! ### leaves -/

theorem finishPreds_rn (r : Rn) (vid : Nat) (z : PyVal) (t : List Ev) (q : List Nat × List Ev × Option Exn) :
    finishPreds (r.v vid) z (t.map (Ev.rn r)) (rnPR r q) = rnOT r (finishPreds vid z t q) := by
  obtain ⟨f, t2, e⟩ := q
  cases e with
  | some e => simp [finishPreds, rnPR, rnOT, Out.rn]
  | none =>
    cases f with
    | nil => simp [finishPreds, rnPR, rnOT, Out.rn]
    | cons a f => simp [finishPreds, rnPR, rnOT, Out.rn, Inv.rn, ErrK.rn, Inv.rnL]

theorem scalarStep_rn (r : Rn) (o : Oracle) (m : Mode) (vid : Nat) (tg : Ty) (c : Option CoerceK)
    (pre : List Proc) (ps aps : List Pred) (x : PyVal) :
    scalarStep o m (r.v vid) tg c (pre.map (Proc.rn r)) (ps.map (Pred.rn r)) (aps.map (Pred.rn r)) x
      = rnOT r (scalarStep o m vid tg c pre ps aps x) := by
  unfold scalarStep
  by_cases hg : m = .sync ∧ aps ≠ []
  · have : m = .sync ∧ aps.map (Pred.rn r) ≠ [] := ⟨hg.1, by simpa using hg.2⟩
    rw [if_pos hg, if_pos this]; rfl
  · have : ¬(m = .sync ∧ aps.map (Pred.rn r) ≠ []) := by simpa using hg
    rw [if_neg hg, if_neg this]
    have htr := gate_tr r o tg tg c x
    cases hgt : gate o tg tg c x with
    | exn e t => simp only [hgt, Gate.tr] at htr; simp [rnOT, Out.rn, htr]
    | rej k t =>
      simp only [hgt, Gate.tr] at htr
      simp [rnOT, Out.rn, Inv.rn, Inv.rnL, htr, gate_rej r o tg tg c x k t hgt]
    | acc y t =>
      simp only [hgt, Gate.tr] at htr
      simp only [runProcs_rn]
      cases hp : runProcs pre y with
      | mk a t2 =>
        cases a with
        | error e => simp [rnOT, Out.rn, htr]
        | ok z =>
          simp only [contPreds_rn]
          rw [← finishPreds_rn]
          simp [htr]

theorem equalsStep_rn (r : Rn) (vid : Nat) (mt : PyVal) (pre : List Proc) (pid : Nat) (x : PyVal) :
    equalsStep (r.v vid) mt (pre.map (Proc.rn r)) (r.p pid) x = rnOT r (equalsStep vid mt pre pid x) := by
  unfold equalsStep
  by_cases h : mt.ty = x.ty
  · simp only [if_pos h, runProcs_rn]
    cases hp : runProcs pre x with
    | mk a t =>
      cases a with
      | error e => simp [rnOT, Out.rn]
      | ok z =>
        simp only
        cases pyEqX z mt with
        | error e => simp [rnOT, Out.rn]
        | ok b => cases b <;> simp [rnOT, Out.rn, Inv.rn, Inv.rnL, ErrK.rn]
  · simp [if_neg h, rnOT, Out.rn, Inv.rn, Inv.rnL, ErrK.rn]

theorem noneStep_rn (r : Rn) (o : Oracle) (vid : Nat) (c : Option CoerceK) (x : PyVal) :
    noneStep o (r.v vid) c x = rnOT r (noneStep o vid c x) := by
  unfold noneStep
  cases c with
  | some c =>
    simp only
    have htr := applyCoerce_tr r o .none .none default c x
    cases hg : applyCoerce o .none .none default c x with
    | acc y t => simp only [hg, Gate.tr] at htr; simp [rnOT, Out.rn, htr]
    | rej k t =>
      simp only [hg, Gate.tr] at htr
      simp [rnOT, Out.rn, Inv.rn, Inv.rnL, htr, applyCoerce_rej r o .none .none default c x k t hg]
    | exn e t => simp only [hg, Gate.tr] at htr; simp [rnOT, Out.rn, htr]
  | none => cases x <;> simp [rnOT, Out.rn, Inv.rn, Inv.rnL, ErrK.rn]

theorem isDictStep_rn (r : Rn) (vid : Nat) (x : PyVal) :
    isDictStep (r.v vid) x = rnOT r (isDictStep vid x) := by
  unfold isDictStep
  split <;> simp [rnOT, Out.rn, Inv.rn, Inv.rnL, ErrK.rn]

/-! ### sequences -/

def LoopR.rn (r : Rn) (l : LoopR) : LoopR :=
  ⟨l.ws, l.es.map (fun p => (p.1, p.2.rn r)), l.t.map (Ev.rn r), l.r⟩

theorem loopItems_rn (r : Rn) (ev : Ev1) (hq : Bool) : ∀ xs i ne,
    loopItems (fun y => rnRes r (ev y)) hq xs i ne = (loopItems ev hq xs i ne).map (LoopR.rn r)
  | [], i, ne => by simp [loopItems, LoopR.rn]
  | x :: xs, i, ne => by
    simp only [loopItems]
    cases hx : ev x with
    | none => simp
    | some p =>
      obtain ⟨out, t⟩ := p
      cases out with
      | raised e => simp [rnOT, Out.rn, LoopR.rn]
      | valid w =>
        simp only [rnRes_some, rnOT, Out.rn]
        by_cases hh : (hq && ne && !hashable w) = true
        · simp [hh, LoopR.rn]
        · simp only [hh, Bool.false_eq_true, if_false, loopItems_rn r ev hq xs (i + 1) ne]
          cases loopItems ev hq xs (i + 1) ne <;> simp [LoopR.rn]
      | invalid e =>
        simp only [rnRes_some, rnOT, Out.rn, loopItems_rn r ev hq xs (i + 1) false]
        cases loopItems ev hq xs (i + 1) false <;> simp [LoopR.rn]

theorem finishSeq_rn (r : Rn) (k : SeqKind) (vid : Nat) (y : PyVal) (l : LoopR) :
    finishSeq k (r.v vid) y (l.rn r) = (finishSeq k vid y l).rn r := by
  unfold finishSeq
  obtain ⟨ws, es, t, e⟩ := l
  cases e with
  | some e => simp [LoopR.rn, Out.rn]
  | none =>
    cases es with
    | nil => simp [LoopR.rn, Out.rn]
    | cons a es =>
      cases k <;>
        simp [LoopR.rn, Out.rn, Inv.rn, Inv.rnL_eq_map, ErrK.rn, List.map_map, Function.comp_def]

/-- renaming what the pre-stage of a container returns -/
def rnPre {α} (r : Rn) : (Out × List Ev) ⊕ (PyVal × α × List Ev) → (Out × List Ev) ⊕ (PyVal × α × List Ev)
  | .inl p => .inl (rnOT r p)
  | .inr (y, a, t) => .inr (y, a, t.map (Ev.rn r))

theorem seqPre_rn (r : Rn) (k : SeqKind) (o : Oracle) (m : Mode) (vid : Nat) (ps aps : List Pred)
    (c : Option CoerceK) (x : PyVal) :
    seqPre k o m (r.v vid) (ps.map (Pred.rn r)) (aps.map (Pred.rn r)) c x
      = rnPre r (seqPre k o m vid ps aps c x) := by
  unfold seqPre
  by_cases hg : m = .sync ∧ aps ≠ []
  · have : m = .sync ∧ aps.map (Pred.rn r) ≠ [] := ⟨hg.1, by simpa using hg.2⟩
    rw [if_pos hg, if_pos this]; rfl
  · have : ¬(m = .sync ∧ aps.map (Pred.rn r) ≠ []) := by simpa using hg
    rw [if_neg hg, if_neg this]
    have htr := gate_tr r o k.gateTy k.destTy c x
    cases hgt : gate o k.gateTy k.destTy c x with
    | exn e t => simp only [hgt, Gate.tr] at htr; simp [rnPre, rnOT, Out.rn, htr]
    | rej ek t =>
      simp only [hgt, Gate.tr] at htr
      simp [rnPre, rnOT, Out.rn, Inv.rn, Inv.rnL, htr, gate_rej r o _ _ c x ek t hgt]
    | acc y t =>
      simp only [hgt, Gate.tr] at htr
      simp only [contPreds_rn]
      cases hc : contPreds m ps aps y with
      | mk f q =>
        obtain ⟨t2, e⟩ := q
        cases e with
        | some e => simp [rnPR, rnPre, rnOT, Out.rn, htr]
        | none =>
          cases f with
          | cons a f => simp [rnPR, rnPre, rnOT, Out.rn, Inv.rn, Inv.rnL, ErrK.rn, htr]
          | nil =>
            simp only [rnPR, List.map_nil, List.isEmpty_nil, Bool.not_true, Bool.false_eq_true, if_false]
            cases pyIter y <;> simp [rnPre, rnOT, Out.rn, htr]

theorem seqStep_rn (r : Rn) (k : SeqKind) (o : Oracle) (m : Mode) (vid : Nat) (ps aps : List Pred)
    (c : Option CoerceK) (ev : Ev1) (x : PyVal) :
    seqStep k o m (r.v vid) (ps.map (Pred.rn r)) (aps.map (Pred.rn r)) c (fun y => rnRes r (ev y)) x
      = rnRes r (seqStep k o m vid ps aps c ev x) := by
  unfold seqStep
  rw [seqPre_rn]
  cases seqPre k o m vid ps aps c x with
  | inl p => simp [rnPre]
  | inr q =>
    obtain ⟨y, xs, t⟩ := q
    simp only [rnPre, loopItems_rn]
    cases loopItems ev (k == .set) xs 0 true with
    | none => simp
    | some l =>
      simp only [Option.map_some, rnRes_some, rnOT, finishSeq_rn]
      simp [LoopR.rn]

/-! ### n-tuples -/

/-- the children's evaluators, renamed -/
def rnEvs (r : Rn) (evs : List Ev1) : List Ev1 := evs.map (fun ev y => rnRes r (ev y))

theorem loopFields_rn (r : Rn) : ∀ evs xs i,
    loopFields (rnEvs r evs) xs i = (loopFields evs xs i).map (LoopR.rn r)
  | [], xs, i => by simp [rnEvs, loopFields, LoopR.rn]
  | ev :: evs, [], i => by simp [rnEvs, loopFields, LoopR.rn]
  | ev :: evs, x :: xs, i => by
    have ih := loopFields_rn r evs xs (i + 1)
    simp only [rnEvs, List.map_cons, loopFields] at ih ⊢
    cases hx : ev x with
    | none => simp
    | some p =>
      obtain ⟨out, t⟩ := p
      cases out with
      | raised e => simp [rnOT, Out.rn, LoopR.rn]
      | valid w =>
        simp only [rnRes_some, rnOT, Out.rn, ih]
        cases loopFields evs xs (i + 1) <;> simp [LoopR.rn]
      | invalid e =>
        simp only [rnRes_some, rnOT, Out.rn, ih]
        cases loopFields evs xs (i + 1) <;> simp [LoopR.rn]

theorem runObjCheck_rn (r : Rn) (oc : Option ObjCheck) (vid : Nat) (obj : PyVal) :
    runObjCheck oc (r.v vid) obj = rnOT r (runObjCheck oc vid obj) := by
  unfold runObjCheck
  cases oc with
  | none => simp [rnOT, Out.rn]
  | some c => simp only; cases hf : c.f obj <;> simp [rnOT, Out.rn, Inv.rn, Inv.rnL, ErrK.rn, Ev.rn]

theorem ntuplePre_rn (r : Rn) (o : Oracle) (vid : Nat) (c : Option CoerceK) (lp n : Nat) (x : PyVal) :
    ntuplePre o (r.v vid) c (r.p lp) n x = rnPre r (ntuplePre o vid c lp n x) := by
  unfold ntuplePre
  have htr := gate_tr r o .tuple .list c x
  cases hgt : gate o .tuple .list c x with
  | exn e t => simp only [hgt, Gate.tr] at htr; simp [rnPre, rnOT, Out.rn, htr]
  | rej ek t =>
    simp only [hgt, Gate.tr] at htr
    simp [rnPre, rnOT, Out.rn, Inv.rn, Inv.rnL, htr, gate_rej r o _ _ c x ek t hgt]
  | acc y t =>
    simp only [hgt, Gate.tr] at htr
    simp only
    cases pyLen y with
    | none => simp [rnPre, rnOT, Out.rn, htr]
    | some l =>
      simp only
      by_cases hl : l ≠ n
      · simp [hl, rnPre, rnOT, Out.rn, Inv.rn, Inv.rnL, ErrK.rn, htr]
      · simp only [hl, if_false]
        cases pyIter y <;> simp [rnPre, rnOT, Out.rn, htr]

theorem ntupleFinish_rn (r : Rn) (vid : Nat) (oc : Option ObjCheck) (y : PyVal) (t : List Ev) (l : LoopR) :
    ntupleFinish (r.v vid) oc y (t.map (Ev.rn r)) (l.rn r) = rnOT r (ntupleFinish vid oc y t l) := by
  unfold ntupleFinish
  obtain ⟨ws, es, t', e⟩ := l
  cases e with
  | some e => simp [LoopR.rn, rnOT, Out.rn]
  | none =>
    cases es with
    | cons a es =>
      simp [LoopR.rn, rnOT, Out.rn, Inv.rn, Inv.rnL_eq_map, ErrK.rn, List.map_map, Function.comp_def]
    | nil =>
      simp only [LoopR.rn, List.map_nil, List.isEmpty_nil, Bool.not_true, Bool.false_eq_true, if_false,
        runObjCheck_rn]
      simp [rnOT]

theorem ntupleStep_rn (r : Rn) (o : Oracle) (vid : Nat) (oc : Option ObjCheck) (c : Option CoerceK)
    (lp : Nat) (evs : List Ev1) (x : PyVal) :
    ntupleStep o (r.v vid) oc c (r.p lp) (rnEvs r evs) x = rnRes r (ntupleStep o vid oc c lp evs x) := by
  unfold ntupleStep
  have hl : (rnEvs r evs).length = evs.length := by simp [rnEvs]
  rw [hl, ntuplePre_rn]
  cases ntuplePre o vid c lp evs.length x with
  | inl p => simp [rnPre]
  | inr q =>
    obtain ⟨y, xs, t⟩ := q
    simp only [rnPre, loopFields_rn]
    cases loopFields evs xs 0 with
    | none => simp
    | some l => simp only [Option.map_some, rnRes_some, ntupleFinish_rn]

/-! ### maps -/

def MapR.rn (r : Rn) (a : MapR) : MapR :=
  { a with errs := a.errs.map (Inv.rn r), t := a.t.map (Ev.rn r) }

theorem mapLoop_rn (r : Rn) (evk evv : Ev1) : ∀ kvs acc,
    mapLoop (fun y => rnRes r (evk y)) (fun y => rnRes r (evv y)) kvs acc
      = (mapLoop evk evv kvs acc).map (MapR.rn r)
  | [], acc => by simp [mapLoop, MapR.rn]
  | (k, v) :: rest, acc => by
    simp only [mapLoop]
    cases hk : evk k with
    | none => simp
    | some pk =>
      obtain ⟨ko, tk⟩ := pk
      cases ko with
      | raised e => simp [rnOT, Out.rn, MapR.rn]
      | valid kw =>
        simp only [rnRes_some, rnOT, Out.rn]
        cases hv : evv v with
        | none => simp
        | some pv =>
          obtain ⟨vo, tv⟩ := pv
          cases vo with
          | raised e => simp [rnOT, Out.rn, MapR.rn]
          | valid vw =>
            simp only [rnRes_some, rnOT, Out.rn]
            by_cases hh : hashable kw = true
            · simp only [hh, Bool.not_true, Bool.false_eq_true, if_false, mapLoop_rn r evk evv rest]
              cases mapLoop evk evv rest (dictSet acc kw vw) <;> simp [MapR.rn]
            · simp [hh, MapR.rn]
          | invalid e =>
            simp only [rnRes_some, rnOT, Out.rn, mapLoop_rn r evk evv rest]
            cases mapLoop evk evv rest acc <;> simp [MapR.rn]
      | invalid ke =>
        simp only [rnRes_some, rnOT, Out.rn]
        cases hv : evv v with
        | none => simp
        | some pv =>
          obtain ⟨vo, tv⟩ := pv
          cases vo with
          | raised e => simp [rnOT, Out.rn, MapR.rn]
          | valid vw =>
            simp only [rnRes_some, rnOT, Out.rn, mapLoop_rn r evk evv rest]
            cases mapLoop evk evv rest acc <;> simp [MapR.rn]
          | invalid e =>
            simp only [rnRes_some, rnOT, Out.rn, mapLoop_rn r evk evv rest]
            cases mapLoop evk evv rest acc <;> simp [MapR.rn]

theorem mapPre_rn (r : Rn) (o : Oracle) (m : Mode) (vid : Nat) (ps aps : List Pred) (c : Option CoerceK)
    (x : PyVal) :
    mapPre o m (r.v vid) (ps.map (Pred.rn r)) (aps.map (Pred.rn r)) c x = rnPre r (mapPre o m vid ps aps c x) := by
  unfold mapPre
  by_cases hg : m = .sync ∧ aps ≠ []
  · have : m = .sync ∧ aps.map (Pred.rn r) ≠ [] := ⟨hg.1, by simpa using hg.2⟩
    rw [if_pos hg, if_pos this]; rfl
  · have : ¬(m = .sync ∧ aps.map (Pred.rn r) ≠ []) := by simpa using hg
    rw [if_neg hg, if_neg this]
    have htr := gate_tr r o .dict .dict c x
    cases hgt : gate o .dict .dict c x with
    | exn e t => simp only [hgt, Gate.tr] at htr; simp [rnPre, rnOT, Out.rn, htr]
    | rej ek t =>
      simp only [hgt, Gate.tr] at htr
      simp [rnPre, rnOT, Out.rn, Inv.rn, Inv.rnL, htr, gate_rej r o _ _ c x ek t hgt]
    | acc y t =>
      simp only [hgt, Gate.tr] at htr
      simp only [contPreds_rn]
      cases hc : contPreds m ps aps y with
      | mk f q =>
        obtain ⟨t2, e⟩ := q
        cases e with
        | some e => simp [rnPR, rnPre, rnOT, Out.rn, htr]
        | none =>
          cases f with
          | cons a f => simp [rnPR, rnPre, rnOT, Out.rn, Inv.rn, Inv.rnL, ErrK.rn, htr]
          | nil =>
            simp only [rnPR, List.map_nil, List.isEmpty_nil, Bool.not_true, Bool.false_eq_true, if_false]
            cases dictItems y <;> simp [rnPre, rnOT, Out.rn, htr]

theorem mapFinish_rn (r : Rn) (vid : Nat) (y : PyVal) (t : List Ev) (a : MapR) :
    mapFinish (r.v vid) y (t.map (Ev.rn r)) (a.rn r) = rnOT r (mapFinish vid y t a) := by
  unfold mapFinish
  obtain ⟨out, ks, shape, errs, t', e⟩ := a
  cases e with
  | some e => simp [MapR.rn, rnOT, Out.rn]
  | none =>
    cases ks with
    | nil => simp [MapR.rn, rnOT, Out.rn]
    | cons k ks => simp [MapR.rn, rnOT, Out.rn, Inv.rn, Inv.rnL_eq_map, ErrK.rn]

theorem mapStep_rn (r : Rn) (o : Oracle) (m : Mode) (vid : Nat) (ps aps : List Pred) (c : Option CoerceK)
    (evk evv : Ev1) (x : PyVal) :
    mapStep o m (r.v vid) (ps.map (Pred.rn r)) (aps.map (Pred.rn r)) c
        (fun y => rnRes r (evk y)) (fun y => rnRes r (evv y)) x
      = rnRes r (mapStep o m vid ps aps c evk evv x) := by
  unfold mapStep
  rw [mapPre_rn]
  cases mapPre o m vid ps aps c x with
  | inl p => simp [rnPre]
  | inr q =>
    obtain ⟨y, kvs, t⟩ := q
    simp only [rnPre, mapLoop_rn]
    cases mapLoop evk evv kvs [] with
    | none => simp
    | some a => simp only [Option.map_some, rnRes_some, mapFinish_rn]

/-! ### record-shaped validators -/

def RecR.rn (r : Rn) (a : RecR) : RecR :=
  { a with errs := a.errs.map (Inv.rn r), t := a.t.map (Ev.rn r) }

theorem recLoop_rn (r : Rn) (vid : Nat) (dv : PyVal) (data : List (PyVal × PyVal)) : ∀ evs ks reqs,
    recLoop (r.v vid) dv data (rnEvs r evs) ks reqs = (recLoop vid dv data evs ks reqs).map (RecR.rn r)
  | [], ks, reqs => by simp [rnEvs, recLoop, RecR.rn]
  | ev :: evs, [], reqs => by simp [rnEvs, recLoop, RecR.rn]
  | ev :: evs, k :: ks, [] => by simp [rnEvs, recLoop, RecR.rn]
  | ev :: evs, k :: ks, req :: reqs => by
    have ih := recLoop_rn r vid dv data evs ks reqs
    simp only [rnEvs, List.map_cons, recLoop] at ih ⊢
    cases dictGet data k with
    | none =>
      simp only [ih]
      cases recLoop vid dv data evs ks reqs with
      | none => simp
      | some a => cases req <;> simp [RecR.rn, Inv.rn, Inv.rnL, ErrK.rn]
    | some xv =>
      simp only
      cases hx : ev xv with
      | none => simp
      | some p =>
        obtain ⟨out, t⟩ := p
        cases out with
        | raised e => simp [rnOT, Out.rn, RecR.rn]
        | valid w =>
          simp only [rnRes_some, rnOT, Out.rn, ih]
          cases recLoop vid dv data evs ks reqs <;> simp [RecR.rn]
        | invalid e =>
          simp only [rnRes_some, rnOT, Out.rn, ih]
          cases recLoop vid dv data evs ks reqs <;> simp [RecR.rn]

theorem recGate_tr (r : Rn) (o : Oracle) (cfg : RecCfg) (x : PyVal) :
    (recGate o cfg x).tr.map (Ev.rn r) = (recGate o cfg x).tr := by
  unfold recGate
  split
  · split <;> simp [Gate.tr]
  · split <;> simp [Gate.tr]
  · split
    · exact applyCoerce_tr r _ _ _ _ _ _
    · split <;> simp [Gate.tr]
  · split
    · exact applyCoerce_tr r _ _ _ _ _ _
    · split
      · simp [Gate.tr]
      · split
        · split
          · split <;> simp [Gate.tr]
          · simp [Gate.tr]
        · simp [Gate.tr]

theorem recGate_rej (r : Rn) (o : Oracle) (cfg : RecCfg) (x : PyVal) (k : ErrK) (t : List Ev)
    (h : recGate o cfg x = .rej k t) : k.rn r = k := by
  unfold recGate at h
  split at h
  · split at h <;> simp at h; rw [← h.1]; rfl
  · split at h <;> simp at h; rw [← h.1]; rfl
  · split at h
    · exact applyCoerce_rej r _ _ _ _ _ _ _ _ h
    · split at h <;> simp at h; rw [← h.1]; rfl
  · split at h
    · exact applyCoerce_rej r _ _ _ _ _ _ _ _ h
    · split at h
      · simp at h
      · split at h
        · split at h
          · split at h <;> simp at h
          · simp at h; rw [← h.1]; rfl
        · simp at h; rw [← h.1]; rfl

theorem recPre_rn (r : Rn) (o : Oracle) (m : Mode) (vid : Nat) (cfg : RecCfg) (x : PyVal) :
    recPre o m (r.v vid) cfg x = rnPre r (recPre o m vid cfg x) := by
  unfold recPre
  by_cases hg : m = .sync ∧ cfg.aoc.isSome = true
  · simp only [if_pos hg]; rfl
  · simp only [if_neg hg]
    have htr := recGate_tr r o cfg x
    cases hgt : recGate o cfg x with
    | exn e t => simp only [hgt, Gate.tr] at htr; simp [rnPre, rnOT, Out.rn, htr]
    | rej ek t =>
      simp only [hgt, Gate.tr] at htr
      simp [rnPre, rnOT, Out.rn, Inv.rn, Inv.rnL, htr, recGate_rej r o cfg x ek t hgt]
    | acc y t =>
      simp only [hgt, Gate.tr] at htr
      simp only
      cases dictItems y with
      | none => simp [rnPre, rnOT, Out.rn, htr]
      | some data =>
        simp only
        split <;> simp [rnPre, rnOT, Out.rn, Inv.rn, Inv.rnL, ErrK.rn, htr]

theorem runAObjCheck_rn (r : Rn) (m : Mode) (aoc : Option ObjCheck) (vid : Nat) (obj : PyVal) :
    runAObjCheck m aoc (r.v vid) obj = rnOT r (runAObjCheck m aoc vid obj) := by
  unfold runAObjCheck
  cases m with
  | sync => simp [rnOT, Out.rn]
  | async =>
    cases aoc with
    | none => simp [rnOT, Out.rn]
    | some a => simp only; cases hf : a.f obj <;> simp [rnOT, Out.rn, Inv.rn, Inv.rnL, ErrK.rn, Ev.rn]

theorem recFinish_rn (r : Rn) (m : Mode) (vid : Nat) (cfg : RecCfg) (y : PyVal) (t : List Ev) (a : RecR) :
    recFinish m (r.v vid) cfg y (t.map (Ev.rn r)) (a.rn r) = rnOT r (recFinish m vid cfg y t a) := by
  unfold recFinish
  obtain ⟨got, ks, errs, t', e⟩ := a
  cases e with
  | some e => simp [RecR.rn, rnOT, Out.rn]
  | none =>
    cases ks with
    | cons k ks => simp [RecR.rn, rnOT, Out.rn, Inv.rn, Inv.rnL_eq_map, ErrK.rn]
    | nil =>
      simp only [RecR.rn, List.isEmpty_nil, Bool.not_true, Bool.false_eq_true, if_false, runObjCheck_rn,
        runAObjCheck_rn]
      have hti : (if cfg.kind = .record then [Ev.into cfg.intoId] else []).map (Ev.rn r)
          = (if cfg.kind = .record then [Ev.into cfg.intoId] else []) := by
        split <;> simp [Ev.rn]
      cases ho : (runObjCheck cfg.oc vid (recBuild cfg got)).1 with
      | valid w => simp [rnOT, Out.rn, ho, hti]
      | invalid e => simp [rnOT, Out.rn, ho, hti]
      | raised e => simp [rnOT, Out.rn, ho, hti]

theorem recordStep_rn (r : Rn) (o : Oracle) (m : Mode) (vid : Nat) (cfg : RecCfg) (evs : List Ev1) (x : PyVal) :
    recordStep o m (r.v vid) cfg (rnEvs r evs) x = rnRes r (recordStep o m vid cfg evs x) := by
  unfold recordStep
  rw [recPre_rn]
  cases recPre o m vid cfg x with
  | inl p => simp [rnPre]
  | inr q =>
    obtain ⟨y, data, t⟩ := q
    simp only [rnPre, recLoop_rn]
    cases recLoop vid y data evs cfg.keys cfg.reqs with
    | none => simp
    | some a => simp only [Option.map_some, rnRes_some, recFinish_rn]

/-! ### unions and wrappers -/

theorem unionLoop_rn (r : Rn) (x : PyVal) : ∀ evs,
    unionLoop x (rnEvs r evs)
      = (unionLoop x evs).map (fun q => (q.1, q.2.1.map (Inv.rn r), q.2.2.1.map (Ev.rn r), q.2.2.2))
  | [] => by simp [rnEvs, unionLoop]
  | ev :: evs => by
    have ih := unionLoop_rn r x evs
    simp only [rnEvs, List.map_cons, unionLoop] at ih ⊢
    cases hx : ev x with
    | none => simp
    | some p =>
      obtain ⟨out, t⟩ := p
      cases out with
      | raised e => simp [rnOT, Out.rn]
      | valid w => simp [rnOT, Out.rn]
      | invalid e =>
        simp only [rnRes_some, rnOT, Out.rn, ih]
        cases unionLoop x evs with
        | none => simp
        | some q => obtain ⟨w, es, t', e'⟩ := q; simp

theorem unionStep_rn (r : Rn) (vid : Nat) (evs : List Ev1) (x : PyVal) :
    unionStep (r.v vid) (rnEvs r evs) x = rnRes r (unionStep vid evs x) := by
  unfold unionStep
  rw [unionLoop_rn]
  cases unionLoop x evs with
  | none => simp
  | some q =>
    obtain ⟨w, es, t, e⟩ := q
    cases e with
    | some e => simp [rnOT, Out.rn]
    | none =>
      cases w with
      | some w => simp [rnOT, Out.rn]
      | none => simp [rnOT, Out.rn, Inv.rn, Inv.rnL_eq_map, ErrK.rn]

theorem maybeStep_rn (r : Rn) (vid : Nat) (ev : Ev1) (x : PyVal) :
    maybeStep (r.v vid) (fun y => rnRes r (ev y)) x = rnRes r (maybeStep vid ev x) := by
  unfold maybeStep
  cases x with
  | just oid v =>
    simp only
    cases hv : ev v with
    | none => simp
    | some p =>
      obtain ⟨out, t⟩ := p
      cases out <;> simp [rnOT, Out.rn, Inv.rn, Inv.rnL, ErrK.rn]
  | nothing => simp [rnOT, Out.rn]
  | _ => simp [rnOT, Out.rn, Inv.rn, Inv.rnL, ErrK.rn]

theorem knrStep_rn (r : Rn) (ev : Ev1) (x : PyVal) :
    knrStep (fun y => rnRes r (ev y)) x = rnRes r (knrStep ev x) := by
  unfold knrStep
  simp only
  cases hx : ev x with
  | none => simp
  | some p =>
    obtain ⟨out, t⟩ := p
    cases out <;> simp [rnOT, Out.rn]

theorem userStep_rn (r : Rn) (vid : Nat) (m : Mode) (ev : Ev1) (x : PyVal) :
    userStep (r.v vid) m (fun y => rnRes r (ev y)) x = rnRes r (userStep vid m ev x) := by
  unfold userStep
  simp only
  cases hx : ev x with
  | none => simp
  | some p => obtain ⟨out, t⟩ := p; simp [rnOT, Ev.rn]

/-! ### the theorem -/

/-- **Identities are inert.**  For every validator tree, every environment of named validators,
    mode, amount of fuel and input: renaming the identities of the validator objects and of the
    predicate / processor objects in the tree renames them in the result — verdict, payload, error
    kinds, error values, positions, the callbacks logged — and changes nothing else. -/
theorem C19_rename (r : Rn) (o : Oracle) (env : Nat → V) (m : Mode) :
    ∀ n v x, run o (fun i => (env i).rn r) m n (v.rn r) x = rnRes r (run o env m n v x) := by
  intro n
  induction n with
  | zero => intro v x; simp [run]
  | succ n ih =>
    intro v x
    have ihf : ∀ w, run o (fun i => (env i).rn r) m n (w.rn r) = fun y => rnRes r (run o env m n w y) :=
      fun w => funext (ih w)
    have ihL : ∀ ws : List V, (V.rnL r ws).map (run o (fun i => (env i).rn r) m n)
        = rnEvs r (ws.map (run o env m n)) := by
      intro ws
      rw [V.rnL_eq_map]
      simp only [rnEvs, List.map_map]
      apply List.map_congr_left
      intro w _
      exact ihf w
    cases v with
    | scalar vid tg c pre ps aps => simp only [V.rn, run, scalarStep_rn, rnRes_some]
    | equals vid mt pre pid => simp only [V.rn, run, equalsStep_rn, rnRes_some]
    | noneV vid c => simp only [V.rn, run, noneStep_rn, rnRes_some]
    | always vid => simp [V.rn, run, rnOT, Out.rn]
    | isDict vid => simp only [V.rn, run, isDictStep_rn, rnRes_some]
    | list vid item ps aps c => simp only [V.rn, run, ihf, seqStep_rn]
    | set vid item ps aps c => simp only [V.rn, run, ihf, seqStep_rn]
    | utuple vid item ps aps c => simp only [V.rn, run, ihf, seqStep_rn]
    | ntuple vid fs oc c lp => simp only [V.rn, run, ihL, ntupleStep_rn]
    | map vid kv vv ps aps c => simp only [V.rn, run, ihf, mapStep_rn]
    | record vid cfg vs => simp only [V.rn, run, ihL, recordStep_rn]
    | union vid vs => simp only [V.rn, run, ihL, unionStep_rn]
    | optional vid nv inner =>
      simp only [V.rn, run, ihf]
      exact unionStep_rn r vid [run o env m n nv, run o env m n inner] x
    | maybe vid inner => simp only [V.rn, run, ihf, maybeStep_rn]
    | «lazy» vid ref => simp only [V.rn, run]; exact ih (env ref) x
    | knr vid inner => simp only [V.rn, run, ihf, knrStep_rn]
    | user vid inner => simp only [V.rn, run, ihf, userStep_rn]

/-- **Equality is a behavioural congruence.**  If two validators are the same tree once object
    identities are renamed (`r` on one side, `r'` on the other) — which is what `==` decides: same
    class and target type, equal children, predicates, processors, coercer, requiredness, unknown-key
    policy, and the same user callbacks — and the named validators they refer to are too, then on
    every input, in both modes and for any amount of fuel, they return the same result up to those
    renamings. -/
theorem C19_congruence (r r' : Rn) (o : Oracle) (env env' : Nat → V) (m : Mode) (a b : V)
    (hab : a.rn r = b.rn r') (henv : ∀ i, (env i).rn r = (env' i).rn r') (n : Nat) (x : PyVal) :
    rnRes r (run o env m n a x) = rnRes r' (run o env' m n b x) := by
  rw [← C19_rename, ← C19_rename, hab]
  have : (fun i => (env i).rn r) = fun i => (env' i).rn r' := funext henv
  rw [this]

/-- in particular they agree on whether the call returns, on the verdict and on the payload -/
theorem C19_same_verdict (r r' : Rn) (o : Oracle) (env env' : Nat → V) (m : Mode) (a b : V)
    (hab : a.rn r = b.rn r') (henv : ∀ i, (env i).rn r = (env' i).rn r') (n : Nat) (x : PyVal) (w : PyVal) :
    (∃ t, run o env m n a x = some (.valid w, t)) ↔ (∃ t, run o env' m n b x = some (.valid w, t)) := by
  have h := C19_congruence r r' o env env' m a b hab henv n x
  constructor
  · intro ⟨t, ht⟩
    rw [ht] at h
    cases hb : run o env' m n b x with
    | none => simp [hb] at h
    | some p =>
      obtain ⟨out, tb⟩ := p
      rw [hb] at h
      simp only [rnRes_some, rnOT, Out.rn, Option.some.injEq, Prod.mk.injEq] at h
      cases out <;> simp_all [Out.rn]
  · intro ⟨t, ht⟩
    rw [ht] at h
    cases ha : run o env m n a x with
    | none => simp [ha] at h
    | some p =>
      obtain ⟨out, ta⟩ := p
      rw [ha] at h
      simp only [rnRes_some, rnOT, Out.rn, Option.some.injEq, Prod.mk.injEq] at h
      cases out <;> simp_all [Out.rn]

/-! ### non-vacuity -/

/-- two constructions of `ListValidator(IntValidator(Min(0)), predicates=[MinItems(1)])`: different
    objects throughout (validator identities 1,2 vs 7,8; predicate identities 3,4 vs 5,6) -/
def exEqA : V := .list 1 (.scalar 2 .int none [] [⟨3, .min (.int 0) false⟩] []) [⟨4, .minItems 1⟩] [] none
def exEqB : V := .list 7 (.scalar 8 .int none [] [⟨5, .min (.int 0) false⟩] []) [⟨6, .minItems 1⟩] [] none

example : exEqA.rn ⟨fun _ => 0, fun _ => 0⟩ = exEqB.rn ⟨fun _ => 0, fun _ => 0⟩ := by
  simp [exEqA, exEqB, V.rn, Pred.rn]

/-- a renaming that keeps the two levels apart: list ↦ 100, item ↦ 200 on both sides -/
example : exEqA.rn ⟨fun p => p % 2, fun v => if v = 1 then 100 else 200⟩
    = exEqB.rn ⟨fun p => p % 2, fun v => if v = 7 then 100 else 200⟩ := by
  simp [exEqA, exEqB, V.rn, Pred.rn]

end Koda

