/-
  C04 — `RecordValidator` *as written in /repo's current source*.

  `Generated/DictAnySrc.lean` (regenerated on every run) also holds the translation of
  `RecordValidator._validate_to_tuple` and `_validate_to_tuple_async` (koda_validate/dictionary.py), in the same
  language (`KodaModel/PyDictAny.lean`).  Interpreting them is the model's `recordStep` for the `record` kind: for every
  list of keys (validators, requiredness - a `KeyNotRequired` marker stays in place and wraps its payload in `Just`),
  target constructor, policy, whole-object check and input - `isinstance(data, dict)`, undeclared keys first, every
  declared key, `nothing` for an absent optional key, `into(*args)` with the payloads in declaration order.
-/
import KodaModel.Properties.C04DictAny

set_option linter.unusedSimpArgs false

namespace Koda

def DictAnyCfg.toRecord (c : DictAnyCfg) : RecCfg :=
  { kind := .record, keys := c.keys, reqs := c.reqs, cls := default, fieldNames := [], defaults := [], intoId := c.intoId,
    into := c.into, oc := c.oc, aoc := c.aoc, failUnknown := c.failUnknown, coerce := none }

/-! ### the pieces -/

def rGate : DStmt := .ite (.not (.isInstDict .data)) [.ret (.pair (.bool false) (.mkInvalid (.mkTypeErr .dictTy) .data .self))] []

/-- `guarded`: the sync method appends `nothing` only while no error has been seen, the async one always -/
def rLoopBody (aw : Bool) : List DStmt :=
  [.ite (.notIn (.var .keyU) .data)
     [.ite (.var .keyRequired) [.setItem .errs (.var .keyU) (.mkInvalid .mkMissingKeyErr .data .self)]
        (if aw then [.append .args .nothing] else [.ite (.not (.var .errs)) [.append .args .nothing] []])]
     [.assign2 .success .newVal
        (if aw then .await (.call1 (.var .validator) (.subscript .data (.var .keyU)))
         else .call1 (.var .validator) (.subscript .data (.var .keyU))),
      .ite (.not (.var .success)) [.setItem .errs (.var .keyU) (.var .newVal)]
        [.ite (.not (.var .errs)) [.append .args (.var .newVal)] []]]]

def rLoop (fast : DSelf) (aw : Bool) : DStmt := .forIn3 .keyU .validator .keyRequired (.selfAttr fast) (rLoopBody aw)

def rOc : DExp := .and (.selfAttr .validateObject) (.walrus .result (.call1 (.selfAttr .validateObject) (.var .obj)))
def rAoc : DExp :=
  .and (.selfAttr .validateObjectAsync) (.walrus .asyncResult (.await (.call1 (.selfAttr .validateObjectAsync) (.var .obj))))
def rBuild : DStmt := .assign .obj (.callStar (.selfAttr .into) (.var .args))
def rRetOk : DStmt := .ret (.pair (.bool true) (.var .obj))
def rRetCustom (v : DVar) : List DStmt := [.ret (.pair (.bool false) (.mkInvalid (.var v) (.var .obj) .self))]

def rFinalSync : DStmt := .ite (.var .errs) dRetKeys [rBuild, .ite rOc (rRetCustom .result) [], rRetOk]
def rFinalAsync : DStmt :=
  .ite (.var .errs) dRetKeys [rBuild, .ite rOc (rRetCustom .result) [.ite rAoc (rRetCustom .asyncResult) []], rRetOk]

theorem recordSync_eq : Src.recordSync =
    [dGuard, rGate, dScan, .assign .args .emptyList, .assign .errs .emptyDict, rLoop .fastKeysSync false, rFinalSync] := rfl
theorem recordAsync_eq : Src.recordAsync =
    [rGate, dScan, .assign .args .emptyList, .assign .errs .emptyDict, rLoop .fastKeysAsync true, rFinalAsync] := rfl

theorem rGate_exec (cfg : DictAnyCfg) (x : PyVal) (st : DSt) (rest : List DStmt) :
    (x.baseTy ≠ .dict → outD (DStmt.execL cfg x st (rGate :: rest)) = some (.invalid (.mk (.type .dict) x cfg.vid []), st.tr)) ∧
    (x.baseTy = .dict → DStmt.execL cfg x st (rGate :: rest) = DStmt.execL cfg x st rest) := by
  rw [dexecL_cons, rGate, dexec_ite]
  refine ⟨?_, ?_⟩
  · intro h
    have hb : (x.baseTy == Ty.dict) = false := by simpa using h
    simp [DExp.eval, hb, dtruthy, dexecL_single, DStmt.exec, outD]
  · intro h
    have hb : (x.baseTy == Ty.dict) = true := by simpa using h
    simp [DExp.eval, hb, dtruthy, dexecL_nil]

/-! ### the loop over the declared keys -/

structure RInv (st : DSt) (ws : List PyVal) (es : List (PyVal × Inv)) : Prop where
  sd : st.env.args = .payloadList ws
  er : (es = [] ∧ st.env.errs = .dictPayload []) ∨ (es ≠ [] ∧ st.env.errs = .keyErrs es)

def argsOf (got : List (Option PyVal)) : List PyVal := got.map (fun g => g.getD .nothing)

/-- what one round leaves behind when it does not raise: the trace it adds, the error entry it files (if any), the
    payload it stores (if any) -/
theorem rLoopBody_step (cfg : DictAnyCfg) (x : PyVal) (aw : Bool) (data : List (PyVal × PyVal)) (hx : dictItems x = some data)
    (st : DSt) (k : PyVal) (ev : Ev1) (req : Bool) (sd : List PyVal) (es : List (PyVal × Inv)) (hinv : RInv st sd es) :
    let st0 : DSt := { st with env := ((st.env.set .keyU (.py k)).set .validator (.fieldV ev)).set .keyRequired (.bool req) }
    (dictGet data k = none → req = true →
      ∃ st1, DStmt.execL cfg x st0 (rLoopBody aw) = .ok (.next st1) ∧ st1.tr = st.tr ∧
        RInv st1 sd (es ++ [(k, .mk .missingKey x cfg.vid [])])) ∧
    (dictGet data k = none → req = false →
      ∃ st1, DStmt.execL cfg x st0 (rLoopBody aw) = .ok (.next st1) ∧ st1.tr = st.tr ∧
        RInv st1 (if es.isEmpty then sd ++ [.nothing] else (if aw then sd ++ [.nothing] else sd)) es) ∧
    (∀ xv, dictGet data k = some xv →
      (ev xv = none → ∃ t, DStmt.execL cfg x st0 (rLoopBody aw) = .error (.diverge, t)) ∧
      (∀ e t, ev xv = some (.raised e, t) → DStmt.execL cfg x st0 (rLoopBody aw) = .error (.exn e, st.tr ++ t)) ∧
      (∀ w t, ev xv = some (.valid w, t) →
        ∃ st1, DStmt.execL cfg x st0 (rLoopBody aw) = .ok (.next st1) ∧ st1.tr = st.tr ++ t ∧
          RInv st1 (if es.isEmpty then sd ++ [w] else sd) es) ∧
      (∀ e t, ev xv = some (.invalid e, t) →
        ∃ st1, DStmt.execL cfg x st0 (rLoopBody aw) = .ok (.next st1) ∧ st1.tr = st.tr ++ t ∧
          RInv st1 sd (es ++ [(k, e)]))) := by
  intro st0
  obtain ⟨h1, h2⟩ := hinv
  refine ⟨?_, ?_, ?_⟩
  · intro hg hr
    subst hr
    rcases h2 with ⟨rfl, h2⟩ | ⟨hne, h2⟩ <;> cases aw <;>
      simp [st0, rLoopBody, DStmt.execL, DStmt.exec, DExp.eval, DEnv.get, DEnv.set, hx, hg, dtruthy, h1, h2] <;>
      exact ⟨rfl, .inr ⟨by simp, rfl⟩⟩
  · intro hg hr
    subst hr
    rcases h2 with ⟨rfl, h2⟩ | ⟨hne, h2⟩
    · cases aw <;>
        simp [st0, rLoopBody, DStmt.execL, DStmt.exec, DExp.eval, DEnv.get, DEnv.set, hx, hg, dtruthy, h1, h2] <;>
        exact ⟨rfl, .inl ⟨rfl, rfl⟩⟩
    · have hemp : es.isEmpty = false := by cases es with
        | nil => exact absurd rfl hne
        | cons a l => rfl
      cases aw <;>
        simp [st0, rLoopBody, DStmt.execL, DStmt.exec, DExp.eval, DEnv.get, DEnv.set, hx, hg, dtruthy, h1, h2, hemp] <;>
        exact ⟨rfl, .inr ⟨hne, rfl⟩⟩
  · intro xv hg
    refine ⟨?_, ?_, ?_, ?_⟩
    · intro h
      refine ⟨st.tr, ?_⟩
      cases aw <;> simp [st0, rLoopBody, DStmt.execL, DStmt.exec, DExp.eval, DEnv.get, DEnv.set, hx, hg, dtruthy, h]
    · intro e t h
      cases aw <;> simp [st0, rLoopBody, DStmt.execL, DStmt.exec, DExp.eval, DEnv.get, DEnv.set, hx, hg, dtruthy, h]
    · intro w t h
      rcases h2 with ⟨rfl, h2⟩ | ⟨hne, h2⟩
      · cases aw <;>
          simp [st0, rLoopBody, DStmt.execL, DStmt.exec, DExp.eval, DEnv.get, DEnv.set, hx, hg, dtruthy, h, h1, h2] <;>
          exact ⟨rfl, .inl ⟨rfl, rfl⟩⟩
      · have hemp : es.isEmpty = false := by cases es with
          | nil => exact absurd rfl hne
          | cons a l => rfl
        cases aw <;>
          simp [st0, rLoopBody, DStmt.execL, DStmt.exec, DExp.eval, DEnv.get, DEnv.set, hx, hg, dtruthy, h, h1, h2, hemp] <;>
          exact ⟨rfl, .inr ⟨hne, rfl⟩⟩
    · intro e t h
      rcases h2 with ⟨rfl, h2⟩ | ⟨hne, h2⟩ <;> cases aw <;>
        simp [st0, rLoopBody, DStmt.execL, DStmt.exec, DExp.eval, DEnv.get, DEnv.set, hx, hg, dtruthy, h, h1, h2] <;>
        exact ⟨rfl, .inr ⟨by simp, rfl⟩⟩

def RKeysOK (cfg : DictAnyCfg) (x : PyVal) (aw : Bool) (data : List (PyVal × PyVal)) (evs : List Ev1) (ks : List PyVal)
    (reqs : List Bool) (st : DSt) (sd : List PyVal) (es : List (PyVal × Inv)) : Prop :=
  (recLoop cfg.vid x data evs ks reqs = none →
    ∃ t, dforFold3 (fun st => DStmt.execL cfg x st (rLoopBody aw)) .keyU .validator .keyRequired (ks.zip (evs.zip reqs)) st =
      .error (.diverge, t)) ∧
  (∀ r e, recLoop cfg.vid x data evs ks reqs = some r → r.r = some e →
    dforFold3 (fun st => DStmt.execL cfg x st (rLoopBody aw)) .keyU .validator .keyRequired (ks.zip (evs.zip reqs)) st =
      .error (.exn e, st.tr ++ r.t)) ∧
  (∀ r, recLoop cfg.vid x data evs ks reqs = some r → r.r = none →
    ∃ st1 es', dforFold3 (fun st => DStmt.execL cfg x st (rLoopBody aw)) .keyU .validator .keyRequired (ks.zip (evs.zip reqs)) st =
        .ok (.next st1) ∧ st1.tr = st.tr ++ r.t ∧ r.ks = es'.map Prod.fst ∧ r.errs = es'.map Prod.snd ∧
      (es ++ es' = [] → RInv st1 (sd ++ argsOf r.got) []) ∧ (∃ sd', RInv st1 sd' (es ++ es')))

theorem rforFold3_keys (cfg : DictAnyCfg) (x : PyVal) (aw : Bool) (data : List (PyVal × PyVal)) (hx : dictItems x = some data) :
    ∀ (evs : List Ev1) (ks : List PyVal) (reqs : List Bool) (st : DSt) (sd : List PyVal) (es : List (PyVal × Inv)),
      RInv st sd es → RKeysOK cfg x aw data evs ks reqs st sd es := by
  intro evs
  induction evs with
  | nil =>
    intro ks reqs st sd es hinv
    unfold RKeysOK
    refine ⟨?_, ?_, ?_⟩
    · intro h; simp [recLoop] at h
    · intro r e h hr
      simp only [recLoop, Option.some.injEq] at h; subst h; simp at hr
    · intro r h _
      simp only [recLoop, Option.some.injEq] at h; subst h
      refine ⟨st, [], by simp [dforFold3], by simp, rfl, rfl, ?_, ⟨sd, by simpa using hinv⟩⟩
      intro h0
      simp only [List.append_nil] at h0
      subst h0
      simpa [argsOf] using hinv
  | cons ev evs ih =>
    intro ks reqs st sd es hinv
    -- the three lists run in step: when one of them ends, so does the loop
    have hstop : ∀ (ks : List PyVal) (reqs : List Bool), ks = [] ∨ reqs = [] → RKeysOK cfg x aw data (ev :: evs) ks reqs st sd es := by
      intro ks reqs h
      have h0 : ks.zip ((ev :: evs).zip reqs) = [] := by
        rcases h with rfl | rfl
        · simp
        · simp
      have hr : recLoop cfg.vid x data (ev :: evs) ks reqs = some ⟨[], [], [], [], none⟩ := by
        rcases h with rfl | rfl
        · simp [recLoop]
        · cases ks <;> simp [recLoop]
      unfold RKeysOK
      rw [h0, hr]
      refine ⟨?_, ?_, ?_⟩
      · intro h; simp at h
      · intro r e h hr'
        simp only [Option.some.injEq] at h; subst h; simp at hr'
      · intro r h _
        simp only [Option.some.injEq] at h; subst h
        refine ⟨st, [], by simp [dforFold3], by simp, rfl, rfl, ?_, ⟨sd, by simpa using hinv⟩⟩
        intro h0'
        simp only [List.append_nil] at h0'
        subst h0'
        simpa [argsOf] using hinv
    cases ks with
    | nil => exact hstop [] reqs (.inl rfl)
    | cons k ks =>
      cases reqs with
      | nil => exact hstop (k :: ks) [] (.inr rfl)
      | cons req reqs =>
        obtain ⟨b1, b2, b3⟩ := rLoopBody_step cfg x aw data hx st k ev req sd es hinv
        unfold RKeysOK
        simp only [List.zip_cons_cons]
        rw [dforFold3_unfold]
        simp only [recLoop]
        cases hg : dictGet data k with
        | none =>
          cases req with
          | true =>
            obtain ⟨st1, e1, e2, e3⟩ := b1 hg rfl
            rw [e1]
            simp only [if_true]
            obtain ⟨i1, i2, i3⟩ := ih ks reqs st1 sd (es ++ [(k, .mk .missingKey x cfg.vid [])]) e3
            cases hl : recLoop cfg.vid x data evs ks reqs with
            | none =>
              refine ⟨?_, ?_, ?_⟩
              · intro _; exact i1 hl
              · intro r e h; simp at h
              · intro r h; simp at h
            | some r' =>
              refine ⟨?_, ?_, ?_⟩
              · intro h; simp at h
              · intro r e h hr
                simp only [Option.some.injEq] at h; subst h
                rw [i2 r' e hl hr, e2]
              · intro r h hr
                simp only [Option.some.injEq] at h; subst h
                obtain ⟨st2, es', j1, j2, j3, j4, j5, sd', j6⟩ := i3 r' hl hr
                refine ⟨st2, (k, .mk .missingKey x cfg.vid []) :: es', j1, by rw [j2, e2], by simp [j3], by simp [j4], ?_,
                  ⟨sd', by simpa [List.append_assoc] using j6⟩⟩
                intro h0; simp at h0
          | false =>
            obtain ⟨st1, e1, e2, e3⟩ := b2 hg rfl
            rw [e1]
            simp only [Bool.false_eq_true, if_false]
            obtain ⟨i1, i2, i3⟩ := ih ks reqs st1 (if es.isEmpty then sd ++ [.nothing] else (if aw then sd ++ [.nothing] else sd)) es e3
            cases hl : recLoop cfg.vid x data evs ks reqs with
            | none =>
              refine ⟨?_, ?_, ?_⟩
              · intro _; exact i1 hl
              · intro r e h; simp at h
              · intro r h; simp at h
            | some r' =>
              refine ⟨?_, ?_, ?_⟩
              · intro h; simp at h
              · intro r e h hr
                simp only [Option.some.injEq] at h; subst h
                rw [i2 r' e hl hr, e2]
              · intro r h hr
                simp only [Option.some.injEq] at h; subst h
                obtain ⟨st2, es', j1, j2, j3, j4, j5, j6⟩ := i3 r' hl hr
                refine ⟨st2, es', j1, by rw [j2, e2], j3, j4, ?_, j6⟩
                intro h0
                have hes : es = [] := (List.append_eq_nil_iff.mp h0).1
                have := j5 h0
                subst hes
                simpa [argsOf, List.append_assoc] using this
        | some xv =>
          obtain ⟨c1, c2, c3, c4⟩ := b3 xv hg
          simp only
          cases hc : ev xv with
          | none =>
            obtain ⟨t0, h0⟩ := c1 hc
            refine ⟨?_, ?_, ?_⟩
            · intro _; exact ⟨t0, by rw [h0]⟩
            · intro r e h; simp at h
            · intro r h; simp at h
          | some p =>
            obtain ⟨out, t0⟩ := p
            cases out with
            | raised e0 =>
              have h0 := c2 e0 t0 hc
              refine ⟨?_, ?_, ?_⟩
              · intro h; simp at h
              · intro r e h hr
                simp only [Option.some.injEq] at h; subst h
                simp only [Option.some.injEq] at hr; subst hr
                rw [h0]
              · intro r h hr
                simp only [Option.some.injEq] at h; subst h; simp at hr
            | valid w0 =>
              obtain ⟨st1, e1, e2, e3⟩ := c3 w0 t0 hc
              rw [e1]
              simp only
              obtain ⟨i1, i2, i3⟩ := ih ks reqs st1 (if es.isEmpty then sd ++ [w0] else sd) es e3
              cases hl : recLoop cfg.vid x data evs ks reqs with
              | none =>
                refine ⟨?_, ?_, ?_⟩
                · intro _; exact i1 hl
                · intro r e h; simp at h
                · intro r h; simp at h
              | some r' =>
                refine ⟨?_, ?_, ?_⟩
                · intro h; simp at h
                · intro r e h hr
                  simp only [Option.some.injEq] at h; subst h
                  rw [i2 r' e hl hr, e2]; simp [List.append_assoc]
                · intro r h hr
                  simp only [Option.some.injEq] at h; subst h
                  obtain ⟨st2, es', j1, j2, j3, j4, j5, j6⟩ := i3 r' hl hr
                  refine ⟨st2, es', j1, by rw [j2, e2]; simp [List.append_assoc], j3, j4, ?_, j6⟩
                  intro h0
                  have hes : es = [] := (List.append_eq_nil_iff.mp h0).1
                  have := j5 h0
                  subst hes
                  simpa [argsOf, List.append_assoc] using this
            | invalid e0 =>
              obtain ⟨st1, e1, e2, e3⟩ := c4 e0 t0 hc
              rw [e1]
              simp only
              obtain ⟨i1, i2, i3⟩ := ih ks reqs st1 sd (es ++ [(k, e0)]) e3
              cases hl : recLoop cfg.vid x data evs ks reqs with
              | none =>
                refine ⟨?_, ?_, ?_⟩
                · intro _; exact i1 hl
                · intro r e h; simp at h
                · intro r h; simp at h
              | some r' =>
                refine ⟨?_, ?_, ?_⟩
                · intro h; simp at h
                · intro r e h hr
                  simp only [Option.some.injEq] at h; subst h
                  rw [i2 r' e hl hr, e2]; simp [List.append_assoc]
                · intro r h hr
                  simp only [Option.some.injEq] at h; subst h
                  obtain ⟨st2, es', j1, j2, j3, j4, j5, sd', j6⟩ := i3 r' hl hr
                  refine ⟨st2, (k, e0) :: es', j1, by rw [j2, e2]; simp [List.append_assoc], by simp [j3], by simp [j4], ?_,
                    ⟨sd', by simpa [List.append_assoc] using j6⟩⟩
                  intro h0; simp at h0

/-! ### after the loop -/

theorem rFinal_keys (cfg : DictAnyCfg) (x : PyVal) (fin : DStmt) (hfin : fin = rFinalSync ∨ fin = rFinalAsync) (st : DSt)
    (ws : List PyVal) (es : List (PyVal × Inv)) (hne : es ≠ []) (hinv : RInv st ws es) :
    outD (DStmt.execL cfg x st [fin]) =
      some (.invalid (.mk (.keys (es.map Prod.fst)) x cfg.vid (es.map Prod.snd)), st.tr) := by
  obtain ⟨h1, h2⟩ := hinv
  have he : st.env.errs = .keyErrs es := by
    rcases h2 with ⟨h, _⟩ | ⟨_, h⟩
    · exact absurd h hne
    · exact h
  have hemp : es.isEmpty = false := by cases es with
    | nil => exact absurd rfl hne
    | cons a l => rfl
  rcases hfin with rfl | rfl <;>
    simp [rFinalSync, rFinalAsync, dRetKeys, DStmt.execL, DStmt.exec, DExp.eval, DEnv.get, he, dtruthy, hemp, outD]

theorem rFinal_ok (cfg : DictAnyCfg) (x : PyVal) (m : Mode) (fin : DStmt)
    (hfin : (m = .sync ∧ fin = rFinalSync ∧ cfg.aoc = none) ∨ (m = .async ∧ fin = rFinalAsync)) (st : DSt)
    (ws : List PyVal) (hinv : RInv st ws []) :
    outD (DStmt.execL cfg x st [fin]) =
      some (match (runObjCheck cfg.oc cfg.vid (cfg.into ws)).1 with
        | .valid _ => ((runAObjCheck m cfg.aoc cfg.vid (cfg.into ws)).1,
                       st.tr ++ [Ev.into cfg.intoId] ++ (runObjCheck cfg.oc cfg.vid (cfg.into ws)).2 ++
                         (runAObjCheck m cfg.aoc cfg.vid (cfg.into ws)).2)
        | other => (other, st.tr ++ [Ev.into cfg.intoId] ++ (runObjCheck cfg.oc cfg.vid (cfg.into ws)).2)) := by
  obtain ⟨h1, h2⟩ := hinv
  have he : st.env.errs = .dictPayload [] := by
    rcases h2 with ⟨_, h⟩ | ⟨h, _⟩
    · exact h
    · exact absurd rfl h
  rcases hfin with ⟨rfl, rfl, hao⟩ | ⟨rfl, rfl⟩
  · cases hoc : cfg.oc with
    | none =>
      simp [rFinalSync, rBuild, rOc, rRetOk, DStmt.execL, DStmt.exec, DExp.eval, DEnv.get, DEnv.set, dselfAttr, he, h1, hoc, hao,
        dtruthy, outD, runObjCheck, runAObjCheck]
    | some c =>
      cases hf : c.f (cfg.into ws) <;>
        simp [rFinalSync, rBuild, rOc, rRetCustom, rRetOk, DStmt.execL, DStmt.exec, DExp.eval, DEnv.get, DEnv.set, dselfAttr, he, h1,
          hoc, hao, hf, dtruthy, outD, runObjCheck, runAObjCheck]
  · cases hoc : cfg.oc with
    | none =>
      cases hao : cfg.aoc with
      | none =>
        simp [rFinalAsync, rBuild, rOc, rAoc, rRetOk, DStmt.execL, DStmt.exec, DExp.eval, DEnv.get, DEnv.set, dselfAttr, he, h1, hoc,
          hao, dtruthy, outD, runObjCheck, runAObjCheck]
      | some a =>
        cases hg : a.f (cfg.into ws) <;>
          simp [rFinalAsync, rBuild, rOc, rAoc, rRetCustom, rRetOk, DStmt.execL, DStmt.exec, DExp.eval, DEnv.get, DEnv.set, dselfAttr,
            he, h1, hoc, hao, hg, dtruthy, outD, runObjCheck, runAObjCheck]
    | some c =>
      cases hf : c.f (cfg.into ws) with
      | some e =>
        simp [rFinalAsync, rBuild, rOc, rAoc, rRetCustom, rRetOk, DStmt.execL, DStmt.exec, DExp.eval, DEnv.get, DEnv.set, dselfAttr,
          he, h1, hoc, hf, dtruthy, outD, runObjCheck, runAObjCheck]
      | none =>
        cases hao : cfg.aoc with
        | none =>
          simp [rFinalAsync, rBuild, rOc, rAoc, rRetOk, DStmt.execL, DStmt.exec, DExp.eval, DEnv.get, DEnv.set, dselfAttr, he, h1,
            hoc, hf, hao, dtruthy, outD, runObjCheck, runAObjCheck]
        | some a =>
          cases hg : a.f (cfg.into ws) <;>
            simp [rFinalAsync, rBuild, rOc, rAoc, rRetCustom, rRetOk, DStmt.execL, DStmt.exec, DExp.eval, DEnv.get, DEnv.set,
              dselfAttr, he, h1, hoc, hf, hao, hg, dtruthy, outD, runObjCheck, runAObjCheck, List.append_assoc]

theorem rTail_exec (cfg : DictAnyCfg) (x : PyVal) (m : Mode) (fast : DSelf) (aw : Bool) (fin : DStmt)
    (hfast : fast = .fastKeysSync ∨ fast = .fastKeysAsync)
    (hfin : (m = .sync ∧ fin = rFinalSync ∧ cfg.aoc = none) ∨ (m = .async ∧ fin = rFinalAsync))
    (st : DSt) (data : List (PyVal × PyVal)) (hx : dictItems x = some data) :
    outD (DStmt.execL cfg x st [.assign .args .emptyList, .assign .errs .emptyDict, rLoop fast aw, fin]) =
      (match recLoop cfg.vid x data cfg.evs cfg.keys cfg.reqs with
       | none => none
       | some r => some (recFinish m cfg.vid cfg.toRecord x st.tr r)) := by
  have hinit : DStmt.execL cfg x st [.assign .args .emptyList, .assign .errs .emptyDict, rLoop fast aw, fin] =
      DStmt.execL cfg x { st with env := (st.env.set .args (.payloadList [])).set .errs (.dictPayload []) }
        [rLoop fast aw, fin] := by
    simp [DStmt.execL, DStmt.exec, DExp.eval]
  rw [hinit]
  let st0 : DSt := { st with env := (st.env.set .args (.payloadList [])).set .errs (.dictPayload []) }
  have hinv0 : RInv st0 [] [] := ⟨rfl, .inl ⟨rfl, rfl⟩⟩
  rw [dexecL_cons]
  have hloop : DStmt.exec cfg x st0 (rLoop fast aw) =
      dforFold3 (fun st => DStmt.execL cfg x st (rLoopBody aw)) .keyU .validator .keyRequired
        (cfg.keys.zip (cfg.evs.zip cfg.reqs)) st0 := by
    rcases hfast with rfl | rfl <;> simp only [rLoop, DStmt.exec, DExp.eval, dselfAttr]
  show outD (match DStmt.exec cfg x st0 (rLoop fast aw) with
    | .error err => .error err
    | .ok (.next st) => DStmt.execL cfg x st [fin]
    | .ok (.returned d st) => .ok (.returned d st)) = _
  rw [hloop]
  obtain ⟨l1, l2, l3⟩ := rforFold3_keys cfg x aw data hx cfg.evs cfg.keys cfg.reqs st0 [] [] hinv0
  cases hl : recLoop cfg.vid x data cfg.evs cfg.keys cfg.reqs with
  | none =>
    obtain ⟨t, ht⟩ := l1 hl
    rw [ht]; rfl
  | some r =>
    cases hr : r.r with
    | some e =>
      rw [l2 r e hl hr]
      simp [outD, recFinish, hr, st0]
    | none =>
      obtain ⟨st1, es', h1, h2, h3, h4, h5, sd', h6⟩ := l3 r hl hr
      rw [h1]
      simp only [List.nil_append] at h5 h6
      simp only
      cases hes : es' with
      | nil =>
        have hinv1 := h5 hes
        rw [rFinal_ok cfg x m fin hfin st1 _ hinv1, h2]
        have hks : r.ks = [] := by rw [h3, hes]; rfl
        simp only [recFinish, hr, hks, List.isEmpty_nil, Bool.not_true, Bool.false_eq_true, if_false, st0]
        have hb : recBuild cfg.toRecord r.got = cfg.into (argsOf r.got) := by
          simp [recBuild, DictAnyCfg.toRecord, argsOf]
        have hk : cfg.toRecord.kind = .record := rfl
        have hid : cfg.toRecord.intoId = cfg.intoId := rfl
        simp only [hb, hk, hid, if_true, List.append_nil, List.nil_append]
        have hoc : cfg.toRecord.oc = cfg.oc := rfl
        have hao : cfg.toRecord.aoc = cfg.aoc := rfl
        rw [hoc, hao]
        cases (runObjCheck cfg.oc cfg.vid (cfg.into (argsOf r.got))).1 <;> simp [List.append_assoc]
      | cons a l =>
        have hne : es' ≠ [] := by rw [hes]; simp
        have hfin' : fin = rFinalSync ∨ fin = rFinalAsync := by
          rcases hfin with ⟨_, h, _⟩ | ⟨_, h⟩
          · exact .inl h
          · exact .inr h
        rw [rFinal_keys cfg x fin hfin' st1 sd' es' hne h6, h2]
        have hks : r.ks.isEmpty = false := by rw [h3, hes]; rfl
        simp [recFinish, hr, hks, h3, h4, st0]
        intro h0; exact absurd h0 hne

/-! ### the two methods -/

theorem dictItems_of_base : ∀ (x : PyVal), x.baseTy = .dict → ∃ kvs, dictItems x = some kvs
  | .sub _ v, h => by
    obtain ⟨kvs, hk⟩ := dictItems_of_base v (by simpa [PyVal.baseTy] using h)
    exact ⟨kvs, by simpa [dictItems] using hk⟩
  | .dict _ kvs, _ => ⟨kvs, rfl⟩
  | .none, h => by simp [PyVal.baseTy, PyVal.ty] at h
  | .bool _, h => by simp [PyVal.baseTy, PyVal.ty] at h
  | .int _, h => by simp [PyVal.baseTy, PyVal.ty] at h
  | .float _, h => by simp [PyVal.baseTy, PyVal.ty] at h
  | .str _, h => by simp [PyVal.baseTy, PyVal.ty] at h
  | .bytes _, h => by simp [PyVal.baseTy, PyVal.ty] at h
  | .decimal _, h => by simp [PyVal.baseTy, PyVal.ty] at h
  | .uuid _, h => by simp [PyVal.baseTy, PyVal.ty] at h
  | .date _, h => by simp [PyVal.baseTy, PyVal.ty] at h
  | .datetime _ _, h => by simp [PyVal.baseTy, PyVal.ty] at h
  | .list _ _, h => by simp [PyVal.baseTy, PyVal.ty] at h
  | .tuple _ _, h => by simp [PyVal.baseTy, PyVal.ty] at h
  | .set _ _, h => by simp [PyVal.baseTy, PyVal.ty] at h
  | .just _ _, h => by simp [PyVal.baseTy, PyVal.ty] at h
  | .nothing, h => by simp [PyVal.baseTy, PyVal.ty] at h
  | .inst .., h => by simp [PyVal.baseTy, PyVal.ty] at h

/-- **the synchronous `RecordValidator`, as written in the source, is the model's `recordStep`** -/
theorem src_record_sync (o : Oracle) (cfg : DictAnyCfg) (x : PyVal) :
    runDictAnyMethod cfg Src.recordSync x = recordStep o .sync cfg.vid cfg.toRecord cfg.evs x := by
  rw [runDictAnyMethod_eq, recordSync_eq, dGuard_exec]
  simp only [recordStep, recPre]
  have hao : cfg.toRecord.aoc = cfg.aoc := rfl
  rw [hao]
  cases ha : cfg.aoc with
  | some a => simp [outD]
  | none =>
    simp only [Option.isSome_none, Bool.false_eq_true, if_false, and_false]
    obtain ⟨g1, g2⟩ := rGate_exec cfg x { env := {}, tr := [] }
      [dScan, .assign .args .emptyList, .assign .errs .emptyDict, rLoop .fastKeysSync false, rFinalSync]
    have hgate : recGate o cfg.toRecord x = (if x.baseTy = .dict then .acc x [] else .rej (.type .dict) []) := by
      simp [recGate, DictAnyCfg.toRecord]
    rw [hgate]
    by_cases hty : x.baseTy = .dict
    · rw [g2 hty, if_pos hty]
      obtain ⟨kvs, hkvs⟩ := dictItems_of_base x hty
      simp only [hkvs]
      have hfu : cfg.toRecord.failUnknown = cfg.failUnknown := rfl
      have hk : cfg.toRecord.keys = cfg.keys := rfl
      have hr : cfg.toRecord.reqs = cfg.reqs := rfl
      rw [hfu, hk, hr]
      obtain ⟨s1, s2⟩ := dScan_exec cfg x { env := {}, tr := [] }
        [.assign .args .emptyList, .assign .errs .emptyDict, rLoop .fastKeysSync false, rFinalSync] kvs hkvs
      cases hu : (cfg.failUnknown && hasUnknownKey cfg.keys kvs) with
      | true => rw [s1 hu]; simp
      | false =>
        obtain ⟨st', e1, e2⟩ := s2 hu
        rw [e1, rTail_exec cfg x .sync .fastKeysSync false rFinalSync (.inl rfl) (.inl ⟨rfl, rfl, ha⟩) st' kvs hkvs, e2]
        simp only [Bool.false_eq_true, if_false]
        cases recLoop cfg.vid x kvs cfg.evs cfg.keys cfg.reqs <;> rfl
    · rw [g1 hty, if_neg hty]

/-- **the asynchronous `RecordValidator`, as written in the source, is the model's `recordStep`** -/
theorem src_record_async (o : Oracle) (cfg : DictAnyCfg) (x : PyVal) :
    runDictAnyMethod cfg Src.recordAsync x = recordStep o .async cfg.vid cfg.toRecord cfg.evs x := by
  rw [runDictAnyMethod_eq, recordAsync_eq]
  simp only [recordStep, recPre]
  have hm : ¬ (Mode.async = Mode.sync ∧ cfg.toRecord.aoc.isSome = true) := by simp
  simp only [hm, if_false]
  obtain ⟨g1, g2⟩ := rGate_exec cfg x { env := {}, tr := [] }
    [dScan, .assign .args .emptyList, .assign .errs .emptyDict, rLoop .fastKeysAsync true, rFinalAsync]
  have hgate : recGate o cfg.toRecord x = (if x.baseTy = .dict then .acc x [] else .rej (.type .dict) []) := by
    simp [recGate, DictAnyCfg.toRecord]
  rw [hgate]
  by_cases hty : x.baseTy = .dict
  · rw [g2 hty, if_pos hty]
    obtain ⟨kvs, hkvs⟩ := dictItems_of_base x hty
    simp only [hkvs]
    have hfu : cfg.toRecord.failUnknown = cfg.failUnknown := rfl
    have hk : cfg.toRecord.keys = cfg.keys := rfl
    have hr : cfg.toRecord.reqs = cfg.reqs := rfl
    rw [hfu, hk, hr]
    obtain ⟨s1, s2⟩ := dScan_exec cfg x { env := {}, tr := [] }
      [.assign .args .emptyList, .assign .errs .emptyDict, rLoop .fastKeysAsync true, rFinalAsync] kvs hkvs
    cases hu : (cfg.failUnknown && hasUnknownKey cfg.keys kvs) with
    | true => rw [s1 hu]; simp
    | false =>
      obtain ⟨st', e1, e2⟩ := s2 hu
      rw [e1, rTail_exec cfg x .async .fastKeysAsync true rFinalAsync (.inr rfl) (.inr ⟨rfl, rfl⟩) st' kvs hkvs, e2]
      simp only [Bool.false_eq_true, if_false]
      cases recLoop cfg.vid x kvs cfg.evs cfg.keys cfg.reqs <;> rfl
  · rw [g1 hty, if_neg hty]

theorem src_record_init : Src.recordInit =
    "self.into = into ; self.keys: Tuple[KeyValidator[Any], ...] = keys ; if validate_object is not None and validate_object_async is not None:     _raise_cannot_define_validate_object_and_validate_object_async() ; self.validate_object = validate_object ; self.validate_object_async = validate_object_async ; self.fail_on_unknown_keys = fail_on_unknown_keys ; self._disallow_synchronous = bool(validate_object_async) ; self._key_set = set() ; self._fast_keys_sync: List[Tuple[Hashable, Callable[[Any], _ResultTuple[Any]], bool]] = [] ; self._fast_keys_async: List[Tuple[Hashable, Callable[[Any], Awaitable[_ResultTuple[Any]]], bool]] = [] ; for key, val in keys:     is_required = not isinstance(val, KeyNotRequired)     self._fast_keys_sync.append((key, _wrap_sync_validator(val), is_required))     self._fast_keys_async.append((key, _wrap_async_validator(val), is_required))     self._key_set.add(key) ; self._unknown_keys_err: ExtraKeysErr = ExtraKeysErr(self._key_set)" := rfl

/-! ### non-vacuity: `RecordValidator(into=tuple-of, keys=(("a", IntValidator()), ("b", KeyNotRequired(...))))` on `{"a": 5}` -/

example : runDictAnyMethod
      { vid := 1, keys := [.str [97], .str [98]],
        evs := [fun y => some (scalarStep default .sync 2 .int none [] [] [] y), fun y => some (scalarStep default .sync 3 .str none [] [] [] y)],
        reqs := [true, false], oc := none, aoc := none, failUnknown := false, into := fun ws => .tuple 0 ws, intoId := 7 }
      Src.recordSync (.dict 9 [(.str [97], .int 5)]) =
    some (.valid (.tuple 0 [.int 5, .nothing]), [.into 7]) := by
  rw [src_record_sync default]; rfl

end Koda
