/-
  C02 — the scalar pipeline *as written in /repo's current source*.

  `Generated/ScalarSrc.lean` is rewritten on every run by `harness/pysrc.py` from the AST of
  `_ToTupleStandardValidator._validate_to_tuple`, `_validate_to_tuple_async` and the bare-validator fast
  path `_simple_type_validator.inner` (koda_validate/_internal.py — the code behind all ten scalar
  validators).  The theorems: interpreting the translated bodies (`KodaModel/PyImp.lean`) is the model's
  `scalarStep` — sync and async, for every configuration (coercer or not, any preprocessors, any
  predicates, any async predicates, `None` and `[]` told apart where the source can) and every input;
  outcome, payload, error, trace of user callbacks and exceptions included.
-/
import KodaModel.Generated.ScalarSrc
import KodaModel.Properties.C01

namespace Koda

/-- the model's step for the validator object `cfg` -/
def scalarOf (o : Oracle) (m : Mode) (cfg : ScalarCfg) (x : PyVal) : Out × List Ev :=
  scalarStep o m cfg.vid cfg.ty cfg.coerce (cfg.pre.getD []) cfg.preds (cfg.apreds.getD []) x

/-- the fast path of a bare validator (`_simple_type_validator`) -/
theorem src_scalar_simple (o : Oracle) (cfg : ScalarCfg) (x : PyVal) :
    runMethod o cfg Src.simpleInner x = some (scalarStep o .sync cfg.vid cfg.ty none [] [] [] x) := by
  simp only [runMethod, Src.simpleInner, IStmt.execL, IStmt.exec, IExp.eval, IEnv.get, truthyDV]
  by_cases h : x.ty = cfg.ty
  · simp [h, scalarStep, gate, runProcs, contPreds, runPreds, finishPreds]
  · have hb : (x.ty == cfg.ty) = false := by simpa using h
    simp [h, hb, scalarStep, gate]

/-! ### the pieces of the two methods -/

def guardS : IStmt :=
  .ite (.attr .self .disallowSync) [.expr (.call1 (.glob .asyncPredicatesWarning) (.attr .self .cls))] []

def gateS : IStmt :=
  .ite (.attr .self .coerce)
    [.assign .result (.call1 (.attr .self .coerce) (.var .val)),
     .ite (.not (.attr (.var .result) .isJust))
       [.ret (.pair (.bool false) (.call3 (.glob .Invalid)
          (.call2 (.glob .CoercionErr) (.attr (.attr .self .coerce) .compatibleTypes) (.attr .self .TYPE)) (.var .val) .self))]
       [.assign .val (.attr (.var .result) .valA)]]
    [.ite (.isNot (.call1 (.glob .type) (.var .val)) (.attr .self .TYPE))
       [.ret (.pair (.bool false) (.call3 (.glob .Invalid) (.attr .self .typeErr) (.var .val) .self))] []]

def procBody : List IStmt := [.assign .val (.call1 (.var .proc) (.var .val))]

def procsS : IStmt := .ite (.attr .self .preprocessors) [.forIn .proc (.attr .self .preprocessors) procBody] []

def syncComp : IExp := .listComp (.var .pred) .pred (.attr .self .predicates) (.not (.call1 (.var .pred) (.var .val)))

def asyncComp : IExp :=
  .listComp (.var .pred) .pred (.attr .self .predicatesAsync)
    (.not (.await (.call1 (.attr (.var .pred) .validateAsync) (.var .val))))

def retInvalidPreds : IStmt :=
  .ret (.pair (.bool false) (.call3 (.glob .Invalid) (.call1 (.glob .PredicateErrs) (.var .errors)) (.var .val) .self))

def retValid : IStmt := .ret (.pair (.bool true) (.var .val))

def predsSyncS : IStmt :=
  .ite (.attr .self .predicates) [.assign .errors syncComp, .ite (.var .errors) [retInvalidPreds] [retValid]] [retValid]

theorem scalarSync_eq : Src.scalarSync = [guardS, gateS, procsS, predsSyncS] := rfl

theorem scalarAsync_eq : Src.scalarAsync =
    [gateS, procsS, .assign .errors syncComp,
     .ite (.attr .self .predicatesAsync) [.expr (.call1 (.attr (.var .errors) .extend) asyncComp)] [],
     .ite (.var .errors) [retInvalidPreds] [retValid]] := rfl

/-! ### the list comprehensions over the predicates -/

/-- the predicates that fail on `z`, in order -/
def failingPreds (ps : List Pred) (z : PyVal) : List Pred :=
  ps.filter (fun p => match p.k.call z with | .ok false => true | _ => false)

/-- `[pred for pred in <sync predicates> if not pred(val)]`, generically in the two evaluators -/
theorem compFold_sync (evalCond evalElt : ISt → IM DV)
    (Hc : ∀ (st : ISt) (p : Pred) (z : PyVal), st.env.pred = .pred p → st.env.val = .py z →
      evalCond st = (match p.k.call z with
        | .ok b => .ok (.bool (!b), { st with tr := st.tr ++ p.ev })
        | .error e => .error (.exn e, st.tr ++ p.ev)))
    (He : ∀ (st : ISt) (p : Pred), st.env.pred = .pred p → evalElt st = .ok (.pred p, st)) :
    ∀ (ps : List Pred) (kept : List DV) (st : ISt) (z : PyVal), st.env.val = .py z →
      (∀ f t e, runPreds ps z = (f, t, some e) →
        compFold evalCond evalElt .pred (ps.map DV.pred) (.ok (kept, st)) = .error (.exn e, st.tr ++ t)) ∧
      (∀ f t, runPreds ps z = (f, t, none) →
        f = (failingPreds ps z).map (·.pid) ∧
        ∃ st', compFold evalCond evalElt .pred (ps.map DV.pred) (.ok (kept, st)) =
            .ok (kept ++ (failingPreds ps z).map DV.pred, st') ∧
          st'.env.val = .py z ∧ st'.tr = st.tr ++ t ∧ st'.env.errors = st.env.errors) := by
  intro ps
  induction ps with
  | nil =>
    intro kept st z hz
    refine ⟨?_, ?_⟩
    · intro f t e h; simp [runPreds] at h
    · intro f t h
      simp only [runPreds, Prod.mk.injEq] at h
      obtain ⟨rfl, rfl, _⟩ := h
      exact ⟨rfl, st, by simp [compFold, failingPreds], hz, by simp, rfl⟩
  | cons p ps ih =>
    intro kept st z hz
    have hset : ({ st with env := st.env.set .pred (.pred p) } : ISt).env.pred = .pred p := rfl
    have hval : ({ st with env := st.env.set .pred (.pred p) } : ISt).env.val = .py z := hz
    have hc := Hc { st with env := st.env.set .pred (.pred p) } p z hset hval
    cases hcall : p.k.call z with
    | error e0 =>
      rw [hcall] at hc
      refine ⟨?_, ?_⟩
      · intro f t e h
        simp only [runPreds, hcall, Prod.mk.injEq, Option.some.injEq] at h
        obtain ⟨_, rfl, rfl⟩ := h
        simp [compFold, hc]
      · intro f t h; simp [runPreds, hcall] at h
    | ok b =>
      rw [hcall] at hc
      cases b with
      | true =>
        -- the predicate holds: nothing kept
        have step : compFold evalCond evalElt .pred ((p :: ps).map DV.pred) (.ok (kept, st)) =
            compFold evalCond evalElt .pred (ps.map DV.pred)
              (.ok (kept, { env := st.env.set .pred (.pred p), tr := st.tr ++ p.ev })) := by
          simp [compFold, hc, truthyDV]
        obtain ⟨ih1, ih2⟩ := ih kept { env := st.env.set .pred (.pred p), tr := st.tr ++ p.ev } z hz
        refine ⟨?_, ?_⟩
        · intro f t e h
          simp only [runPreds, hcall, if_true, Prod.mk.injEq] at h
          obtain ⟨hf, ht, he⟩ := h
          rw [step, ih1 _ _ e (by rw [← he])]
          simp [← ht, List.append_assoc]
        · intro f t h
          simp only [runPreds, hcall, if_true, Prod.mk.injEq] at h
          obtain ⟨hf, ht, he⟩ := h
          obtain ⟨hff, st', h1, h2, h3, h4⟩ := ih2 _ _ (by rw [← he])
          refine ⟨?_, st', ?_, h2, ?_, h4⟩
          · rw [← hf, hff]; simp [failingPreds, hcall]
          · rw [step, h1]; simp [failingPreds, hcall]
          · rw [h3, ← ht]; simp [List.append_assoc]
      | false =>
        have hset2 : ({ env := st.env.set .pred (.pred p), tr := st.tr ++ p.ev } : ISt).env.pred = .pred p := rfl
        have he := He { env := st.env.set .pred (.pred p), tr := st.tr ++ p.ev } p hset2
        have step : compFold evalCond evalElt .pred ((p :: ps).map DV.pred) (.ok (kept, st)) =
            compFold evalCond evalElt .pred (ps.map DV.pred)
              (.ok (kept ++ [.pred p], { env := st.env.set .pred (.pred p), tr := st.tr ++ p.ev })) := by
          simp [compFold, hc, truthyDV, he]
        obtain ⟨ih1, ih2⟩ := ih (kept ++ [.pred p]) { env := st.env.set .pred (.pred p), tr := st.tr ++ p.ev } z hz
        refine ⟨?_, ?_⟩
        · intro f t e h
          simp only [runPreds, hcall, Bool.false_eq_true, if_false, Prod.mk.injEq] at h
          obtain ⟨hf, ht, he'⟩ := h
          rw [step, ih1 _ _ e (by rw [← he'])]
          simp [← ht, List.append_assoc]
        · intro f t h
          simp only [runPreds, hcall, Bool.false_eq_true, if_false, Prod.mk.injEq] at h
          obtain ⟨hf, ht, he'⟩ := h
          obtain ⟨hff, st', h1, h2, h3, h4⟩ := ih2 _ _ (by rw [← he'])
          refine ⟨?_, st', ?_, h2, ?_, h4⟩
          · rw [← hf, hff]; simp [failingPreds, hcall]
          · rw [step, h1]; simp [failingPreds, hcall, List.append_assoc]
          · rw [h3, ← ht]; simp [List.append_assoc]

/-- `[pred for pred in <async predicates> if not pred(val)]`, generically in the two evaluators -/
theorem compFold_async (evalCond evalElt : ISt → IM DV)
    (Hc : ∀ (st : ISt) (p : Pred) (z : PyVal), st.env.pred = .apred p → st.env.val = .py z →
      evalCond st = (match p.k.call z with
        | .ok b => .ok (.bool (!b), { st with tr := st.tr ++ [Ev.apred p.pid] })
        | .error e => .error (.exn e, st.tr ++ [Ev.apred p.pid])))
    (He : ∀ (st : ISt) (p : Pred), st.env.pred = .apred p → evalElt st = .ok (.apred p, st)) :
    ∀ (ps : List Pred) (kept : List DV) (st : ISt) (z : PyVal), st.env.val = .py z →
      (∀ f t e, runAPreds ps z = (f, t, some e) →
        compFold evalCond evalElt .pred (ps.map DV.apred) (.ok (kept, st)) = .error (.exn e, st.tr ++ t)) ∧
      (∀ f t, runAPreds ps z = (f, t, none) →
        f = (failingPreds ps z).map (·.pid) ∧
        ∃ st', compFold evalCond evalElt .pred (ps.map DV.apred) (.ok (kept, st)) =
            .ok (kept ++ (failingPreds ps z).map DV.apred, st') ∧
          st'.env.val = .py z ∧ st'.tr = st.tr ++ t ∧ st'.env.errors = st.env.errors) := by
  intro ps
  induction ps with
  | nil =>
    intro kept st z hz
    refine ⟨?_, ?_⟩
    · intro f t e h; simp [runAPreds] at h
    · intro f t h
      simp only [runAPreds, Prod.mk.injEq] at h
      obtain ⟨rfl, rfl, _⟩ := h
      exact ⟨rfl, st, by simp [compFold, failingPreds], hz, by simp, rfl⟩
  | cons p ps ih =>
    intro kept st z hz
    have hset : ({ st with env := st.env.set .pred (.apred p) } : ISt).env.pred = .apred p := rfl
    have hval : ({ st with env := st.env.set .pred (.apred p) } : ISt).env.val = .py z := hz
    have hc := Hc { st with env := st.env.set .pred (.apred p) } p z hset hval
    cases hcall : p.k.call z with
    | error e0 =>
      rw [hcall] at hc
      refine ⟨?_, ?_⟩
      · intro f t e h
        simp only [runAPreds, hcall, Prod.mk.injEq, Option.some.injEq] at h
        obtain ⟨_, rfl, rfl⟩ := h
        simp [compFold, hc]
      · intro f t h; simp [runAPreds, hcall] at h
    | ok b =>
      rw [hcall] at hc
      cases b with
      | true =>
        -- the predicate holds: nothing kept
        have step : compFold evalCond evalElt .pred ((p :: ps).map DV.apred) (.ok (kept, st)) =
            compFold evalCond evalElt .pred (ps.map DV.apred)
              (.ok (kept, { env := st.env.set .pred (.apred p), tr := st.tr ++ [Ev.apred p.pid] })) := by
          simp [compFold, hc, truthyDV]
        obtain ⟨ih1, ih2⟩ := ih kept { env := st.env.set .pred (.apred p), tr := st.tr ++ [Ev.apred p.pid] } z hz
        refine ⟨?_, ?_⟩
        · intro f t e h
          simp only [runAPreds, hcall, if_true, Prod.mk.injEq] at h
          obtain ⟨hf, ht, he⟩ := h
          rw [step, ih1 _ _ e (by rw [← he])]
          simp [← ht, List.append_assoc]
        · intro f t h
          simp only [runAPreds, hcall, if_true, Prod.mk.injEq] at h
          obtain ⟨hf, ht, he⟩ := h
          obtain ⟨hff, st', h1, h2, h3, h4⟩ := ih2 _ _ (by rw [← he])
          refine ⟨?_, st', ?_, h2, ?_, h4⟩
          · rw [← hf, hff]; simp [failingPreds, hcall]
          · rw [step, h1]; simp [failingPreds, hcall]
          · rw [h3, ← ht]; simp [List.append_assoc]
      | false =>
        have hset2 : ({ env := st.env.set .pred (.apred p), tr := st.tr ++ [Ev.apred p.pid] } : ISt).env.pred = .apred p := rfl
        have he := He { env := st.env.set .pred (.apred p), tr := st.tr ++ [Ev.apred p.pid] } p hset2
        have step : compFold evalCond evalElt .pred ((p :: ps).map DV.apred) (.ok (kept, st)) =
            compFold evalCond evalElt .pred (ps.map DV.apred)
              (.ok (kept ++ [.apred p], { env := st.env.set .pred (.apred p), tr := st.tr ++ [Ev.apred p.pid] })) := by
          simp [compFold, hc, truthyDV, he]
        obtain ⟨ih1, ih2⟩ := ih (kept ++ [.apred p]) { env := st.env.set .pred (.apred p), tr := st.tr ++ [Ev.apred p.pid] } z hz
        refine ⟨?_, ?_⟩
        · intro f t e h
          simp only [runAPreds, hcall, Bool.false_eq_true, if_false, Prod.mk.injEq] at h
          obtain ⟨hf, ht, he'⟩ := h
          rw [step, ih1 _ _ e (by rw [← he'])]
          simp [← ht, List.append_assoc]
        · intro f t h
          simp only [runAPreds, hcall, Bool.false_eq_true, if_false, Prod.mk.injEq] at h
          obtain ⟨hf, ht, he'⟩ := h
          obtain ⟨hff, st', h1, h2, h3, h4⟩ := ih2 _ _ (by rw [← he'])
          refine ⟨?_, st', ?_, h2, ?_, h4⟩
          · rw [← hf, hff]; simp [failingPreds, hcall]
          · rw [step, h1]; simp [failingPreds, hcall, List.append_assoc]
          · rw [h3, ← ht]; simp [List.append_assoc]

theorem filterMap_preds (ps : List Pred) :
    (ps.map DV.pred).filterMap (fun d => match d with | .pred p => some p | .apred p => some p | _ => Option.none) = ps := by
  induction ps with
  | nil => rfl
  | cons p ps ih => simp [ih]

theorem syncComp_eval (o : Oracle) (cfg : ScalarCfg) (st : ISt) (z : PyVal) (hz : st.env.val = .py z) :
    (∀ f t e, runPreds cfg.preds z = (f, t, some e) → syncComp.eval o cfg st = .error (.exn e, st.tr ++ t)) ∧
    (∀ f t, runPreds cfg.preds z = (f, t, none) →
      f = (failingPreds cfg.preds z).map (·.pid) ∧
      ∃ st', syncComp.eval o cfg st = .ok (.preds (failingPreds cfg.preds z), st') ∧
        st'.env.val = .py z ∧ st'.tr = st.tr ++ t ∧ st'.env.errors = st.env.errors) := by
  have Hc : ∀ (st : ISt) (p : Pred) (z : PyVal), st.env.pred = .pred p → st.env.val = .py z →
      (IExp.not (.call1 (.var .pred) (.var .val))).eval o cfg st = (match p.k.call z with
        | .ok b => .ok (.bool (!b), { st with tr := st.tr ++ p.ev })
        | .error e => .error (.exn e, st.tr ++ p.ev)) := by
    intro st p z h1 h2
    simp only [IExp.eval, IEnv.get, h1, h2]
    cases p.k.call z <;> simp [truthyDV]
  have He : ∀ (st : ISt) (p : Pred), st.env.pred = .pred p → (IExp.var .pred).eval o cfg st = .ok (.pred p, st) := by
    intro st p h1
    simp [IExp.eval, IEnv.get, h1]
  obtain ⟨c1, c2⟩ := compFold_sync _ _ Hc He cfg.preds [] st z hz
  have hunf : syncComp.eval o cfg st =
      (match compFold (fun st => (IExp.not (.call1 (.var .pred) (.var .val))).eval o cfg st)
          (fun st => (IExp.var .pred).eval o cfg st) .pred (cfg.preds.map DV.pred) (.ok ([], st)) with
       | .error err => .error err
       | .ok (kept, st) =>
         let ps := kept.filterMap (fun d => match d with | .pred p => some p | .apred p => some p | _ => Option.none)
         if ps.length = kept.length then .ok (.preds ps, st) else stuck st "comprehension element") := rfl
  refine ⟨?_, ?_⟩
  · intro f t e h
    rw [hunf, c1 f t e h]
  · intro f t h
    obtain ⟨hf, st', h1, h2, h3, h4⟩ := c2 f t h
    refine ⟨hf, st', ?_, h2, h3, h4⟩
    rw [hunf, h1]
    simp only [List.nil_append, filterMap_preds, List.length_map, if_true]

/-! ### reading a method's result -/

def outOf : Except (IErr × List Ev) Flow → Option (Out × List Ev)
  | .error (.exn e, t) => some (.raised e, t)
  | .error (.stuck _, _) => none
  | .ok (.returned (.pair (.bool true) (.py w)) st) => some (.valid w, st.tr)
  | .ok (.returned (.pair (.bool false) (.invalid e)) st) => some (.invalid e, st.tr)
  | .ok _ => none

theorem runMethod_eq (o : Oracle) (cfg : ScalarCfg) (body : List IStmt) (x : PyVal) :
    runMethod o cfg body x = outOf (IStmt.execL o cfg { env := { val := .py x }, tr := [] } body) := by
  simp only [runMethod, outOf]
  rfl

theorem flow_id (r : Except (IErr × List Ev) Flow) :
    (match r with
     | .error err => .error err
     | .ok (.next st) => .ok (.next st)
     | .ok (.returned d st) => .ok (.returned d st)) = r := by
  cases r with
  | error e => rfl
  | ok f => cases f <;> rfl

theorem execL_single (o : Oracle) (cfg : ScalarCfg) (st : ISt) (s : IStmt) :
    IStmt.execL o cfg st [s] = IStmt.exec o cfg st s := by
  simp only [IStmt.execL]
  exact flow_id _

/-- `return True, val` -/
theorem retValid_exec (o : Oracle) (cfg : ScalarCfg) (st : ISt) (z : PyVal) (hz : st.env.val = .py z) (rest : List IStmt) :
    outOf (IStmt.execL o cfg st (retValid :: rest)) = some (.valid z, st.tr) := by
  simp [IStmt.execL, IStmt.exec, retValid, IExp.eval, IEnv.get, hz, outOf]

/-- `return False, Invalid(PredicateErrs(errors), val, self)` -/
theorem retInvalidPreds_exec (o : Oracle) (cfg : ScalarCfg) (st : ISt) (z : PyVal) (ps : List Pred)
    (hz : st.env.val = .py z) (he : st.env.errors = .preds ps) (rest : List IStmt) :
    outOf (IStmt.execL o cfg st (retInvalidPreds :: rest)) =
      some (.invalid (.mk (.preds (ps.map (·.pid))) z cfg.vid []), st.tr) := by
  simp [IStmt.execL, IStmt.exec, retInvalidPreds, IExp.eval, IEnv.get, hz, he, outOf]

theorem exec_ite (o : Oracle) (cfg : ScalarCfg) (st : ISt) (c : IExp) (t e : List IStmt) :
    IStmt.exec o cfg st (.ite c t e) =
      (match c.eval o cfg st with
       | .error err => .error err
       | .ok (d, st) =>
         match truthyDV d with
         | none => .error (.stuck "truth value", st.tr)
         | some true => IStmt.execL o cfg st t
         | some false => IStmt.execL o cfg st e) := by
  simp only [IStmt.exec]
  rfl

theorem exec_assign (o : Oracle) (cfg : ScalarCfg) (st : ISt) (v : IVar) (e : IExp) :
    IStmt.exec o cfg st (.assign v e) =
      (match e.eval o cfg st with
       | .error err => .error err
       | .ok (d, st) => .ok (.next { st with env := st.env.set v d })) := by
  simp only [IStmt.exec]
  rfl

theorem execL_cons (o : Oracle) (cfg : ScalarCfg) (st : ISt) (s : IStmt) (rest : List IStmt) :
    IStmt.execL o cfg st (s :: rest) =
      (match s.exec o cfg st with
       | .error err => .error err
       | .ok (.next st) => IStmt.execL o cfg st rest
       | .ok (.returned d st) => .ok (.returned d st)) := by
  simp only [IStmt.execL]
  rfl

theorem execL_nil (o : Oracle) (cfg : ScalarCfg) (st : ISt) : IStmt.execL o cfg st [] = .ok (.next st) := by
  simp only [IStmt.execL]

theorem eval_self_predicates (o : Oracle) (cfg : ScalarCfg) (st : ISt) :
    (IExp.attr .self .predicates).eval o cfg st = .ok (.preds cfg.preds, st) := by
  simp [IExp.eval, selfAttr]

theorem eval_var (o : Oracle) (cfg : ScalarCfg) (st : ISt) (v : IVar) :
    (IExp.var v).eval o cfg st = .ok (st.env.get v, st) := by
  simp [IExp.eval]

/-- the last statement of the synchronous method: the predicates -/
theorem predsSync_exec (o : Oracle) (cfg : ScalarCfg) (aps : List Pred) (st : ISt) (z : PyVal) (hz : st.env.val = .py z) :
    outOf (IStmt.execL o cfg st [predsSyncS]) = some (finishPreds cfg.vid z st.tr (contPreds .sync cfg.preds aps z)) := by
  rw [execL_single, predsSyncS, exec_ite, eval_self_predicates]
  by_cases hemp : cfg.preds = []
  · simp only [truthyDV, hemp, List.isEmpty_nil, Bool.not_true]
    rw [retValid_exec o cfg st z hz]
    simp [contPreds, runPreds, finishPreds]
  · obtain ⟨c1, c2⟩ := syncComp_eval o cfg st z hz
    have hne : (!cfg.preds.isEmpty) = true := by
      cases hp : cfg.preds with
      | nil => exact absurd hp hemp
      | cons a l => rfl
    simp only [truthyDV, hne]
    rw [execL_cons, exec_assign]
    rcases hr : runPreds cfg.preds z with ⟨f, t, ex⟩
    cases ex with
    | some e =>
      rw [c1 f t e hr]
      simp [outOf, contPreds, hr, finishPreds]
    | none =>
      obtain ⟨hf, st', h1, h2, h3, _⟩ := c2 f t hr
      rw [h1]
      simp only
      rw [execL_single, exec_ite, eval_var]
      simp only [IEnv.get, IEnv.set, truthyDV]
      by_cases hfe : failingPreds cfg.preds z = []
      · simp only [hfe, List.isEmpty_nil, Bool.not_true]
        rw [retValid_exec o cfg _ z (by simpa [IEnv.set] using h2)]
        simp [contPreds, hr, finishPreds, hf, hfe, h3]
      · have hne2 : (!(failingPreds cfg.preds z).isEmpty) = true := by
          cases hq : failingPreds cfg.preds z with
          | nil => exact absurd hq hfe
          | cons a l => rfl
        simp only [hne2]
        rw [retInvalidPreds_exec o cfg _ z (failingPreds cfg.preds z) (by simpa [IEnv.set] using h2) (by simp [IEnv.set])]
        have hfne : f ≠ [] := by
          rw [hf]; intro h0; exact hfe (List.map_eq_nil_iff.mp h0)
        have hfe' : f.isEmpty = false := by
          cases f with
          | nil => exact absurd rfl hfne
          | cons a l => rfl
        simp [contPreds, hr, finishPreds, hfe', ← hf, h3]

/-! ### the loop over the preprocessors -/

theorem forFold_procs (execBody : ISt → Except (IErr × List Ev) Flow)
    (Hb : ∀ (st : ISt) (p : Proc) (y : PyVal), st.env.proc = .proc p → st.env.val = .py y →
      execBody st = (match p.k.call y with
        | .ok z => .ok (.next { env := st.env.set .val (.py z), tr := st.tr ++ p.ev })
        | .error e => .error (.exn e, st.tr ++ p.ev))) :
    ∀ (ps : List Proc) (st : ISt) (y : PyVal), st.env.val = .py y →
      (∀ e t2, runProcs ps y = (.error e, t2) →
        forFold execBody .proc (ps.map DV.proc) st = .error (.exn e, st.tr ++ t2)) ∧
      (∀ z t2, runProcs ps y = (.ok z, t2) →
        ∃ st', forFold execBody .proc (ps.map DV.proc) st = .ok (.next st') ∧ st'.env.val = .py z ∧ st'.tr = st.tr ++ t2) := by
  intro ps
  induction ps with
  | nil =>
    intro st y hy
    refine ⟨?_, ?_⟩
    · intro e t2 h; simp [runProcs] at h
    · intro z t2 h
      simp only [runProcs, Prod.mk.injEq, Except.ok.injEq] at h
      obtain ⟨rfl, rfl⟩ := h
      exact ⟨st, by simp [forFold], hy, by simp⟩
  | cons p ps ih =>
    intro st y hy
    have hb := Hb { st with env := st.env.set .proc (.proc p) } p y rfl hy
    cases hcall : p.k.call y with
    | error e0 =>
      rw [hcall] at hb
      refine ⟨?_, ?_⟩
      · intro e t2 h
        simp only [runProcs, hcall, Prod.mk.injEq, Except.error.injEq] at h
        obtain ⟨rfl, rfl⟩ := h
        simp [forFold, hb]
      · intro z t2 h; simp [runProcs, hcall] at h
    | ok z0 =>
      rw [hcall] at hb
      have step : forFold execBody .proc ((p :: ps).map DV.proc) st =
          forFold execBody .proc (ps.map DV.proc)
            { env := (st.env.set .proc (.proc p)).set .val (.py z0), tr := st.tr ++ p.ev } := by
        simp [forFold, hb]
      obtain ⟨ih1, ih2⟩ := ih { env := (st.env.set .proc (.proc p)).set .val (.py z0), tr := st.tr ++ p.ev } z0 rfl
      refine ⟨?_, ?_⟩
      · intro e t2 h
        simp only [runProcs, hcall, Prod.mk.injEq] at h
        obtain ⟨h1, h2⟩ := h
        rw [step, ih1 e (runProcs ps z0).2 (by rw [← h1])]
        simp [← h2, List.append_assoc]
      · intro z t2 h
        simp only [runProcs, hcall, Prod.mk.injEq] at h
        obtain ⟨h1, h2⟩ := h
        obtain ⟨st', g1, g2, g3⟩ := ih2 z (runProcs ps z0).2 (by rw [← h1])
        exact ⟨st', by rw [step, g1], g2, by rw [g3, ← h2]; simp [List.append_assoc]⟩

theorem procBody_exec (o : Oracle) (cfg : ScalarCfg) (st : ISt) (p : Proc) (y : PyVal)
    (h1 : st.env.proc = .proc p) (h2 : st.env.val = .py y) :
    IStmt.execL o cfg st procBody = (match p.k.call y with
      | .ok z => .ok (.next { env := st.env.set .val (.py z), tr := st.tr ++ p.ev })
      | .error e => .error (.exn e, st.tr ++ p.ev)) := by
  rw [procBody, execL_single, exec_assign]
  simp only [IExp.eval, IEnv.get, h1, h2]
  cases p.k.call y <;> rfl

/-- `if self.preprocessors: for proc in self.preprocessors: val = proc(val)`, then the rest -/
theorem procs_exec (o : Oracle) (cfg : ScalarCfg) (st : ISt) (y : PyVal) (hy : st.env.val = .py y) (rest : List IStmt) :
    (∀ e t2, runProcs (cfg.pre.getD []) y = (.error e, t2) →
      outOf (IStmt.execL o cfg st (procsS :: rest)) = some (.raised e, st.tr ++ t2)) ∧
    (∀ z t2, runProcs (cfg.pre.getD []) y = (.ok z, t2) →
      ∃ st', IStmt.execL o cfg st (procsS :: rest) = IStmt.execL o cfg st' rest ∧
        st'.env.val = .py z ∧ st'.tr = st.tr ++ t2) := by
  rw [execL_cons, procsS, exec_ite]
  have hattr : (IExp.attr .self .preprocessors).eval o cfg st = .ok (optList .procs cfg.pre, st) := by
    simp [IExp.eval, selfAttr]
  rw [hattr]
  cases hpre : cfg.pre with
  | none =>
    simp only [optList, truthyDV, Option.getD_none, IStmt.execL]
    refine ⟨?_, ?_⟩
    · intro e t2 h; simp [runProcs] at h
    · intro z t2 h
      simp only [runProcs, Prod.mk.injEq, Except.ok.injEq] at h
      obtain ⟨rfl, rfl⟩ := h
      exact ⟨st, rfl, hy, by simp⟩
  | some ps =>
    simp only [optList, truthyDV, Option.getD_some]
    cases ps with
    | nil =>
      simp only [List.isEmpty_nil, Bool.not_true, IStmt.execL]
      refine ⟨?_, ?_⟩
      · intro e t2 h; simp [runProcs] at h
      · intro z t2 h
        simp only [runProcs, Prod.mk.injEq, Except.ok.injEq] at h
        obtain ⟨rfl, rfl⟩ := h
        exact ⟨st, rfl, hy, by simp⟩
    | cons p ps' =>
      simp only [List.isEmpty_cons, Bool.not_false]
      rw [execL_single]
      have hfor : IStmt.exec o cfg st (.forIn .proc (.attr .self .preprocessors) procBody) =
          forFold (fun st => IStmt.execL o cfg st procBody) .proc ((p :: ps').map DV.proc) st := by
        simp only [IStmt.exec, hattr, hpre, optList]
      rw [hfor]
      obtain ⟨f1, f2⟩ := forFold_procs (fun st => IStmt.execL o cfg st procBody)
        (fun st p y h1 h2 => procBody_exec o cfg st p y h1 h2) (p :: ps') st y hy
      refine ⟨?_, ?_⟩
      · intro e t2 h
        rw [f1 e t2 h]; rfl
      · intro z t2 h
        obtain ⟨st', g1, g2, g3⟩ := f2 z t2 h
        exact ⟨st', by rw [g1], g2, g3⟩

/-! ### the gate: coercer, or exact type -/

theorem scalarCoerce_rej_kind (o : Oracle) (ty : Ty) (c : CoerceK) (x : PyVal) (k : ErrK) (t : List Ev)
    (h : applyCoerce o ty ty default c x = .rej k t) : k = .coercion (compatOf ty c) ty := by
  cases c with
  | dflt =>
    simp only [applyCoerce] at h
    split at h
    · simp at h
    · simp only [Gate.rej.injEq] at h; rw [← h.1]; rfl
  | classOnly =>
    simp only [applyCoerce] at h
    split at h
    · split at h
      · split at h <;> simp at h
      · simp only [Gate.rej.injEq] at h; rw [← h.1]; rfl
    · simp only [Gate.rej.injEq] at h; rw [← h.1]; rfl
  | user cid compat f =>
    simp only [applyCoerce] at h
    split at h
    · simp at h
    · simp only [Gate.rej.injEq] at h; rw [← h.1]; rfl

theorem scalarCoerce_noexn (o : Oracle) (ty : Ty) (c : CoerceK) (x : PyVal) (e : Exn) (t : List Ev) :
    applyCoerce o ty ty default c x ≠ .exn e t := by
  cases c with
  | dflt => simp only [applyCoerce]; split <;> simp
  | classOnly =>
    simp only [applyCoerce]
    split
    · split
      · split <;> simp
      · simp
    · simp
  | user cid compat f => simp only [applyCoerce]; split <;> simp

theorem gate_exec (o : Oracle) (cfg : ScalarCfg) (st : ISt) (x : PyVal) (hx : st.env.val = .py x) (rest : List IStmt) :
    (∀ k t, gate o cfg.ty cfg.ty cfg.coerce x = .rej k t →
      outOf (IStmt.execL o cfg st (gateS :: rest)) = some (.invalid (.mk k x cfg.vid []), st.tr ++ t)) ∧
    (∀ y t, gate o cfg.ty cfg.ty cfg.coerce x = .acc y t →
      ∃ st', IStmt.execL o cfg st (gateS :: rest) = IStmt.execL o cfg st' rest ∧
        st'.env.val = .py y ∧ st'.tr = st.tr ++ t) := by
  rw [execL_cons, gateS, exec_ite]
  have hattr : (IExp.attr .self .coerce).eval o cfg st =
      .ok ((match cfg.coerce with | some c => DV.coercer c | none => DV.none), st) := by
    cases h : cfg.coerce <;> simp [IExp.eval, selfAttr, h]
  rw [hattr]
  cases hc : cfg.coerce with
  | none =>
    simp only [truthyDV, gate]
    rw [execL_single, exec_ite]
    have hcond : (IExp.isNot (.call1 (.glob .type) (.var .val)) (.attr .self .TYPE)).eval o cfg st =
        .ok (.bool (!(x.ty == cfg.ty)), st) := by
      simp [IExp.eval, IEnv.get, hx, selfAttr]
    rw [hcond]
    by_cases hty : x.ty = cfg.ty
    · have hb : (x.ty == cfg.ty) = true := by simpa using hty
      simp only [hb, Bool.not_true, truthyDV, IStmt.execL, if_pos hty]
      refine ⟨?_, ?_⟩
      · intro k t h; simp at h
      · intro y t h
        simp only [Gate.acc.injEq] at h
        obtain ⟨rfl, rfl⟩ := h
        exact ⟨st, rfl, hx, by simp⟩
    · have hb : (x.ty == cfg.ty) = false := by simpa using hty
      simp only [hb, Bool.not_false, truthyDV, if_neg hty]
      refine ⟨?_, ?_⟩
      · intro k t h
        simp only [Gate.rej.injEq] at h
        obtain ⟨rfl, rfl⟩ := h
        simp [execL_single, IStmt.exec, IExp.eval, IEnv.get, hx, selfAttr, outOf]
      · intro y t h; simp at h
  | some c =>
    simp only [truthyDV, gate]
    rw [execL_cons, exec_assign]
    have hcall : (IExp.call1 (.attr .self .coerce) (.var .val)).eval o cfg st =
        .ok (.maybe (callCoercer o cfg.ty c x).1, { st with tr := st.tr ++ (callCoercer o cfg.ty c x).2 }) := by
      simp [IExp.eval, IEnv.get, hx, selfAttr, hc]
    rw [hcall]
    simp only
    rw [execL_single, exec_ite]
    -- `not result.is_just`
    have hnot : ∀ (st1 : ISt) (m : Option PyVal), st1.env.result = .maybe m →
        (IExp.not (.attr (.var .result) .isJust)).eval o cfg st1 = .ok (.bool (!m.isSome), st1) := by
      intro st1 m h1
      simp [IExp.eval, IEnv.get, h1, truthyDV]
    rw [hnot _ (callCoercer o cfg.ty c x).1 (by simp [IEnv.set])]
    cases hg : applyCoerce o cfg.ty cfg.ty default c x with
    | exn e t => exact absurd hg (scalarCoerce_noexn o cfg.ty c x e t)
    | rej k t =>
      have hk := scalarCoerce_rej_kind o cfg.ty c x k t hg
      have hcc : callCoercer o cfg.ty c x = (none, t) := by simp [callCoercer, hg]
      simp only [hcc, Option.isSome_none, Bool.not_false, truthyDV]
      refine ⟨?_, ?_⟩
      · intro k' t' h
        simp only [Gate.rej.injEq] at h
        obtain ⟨rfl, rfl⟩ := h
        simp [execL_single, IStmt.exec, IExp.eval, IEnv.get, IEnv.set, hx, selfAttr, hc, outOf, hk]
      · intro y t' h; simp at h
    | acc y t =>
      have hcc : callCoercer o cfg.ty c x = (some y, t) := by simp [callCoercer, hg]
      simp only [hcc, Option.isSome_some, Bool.not_true, truthyDV]
      refine ⟨?_, ?_⟩
      · intro k' t' h; simp at h
      · intro y' t' h
        simp only [Gate.acc.injEq] at h
        obtain ⟨rfl, rfl⟩ := h
        refine ⟨{ env := ((st.env.set .result (.maybe (some y))).set .val (.py y)), tr := st.tr ++ t }, ?_, rfl, rfl⟩
        rw [execL_single, exec_assign]
        simp [IExp.eval, IEnv.get, IEnv.set]

/-! ### the synchronous method -/

theorem guard_exec (o : Oracle) (cfg : ScalarCfg) (st : ISt) (rest : List IStmt) :
    IStmt.execL o cfg st (guardS :: rest) =
      (if (cfg.apreds.getD []) ≠ [] then .error (.exn .assertion, st.tr) else IStmt.execL o cfg st rest) := by
  rw [execL_cons, guardS, exec_ite]
  have hattr : (IExp.attr .self .disallowSync).eval o cfg st =
      .ok (.bool (match cfg.apreds with | some l => !l.isEmpty | none => false), st) := by
    cases h : cfg.apreds <;> simp [IExp.eval, selfAttr, h]
  rw [hattr]
  cases ha : cfg.apreds with
  | none => simp [truthyDV, IStmt.execL]
  | some l =>
    cases l with
    | nil => simp [truthyDV, IStmt.execL]
    | cons a l' =>
      simp only [truthyDV, List.isEmpty_cons, Bool.not_false, Option.getD_some, ne_eq, reduceCtorEq, not_false_eq_true, if_true]
      rw [execL_single]
      simp [IStmt.exec, IExp.eval, selfAttr]

/-- what follows the gate: preprocessors, then predicates -/
theorem after_gate_sync (o : Oracle) (cfg : ScalarCfg) (st : ISt) (y : PyVal) (hy : st.env.val = .py y) :
    outOf (IStmt.execL o cfg st [procsS, predsSyncS]) =
      some (match runProcs (cfg.pre.getD []) y with
        | (.error e, t2) => (.raised e, st.tr ++ t2)
        | (.ok z, t2) => finishPreds cfg.vid z (st.tr ++ t2) (contPreds .sync cfg.preds (cfg.apreds.getD []) z)) := by
  obtain ⟨p1, p2⟩ := procs_exec o cfg st y hy [predsSyncS]
  rcases hr : runProcs (cfg.pre.getD []) y with ⟨r, t2⟩
  cases r with
  | error e => rw [p1 e t2 hr]
  | ok z =>
    obtain ⟨st', g1, g2, g3⟩ := p2 z t2 hr
    rw [g1, predsSync_exec o cfg (cfg.apreds.getD []) st' z g2, g3]

/-- **the synchronous scalar pipeline, as written in the source, is the model's `scalarStep`** -/
theorem src_scalar_sync (o : Oracle) (cfg : ScalarCfg) (x : PyVal) :
    runMethod o cfg Src.scalarSync x = some (scalarOf o .sync cfg x) := by
  rw [runMethod_eq, scalarSync_eq, guard_exec]
  simp only [scalarOf, scalarStep]
  by_cases hap : cfg.apreds.getD [] = []
  · simp only [hap, ne_eq, not_true_eq_false, if_false, and_false]
    obtain ⟨g1, g2⟩ := gate_exec o cfg { env := { val := .py x }, tr := [] } x rfl [procsS, predsSyncS]
    cases hg : gate o cfg.ty cfg.ty cfg.coerce x with
    | exn e t => exact absurd hg (gate_noexn o cfg.ty cfg.ty cfg.coerce x e t)
    | rej k t => rw [g1 k t hg]; simp
    | acc y t =>
      obtain ⟨st', h1, h2, h3⟩ := g2 y t hg
      rw [h1, after_gate_sync o cfg st' y h2, h3]
      simp only [List.nil_append]
      rcases runProcs (cfg.pre.getD []) y with ⟨r, t2⟩
      cases r <;> rfl
  · simp [hap, outOf]

/-! ### the asynchronous method -/

theorem filterMap_apreds (ps : List Pred) :
    (ps.map DV.apred).filterMap (fun d => match d with | .pred p => some p | .apred p => some p | _ => Option.none) = ps := by
  induction ps with
  | nil => rfl
  | cons p ps ih => simp [ih]

theorem asyncComp_eval (o : Oracle) (cfg : ScalarCfg) (aps : List Pred) (hap : cfg.apreds = some aps)
    (st : ISt) (z : PyVal) (hz : st.env.val = .py z) :
    (∀ f t e, runAPreds aps z = (f, t, some e) → asyncComp.eval o cfg st = .error (.exn e, st.tr ++ t)) ∧
    (∀ f t, runAPreds aps z = (f, t, none) →
      f = (failingPreds aps z).map (·.pid) ∧
      ∃ st', asyncComp.eval o cfg st = .ok (.preds (failingPreds aps z), st') ∧
        st'.env.val = .py z ∧ st'.tr = st.tr ++ t ∧ st'.env.errors = st.env.errors) := by
  have Hc : ∀ (st : ISt) (p : Pred) (z : PyVal), st.env.pred = .apred p → st.env.val = .py z →
      (IExp.not (.await (.call1 (.attr (.var .pred) .validateAsync) (.var .val)))).eval o cfg st = (match p.k.call z with
        | .ok b => .ok (.bool (!b), { st with tr := st.tr ++ [Ev.apred p.pid] })
        | .error e => .error (.exn e, st.tr ++ [Ev.apred p.pid])) := by
    intro st p z h1 h2
    simp only [IExp.eval, IEnv.get, h1, h2]
    cases p.k.call z <;> simp [truthyDV]
  have He : ∀ (st : ISt) (p : Pred), st.env.pred = .apred p → (IExp.var .pred).eval o cfg st = .ok (.apred p, st) := by
    intro st p h1
    simp [IExp.eval, IEnv.get, h1]
  obtain ⟨c1, c2⟩ := compFold_async _ _ Hc He aps [] st z hz
  have hunf : asyncComp.eval o cfg st =
      (match compFold (fun st => (IExp.not (.await (.call1 (.attr (.var .pred) .validateAsync) (.var .val)))).eval o cfg st)
          (fun st => (IExp.var .pred).eval o cfg st) .pred (aps.map DV.apred) (.ok ([], st)) with
       | .error err => .error err
       | .ok (kept, st) =>
         let ps := kept.filterMap (fun d => match d with | .pred p => some p | .apred p => some p | _ => Option.none)
         if ps.length = kept.length then .ok (.preds ps, st) else stuck st "comprehension element") := by
    simp only [asyncComp]
    rw [IExp.eval]
    have hattr : (IExp.attr .self .predicatesAsync).eval o cfg st = .ok (.apreds aps, st) := by
      simp [IExp.eval, selfAttr, hap, optList]
    rw [hattr]
    rfl
  refine ⟨?_, ?_⟩
  · intro f t e h
    rw [hunf, c1 f t e h]
  · intro f t h
    obtain ⟨hf, st', h1, h2, h3, h4⟩ := c2 f t h
    refine ⟨hf, st', ?_, h2, h3, h4⟩
    rw [hunf, h1]
    simp only [List.nil_append, filterMap_apreds, List.length_map, if_true]

/-- `if errors: return False, Invalid(PredicateErrs(errors), val, self)  else: return True, val` -/
theorem finalIte_exec (o : Oracle) (cfg : ScalarCfg) (st : ISt) (z : PyVal) (ps : List Pred)
    (hz : st.env.val = .py z) (he : st.env.errors = .preds ps) :
    outOf (IStmt.execL o cfg st [.ite (.var .errors) [retInvalidPreds] [retValid]]) =
      some (if ps.isEmpty then (.valid z, st.tr) else (.invalid (.mk (.preds (ps.map (·.pid))) z cfg.vid []), st.tr)) := by
  rw [execL_single, exec_ite, eval_var]
  simp only [IEnv.get, he, truthyDV]
  cases ps with
  | nil =>
    simp only [List.isEmpty_nil, Bool.not_true, if_true]
    exact retValid_exec o cfg st z hz []
  | cons a l =>
    simp only [List.isEmpty_cons, Bool.not_false, Bool.false_eq_true, if_false]
    exact retInvalidPreds_exec o cfg st z (a :: l) hz he []

/-- what follows the preprocessors in the asynchronous method -/
theorem predsAsync_exec (o : Oracle) (cfg : ScalarCfg) (st : ISt) (z : PyVal) (hz : st.env.val = .py z) :
    outOf (IStmt.execL o cfg st
      [.assign .errors syncComp,
       .ite (.attr .self .predicatesAsync) [.expr (.call1 (.attr (.var .errors) .extend) asyncComp)] [],
       .ite (.var .errors) [retInvalidPreds] [retValid]]) =
      some (finishPreds cfg.vid z st.tr (contPreds .async cfg.preds (cfg.apreds.getD []) z)) := by
  obtain ⟨c1, c2⟩ := syncComp_eval o cfg st z hz
  rw [execL_cons, exec_assign]
  rcases hr : runPreds cfg.preds z with ⟨f, t, ex⟩
  cases ex with
  | some e =>
    rw [c1 f t e hr]
    simp [outOf, contPreds, hr, finishPreds]
  | none =>
    obtain ⟨hf, st', h1, h2, h3, _⟩ := c2 f t hr
    rw [h1]
    simp only
    -- the state after `errors = [...]`
    have hv1 : ({ env := st'.env.set .errors (.preds (failingPreds cfg.preds z)), tr := st'.tr } : ISt).env.val = .py z := by
      simpa [IEnv.set] using h2
    rw [execL_cons, exec_ite]
    have hattr : ∀ st1 : ISt, (IExp.attr .self .predicatesAsync).eval o cfg st1 = .ok (optList .apreds cfg.apreds, st1) := by
      intro st1; simp [IExp.eval, selfAttr]
    rw [hattr]
    simp only
    -- no async predicates configured (None or [])
    have noasync : cfg.apreds.getD [] = [] → truthyDV (optList .apreds cfg.apreds) = some false := by
      intro h0
      cases ha : cfg.apreds with
      | none => rfl
      | some l => rw [ha] at h0; simp only [Option.getD_some] at h0; subst h0; rfl
    by_cases hemp : cfg.apreds.getD [] = []
    · rw [noasync hemp]
      simp only [execL_nil]
      rw [finalIte_exec o cfg _ z (failingPreds cfg.preds z) hv1 (by simp [IEnv.set])]
      simp only [contPreds, hr, hemp, runAPreds, List.append_nil, finishPreds, if_true]
      cases hfe : (failingPreds cfg.preds z) with
      | nil => simp [hf, hfe, h3]
      | cons a l => simp [hf, hfe, h3]
    · obtain ⟨aps, hap⟩ : ∃ aps, cfg.apreds = some aps := by
        cases ha : cfg.apreds with
        | none => rw [ha] at hemp; simp at hemp
        | some l => exact ⟨l, rfl⟩
      have hne : aps ≠ [] := by rw [hap] at hemp; simpa using hemp
      have htr : truthyDV (optList .apreds cfg.apreds) = some true := by
        rw [hap]
        cases aps with
        | nil => exact absurd rfl hne
        | cons a l => rfl
      rw [htr]
      simp only
      rw [execL_single]
      obtain ⟨a1, a2⟩ := asyncComp_eval o cfg aps hap
        { env := st'.env.set .errors (.preds (failingPreds cfg.preds z)), tr := st'.tr } z hv1
      -- `errors.extend(<async comprehension>)`
      have hext : ∀ st1 : ISt, IStmt.exec o cfg st1 (.expr (.call1 (.attr (.var .errors) .extend) asyncComp)) =
          (match asyncComp.eval o cfg st1 with
           | .error err => .error err
           | .ok (ad, st2) =>
             match st2.env.get .errors, ad with
             | .preds ps, .preds qs => .ok (.next { st2 with env := st2.env.set .errors (.preds (ps ++ qs)) })
             | _, _ => .error (.stuck "extend", st2.tr)) := by
        intro st1
        simp only [IStmt.exec]
        rfl
      rw [hext]
      rcases hra : runAPreds aps z with ⟨fa, ta, exa⟩
      cases exa with
      | some e =>
        rw [a1 fa ta e hra]
        simp [outOf, contPreds, hr, hap, hra, finishPreds, h3, List.append_assoc]
      | none =>
        obtain ⟨hfa, st2, b1, b2, b3, b4⟩ := a2 fa ta hra
        rw [b1]
        have herr : st2.env.get .errors = .preds (failingPreds cfg.preds z) := by
          simp only [IEnv.get]; rw [b4]; simp [IEnv.set]
        dsimp only
        rw [herr]
        dsimp only
        rw [finalIte_exec o cfg _ z (failingPreds cfg.preds z ++ failingPreds aps z)
          (by simpa [IEnv.set] using b2) (by simp [IEnv.set])]
        simp only [contPreds, hr, hap, Option.getD_some, hra, finishPreds, if_true]
        have hl : (f ++ fa).isEmpty = (failingPreds cfg.preds z ++ failingPreds aps z).isEmpty := by
          rw [hf, hfa, ← List.map_append]
          cases (failingPreds cfg.preds z ++ failingPreds aps z) <;> rfl
        rw [hl]
        cases hfe : (failingPreds cfg.preds z ++ failingPreds aps z).isEmpty with
        | true => simp [b3, h3, List.append_assoc]
        | false => simp [b3, h3, hf, hfa, List.append_assoc]

/-- **the asynchronous scalar pipeline, as written in the source, is the model's `scalarStep`** -/
theorem src_scalar_async (o : Oracle) (cfg : ScalarCfg) (x : PyVal) :
    runMethod o cfg Src.scalarAsync x = some (scalarOf o .async cfg x) := by
  rw [runMethod_eq, scalarAsync_eq]
  simp only [scalarOf, scalarStep]
  have hm : ¬ (Mode.async = Mode.sync ∧ cfg.apreds.getD [] ≠ []) := by simp
  simp only [hm, if_false]
  obtain ⟨g1, g2⟩ := gate_exec o cfg { env := { val := .py x }, tr := [] } x rfl
    [procsS, .assign .errors syncComp,
     .ite (.attr .self .predicatesAsync) [.expr (.call1 (.attr (.var .errors) .extend) asyncComp)] [],
     .ite (.var .errors) [retInvalidPreds] [retValid]]
  cases hg : gate o cfg.ty cfg.ty cfg.coerce x with
  | exn e t => exact absurd hg (gate_noexn o cfg.ty cfg.ty cfg.coerce x e t)
  | rej k t => rw [g1 k t hg]; simp
  | acc y t =>
    obtain ⟨st', h1, h2, h3⟩ := g2 y t hg
    rw [h1]
    obtain ⟨p1, p2⟩ := procs_exec o cfg st' y h2
      [.assign .errors syncComp,
       .ite (.attr .self .predicatesAsync) [.expr (.call1 (.attr (.var .errors) .extend) asyncComp)] [],
       .ite (.var .errors) [retInvalidPreds] [retValid]]
    rcases hr : runProcs (cfg.pre.getD []) y with ⟨r, t2⟩
    cases r with
    | error e => rw [p1 e t2 hr, h3]; simp [hr]
    | ok z =>
      obtain ⟨st'', q1, q2, q3⟩ := p2 z t2 hr
      rw [q1, predsAsync_exec o cfg st'' z q2, q3, h3]
      simp [hr]

/-! ### what `__init__` contributes (pinned text; the interpreter reads `_disallow_synchronous` accordingly) -/

/-- `self._disallow_synchronous = bool(predicates_async)`; the bare-validator fast path is installed exactly when no
    predicate, async predicate, preprocessor or coercer is configured, and closes over (self, self._TYPE, TypeErr) -/
theorem src_scalar_init :
    Src.disallowInit = "bool(predicates_async)" ∧
    Src.fastPathCond = "not predicates and (not predicates_async) and (not preprocessors) and (not coerce)" ∧
    Src.fastPathAssign = "self._validate_to_tuple = _simple_type_validator(self, self._TYPE, _type_err)" ∧
    Src.simpleInnerParams = "instance, type_, type_err -> return inner" := by decide

/-- the fast path agrees with the general method on the configurations it is installed for -/
theorem src_scalar_fastpath_consistent (o : Oracle) (cfg : ScalarCfg) (x : PyVal)
    (h1 : cfg.coerce = none) (h2 : cfg.pre.getD [] = []) (h3 : cfg.preds = []) (h4 : cfg.apreds.getD [] = []) :
    runMethod o cfg Src.simpleInner x = runMethod o cfg Src.scalarSync x := by
  rw [src_scalar_simple, src_scalar_sync, scalarOf, h1, h2, h3, h4]

/-! ### non-vacuity: `StringValidator(MinLength(2), preprocessors=[strip])` on `" a "` through the translated source -/

example : runMethod default ⟨7, .str, none, some [⟨1, .strip⟩], [⟨2, .minLength 2⟩], none⟩ Src.scalarSync (.str [32, 97, 32]) =
    some (.invalid (.mk (.preds [2]) (.str [97]) 7 []), []) := by
  rw [src_scalar_sync]; rfl

end Koda
