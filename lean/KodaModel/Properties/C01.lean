/-
  C01 — validation never raises.

  `Clean ev`: whatever the evaluator returns, it is Valid or Invalid.  The container steps are shown to
  preserve cleanliness, and `C01_never_raises_partial` lifts this to whole trees — any nesting, any
  recursion through `Lazy`, any fuel — for the validator kinds in `Safe`, whose side conditions are
  semantic ("the predicates of this node do not raise on what its gate lets through") and are
  discharged below for the typed use of the built-in predicates.

  `_partial`: the side conditions of maps and records are stated on their container level (`mapPre`,
  `recPre` do not raise) rather than discharged from the configuration, and *termination* (that a result
  is produced at all) is proved only for the recursive example of C05.  The code itself violates the
  unrestricted statement (findings D2, D3: Decimal NaN / naive-vs-aware datetimes under Min / Max).
-/
import KodaModel.Properties.C02
import KodaModel.Properties.C03
import KodaModel.Properties.C05

namespace Koda

/-- the evaluator never yields an exception outcome -/
def Clean (ev : Ev1) : Prop := ∀ x r t, ev x = some (r, t) → ∀ e, r ≠ .raised e

theorem gate_noexn (o : Oracle) (tg dest : Ty) (c : Option CoerceK) (x : PyVal) (e : Exn) (t : List Ev) :
    gate o tg dest c x ≠ .exn e t := by
  unfold gate
  cases c with
  | none => simp only; split <;> simp
  | some c =>
    simp only [applyCoerce]
    cases c with
    | dflt => simp only; split <;> simp
    | classOnly =>
      simp only
      split
      · split
        · split <;> simp
        · simp
      · simp
    | user cid compat f => simp only; split <;> simp

/-! ### the wrappers -/

theorem unionLoop_clean (x : PyVal) : ∀ (evs : List Ev1), (∀ ev ∈ evs, Clean ev) →
    ∀ w es t r, unionLoop x evs = some (w, es, t, r) → r = none := by
  intro evs
  induction evs with
  | nil => intro _ w es t r h; simp [unionLoop] at h; exact h.2.2.2.symm
  | cons ev evs ih =>
    intro hc w es t r h
    simp only [unionLoop] at h
    cases hx : ev x with
    | none => simp [hx] at h
    | some p =>
      obtain ⟨out, t0⟩ := p
      cases out with
      | raised e => exact absurd rfl (hc ev (by simp) x _ _ hx e)
      | valid w0 => simp [hx] at h; exact h.2.2.2.symm
      | invalid e0 =>
        simp only [hx] at h
        cases hl : unionLoop x evs with
        | none => simp [hl] at h
        | some q =>
          obtain ⟨w1, es1, t1, r1⟩ := q
          simp only [hl, Option.some.injEq, Prod.mk.injEq] at h
          have := ih (fun e' he' => hc e' (by simp [he'])) w1 es1 t1 r1 hl
          rw [← h.2.2.2]; exact this

theorem unionStep_clean (vid : Nat) (evs : List Ev1) (h : ∀ ev ∈ evs, Clean ev) : Clean (unionStep vid evs) := by
  intro x r t hr e
  unfold unionStep at hr
  cases hl : unionLoop x evs with
  | none => simp [hl] at hr
  | some q =>
    obtain ⟨w, es, t1, rr⟩ := q
    have := unionLoop_clean x evs h w es t1 rr hl
    subst this
    simp only [hl] at hr
    cases w <;> simp at hr <;> (rw [← hr.1]; simp)

theorem maybeStep_clean (vid : Nat) (ev : Ev1) (h : Clean ev) : Clean (maybeStep vid ev) := by
  intro x r t hr e
  unfold maybeStep at hr
  cases x <;> simp at hr <;> try (rw [← hr.1]; simp)
  rename_i oid v
  cases hv : ev v with
  | none => simp [hv] at hr
  | some p =>
    obtain ⟨out, t0⟩ := p
    cases out with
    | raised e' => exact absurd rfl (h v _ _ hv e')
    | valid w => simp [hv] at hr; rw [← hr.1]; simp
    | invalid e0 => simp [hv] at hr; rw [← hr.1]; simp

theorem knrStep_clean (ev : Ev1) (h : Clean ev) : Clean (knrStep ev) := by
  intro x r t hr e
  unfold knrStep at hr
  cases hv : ev x with
  | none => simp [hv] at hr
  | some p =>
    obtain ⟨out, t0⟩ := p
    cases out with
    | raised e' => exact absurd rfl (h x _ _ hv e')
    | valid w => simp [hv] at hr; rw [← hr.1]; simp
    | invalid e0 => simp [hv] at hr; rw [← hr.1]; simp

theorem userStep_clean (vid : Nat) (m : Mode) (ev : Ev1) (h : Clean ev) : Clean (userStep vid m ev) := by
  intro x r t hr e
  unfold userStep at hr
  cases hv : ev x with
  | none => simp [hv] at hr
  | some p =>
    obtain ⟨out, t0⟩ := p
    simp [hv] at hr
    rw [← hr.1]
    exact h x out t0 hv e

/-! ### lists and uniform tuples -/

theorem loopItems_clean {ev : Ev1} (h : Clean ev) :
    ∀ xs i ne r, loopItems ev false xs i ne = some r → r.r = none := by
  intro xs
  induction xs with
  | nil => intro i ne r hr; simp [loopItems] at hr; subst hr; rfl
  | cons x xs ih =>
    intro i ne r hr
    simp only [loopItems] at hr
    cases hx : ev x with
    | none => simp [hx] at hr
    | some p =>
      obtain ⟨out, t⟩ := p
      rw [hx] at hr
      cases out with
      | raised e => exact absurd rfl (h x _ _ hx e)
      | valid w =>
        simp only [Bool.false_and, Bool.false_eq_true, if_false] at hr
        cases hl : loopItems ev false xs (i + 1) ne with
        | none => simp [hl] at hr
        | some r' => simp only [hl, Option.some.injEq] at hr; subst hr; exact ih _ _ r' hl
      | invalid e =>
        simp only at hr
        cases hl : loopItems ev false xs (i + 1) false with
        | none => simp [hl] at hr
        | some r' => simp only [hl, Option.some.injEq] at hr; subst hr; exact ih _ _ r' hl

/-- a list / uniform-tuple validator whose container level does not raise, over a clean child, is clean -/
theorem seqStep_clean (k : SeqKind) (hk : k ≠ .set) (o : Oracle) (m : Mode) (vid : Nat) (ps aps : List Pred)
    (c : Option CoerceK) {ev : Ev1} (h : Clean ev)
    (hp : ∀ x r, seqPre k o m vid ps aps c x = .inl r → ∀ e, r.1 ≠ .raised e) :
    Clean (seqStep k o m vid ps aps c ev) := by
  intro x r t hr e
  cases hpre : seqPre k o m vid ps aps c x with
  | inl r' =>
    simp only [seqStep, hpre, Option.some.injEq] at hr
    have := hp x r' hpre e
    rw [hr] at this; exact this
  | inr q =>
    obtain ⟨y, xs, t0⟩ := q
    rw [seqStep_inr hpre ev (fun hs => absurd hs hk)] at hr
    cases hl : loopItems ev false xs 0 true with
    | none => simp [hl] at hr
    | some rr =>
      simp only [hl, Option.map_some, Option.some.injEq, Prod.mk.injEq] at hr
      have hnone := loopItems_clean h _ _ _ _ hl
      rw [← hr.1]
      unfold finishSeq
      simp only [hnone]
      split
      · simp
      · first | simp | (split <;> simp)

/-- sets: additionally the element payloads must be hashable (else `set.add` raises TypeError) -/
theorem seqStep_clean_set (o : Oracle) (m : Mode) (vid : Nat) (ps aps : List Pred)
    (c : Option CoerceK) {ev : Ev1} (h : Clean ev) (hh : HashablePayloads ev)
    (hp : ∀ x r, seqPre .set o m vid ps aps c x = .inl r → ∀ e, r.1 ≠ .raised e) :
    Clean (seqStep .set o m vid ps aps c ev) := by
  intro x r t hr e
  cases hpre : seqPre .set o m vid ps aps c x with
  | inl r' =>
    simp only [seqStep, hpre, Option.some.injEq] at hr
    have := hp x r' hpre e
    rw [hr] at this; exact this
  | inr q =>
    obtain ⟨y, xs, t0⟩ := q
    rw [seqStep_inr hpre ev (fun _ => hh)] at hr
    cases hl : loopItems ev false xs 0 true with
    | none => simp [hl] at hr
    | some rr =>
      simp only [hl, Option.map_some, Option.some.injEq, Prod.mk.injEq] at hr
      have hnone := loopItems_clean h _ _ _ _ hl
      rw [← hr.1]
      unfold finishSeq
      simp only [hnone]
      split
      · simp
      · simp

/-- the container level of a sequence validator: no async predicates in sync mode, predicates that do
    not raise on what the gate lets through, and the gate lets only iterables through -/
theorem seqPre_clean (k : SeqKind) (o : Oracle) (m : Mode) (vid : Nat) (ps aps : List Pred) (c : Option CoerceK)
    (hsync : m = .sync → aps = [])
    (hgate : ∀ x y t, gate o k.gateTy k.destTy c x = .acc y t →
      (contPreds m ps aps y).2.2 = none ∧ (pyIter y).isSome = true) :
    ∀ x r, seqPre k o m vid ps aps c x = .inl r → ∀ e, r.1 ≠ .raised e := by
  intro x r hr e
  unfold seqPre at hr
  split at hr
  · rename_i hh; exact absurd (hsync hh.1) hh.2
  · split at hr
    · rename_i e' t' hg; exact absurd hg (gate_noexn _ _ _ _ _ _ _)
    · simp only [Sum.inl.injEq] at hr; rw [← hr]; simp
    · rename_i y t hg
      obtain ⟨h1, h2⟩ := hgate x y t hg
      split at hr
      · rename_i f t2 e' hc
        rw [hc] at h1; simp at h1
      · split at hr
        · simp only [Sum.inl.injEq] at hr; rw [← hr]; simp
        · split at hr
          · rename_i hi; rw [hi] at h2; simp at h2
          · simp at hr


/-! ### n-tuples, maps, records -/


theorem loopFields_clean : ∀ (evs : List Ev1) (xs : List PyVal) (i : Nat) (r : LoopR),
    (∀ ev ∈ evs, Clean ev) → loopFields evs xs i = some r → r.r = none := by
  intro evs
  induction evs with
  | nil => intro xs i r _ h; simp [loopFields] at h; subst h; rfl
  | cons ev evs ih =>
    intro xs i r hc h
    cases xs with
    | nil => simp [loopFields] at h; subst h; rfl
    | cons x xs =>
      simp only [loopFields] at h
      cases hx : ev x with
      | none => simp [hx] at h
      | some p =>
        obtain ⟨out, t⟩ := p
        rw [hx] at h
        cases out with
        | raised e => exact absurd rfl (hc ev (by simp) x _ _ hx e)
        | valid w =>
          simp only at h
          cases hl : loopFields evs xs (i + 1) with
          | none => simp [hl] at h
          | some r' =>
            simp only [hl, Option.some.injEq] at h; subst h
            exact ih xs (i + 1) r' (fun e' he' => hc e' (by simp [he'])) hl
        | invalid e =>
          simp only at h
          cases hl : loopFields evs xs (i + 1) with
          | none => simp [hl] at h
          | some r' =>
            simp only [hl, Option.some.injEq] at h; subst h
            exact ih xs (i + 1) r' (fun e' he' => hc e' (by simp [he'])) hl

theorem runObjCheck_clean (oc : Option ObjCheck) (vid : Nat) (obj : PyVal) (e : Exn) :
    (runObjCheck oc vid obj).1 ≠ .raised e := by
  unfold runObjCheck
  cases oc with
  | none => simp
  | some c => simp only; split <;> simp

/-- n-tuples: clean slot validators, and a gate that lets only sized iterables through -/
theorem ntupleStep_clean (o : Oracle) (vid : Nat) (oc : Option ObjCheck) (c : Option CoerceK) (lp : Nat)
    (evs : List Ev1) (hc : ∀ ev ∈ evs, Clean ev)
    (hgate : ∀ x y t, gate o .tuple .list c x = .acc y t → (pyLen y).isSome = true ∧ (pyIter y).isSome = true) :
    Clean (ntupleStep o vid oc c lp evs) := by
  intro x r t hr e
  unfold ntupleStep at hr
  cases hpre : ntuplePre o vid c lp evs.length x with
  | inl r' =>
    simp only [hpre, Option.some.injEq] at hr
    unfold ntuplePre at hpre
    split at hpre
    · rename_i e' t' hg; exact absurd hg (gate_noexn _ _ _ _ _ _ _)
    · simp only [Sum.inl.injEq] at hpre; rw [← hpre] at hr; cases hr; simp
    · rename_i y t0 hg
      obtain ⟨h1, h2⟩ := hgate x y t0 hg
      split at hpre
      · rename_i hl; rw [hl] at h1; simp at h1
      · split at hpre
        · simp only [Sum.inl.injEq] at hpre; rw [← hpre] at hr; cases hr; simp
        · split at hpre
          · rename_i hi; rw [hi] at h2; simp at h2
          · simp at hpre
  | inr q =>
    obtain ⟨y, xs, t0⟩ := q
    simp only [hpre] at hr
    cases hl : loopFields evs xs 0 with
    | none => simp [hl] at hr
    | some rr =>
      simp only [hl, Option.some.injEq] at hr
      have hnone := loopFields_clean evs xs 0 rr hc hl
      have : (ntupleFinish vid oc y t0 rr).1 = r := by rw [hr]
      rw [← this]
      unfold ntupleFinish
      simp only [hnone]
      split
      · simp
      · exact runObjCheck_clean oc vid _ e

theorem mapLoop_clean (evk evv : Ev1) (hk : Clean evk) (hv : Clean evv)
    (hh : ∀ x w t, evk x = some (.valid w, t) → hashable w = true) :
    ∀ (kvs acc : List (PyVal × PyVal)) (r : MapR), mapLoop evk evv kvs acc = some r → r.r = none := by
  intro kvs
  induction kvs with
  | nil => intro acc r h; simp [mapLoop] at h; subst h; rfl
  | cons p rest ih =>
    intro acc r h
    obtain ⟨k, v⟩ := p
    simp only [mapLoop] at h
    cases hkk : evk k with
    | none => simp [hkk] at h
    | some pk =>
      obtain ⟨ko, tk⟩ := pk
      cases ko with
      | raised e => exact absurd rfl (hk k _ _ hkk e)
      | valid kw =>
        simp only [hkk] at h
        cases hvv : evv v with
        | none => simp [hvv] at h
        | some pv =>
          obtain ⟨vo, tv⟩ := pv
          cases vo with
          | raised e => exact absurd rfl (hv v _ _ hvv e)
          | valid vw =>
            simp only [hvv, hh k kw tk hkk, Bool.not_true, Bool.false_eq_true, if_false] at h
            cases hl : mapLoop evk evv rest (dictSet acc kw vw) with
            | none => simp [hl] at h
            | some r' => simp only [hl, Option.some.injEq] at h; subst h; exact ih _ r' hl
          | invalid ev' =>
            simp only [hvv] at h
            cases hl : mapLoop evk evv rest acc with
            | none => simp [hl] at h
            | some r' => simp only [hl, Option.some.injEq] at h; subst h; exact ih _ r' hl
      | invalid ke =>
        simp only [hkk] at h
        cases hvv : evv v with
        | none => simp [hvv] at h
        | some pv =>
          obtain ⟨vo, tv⟩ := pv
          cases vo with
          | raised e => exact absurd rfl (hv v _ _ hvv e)
          | valid vw =>
            simp only [hvv] at h
            cases hl : mapLoop evk evv rest acc with
            | none => simp [hl] at h
            | some r' => simp only [hl, Option.some.injEq] at h; subst h; exact ih _ r' hl
          | invalid ev' =>
            simp only [hvv] at h
            cases hl : mapLoop evk evv rest acc with
            | none => simp [hl] at h
            | some r' => simp only [hl, Option.some.injEq] at h; subst h; exact ih _ r' hl

/-- maps: clean key and value validators, hashable key payloads, a container level that does not raise -/
theorem mapStep_clean (o : Oracle) (m : Mode) (vid : Nat) (ps aps : List Pred) (c : Option CoerceK)
    (evk evv : Ev1) (hk : Clean evk) (hv : Clean evv)
    (hh : ∀ x w t, evk x = some (.valid w, t) → hashable w = true)
    (hp : ∀ x r, mapPre o m vid ps aps c x = .inl r → ∀ e, r.1 ≠ .raised e) :
    Clean (mapStep o m vid ps aps c evk evv) := by
  intro x r t hr e
  unfold mapStep at hr
  cases hpre : mapPre o m vid ps aps c x with
  | inl r' =>
    simp only [hpre, Option.some.injEq] at hr
    have := hp x r' hpre e
    rw [hr] at this; exact this
  | inr q =>
    obtain ⟨y, kvs, t0⟩ := q
    simp only [hpre] at hr
    cases hl : mapLoop evk evv kvs [] with
    | none => simp [hl] at hr
    | some rr =>
      simp only [hl, Option.some.injEq] at hr
      have hnone := mapLoop_clean evk evv hk hv hh kvs [] rr hl
      have : (mapFinish vid y t0 rr).1 = r := by rw [hr]
      rw [← this]
      unfold mapFinish
      simp only [hnone]
      split <;> simp

theorem recLoop_clean (vid : Nat) (dv : PyVal) (data : List (PyVal × PyVal)) :
    ∀ (evs : List Ev1) (ks : List PyVal) (reqs : List Bool) (r : RecR),
      (∀ ev ∈ evs, Clean ev) → recLoop vid dv data evs ks reqs = some r → r.r = none := by
  intro evs
  induction evs with
  | nil => intro ks reqs r _ h; simp [recLoop] at h; subst h; rfl
  | cons ev evs ih =>
    intro ks reqs r hc h
    cases ks with
    | nil => simp [recLoop] at h; subst h; rfl
    | cons k ks =>
      cases reqs with
      | nil => simp [recLoop] at h; subst h; rfl
      | cons req reqs =>
        have hc' : ∀ e' ∈ evs, Clean e' := fun e' he' => hc e' (by simp [he'])
        simp only [recLoop] at h
        cases hg : dictGet data k with
        | none =>
          simp only [hg] at h
          cases hl : recLoop vid dv data evs ks reqs with
          | none => simp [hl] at h
          | some r' =>
            simp only [hl] at h
            have := ih ks reqs r' hc' hl
            split at h <;> (simp only [Option.some.injEq] at h; subst h; exact this)
        | some xv =>
          simp only [hg] at h
          cases hx : ev xv with
          | none => simp [hx] at h
          | some p =>
            obtain ⟨out, t⟩ := p
            rw [hx] at h
            cases out with
            | raised e => exact absurd rfl (hc ev (by simp) xv _ _ hx e)
            | valid w =>
              simp only at h
              cases hl : recLoop vid dv data evs ks reqs with
              | none => simp [hl] at h
              | some r' => simp only [hl, Option.some.injEq] at h; subst h; exact ih ks reqs r' hc' hl
            | invalid e =>
              simp only at h
              cases hl : recLoop vid dv data evs ks reqs with
              | none => simp [hl] at h
              | some r' => simp only [hl, Option.some.injEq] at h; subst h; exact ih ks reqs r' hc' hl

theorem runAObjCheck_clean (m : Mode) (aoc : Option ObjCheck) (vid : Nat) (obj : PyVal) (e : Exn) :
    (runAObjCheck m aoc vid obj).1 ≠ .raised e := by
  unfold runAObjCheck
  split
  · split <;> simp
  · simp

/-- records (all five kinds): clean field validators and a container level that does not raise -/
theorem recordStep_clean (o : Oracle) (m : Mode) (vid : Nat) (cfg : RecCfg) (evs : List Ev1)
    (hc : ∀ ev ∈ evs, Clean ev)
    (hp : ∀ x r, recPre o m vid cfg x = .inl r → ∀ e, r.1 ≠ .raised e) :
    Clean (recordStep o m vid cfg evs) := by
  intro x r t hr e
  unfold recordStep at hr
  cases hpre : recPre o m vid cfg x with
  | inl r' =>
    simp only [hpre, Option.some.injEq] at hr
    have := hp x r' hpre e
    rw [hr] at this; exact this
  | inr q =>
    obtain ⟨y, data, t0⟩ := q
    simp only [hpre] at hr
    cases hl : recLoop vid y data evs cfg.keys cfg.reqs with
    | none => simp [hl] at hr
    | some rr =>
      simp only [hl, Option.some.injEq] at hr
      have hnone := recLoop_clean vid y data evs cfg.keys cfg.reqs rr hc hl
      have : (recFinish m vid cfg y t0 rr).1 = r := by rw [hr]
      rw [← this]
      unfold recFinish
      simp only [hnone]
      split
      · simp
      · split
        · exact runAObjCheck_clean m cfg.aoc vid _ e
        · exact runObjCheck_clean cfg.oc vid _ e


/-! ### leaves -/

/-- a scalar validator: no async predicates when called synchronously, processors and predicates that
    do not raise on what the gate lets through -/
theorem scalarStep_clean (o : Oracle) (m : Mode) (vid : Nat) (tg : Ty) (c : Option CoerceK) (pre : List Proc)
    (ps aps : List Pred) (hsync : m = .sync → aps = [])
    (hgate : ∀ x y t, gate o tg tg c x = .acc y t →
      ∃ z t2, runProcs pre y = (.ok z, t2) ∧ (contPreds m ps aps z).2.2 = none) :
    ∀ x e, (scalarStep o m vid tg c pre ps aps x).1 ≠ .raised e := by
  intro x e
  unfold scalarStep
  split
  · rename_i hh; exact absurd (hsync hh.1) hh.2
  · split
    · rename_i e' t' hg; exact absurd hg (gate_noexn _ _ _ _ _ _ _)
    · simp
    · rename_i y t hg
      obtain ⟨z, t2, hp, hc⟩ := hgate x y t hg
      simp only [hp, finishPreds, hc]
      split <;> simp

theorem noneStep_clean (o : Oracle) (vid : Nat) (c : Option CoerceK) (x : PyVal) (e : Exn) :
    (noneStep o vid c x).1 ≠ .raised e := by
  unfold noneStep
  cases c with
  | none => simp only; split <;> simp
  | some c =>
    simp only
    split
    · simp
    · simp
    · rename_i e' t' hg
      exfalso
      have := gate_noexn o .none .none (some c) x e' t'
      exact this hg

theorem isDictStep_clean (vid : Nat) (x : PyVal) (e : Exn) : (isDictStep vid x).1 ≠ .raised e := by
  unfold isDictStep; split <;> simp

/-! ### whole trees -/

/-- validator trees whose nodes cannot raise (side conditions are about the node's own gate and
    predicates; children are `Safe` recursively; a `Lazy` is judged through the environment) -/
inductive Safe (o : Oracle) (m : Mode) : V → Prop
  | scalar (vid tg c pre ps aps) : (m = .sync → aps = []) →
      (∀ x y t, gate o tg tg c x = .acc y t → ∃ z t2, runProcs pre y = (.ok z, t2) ∧ (contPreds m ps aps z).2.2 = none) →
      Safe o m (.scalar vid tg c pre ps aps)
  | equals (vid mt pre pid) : (∀ x e, (equalsStep vid mt pre pid x).1 ≠ .raised e) → Safe o m (.equals vid mt pre pid)
  | noneV (vid c) : Safe o m (.noneV vid c)
  | always (vid) : Safe o m (.always vid)
  | isDict (vid) : Safe o m (.isDict vid)
  | list (vid item ps aps c) : (m = .sync → aps = []) →
      (∀ x y t, gate o .list .list c x = .acc y t → (contPreds m ps aps y).2.2 = none ∧ (pyIter y).isSome = true) →
      Safe o m item → Safe o m (.list vid item ps aps c)
  | utuple (vid item ps aps c) : (m = .sync → aps = []) →
      (∀ x y t, gate o .tuple .list c x = .acc y t → (contPreds m ps aps y).2.2 = none ∧ (pyIter y).isSome = true) →
      Safe o m item → Safe o m (.utuple vid item ps aps c)
  | set (vid item ps aps c) : (m = .sync → aps = []) →
      (∀ x y t, gate o .set .set c x = .acc y t → (contPreds m ps aps y).2.2 = none ∧ (pyIter y).isSome = true) →
      (∀ n env x w t, run o env m n item x = some (.valid w, t) → hashable w = true) →
      Safe o m item → Safe o m (.set vid item ps aps c)
  | ntuple (vid fs oc c lp) :
      (∀ x y t, gate o .tuple .list c x = .acc y t → (pyLen y).isSome = true ∧ (pyIter y).isSome = true) →
      (∀ v ∈ fs, Safe o m v) → Safe o m (.ntuple vid fs oc c lp)
  | map (vid kv vv ps aps c) :
      (∀ x r, mapPre o m vid ps aps c x = .inl r → ∀ e, r.1 ≠ .raised e) →
      (∀ n env x w t, run o env m n kv x = some (.valid w, t) → hashable w = true) →
      Safe o m kv → Safe o m vv → Safe o m (.map vid kv vv ps aps c)
  | record (vid cfg vs) :
      (∀ x r, recPre o m vid cfg x = .inl r → ∀ e, r.1 ≠ .raised e) →
      (∀ v ∈ vs, Safe o m v) → Safe o m (.record vid cfg vs)
  | union (vid vs) : (∀ v ∈ vs, Safe o m v) → Safe o m (.union vid vs)
  | optional (vid nv inner) : Safe o m nv → Safe o m inner → Safe o m (.optional vid nv inner)
  | maybe (vid inner) : Safe o m inner → Safe o m (.maybe vid inner)
  | lazy (vid ref) : Safe o m (.lazy vid ref)
  | knr (vid inner) : Safe o m inner → Safe o m (.knr vid inner)
  | user (vid inner) : Safe o m inner → Safe o m (.user vid inner)

/-- **C01 (never raises), partial**: every run — any fuel, any depth of nesting, any recursion through
    `Lazy` — of a `Safe` tree in a `Safe` environment ends in Valid or Invalid -/
theorem C01_never_raises_partial (o : Oracle) (m : Mode) (env : Nat → V) (henv : ∀ ref, Safe o m (env ref)) :
    ∀ n v, Safe o m v → Clean (run o env m n v) := by
  intro n
  induction n with
  | zero => intro v _ x r t h; simp [run] at h
  | succ n ih =>
    intro v hs
    cases hs with
    | scalar vid tg c pre ps aps h1 h2 =>
      intro x r t h e
      simp only [run, Option.some.injEq] at h
      have := scalarStep_clean o m vid tg c pre ps aps h1 h2 x e
      rw [h] at this; exact this
    | equals vid mt pre pid h1 =>
      intro x r t h e
      simp only [run, Option.some.injEq] at h
      have := h1 x e
      rw [h] at this; exact this
    | noneV vid c =>
      intro x r t h e
      simp only [run, Option.some.injEq] at h
      have := noneStep_clean o vid c x e
      rw [h] at this; exact this
    | always vid =>
      intro x r t h e
      simp only [run, Option.some.injEq, Prod.mk.injEq] at h
      rw [← h.1]; simp
    | isDict vid =>
      intro x r t h e
      simp only [run, Option.some.injEq] at h
      have := isDictStep_clean vid x e
      rw [h] at this; exact this
    | list vid item ps aps c h1 h2 h3 =>
      simp only [run]
      exact seqStep_clean .list (by decide) o m vid ps aps c (ih item h3) (seqPre_clean .list o m vid ps aps c h1 h2)
    | utuple vid item ps aps c h1 h2 h3 =>
      simp only [run]
      exact seqStep_clean .utuple (by decide) o m vid ps aps c (ih item h3) (seqPre_clean .utuple o m vid ps aps c h1 h2)
    | set vid item ps aps c h1 h2 h3 h4 =>
      simp only [run]
      exact seqStep_clean_set o m vid ps aps c (ih item h4) (fun x w t hx => h3 n env x w t hx)
        (seqPre_clean .set o m vid ps aps c h1 h2)
    | ntuple vid fs oc c lp h1 h2 =>
      simp only [run]
      apply ntupleStep_clean o vid oc c lp _ _ h1
      intro ev hev
      obtain ⟨v, hv, rfl⟩ := List.mem_map.1 hev
      exact ih v (h2 v hv)
    | map vid kv vv ps aps c h1 h2 h3 h4 =>
      simp only [run]
      exact mapStep_clean o m vid ps aps c _ _ (ih kv h3) (ih vv h4) (fun x w t hx => h2 n env x w t hx) h1
    | record vid cfg vs h1 h2 =>
      simp only [run]
      apply recordStep_clean o m vid cfg _ _ h1
      intro ev hev
      obtain ⟨v, hv, rfl⟩ := List.mem_map.1 hev
      exact ih v (h2 v hv)
    | union vid vs h1 =>
      simp only [run]
      apply unionStep_clean
      intro ev hev
      obtain ⟨v, hv, rfl⟩ := List.mem_map.1 hev
      exact ih v (h1 v hv)
    | optional vid nv inner h1 h2 =>
      simp only [run]
      apply unionStep_clean
      intro ev hev
      simp only [List.mem_cons, List.mem_nil_iff, or_false] at hev
      rcases hev with rfl | rfl
      · exact ih nv h1
      · exact ih inner h2
    | maybe vid inner h1 =>
      simp only [run]
      exact maybeStep_clean vid _ (ih inner h1)
    | lazy vid ref =>
      simp only [run]
      exact ih (env ref) (henv ref)
    | knr vid inner h1 =>
      simp only [run]
      exact knrStep_clean _ (ih inner h1)
    | user vid inner h1 =>
      simp only [run]
      exact userStep_clean vid m _ (ih inner h1)

/-! ### the side conditions hold for the typed use of the built-in predicates -/

/-- item-count predicates never raise on a list.  (`UniqueItems` is not in this fragment: with a signalling Decimal NaN
    inside the items its comparisons raise `InvalidOperation` - finding D30.) -/
theorem listPreds_noRaise (ps : List Pred) (oid : Nat) (xs : List PyVal)
    (h : ∀ p ∈ ps, (∃ n, p.k = .minItems n) ∨ (∃ n, p.k = .maxItems n) ∨ (∃ n, p.k = .exactItemCount n) ∨
      ∃ f, p.k = .user f) : NoRaise ps (.list oid xs) := by
  intro p hp
  rcases h p hp with ⟨n, hn⟩ | ⟨n, hn⟩ | ⟨n, hn⟩ | ⟨f, hn⟩ <;> rw [hn] <;> exact ⟨_, rfl⟩

/-- a list validator without coercer and async predicates, with item-count predicates -/
theorem Safe_list_typed (o : Oracle) (m : Mode) (vid : Nat) (item : V) (ps : List Pred)
    (h : ∀ p ∈ ps, (∃ n, p.k = .minItems n) ∨ (∃ n, p.k = .maxItems n) ∨ (∃ n, p.k = .exactItemCount n) ∨
      ∃ f, p.k = .user f) (hi : Safe o m item) : Safe o m (.list vid item ps [] none) := by
  refine Safe.list vid item ps [] none (fun _ => rfl) ?_ hi
  intro x y t hg
  simp only [gate] at hg
  split at hg
  · rename_i hty
    cases hg
    obtain ⟨oid, xs, rfl⟩ : ∃ oid xs, x = .list oid xs := by
      cases x <;> simp [PyVal.ty] at hty
      exact ⟨_, _, rfl⟩
    refine ⟨?_, rfl⟩
    have := contPreds_spec m ps [] (.list oid xs) (listPreds_noRaise ps oid xs h) (by intro p hp; simp at hp)
    exact this.2
  · cases hg

/-- string validators with the string predicates -/
theorem strPreds_noRaise (ps : List Pred) (s : List Nat)
    (h : ∀ p ∈ ps, (∃ n, p.k = .minLength n) ∨ (∃ n, p.k = .maxLength n) ∨ (∃ n, p.k = .exactLength n) ∨
      (∃ q, p.k = .startsWith (.str q)) ∨ (∃ q, p.k = .endsWith (.str q)) ∨ p.k = .notBlank ∨
      (∃ r, p.k = .regex r) ∨ p.k = .email ∨ (∃ q, p.k = .equalTo (.str q)) ∨ (∃ vs, p.k = .choices vs) ∨
      ∃ f, p.k = .user f) : NoRaise ps (.str s) := by
  intro p hp
  rcases h p hp with ⟨n, hn⟩ | ⟨n, hn⟩ | ⟨n, hn⟩ | ⟨q, hn⟩ | ⟨q, hn⟩ | hn | ⟨r, hn⟩ | hn | ⟨q, hn⟩ | ⟨vs, hn⟩ | ⟨f, hn⟩ <;>
    rw [hn] <;> first | exact ⟨_, rfl⟩ | (simp [PredK.call, pyEqX, isSNaN, PyVal.unsub, hashable])

theorem Safe_str_typed (o : Oracle) (m : Mode) (vid : Nat) (ps : List Pred)
    (h : ∀ p ∈ ps, (∃ n, p.k = .minLength n) ∨ (∃ n, p.k = .maxLength n) ∨ (∃ n, p.k = .exactLength n) ∨
      (∃ q, p.k = .startsWith (.str q)) ∨ (∃ q, p.k = .endsWith (.str q)) ∨ p.k = .notBlank ∨
      (∃ r, p.k = .regex r) ∨ p.k = .email ∨ (∃ q, p.k = .equalTo (.str q)) ∨ (∃ vs, p.k = .choices vs) ∨
      ∃ f, p.k = .user f) : Safe o m (.scalar vid .str none [] ps []) := by
  refine Safe.scalar vid .str none [] ps [] (fun _ => rfl) ?_
  intro x y t hg
  simp only [gate] at hg
  split at hg
  · rename_i hty
    cases hg
    obtain ⟨s, rfl⟩ : ∃ s, x = .str s := by
      cases x <;> simp [PyVal.ty] at hty
      exact ⟨_, rfl⟩
    refine ⟨.str s, [], rfl, ?_⟩
    exact (contPreds_spec m ps [] (.str s) (strPreds_noRaise ps s h) (by intro p hp; simp at hp)).2
  · cases hg

/-! ### non-vacuity: a recursive definition, `T = Union[str-with-predicates, List[T]]` -/
example (o : Oracle) (m : Mode) :
    Safe o m (.union 1 [.scalar 2 .str none [] [⟨1, .minLength 1⟩, ⟨2, .notBlank⟩] [], .list 3 (.lazy 4 0) [⟨3, .maxItems 2⟩] [] none]) := by
  apply Safe.union
  intro v hv
  simp only [List.mem_cons, List.mem_nil_iff, or_false] at hv
  rcases hv with rfl | rfl
  · apply Safe_str_typed
    intro p hp
    simp only [List.mem_cons, List.mem_nil_iff, or_false] at hp
    rcases hp with rfl | rfl
    · exact Or.inl ⟨1, rfl⟩
    · exact Or.inr (Or.inr (Or.inr (Or.inr (Or.inr (Or.inl rfl)))))
  · apply Safe_list_typed
    · intro p hp
      simp only [List.mem_cons, List.mem_nil_iff, or_false] at hp
      subst hp
      exact Or.inr (Or.inl ⟨2, rfl⟩)
    · exact Safe.lazy 4 0

end Koda
