/-
  C11 for the container validators: each theorem takes what the children's schemas decide and concludes
  what the container's schema decides (`DecidesAt`: from some fuel on, the evaluation is `some b`).
-/
import KodaModel.Properties.C11

namespace Koda

/-- from fuel `N` on, the schema `j` evaluates to `b` on `x` -/
def DecidesAt (root : J) (ref : Option (List Nat)) (j : J) (N : Nat) (x : PyVal) (b : Bool) : Prop :=
  ∀ n, N ≤ n → evalSchema root ref n j x = some b

theorem DecidesAt.mono {root : J} {ref : Option (List Nat)} {j : J} {N M : Nat} {x : PyVal} {b : Bool}
    (h : DecidesAt root ref j N x b) (hm : N ≤ M) : DecidesAt root ref j M x b :=
  fun n hn => h n (Nat.le_trans hm hn)

/-! ### Optional: `nullable` -/

theorem typeFails_jset_ne (o : JObj) (k : List Nat) (v : J) (x : PyVal) (h : k ≠ kw "type") :
    typeFails (jset o k v) x = typeFails o x := by
  simp only [typeFails, jGet_jset_ne o k v "type" h]

theorem evalKw_nullable (ev : J → PyVal → Option Bool) (root : J) (ref : Option (List Nat)) (o' : JObj) (v : J) (x : PyVal) (b : Bool)
    (h : evalKw ev root ref o' (kw "nullable") v x = some b) : b = true := by
  cases v with
  | bool c =>
    have : evalKw ev root ref o' (kw "nullable") (.bool c) x = some true := rfl
    rw [this] at h
    exact (Option.some.inj h).symm
  | _ => exact absurd h (by intro h'; cases h')

theorem evalKw_nullable_true (ev : J → PyVal → Option Bool) (root : J) (ref : Option (List Nat)) (o' : JObj) (x : PyVal) :
    evalKw ev root ref o' (kw "nullable") (.bool true) x = some true := rfl

/-- adding `nullable: true` does not change what the other keywords say -/
theorem objEval_jset_nullable (root : J) (ref : Option (List Nat)) (n : Nat) (o : JObj) (x : PyVal) (b : Bool)
    (h : objEval root ref n o o x = some b) :
    objEval root ref n (jset o (kw "nullable") (.bool true)) (jset o (kw "nullable") (.bool true)) x = some b := by
  have hcongr : ∀ (l : JObj), allM (fun kv => evalKw (evalSchema root ref n) root ref (jset o (kw "nullable") (.bool true)) kv.1 kv.2 x) l
      = allM (fun kv => evalKw (evalSchema root ref n) root ref o kv.1 kv.2 x) l := by
    intro l
    apply allM_congr
    intro e _
    exact evalKw_congr _ root ref _ _ (jGet_jset_ne o _ _ "properties" (by decide))
      (jGet_jset_ne o _ _ "prefixItems" (by decide)) e.1 e.2 x
  simp only [objEval] at h ⊢
  rw [hcongr]
  cases hf : o.find? (fun q => q.1 == kw "nullable") with
  | none =>
    rw [jset_absent o _ _ ((find_none_hasKey o _).1 hf), allM_append, h]
    simp [allM, evalKw_nullable_true, OB_and_some]
  | some e =>
    obtain ⟨k0, vold⟩ := e
    have hmem := List.mem_of_find?_eq_some hf
    have hk := List.find?_some hf
    have hk0 : k0 = kw "nullable" := by simpa using hk
    obtain ⟨b0, hb0⟩ := allM_some_mem _ _ _ h _ hmem
    have hb0t : b0 = true := by
      subst hk0
      exact evalKw_nullable _ root ref o vold x b0 hb0
    subst hb0t
    have := allM_jset_replace (fun kv => evalKw (evalSchema root ref n) root ref o kv.1 kv.2 x) (kw "nullable") (.bool true)
      o k0 vold true true b hf hb0 (by subst hk0; exact evalKw_nullable_true _ root ref o x) h
    simpa using this

/-- **Optional (schema side)**: `{…inner…, "nullable": true}` accepts `null` and otherwise what the inner
    schema accepts -/
theorem C11_optional_schema (root : J) (ref : Option (List Nat)) (o : JObj) (N : Nat) (x : PyVal) (b : Bool)
    (hinner : isNoneV x = false → DecidesAt root ref (.obj o) N x b) :
    DecidesAt root ref (.obj (jset o (kw "nullable") (.bool true))) (max N 1) x (isNoneV x || b) := by
  intro n hn
  obtain ⟨m, rfl⟩ : ∃ m, n = m + 1 := ⟨n - 1, by omega⟩
  rw [evalSchema_obj]
  have hnull : isNullable (jset o (kw "nullable") (.bool true)) = true := by
    simp [isNullable, jGet_jset_eq]
  by_cases hx : isNoneV x = true
  · simp [hnull, hx]
  · have hx' : isNoneV x = false := by simpa using hx
    have hi := hinner hx' (m + 1) (by omega)
    rw [evalSchema_obj] at hi
    simp only [hx', Bool.and_false, Bool.false_eq_true, if_false, Bool.false_or] at hi ⊢
    rw [typeFails_jset_ne o _ _ x (by decide)]
    by_cases htf : typeFails o x = true
    · simp only [htf, if_true] at hi ⊢; exact hi
    · simp only [htf, Bool.false_eq_true, if_false] at hi ⊢
      exact objEval_jset_nullable root ref m o x b hi


/-! ### Union: `oneOf` -/

theorem evalKw_oneOf (ev : J → PyVal → Option Bool) (root : J) (ref : Option (List Nat)) (o' : JObj) (js : List J) (x : PyVal) :
    evalKw ev root ref o' (kw "oneOf") (.arr js) x = (countM (fun j => ev j x) js).map (fun n => n == 1) := rfl

/-- **Union (schema side)**: `oneOf` accepts iff *exactly one* variant's schema accepts -/
theorem C11_union_schema (root : J) (ref : Option (List Nat)) (items : List J) (g : J → Bool) (N : Nat) (x : PyVal)
    (h : ∀ j ∈ items, DecidesAt root ref j N x (g j)) :
    DecidesAt root ref (.obj [(kw "oneOf", .arr items)]) (N + 1) x (items.countP g == 1) := by
  intro n hn
  obtain ⟨m, rfl⟩ : ∃ m, n = m + 1 := ⟨n - 1, by omega⟩
  rw [evalSchema_obj]
  have h1 : isNullable [(kw "oneOf", J.arr items)] = false := by
    simp only [isNullable, jGet, List.find?_cons, List.find?_nil]
    have : (kw "oneOf" == kw "nullable") = false := by decide
    simp [this]
  have h2 : typeFails [(kw "oneOf", J.arr items)] x = false := by
    simp only [typeFails, jGet, List.find?_cons, List.find?_nil]
    have : (kw "oneOf" == kw "type") = false := by decide
    simp [this]
  simp only [h1, h2, Bool.false_and, Bool.false_eq_true, if_false, objEval, allM, evalKw_oneOf]
  rw [countM_eq_some _ g items (fun j hj => h j hj m (by omega))]
  simp [OB_and_some]

/-- when at most one variant accepts (no overlap), "exactly one" is "some" — which is what the
    validator does (finding D14 is the overlapping case) -/
theorem countP_one_of_atMostOne {α : Type} (g : α → Bool) (l : List α) (h : l.countP g ≤ 1) :
    (l.countP g == 1) = l.any g := by
  have h0 : l.countP g = 0 ∨ l.countP g = 1 := by omega
  rcases h0 with h0 | h0
  · have : l.any g = false := by
      rw [List.any_eq_false]
      intro a ha hg
      have := List.countP_pos_iff.2 ⟨a, ha, hg⟩
      omega
    simp [h0, this]
  · have : l.any g = true := by
      rw [List.any_eq_true]
      have hp : 0 < l.countP g := by omega
      obtain ⟨a, ha, hg⟩ := List.countP_pos_iff.1 hp
      exact ⟨a, ha, hg⟩
    simp [h0, this]

/-- D14 in the model: two overlapping variants -/
example : ([true, true].countP id == 1) = false ∧ [true, true].any id = true := by decide


/-! ### lists and uniform tuples: `items` + item-count / uniqueness keywords -/

def isListV : PyVal → Bool
  | .list _ _ => true
  | _ => false

def listItems : PyVal → List PyVal
  | .list _ xs => xs
  | _ => []

theorem typeOk_array (x : PyVal) : typeOk (kw "array") x = some (isListV x) := by
  cases x <;> rfl

theorem evalKw_items (ev : J → PyVal → Option Bool) (root : J) (ref : Option (List Nat)) (o' : JObj) (it : J) (oid : Nat) (xs : List PyVal) :
    evalKw ev root ref o' (kw "items") it (.list oid xs) = allM (ev it) (xs.drop (prefixLen o')) := rfl

theorem prefixLen_good (o' : JObj) (h : Good o') : prefixLen o' = 0 := by
  simp [prefixLen, h.2]

theorem propNames_good (o' : JObj) (h : Good o') : propNames o' = [] := by
  simp [propNames, h.1]

/-- the object built from a base by `predsSchema` keeps the base's `type`, is not nullable and stays
    `Good` when the base is -/
theorem predsSchema_frame (pr : Printer) (base : JObj) (ps : List Pred) (o : JObj) (h : predsSchema pr base ps = .ok o) :
    jGet o "type" = jGet base "type" ∧ jGet o "nullable" = jGet base "nullable" ∧
    jGet o "properties" = jGet base "properties" ∧ jGet o "prefixItems" = jGet base "prefixItems" := by
  refine ⟨?_, ?_, ?_, ?_⟩
  · exact predsSchema_jGet pr "type" (by decide) ps _ o (fun p _ po hpo => (predSchema_keys pr p.k po hpo).1) h
  · exact predsSchema_jGet pr "nullable" (by decide) ps _ o (fun p _ po hpo => (predSchema_keys pr p.k po hpo).2.1) h
  · exact predsSchema_jGet pr "properties" (by decide) ps _ o (fun p _ po hpo => (predSchema_keys pr p.k po hpo).2.2.2.2.1) h
  · exact predsSchema_jGet pr "prefixItems" (by decide) ps _ o (fun p _ po hpo => (predSchema_keys pr p.k po hpo).2.2.2.2.2) h

/-- **List / uniform tuple (schema side)**: `{"type": "array", "items": it, …predicates…}` accepts `x` iff
    `x` is an array, every element satisfies `it`, and every predicate holds -/
theorem C11_list_schema (pr : Printer) (root : J) (ref : Option (List Nat)) (it : J) (ps : List Pred) (o : JObj)
    (hps : predsSchema pr [(kw "type", .str (kw "array")), (kw "items", it)] ps = .ok o) (x : PyVal)
    (a : PyVal → Bool) (N : Nat)
    (hitems : ∀ y ∈ listItems x, DecidesAt root ref it N y (a y))
    (hp : isListV x = true → ∀ p ∈ ps, PredOK pr root ref p.k x) :
    DecidesAt root ref (.obj o) (max N 1 + 1) x
      (isListV x && ((listItems x).all a && ps.all (fun p => holds p.k x))) := by
  intro n hn
  obtain ⟨m, rfl⟩ : ∃ m, n = m + 1 := ⟨n - 1, by omega⟩
  obtain ⟨f1, f2, f3, f4⟩ := predsSchema_frame pr _ ps o hps
  have hty : jGet o "type" = some (.str (kw "array")) := by rw [f1]; rfl
  have hnull : isNullable o = false := by
    have : jGet o "nullable" = none := by rw [f2]; rfl
    simp [isNullable, this]
  have hgood : Good o := ⟨by rw [f3]; rfl, by rw [f4]; rfl⟩
  rw [evalSchema_obj]
  simp only [hnull, Bool.false_and, Bool.false_eq_true, if_false]
  by_cases hl : isListV x = true
  · have htf : typeFails o x = false := by simp [typeFails, hty, typeOk_array, hl]
    simp only [htf, Bool.false_eq_true, if_false, hl, Bool.true_and]
    obtain ⟨oid, xs, rfl⟩ : ∃ oid xs, x = .list oid xs := by
      cases x <;> simp [isListV] at hl
      exact ⟨_, _, rfl⟩
    have hbase : AccSem root ref (max N 1) [(kw "type", .str (kw "array")), (kw "items", it)] (xs.all a) (.list oid xs) := by
      refine ⟨by omega, ?_, by simp only [hasKey, List.any_cons, List.any_nil]; decide, ?_⟩
      · intro n hn o' hg
        simp only [objEval, allM]
        have h1 : evalKw (evalSchema root ref n) root ref o' (kw "type") (.str (kw "array")) (.list oid xs) = some true := rfl
        rw [h1, evalKw_items, prefixLen_good o' hg, List.drop_zero,
          allM_eq_some_all _ a xs (fun y hy => hitems y hy n (by omega))]
        simp [OB_and_some]
      · intro e he hk
        simp at he
        rcases he with rfl | rfl <;> exact absurd hk (by simp only []; decide)
    have hacc := AccSem_preds pr root ref _ _ ps _ o _ hbase (hp hl) hps
    exact hacc.sem m (by omega) o hgood
  · have hl' : isListV x = false := by simpa using hl
    have htf : typeFails o x = true := by simp [typeFails, hty, typeOk_array, hl']
    simp [htf, hl']


theorem kw_minItems (ev : J → PyVal → Option Bool) (root : J) (ref : Option (List Nat)) (o' : JObj) (n : Int) (oid : Nat) (xs : List PyVal) :
    evalKw ev root ref o' (kw "minItems") (.int n) (.list oid xs) = some (decide ((xs.length : Int) ≥ n)) := rfl
theorem kw_maxItems (ev : J → PyVal → Option Bool) (root : J) (ref : Option (List Nat)) (o' : JObj) (n : Int) (oid : Nat) (xs : List PyVal) :
    evalKw ev root ref o' (kw "maxItems") (.int n) (.list oid xs) = some (decide ((xs.length : Int) ≤ n)) := rfl
theorem kw_uniqueItems (ev : J → PyVal → Option Bool) (root : J) (ref : Option (List Nat)) (o' : JObj) (oid : Nat) (xs : List PyVal) :
    evalKw ev root ref o' (kw "uniqueItems") (.bool true) (.list oid xs) = some (jsonUnique xs) := rfl

theorem PredOK_minItems (pr : Printer) (root : J) (ref : Option (List Nat)) (n : Int) (oid : Nat) (xs : List PyVal) :
    PredOK pr root ref (.minItems n) (.list oid xs) := by
  apply PredOK_of_sem
  intro po hpo ev o'
  simp only [predSchema, Except.ok.injEq] at hpo
  subst hpo
  rw [objEval_one ev root ref o' _ _ _ _ (kw_minItems ev root ref o' n oid xs),
    holds_of_call (.minItems n) (.list oid xs) (decide ((xs.length : Int) ≥ n)) rfl]

theorem PredOK_maxItems (pr : Printer) (root : J) (ref : Option (List Nat)) (n : Int) (oid : Nat) (xs : List PyVal) :
    PredOK pr root ref (.maxItems n) (.list oid xs) := by
  apply PredOK_of_sem
  intro po hpo ev o'
  simp only [predSchema, Except.ok.injEq] at hpo
  subst hpo
  rw [objEval_one ev root ref o' _ _ _ _ (kw_maxItems ev root ref o' n oid xs),
    holds_of_call (.maxItems n) (.list oid xs) (decide ((xs.length : Int) ≤ n)) rfl]

/-- `UniqueItems`, relative to the agreement of JSON equality with the predicate's typed equality on
    the elements at hand (true for elements of one scalar kind — strings, ints, floats, booleans —,
    which is what C11's fragment has under a uniqueness predicate) -/
theorem PredOK_uniqueItems_partial (pr : Printer) (root : J) (ref : Option (List Nat)) (oid : Nat) (xs : List PyVal)
    (hagree : jsonUnique xs = uniqueLoop xs [] []) (hs : snanInsideL xs = false) :
    PredOK pr root ref .uniqueItems (.list oid xs) := by
  apply PredOK_of_sem
  intro po hpo ev o'
  simp only [predSchema, Except.ok.injEq] at hpo
  subst hpo
  rw [objEval_one ev root ref o' _ _ _ _ (kw_uniqueItems ev root ref o' oid xs),
    holds_of_call .uniqueItems (.list oid xs) (uniqueLoop xs [] []) (by simp [PredK.call, pyIter, hs]), hagree]


/-! ### n-tuples: `prefixItems` + `minItems` = `maxItems` = n -/

def ntupleObj (items : List J) : JObj :=
  [(kw "description", .str (kw "a " ++ natText items.length ++ kw "-tuple of the fields in \"prefixItems\"")),
   (kw "type", .str (kw "array")), (kw "additionalItems", .bool false),
   (kw "maxItems", .int items.length), (kw "minItems", .int items.length)] ++
  (if items.isEmpty then [] else [(kw "prefixItems", .arr items)])

theorem evalKw_prefixItems (ev : J → PyVal → Option Bool) (root : J) (ref : Option (List Nat)) (o' : JObj) (js : List J) (oid : Nat) (xs : List PyVal) :
    evalKw ev root ref o' (kw "prefixItems") (.arr js) (.list oid xs) = allM (fun p => ev p.1 p.2) (js.zip xs) := rfl

theorem ntuple_objEval (root : J) (ref : Option (List Nat)) (items : List J) (g : J → PyVal → Bool) (m : Nat)
    (o' : JObj) (oid : Nat) (xs : List PyVal)
    (hzip : allM (fun p => evalSchema root ref m p.1 p.2) (items.zip xs) = some ((items.zip xs).all (fun p => g p.1 p.2))) :
    objEval root ref m o' (ntupleObj items) (.list oid xs) =
      some (decide (xs.length = items.length) && (items.zip xs).all (fun p => g p.1 p.2)) := by
  simp only [objEval, ntupleObj, allM_append]
  have hfix : allM (fun kv => evalKw (evalSchema root ref m) root ref o' kv.1 kv.2 (PyVal.list oid xs))
      [(kw "description", .str (kw "a " ++ natText items.length ++ kw "-tuple of the fields in \"prefixItems\"")),
       (kw "type", .str (kw "array")), (kw "additionalItems", .bool false),
       (kw "maxItems", .int items.length), (kw "minItems", .int items.length)] =
      some (decide ((xs.length : Int) ≤ items.length) && decide ((xs.length : Int) ≥ items.length)) := by
    simp only [allM]
    have e1 : evalKw (evalSchema root ref m) root ref o' (kw "description")
        (.str (kw "a " ++ natText items.length ++ kw "-tuple of the fields in \"prefixItems\"")) (PyVal.list oid xs) = some true := rfl
    have e2 : evalKw (evalSchema root ref m) root ref o' (kw "type") (.str (kw "array")) (PyVal.list oid xs) = some true := rfl
    have e3 : evalKw (evalSchema root ref m) root ref o' (kw "additionalItems") (.bool false) (PyVal.list oid xs) = some true := rfl
    rw [e1, e2, e3, kw_maxItems, kw_minItems]
    simp [OB_and_some]
  rw [hfix]
  have hlen : (decide ((xs.length : Int) ≤ items.length) && decide ((xs.length : Int) ≥ items.length)) = decide (xs.length = items.length) := by
    by_cases he : xs.length = items.length
    · simp [he]
    · simp only [he, decide_false]
      by_cases h1 : (xs.length : Int) ≤ items.length
      · have : ¬ (xs.length : Int) ≥ items.length := by omega
        simp [this]
      · simp [h1]
  rw [hlen]
  split
  · rename_i hemp
    have : items = [] := by simpa using hemp
    subst this
    simp [allM, OB_and_some]
  · simp only [allM, evalKw_prefixItems, hzip, OB_and_some, Bool.and_true]

/-- **n-tuple (schema side)**: accepts `x` iff it is an array of exactly n elements, the i-th satisfying
    the i-th field's schema -/
theorem C11_ntuple_schema (root : J) (ref : Option (List Nat)) (items : List J) (g : J → PyVal → Bool) (N : Nat) (x : PyVal)
    (h : ∀ p ∈ items.zip (listItems x), DecidesAt root ref p.1 N p.2 (g p.1 p.2)) :
    DecidesAt root ref (.obj (ntupleObj items)) (N + 1) x
      (isListV x && (decide ((listItems x).length = items.length) && (items.zip (listItems x)).all (fun p => g p.1 p.2))) := by
  intro n hn
  obtain ⟨m, rfl⟩ : ∃ m, n = m + 1 := ⟨n - 1, by omega⟩
  rw [evalSchema_obj]
  have hnull : isNullable (ntupleObj items) = false := by
    unfold ntupleObj; cases items.isEmpty <;> rfl
  have hty : jGet (ntupleObj items) "type" = some (.str (kw "array")) := by
    unfold ntupleObj; cases items.isEmpty <;> rfl
  simp only [hnull, Bool.false_and, Bool.false_eq_true, if_false]
  by_cases hl : isListV x = true
  · have htf : typeFails (ntupleObj items) x = false := by simp [typeFails, hty, typeOk_array, hl]
    simp only [htf, Bool.false_eq_true, if_false, hl, Bool.true_and]
    obtain ⟨oid, xs, rfl⟩ : ∃ oid xs, x = .list oid xs := by
      cases x <;> simp [isListV] at hl
      exact ⟨_, _, rfl⟩
    simp only [listItems] at h ⊢
    exact ntuple_objEval root ref items g m _ oid xs (allM_eq_some_all _ _ _ (fun p hp => h p hp m (by omega)))
  · have hl' : isListV x = false := by simpa using hl
    have htf : typeFails (ntupleObj items) x = true := by simp [typeFails, hty, typeOk_array, hl']
    simp [htf, hl']

end Koda
