/-
  C08 / C09 — `validate_signature`: the body runs iff every checked supplied argument is accepted;
  otherwise InvalidArgsError keyed by exactly the failing names; the body receives the payloads of the
  checked arguments and the caller's own values for the others; the return value is checked, never
  replaced.

  The theorems are about `wrapCall` for an arbitrary validator evaluator `ev` (any fuel, any
  environment), an arbitrary body and an arbitrary call; `CleanCall` says that no validator raised or ran
  out of fuel on this call (C01's business), which is the situation both properties describe.
-/
import KodaModel.Signature

namespace Koda

/-- all supplied arguments with their validators -/
def slots (s : SigM) (c : Call) : List Slot := posSlots s c.args ++ kwSlots s c.kwargs

def SlotRes.isPass : SlotRes → Bool
  | .pass _ => true
  | _ => false

def SlotRes.isFail : SlotRes → Bool
  | .fail => true
  | _ => false

/-- every validator that ran on this call returned Valid or Invalid -/
def CleanCall (ev : V → PyVal → Res) (s : SigM) (c : Call) : Prop :=
  ∀ sl ∈ slots s c, (checkSlot ev sl).isPass = true ∨ (checkSlot ev sl).isFail = true

/-- what a slot delivers when it passes -/
def delivered (ev : V → PyVal → Res) (sl : Slot) : PyVal :=
  match checkSlot ev sl with
  | .pass w => w
  | _ => sl.x

/-! ### list lemmas -/

theorem findSome_raised_none (l : List SlotRes) (h : ∀ r ∈ l, r.isPass = true ∨ r.isFail = true) :
    l.findSome? SlotRes.raisedOf = none := by
  induction l with
  | nil => rfl
  | cons r rs ih =>
    have hr := h r (by simp)
    have := ih (fun r' hr' => h r' (by simp [hr']))
    cases r <;> simp_all [SlotRes.isPass, SlotRes.isFail, List.findSome?, SlotRes.raisedOf]

theorem any_fuel_false (l : List SlotRes) (h : ∀ r ∈ l, r.isPass = true ∨ r.isFail = true) :
    l.any SlotRes.isFuel = false := by
  induction l with
  | nil => rfl
  | cons r rs ih =>
    have hr := h r (by simp)
    have := ih (fun r' hr' => h r' (by simp [hr']))
    cases r <;> simp_all [SlotRes.isPass, SlotRes.isFail, SlotRes.isFuel]

/-- the keys reported: those of the failing slots -/
def failingKeys (ev : V → PyVal → Res) (sls : List Slot) : List String :=
  (sls.zip (sls.map (checkSlot ev))).filterMap failKey

theorem mem_failingKeys (ev : V → PyVal → Res) (sls : List Slot) (k : String) :
    k ∈ failingKeys ev sls ↔ ∃ sl ∈ sls, sl.key = k ∧ checkSlot ev sl = .fail := by
  induction sls with
  | nil => simp [failingKeys]
  | cons sl rest ih =>
    simp only [failingKeys, List.map_cons, List.zip_cons_cons, List.filterMap_cons] at ih ⊢
    cases hc : checkSlot ev sl with
    | fail =>
      simp only [failKey, List.mem_cons, ih]
      constructor
      · intro h
        cases h with
        | inl h => exact ⟨sl, Or.inl rfl, h.symm, hc⟩
        | inr h =>
          obtain ⟨sl', h1, h2, h3⟩ := h
          exact ⟨sl', Or.inr h1, h2, h3⟩
      · intro ⟨sl', h1, h2, h3⟩
        cases h1 with
        | inl h1 => subst h1; exact Or.inl h2.symm
        | inr h1 => exact Or.inr ⟨sl', h1, h2, h3⟩
    | pass w =>
      simp only [failKey, ih, List.mem_cons]
      constructor
      · intro ⟨sl', h1, h2, h3⟩; exact ⟨sl', Or.inr h1, h2, h3⟩
      · intro ⟨sl', h1, h2, h3⟩
        cases h1 with
        | inl h1 => subst h1; rw [hc] at h3; cases h3
        | inr h1 => exact ⟨sl', h1, h2, h3⟩
    | raised e =>
      simp only [failKey, ih, List.mem_cons]
      constructor
      · intro ⟨sl', h1, h2, h3⟩; exact ⟨sl', Or.inr h1, h2, h3⟩
      · intro ⟨sl', h1, h2, h3⟩
        cases h1 with
        | inl h1 => subst h1; rw [hc] at h3; cases h3
        | inr h1 => exact ⟨sl', h1, h2, h3⟩
    | fuel =>
      simp only [failKey, ih, List.mem_cons]
      constructor
      · intro ⟨sl', h1, h2, h3⟩; exact ⟨sl', Or.inr h1, h2, h3⟩
      · intro ⟨sl', h1, h2, h3⟩
        cases h1 with
        | inl h1 => subst h1; rw [hc] at h3; cases h3
        | inr h1 => exact ⟨sl', h1, h2, h3⟩

theorem failingKeys_nil_iff (ev : V → PyVal → Res) (sls : List Slot) :
    failingKeys ev sls = [] ↔ ∀ sl ∈ sls, checkSlot ev sl ≠ .fail := by
  constructor
  · intro h sl hsl hf
    have : sl.key ∈ failingKeys ev sls := (mem_failingKeys ev sls sl.key).2 ⟨sl, hsl, rfl, hf⟩
    simp [h] at this
  · intro h
    cases hk : failingKeys ev sls with
    | nil => rfl
    | cons k ks =>
      have : k ∈ failingKeys ev sls := by simp [hk]
      obtain ⟨sl, hsl, _, hf⟩ := (mem_failingKeys ev sls k).1 this
      exact absurd hf (h sl hsl)

theorem mem_dedupS (l : List String) (k : String) : k ∈ dedupS l ↔ k ∈ l := by
  induction l with
  | nil => simp [dedupS]
  | cons a as ih =>
    simp only [dedupS]
    split
    · rename_i h
      simp only [List.contains_iff_mem] at h
      constructor
      · intro hk; exact List.mem_cons_of_mem _ (ih.1 hk)
      · intro hk
        rcases List.mem_cons.1 hk with rfl | hk
        · exact h
        · exact ih.2 hk
    · simp [ih]

theorem wrap_failing_eq (ev : V → PyVal → Res) (s : SigM) (c : Call) :
    ((posSlots s c.args ++ kwSlots s c.kwargs).zip
      ((posSlots s c.args).map (checkSlot ev) ++ (kwSlots s c.kwargs).map (checkSlot ev))).filterMap failKey
      = failingKeys ev (slots s c) := by
  simp [failingKeys, slots]

theorem all_clean (ev : V → PyVal → Res) (s : SigM) (c : Call) (hc : CleanCall ev s c) :
    ∀ r ∈ (posSlots s c.args).map (checkSlot ev) ++ (kwSlots s c.kwargs).map (checkSlot ev),
      r.isPass = true ∨ r.isFail = true := by
  intro r hr
  rw [← List.map_append] at hr
  obtain ⟨sl, hsl, rfl⟩ := List.mem_map.1 hr
  exact hc sl hsl

/-! ### C08 -/

/-- the body does not run and InvalidArgsError lists exactly the names of the failing arguments
    (the keyword itself for a `**kwargs` entry, the parameter's name otherwise) -/
theorem C08_invalid_args (ev : V → PyVal → Res) (s : SigM) (body : List PyVal → List (String × PyVal) → BodyRes)
    (c : Call) (hc : CleanCall ev s c) (hf : ∃ sl ∈ slots s c, checkSlot ev sl = .fail) :
    ∃ keys, wrapCall ev s body c = (.invalidArgs keys, none) ∧
      ∀ k, k ∈ keys ↔ ∃ sl ∈ slots s c, sl.key = k ∧ checkSlot ev sl = .fail := by
  have hall := all_clean ev s c hc
  have hne : failingKeys ev (slots s c) ≠ [] := by
    intro h
    obtain ⟨sl, hsl, hfl⟩ := hf
    exact (failingKeys_nil_iff ev _).1 h sl hsl hfl
  refine ⟨(dedupS (failingKeys ev (slots s c)).reverse).reverse, ?_, ?_⟩
  · unfold wrapCall
    dsimp only
    rw [findSome_raised_none _ hall, any_fuel_false _ hall, wrap_failing_eq]
    simp [hne]
  · intro k
    simp only [List.mem_reverse, mem_dedupS]
    exact mem_failingKeys ev _ k

/-- when every supplied argument passes, the call is the body run on `delivered` for each argument —
    the validator's payload where the argument is checked, the caller's value where it is not —
    followed by the check of the return value -/
theorem C08_all_pass (ev : V → PyVal → Res) (s : SigM) (body : List PyVal → List (String × PyVal) → BodyRes)
    (c : Call) (hp : ∀ sl ∈ slots s c, (checkSlot ev sl).isPass = true) :
    wrapCall ev s body c =
      finishCall ev s body ((posSlots s c.args).map (delivered ev))
        ((kwSlots s c.kwargs).map (fun sl => (sl.key, delivered ev sl))) := by
  have hall := all_clean ev s c (fun sl h => Or.inl (hp sl h))
  have hnil : failingKeys ev (slots s c) = [] := by
    rw [failingKeys_nil_iff]
    intro sl hsl hf
    have := hp sl hsl
    simp [hf, SlotRes.isPass] at this
  have hargs : ∀ (l : List Slot), (∀ sl ∈ l, (checkSlot ev sl).isPass = true) →
      (l.map (checkSlot ev)).filterMap SlotRes.passVal = l.map (delivered ev) := by
    intro l hl
    induction l with
    | nil => rfl
    | cons sl rest ih =>
      have h1 := hl sl (by simp)
      have h2 := ih (fun sl' h' => hl sl' (by simp [h']))
      simp only [List.map_cons, List.filterMap_cons]
      cases hcs : checkSlot ev sl <;> simp_all [SlotRes.isPass, delivered, SlotRes.passVal]
  have hkw : ∀ (l : List Slot), (∀ sl ∈ l, (checkSlot ev sl).isPass = true) →
      (l.zip (l.map (checkSlot ev))).filterMap passKw = l.map (fun sl => (sl.key, delivered ev sl)) := by
    intro l hl
    induction l with
    | nil => rfl
    | cons sl rest ih =>
      have h1 := hl sl (by simp)
      have h2 := ih (fun sl' h' => hl sl' (by simp [h']))
      simp only [List.map_cons, List.zip_cons_cons, List.filterMap_cons]
      cases hcs : checkSlot ev sl <;> simp_all [SlotRes.isPass, delivered, passKw]
  have hA := hargs (posSlots s c.args) (fun sl h => hp sl (by simp [slots, h]))
  have hK := hkw (kwSlots s c.kwargs) (fun sl h => hp sl (by simp [slots, h]))
  unfold wrapCall
  dsimp only
  rw [findSome_raised_none _ hall, any_fuel_false _ hall, wrap_failing_eq, hnil, hA, hK]
  simp

/-- the body ran (it was given arguments) in every outcome of `finishCall` -/
theorem finishCall_ran (ev : V → PyVal → Res) (s : SigM) (body : List PyVal → List (String × PyVal) → BodyRes)
    (a : List PyVal) (k : List (String × PyVal)) : (finishCall ev s body a k).2 = some (a, k) := by
  unfold finishCall
  cases body a k with
  | exc id => rfl
  | ret v =>
    cases s.ret with
    | none => rfl
    | some rv =>
      dsimp only
      cases ev rv v with
      | none => rfl
      | some r =>
        obtain ⟨o, t⟩ := r
        cases o <;> rfl

theorem C08_body_runs (ev : V → PyVal → Res) (s : SigM) (body : List PyVal → List (String × PyVal) → BodyRes)
    (c : Call) (hp : ∀ sl ∈ slots s c, (checkSlot ev sl).isPass = true) :
    (wrapCall ev s body c).2 =
      some ((posSlots s c.args).map (delivered ev), (kwSlots s c.kwargs).map (fun sl => (sl.key, delivered ev sl))) := by
  rw [C08_all_pass ev s body c hp, finishCall_ran]

/-- **C08**: under `CleanCall`, the body runs iff every supplied argument that is checked is accepted -/
theorem C08_body_iff (ev : V → PyVal → Res) (s : SigM) (body : List PyVal → List (String × PyVal) → BodyRes)
    (c : Call) (hc : CleanCall ev s c) :
    (wrapCall ev s body c).2.isSome = true ↔ ∀ sl ∈ slots s c, (checkSlot ev sl).isPass = true := by
  constructor
  · intro h sl hsl
    rcases hc sl hsl with hp | hf
    · exact hp
    · exfalso
      have hfail : checkSlot ev sl = .fail := by
        cases hcs : checkSlot ev sl <;> simp_all [SlotRes.isFail]
      obtain ⟨keys, hw, _⟩ := C08_invalid_args ev s body c hc ⟨sl, hsl, hfail⟩
      simp [hw] at h
  · intro h
    rw [C08_body_runs ev s body c h]
    rfl

/-- an unchecked argument (no annotation / override, or ignored) always passes, untouched -/
theorem C09_unchecked_untouched (ev : V → PyVal → Res) (sl : Slot) (h : sl.v = none) :
    checkSlot ev sl = .pass sl.x ∧ delivered ev sl = sl.x := by
  simp [checkSlot, delivered, h]

/-- a checked argument that passes is delivered as the validator's payload -/
theorem C09_checked_payload (ev : V → PyVal → Res) (sl : Slot) (v : V) (w : PyVal) (t : List Ev)
    (h : sl.v = some v) (hv : ev v sl.x = some (.valid w, t)) :
    checkSlot ev sl = .pass w ∧ delivered ev sl = w := by
  simp [checkSlot, delivered, h, hv]

/-- a slot passes iff it is unchecked or its validator accepts -/
theorem slot_pass_iff (ev : V → PyVal → Res) (sl : Slot) :
    (checkSlot ev sl).isPass = true ↔ sl.v = none ∨ ∃ v w t, sl.v = some v ∧ ev v sl.x = some (.valid w, t) := by
  unfold checkSlot
  cases hv : sl.v with
  | none => simp [SlotRes.isPass]
  | some v =>
    cases he : ev v sl.x with
    | none => simp [SlotRes.isPass, he]
    | some r =>
      obtain ⟨o, t⟩ := r
      cases o <;> simp [SlotRes.isPass, he]

/-- **the return clause** (C08 / C09): the caller receives the body's own value or exception; a checked
    return value is only ever *checked* (InvalidReturnError iff rejected), never replaced -/
theorem C08_return (ev : V → PyVal → Res) (s : SigM) (body : List PyVal → List (String × PyVal) → BodyRes)
    (a : List PyVal) (k : List (String × PyVal)) :
    (finishCall ev s body a k).1 =
      match body a k with
      | .exc id => .bodyRaised id
      | .ret v =>
        match s.ret with
        | none => .returned v
        | some rv =>
          match ev rv v with
          | none => .fuel
          | some (.valid _, _) => .returned v
          | some (.invalid _, _) => .invalidReturn
          | some (.raised e, _) => .validationRaised e := by
  unfold finishCall
  cases body a k with
  | exc id => rfl
  | ret v =>
    cases s.ret with
    | none => rfl
    | some rv =>
      dsimp only
      cases ev rv v with
      | none => rfl
      | some r =>
        obtain ⟨o, t⟩ := r
        cases o <;> rfl

/-- in particular: a body that returns `v` and whose return value is accepted (or unchecked) gives the
    caller `v` itself, and a rejected one gives InvalidReturnError -/
theorem C09_transparent_return (ev : V → PyVal → Res) (s : SigM) (body : List PyVal → List (String × PyVal) → BodyRes)
    (a : List PyVal) (k : List (String × PyVal)) (v : PyVal) (hb : body a k = .ret v) :
    (s.ret = none → (finishCall ev s body a k).1 = .returned v) ∧
    (∀ rv w t, s.ret = some rv → ev rv v = some (.valid w, t) → (finishCall ev s body a k).1 = .returned v) ∧
    (∀ rv e t, s.ret = some rv → ev rv v = some (.invalid e, t) → (finishCall ev s body a k).1 = .invalidReturn) := by
  refine ⟨?_, ?_, ?_⟩
  · intro h; simp [finishCall, hb, h]
  · intro rv w t h he; simp [finishCall, hb, h, he]
  · intro rv e t h he; simp [finishCall, hb, h, he]

/-- a body that raises has its exception propagated unchanged -/
theorem C08_body_exception (ev : V → PyVal → Res) (s : SigM) (body : List PyVal → List (String × PyVal) → BodyRes)
    (a : List PyVal) (k : List (String × PyVal)) (id : Nat) (hb : body a k = .exc id) :
    (finishCall ev s body a k).1 = .bodyRaised id := by
  simp [finishCall, hb]

/-! ### which validator checks which argument (the slot assignment) -/

/-- a keyword that names no keyword-addressable parameter (in particular: the name of a positional-only
    parameter) is a `**kwargs` entry -/
theorem kwSlot_not_byKeyword (s : SigM) (k : String) (x : PyVal)
    (h : ∀ p ∈ s.params, p.name = k → p.kind ≠ .posOrKw ∧ p.kind ≠ .kwOnly) :
    kwSlots s [(k, x)] =
      [match s.varKw with
       | some p => if s.ignoredKw.contains k then ⟨k, none, x⟩ else ⟨k, p.v, x⟩
       | none => ⟨k, none, x⟩] := by
  have : s.byKeyword.find? (fun p => p.name = k) = none := by
    rw [List.find?_eq_none]
    intro p hp
    simp only [SigM.byKeyword, List.mem_filter, decide_eq_true_eq] at hp
    intro hk
    have hk' : p.name = k := by simpa using hk
    have := h p hp.1 hk'
    rcases hp.2 with h2 | h2
    · exact this.1 h2
    · exact this.2 h2
  simp only [kwSlots, List.map_cons, List.map_nil, this]
  cases s.varKw <;> rfl

/-- positional arguments beyond the declared positions are all checked by the `*args` validator -/
theorem posSlot_overflow (s : SigM) (args : List PyVal) (i : Nat) (x : PyVal) (p : Param)
    (hi : s.positional.length ≤ i) (hx : args[i]? = some x) (hv : s.varPos = some p) :
    (posSlots s args)[i]? = some ⟨p.name, p.v, x⟩ := by
  have : s.positional[i]? = none := by simp [hi]
  simp [posSlots, List.getElem?_zipIdx, hx, this, hv]

/-! ### non-vacuity -/
example : (wrapCall (fun _ x => some (.valid x, [])) ⟨[⟨"a", .posOrKw, some (.always 1)⟩], none, []⟩
    (fun a _ => .ret (a.headD .none)) ⟨[.int 3], []⟩).1 = (CallOut.returned (.int 3) : CallOut) := by
  rfl

end Koda
