/-
  C20 — Caching wrappers are transparent over any history of calls.
-/
import KodaModel.Cache

namespace Koda

/-- the wrapped validator respects the store's key equivalence and does not depend on the entry
    point (true of every validator without async-only checks, by C06) -/
def Respects (keq : PyVal → PyVal → Bool) (bare : Mode → PyVal → Out) : Prop :=
  ∀ x y m m', keq x y = true → bare m x = bare m' y

/-- store ⊆ graph of the bare validator -/
def StoreOK (keq : PyVal → PyVal → Bool) (bare : Mode → PyVal → Out) (s : Store) : Prop :=
  ∀ p ∈ s, ∀ x m, keq p.1 x = true → p.2 = bare m x

theorem Store.get_ok {keq bare s} (h : StoreOK keq bare s) (x : PyVal) (m : Mode) (r : Out)
    (hg : Store.get keq s x = some r) : r = bare m x := by
  unfold Store.get at hg
  split at hg
  · rename_i p hp
    simp only [Option.some.injEq] at hg
    subst hg
    exact h p (List.mem_of_find?_eq_some hp) x m (by simpa using List.find?_some hp)
  · simp at hg

/-- one step keeps the invariant and returns what the bare validator returns -/
theorem Cache.step_ok {keq bare} (hr : Respects keq bare) (hrefl : ∀ x, keq x x = true) {s : Store}
    (h : StoreOK keq bare s) (m : Mode) (x : PyVal) :
    (Cache.step keq bare s m x).2.1 = bare m x ∧ StoreOK keq bare (Cache.step keq bare s m x).1 := by
  unfold Cache.step
  cases hg : Store.get keq s x with
  | some r => exact ⟨Store.get_ok h x m r hg, h⟩
  | none =>
    simp only
    split
    · rename_i e he; exact ⟨he.symm, h⟩
    · refine ⟨rfl, ?_⟩
      intro p hp y m' hk
      simp only [Store.set, List.mem_cons] at hp
      rcases hp with rfl | hp
      · exact hr x y m m' hk
      · exact h p hp y m' hk

/-- **transparency over every history**: for every sequence of sync and async calls, each call
    returns exactly what the wrapped validator returns for that input -/
theorem C20_transparent {keq bare} (hr : Respects keq bare) (hrefl : ∀ x, keq x x = true) :
    ∀ (hist : List (Mode × PyVal)) (s : Store), StoreOK keq bare s →
      (Cache.runHist keq bare s hist).2.map Prod.fst = hist.map (fun c => bare c.1 c.2) := by
  intro hist
  induction hist with
  | nil => intro s _; rfl
  | cons c rest ih =>
    intro s hs
    obtain ⟨m, x⟩ := c
    obtain ⟨h1, h2⟩ := Cache.step_ok hr hrefl hs m x
    simp only [Cache.runHist, List.map_cons, h1, ih _ h2]

/-- starting from the empty store -/
theorem C20_transparent_empty {keq bare} (hr : Respects keq bare) (hrefl : ∀ x, keq x x = true)
    (hist : List (Mode × PyVal)) :
    (Cache.runHist keq bare [] hist).2.map Prod.fst = hist.map (fun c => bare c.1 c.2) :=
  C20_transparent hr hrefl hist [] (by intro p hp; simp at hp)

/-- **runs once per miss, never on a hit; a miss stores exactly the pair it computed** -/
theorem C20_runs (keq : PyVal → PyVal → Bool) (bare : Mode → PyVal → Out) (s : Store) (m : Mode) (x : PyVal) :
    (Store.get keq s x = none → (∀ e, bare m x ≠ .raised e) →
        (Cache.step keq bare s m x).2.2 = [.get m, .run m, .set m] ∧
        (Cache.step keq bare s m x).1 = (x, bare m x) :: s) ∧
    (∀ r, Store.get keq s x = some r →
        (Cache.step keq bare s m x).2.2 = [.get m] ∧ (Cache.step keq bare s m x).1 = s ∧
        (Cache.step keq bare s m x).2.1 = r) := by
  constructor
  · intro h hne
    unfold Cache.step
    simp only [h]
    cases hb : bare m x with
    | raised e => exact absurd hb (hne e)
    | valid w => simp [Store.set]
    | invalid e => simp [Store.set]
  · intro r h; simp [Cache.step, h]

/-- **Invalid results are cached like Valid ones**: after any call on `x`, a second call on an
    equivalent input is a hit, whatever the outcome was -/
theorem C20_second_call_hits (keq : PyVal → PyVal → Bool) (hrefl : ∀ x, keq x x = true)
    (bare : Mode → PyVal → Out) (s : Store) (m m' : Mode) (x : PyVal) (hne : ∀ e, bare m x ≠ .raised e) :
    (Cache.step keq bare (Cache.step keq bare s m x).1 m' x).2.2 = [.get m'] := by
  cases hg : Store.get keq s x with
  | some r => simp [Cache.step, hg]
  | none =>
    have h1 := ((C20_runs keq bare s m x).1 hg hne).2
    rw [h1]
    simp [Cache.step, Store.get, hrefl]

/-- the number of runs of the wrapped validator over a history equals the number of misses -/
theorem C20_run_count (keq : PyVal → PyVal → Bool) (bare : Mode → PyVal → Out) :
    ∀ (hist : List (Mode × PyVal)) (s : Store),
      ((Cache.runHist keq bare s hist).2.map (fun c => (c.2.filter (fun e => match e with | .run _ => true | _ => false)).length)).sum
        = ((Cache.runHist keq bare s hist).2.filter (fun c => c.2.length != 1)).length := by
  intro hist
  induction hist with
  | nil => intro s; rfl
  | cons c rest ih =>
    intro s
    obtain ⟨m, x⟩ := c
    simp only [Cache.runHist, List.map_cons, List.sum_cons, List.filter_cons]
    rw [ih]
    unfold Cache.step
    cases Store.get keq s x with
    | some r => simp
    | none =>
      simp only
      cases bare m x <;> simp <;> try omega

/-! non-vacuity: an identity-keyed store and a validator that rejects -/
example : (Cache.runHist (fun a b => pyEq a b) (fun _ x => match x with | .int _ => .valid x | _ => .raised .other) []
    [(.sync, .int 1), (.async, .int 1), (.sync, .str [])]).2.map (fun c => c.2.length) = [3, 1, 2] := by rfl

end Koda
