/-
  C16 — the default coercers *as written in /repo's current source*.

  `Generated/CoerceSrc.lean` is rewritten on every run by `harness/pysrc.py` from the AST of every
  function decorated with `@coercer(…)`.  For each of the five default coercers: running the
  translated body is the model's `defaultCoerce` — for every oracle (stdlib parser) and every value,
  and no exception escapes (`src_coerce_*`); the decorator's compatible types are the model's
  `defaultCompat` (`src_compat_*`); `src_coercer_names` pins the inventory.
-/
import KodaModel.Generated.CoerceSrc

namespace Koda

/-- run the translated body of coercer `name` -/
def runCoercer (o : Oracle) (name : String) (x : PyVal) : Except String (Option (Option PyVal)) :=
  (lookupCoerce Src.coercers name).2.run o x

theorem baseTy_unsub : ∀ x : PyVal, x.baseTy = x.unsub.ty
  | .sub _ v => by simp only [PyVal.baseTy, PyVal.unsub]; exact baseTy_unsub v
  | .none => rfl | .bool _ => rfl | .int _ => rfl | .float _ => rfl | .str _ => rfl | .bytes _ => rfl
  | .decimal _ => rfl | .uuid _ => rfl | .date _ => rfl | .datetime _ _ => rfl | .list _ _ => rfl
  | .tuple _ _ => rfl | .set _ _ => rfl | .dict _ _ => rfl | .just _ _ => rfl | .nothing => rfl
  | .inst .. => rfl

theorem src_coerce_decimal (o : Oracle) (x : PyVal) :
    runCoercer o "coerce_decimal" x = .ok (some (defaultCoerce o .decimal x)) := by
  have hl : (lookupCoerce Src.coercers "coerce_decimal").2 =
      .seq (.ite (.typeIs .decimal) .retJustVal (.ite (.isInst [.str, .int]) (.tryRetJust "Decimal" ["InvalidOperation"] .pass) .pass)) .retNothing := rfl
  simp only [runCoercer, hl, CStmt.run, CTest.eval, defaultCoerce, beq_iff_eq]
  by_cases hty : x.ty = .decimal
  · simp [hty]
  · simp only [hty, if_false, List.any_cons, List.any_nil, Bool.or_false, isInstOf, baseTy_unsub, callCtor, strLike, intLike]
    cases hx : x.unsub <;> simp [PyVal.ty]
    · cases o.decimal _ <;> simp

theorem callCtor_uuid (o : Oracle) (x : PyVal) : callCtor o "UUID" x =
    (match strLike x with
     | some s => (match o.uuid s with | some d => .ok d | none => .error "ValueError")
     | none => .error "AttributeError") := rfl

theorem callCtor_date (o : Oracle) (x : PyVal) : callCtor o "date.fromisoformat" x =
    (match strLike x with
     | some s => (match o.date s with | some d => .ok d | none => .error "ValueError")
     | none => .error "TypeError") := rfl

theorem callCtor_datetime (o : Oracle) (x : PyVal) : callCtor o "datetime.fromisoformat" x =
    (match strLike x with
     | some s => (match o.datetime s with | some d => .ok d | none => .error "ValueError")
     | none => .error "TypeError") := rfl

theorem src_coerce_uuid (o : Oracle) (x : PyVal) :
    runCoercer o "coerce_uuid" x = .ok (some (defaultCoerce o .uuid x)) := by
  have hl : (lookupCoerce Src.coercers "coerce_uuid").2 =
      .seq (.ite (.typeIs .uuid) .retJustVal (.ite (.typeIs .str) (.tryRetJust "UUID" ["ValueError"] .pass) .pass)) .retNothing := rfl
  simp only [runCoercer, hl, CStmt.run, CTest.eval, defaultCoerce, beq_iff_eq]
  by_cases hty : x.ty = .uuid
  · simp [hty]
  · simp only [hty, if_false]
    cases x <;> simp [PyVal.ty, callCtor_uuid, strLike, PyVal.unsub]
    · cases o.uuid _ <;> simp

theorem src_coerce_date (o : Oracle) (x : PyVal) :
    runCoercer o "coerce_date" x = .ok (some (defaultCoerce o .date x)) := by
  have hl : (lookupCoerce Src.coercers "coerce_date").2 =
      .ite (.typeIs .date) .retJustVal (.tryRetJust "date.fromisoformat" ["ValueError", "TypeError"] .retNothing) := rfl
  simp only [runCoercer, hl, CStmt.run, CTest.eval, defaultCoerce, beq_iff_eq]
  by_cases hty : x.ty = .date
  · simp [hty]
  · simp only [hty, if_false, callCtor_date, strLike]
    cases hx : x.unsub <;> simp
    · cases o.date _ <;> simp

theorem src_coerce_datetime (o : Oracle) (x : PyVal) :
    runCoercer o "coerce_datetime" x = .ok (some (defaultCoerce o .datetime x)) := by
  have hl : (lookupCoerce Src.coercers "coerce_datetime").2 =
      .ite (.typeIs .datetime) .retJustVal (.tryRetJust "datetime.fromisoformat" ["ValueError", "TypeError"] .retNothing) := rfl
  simp only [runCoercer, hl, CStmt.run, CTest.eval, defaultCoerce, beq_iff_eq]
  by_cases hty : x.ty = .datetime
  · simp [hty]
  · simp only [hty, if_false, callCtor_datetime, strLike]
    cases hx : x.unsub <;> simp
    · cases o.datetime _ <;> simp

theorem src_tuple_or_list_to_tuple (o : Oracle) (x : PyVal) :
    runCoercer o "tuple_or_list_to_tuple" x = .ok (some (defaultCoerce o .tuple x)) := by
  have hl : (lookupCoerce Src.coercers "tuple_or_list_to_tuple").2 =
      .ite (.typeIs .tuple) .retJustVal (.ite (.typeIs .list) .retJustTupleOfVal .retNothing) := rfl
  simp only [runCoercer, hl, CStmt.run, CTest.eval, defaultCoerce, beq_iff_eq]
  cases x <;> simp [PyVal.ty]

/-- the decorators' compatible types are the ones the model reports in coercion errors -/
theorem src_compat :
    (lookupCoerce Src.coercers "coerce_decimal").1 = defaultCompat .decimal ∧
    (lookupCoerce Src.coercers "coerce_uuid").1 = defaultCompat .uuid ∧
    (lookupCoerce Src.coercers "coerce_date").1 = defaultCompat .date ∧
    (lookupCoerce Src.coercers "coerce_datetime").1 = defaultCompat .datetime ∧
    (lookupCoerce Src.coercers "tuple_or_list_to_tuple").1 = defaultCompat .tuple := by
  refine ⟨rfl, rfl, rfl, rfl, rfl⟩

/-- exactly these functions are decorated with `@coercer` -/
theorem src_coercer_names : Src.coercers.map (fun c => c.1) =
    ["coerce_date", "coerce_datetime", "coerce_decimal", "coerce_uuid", "tuple_or_list_to_tuple"] := by decide

end Koda
