/-
  C17 for unions, optionals, n-tuples: what holds, and the witness of what does not (finding D25).

  A union re-validates its own payload from the first variant again.  If every variant that rejected
  the input also rejects the payload, and the variant that accepted has the payload as a fixed point,
  the union returns the payload unchanged (`C17_union_fixed_partial`).  Without the first hypothesis
  the statement is false of the code: `D25_witness` is a union of two string validators (built-in
  processors only) whose payload comes back changed.
-/
import KodaModel.Properties.C05
import KodaModel.Properties.C17

namespace Koda

theorem AllReject_transfer {x w : PyVal} : ∀ {pre : List Ev1} {es : List Inv} {t : List Ev},
    AllReject x pre es t →
    (∀ ev ∈ pre, (∃ e t, ev x = some (.invalid e, t)) → ∃ e' t', ev w = some (.invalid e', t')) →
    ∃ es' t', AllReject w pre es' t' := by
  intro pre es t h
  induction h with
  | nil => intro _; exact ⟨[], [], .nil⟩
  | @cons ev evs e es t t' hev _ ih =>
    intro hrej
    obtain ⟨e', t1, h1⟩ := hrej ev (by simp) ⟨e, t, hev⟩
    obtain ⟨es', t2, h2⟩ := ih (fun ev' hm => hrej ev' (by simp [hm]))
    exact ⟨e' :: es', t1 ++ t2, .cons h1 h2⟩

/-- **C17, unions (partial: the no-takeover hypothesis `hrej` is what finding D25 violates)** -/
theorem C17_union_fixed_partial {x w : PyVal} {vid : Nat} {evs : List Ev1} {t : List Ev}
    (h : unionStep vid evs x = some (.valid w, t))
    (hrej : ∀ ev ∈ evs, (∃ e t, ev x = some (.invalid e, t)) → ∃ e' t', ev w = some (.invalid e', t'))
    (hfix : ∀ ev ∈ evs, (∃ t, ev x = some (.valid w, t)) → ∃ t', ev w = some (.valid w, t')) :
    ∃ t', unionStep vid evs w = some (.valid w, t') := by
  obtain ⟨pre, ev, post, es, t1, tw, rfl, hpre, hev, _⟩ := C05_union_valid_inv h
  obtain ⟨es', t1', hpre'⟩ := AllReject_transfer hpre (fun ev' hm => hrej ev' (by simp [hm]))
  obtain ⟨tw', hev'⟩ := hfix ev (by simp) ⟨tw, hev⟩
  exact ⟨t1' ++ tw', C05_union_first hpre' hev' post vid⟩

/-- **C17, optionals**: `None` comes back as `None`; any other payload of the inner validator comes back
    unchanged when it is the inner validator's fixed point (the `None` validator rejects everything
    that is not `None`, so no takeover is possible) -/
theorem C17_optional_fixed (o : Oracle) (nvid vid : Nat) (ev : Ev1) (x w : PyVal) (t : List Ev)
    (h : unionStep vid [fun y => some (noneStep o nvid none y), ev] x = some (.valid w, t))
    (hfix : (∃ t, ev x = some (.valid w, t)) → ∃ t', ev w = some (.valid w, t')) :
    ∃ t', unionStep vid [fun y => some (noneStep o nvid none y), ev] w = some (.valid w, t') := by
  by_cases hx : x = .none
  · subst hx
    have : w = .none := by
      simp [unionStep, unionLoop, noneStep] at h
      exact h.1.symm
    subst this
    exact ⟨[], by simp [unionStep, unionLoop, noneStep]⟩
  · have hn : noneStep o nvid none x = (.invalid (.mk (.type .none) x nvid []), []) := by
      cases x <;> simp [noneStep] at hx ⊢
    have hev : ∃ t, ev x = some (.valid w, t) := by
      simp only [unionStep, unionLoop, hn] at h
      cases hx' : ev x with
      | none => simp [hx'] at h
      | some p =>
        obtain ⟨out, t0⟩ := p
        cases out with
        | valid w' =>
          simp [hx'] at h
          exact ⟨t0, by rw [h.1]⟩
        | invalid e => simp [hx', unionLoop] at h
        | raised e => simp [hx'] at h
    obtain ⟨t', hw⟩ := hfix hev
    by_cases hwn : w = .none
    · subst hwn
      exact ⟨[], by simp [unionStep, unionLoop, noneStep]⟩
    · have hn' : noneStep o nvid none w = (.invalid (.mk (.type .none) w nvid []), []) := by
        cases w <;> simp [noneStep] at hwn ⊢
      exact ⟨[] ++ t', by simp [unionStep, unionLoop, hn', hw]⟩

/-! ### n-tuples -/

theorem loopFields_fixed : ∀ (evs : List Ev1) (ws : List PyVal) (i : Nat), evs.length = ws.length →
    (∀ p ∈ evs.zip ws, ∃ t, p.1 p.2 = some (.valid p.2, t)) →
    ∃ t, loopFields evs ws i = some ⟨ws, [], t, none⟩
  | [], [], i, _, _ => ⟨[], rfl⟩
  | [], _ :: _, i, h, _ => by simp at h
  | _ :: _, [], i, h, _ => by simp at h
  | ev :: evs, w :: ws, i, h, hf => by
    obtain ⟨t0, h0⟩ := hf (ev, w) (by simp)
    obtain ⟨t1, h1⟩ := loopFields_fixed evs ws (i + 1) (by simpa using h)
      (fun p hp => hf p (by simp only [List.zip_cons_cons, List.mem_cons]; exact Or.inr hp))
    simp only at h0
    exact ⟨t0 ++ t1, by simp [loopFields, h0, h1]⟩

/-- **C17, n-tuples** (default coercer, no whole-object check): the tuple an `NTupleValidator` built is
    accepted by it unchanged when each slot's payload is a fixed point of its field validator -/
theorem C17_ntuple_fixed (o : Oracle) (vid lp : Nat) (evs : List Ev1) (ws : List PyVal)
    (hlen : evs.length = ws.length)
    (hitems : ∀ p ∈ evs.zip ws, ∃ t, p.1 p.2 = some (.valid p.2, t)) :
    ∃ t, ntupleStep o vid none (some .dflt) lp evs (.tuple 0 ws) = some (.valid (.tuple 0 ws), t) := by
  obtain ⟨t, hl⟩ := loopFields_fixed evs ws 0 hlen hitems
  refine ⟨[] ++ t ++ [], ?_⟩
  simp [ntupleStep, ntuplePre, gate, applyCoerce, defaultCoerce, pyLen, pyIter, hlen, hl, ntupleFinish, runObjCheck]

/-! ### finding D25: the full statement is false of the code -/

/-- `UnionValidator(StringValidator(MaxLength(2), preprocessors=[upper_case]), StringValidator(preprocessors=[strip]))` -/
def d25Union : V :=
  .union 1 [.scalar 2 .str none [⟨1, .upper⟩] [⟨2, .maxLength 2⟩] [],
            .scalar 3 .str none [⟨3, .strip⟩] [] []]

/-- `" ab "` ↦ `"ab"` (second variant), and `"ab"` ↦ `"AB"` (first variant takes over) -/
theorem D25_witness :
    (run default (fun _ => .always 0) .sync 2 d25Union (.str [32, 97, 98, 32])).map (·.1) = some (.valid (.str [97, 98])) ∧
    (run default (fun _ => .always 0) .sync 2 d25Union (.str [97, 98])).map (·.1) = some (.valid (.str [65, 66])) := by
  constructor <;> rfl

end Koda
