/-
  C17 — validated output is a fixed point.

  Scalars: if `scalarStep` returns `Valid w`, the gate lets `w` through unchanged and the processors
  leave it unchanged (`GateFix`, `ProcsFix` — both proved below for the cases the property names: no
  coercer / a default coercer on its own target type; no processors / one built-in idempotent
  processor), then validating `w` again returns `Valid w`.
  Lists and uniform tuples: if the container predicates hold of the payload (this is the hypothesis
  finding D22 is about) and every element payload is a fixed point of the child, so is the container.
-/
import KodaModel.Properties.C02
import KodaModel.Properties.C03
import KodaModel.Properties.C15

namespace Koda

/-- the gate lets `w` through unchanged -/
def GateFix (o : Oracle) (tg : Ty) (c : Option CoerceK) (w : PyVal) : Prop := gate o tg tg c w = .acc w []

/-- the processors leave `w` unchanged -/
def ProcsFix (pre : List Proc) (w : PyVal) : Prop := ∃ t, runProcs pre w = (.ok w, t)

/-- **C17, scalars**: a payload that passes gate and processors unchanged is accepted with itself as
    payload (the predicates were evaluated on this very value the first time) -/
theorem C17_scalar_fixed (o : Oracle) (m : Mode) (vid : Nat) (tg : Ty) (c : Option CoerceK) (pre : List Proc)
    (ps aps : List Pred) (x w : PyVal) (t : List Ev)
    (h : scalarStep o m vid tg c pre ps aps x = (.valid w, t)) (hg : GateFix o tg c w) (hp : ProcsFix pre w) :
    ∃ t', scalarStep o m vid tg c pre ps aps w = (.valid w, t') := by
  rw [C02_accept_iff] at h
  obtain ⟨hguard, y, t0, t1, _, _, he, hn, _⟩ := h
  obtain ⟨t2, hp2⟩ := hp
  refine ⟨[] ++ t2 ++ (contPreds m ps aps w).2.1, ?_⟩
  rw [C02_accept_iff]
  exact ⟨hguard, w, [], t2, hg, hp2, he, hn, rfl⟩

/-- without a coercer the payload has the validator's exact type -/
theorem GateFix_none (o : Oracle) (tg : Ty) (x y : PyVal) (t : List Ev) (h : gate o tg tg none x = .acc y t) :
    y.ty = tg := by
  simp only [gate] at h
  split at h
  · cases h; assumption
  · cases h

/-- a default coercer accepts its own target type unchanged -/
theorem GateFix_default (o : Oracle) (tg : Ty) (w : PyVal) (hw : w.ty = tg)
    (htg : tg = .decimal ∨ tg = .uuid ∨ tg = .date ∨ tg = .datetime) : GateFix o tg (some .dflt) w := by
  rcases htg with rfl | rfl | rfl | rfl <;> simp [GateFix, gate, applyCoerce, defaultCoerce, hw]

/-- no processors: nothing to do -/
theorem ProcsFix_nil (w : PyVal) : ProcsFix [] w := ⟨[], rfl⟩

theorem dropWhile_self (sp : Nat → Bool) (l : List Nat) (h : ∀ a, l.head? = some a → sp a = false) :
    l.dropWhile sp = l := by
  cases l with
  | nil => rfl
  | cons a l => simp [List.dropWhile_cons, h a rfl]

theorem head_dropWhile (sp : Nat → Bool) (l : List Nat) : ∀ a, (l.dropWhile sp).head? = some a → sp a = false := by
  induction l with
  | nil => intro a h; simp at h
  | cons b l ih =>
    intro a h
    simp only [List.dropWhile_cons] at h
    by_cases hb : sp b = true
    · simp only [hb, if_true] at h; exact ih a h
    · simp only [hb, Bool.false_eq_true, if_false, List.head?_cons, Option.some.injEq] at h
      subst h; simpa using hb

theorem dropWhile_suffix (sp : Nat → Bool) (l : List Nat) : ∃ p, l = p ++ l.dropWhile sp := by
  induction l with
  | nil => exact ⟨[], rfl⟩
  | cons b l ih =>
    simp only [List.dropWhile_cons]
    by_cases hb : sp b = true
    · obtain ⟨p, hp⟩ := ih
      simp only [hb, if_true]
      exact ⟨b :: p, by rw [List.cons_append, ← hp]⟩
    · simp only [hb, Bool.false_eq_true, if_false]
      exact ⟨[], rfl⟩

/-- `strip` is idempotent (for any notion of whitespace) -/
theorem stripWith_idem (sp : Nat → Bool) (s : List Nat) : stripWith sp (stripWith sp s) = stripWith sp s := by
  unfold stripWith
  -- a := left-stripped, b := reversed and left-stripped again; the result is b.reverse
  generalize ha : s.dropWhile sp = a
  have ha_head : ∀ c, a.head? = some c → sp c = false := by rw [← ha]; exact head_dropWhile sp s
  generalize hb : a.reverse.dropWhile sp = b
  have hb_head : ∀ c, b.head? = some c → sp c = false := by rw [← hb]; exact head_dropWhile sp a.reverse
  -- b.reverse is a prefix of a
  obtain ⟨p, hp⟩ := dropWhile_suffix sp a.reverse
  rw [hb] at hp
  have hpre : a = b.reverse ++ p.reverse := by
    have := congrArg List.reverse hp
    simpa using this
  -- left strip of b.reverse does nothing
  have h1 : b.reverse.dropWhile sp = b.reverse := by
    apply dropWhile_self
    intro c hc
    cases hbr : b.reverse with
    | nil => rw [hbr] at hc; simp at hc
    | cons d ds =>
      rw [hbr] at hc
      simp only [List.head?_cons, Option.some.injEq] at hc
      subst hc
      apply ha_head
      rw [hpre, hbr]; rfl
  rw [h1, List.reverse_reverse, dropWhile_self sp b hb_head]

/-- one built-in processor is idempotent: its output is its own fixed point -/
theorem ProcsFix_builtin (p : Proc) (s : List Nat) (z : PyVal) (hk : p.k = .strip ∨ p.k = .upper ∨ p.k = .lower)
    (h : p.k.call (.str s) = .ok z) : ProcsFix [p] z := by
  rcases hk with hk | hk | hk <;> simp only [hk, ProcK.call, PyVal.unsub, Except.ok.injEq] at h <;> subst h
  · refine ⟨p.ev ++ [], ?_⟩
    simp only [runProcs, hk, ProcK.call, PyVal.unsub, stripWith_idem]
  · refine ⟨p.ev ++ [], ?_⟩
    simp only [runProcs, hk, ProcK.call, PyVal.unsub, C15_upper_idem]
  · refine ⟨p.ev ++ [], ?_⟩
    simp only [runProcs, hk, ProcK.call, PyVal.unsub, C15_lower_idem]

/-! ### containers -/

/-- all elements are fixed points of the child: the loop returns them as they are -/
theorem loopItems_fixed (ev : Ev1) : ∀ (ws : List PyVal) (i : Nat),
    (∀ w ∈ ws, ∃ t, ev w = some (.valid w, t)) → ∃ t, loopItems ev false ws i true = some ⟨ws, [], t, none⟩ := by
  intro ws
  induction ws with
  | nil => intro i _; exact ⟨[], rfl⟩
  | cons w ws ih =>
    intro i h
    obtain ⟨t0, h0⟩ := h w (by simp)
    obtain ⟨t1, h1⟩ := ih (i + 1) (fun w' hw' => h w' (by simp [hw']))
    exact ⟨t0 ++ t1, by simp [loopItems, h0, h1]⟩

/-- **C17, lists**: the list a `ListValidator` built is accepted by it unchanged, provided the container
    predicates hold of it and its elements are fixed points of the item validator -/
theorem C17_list_fixed (o : Oracle) (m : Mode) (vid : Nat) (ps aps : List Pred) (ev : Ev1) (ws : List PyVal)
    (hguard : ¬ (m = .sync ∧ aps ≠ []))
    (hpreds : ∃ t1, contPreds m ps aps (.list 0 ws) = ([], t1, none))
    (hitems : ∀ w ∈ ws, ∃ t, ev w = some (.valid w, t)) :
    ∃ t, seqStep .list o m vid ps aps none ev (.list 0 ws) = some (.valid (.list 0 ws), t) := by
  obtain ⟨t1, hp⟩ := hpreds
  have hpre : seqPre .list o m vid ps aps none (.list 0 ws) = .inr (.list 0 ws, ws, [] ++ t1) := by
    rw [C03_pre_iff]
    exact ⟨hguard, [], t1, by simp [gate, SeqKind.gateTy, PyVal.ty], hp, rfl, rfl⟩
  obtain ⟨t2, hl⟩ := loopItems_fixed ev ws 0 hitems
  refine ⟨([] ++ t1) ++ t2, ?_⟩
  rw [seqStep_inr hpre ev (by intro h; cases h), hl]
  simp [finishSeq, SeqKind.build]

/-- **C17, uniform tuples** (default coercer: a tuple passes unchanged) -/
theorem C17_utuple_fixed (o : Oracle) (m : Mode) (vid : Nat) (ps aps : List Pred) (ev : Ev1) (ws : List PyVal)
    (hguard : ¬ (m = .sync ∧ aps ≠ []))
    (hpreds : ∃ t1, contPreds m ps aps (.tuple 0 ws) = ([], t1, none))
    (hitems : ∀ w ∈ ws, ∃ t, ev w = some (.valid w, t)) :
    ∃ t, seqStep .utuple o m vid ps aps (some .dflt) ev (.tuple 0 ws) = some (.valid (.tuple 0 ws), t) := by
  obtain ⟨t1, hp⟩ := hpreds
  have hpre : seqPre .utuple o m vid ps aps (some .dflt) (.tuple 0 ws) = .inr (.tuple 0 ws, ws, [] ++ t1) := by
    rw [C03_pre_iff]
    exact ⟨hguard, [], t1, by simp [gate, applyCoerce, defaultCoerce, SeqKind.gateTy], hp, rfl, rfl⟩
  obtain ⟨t2, hl⟩ := loopItems_fixed ev ws 0 hitems
  refine ⟨([] ++ t1) ++ t2, ?_⟩
  rw [seqStep_inr hpre ev (by intro h; cases h), hl]
  simp [finishSeq, SeqKind.build]

/-- `None`, `always_valid` and `is_dict_validator` return their input: trivially fixed points -/
theorem C17_none (o : Oracle) (vid : Nat) : noneStep o vid none .none = (.valid .none, []) := rfl
theorem C17_isDict (vid : Nat) (x : PyVal) (h : x.baseTy = .dict) : isDictStep vid x = (.valid x, []) := by
  simp [isDictStep, h]

/-! ### non-vacuity -/
example : ∃ t', scalarStep default .sync 1 .str none [⟨1, .strip⟩] [⟨2, .minLength 1⟩] [] (.str [97]) = (.valid (.str [97]), t') :=
  ⟨_, rfl⟩

end Koda
