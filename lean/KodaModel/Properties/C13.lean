/-
  C13 — Validation is pure: no input mutation, no cross-call or cross-task interference.
-/
import KodaModel.Sched
import KodaModel.Eval
import KodaModel.Generated.Effects

namespace Koda

variable {σ S R : Type}

theorem TaskSys.solo_resume (sys : TaskSys σ S R) (st : σ) (t : TState S R) (n : Nat) :
    sys.solo st (sys.resume st t) n = sys.resume st (sys.solo st t n) := by
  induction n generalizing t with
  | zero => rfl
  | succ n ih => simp only [TaskSys.solo]; rw [ih]

/-- **non-interference for every schedule**: after *any* interleaving, each task is exactly where
    it would be had it run alone for as many resumptions as the schedule gave it; in particular its
    result is its solo result.  The shared store is an argument that no step can change. -/
theorem Sched.noninterference (sys : TaskSys σ S R) (st : σ) :
    ∀ (sched : List Nat) (ts : List (TState S R)) (i : Nat),
      (sys.runSched st ts sched)[i]? = (ts[i]?).map (fun t => sys.solo st t (sched.count i)) := by
  intro sched
  induction sched with
  | nil => intro ts i; simp [TaskSys.runSched, TaskSys.solo]
  | cons j rest ih =>
    intro ts i
    simp only [TaskSys.runSched]
    cases hj : ts[j]? with
    | none =>
      simp only
      rw [ih]
      by_cases hij : j = i
      · subst hij; simp [hj]
      · simp [List.count_cons, hij]
    | some tj =>
      simp only
      rw [ih]
      by_cases hij : j = i
      · subst hij
        have hlt : j < ts.length := by
          rcases List.getElem?_eq_some_iff.1 hj with ⟨h, _⟩; exact h
        have hget : ts[j] = tj := by
          have := List.getElem?_eq_getElem hlt
          rw [hj] at this; exact (Option.some.inj this).symm
        simp [List.count_cons, hj, hlt, TaskSys.solo, hget]
      · have : (ts.set j (sys.resume st tj))[i]? = ts[i]? := by
          simp [List.getElem?_set, hij]
        rw [this]
        simp [List.count_cons, hij]

/-- a task that finishes alone within `n` resumptions finishes with the same result under every
    schedule that resumes it at least `n` times -/
theorem Sched.same_result (sys : TaskSys σ S R) (st : σ) (ts : List (TState S R)) (sched : List Nat) (i : Nat)
    (t : TState S R) (r : R) (n : Nat) (ht : ts[i]? = some t) (hsolo : sys.solo st t n = .done r)
    (hn : n ≤ sched.count i) : (sys.runSched st ts sched)[i]? = some (.done r) := by
  rw [Sched.noninterference, ht]
  simp only [Option.map_some, Option.some.injEq]
  -- more resumptions of a finished task change nothing
  have key : ∀ k, sys.solo st t (n + k) = .done r := by
    intro k
    induction k with
    | zero => exact hsolo
    | succ k ihk =>
      rw [show n + (k + 1) = (n + k) + 1 by omega]
      have : ∀ (u : TState S R) m, sys.solo st u (m + 1) = sys.resume st (sys.solo st u m) := by
        intro u m
        induction m generalizing u with
        | zero => rfl
        | succ m ihm => simp only [TaskSys.solo] at ihm ⊢; rw [ihm]
      rw [this, ihk]; rfl
  obtain ⟨k, hk⟩ := Nat.exists_eq_add_of_le hn
  rw [hk]; exact key k

/-- **history independence**: `run` is a function of (oracle, environment, mode, fuel, validator,
    input) and of nothing else — there is no state it could carry from one call to the next -/
theorem C13_history_independent (o : Oracle) (env : Nat → V) (m : Mode) (n : Nat) (v : V) (x : PyVal)
    (history : List (V × PyVal)) :
    (history.map (fun h => run o env m n h.1 h.2), run o env m n v x).2 = run o env m n v x := rfl

/-- **write confinement, re-checked against `/repo`'s source on every run**: every heap write the
    AST of `koda_validate` performs on a validation path targets a local that is bound only to fresh
    allocations (the table is regenerated from the source by harness/effects.py) -/
theorem Effects.confined : Generated.effects.all (fun e => e.target == "fresh-local") = true := by
  decide

end Koda
