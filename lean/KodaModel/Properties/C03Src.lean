/-
  C03 — the list validator *as written in /repo's current source*.

  `Generated/ListSrc.lean` is rewritten on every run from the AST of `ListValidator._validate_to_tuple` and
  `_validate_to_tuple_async` (koda_validate/list.py).  Interpreting the translated methods
  (`KodaModel/PyList.lean`) is the model's `seqStep .list`: for every configuration (coercer or not, any
  container predicates, any async predicates), every item validator (as wrapped by `_wrap_sync_validator` /
  `_wrap_async_validator`) and every input — container-level failures before any element, every element
  validated, every failing index with the child's own `Invalid`, payloads in order, trace and exceptions.
-/
import KodaModel.Generated.ListSrc
import KodaModel.Properties.C03
import KodaModel.Properties.C01

namespace Koda

/-! ### the pieces of the two methods -/

def lGuard : LStmt := .ite (.selfAttr .disallowSync) [.expr (.warn (.selfAttr .cls))] []

def lGate : LStmt :=
  .ite (.selfAttr .coerce)
    [.ite (.not (.attr (.walrus .coerced (.call1 (.selfAttr .coerce) .val)) .isJust))
       [.ret (.pair (.bool false) (.mkInvalid (.mkCoercionErr (.attr (.selfAttr .coerce) .compatibleTypes) .listTy) .val .self))]
       [.assign .coercedVal (.attr (.var .coerced) .valA)]]
    [.ite (.typeIsList .val) [.assign .coercedVal .val]
       [.ret (.pair (.bool false) (.mkInvalid (.mkTypeErr .listTy) .val .self))]]

def lSyncComp (viaMeth : Bool) : LExp :=
  .listComp (.var .pred) .pred (.selfAttr .predicates)
    (.not (if viaMeth then .meth (.var .pred) .call (.var .coercedVal) else .call1 (.var .pred) (.var .coercedVal)))

def lPredsSync : LStmt :=
  .ite (.selfAttr .predicates)
    [.assign .listErrors (lSyncComp true),
     .ite (.var .listErrors) [.ret (.pair (.bool false) (.mkInvalid (.mkPredErrs (.var .listErrors)) (.var .coercedVal) .self))] []]
    []

def lLoopBody (wrapped : LSelf) (aw : Bool) : List LStmt :=
  [.assign2 .isValid .itemResult
     (if aw then .await (.call1 (.selfAttr wrapped) (.var .item)) else .call1 (.selfAttr wrapped) (.var .item)),
   .ite (.not (.var .isValid)) [.setItem .indexErrs (.var .i) (.var .itemResult)]
     [.ite (.not (.var .indexErrs)) [.append .returnList (.var .itemResult)] []]]

def lLoop (wrapped : LSelf) (aw : Bool) : LStmt := .forIn2 .i .item (.enumerate (.var .coercedVal)) (lLoopBody wrapped aw)

def lFinal : LStmt :=
  .ite (.var .indexErrs)
    [.ret (.pair (.bool false) (.mkInvalid (.mkIndexErrs (.var .indexErrs)) (.var .coercedVal) .self))]
    [.ret (.pair (.bool true) (.var .returnList))]

def lTail (wrapped : LSelf) (aw : Bool) : List LStmt :=
  [.assign .returnList .emptyList, .assign .indexErrs .emptyDict, lLoop wrapped aw, lFinal]

theorem listSync_eq : Src.listSync = lGuard :: lGate :: lPredsSync :: lTail .wrappedSync false := rfl

def lAsyncPreds : List LStmt :=
  [.assign .predicateErrors .emptyList,
   .ite (.selfAttr .predicates) [.extend .predicateErrors (lSyncComp false)] [],
   .ite (.isNotNone (.selfAttr .predicatesAsync))
     [.forIn .predAsync (.selfAttr .predicatesAsync)
        [.ite (.not (.await (.meth (.var .predAsync) .validateAsync (.var .coercedVal))))
           [.append .predicateErrors (.var .predAsync)] []]] [],
   .ite (.var .predicateErrors)
     [.ret (.pair (.bool false) (.mkInvalid (.mkPredErrs (.var .predicateErrors)) (.var .coercedVal) .self))] []]

theorem listAsync_eq : Src.listAsync = lGate :: (lAsyncPreds ++ lTail .wrappedAsync true) := rfl

/-! ### unfolding helpers -/

theorem lflow_id (r : Except (LErr × List Ev) LFlow) :
    (match r with
     | .error err => .error err
     | .ok (.next st) => .ok (.next st)
     | .ok (.returned d st) => .ok (.returned d st)) = r := by
  cases r with
  | error e => rfl
  | ok f => cases f <;> rfl

theorem lexecL_nil (o : Oracle) (cfg : ListCfg) (x : PyVal) (st : LSt) : LStmt.execL o cfg x st [] = .ok (.next st) := by
  simp only [LStmt.execL]

theorem lexecL_cons (o : Oracle) (cfg : ListCfg) (x : PyVal) (st : LSt) (s : LStmt) (rest : List LStmt) :
    LStmt.execL o cfg x st (s :: rest) =
      (match s.exec o cfg x st with
       | .error err => .error err
       | .ok (.next st) => LStmt.execL o cfg x st rest
       | .ok (.returned d st) => .ok (.returned d st)) := by
  simp only [LStmt.execL]
  rfl

theorem lexecL_single (o : Oracle) (cfg : ListCfg) (x : PyVal) (st : LSt) (s : LStmt) :
    LStmt.execL o cfg x st [s] = LStmt.exec o cfg x st s := by
  rw [lexecL_cons]
  simp only [lexecL_nil]
  exact lflow_id _

theorem lexec_ite (o : Oracle) (cfg : ListCfg) (x : PyVal) (st : LSt) (c : LExp) (t e : List LStmt) :
    LStmt.exec o cfg x st (.ite c t e) =
      (match c.eval o cfg x st with
       | .error err => .error err
       | .ok (d, st) =>
         match ltruthy d with
         | none => .error (.stuck "truth value", st.tr)
         | some true => LStmt.execL o cfg x st t
         | some false => LStmt.execL o cfg x st e) := by
  simp only [LStmt.exec]
  rfl

theorem lexec_assign (o : Oracle) (cfg : ListCfg) (x : PyVal) (st : LSt) (v : LVar) (e : LExp) :
    LStmt.exec o cfg x st (.assign v e) =
      (match e.eval o cfg x st with
       | .error err => .error err
       | .ok (d, st) => .ok (.next { st with env := st.env.set v d })) := by
  simp only [LStmt.exec]
  rfl

/-! ### the loop over the elements -/

theorem loopItems_ne (ev : Ev1) : ∀ (xs : List PyVal) (i : Nat) (a b : Bool),
    loopItems ev false xs i a = loopItems ev false xs i b := by
  intro xs
  induction xs with
  | nil => intro i a b; rfl
  | cons x xs ih =>
    intro i a b
    simp only [loopItems, Bool.false_and, Bool.false_eq_true, if_false]
    cases ev x with
    | none => rfl
    | some p =>
      obtain ⟨out, t⟩ := p
      cases out with
      | raised e => rfl
      | valid w => simp only [ih (i + 1) a b]
      | invalid e => rfl

/-- what one round of the loop does, as far as the rest of the method can tell -/
structure LoopInv (st : LSt) (rl : List PyVal) (ie : List (Nat × Inv)) (cv : LV) : Prop where
  rl : st.env.returnList = .payloads rl
  ie : st.env.indexErrs = .idxErrs ie
  cv : st.env.coercedVal = cv

theorem lforFold2_items (cfg : ListCfg) (execBody : LSt → Except (LErr × List Ev) LFlow)
    (Hb : ∀ (st : LSt) (n : Nat) (y : PyVal) (rl : List PyVal) (ie : List (Nat × Inv)) (cv : LV),
      st.env.i = .nat n → st.env.item = .py y → LoopInv st rl ie cv →
      (cfg.item y = none → ∃ t, execBody st = .error (.diverge, t)) ∧
      (∀ e t, cfg.item y = some (.raised e, t) → execBody st = .error (.exn e, st.tr ++ t)) ∧
      (∀ w t, cfg.item y = some (.valid w, t) →
        ∃ st1, execBody st = .ok (.next st1) ∧ LoopInv st1 (if ie.isEmpty then rl ++ [w] else rl) ie cv ∧ st1.tr = st.tr ++ t) ∧
      (∀ e t, cfg.item y = some (.invalid e, t) →
        ∃ st1, execBody st = .ok (.next st1) ∧ LoopInv st1 rl (ie ++ [(n, e)]) cv ∧ st1.tr = st.tr ++ t)) :
    ∀ (xs : List PyVal) (n : Nat) (st : LSt) (rl : List PyVal) (ie : List (Nat × Inv)) (cv : LV), LoopInv st rl ie cv →
      (loopItems cfg.item false xs n true = none →
        ∃ t, lforFold2 execBody .i .item xs n st = .error (.diverge, t)) ∧
      (∀ r e, loopItems cfg.item false xs n true = some r → r.r = some e →
        lforFold2 execBody .i .item xs n st = .error (.exn e, st.tr ++ r.t)) ∧
      (∀ r, loopItems cfg.item false xs n true = some r → r.r = none →
        ∃ st1, lforFold2 execBody .i .item xs n st = .ok (.next st1) ∧ st1.tr = st.tr ++ r.t ∧
          (ie ++ r.es = [] → LoopInv st1 (rl ++ r.ws) [] cv) ∧
          (∃ rl', LoopInv st1 rl' (ie ++ r.es) cv)) := by
  intro xs
  induction xs with
  | nil =>
    intro n st rl ie cv hinv
    refine ⟨?_, ?_, ?_⟩
    · intro h; simp [loopItems] at h
    · intro r e h hr
      simp only [loopItems, Option.some.injEq] at h; subst h; simp at hr
    · intro r h _
      simp only [loopItems, Option.some.injEq] at h; subst h
      refine ⟨st, by simp [lforFold2], by simp, ?_, ⟨rl, by simpa using hinv⟩⟩
      intro h0
      simp only [List.append_nil] at h0 ⊢
      subst h0; exact hinv
  | cons y ys ih =>
    intro n st rl ie cv hinv
    have hinv' : LoopInv { st with env := (st.env.set .i (.nat n)).set .item (.py y) } rl ie cv :=
      ⟨by simpa [LEnv.set] using hinv.rl, by simpa [LEnv.set] using hinv.ie, by simpa [LEnv.set] using hinv.cv⟩
    obtain ⟨b1, b2, b3, b4⟩ := Hb { st with env := (st.env.set .i (.nat n)).set .item (.py y) } n y rl ie cv
      (by simp [LEnv.set]) (by simp [LEnv.set]) hinv'
    simp only [loopItems, Bool.false_and, Bool.false_eq_true, if_false, lforFold2]
    cases hc : cfg.item y with
    | none =>
      obtain ⟨t0, h0⟩ := b1 hc
      refine ⟨?_, ?_, ?_⟩
      · intro _; exact ⟨t0, by rw [h0]⟩
      · intro r e h; simp at h
      · intro r h; simp at h
    | some p =>
      obtain ⟨out, t0⟩ := p
      cases out with
      | raised e0 =>
        have h0 := b2 e0 t0 hc
        refine ⟨?_, ?_, ?_⟩
        · intro h; simp at h
        · intro r e h hr
          simp only [Option.some.injEq] at h; subst h
          simp only [Option.some.injEq] at hr; subst hr
          rw [h0]
        · intro r h hr
          simp only [Option.some.injEq] at h; subst h; simp at hr
      | valid w0 =>
        obtain ⟨st1, h0, hi1, ht1⟩ := b3 w0 t0 hc
        obtain ⟨i1, i2, i3⟩ := ih (n + 1) st1 (if ie.isEmpty then rl ++ [w0] else rl) ie cv hi1
        rw [h0]
        simp only
        cases hl : loopItems cfg.item false ys (n + 1) true with
        | none =>
          refine ⟨?_, ?_, ?_⟩
          · intro _; exact i1 hl
          · intro r e h; simp at h
          · intro r h; simp at h
        | some r' =>
          refine ⟨?_, ?_, ?_⟩
          · intro h; simp at h
          · intro r e h hr
            simp only [Option.some.injEq] at h; subst h
            rw [i2 r' e hl hr, ht1]; simp [List.append_assoc]
          · intro r h hr
            simp only [Option.some.injEq] at h; subst h
            obtain ⟨st2, j1, j2, j3, j4⟩ := i3 r' hl hr
            refine ⟨st2, j1, by rw [j2, ht1]; simp [List.append_assoc], ?_, j4⟩
            intro h0'
            have hie : ie = [] := (List.append_eq_nil_iff.mp h0').1
            have := j3 h0'
            subst hie
            simpa [List.append_assoc] using this
      | invalid e0 =>
        obtain ⟨st1, h0, hi1, ht1⟩ := b4 e0 t0 hc
        obtain ⟨i1, i2, i3⟩ := ih (n + 1) st1 rl (ie ++ [(n, e0)]) cv hi1
        rw [h0]
        simp only
        rw [loopItems_ne cfg.item ys (n + 1) false true]
        cases hl : loopItems cfg.item false ys (n + 1) true with
        | none =>
          refine ⟨?_, ?_, ?_⟩
          · intro _; exact i1 hl
          · intro r e h; simp at h
          · intro r h; simp at h
        | some r' =>
          refine ⟨?_, ?_, ?_⟩
          · intro h; simp at h
          · intro r e h hr
            simp only [Option.some.injEq] at h; subst h
            rw [i2 r' e hl hr, ht1]; simp [List.append_assoc]
          · intro r h hr
            simp only [Option.some.injEq] at h; subst h
            obtain ⟨st2, j1, j2, j3, rl', j4⟩ := i3 r' hl hr
            refine ⟨st2, j1, by rw [j2, ht1]; simp [List.append_assoc], ?_, ⟨rl', by simpa [List.append_assoc] using j4⟩⟩
            intro h0'
            simp at h0'

/-- one round: call the wrapped item validator, file the error under its index or append the payload -/
theorem lLoopBody_exec (o : Oracle) (cfg : ListCfg) (x : PyVal) (wrapped : LSelf) (aw : Bool)
    (hw : wrapped = .wrappedSync ∨ wrapped = .wrappedAsync)
    (st : LSt) (n : Nat) (y : PyVal) (rl : List PyVal) (ie : List (Nat × Inv)) (cv : LV)
    (hi : st.env.i = .nat n) (hy : st.env.item = .py y) (hinv : LoopInv st rl ie cv) :
    (cfg.item y = none → ∃ t, LStmt.execL o cfg x st (lLoopBody wrapped aw) = .error (.diverge, t)) ∧
    (∀ e t, cfg.item y = some (.raised e, t) → LStmt.execL o cfg x st (lLoopBody wrapped aw) = .error (.exn e, st.tr ++ t)) ∧
    (∀ w t, cfg.item y = some (.valid w, t) →
      ∃ st1, LStmt.execL o cfg x st (lLoopBody wrapped aw) = .ok (.next st1) ∧
        LoopInv st1 (if ie.isEmpty then rl ++ [w] else rl) ie cv ∧ st1.tr = st.tr ++ t) ∧
    (∀ e t, cfg.item y = some (.invalid e, t) →
      ∃ st1, LStmt.execL o cfg x st (lLoopBody wrapped aw) = .ok (.next st1) ∧
        LoopInv st1 rl (ie ++ [(n, e)]) cv ∧ st1.tr = st.tr ++ t) := by
  obtain ⟨h1, h2, h3⟩ := hinv
  refine ⟨?_, ?_, ?_, ?_⟩
  · intro h
    refine ⟨st.tr, ?_⟩
    rcases hw with rfl | rfl <;> cases aw <;>
      simp [lLoopBody, LStmt.execL, LStmt.exec, LExp.eval, lselfAttr, LEnv.get, hy, h]
  · intro e t h
    rcases hw with rfl | rfl <;> cases aw <;>
      simp [lLoopBody, LStmt.execL, LStmt.exec, LExp.eval, lselfAttr, LEnv.get, hy, h]
  · intro w t h
    cases hie : ie with
    | nil =>
      rcases hw with rfl | rfl <;> cases aw <;>
        simp [lLoopBody, LStmt.execL, LStmt.exec, LExp.eval, lselfAttr, LEnv.get, LEnv.set, hy, h, ltruthy, h1, h2, h3, hie] <;>
        exact ⟨rfl, rfl, rfl⟩
    | cons a l =>
      rcases hw with rfl | rfl <;> cases aw <;>
        simp [lLoopBody, LStmt.execL, LStmt.exec, LExp.eval, lselfAttr, LEnv.get, LEnv.set, hy, h, ltruthy, h1, h2, h3, hie] <;>
        exact ⟨rfl, rfl, rfl⟩
  · intro e t h
    rcases hw with rfl | rfl <;> cases aw <;>
      simp [lLoopBody, LStmt.execL, LStmt.exec, LExp.eval, lselfAttr, LEnv.get, LEnv.set, hy, hi, h, ltruthy, h1, h2, h3] <;>
      exact ⟨rfl, rfl, rfl⟩

/-! ### reading a method's result; the part after the container level -/

def outL : Except (LErr × List Ev) LFlow → Option (Out × List Ev)
  | .error (.exn e, t) => some (.raised e, t)
  | .error (_, _) => none
  | .ok (.returned (.pair (.bool true) (.payloads ws)) st) => some (.valid (.list 0 ws), st.tr)
  | .ok (.returned (.pair (.bool false) (.invalid e)) st) => some (.invalid e, st.tr)
  | .ok _ => none

theorem runListMethod_eq (o : Oracle) (cfg : ListCfg) (body : List LStmt) (x : PyVal) :
    runListMethod o cfg body x = outL (LStmt.execL o cfg x { env := {}, tr := [] } body) := by
  simp only [runListMethod, outL]
  rfl

/-- `return_list = []; index_errs = {}; for i, item in enumerate(coerced_val): …; if index_errs: … else: …` -/
theorem lTail_exec (o : Oracle) (cfg : ListCfg) (x : PyVal) (wrapped : LSelf) (aw : Bool)
    (hw : wrapped = .wrappedSync ∨ wrapped = .wrappedAsync) (st : LSt) (y : PyVal) (hy : st.env.coercedVal = .py y) :
    outL (LStmt.execL o cfg x st (lTail wrapped aw)) =
      (match pyIter y with
       | none => some (.raised .typeError, st.tr)
       | some xs =>
         match loopItems cfg.item false xs 0 true with
         | none => none
         | some r => some (finishSeq .list cfg.vid y r, st.tr ++ r.t)) := by
  -- the two initialisations
  have hinit : LStmt.execL o cfg x st (lTail wrapped aw) =
      LStmt.execL o cfg x { st with env := (st.env.set .returnList (.payloads [])).set .indexErrs (.idxErrs []) }
        [lLoop wrapped aw, lFinal] := by
    simp [lTail, LStmt.execL, LStmt.exec, LExp.eval]
  rw [hinit]
  let st0 : LSt := { st with env := (st.env.set .returnList (.payloads [])).set .indexErrs (.idxErrs []) }
  have hinv0 : LoopInv st0 [] [] (.py y) := ⟨rfl, rfl, by simpa [st0, LEnv.set] using hy⟩
  rw [lexecL_cons]
  -- `enumerate(coerced_val)`
  have hloop : LStmt.exec o cfg x st0 (lLoop wrapped aw) =
      (match pyIter y with
       | none => .error (.exn .typeError, st0.tr)
       | some xs => lforFold2 (fun st => LStmt.execL o cfg x st (lLoopBody wrapped aw)) .i .item xs 0 st0) := by
    have hcv : st0.env.get .coercedVal = .py y := hinv0.cv
    simp only [lLoop, LStmt.exec, LExp.eval, hcv]
    cases pyIter y <;> rfl
  show outL (match LStmt.exec o cfg x st0 (lLoop wrapped aw) with
    | .error err => .error err
    | .ok (.next st) => LStmt.execL o cfg x st [lFinal]
    | .ok (.returned d st) => .ok (.returned d st)) = _
  rw [hloop]
  cases hit : pyIter y with
  | none => rfl
  | some xs =>
    simp only
    obtain ⟨l1, l2, l3⟩ := lforFold2_items cfg (fun st => LStmt.execL o cfg x st (lLoopBody wrapped aw))
      (fun st n y' rl ie cv hi hy' hinv => lLoopBody_exec o cfg x wrapped aw hw st n y' rl ie cv hi hy' hinv)
      xs 0 st0 [] [] (.py y) hinv0
    cases hl : loopItems cfg.item false xs 0 true with
    | none =>
      obtain ⟨t, ht⟩ := l1 hl
      rw [ht]; rfl
    | some r =>
      cases hr : r.r with
      | some e =>
        rw [l2 r e hl hr]
        simp [outL, finishSeq, hr, st0]
      | none =>
        obtain ⟨st1, h1, h2, h3, rl', h4⟩ := l3 r hl hr
        rw [h1]
        simp only
        rw [lexecL_single, lFinal, lexec_ite]
        have hv : (LExp.var .indexErrs).eval o cfg x st1 = .ok (.idxErrs ([] ++ r.es), st1) := by
          simp [LExp.eval, LEnv.get, h4.ie]
        rw [hv]
        simp only [List.nil_append, ltruthy]
        cases hes : r.es with
        | nil =>
          have hinv1 := h3 (by simp [hes])
          simp only [List.isEmpty_nil, Bool.not_true]
          rw [lexecL_single]
          simp [LStmt.exec, LExp.eval, LEnv.get, hinv1.rl, outL, finishSeq, hr, hes, SeqKind.build, h2, st0]
        | cons a l =>
          simp only [List.isEmpty_cons, Bool.not_false]
          rw [lexecL_single]
          have hie : st1.env.indexErrs = .idxErrs (a :: l) := by rw [h4.ie, hes]; rfl
          simp [LStmt.exec, LExp.eval, LEnv.get, hie, h4.cv, outL, finishSeq, hr, hes, h2, st0]

/-! ### the container predicates -/

/-- the predicates that fail on `z`, in order -/
def lfailing (ps : List Pred) (z : PyVal) : List Pred :=
  ps.filter (fun p => match p.k.call z with | .ok false => true | _ => false)

/-- `[pred for pred in <sync predicates> if not pred(val)]`, generically in the two evaluators -/
theorem lcompFold_sync (evalCond evalElt : LSt → LM LV)
    (Hc : ∀ (st : LSt) (p : Pred) (z : PyVal), st.env.pred = .pred p → st.env.coercedVal = .py z →
      evalCond st = (match p.k.call z with
        | .ok b => .ok (.bool (!b), { st with tr := st.tr ++ p.ev })
        | .error e => .error (.exn e, st.tr ++ p.ev)))
    (He : ∀ (st : LSt) (p : Pred), st.env.pred = .pred p → evalElt st = .ok (.pred p, st)) :
    ∀ (ps : List Pred) (kept : List LV) (st : LSt) (z : PyVal), st.env.coercedVal = .py z →
      (∀ f t e, runPreds ps z = (f, t, some e) →
        lcompFold evalCond evalElt .pred (ps.map LV.pred) (.ok (kept, st)) = .error (.exn e, st.tr ++ t)) ∧
      (∀ f t, runPreds ps z = (f, t, none) →
        f = (lfailing ps z).map (·.pid) ∧
        ∃ st', lcompFold evalCond evalElt .pred (ps.map LV.pred) (.ok (kept, st)) =
            .ok (kept ++ (lfailing ps z).map LV.pred, st') ∧
          st'.env.coercedVal = .py z ∧ st'.tr = st.tr ++ t ∧ st'.env.predicateErrors = st.env.predicateErrors) := by
  intro ps
  induction ps with
  | nil =>
    intro kept st z hz
    refine ⟨?_, ?_⟩
    · intro f t e h; simp [runPreds] at h
    · intro f t h
      simp only [runPreds, Prod.mk.injEq] at h
      obtain ⟨rfl, rfl, _⟩ := h
      exact ⟨rfl, st, by simp [lcompFold, lfailing], hz, by simp, rfl⟩
  | cons p ps ih =>
    intro kept st z hz
    have hset : ({ st with env := st.env.set .pred (.pred p) } : LSt).env.pred = .pred p := rfl
    have hval : ({ st with env := st.env.set .pred (.pred p) } : LSt).env.coercedVal = .py z := hz
    have hc := Hc { st with env := st.env.set .pred (.pred p) } p z hset hval
    cases hcall : p.k.call z with
    | error e0 =>
      rw [hcall] at hc
      refine ⟨?_, ?_⟩
      · intro f t e h
        simp only [runPreds, hcall, Prod.mk.injEq, Option.some.injEq] at h
        obtain ⟨_, rfl, rfl⟩ := h
        simp [lcompFold, hc]
      · intro f t h; simp [runPreds, hcall] at h
    | ok b =>
      rw [hcall] at hc
      cases b with
      | true =>
        -- the predicate holds: nothing kept
        have step : lcompFold evalCond evalElt .pred ((p :: ps).map LV.pred) (.ok (kept, st)) =
            lcompFold evalCond evalElt .pred (ps.map LV.pred)
              (.ok (kept, { env := st.env.set .pred (.pred p), tr := st.tr ++ p.ev })) := by
          simp [lcompFold, hc, ltruthy]
        obtain ⟨ih1, ih2⟩ := ih kept { env := st.env.set .pred (.pred p), tr := st.tr ++ p.ev } z hz
        refine ⟨?_, ?_⟩
        · intro f t e h
          simp only [runPreds, hcall, if_true, Prod.mk.injEq] at h
          obtain ⟨hf, ht, he⟩ := h
          rw [step, ih1 _ _ e (by rw [← he])]
          simp [← ht, List.append_assoc]
        · intro f t h
          simp only [runPreds, hcall, if_true, Prod.mk.injEq] at h
          obtain ⟨hf, ht, he⟩ := h
          obtain ⟨hff, st', h1, h2, h3, h4⟩ := ih2 _ _ (by rw [← he])
          refine ⟨?_, st', ?_, h2, ?_, h4⟩
          · rw [← hf, hff]; simp [lfailing, hcall]
          · rw [step, h1]; simp [lfailing, hcall]
          · rw [h3, ← ht]; simp [List.append_assoc]
      | false =>
        have hset2 : ({ env := st.env.set .pred (.pred p), tr := st.tr ++ p.ev } : LSt).env.pred = .pred p := rfl
        have he := He { env := st.env.set .pred (.pred p), tr := st.tr ++ p.ev } p hset2
        have step : lcompFold evalCond evalElt .pred ((p :: ps).map LV.pred) (.ok (kept, st)) =
            lcompFold evalCond evalElt .pred (ps.map LV.pred)
              (.ok (kept ++ [.pred p], { env := st.env.set .pred (.pred p), tr := st.tr ++ p.ev })) := by
          simp [lcompFold, hc, ltruthy, he]
        obtain ⟨ih1, ih2⟩ := ih (kept ++ [.pred p]) { env := st.env.set .pred (.pred p), tr := st.tr ++ p.ev } z hz
        refine ⟨?_, ?_⟩
        · intro f t e h
          simp only [runPreds, hcall, Bool.false_eq_true, if_false, Prod.mk.injEq] at h
          obtain ⟨hf, ht, he'⟩ := h
          rw [step, ih1 _ _ e (by rw [← he'])]
          simp [← ht, List.append_assoc]
        · intro f t h
          simp only [runPreds, hcall, Bool.false_eq_true, if_false, Prod.mk.injEq] at h
          obtain ⟨hf, ht, he'⟩ := h
          obtain ⟨hff, st', h1, h2, h3, h4⟩ := ih2 _ _ (by rw [← he'])
          refine ⟨?_, st', ?_, h2, ?_, h4⟩
          · rw [← hf, hff]; simp [lfailing, hcall]
          · rw [step, h1]; simp [lfailing, hcall, List.append_assoc]
          · rw [h3, ← ht]; simp [List.append_assoc]


theorem lfilterMap_preds (ps : List Pred) :
    (ps.map LV.pred).filterMap (fun d => match d with | .pred p => some p | .apred p => some p | _ => Option.none) = ps := by
  induction ps with
  | nil => rfl
  | cons p ps ih => simp [ih]

/-- `[pred for pred in self.predicates if not pred(coerced_val)]` (written either way), for a configured list -/
theorem lSyncComp_eval (o : Oracle) (cfg : ListCfg) (x : PyVal) (viaMeth : Bool) (ps : List Pred) (hps : cfg.preds = some ps)
    (st : LSt) (z : PyVal) (hz : st.env.coercedVal = .py z) :
    (∀ f t e, runPreds ps z = (f, t, some e) → (lSyncComp viaMeth).eval o cfg x st = .error (.exn e, st.tr ++ t)) ∧
    (∀ f t, runPreds ps z = (f, t, none) →
      f = (lfailing ps z).map (·.pid) ∧
      ∃ st', (lSyncComp viaMeth).eval o cfg x st = .ok (.preds (lfailing ps z), st') ∧
        st'.env.coercedVal = .py z ∧ st'.tr = st.tr ++ t ∧ st'.env.predicateErrors = st.env.predicateErrors) := by
  let cond : LExp := .not (if viaMeth then .meth (.var .pred) .call (.var .coercedVal) else .call1 (.var .pred) (.var .coercedVal))
  have Hc : ∀ (st : LSt) (p : Pred) (z : PyVal), st.env.pred = .pred p → st.env.coercedVal = .py z →
      cond.eval o cfg x st = (match p.k.call z with
        | .ok b => .ok (.bool (!b), { st with tr := st.tr ++ p.ev })
        | .error e => .error (.exn e, st.tr ++ p.ev)) := by
    intro st p z h1 h2
    cases viaMeth <;> simp only [cond, if_true, Bool.false_eq_true, if_false, LExp.eval, LEnv.get, h1, h2] <;>
      cases p.k.call z <;> simp [ltruthy]
  have He : ∀ (st : LSt) (p : Pred), st.env.pred = .pred p → (LExp.var .pred).eval o cfg x st = .ok (.pred p, st) := by
    intro st p h1
    simp [LExp.eval, LEnv.get, h1]
  obtain ⟨c1, c2⟩ := lcompFold_sync _ _ Hc He ps [] st z hz
  have hunf : (lSyncComp viaMeth).eval o cfg x st =
      (match lcompFold (fun st => cond.eval o cfg x st) (fun st => (LExp.var .pred).eval o cfg x st) .pred (ps.map LV.pred) (.ok ([], st)) with
       | .error err => .error err
       | .ok (kept, st) =>
         let qs := kept.filterMap (fun d => match d with | .pred p => some p | .apred p => some p | _ => Option.none)
         if qs.length = kept.length then .ok (.preds qs, st) else .error (.stuck "comprehension element", st.tr)) := by
    simp only [lSyncComp]
    rw [LExp.eval]
    have hattr : (LExp.selfAttr .predicates).eval o cfg x st = .ok (.preds ps, st) := by
      simp [LExp.eval, lselfAttr, hps, loptList]
    rw [hattr]
    rfl
  refine ⟨?_, ?_⟩
  · intro f t e h
    rw [hunf, c1 f t e h]
  · intro f t h
    obtain ⟨hf, st', h1, h2, h3, h4⟩ := c2 f t h
    refine ⟨hf, st', ?_, h2, h3, h4⟩
    rw [hunf, h1]
    simp only [List.nil_append, lfilterMap_preds, List.length_map, if_true]

/-! ### guard, gate -/

theorem lGuard_exec (o : Oracle) (cfg : ListCfg) (x : PyVal) (st : LSt) (rest : List LStmt) :
    LStmt.execL o cfg x st (lGuard :: rest) =
      (if (cfg.apreds.getD []) ≠ [] then .error (.exn .assertion, st.tr) else LStmt.execL o cfg x st rest) := by
  rw [lexecL_cons, lGuard, lexec_ite]
  have hattr : (LExp.selfAttr .disallowSync).eval o cfg x st =
      .ok (.bool (match cfg.apreds with | some l => !l.isEmpty | none => false), st) := by
    cases h : cfg.apreds <;> simp [LExp.eval, lselfAttr, h]
  rw [hattr]
  cases ha : cfg.apreds with
  | none => simp [ltruthy, lexecL_nil]
  | some l =>
    cases l with
    | nil => simp [ltruthy, lexecL_nil]
    | cons a l' =>
      simp only [ltruthy, List.isEmpty_cons, Bool.not_false, Option.getD_some, ne_eq, reduceCtorEq, not_false_eq_true, if_true]
      rw [lexecL_single]
      simp [LStmt.exec, LExp.eval, lselfAttr]

theorem listCoerce_rej_kind (o : Oracle) (c : CoerceK) (x : PyVal) (k : ErrK) (t : List Ev)
    (h : applyCoerce o .list .list default c x = .rej k t) : k = .coercion (listCompat c) .list := by
  cases c with
  | dflt =>
    simp only [applyCoerce] at h
    split at h
    · simp at h
    · simp only [Gate.rej.injEq] at h; rw [← h.1]; rfl
  | classOnly =>
    simp only [applyCoerce] at h
    split at h
    · split at h
      · split at h <;> simp at h
      · simp only [Gate.rej.injEq] at h; rw [← h.1]; rfl
    · simp only [Gate.rej.injEq] at h; rw [← h.1]; rfl
  | user cid compat f =>
    simp only [applyCoerce] at h
    split at h
    · simp at h
    · simp only [Gate.rej.injEq] at h; rw [← h.1]; rfl

theorem lGate_exec (o : Oracle) (cfg : ListCfg) (x : PyVal) (st : LSt) (rest : List LStmt) :
    (∀ k t, gate o .list .list cfg.coerce x = .rej k t →
      outL (LStmt.execL o cfg x st (lGate :: rest)) = some (.invalid (.mk k x cfg.vid []), st.tr ++ t)) ∧
    (∀ y t, gate o .list .list cfg.coerce x = .acc y t →
      ∃ st', LStmt.execL o cfg x st (lGate :: rest) = LStmt.execL o cfg x st' rest ∧
        st'.env.coercedVal = .py y ∧ st'.tr = st.tr ++ t) := by
  rw [lexecL_cons, lGate, lexec_ite]
  have hattr : ∀ st1 : LSt, (LExp.selfAttr .coerce).eval o cfg x st1 =
      .ok ((match cfg.coerce with | some c => LV.coercer c | none => LV.none), st1) := by
    intro st1; cases h : cfg.coerce <;> simp [LExp.eval, lselfAttr, h]
  rw [hattr]
  cases hc : cfg.coerce with
  | none =>
    simp only [ltruthy, gate]
    rw [lexecL_single, lexec_ite]
    have hcond : (LExp.typeIsList .val).eval o cfg x st = .ok (.bool (x.ty == .list), st) := by
      simp [LExp.eval]
    rw [hcond]
    by_cases hty : x.ty = .list
    · have hb : (x.ty == Ty.list) = true := by simpa using hty
      simp only [hb, ltruthy, if_pos hty]
      refine ⟨?_, ?_⟩
      · intro k t h; simp at h
      · intro y t h
        simp only [Gate.acc.injEq] at h
        obtain ⟨rfl, rfl⟩ := h
        refine ⟨{ st with env := st.env.set .coercedVal (.py x) }, ?_, rfl, by simp⟩
        rw [lexecL_single, lexec_assign]
        simp [LExp.eval]
    · have hb : (x.ty == Ty.list) = false := by simpa using hty
      simp only [hb, ltruthy, if_neg hty]
      refine ⟨?_, ?_⟩
      · intro k t h
        simp only [Gate.rej.injEq] at h
        obtain ⟨rfl, rfl⟩ := h
        simp [lexecL_single, LStmt.exec, LExp.eval, outL]
      · intro y t h; simp at h
  | some c =>
    simp only [ltruthy, gate]
    rw [lexecL_single, lexec_ite]
    have hcond : (LExp.not (.attr (.walrus .coerced (.call1 (.selfAttr .coerce) .val)) .isJust)).eval o cfg x st =
        .ok (.bool (!(callListCoercer o c x).1.isSome),
          { env := st.env.set .coerced (.maybe (callListCoercer o c x).1), tr := st.tr ++ (callListCoercer o c x).2 }) := by
      simp [LExp.eval, lselfAttr, hc, ltruthy]
    rw [hcond]
    cases hg : applyCoerce o .list .list default c x with
    | exn e t =>
      exfalso
      cases c with
      | dflt => simp only [applyCoerce] at hg; split at hg <;> simp at hg
      | classOnly =>
        simp only [applyCoerce] at hg
        split at hg
        · split at hg
          · split at hg <;> simp at hg
          · simp at hg
        · simp at hg
      | user cid compat f => simp only [applyCoerce] at hg; split at hg <;> simp at hg
    | rej k t =>
      have hk := listCoerce_rej_kind o c x k t hg
      have hcc : callListCoercer o c x = (none, t) := by simp [callListCoercer, hg]
      simp only [hcc, Option.isSome_none, Bool.not_false, ltruthy]
      refine ⟨?_, ?_⟩
      · intro k' t' h
        simp only [Gate.rej.injEq] at h
        obtain ⟨rfl, rfl⟩ := h
        simp [lexecL_single, LStmt.exec, LExp.eval, lselfAttr, hc, outL, hk]
      · intro y t' h; simp at h
    | acc y t =>
      have hcc : callListCoercer o c x = (some y, t) := by simp [callListCoercer, hg]
      simp only [hcc, Option.isSome_some, Bool.not_true, ltruthy]
      refine ⟨?_, ?_⟩
      · intro k' t' h; simp at h
      · intro y' t' h
        simp only [Gate.acc.injEq] at h
        obtain ⟨rfl, rfl⟩ := h
        refine ⟨{ env := (st.env.set .coerced (.maybe (some y))).set .coercedVal (.py y), tr := st.tr ++ t }, ?_, rfl, rfl⟩
        rw [lexecL_single, lexec_assign]
        simp [LExp.eval, LEnv.get, LEnv.set]

/-! ### the synchronous method -/

theorem lPredsSync_exec (o : Oracle) (cfg : ListCfg) (x : PyVal) (st : LSt) (y : PyVal) (hy : st.env.coercedVal = .py y)
    (rest : List LStmt) :
    (∀ f t e, runPreds (cfg.preds.getD []) y = (f, t, some e) →
      outL (LStmt.execL o cfg x st (lPredsSync :: rest)) = some (.raised e, st.tr ++ t)) ∧
    (∀ f t, runPreds (cfg.preds.getD []) y = (f, t, none) → f ≠ [] →
      outL (LStmt.execL o cfg x st (lPredsSync :: rest)) = some (.invalid (.mk (.preds f) y cfg.vid []), st.tr ++ t)) ∧
    (∀ t, runPreds (cfg.preds.getD []) y = ([], t, none) →
      ∃ st', LStmt.execL o cfg x st (lPredsSync :: rest) = LStmt.execL o cfg x st' rest ∧
        st'.env.coercedVal = .py y ∧ st'.tr = st.tr ++ t) := by
  rw [lexecL_cons, lPredsSync, lexec_ite]
  have hattr : (LExp.selfAttr .predicates).eval o cfg x st = .ok (loptList .preds cfg.preds, st) := by
    simp [LExp.eval, lselfAttr]
  rw [hattr]
  cases hp : cfg.preds with
  | none =>
    simp only [loptList, ltruthy, lexecL_nil, Option.getD_none]
    refine ⟨?_, ?_, ?_⟩
    · intro f t e h; simp [runPreds] at h
    · intro f t h hne
      simp only [runPreds, Prod.mk.injEq] at h
      exact absurd h.1.symm hne
    · intro t h
      simp only [runPreds, Prod.mk.injEq] at h
      exact ⟨st, rfl, hy, by rw [← h.2.1]; simp⟩
  | some ps =>
    cases ps with
    | nil =>
      simp only [loptList, ltruthy, List.isEmpty_nil, Bool.not_true, lexecL_nil, Option.getD_some]
      refine ⟨?_, ?_, ?_⟩
      · intro f t e h; simp [runPreds] at h
      · intro f t h hne
        simp only [runPreds, Prod.mk.injEq] at h
        exact absurd h.1.symm hne
      · intro t h
        simp only [runPreds, Prod.mk.injEq] at h
        exact ⟨st, rfl, hy, by rw [← h.2.1]; simp⟩
    | cons p ps' =>
      simp only [loptList, ltruthy, List.isEmpty_cons, Bool.not_false, Option.getD_some]
      obtain ⟨c1, c2⟩ := lSyncComp_eval o cfg x true (p :: ps') hp st y hy
      rw [lexecL_cons, lexec_assign]
      refine ⟨?_, ?_, ?_⟩
      · intro f t e h
        rw [c1 f t e h]
        rfl
      · intro f t h hne
        obtain ⟨hf, st', h1, h2, h3, _⟩ := c2 f t h
        rw [h1]
        simp only
        rw [lexecL_single, lexec_ite]
        have hv : (LExp.var .listErrors).eval o cfg x { env := st'.env.set .listErrors (.preds (lfailing (p :: ps') y)), tr := st'.tr } =
            .ok (.preds (lfailing (p :: ps') y), { env := st'.env.set .listErrors (.preds (lfailing (p :: ps') y)), tr := st'.tr }) := by
          simp [LExp.eval, LEnv.get, LEnv.set]
        rw [hv]
        have hne2 : (!(lfailing (p :: ps') y).isEmpty) = true := by
          cases hq : lfailing (p :: ps') y with
          | nil => rw [hq] at hf; simp at hf; exact absurd hf hne
          | cons a l => rfl
        simp only [ltruthy, hne2]
        rw [lexecL_single]
        simp [LStmt.exec, LExp.eval, LEnv.get, LEnv.set, h2, outL, h3, ← hf]
      · intro t h
        obtain ⟨hf, st', h1, h2, h3, _⟩ := c2 [] t h
        rw [h1]
        simp only
        rw [lexecL_single, lexec_ite]
        have hfe : lfailing (p :: ps') y = [] := by
          have := hf.symm; simpa using this
        have hv : (LExp.var .listErrors).eval o cfg x { env := st'.env.set .listErrors (.preds (lfailing (p :: ps') y)), tr := st'.tr } =
            .ok (.preds [], { env := st'.env.set .listErrors (.preds (lfailing (p :: ps') y)), tr := st'.tr }) := by
          simp [LExp.eval, LEnv.get, LEnv.set, hfe]
        rw [hv]
        simp only [ltruthy, List.isEmpty_nil, Bool.not_true, lexecL_nil]
        exact ⟨_, rfl, by simpa [LEnv.set] using h2, h3⟩

/-- **the synchronous list validator, as written in the source, is the model's `seqStep .list`** -/
theorem src_list_sync (o : Oracle) (cfg : ListCfg) (x : PyVal) :
    runListMethod o cfg Src.listSync x =
      seqStep .list o .sync cfg.vid (cfg.preds.getD []) (cfg.apreds.getD []) cfg.coerce cfg.item x := by
  rw [runListMethod_eq, listSync_eq, lGuard_exec]
  simp only [seqStep, seqPre, SeqKind.gateTy, SeqKind.destTy]
  by_cases hap : cfg.apreds.getD [] = []
  · simp only [hap, ne_eq, not_true_eq_false, if_false, and_false]
    obtain ⟨g1, g2⟩ := lGate_exec o cfg x { env := {}, tr := [] } (lPredsSync :: lTail .wrappedSync false)
    cases hg : gate o .list .list cfg.coerce x with
    | exn e t => exact absurd hg (gate_noexn o .list .list cfg.coerce x e t)
    | rej k t => rw [g1 k t hg]; simp
    | acc y t =>
      obtain ⟨st', h1, h2, h3⟩ := g2 y t hg
      rw [h1]
      obtain ⟨p1, p2, p3⟩ := lPredsSync_exec o cfg x st' y h2 (lTail .wrappedSync false)
      simp only [contPreds]
      rcases hr : runPreds (cfg.preds.getD []) y with ⟨f, t2, ex⟩
      cases ex with
      | some e => rw [p1 f t2 e hr, h3]; simp
      | none =>
        simp only [reduceCtorEq, if_false]
        cases f with
        | cons a l =>
          rw [p2 (a :: l) t2 hr (by simp), h3]; simp
        | nil =>
          obtain ⟨st'', q1, q2, q3⟩ := p3 t2 hr
          rw [q1, lTail_exec o cfg x .wrappedSync false (.inl rfl) st'' y q2, q3, h3]
          simp only [List.isEmpty_nil, Bool.not_true, Bool.false_eq_true, if_false, List.nil_append]
          cases pyIter y with
          | none => rfl
          | some xs =>
            simp only
            have : ((SeqKind.list == SeqKind.set) = false) := by decide
            rw [this]
            cases loopItems cfg.item false xs 0 true <;> rfl
  · simp [hap, outL]

/-! ### the asynchronous method: container predicates -/

/-- `predicate_errors` holds the predicate objects `qs` (an empty Python list has no element type) -/
def IsErrs (v : LV) (qs : List Pred) : Prop := v = .preds qs ∨ (qs = [] ∧ v = .payloads [])

def lAsyncBody : List LStmt :=
  [.ite (.not (.await (.meth (.var .predAsync) .validateAsync (.var .coercedVal))))
     [.append .predicateErrors (.var .predAsync)] []]

/-- `for pred_async in self.predicates_async: if not await pred_async.validate_async(coerced_val): predicate_errors.append(pred_async)` -/
theorem lforFold_apreds (o : Oracle) (cfg : ListCfg) (x : PyVal) :
    ∀ (aps : List Pred) (st : LSt) (z : PyVal) (qs : List Pred), st.env.coercedVal = .py z →
      IsErrs st.env.predicateErrors qs →
      (∀ f t e, runAPreds aps z = (f, t, some e) →
        lforFold (fun st => LStmt.execL o cfg x st lAsyncBody) .predAsync (aps.map LV.apred) st = .error (.exn e, st.tr ++ t)) ∧
      (∀ f t, runAPreds aps z = (f, t, none) →
        f = (lfailing aps z).map (·.pid) ∧
        ∃ st', lforFold (fun st => LStmt.execL o cfg x st lAsyncBody) .predAsync (aps.map LV.apred) st = .ok (.next st') ∧
          st'.env.coercedVal = .py z ∧ st'.tr = st.tr ++ t ∧ IsErrs st'.env.predicateErrors (qs ++ lfailing aps z)) := by
  intro aps
  induction aps with
  | nil =>
    intro st z qs hz hq
    refine ⟨?_, ?_⟩
    · intro f t e h; simp [runAPreds] at h
    · intro f t h
      simp only [runAPreds, Prod.mk.injEq] at h
      obtain ⟨rfl, rfl, _⟩ := h
      exact ⟨rfl, st, by simp [lforFold], hz, by simp, by simpa [lfailing] using hq⟩
  | cons p ps ih =>
    intro st z qs hz hq
    -- one round
    have hround : LStmt.execL o cfg x { st with env := st.env.set .predAsync (.apred p) } lAsyncBody =
        (match p.k.call z with
         | .error e => .error (.exn e, st.tr ++ [Ev.apred p.pid])
         | .ok true => .ok (.next { env := st.env.set .predAsync (.apred p), tr := st.tr ++ [Ev.apred p.pid] })
         | .ok false => .ok (.next { env := (st.env.set .predAsync (.apred p)).set .predicateErrors (.preds (qs ++ [p])),
                                     tr := st.tr ++ [Ev.apred p.pid] })) := by
      rw [lAsyncBody, lexecL_single, lexec_ite]
      have hc : (LExp.not (.await (.meth (.var .predAsync) .validateAsync (.var .coercedVal)))).eval o cfg x
            { st with env := st.env.set .predAsync (.apred p) } =
          (match p.k.call z with
           | .ok b => .ok (.bool (!b), { env := st.env.set .predAsync (.apred p), tr := st.tr ++ [Ev.apred p.pid] })
           | .error e => .error (.exn e, st.tr ++ [Ev.apred p.pid])) := by
        simp only [LExp.eval, LEnv.get, LEnv.set, hz]
        cases p.k.call z <;> simp [ltruthy]
      rw [hc]
      cases hcall : p.k.call z with
      | error e => rfl
      | ok b =>
        cases b with
        | true => simp [ltruthy, lexecL_nil]
        | false =>
          simp only [Bool.not_false, ltruthy]
          rw [lexecL_single]
          rcases hq with hq | ⟨rfl, hq⟩
          · simp [LStmt.exec, LExp.eval, LEnv.get, LEnv.set, hq]
          · simp [LStmt.exec, LExp.eval, LEnv.get, LEnv.set, hq]
    simp only [List.map_cons, lforFold, hround]
    cases hcall : p.k.call z with
    | error e0 =>
      refine ⟨?_, ?_⟩
      · intro f t e h
        simp only [runAPreds, hcall, Prod.mk.injEq, Option.some.injEq] at h
        obtain ⟨_, rfl, rfl⟩ := h
        rfl
      · intro f t h; simp [runAPreds, hcall] at h
    | ok b =>
      cases b with
      | true =>
        obtain ⟨i1, i2⟩ := ih { env := st.env.set .predAsync (.apred p), tr := st.tr ++ [Ev.apred p.pid] } z qs
          (by simpa [LEnv.set] using hz) (by simpa [LEnv.set] using hq)
        simp only
        refine ⟨?_, ?_⟩
        · intro f t e h
          simp only [runAPreds, hcall, if_true, Prod.mk.injEq] at h
          obtain ⟨_, ht, he⟩ := h
          rw [i1 _ _ e (by rw [← he])]
          simp [← ht]
        · intro f t h
          simp only [runAPreds, hcall, if_true, Prod.mk.injEq] at h
          obtain ⟨hf, ht, he⟩ := h
          obtain ⟨hff, st', h1, h2, h3, h4⟩ := i2 _ _ (by rw [← he])
          refine ⟨?_, st', h1, h2, ?_, ?_⟩
          · rw [← hf, hff]; simp [lfailing, hcall]
          · rw [h3, ← ht]; simp
          · simpa [lfailing, hcall] using h4
      | false =>
        obtain ⟨i1, i2⟩ := ih { env := (st.env.set .predAsync (.apred p)).set .predicateErrors (.preds (qs ++ [p])),
                                tr := st.tr ++ [Ev.apred p.pid] } z (qs ++ [p])
          (by simpa [LEnv.set] using hz) (.inl (by simp [LEnv.set]))
        simp only
        refine ⟨?_, ?_⟩
        · intro f t e h
          simp only [runAPreds, hcall, Bool.false_eq_true, if_false, Prod.mk.injEq] at h
          obtain ⟨_, ht, he⟩ := h
          rw [i1 _ _ e (by rw [← he])]
          simp [← ht]
        · intro f t h
          simp only [runAPreds, hcall, Bool.false_eq_true, if_false, Prod.mk.injEq] at h
          obtain ⟨hf, ht, he⟩ := h
          obtain ⟨hff, st', h1, h2, h3, h4⟩ := i2 _ _ (by rw [← he])
          refine ⟨?_, st', h1, h2, ?_, ?_⟩
          · rw [← hf, hff]; simp [lfailing, hcall]
          · rw [h3, ← ht]; simp
          · simpa [lfailing, hcall, List.append_assoc] using h4

theorem isErrs_truthy {v : LV} {qs : List Pred} (h : IsErrs v qs) : ltruthy v = some (!qs.isEmpty) := by
  rcases h with rfl | ⟨rfl, rfl⟩ <;> rfl

/-- the container predicates of the asynchronous method, then the rest -/
theorem lAsyncPreds_exec (o : Oracle) (cfg : ListCfg) (x : PyVal) (st : LSt) (y : PyVal) (hy : st.env.coercedVal = .py y)
    (rest : List LStmt) :
    (∀ f t e, contPreds .async (cfg.preds.getD []) (cfg.apreds.getD []) y = (f, t, some e) →
      outL (LStmt.execL o cfg x st (lAsyncPreds ++ rest)) = some (.raised e, st.tr ++ t)) ∧
    (∀ f t, contPreds .async (cfg.preds.getD []) (cfg.apreds.getD []) y = (f, t, none) → f ≠ [] →
      outL (LStmt.execL o cfg x st (lAsyncPreds ++ rest)) = some (.invalid (.mk (.preds f) y cfg.vid []), st.tr ++ t)) ∧
    (∀ t, contPreds .async (cfg.preds.getD []) (cfg.apreds.getD []) y = ([], t, none) →
      ∃ st', LStmt.execL o cfg x st (lAsyncPreds ++ rest) = LStmt.execL o cfg x st' rest ∧
        st'.env.coercedVal = .py y ∧ st'.tr = st.tr ++ t) := by
  -- stage 1 + 2: `predicate_errors = []`, then the synchronous predicates
  have stage12 :
      (∀ f t e, runPreds (cfg.preds.getD []) y = (f, t, some e) →
        ∀ rest', LStmt.execL o cfg x st
          (.assign .predicateErrors .emptyList ::
            .ite (.selfAttr .predicates) [.extend .predicateErrors (lSyncComp false)] [] :: rest') = .error (.exn e, st.tr ++ t)) ∧
      (∀ f t, runPreds (cfg.preds.getD []) y = (f, t, none) →
        f = (lfailing (cfg.preds.getD []) y).map (·.pid) ∧
        ∃ st1, (∀ rest', LStmt.execL o cfg x st
          (.assign .predicateErrors .emptyList ::
            .ite (.selfAttr .predicates) [.extend .predicateErrors (lSyncComp false)] [] :: rest') = LStmt.execL o cfg x st1 rest') ∧
          st1.env.coercedVal = .py y ∧ st1.tr = st.tr ++ t ∧ IsErrs st1.env.predicateErrors (lfailing (cfg.preds.getD []) y)) := by
    have hassign : ∀ rest', LStmt.execL o cfg x st (.assign .predicateErrors .emptyList :: rest') =
        LStmt.execL o cfg x { st with env := st.env.set .predicateErrors (.payloads []) } rest' := by
      intro rest'; rw [lexecL_cons, lexec_assign]; simp [LExp.eval]
    have hy0 : ({ st with env := st.env.set .predicateErrors (.payloads []) } : LSt).env.coercedVal = .py y := by
      simpa [LEnv.set] using hy
    have hattr : ∀ st1 : LSt, (LExp.selfAttr .predicates).eval o cfg x st1 = .ok (loptList .preds cfg.preds, st1) := by
      intro st1; simp [LExp.eval, lselfAttr]
    have hskip : ltruthy (loptList .preds cfg.preds) = some false → cfg.preds.getD [] = [] →
        (∀ f t e, runPreds (cfg.preds.getD []) y = (f, t, some e) → False) ∧
        (∀ f t, runPreds (cfg.preds.getD []) y = (f, t, none) →
          f = (lfailing (cfg.preds.getD []) y).map (·.pid) ∧
          ∃ st1, (∀ rest', LStmt.execL o cfg x st
            (.assign .predicateErrors .emptyList ::
              .ite (.selfAttr .predicates) [.extend .predicateErrors (lSyncComp false)] [] :: rest') = LStmt.execL o cfg x st1 rest') ∧
            st1.env.coercedVal = .py y ∧ st1.tr = st.tr ++ t ∧ IsErrs st1.env.predicateErrors (lfailing (cfg.preds.getD []) y)) := by
      intro htr h0
      rw [h0]
      refine ⟨fun f t e h => by simp [runPreds] at h, ?_⟩
      intro f t h
      simp only [runPreds, Prod.mk.injEq] at h
      obtain ⟨rfl, rfl, _⟩ := h
      refine ⟨rfl, { st with env := st.env.set .predicateErrors (.payloads []) }, ?_, hy0, by simp, .inr ⟨rfl, by simp [LEnv.set]⟩⟩
      intro rest'
      rw [hassign, lexecL_cons, lexec_ite, hattr]
      dsimp only
      rw [htr]
      simp only [lexecL_nil]
    cases hp : cfg.preds with
    | none =>
      obtain ⟨a, b⟩ := hskip (by rw [hp]; rfl) (by rw [hp]; rfl)
      rw [hp] at a b
      exact ⟨fun f t e h => absurd (a f t e h) id, b⟩
    | some ps =>
      cases ps with
      | nil =>
        obtain ⟨a, b⟩ := hskip (by rw [hp]; rfl) (by rw [hp]; rfl)
        rw [hp] at a b
        exact ⟨fun f t e h => absurd (a f t e h) id, b⟩
      | cons p ps' =>
        obtain ⟨c1, c2⟩ := lSyncComp_eval o cfg x false (p :: ps') hp
          { st with env := st.env.set .predicateErrors (.payloads []) } y hy0
        have hunf : ∀ rest', LStmt.execL o cfg x st
            (.assign .predicateErrors .emptyList ::
              .ite (.selfAttr .predicates) [.extend .predicateErrors (lSyncComp false)] [] :: rest') =
            (match LStmt.exec o cfg x { st with env := st.env.set .predicateErrors (.payloads []) }
                (.extend .predicateErrors (lSyncComp false)) with
             | .error err => .error err
             | .ok (.next st) => LStmt.execL o cfg x st rest'
             | .ok (.returned d st) => .ok (.returned d st)) := by
          intro rest'
          rw [hassign, lexecL_cons, lexec_ite, hattr, hp]
          simp only [loptList, ltruthy, List.isEmpty_cons, Bool.not_false]
          rw [lexecL_single]
        have hext_err : ∀ rest' err, (lSyncComp false).eval o cfg x { st with env := st.env.set .predicateErrors (.payloads []) } = .error err →
            LStmt.execL o cfg x st
              (.assign .predicateErrors .emptyList ::
                .ite (.selfAttr .predicates) [.extend .predicateErrors (lSyncComp false)] [] :: rest') = .error err := by
          intro rest' err he
          rw [hunf]
          simp only [LStmt.exec, he]
        have hext_ok : ∀ rest' qs st2, (lSyncComp false).eval o cfg x { st with env := st.env.set .predicateErrors (.payloads []) } = .ok (.preds qs, st2) →
            st2.env.get .predicateErrors = .payloads [] →
            LStmt.execL o cfg x st
              (.assign .predicateErrors .emptyList ::
                .ite (.selfAttr .predicates) [.extend .predicateErrors (lSyncComp false)] [] :: rest') =
              LStmt.execL o cfg x { st2 with env := st2.env.set .predicateErrors (.preds qs) } rest' := by
          intro rest' qs st2 he hg
          rw [hunf]
          simp only [LStmt.exec, he, hg]
        simp only [Option.getD_some]
        refine ⟨?_, ?_⟩
        · intro f t e h rest'
          exact hext_err rest' _ (c1 f t e h)
        · intro f t h
          obtain ⟨hf, st', h1, h2, h3, h4⟩ := c2 f t h
          refine ⟨hf, { st' with env := st'.env.set .predicateErrors (.preds (lfailing (p :: ps') y)) }, ?_,
            by simpa [LEnv.set] using h2, h3, .inl (by simp [LEnv.set])⟩
          intro rest'
          have hpe : st'.env.get .predicateErrors = .payloads [] := by
            simp only [LEnv.get]; rw [h4]; simp [LEnv.set]
          exact hext_ok rest' _ st' h1 hpe
  obtain ⟨s1, s2⟩ := stage12
  simp only [lAsyncPreds, List.cons_append, List.nil_append]
  rcases hr : runPreds (cfg.preds.getD []) y with ⟨f1, t1, ex1⟩
  cases ex1 with
  | some e1 =>
    have hcp : contPreds .async (cfg.preds.getD []) (cfg.apreds.getD []) y = ([], t1, some e1) := by
      simp [contPreds, hr]
    refine ⟨?_, ?_, ?_⟩
    · intro f t e h
      rw [hcp] at h
      simp only [Prod.mk.injEq, Option.some.injEq] at h
      obtain ⟨_, rfl, rfl⟩ := h
      rw [s1 f1 t1 e1 hr]; rfl
    · intro f t h; rw [hcp] at h; simp at h
    · intro t h; rw [hcp] at h; simp at h
  | none =>
    obtain ⟨hf1, st1, e1, hy1, ht1, hq1⟩ := s2 f1 t1 hr
    rw [e1]
    -- stage 3: the asynchronous predicates
    have hattrA : ∀ stx : LSt, (LExp.isNotNone (.selfAttr .predicatesAsync)).eval o cfg x stx =
        .ok (.bool cfg.apreds.isSome, stx) := by
      intro stx
      cases ha : cfg.apreds <;> simp [LExp.eval, lselfAttr, ha, loptList]
    have stage3 : ∀ rest',
        (∀ f t e, runAPreds (cfg.apreds.getD []) y = (f, t, some e) →
          LStmt.execL o cfg x st1 (.ite (.isNotNone (.selfAttr .predicatesAsync))
            [.forIn .predAsync (.selfAttr .predicatesAsync) lAsyncBody] [] :: rest') = .error (.exn e, st1.tr ++ t)) ∧
        (∀ f t, runAPreds (cfg.apreds.getD []) y = (f, t, none) →
          f = (lfailing (cfg.apreds.getD []) y).map (·.pid) ∧
          ∃ st2, LStmt.execL o cfg x st1 (.ite (.isNotNone (.selfAttr .predicatesAsync))
              [.forIn .predAsync (.selfAttr .predicatesAsync) lAsyncBody] [] :: rest') = LStmt.execL o cfg x st2 rest' ∧
            st2.env.coercedVal = .py y ∧ st2.tr = st1.tr ++ t ∧
            IsErrs st2.env.predicateErrors (lfailing (cfg.preds.getD []) y ++ lfailing (cfg.apreds.getD []) y)) := by
      intro rest'
      rw [lexecL_cons, lexec_ite, hattrA]
      cases ha : cfg.apreds with
      | none =>
        simp only [Option.isSome_none, ltruthy, lexecL_nil, Option.getD_none]
        refine ⟨fun f t e h => by simp [runAPreds] at h, ?_⟩
        intro f t h
        simp only [runAPreds, Prod.mk.injEq] at h
        obtain ⟨rfl, rfl, _⟩ := h
        exact ⟨rfl, st1, rfl, hy1, by simp, by simpa [lfailing] using hq1⟩
      | some aps =>
        simp only [Option.isSome_some, ltruthy, Option.getD_some]
        rw [lexecL_single]
        have hfor : LStmt.exec o cfg x st1 (.forIn .predAsync (.selfAttr .predicatesAsync) lAsyncBody) =
            lforFold (fun st => LStmt.execL o cfg x st lAsyncBody) .predAsync (aps.map LV.apred) st1 := by
          simp only [LStmt.exec, LExp.eval, lselfAttr, ha, loptList]
        rw [hfor]
        obtain ⟨a1, a2⟩ := lforFold_apreds o cfg x aps st1 y _ hy1 hq1
        refine ⟨?_, ?_⟩
        · intro f t e h
          rw [a1 f t e h]
        · intro f t h
          obtain ⟨hf, st2, g1, g2, g3, g4⟩ := a2 f t h
          exact ⟨hf, st2, by rw [g1], g2, g3, g4⟩
    have lAsyncBody_eq : [LStmt.ite (.not (.await (.meth (.var .predAsync) .validateAsync (.var .coercedVal))))
        [.append .predicateErrors (.var .predAsync)] []] = lAsyncBody := rfl
    rw [lAsyncBody_eq]
    obtain ⟨t3a, t3b⟩ := stage3 (.ite (.var .predicateErrors)
      [.ret (.pair (.bool false) (.mkInvalid (.mkPredErrs (.var .predicateErrors)) (.var .coercedVal) .self))] [] :: rest)
    rcases hra : runAPreds (cfg.apreds.getD []) y with ⟨f2, t2, ex2⟩
    have hcp : contPreds .async (cfg.preds.getD []) (cfg.apreds.getD []) y = (f1 ++ f2, t1 ++ t2, ex2) := by
      simp [contPreds, hr, hra]
    cases ex2 with
    | some e2 =>
      refine ⟨?_, ?_, ?_⟩
      · intro f t e h
        rw [hcp] at h
        simp only [Prod.mk.injEq, Option.some.injEq] at h
        obtain ⟨_, rfl, rfl⟩ := h
        rw [t3a f2 t2 e2 hra, ht1]
        simp [outL, List.append_assoc]
      · intro f t h; rw [hcp] at h; simp at h
      · intro t h; rw [hcp] at h; simp at h
    | none =>
      obtain ⟨hf2, st2, g1, g2, g3, g4⟩ := t3b f2 t2 hra
      rw [g1, lexecL_cons, lexec_ite]
      have hv : (LExp.var .predicateErrors).eval o cfg x st2 = .ok (st2.env.predicateErrors, st2) := by
        simp [LExp.eval, LEnv.get]
      rw [hv]
      simp only [isErrs_truthy g4]
      refine ⟨?_, ?_, ?_⟩
      · intro f t e h; rw [hcp] at h; simp at h
      · intro f t h hne
        rw [hcp] at h
        simp only [Prod.mk.injEq] at h
        obtain ⟨rfl, rfl, _⟩ := h
        have hne2 : (lfailing (cfg.preds.getD []) y ++ lfailing (cfg.apreds.getD []) y) ≠ [] := by
          intro h0
          apply hne
          rw [hf1, hf2, ← List.map_append, h0]; rfl
        have hemp : (!(lfailing (cfg.preds.getD []) y ++ lfailing (cfg.apreds.getD []) y).isEmpty) = true := by
          cases hq : (lfailing (cfg.preds.getD []) y ++ lfailing (cfg.apreds.getD []) y) with
          | nil => exact absurd hq hne2
          | cons a l => rfl
        rw [hemp]
        simp only
        rw [lexecL_single]
        have hpe : st2.env.predicateErrors = .preds (lfailing (cfg.preds.getD []) y ++ lfailing (cfg.apreds.getD []) y) := by
          rcases g4 with g4 | ⟨g4, _⟩
          · exact g4
          · exact absurd g4 hne2
        simp [LStmt.exec, LExp.eval, LEnv.get, hpe, g2, outL, g3, ht1, hf1, hf2, List.append_assoc]
      · intro t h
        rw [hcp] at h
        simp only [Prod.mk.injEq] at h
        obtain ⟨h0, rfl, _⟩ := h
        have hemp : (lfailing (cfg.preds.getD []) y ++ lfailing (cfg.apreds.getD []) y) = [] := by
          have : (f1 ++ f2) = [] := h0
          rw [hf1, hf2, ← List.map_append] at this
          exact List.map_eq_nil_iff.mp this
        rw [hemp]
        simp only [List.isEmpty_nil, Bool.not_true, lexecL_nil]
        exact ⟨st2, rfl, g2, by rw [g3, ht1]; simp [List.append_assoc]⟩

/-- **the asynchronous list validator, as written in the source, is the model's `seqStep .list`** -/
theorem src_list_async (o : Oracle) (cfg : ListCfg) (x : PyVal) :
    runListMethod o cfg Src.listAsync x =
      seqStep .list o .async cfg.vid (cfg.preds.getD []) (cfg.apreds.getD []) cfg.coerce cfg.item x := by
  rw [runListMethod_eq, listAsync_eq]
  simp only [seqStep, seqPre, SeqKind.gateTy, SeqKind.destTy]
  have hm : ¬ (Mode.async = Mode.sync ∧ cfg.apreds.getD [] ≠ []) := by simp
  simp only [hm, if_false]
  obtain ⟨g1, g2⟩ := lGate_exec o cfg x { env := {}, tr := [] } (lAsyncPreds ++ lTail .wrappedAsync true)
  cases hg : gate o .list .list cfg.coerce x with
  | exn e t => exact absurd hg (gate_noexn o .list .list cfg.coerce x e t)
  | rej k t => rw [g1 k t hg]; simp
  | acc y t =>
    obtain ⟨st', h1, h2, h3⟩ := g2 y t hg
    rw [h1]
    obtain ⟨p1, p2, p3⟩ := lAsyncPreds_exec o cfg x st' y h2 (lTail .wrappedAsync true)
    rcases hr : contPreds .async (cfg.preds.getD []) (cfg.apreds.getD []) y with ⟨f, t2, ex⟩
    cases ex with
    | some e => rw [p1 f t2 e hr, h3]; dsimp only; rw [hr]; simp
    | none =>
      cases f with
      | cons a l => rw [p2 (a :: l) t2 hr (by simp), h3]; dsimp only; rw [hr]; simp
      | nil =>
        obtain ⟨st'', q1, q2, q3⟩ := p3 t2 hr
        rw [q1, lTail_exec o cfg x .wrappedAsync true (.inr rfl) st'' y q2, q3, h3]
        dsimp only
        rw [hr]
        simp only [List.isEmpty_nil, Bool.not_true, Bool.false_eq_true, if_false, List.nil_append]
        cases pyIter y with
        | none => rfl
        | some xs =>
          simp only
          have : ((SeqKind.list == SeqKind.set) = false) := by decide
          rw [this]
          cases loopItems cfg.item false xs 0 true <;> rfl

/-! ### what `__init__` and the two wrappers contribute (pinned text) -/

/-- `_disallow_synchronous = bool(predicates_async)`; the item validator is wrapped once, by `_wrap_sync_validator` /
    `_wrap_async_validator` -/
theorem src_list_init : Src.listInit =
    "self.item_validator = item_validator ; self.predicates = predicates ; self.predicates_async = predicates_async ; self._disallow_synchronous = bool(predicates_async) ; self.coerce = coerce ; self._wrapped_item_validator_sync = _wrap_sync_validator(item_validator) ; self._wrapped_item_validator_async = _wrap_async_validator(item_validator)" := rfl

/-- the wrappers turn either flavour of validator into a function returning `(is_valid, payload-or-Invalid)` -/
theorem src_list_wraps : Src.listWraps =
    ["_wrap_async_validator: if isinstance(obj, _ToTupleValidator):     return obj._validate_to_tuple_async else:     async_validator = obj.validate_async      async def inner(v: Any) -> _ResultTuple[A]:         result = await async_validator(v)         if result.is_valid:             return (True, result.val)         else:             return (False, result)     return inner", "_wrap_sync_validator: if isinstance(obj, _ToTupleValidator):     return obj._validate_to_tuple else:      def inner(v: Any) -> _ResultTuple[A]:         result = obj(v)         if result.is_valid:             return (True, result.val)         else:             return (False, result)     return inner"] := rfl

/-! ### non-vacuity: `ListValidator(IntValidator())` on `[1, "a", 2]` through the translated source -/

example : runListMethod default
      ⟨1, fun y => some (scalarStep default .sync 2 .int none [] [] [] y), none, none, none⟩ Src.listSync
      (.list 9 [.int 1, .str [97], .int 2]) =
    some (.invalid (.mk (.index [1]) (.list 9 [.int 1, .str [97], .int 2]) 1 [.mk (.type .int) (.str [97]) 2 []]), []) := by
  rw [src_list_sync]; rfl

end Koda
