/-
  C11, tied to the source for the predicate keywords: the per-predicate agreement theorems (`PredOK_*`: evaluating the
  keywords `predSchema` emits for a predicate on a value gives exactly `holds p x`) are about the keywords the
  *translated* `generate_schema_predicate` emits, because the two are equal (`src_pred_schema`).
-/
import KodaModel.Properties.C10Src
import KodaModel.Properties.C11

namespace Koda

/-- `PredOK`, read off the translated source instead of the model -/
def PredOKSrc (pr : Printer) (root : J) (ref : Option (List Nat)) (p : PredK) (x : PyVal) : Prop :=
  ∀ po, runGenSchemaPred pr Src.genSchemaPredicate p = .ok po →
    keysNodup po = true ∧ hasKey po (kw "nullable") = false ∧ hasKey po (kw "allOf") = false ∧
    hasKey po (kw "type") = false ∧
    ∀ ev o', allM (fun kv => evalKw ev root ref o' kv.1 kv.2 x) po = some (holds p x)

/-- every agreement proved for the model's keywords holds for the keywords of the code as written today -/
theorem C11_src_pred (pr : Printer) (root : J) (ref : Option (List Nat)) (p : PredK) (x : PyVal)
    (h : PredOK pr root ref p x) : PredOKSrc pr root ref p x := by
  intro po hpo
  rw [src_pred_schema] at hpo
  exact h po hpo

/-- e.g. `MinLength(n)` on a string: what the source emits (`{"minLength": n}`) evaluates to `len(s) >= n` -/
theorem C11_src_minLength (pr : Printer) (root : J) (ref : Option (List Nat)) (n : Int) (s : List Nat) :
    PredOKSrc pr root ref (.minLength n) (.str s) :=
  C11_src_pred pr root ref _ _ (PredOK_minLength pr root ref n s)

end Koda
