/-
  C05 — the union loop *as written in /repo's current source*.

  `Generated/UnionSrc.lean` is rewritten on every run from the AST of `_union_validator` and
  `_union_validator_async` (koda_validate/_internal.py), the loop both `UnionValidator` and
  `OptionalValidator` delegate to (`src_union_uses` pins those one-line delegations).  Interpreting the
  translated bodies (`KodaModel/PyUnion.lean`) is the model's `unionStep`: for every list of variants, of either
  flavour, and every input — the first accepting variant's payload, later variants not consulted; every
  variant's error in order otherwise; a raising or non-returning variant ends the call.
-/
import KodaModel.Generated.UnionSrc

namespace Koda

/-! ### the pieces -/

def uBody (toTuple callM : UMeth) (aw : Bool) : List UStmt :=
  let w (e : UExp) : UExp := if aw then .await e else e
  [.ite (.isToTuple (.var .validator))
     [.assign .resultTup (w (.meth (.var .validator) toTuple (.param .val))),
      .ite (.subscript (.var .resultTup) 0)
        [.ret (.pair (.bool true) (.subscript (.var .resultTup) 1))]
        [.append .errs (.subscript (.var .resultTup) 1)]]
     [.assign .result (w (.meth (.var .validator) callM (.param .val))),
      .ite (.attr (.var .result) .isValid)
        [.ret (.pair (.bool true) (.attr (.var .result) .valA))]
        [.append .errs (.var .result)]]]

def uRet : UStmt := .ret (.pair (.bool false) (.mkUnionInvalid (.var .errs) (.param .val) (.param .sourceValidator)))

theorem unionSync_eq : Src.unionSync =
    [.assign .errs .emptyList, .forIn .validator (.param .validators) (uBody .validateToTuple .call false), uRet] := rfl

theorem unionAsync_eq : Src.unionAsync =
    [.assign .errs .emptyList, .forIn .validator (.param .validators) (uBody .validateToTupleAsync .validateAsync true), uRet] := rfl

/-! ### one variant -/

theorem uBody_exec (cx : UCtx) (tt cm : UMeth) (aw : Bool)
    (hm : (tt = .validateToTuple ∧ cm = .call) ∨ (tt = .validateToTupleAsync ∧ cm = .validateAsync))
    (st : USt) (c : UChild) (es0 : List Inv) (hv : st.env.validator = .child c) (he : st.env.errs = .invs es0) :
    (c.ev cx.x = none → ∃ t, UStmt.execL cx st (uBody tt cm aw) = .error (.diverge, t)) ∧
    (∀ e t, c.ev cx.x = some (.raised e, t) → UStmt.execL cx st (uBody tt cm aw) = .error (.exn e, st.tr ++ t)) ∧
    (∀ w t, c.ev cx.x = some (.valid w, t) →
      ∃ st1, UStmt.execL cx st (uBody tt cm aw) = .ok (.returned (.pair (.bool true) (.py w)) st1) ∧ st1.tr = st.tr ++ t) ∧
    (∀ e t, c.ev cx.x = some (.invalid e, t) →
      ∃ st1, UStmt.execL cx st (uBody tt cm aw) = .ok (.next st1) ∧ st1.env.errs = .invs (es0 ++ [e]) ∧ st1.tr = st.tr ++ t) := by
  have hget : st.env.get .validator = .child c := hv
  refine ⟨?_, ?_, ?_, ?_⟩
  · intro h
    cases htt : c.toTuple <;> cases aw <;> rcases hm with ⟨rfl, rfl⟩ | ⟨rfl, rfl⟩ <;>
      exact ⟨st.tr, by simp [uBody, UStmt.execL, UStmt.exec, UExp.eval, hget, hv, UEnv.get, htt, utruthy, callChild, h]⟩
  · intro e t h
    cases htt : c.toTuple <;> cases aw <;> rcases hm with ⟨rfl, rfl⟩ | ⟨rfl, rfl⟩ <;>
      simp [uBody, UStmt.execL, UStmt.exec, UExp.eval, hget, hv, UEnv.get, htt, utruthy, callChild, h]
  · intro w t h
    cases htt : c.toTuple <;> cases aw <;> rcases hm with ⟨rfl, rfl⟩ | ⟨rfl, rfl⟩ <;>
      simp [uBody, UStmt.execL, UStmt.exec, UExp.eval, hget, hv, UEnv.get, htt, utruthy, callChild, h, UEnv.get, UEnv.set]
  · intro e t h
    cases htt : c.toTuple <;> cases aw <;> rcases hm with ⟨rfl, rfl⟩ | ⟨rfl, rfl⟩ <;>
      simp [uBody, UStmt.execL, UStmt.exec, UExp.eval, hget, hv, UEnv.get, htt, utruthy, callChild, h, UEnv.get, UEnv.set, he]

/-! ### the loop over the variants -/

theorem uforFold_union (cx : UCtx) (execBody : USt → Except (UErr × List Ev) UFlow)
    (Hb : ∀ (st : USt) (c : UChild) (es0 : List Inv), st.env.validator = .child c → st.env.errs = .invs es0 →
      (c.ev cx.x = none → ∃ t, execBody st = .error (.diverge, t)) ∧
      (∀ e t, c.ev cx.x = some (.raised e, t) → execBody st = .error (.exn e, st.tr ++ t)) ∧
      (∀ w t, c.ev cx.x = some (.valid w, t) →
        ∃ st1, execBody st = .ok (.returned (.pair (.bool true) (.py w)) st1) ∧ st1.tr = st.tr ++ t) ∧
      (∀ e t, c.ev cx.x = some (.invalid e, t) →
        ∃ st1, execBody st = .ok (.next st1) ∧ st1.env.errs = .invs (es0 ++ [e]) ∧ st1.tr = st.tr ++ t)) :
    ∀ (cs : List UChild) (st : USt) (es0 : List Inv), st.env.errs = .invs es0 →
      (unionLoop cx.x (cs.map (·.ev)) = none →
        ∃ t, uforFold execBody .validator (cs.map UV.child) st = .error (.diverge, t)) ∧
      (∀ w es t e, unionLoop cx.x (cs.map (·.ev)) = some (w, es, t, some e) →
        uforFold execBody .validator (cs.map UV.child) st = .error (.exn e, st.tr ++ t)) ∧
      (∀ w es t, unionLoop cx.x (cs.map (·.ev)) = some (some w, es, t, none) →
        ∃ st1, uforFold execBody .validator (cs.map UV.child) st = .ok (.returned (.pair (.bool true) (.py w)) st1) ∧
          st1.tr = st.tr ++ t) ∧
      (∀ es t, unionLoop cx.x (cs.map (·.ev)) = some (none, es, t, none) →
        ∃ st1, uforFold execBody .validator (cs.map UV.child) st = .ok (.next st1) ∧
          st1.env.errs = .invs (es0 ++ es) ∧ st1.tr = st.tr ++ t) := by
  intro cs
  induction cs with
  | nil =>
    intro st es0 he
    refine ⟨?_, ?_, ?_, ?_⟩
    · intro h; simp [unionLoop] at h
    · intro w es t e h; simp [unionLoop] at h
    · intro w es t h; simp [unionLoop] at h
    · intro es t h
      simp only [List.map_nil, unionLoop, Option.some.injEq, Prod.mk.injEq] at h
      obtain ⟨_, rfl, rfl, _⟩ := h
      exact ⟨st, by simp [uforFold], by simp [he], by simp⟩
  | cons c cs ih =>
    intro st es0 he
    obtain ⟨b1, b2, b3, b4⟩ := Hb { st with env := st.env.set .validator (.child c) } c es0 rfl (by simpa [UEnv.set] using he)
    simp only [List.map_cons, unionLoop, uforFold]
    cases hc : c.ev cx.x with
    | none =>
      obtain ⟨t0, h0⟩ := b1 hc
      refine ⟨?_, ?_, ?_, ?_⟩
      · intro _; exact ⟨t0, by rw [h0]⟩
      · intro w es t e h; simp at h
      · intro w es t h; simp at h
      · intro es t h; simp at h
    | some p =>
      obtain ⟨out, t0⟩ := p
      cases out with
      | raised e0 =>
        have h0 := b2 e0 t0 hc
        refine ⟨?_, ?_, ?_, ?_⟩
        · intro h; simp at h
        · intro w es t e h
          simp only [Option.some.injEq, Prod.mk.injEq] at h
          obtain ⟨_, _, rfl, rfl⟩ := h
          rw [h0]
        · intro w es t h; simp at h
        · intro es t h; simp at h
      | valid w0 =>
        obtain ⟨st1, h0, h1⟩ := b3 w0 t0 hc
        refine ⟨?_, ?_, ?_, ?_⟩
        · intro h; simp at h
        · intro w es t e h; simp at h
        · intro w es t h
          simp only [Option.some.injEq, Prod.mk.injEq] at h
          obtain ⟨rfl, _, rfl, _⟩ := h
          exact ⟨st1, by rw [h0], h1⟩
        · intro es t h; simp at h
      | invalid e0 =>
        obtain ⟨st1, h0, h1, h2⟩ := b4 e0 t0 hc
        obtain ⟨i1, i2, i3, i4⟩ := ih st1 (es0 ++ [e0]) h1
        rw [h0]
        simp only
        cases hl : unionLoop cx.x (cs.map (·.ev)) with
        | none =>
          refine ⟨?_, ?_, ?_, ?_⟩
          · intro _; exact i1 hl
          · intro w es t e h; simp at h
          · intro w es t h; simp at h
          · intro es t h; simp at h
        | some q =>
          obtain ⟨w', es', t', r'⟩ := q
          refine ⟨?_, ?_, ?_, ?_⟩
          · intro h; simp at h
          · intro w es t e h
            simp only [Option.some.injEq, Prod.mk.injEq] at h
            obtain ⟨rfl, _, rfl, rfl⟩ := h
            rw [i2 w' es' t' e hl, h2]; simp [List.append_assoc]
          · intro w es t h
            simp only [Option.some.injEq, Prod.mk.injEq] at h
            obtain ⟨rfl, _, rfl, rfl⟩ := h
            obtain ⟨st2, j1, j2⟩ := i3 w es' t' hl
            exact ⟨st2, j1, by rw [j2, h2]; simp [List.append_assoc]⟩
          · intro es t h
            simp only [Option.some.injEq, Prod.mk.injEq] at h
            obtain ⟨rfl, rfl, rfl, rfl⟩ := h
            obtain ⟨st2, j1, j2, j3⟩ := i4 es' t' hl
            exact ⟨st2, j1, by rw [j2]; simp [List.append_assoc], by rw [j3, h2]; simp [List.append_assoc]⟩

/-! ### the two functions -/

theorem union_run (vid : Nat) (cs : List UChild) (x : PyVal) (tt cm : UMeth) (aw : Bool)
    (hm : (tt = .validateToTuple ∧ cm = .call) ∨ (tt = .validateToTupleAsync ∧ cm = .validateAsync)) :
    runUnionBody ⟨vid, cs, x⟩ [.assign .errs .emptyList, .forIn .validator (.param .validators) (uBody tt cm aw), uRet] =
      unionStep vid (cs.map (·.ev)) x := by
  let cx : UCtx := ⟨vid, cs, x⟩
  have hloop := uforFold_union cx (fun st => UStmt.execL cx st (uBody tt cm aw))
    (fun st c es0 hv he => uBody_exec cx tt cm aw hm st c es0 hv he) cs
    { env := ({} : UEnv).set .errs (.invs []), tr := [] } [] rfl
  obtain ⟨l1, l2, l3, l4⟩ := hloop
  have hexec : UStmt.execL cx { env := {}, tr := [] }
      [.assign .errs .emptyList, .forIn .validator (.param .validators) (uBody tt cm aw), uRet] =
      (match uforFold (fun st => UStmt.execL cx st (uBody tt cm aw)) .validator (cs.map UV.child)
          { env := ({} : UEnv).set .errs (.invs []), tr := [] } with
       | .error err => .error err
       | .ok (.next st) => UStmt.execL cx st [uRet]
       | .ok (.returned d st) => .ok (.returned d st)) := by
    simp [UStmt.execL, UStmt.exec, UExp.eval]
    rfl
  simp only [runUnionBody]
  show (match UStmt.execL cx { env := {}, tr := [] } _ with
    | .error (.exn e, t) => some (Out.raised e, t) | .error (_, _) => none
    | .ok (.returned (.pair (.bool true) (.py w)) st) => some (.valid w, st.tr)
    | .ok (.returned (.pair (.bool false) (.invalid e)) st) => some (.invalid e, st.tr)
    | .ok _ => none) = _
  rw [hexec]
  simp only [unionStep]
  cases hl : unionLoop x (cs.map (·.ev)) with
  | none =>
    obtain ⟨t, ht⟩ := l1 hl
    rw [ht]
  | some q =>
    obtain ⟨w, es, t, r⟩ := q
    cases r with
    | some e =>
      rw [l2 w es t e hl]
      simp
    | none =>
      cases w with
      | some w0 =>
        obtain ⟨st1, h1, h2⟩ := l3 w0 es t hl
        rw [h1]
        simp [h2]
      | none =>
        obtain ⟨st1, h1, h2, h3⟩ := l4 es t hl
        rw [h1]
        simp [UStmt.execL, UStmt.exec, uRet, UExp.eval, UEnv.get, h2, h3]
        exact ⟨rfl, rfl⟩

/-- **the synchronous union loop, as written in the source, is the model's `unionStep`** -/
theorem src_union_sync (vid : Nat) (cs : List UChild) (x : PyVal) :
    runUnionBody ⟨vid, cs, x⟩ Src.unionSync = unionStep vid (cs.map (·.ev)) x := by
  rw [unionSync_eq]; exact union_run vid cs x _ _ false (.inl ⟨rfl, rfl⟩)

/-- **the asynchronous union loop, as written in the source, is the model's `unionStep`** -/
theorem src_union_async (vid : Nat) (cs : List UChild) (x : PyVal) :
    runUnionBody ⟨vid, cs, x⟩ Src.unionAsync = unionStep vid (cs.map (·.ev)) x := by
  rw [unionAsync_eq]; exact union_run vid cs x _ _ true (.inr ⟨rfl, rfl⟩)

/-- `UnionValidator` and `OptionalValidator` do nothing but delegate to the loop -/
theorem src_union_uses : Src.unionUses =
    ["OptionalValidator._validate_to_tuple: return _union_validator(self, self.validators, val)",
     "OptionalValidator._validate_to_tuple_async: return await _union_validator_async(self, self.validators, val)",
     "UnionValidator._validate_to_tuple: return _union_validator(self, self.validators, val)",
     "UnionValidator._validate_to_tuple_async: return await _union_validator_async(self, self.validators, val)"] := by
  decide

end Koda
