/-
  C02 — Scalar validators: exact type, then coercion/processors, then all predicates.
-/
import KodaModel.Lemmas.Mono

namespace Koda

/-! ### "every predicate, in declaration order, none skipped" -/

/-- the failing predicates of a list on a value, in declaration order -/
def failing (ps : List Pred) (x : PyVal) : List Nat :=
  (ps.filter (fun p => match p.k.call x with | .ok false => true | _ => false)).map (·.pid)

/-- no predicate of the list raises on `x` (typed use of predicates) -/
def NoRaise (ps : List Pred) (x : PyVal) : Prop := ∀ p ∈ ps, ∃ b, p.k.call x = .ok b

theorem runPreds_spec (ps : List Pred) (x : PyVal) (h : NoRaise ps x) :
    (runPreds ps x).1 = failing ps x ∧ (runPreds ps x).2.2 = none := by
  induction ps with
  | nil => simp [runPreds, failing]
  | cons p ps ih =>
    obtain ⟨b, hb⟩ := h p (by simp)
    have ih' := ih (fun q hq => h q (by simp [hq]))
    cases b <;> simp [runPreds, failing, hb, List.filter] <;> simp [failing] at ih' <;> simp [ih']

theorem runAPreds_spec (ps : List Pred) (x : PyVal) (h : NoRaise ps x) :
    (runAPreds ps x).1 = failing ps x ∧ (runAPreds ps x).2.2 = none := by
  induction ps with
  | nil => simp [runAPreds, failing]
  | cons p ps ih =>
    obtain ⟨b, hb⟩ := h p (by simp)
    have ih' := ih (fun q hq => h q (by simp [hq]))
    cases b <;> simp [runAPreds, failing, hb, List.filter] <;> simp [failing] at ih' <;> simp [ih']

/-- every async predicate is awaited, in order, whatever the earlier ones returned -/
theorem runAPreds_all_awaited (ps : List Pred) (x : PyVal) (h : NoRaise ps x) :
    (runAPreds ps x).2.1 = ps.map (fun p => Ev.apred p.pid) := by
  induction ps with
  | nil => simp [runAPreds]
  | cons p ps ih =>
    obtain ⟨b, hb⟩ := h p (by simp)
    simp [runAPreds, hb, ih (fun q hq => h q (by simp [hq]))]

/-- sync failures first, then async failures; nothing skipped -/
theorem contPreds_spec (m : Mode) (ps aps : List Pred) (x : PyVal) (h : NoRaise ps x) (ha : NoRaise aps x) :
    (contPreds m ps aps x).1 = failing ps x ++ (if m = .async then failing aps x else []) ∧
    (contPreds m ps aps x).2.2 = none := by
  obtain ⟨h1, h2⟩ := runPreds_spec ps x h
  obtain ⟨h3, h4⟩ := runAPreds_spec aps x ha
  cases m <;> simp [contPreds, h1, h2, h3, h4]

/-- processors are applied in declaration order -/
theorem runProcs_spec (pre : List Proc) (x : PyVal) (h : ∀ p ∈ pre, ∀ y, ∃ z, p.k.call y = .ok z) :
    (runProcs pre x).1 = .ok (pre.foldl (fun acc p => match p.k.call acc with | .ok z => z | .error _ => acc) x) := by
  induction pre generalizing x with
  | nil => rfl
  | cons p ps ih =>
    obtain ⟨z, hz⟩ := h p (by simp) x
    simp [runProcs, hz, ih z (fun q hq => h q (by simp [hq]))]

/-! ### the gate: coercer result, or exact type -/

/-- without a coercer the gate is the **exact** type -/
theorem C02_gate_exact (o : Oracle) (tg : Ty) (x : PyVal) :
    (gate o tg tg none x = .acc x [] ↔ x.ty = tg) ∧
    (x.ty ≠ tg → gate o tg tg none x = .rej (.type tg) []) := by
  simp only [gate]
  by_cases h : x.ty = tg <;> simp [h]

/-- bool is not int, int is not float, a subclass instance is not its base -/
theorem C02_lookalikes (c : ClassId) :
    (PyVal.bool true).ty ≠ .int ∧ (PyVal.int 1).ty ≠ .float ∧ (PyVal.sub c (.int 1)).ty ≠ .int ∧
    (PyVal.sub c (.str [])).ty ≠ .str := by
  simp [PyVal.ty]

/-! ### the scalar pipeline -/

/-- **acceptance**: the sync guard does not fire, the gate yields `y`, the processors (in order)
    yield `z`, every sync predicate and — in async mode — every async predicate holds on `z`;
    the payload is `z`. -/
theorem C02_accept_iff (o : Oracle) (m : Mode) (vid : Nat) (tg : Ty) (c : Option CoerceK)
    (pre : List Proc) (ps aps : List Pred) (x w : PyVal) (t : List Ev) :
    scalarStep o m vid tg c pre ps aps x = (.valid w, t) ↔
      ¬ (m = .sync ∧ aps ≠ []) ∧
      ∃ y t0 t1, gate o tg tg c x = .acc y t0 ∧ runProcs pre y = (.ok w, t1) ∧
        (contPreds m ps aps w).1 = [] ∧ (contPreds m ps aps w).2.2 = none ∧
        t = t0 ++ t1 ++ (contPreds m ps aps w).2.1 := by
  unfold scalarStep
  constructor
  · intro h
    split at h
    · simp at h
    · rename_i hg
      refine ⟨hg, ?_⟩
      split at h
      · simp at h
      · simp at h
      · rename_i y t0 hgate
        split at h
        · simp at h
        · rename_i z t1 hprocs
          unfold finishPreds at h
          split at h
          · simp at h
          · rename_i hnone
            split at h
            · rename_i hemp
              simp only [Prod.mk.injEq, Out.valid.injEq] at h
              obtain ⟨rfl, rfl⟩ := h
              refine ⟨y, t0, t1, hgate, hprocs, ?_, hnone, rfl⟩
              simpa using hemp
            · simp at h
  · rintro ⟨hg, y, t0, t1, hgate, hprocs, hemp, hnone, rfl⟩
    simp [hg, hgate, hprocs, finishPreds, hnone, hemp]

/-- **rejection**: a type/coercion error carrying the *original* value, or a predicate error listing
    the failing predicates (sync before async, `contPreds_spec`) carrying the *processed* value. -/
theorem C02_reject (o : Oracle) (m : Mode) (vid : Nat) (tg : Ty) (c : Option CoerceK)
    (pre : List Proc) (ps aps : List Pred) (x : PyVal) (e : Inv) (t : List Ev)
    (h : scalarStep o m vid tg c pre ps aps x = (.invalid e, t)) :
    (∃ k t0, gate o tg tg c x = .rej k t0 ∧ e = .mk k x vid [] ∧ t = t0) ∨
    (∃ y t0 z t1, gate o tg tg c x = .acc y t0 ∧ runProcs pre y = (.ok z, t1) ∧
      (contPreds m ps aps z).1 ≠ [] ∧ e = .mk (.preds (contPreds m ps aps z).1) z vid [] ∧
      t = t0 ++ t1 ++ (contPreds m ps aps z).2.1) := by
  unfold scalarStep at h
  split at h
  · simp at h
  · split at h
    · simp at h
    · rename_i k t0 hgate
      simp only [Prod.mk.injEq, Out.invalid.injEq] at h
      exact .inl ⟨k, t0, hgate, h.1.symm, h.2.symm⟩
    · rename_i y t0 hgate
      split at h
      · simp at h
      · rename_i z t1 hprocs
        unfold finishPreds at h
        split at h
        · simp at h
        · split at h
          · simp at h
          · rename_i hne
            simp only [Prod.mk.injEq, Out.invalid.injEq] at h
            refine .inr ⟨y, t0, z, t1, hgate, hprocs, ?_, h.1.symm, h.2.symm⟩
            intro he; simp [he] at hne

/-- the rejection kinds of the gate: `TypeErr(target)` without a coercer, `CoercionErr` with the
    coercer's declared compatible types otherwise -/
theorem C02_gate_rej_kinds (o : Oracle) (tg : Ty) (c : Option CoerceK) (x : PyVal) (k : ErrK) (t : List Ev)
    (h : gate o tg tg c x = .rej k t) :
    (c = none ∧ k = .type tg) ∨ (∃ compat, k = .coercion compat tg) := by
  unfold gate at h
  split at h
  · rename_i c'
    unfold applyCoerce at h
    split at h
    · split at h
      · simp at h
      · simp only [Gate.rej.injEq] at h; exact .inr ⟨_, h.1.symm⟩
    · split at h
      · split at h
        · split at h <;> simp at h
        · simp only [Gate.rej.injEq] at h; exact .inr ⟨_, h.1.symm⟩
      · simp only [Gate.rej.injEq] at h; exact .inr ⟨_, h.1.symm⟩
    · split at h
      · simp at h
      · simp only [Gate.rej.injEq] at h; exact .inr ⟨_, h.1.symm⟩
  · split at h
    · simp at h
    · simp only [Gate.rej.injEq] at h; exact .inl ⟨rfl, h.1.symm⟩

/-- the sync entry point refuses to run when async predicates are configured (and only then) -/
theorem C02_sync_guard (o : Oracle) (vid : Nat) (tg : Ty) (c : Option CoerceK) (pre : List Proc)
    (ps aps : List Pred) (x : PyVal) (h : aps ≠ []) :
    scalarStep o .sync vid tg c pre ps aps x = (.raised .assertion, []) := by
  simp [scalarStep, h]

/-! ### EqualsValidator and NoneValidator -/

/-- equality validator: exact type of `match` first, then processors, then `==` -/
theorem C02_equals_accept_iff (vid pid : Nat) (mt : PyVal) (pre : List Proc) (x w : PyVal) (t : List Ev) :
    equalsStep vid mt pre pid x = (.valid w, t) ↔
      mt.ty = x.ty ∧ runProcs pre x = (.ok w, t) ∧ pyEqX w mt = .ok true := by
  unfold equalsStep
  constructor
  · intro h
    split at h
    · rename_i hty
      split at h
      · simp at h
      · rename_i z t1 hp
        split at h
        · simp at h
        · rename_i heq
          simp only [Prod.mk.injEq, Out.valid.injEq] at h
          obtain ⟨rfl, rfl⟩ := h
          exact ⟨hty, hp, heq⟩
        · simp at h
    · simp at h
  · rintro ⟨hty, hp, heq⟩
    simp [hty, hp, heq]

theorem C02_equals_type_err (vid pid : Nat) (mt : PyVal) (pre : List Proc) (x : PyVal) (h : mt.ty ≠ x.ty) :
    equalsStep vid mt pre pid x = (.invalid (.mk (.type mt.ty) x vid []), []) := by
  simp [equalsStep, h]

theorem C02_none (o : Oracle) (vid : Nat) (x : PyVal) :
    (noneStep o vid none x = (.valid .none, []) ↔ x = .none) ∧
    (x ≠ .none → noneStep o vid none x = (.invalid (.mk (.type .none) x vid []), [])) := by
  cases x <;> simp [noneStep]

/-! ### non-vacuity -/

/-- `StringValidator(MinLength(2), MaxLength(3), preprocessors=[strip])(" ab ")` is `Valid("ab")` -/
example : scalarStep default .sync 1 .str none [⟨5, .strip⟩] [⟨6, .minLength 2⟩, ⟨7, .maxLength 3⟩] []
    (.str [32, 97, 98, 32]) = (.valid (.str [97, 98]), []) := by rfl

/-- both failing predicates are listed, in order -/
example : (scalarStep default .sync 1 .int none [] [⟨6, .min (.int 5) false⟩, ⟨7, .multipleOf (.int 2)⟩] []
    (.int 3)).1 = .invalid (.mk (.preds [6, 7]) (.int 3) 1 []) := by rfl

end Koda
