/-
  C02 — `EqualsValidator` *as written in /repo's current source*.  `Generated/EqSrc.lean` is rewritten on every
  run from the AST of `EqualsValidator._validate_to_tuple` (generic.py; the async entry point delegates to it and
  `__init__` builds `self.predicate = EqualTo(match)`: pinned).  Interpreting the translated method
  (`KodaModel/PyEq.lean`) is the model's `equalsStep`, for every `match`, every list of preprocessors and every
  input.
-/
import KodaModel.Generated.EqSrc

namespace Koda

theorem eforFold_procs (execBody : ESt → Except (EErr × List Ev) EFlow)
    (Hb : ∀ (st : ESt) (p : Proc) (y : PyVal), st.env.preprocess = .proc p → st.env.val = .py y →
      execBody st = (match p.k.call y with
        | .ok z => .ok (.next { env := st.env.set .val (.py z), tr := st.tr ++ p.ev })
        | .error e => .error (.exn e, st.tr ++ p.ev))) :
    ∀ (ps : List Proc) (st : ESt) (y : PyVal), st.env.val = .py y →
      (∀ e t2, runProcs ps y = (.error e, t2) →
        eforFold execBody .preprocess (ps.map EV.proc) st = .error (.exn e, st.tr ++ t2)) ∧
      (∀ z t2, runProcs ps y = (.ok z, t2) →
        ∃ st', eforFold execBody .preprocess (ps.map EV.proc) st = .ok (.next st') ∧ st'.env.val = .py z ∧ st'.tr = st.tr ++ t2) := by
  intro ps
  induction ps with
  | nil =>
    intro st y hy
    refine ⟨?_, ?_⟩
    · intro e t2 h; simp [runProcs] at h
    · intro z t2 h
      simp only [runProcs, Prod.mk.injEq, Except.ok.injEq] at h
      obtain ⟨rfl, rfl⟩ := h
      exact ⟨st, by simp [eforFold], hy, by simp⟩
  | cons p ps ih =>
    intro st y hy
    have hb := Hb { st with env := st.env.set .preprocess (.proc p) } p y rfl hy
    cases hcall : p.k.call y with
    | error e0 =>
      rw [hcall] at hb
      refine ⟨?_, ?_⟩
      · intro e t2 h
        simp only [runProcs, hcall, Prod.mk.injEq, Except.error.injEq] at h
        obtain ⟨rfl, rfl⟩ := h
        simp [eforFold, hb]
      · intro z t2 h; simp [runProcs, hcall] at h
    | ok z0 =>
      rw [hcall] at hb
      have step : eforFold execBody .preprocess ((p :: ps).map EV.proc) st =
          eforFold execBody .preprocess (ps.map EV.proc)
            { env := (st.env.set .preprocess (.proc p)).set .val (.py z0), tr := st.tr ++ p.ev } := by
        simp [eforFold, hb]
      obtain ⟨ih1, ih2⟩ := ih { env := (st.env.set .preprocess (.proc p)).set .val (.py z0), tr := st.tr ++ p.ev } z0 rfl
      refine ⟨?_, ?_⟩
      · intro e t2 h
        simp only [runProcs, hcall, Prod.mk.injEq] at h
        obtain ⟨h1, h2⟩ := h
        rw [step, ih1 e (runProcs ps z0).2 (by rw [← h1])]
        simp [← h2, List.append_assoc]
      · intro z t2 h
        simp only [runProcs, hcall, Prod.mk.injEq] at h
        obtain ⟨h1, h2⟩ := h
        obtain ⟨st', g1, g2, g3⟩ := ih2 z (runProcs ps z0).2 (by rw [← h1])
        exact ⟨st', by rw [step, g1], g2, by rw [g3, ← h2]; simp [List.append_assoc]⟩


def eqProcBody : List EStmt := [.assign .val (.call1 (.var .preprocess) (.var .val))]

theorem equals_eq : Src.equalsSync =
    [.ite (.eq (.walrus .matchType (.typeOf (.selfAttr .match_))) (.typeOf (.var .val)))
       [.ite (.selfAttr .preprocessors) [.forIn .preprocess (.selfAttr .preprocessors) eqProcBody] [],
        .ite (.call1 (.selfAttr .predicate) (.var .val))
          [.ret (.pair (.bool true) (.var .val))]
          [.ret (.pair (.bool false) (.mkInvalid (.mkPredErrs (.list1 (.selfAttr .predicate))) (.var .val) .self))]]
       [.ret (.pair (.bool false) (.mkInvalid (.mkTypeErr (.var .matchType)) (.var .val) .self))]] := rfl

theorem eqProcBody_exec (cfg : EqCfg) (st : ESt) (p : Proc) (y : PyVal)
    (h1 : st.env.preprocess = .proc p) (h2 : st.env.val = .py y) :
    EStmt.execL cfg st eqProcBody = (match p.k.call y with
      | .ok z => .ok (.next { env := st.env.set .val (.py z), tr := st.tr ++ p.ev })
      | .error e => .error (.exn e, st.tr ++ p.ev)) := by
  simp only [eqProcBody, EStmt.execL, EStmt.exec, EExp.eval, EEnv.get, h1, h2]
  cases p.k.call y <;> rfl

def outE : Except (EErr × List Ev) EFlow → Option (Out × List Ev)
  | .error (.exn e, t) => some (.raised e, t)
  | .error (.stuck _, _) => none
  | .ok (.returned (.pair (.bool true) (.py w)) st) => some (.valid w, st.tr)
  | .ok (.returned (.pair (.bool false) (.invalid e)) st) => some (.invalid e, st.tr)
  | .ok _ => none

theorem runEq_eq (cfg : EqCfg) (body : List EStmt) (x : PyVal) :
    runEq cfg body x = outE (EStmt.execL cfg { env := { val := .py x }, tr := [] } body) := by
  simp only [runEq, outE]; rfl

theorem eflow_id (r : Except (EErr × List Ev) EFlow) :
    (match r with
     | .error err => .error err
     | .ok (.next st) => .ok (.next st)
     | .ok (.returned d st) => .ok (.returned d st)) = r := by
  cases r with
  | error e => rfl
  | ok f => cases f <;> rfl

theorem eexecL_nil (cfg : EqCfg) (st : ESt) : EStmt.execL cfg st [] = .ok (.next st) := by simp only [EStmt.execL]

theorem eexecL_cons (cfg : EqCfg) (st : ESt) (s : EStmt) (rest : List EStmt) :
    EStmt.execL cfg st (s :: rest) =
      (match s.exec cfg st with
       | .error err => .error err
       | .ok (.next st) => EStmt.execL cfg st rest
       | .ok (.returned d st) => .ok (.returned d st)) := by
  simp only [EStmt.execL]; rfl

theorem eexecL_single (cfg : EqCfg) (st : ESt) (s : EStmt) : EStmt.execL cfg st [s] = EStmt.exec cfg st s := by
  rw [eexecL_cons]; simp only [eexecL_nil]; exact eflow_id _

theorem eexec_ite (cfg : EqCfg) (st : ESt) (c : EExp) (t e : List EStmt) :
    EStmt.exec cfg st (.ite c t e) =
      (match c.eval cfg st with
       | .error err => .error err
       | .ok (d, st) =>
         match etruthy d with
         | none => .error (.stuck "truth value", st.tr)
         | some true => EStmt.execL cfg st t
         | some false => EStmt.execL cfg st e) := by
  simp only [EStmt.exec]; rfl

def eqFinal : EStmt :=
  .ite (.call1 (.selfAttr .predicate) (.var .val))
    [.ret (.pair (.bool true) (.var .val))]
    [.ret (.pair (.bool false) (.mkInvalid (.mkPredErrs (.list1 (.selfAttr .predicate))) (.var .val) .self))]

def eqProcs : EStmt := .ite (.selfAttr .preprocessors) [.forIn .preprocess (.selfAttr .preprocessors) eqProcBody] []

theorem eqFinal_exec (cfg : EqCfg) (st1 : ESt) (z : PyVal) (hz : st1.env.val = .py z) :
    outE (EStmt.execL cfg st1 [eqFinal]) =
      some (match pyEqX z cfg.mt with
        | .error e => (.raised e, st1.tr)
        | .ok true => (.valid z, st1.tr)
        | .ok false => (.invalid (.mk (.preds [cfg.pid]) z cfg.vid []), st1.tr)) := by
  rw [eexecL_single, eqFinal, eexec_ite]
  have hc : (EExp.call1 (.selfAttr .predicate) (.var .val)).eval cfg st1 =
      (match pyEqX z cfg.mt with
       | .ok b => .ok (.bool b, st1)
       | .error e => .error (.exn e, st1.tr)) := by
    simp only [EExp.eval, EEnv.get, hz, PredK.call]
    cases pyEqX z cfg.mt <;> rfl
  rw [hc]
  cases pyEqX z cfg.mt with
  | error e => rfl
  | ok b =>
    cases b with
    | true => simp [etruthy, eexecL_single, EStmt.exec, EExp.eval, EEnv.get, hz, outE]
    | false => simp [etruthy, eexecL_single, EStmt.exec, EExp.eval, EEnv.get, hz, outE]

/-- the part after the type test: preprocessors, then `==` -/
theorem equals_tail (cfg : EqCfg) (st : ESt) (x : PyVal) (hx : st.env.val = .py x) :
    outE (EStmt.execL cfg st [eqProcs, eqFinal]) =
    some (match runProcs (cfg.pre.getD []) x with
      | (.error e, t) => (.raised e, st.tr ++ t)
      | (.ok z, t) =>
        match pyEqX z cfg.mt with
        | .error e => (.raised e, st.tr ++ t)
        | .ok true => (.valid z, st.tr ++ t)
        | .ok false => (.invalid (.mk (.preds [cfg.pid]) z cfg.vid []), st.tr ++ t)) := by
  have hattr : (EExp.selfAttr .preprocessors).eval cfg st =
      .ok ((match cfg.pre with | some l => EV.procs l | none => EV.none), st) := by
    cases h : cfg.pre <;> simp [EExp.eval, h]
  rw [eexecL_cons, eqProcs, eexec_ite, hattr]
  cases hp : cfg.pre with
  | none =>
    simp only [etruthy, Option.getD_none, runProcs, eexecL_nil]
    rw [eqFinal_exec cfg st x hx]; simp
  | some ps =>
    cases ps with
    | nil =>
      simp only [etruthy, List.isEmpty_nil, Bool.not_true, Option.getD_some, runProcs, eexecL_nil]
      rw [eqFinal_exec cfg st x hx]; simp
    | cons p ps' =>
      simp only [etruthy, List.isEmpty_cons, Bool.not_false, Option.getD_some]
      obtain ⟨f1, f2⟩ := eforFold_procs (fun st => EStmt.execL cfg st eqProcBody)
        (fun st p y h1 h2 => eqProcBody_exec cfg st p y h1 h2) (p :: ps') st x hx
      rw [eexecL_single]
      have hfor : EStmt.exec cfg st (.forIn .preprocess (.selfAttr .preprocessors) eqProcBody) =
          eforFold (fun st => EStmt.execL cfg st eqProcBody) .preprocess ((p :: ps').map EV.proc) st := by
        simp only [EStmt.exec, hattr, hp]
      rw [hfor]
      rcases hr : runProcs (p :: ps') x with ⟨r, t2⟩
      cases r with
      | error e => rw [f1 e t2 hr]; rfl
      | ok z =>
        obtain ⟨st', g1, g2, g3⟩ := f2 z t2 hr
        rw [g1]
        simp only
        rw [eqFinal_exec cfg st' z g2, g3]

/-- **`EqualsValidator._validate_to_tuple`, as written in the source, is the model's `equalsStep`** -/
theorem src_equals (cfg : EqCfg) (x : PyVal) :
    runEq cfg Src.equalsSync x = some (equalsStep cfg.vid cfg.mt (cfg.pre.getD []) cfg.pid x) := by
  rw [runEq_eq, equals_eq, eexecL_single, eexec_ite]
  have hcond : (EExp.eq (.walrus .matchType (.typeOf (.selfAttr .match_))) (.typeOf (.var .val))).eval cfg
        { env := { val := .py x }, tr := [] } =
      .ok (.bool (cfg.mt.ty == x.ty), { env := { val := .py x, matchType := .ty cfg.mt.ty }, tr := [] }) := by
    simp [EExp.eval, EEnv.get, EEnv.set]
  rw [hcond]
  simp only [equalsStep]
  by_cases hty : cfg.mt.ty = x.ty
  · have hb : (cfg.mt.ty == x.ty) = true := by simpa using hty
    simp only [hb, etruthy, if_pos hty]
    have := equals_tail cfg { env := { val := .py x, matchType := .ty cfg.mt.ty }, tr := [] } x rfl
    simp only [List.nil_append, eqProcs, eqFinal] at this
    rw [this]
    rcases runProcs (cfg.pre.getD []) x with ⟨r, t⟩
    cases r with
    | error e => rfl
    | ok z => cases pyEqX z cfg.mt with
      | error e => rfl
      | ok b => cases b <;> rfl
  · have hb : (cfg.mt.ty == x.ty) = false := by simpa using hty
    simp [hb, etruthy, if_neg hty, eexecL_single, EStmt.exec, EExp.eval, EEnv.get, outE]

/-- the async entry point delegates; `self.predicate` is `EqualTo(match)` -/
theorem src_equals_pins : Src.equalsPins =
    ["EqualsValidator._validate_to_tuple_async: return self._validate_to_tuple(val)",
     "EqualsValidator.__init__: self.match = match ; self.preprocessors = preprocessors ; self.predicate: EqualTo[ExactMatchT] = EqualTo(match)"] := rfl

end Koda
