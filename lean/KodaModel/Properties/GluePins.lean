/-
  Pinned source text: the glue around every translated `_validate_to_tuple` (koda_validate/_internal.py: the two bridges from the tuple protocol to result objects, `_wrap_sync_validator` / `_wrap_async_validator`, the fast-path closure, the two raisers; coerce.py: `Coercer.__call__`, `coercer`): what `run…Method` / `callItem` / `applyCoerce` in the interpreters stand for.
  The correspondence runs tie the model's behaviour to the code; this theorem ties the *text* the model was written
  against to the text that is there now (`Generated/PinsSrc.lean`, regenerated on every run), one string per top-level
  statement.  A change to any of these functions makes it fail: the check then searches for a failing input and reports
  either that input or `no-failing-input-found`.  Re-pin with tools/repin.py after reviewing the model.
-/
import KodaModel.Generated.PinsSrc

namespace Koda

theorem src_glue_pinned : Src.gluePins =
    ["_ToTupleValidator.__call__(self, val: Any)",
    "_ToTupleValidator.__call__: result = self._validate_to_tuple(val)",
    "_ToTupleValidator.__call__: if result[0]:\n    return Valid(result[1])\nelse:\n    return result[1]",
    "_ToTupleValidator.validate_async(self, val: Any)",
    "_ToTupleValidator.validate_async: result = await self._validate_to_tuple_async(val)",
    "_ToTupleValidator.validate_async: if result[0]:\n    return Valid(result[1])\nelse:\n    return result[1]",
    "_simple_type_validator(instance: '_ToTupleStandardValidator[A]', type_: Type[A], type_err: TypeErr)",
    "_simple_type_validator: def inner(val: Any) -> _ResultTuple[A]:\n    if type(val) is type_:\n        return (True, val)\n    else:\n        return (False, Invalid(type_err, val, instance))",
    "_simple_type_validator: return inner",
    "_async_predicates_warning(cls: Type[Any])",
    "_async_predicates_warning: raise AssertionError(f'{cls.__name__} cannot run `predicates_async` in synchronous calls. Please `await` the `.validate_async` method instead; or remove the items in `predicates_async`.')",
    "_raise_validate_object_async_in_sync_mode(cls: Type[Any])",
    "_raise_validate_object_async_in_sync_mode: raise AssertionError(f'{cls.__name__} cannot run `validate_object_async` in synchronous calls. Please `await` the `.validate_async` method instead.')",
    "_wrap_sync_validator(obj: Validator[A])",
    "_wrap_sync_validator: if isinstance(obj, _ToTupleValidator):\n    return obj._validate_to_tuple\nelse:\n\n    def inner(v: Any) -> _ResultTuple[A]:\n        result = obj(v)\n        if result.is_valid:\n            return (True, result.val)\n        else:\n            return (False, result)\n    return inner",
    "_wrap_async_validator(obj: Validator[A])",
    "_wrap_async_validator: if isinstance(obj, _ToTupleValidator):\n    return obj._validate_to_tuple_async\nelse:\n    async_validator = obj.validate_async\n\n    async def inner(v: Any) -> _ResultTuple[A]:\n        result = await async_validator(v)\n        if result.is_valid:\n            return (True, result.val)\n        else:\n            return (False, result)\n    return inner",
    "Coercer.__call__(self, val: Any)",
    "Coercer.__call__: return self.coerce(val)",
    "coercer(*compatible_types: Type[Any])",
    "coercer: def inner(func: Callable[[Any], Maybe[A]]) -> Coercer[A]:\n    return Coercer(func, set(compatible_types))",
    "coercer: return inner"] := rfl

end Koda
