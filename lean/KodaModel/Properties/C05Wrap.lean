/-
  C05 / C02 — the small validators *as written in /repo's current source*: `MaybeValidator`, `KeyNotRequired`,
  `Lazy`, `AlwaysValid`, `NoneValidator`, `IsDictValidator`.  `Generated/WrapSrc.lean` is rewritten on every run;
  each translated method, interpreted (`KodaModel/PyWrap.lean`), is the model's step — for every wrapped
  validator (its evaluator), every input; sync and async entry points.
-/
import KodaModel.Generated.WrapSrc
import KodaModel.Properties.C01

namespace Koda

theorem maybe_body (o : Oracle) (vid : Nat) (ev : Ev1) (x : PyVal) (body : List WStmt)
    (hb : body = Src.maybeSync ∨ body = Src.maybeAsync) :
    runWrap o ⟨vid, ev, none, false⟩ body x = maybeStep vid ev x := by
  cases x with
  | just oid v =>
    rcases hb with rfl | rfl <;>
    · simp only [runWrap, Src.maybeSync, Src.maybeAsync, WStmt.execL, WStmt.exec, WExp.eval, wtruthy, maybeStep, PyVal.ty]
      cases hv : ev v with
      | none => simp [wcallChild, hv]
      | some p =>
        obtain ⟨out, t⟩ := p
        cases out <;> simp [wcallChild, hv, wtruthy]
  | nothing =>
    rcases hb with rfl | rfl <;>
      simp [runWrap, Src.maybeSync, Src.maybeAsync, WStmt.execL, WStmt.exec, WExp.eval, wtruthy, maybeStep]
  | _ => rcases hb with rfl | rfl <;> rfl

/-- `MaybeValidator`, both entry points -/
theorem src_maybe (o : Oracle) (vid : Nat) (ev : Ev1) (x : PyVal) :
    runWrap o ⟨vid, ev, none, false⟩ Src.maybeSync x = maybeStep vid ev x ∧
    runWrap o ⟨vid, ev, none, false⟩ Src.maybeAsync x = maybeStep vid ev x :=
  ⟨maybe_body o vid ev x _ (.inl rfl), maybe_body o vid ev x _ (.inr rfl)⟩

/-- `KeyNotRequired`, both entry points -/
theorem src_knr (o : Oracle) (vid : Nat) (ev : Ev1) (x : PyVal) :
    runWrap o ⟨vid, ev, none, false⟩ Src.knrSync x = knrStep ev x ∧
    runWrap o ⟨vid, ev, none, false⟩ Src.knrAsync x = knrStep ev x := by
  constructor <;>
  · simp only [runWrap, Src.knrSync, Src.knrAsync, WStmt.execL, WStmt.exec, WExp.eval, knrStep]
    cases hv : ev x with
    | none => simp [wcallChild, hv]
    | some p =>
      obtain ⟨out, t⟩ := p
      cases out <;> simp [wcallChild, hv, wtruthy]

/-- `Lazy`: exactly what the validator its thunk returns does -/
theorem src_lazy (o : Oracle) (vid : Nat) (ev : Ev1) (x : PyVal) :
    runWrap o ⟨vid, ev, none, true⟩ Src.lazySync x = ev x ∧
    runWrap o ⟨vid, ev, none, true⟩ Src.lazyAsync x = ev x := by
  constructor <;>
  · simp only [runWrap, Src.lazySync, Src.lazyAsync, WStmt.execL, WStmt.exec, WExp.eval]
    cases hv : ev x with
    | none => simp [wcallChild, hv]
    | some p =>
      obtain ⟨out, t⟩ := p
      cases out <;> simp [wcallChild, hv]

/-- `AlwaysValid` -/
theorem src_always (o : Oracle) (cfg : WCfg) (x : PyVal) :
    runWrap o cfg Src.alwaysSync x = some (.valid x, []) ∧ runWrap o cfg Src.alwaysAsync x = some (.valid x, []) := by
  constructor <;> simp [runWrap, Src.alwaysSync, Src.alwaysAsync, WStmt.execL, WStmt.exec, WExp.eval]

/-- `IsDictValidator` (its async entry point delegates: `src_wrap_pins`) -/
theorem src_isDict (o : Oracle) (cfg : WCfg) (x : PyVal) :
    runWrap o cfg Src.isDictSync x = some (isDictStep cfg.vid x) := by
  simp only [runWrap, Src.isDictSync, WStmt.execL, WStmt.exec, WExp.eval, isDictStep]
  by_cases h : x.baseTy = .dict
  · have hb : (x.baseTy == Ty.dict) = true := by simpa using h
    simp [hb, wtruthy, h]
  · have hb : (x.baseTy == Ty.dict) = false := by simpa using h
    simp [hb, wtruthy, h]

theorem noneCoerce_rej_kind (o : Oracle) (c : CoerceK) (x : PyVal) (k : ErrK) (t : List Ev)
    (h : applyCoerce o .none .none default c x = .rej k t) : k = .coercion (noneCompat c) .none := by
  cases c with
  | dflt =>
    simp only [applyCoerce] at h
    split at h
    · simp at h
    · simp only [Gate.rej.injEq] at h; rw [← h.1]; rfl
  | classOnly =>
    simp only [applyCoerce] at h
    split at h
    · split at h
      · split at h <;> simp at h
      · simp only [Gate.rej.injEq] at h; rw [← h.1]; rfl
    · simp only [Gate.rej.injEq] at h; rw [← h.1]; rfl
  | user cid compat f =>
    simp only [applyCoerce] at h
    split at h
    · simp at h
    · simp only [Gate.rej.injEq] at h; rw [← h.1]; rfl

/-- `NoneValidator` (its async entry point delegates: `src_wrap_pins`) -/
theorem src_none (o : Oracle) (vid : Nat) (ev : Ev1) (c : Option CoerceK) (x : PyVal) :
    runWrap o ⟨vid, ev, c, false⟩ Src.noneSync x = some (noneStep o vid c x) := by
  cases c with
  | none =>
    cases x <;> rfl
  | some ck =>
    simp only [runWrap, Src.noneSync, WStmt.execL, WStmt.exec, WExp.eval, wtruthy, noneStep]
    cases hg : applyCoerce o .none .none default ck x with
    | exn e t =>
      exfalso
      cases ck with
      | dflt => simp only [applyCoerce] at hg; split at hg <;> simp at hg
      | classOnly =>
        simp only [applyCoerce] at hg
        split at hg
        · split at hg
          · split at hg <;> simp at hg
          · simp at hg
        · simp at hg
      | user cid compat f => simp only [applyCoerce] at hg; split at hg <;> simp at hg
    | rej k t =>
      have hk := noneCoerce_rej_kind o ck x k t hg
      simp [callNoneCoercer, hg, wtruthy, hk]
    | acc y t =>
      simp [callNoneCoercer, hg, wtruthy]

/-- the delegating entry points and `MaybeValidator.__init__` (pinned text) -/
theorem src_wrap_pins : Src.wrapPins =
    ["NoneValidator._validate_to_tuple_async: return self._validate_to_tuple(val)", "IsDictValidator._validate_to_tuple_async: return self._validate_to_tuple(val)", "MaybeValidator.__init__: self.validator = validator ; self._validator_sync = _wrap_sync_validator(self.validator) ; self._validator_async = _wrap_async_validator(self.validator)"] := rfl

/-! ### non-vacuity -/

example : runWrap default ⟨5, fun y => some (scalarStep default .sync 6 .int none [] [] [] y), none, false⟩ Src.maybeSync
      (.just 3 (.str [97])) =
    some (.invalid (.mk .container (.just 3 (.str [97])) 5 [.mk (.type .int) (.str [97]) 6 []]), []) := by
  rw [(src_maybe _ _ _ _).1]; rfl

end Koda
