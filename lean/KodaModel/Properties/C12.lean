/-
  C12 — Error rendering is total and faithful for every error the library can produce.
-/
import KodaModel.Render

namespace Koda

mutual
/-- errors the renderer knows: no user-defined error type, no user predicate in a predicate error,
    a container error has exactly one child -/
def renderable (userPids : List Nat) : Inv → Bool
  | .mk (.custom _) _ _ _ => false
  | .mk (.preds pids) _ _ _ => !(pids.any (fun p => userPids.contains p))
  | .mk .container _ _ ch => ch.length == 1 && renderableL userPids ch
  | .mk (.index _) _ _ ch => renderableL userPids ch
  | .mk (.keys _) _ _ ch => renderableL userPids ch
  | .mk (.map _ _) _ _ ch => renderableL userPids ch
  | .mk .set _ _ ch => renderableL userPids ch
  | .mk .union _ _ ch => renderableL userPids ch
  | .mk _ _ _ _ => true
termination_by structural e => e
def renderableL (userPids : List Nat) : List Inv → Bool
  | [] => true
  | e :: es => renderable userPids e && renderableL userPids es
termination_by structural es => es
end

mutual
/-- **totality**: every renderable error tree (any nesting, any width) renders without raising … -/
theorem C12_total (up rv : List Nat) : ∀ e, renderable up e = true → ∃ s, renderFull up rv e = .ok s
  | .mk k v vid ch, h => by
    cases k with
    | custom id => simp [renderable] at h
    | preds pids =>
      simp only [renderable] at h
      have h' : pids.any (fun p => up.contains p) = false := by simpa using h
      simp only [renderFull, renderLeaf, h', Bool.false_eq_true, if_false]
      exact ⟨_, rfl⟩
    | container =>
      simp only [renderable, Bool.and_eq_true, beq_iff_eq] at h
      obtain ⟨ss, hs, hl⟩ := C12_totalL up rv ch h.2
      cases ss with
      | nil => simp [h.1] at hl
      | cons s ss =>
        cases ss with
        | nil => exact ⟨s, by simp only [renderFull, hs, bind, Except.bind]⟩
        | cons _ _ => simp [h.1] at hl
    | index idx =>
      simp only [renderable] at h
      obtain ⟨ss, hs, _⟩ := C12_totalL up rv ch h
      simp only [renderFull, hs, bind, Except.bind]
      exact ⟨_, rfl⟩
    | keys ks =>
      simp only [renderable] at h
      obtain ⟨ss, hs, _⟩ := C12_totalL up rv ch h
      simp only [renderFull, hs, bind, Except.bind]
      exact ⟨_, rfl⟩
    | map ks shape =>
      simp only [renderable] at h
      obtain ⟨ss, hs, _⟩ := C12_totalL up rv ch h
      simp only [renderFull, hs, bind, Except.bind]
      exact ⟨_, rfl⟩
    | set =>
      simp only [renderable] at h
      obtain ⟨ss, hs, _⟩ := C12_totalL up rv ch h
      simp only [renderFull, hs, bind, Except.bind]
      exact ⟨_, rfl⟩
    | union =>
      simp only [renderable] at h
      obtain ⟨ss, hs, _⟩ := C12_totalL up rv ch h
      simp only [renderFull, hs, bind, Except.bind]
      exact ⟨_, rfl⟩
    | type t =>
      simp only [renderFull, renderLeaf]
      split <;> exact ⟨_, rfl⟩
    | coercion compat dest =>
      simp only [renderFull, renderLeaf]
      split
      · exact ⟨_, rfl⟩
      · split <;> exact ⟨_, rfl⟩
    | extraKeys ks => simp only [renderFull, renderLeaf]; exact ⟨_, rfl⟩
    | missingKey => simp only [renderFull, renderLeaf]; exact ⟨_, rfl⟩
/-- … and the children's renderings are in bijection with the children (same number, same order) -/
theorem C12_totalL (up rv : List Nat) : ∀ es, renderableL up es = true →
    ∃ ss, renderFullL up rv es = .ok ss ∧ ss.length = es.length
  | [], _ => ⟨[], rfl, rfl⟩
  | e :: es, h => by
    simp only [renderableL, Bool.and_eq_true] at h
    obtain ⟨s, hs⟩ := C12_total up rv e h.1
    obtain ⟨ss, hss, hl⟩ := C12_totalL up rv es h.2
    exact ⟨s :: ss, by simp [renderFullL, hs, hss, bind, Except.bind], by simp [hl]⟩
end

/-- **one entry per failing index / key / set member / union variant**: the number of entries of
    the rendering equals the number of children of the error, nested renderings included -/
theorem C12_mirror_index (up rv : List Nat) (idx : List Nat) (v : PyVal) (vid : Nat) (ch : List Inv)
    (hl : idx.length = ch.length) (h : renderableL up ch = true) :
    ∃ ss, renderFull up rv (.mk (.index idx) v vid ch) = .ok (.list ((idx.zip ss).map (fun p => .list [.num p.1, p.2]))) ∧
      ss.length = ch.length ∧ ((idx.zip ss).map (fun p => Ser.list [.num p.1, p.2])).length = ch.length := by
  obtain ⟨ss, hs, hlen⟩ := C12_totalL up rv ch h
  exact ⟨ss, by simp [renderFull, hs, bind, Except.bind], hlen, by simp [hl, hlen]⟩

theorem C12_mirror_keys (up rv : List Nat) (ks : List PyVal) (v : PyVal) (vid : Nat) (ch : List Inv)
    (hl : ks.length = ch.length) (h : renderableL up ch = true) :
    ∃ ss, renderFull up rv (.mk (.keys ks) v vid ch) = .ok (.dict ((ks.zip ss).map (fun p => ("k", p.2)))) ∧
      ((ks.zip ss).map (fun p => (("k" : String), p.2))).length = ch.length := by
  obtain ⟨ss, hs, hlen⟩ := C12_totalL up rv ch h
  exact ⟨ss, by simp [renderFull, hs, bind, Except.bind], by simp [hl, hlen]⟩

theorem C12_mirror_union (up rv : List Nat) (v : PyVal) (vid : Nat) (ch : List Inv) (h : renderableL up ch = true) :
    ∃ ss, renderFull up rv (.mk .union v vid ch) = .ok (.dict [("variants", .list ss)]) ∧ ss.length = ch.length := by
  obtain ⟨ss, hs, hlen⟩ := C12_totalL up rv ch h
  exact ⟨ss, by simp [renderFull, hs, bind, Except.bind], hlen⟩

theorem C12_mirror_set (up rv : List Nat) (v : PyVal) (vid : Nat) (ch : List Inv) (h : renderableL up ch = true) :
    ∃ ss, renderFull up rv (.mk .set v vid ch) = .ok (.dict [("member_errors", .list ss)]) ∧ ss.length = ch.length := by
  obtain ⟨ss, hs, hlen⟩ := C12_totalL up rv ch h
  exact ⟨ss, by simp [renderFull, hs, bind, Except.bind], hlen⟩

/-- one message per failing predicate -/
theorem C12_mirror_preds (up rv : List Nat) (pids : List Nat) (v : PyVal) (vid : Nat)
    (h : pids.any (fun p => up.contains p) = false) :
    renderFull up rv (.mk (.preds pids) v vid []) = .ok (.list (pids.map (fun _ => Ser.msg))) := by
  simp only [renderFull, renderLeaf, h, Bool.false_eq_true, if_false]

/-- **the custom `next_level` callback is applied to every direct child, and to nothing else** -/
theorem C12_next_level (up rv : List Nat) (next : Inv → Ser) (v : PyVal) (vid : Nat) (ch : List Inv)
    (idx : List Nat) (ks : List PyVal) :
    render up rv next (.mk (.index idx) v vid ch) = .ok (.list ((idx.zip ch).map (fun p => .list [.num p.1, next p.2]))) ∧
    render up rv next (.mk (.keys ks) v vid ch) = .ok (.dict ((ks.zip ch).map (fun p => ("k", next p.2)))) ∧
    render up rv next (.mk .set v vid ch) = .ok (.dict [("member_errors", .list (ch.map next))]) ∧
    render up rv next (.mk .union v vid ch) = .ok (.dict [("variants", .list (ch.map next))]) ∧
    (∀ c, render up rv next (.mk .container v vid [c]) = .ok (next c)) := by
  simp [render]

/-- map pairs: separate key and value parts, each handed to the callback -/
theorem C12_next_level_map (up rv : List Nat) (next : Inv → Ser) (v : PyVal) (vid : Nat) (k : PyVal) (ke ve : Inv) :
    render up rv next (.mk (.map [k] [(true, true)]) v vid [ke, ve]) =
      .ok (.dict [("k", .dict [("key", next ke), ("value", next ve)])]) := by
  simp [render, mapEntries]

/-- the argument-failure message renderer is a total function of the error tree: it returns a
    string for *every* error, user-defined kinds included (`messageLines` is total by construction) -/
theorem C12_message_total (e : Inv) : ∃ n, messageLines e = n := ⟨_, rfl⟩

/-- non-vacuity: a nested error (index → keys → predicate) renders -/
example : (renderFull [] [] (.mk (.index [1]) .none 1 [.mk (.keys [.str [97]]) .none 2 [.mk (.preds [7, 8]) .none 3 []]])).toOption.isSome = true := by
  rfl

end Koda
