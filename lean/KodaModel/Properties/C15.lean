/-
  C15 — Built-in predicates and processors compute exactly their documented relations.

  `PredK.call` / `ProcK.call` transliterate each `__call__`; here each is related to an independent
  specification.  That the string primitives (`isSpaceStr`, ASCII case mapping, …) equal CPython's
  is established by the exhaustive correspondence stream, not here.
-/
import KodaModel.Pred
import Mathlib.Tactic.Tauto

namespace Koda

/-! ### bounds on the integers -/

theorem C15_min_int (m x : Int) :
    (PredK.min (.int m) false).call (.int x) = .ok (decide (m ≤ x)) ∧
    (PredK.min (.int m) true).call (.int x) = .ok (decide (m < x)) := by
  constructor
  · simp only [PredK.call, pyLe, pyLt, PyVal.unsub, xnum, isDecNaN, XNum.lt, Frac.lt, Frac.ofInt, pyEq,
      numEq, XNum.eq, Frac.eq]
    by_cases h : m < x
    · simp [h, Int.le_of_lt h]
    · by_cases h2 : m = x
      · simp [h, h2]
      · have : ¬ m ≤ x := by omega
        simp [h, h2, this]
  · simp [PredK.call, pyLt, PyVal.unsub, xnum, isDecNaN, XNum.lt, Frac.lt, Frac.ofInt]

theorem C15_max_int (m x : Int) :
    (PredK.max (.int m) false).call (.int x) = .ok (decide (x ≤ m)) ∧
    (PredK.max (.int m) true).call (.int x) = .ok (decide (x < m)) := by
  constructor
  · simp only [PredK.call, pyLe, pyLt, PyVal.unsub, xnum, isDecNaN, XNum.lt, Frac.lt, Frac.ofInt, pyEq,
      numEq, XNum.eq, Frac.eq]
    by_cases h : x < m
    · simp [h, Int.le_of_lt h]
    · by_cases h2 : x = m
      · simp [h, h2]
      · have : ¬ x ≤ m := by omega
        simp [h, h2, this]
  · simp [PredK.call, pyLt, PyVal.unsub, xnum, isDecNaN, XNum.lt, Frac.lt, Frac.ofInt]

/-- multiples on the integers: `x % f == 0` ⇔ `f` divides `x` -/
theorem C15_multipleOf_int (f x : Int) (hf : f ≠ 0) :
    (PredK.multipleOf (.int f)).call (.int x) = .ok (decide (x % f = 0)) := by
  simp only [PredK.call, modIsZero, PyVal.unsub, numFrac, Frac.ofInt, Frac.isZero, Frac.divisible]
  have : (f == 0) = false := by simpa using hf
  simp only [Int.mul_one, this, Bool.false_eq_true, if_false]
  cases h : (x % f == 0) <;> simp_all

/-- dates compare by their ordinal -/
theorem C15_min_date (m x : Nat) : (PredK.min (.date m) false).call (.date x) = .ok (decide (m ≤ x)) := by
  simp only [PredK.call, pyLe, pyLt, PyVal.unsub, pyEq]
  by_cases h : m < x
  · simp [h, Nat.le_of_lt h]
  · by_cases h2 : m = x
    · simp [h, h2]
    · have : ¬ m ≤ x := by omega
      simp [h, h2, this]

/-! ### lengths, item counts, key counts -/

theorem C15_lengths (n : Int) (s : List Nat) :
    (PredK.minLength n).call (.str s) = .ok (decide ((s.length : Int) ≥ n)) ∧
    (PredK.maxLength n).call (.str s) = .ok (decide ((s.length : Int) ≤ n)) ∧
    (PredK.exactLength n).call (.str s) = .ok (decide ((s.length : Int) = n)) ∧
    (PredK.minLength n).call (.bytes s) = .ok (decide ((s.length : Int) ≥ n)) ∧
    (PredK.maxLength n).call (.bytes s) = .ok (decide ((s.length : Int) ≤ n)) ∧
    (PredK.exactLength n).call (.bytes s) = .ok (decide ((s.length : Int) = n)) := by
  simp [PredK.call, lenCmp, pyLen]

theorem C15_item_counts (n : Int) (oid : Nat) (xs : List PyVal) :
    (PredK.minItems n).call (.list oid xs) = .ok (decide ((xs.length : Int) ≥ n)) ∧
    (PredK.maxItems n).call (.tuple oid xs) = .ok (decide ((xs.length : Int) ≤ n)) ∧
    (PredK.exactItemCount n).call (.set oid xs) = .ok (decide ((xs.length : Int) = n)) := by
  simp [PredK.call, lenCmp, pyLen]

theorem C15_key_counts (n : Int) (oid : Nat) (kvs : List (PyVal × PyVal)) :
    (PredK.minKeys n).call (.dict oid kvs) = .ok (decide ((kvs.length : Int) ≥ n)) ∧
    (PredK.maxKeys n).call (.dict oid kvs) = .ok (decide ((kvs.length : Int) ≤ n)) := by
  simp [PredK.call, lenCmp, pyLen]

/-! ### prefix / suffix -/

theorem isPrefix_iff (p s : List Nat) : isPrefix p s = true ↔ ∃ r, s = p ++ r := by
  induction p generalizing s with
  | nil => simp [isPrefix]
  | cons a p ih =>
    cases s with
    | nil => simp [isPrefix]
    | cons b s =>
      simp only [isPrefix, Bool.and_eq_true, beq_iff_eq, ih, List.cons_append, List.cons.injEq]
      constructor
      · rintro ⟨rfl, r, rfl⟩; exact ⟨r, rfl, rfl⟩
      · rintro ⟨r, rfl, rfl⟩; exact ⟨rfl, r, rfl⟩

theorem C15_startsWith (p s : List Nat) :
    ∃ b, (PredK.startsWith (.str p)).call (.str s) = .ok b ∧ (b = true ↔ ∃ r, s = p ++ r) ∧
         (PredK.startsWith (.bytes p)).call (.bytes s) = .ok b :=
  ⟨isPrefix p s, by simp [PredK.call, PyVal.unsub], isPrefix_iff p s, by simp [PredK.call, PyVal.unsub]⟩

theorem C15_endsWith (p s : List Nat) :
    ∃ b, (PredK.endsWith (.str p)).call (.str s) = .ok b ∧ (b = true ↔ ∃ r, s = r ++ p) ∧
         (PredK.endsWith (.bytes p)).call (.bytes s) = .ok b := by
  refine ⟨isSuffix p s, by simp [PredK.call, PyVal.unsub], ?_, by simp [PredK.call, PyVal.unsub]⟩
  unfold isSuffix
  rw [isPrefix_iff]
  constructor
  · rintro ⟨r, hr⟩
    exact ⟨r.reverse, by have := congrArg List.reverse hr; simpa using this⟩
  · rintro ⟨r, rfl⟩; exact ⟨r.reverse, by simp⟩

/-! ### not-blank and the strip processor -/

theorem dropWhile_eq_nil_iff (sp : Nat → Bool) (s : List Nat) : s.dropWhile sp = [] ↔ ∀ c ∈ s, sp c = true := by
  induction s with
  | nil => simp
  | cons a s ih =>
    simp only [List.dropWhile_cons]
    by_cases h : sp a = true
    · simp [h, ih]
    · simp [h]

theorem all_of_all_dropWhile (sp : Nat → Bool) (s : List Nat)
    (h : ∀ c ∈ s.dropWhile sp, sp c = true) : ∀ c ∈ s, sp c = true := by
  induction s with
  | nil => intro c hc; simp at hc
  | cons a s ih =>
    by_cases ha : sp a = true
    · simp only [List.dropWhile_cons, ha, if_true] at h
      intro c hc
      simp only [List.mem_cons] at hc
      rcases hc with rfl | hc
      · exact ha
      · exact ih h c hc
    · have : (a :: s).dropWhile sp = a :: s := by simp [List.dropWhile_cons, ha]
      rw [this] at h
      exact absurd (h a (by simp)) ha

/-- stripping leaves nothing ⇔ every character is whitespace -/
theorem stripWith_nil_iff (sp : Nat → Bool) (s : List Nat) : stripWith sp s = [] ↔ ∀ c ∈ s, sp c = true := by
  unfold stripWith
  rw [List.reverse_eq_nil_iff, dropWhile_eq_nil_iff]
  constructor
  · intro h
    exact all_of_all_dropWhile sp s (fun c hc => h c (by simpa using hc))
  · intro h c hc
    have hd : s.dropWhile sp = [] := (dropWhile_eq_nil_iff sp s).2 h
    simp [hd] at hc

/-- **not-blank**: true exactly on strings (bytes) containing a non-whitespace character -/
theorem C15_notBlank (s : List Nat) :
    (∃ b, PredK.notBlank.call (.str s) = .ok b ∧ (b = true ↔ ∃ c ∈ s, isSpaceStr c = false)) ∧
    (∃ b, PredK.notBlank.call (.bytes s) = .ok b ∧ (b = true ↔ ∃ c ∈ s, isSpaceBytes c = false)) := by
  have key : ∀ sp : Nat → Bool, ((!(stripWith sp s).isEmpty) = true ↔ ∃ c ∈ s, sp c = false) := by
    intro sp
    have h := stripWith_nil_iff sp s
    constructor
    · intro hb
      by_cases hex : ∃ c ∈ s, sp c = false
      · exact hex
      · have : stripWith sp s = [] := h.2 (fun c hc => by
          by_cases hs : sp c = true
          · exact hs
          · exact absurd ⟨c, hc, by simpa using hs⟩ hex)
        simp [this] at hb
    · rintro ⟨c, hc, hf⟩
      cases hh : stripWith sp s with
      | nil => have := h.1 hh c hc; rw [hf] at this; exact absurd this (by simp)
      | cons _ _ => rfl
  exact ⟨⟨_, by simp [PredK.call, PyVal.unsub], key isSpaceStr⟩, ⟨_, by simp [PredK.call, PyVal.unsub], key isSpaceBytes⟩⟩

/-- stripping is idempotent (for any notion of whitespace) -/
theorem dropWhile_idem (sp : Nat → Bool) (s : List Nat) : (s.dropWhile sp).dropWhile sp = s.dropWhile sp := by
  induction s with
  | nil => rfl
  | cons a s ih =>
    simp only [List.dropWhile_cons]
    by_cases h : sp a = true
    · simp [h, ih]
    · simp [h, List.dropWhile_cons]

/-- `upper` / `lower` are idempotent -/
theorem upperC_idem (c : Nat) : upperC (upperC c) = upperC c := by
  unfold upperC; split <;> rename_i h
  · split <;> rename_i h2
    · simp at h h2; omega
    · rfl
  · simp [h]

theorem lowerC_idem (c : Nat) : lowerC (lowerC c) = lowerC c := by
  unfold lowerC; split <;> rename_i h
  · split <;> rename_i h2
    · simp at h h2; omega
    · rfl
  · simp [h]

theorem C15_upper_idem (s : List Nat) : (s.map upperC).map upperC = s.map upperC := by
  simp [List.map_map, Function.comp_def, upperC_idem]

theorem C15_lower_idem (s : List Nat) : (s.map lowerC).map lowerC = s.map lowerC := by
  simp [List.map_map, Function.comp_def, lowerC_idem]

/-- processors apply exactly the documented transform, to `str` and `bytes` alike, and leave the type -/
theorem C15_processors (s : List Nat) :
    ProcK.strip.call (.str s) = .ok (.str (stripWith isSpaceStr s)) ∧
    ProcK.strip.call (.bytes s) = .ok (.bytes (stripWith isSpaceBytes s)) ∧
    ProcK.upper.call (.str s) = .ok (.str (s.map upperC)) ∧
    ProcK.upper.call (.bytes s) = .ok (.bytes (s.map upperC)) ∧
    ProcK.lower.call (.str s) = .ok (.str (s.map lowerC)) ∧
    ProcK.lower.call (.bytes s) = .ok (.bytes (s.map lowerC)) := by
  simp [ProcK.call, PyVal.unsub]

/-! ### uniqueness: the two-store algorithm equals "no two equal items of the same exact type" -/

/-- items that are equal *and of the same exact type* agree on hashability (so the split of
    `UniqueItems` into a hashed store and a list cannot separate two equal items) -/
def HashCompat (xs : List PyVal) : Prop :=
  ∀ a ∈ xs, ∀ b ∈ xs, typedEq a b = true → hashable a = hashable b

/-- specification: no item equals an earlier item of the same exact type -/
def UniqueSpec (xs : List PyVal) : Prop := xs.Pairwise (fun a b => typedEq b a = false)

theorem uniqueLoop_spec : ∀ (xs hs us : List PyVal),
    (∀ a ∈ hs, hashable a = true) → (∀ a ∈ us, hashable a = false) →
    HashCompat (xs ++ hs ++ us) →
    (uniqueLoop xs hs us = true ↔
      (∀ x ∈ xs, ∀ y ∈ hs ++ us, typedEq x y = false) ∧ UniqueSpec xs) := by
  intro xs
  induction xs with
  | nil => intro hs us _ _ _; simp [uniqueLoop, UniqueSpec]
  | cons x xs ih =>
    intro hs us hh hu hc
    have hcx : ∀ y ∈ hs ++ us, typedEq x y = true → hashable x = hashable y := by
      intro y hy he
      exact hc x (by simp) y (by simp only [List.mem_append, List.mem_cons] at hy ⊢; tauto) he
    have hc' : ∀ hs' us', (∀ a ∈ hs' ++ us', a ∈ x :: (hs ++ us)) → HashCompat (xs ++ hs' ++ us') := by
      intro hs' us' hsub a ha b hb he
      have ma : a ∈ (x :: xs) ++ hs ++ us := by
        simp only [List.mem_append, List.mem_cons] at ha ⊢
        rcases ha with (ha | ha) | ha
        · tauto
        · have := hsub a (by simp [ha]); simp only [List.mem_append, List.mem_cons] at this; tauto
        · have := hsub a (by simp [ha]); simp only [List.mem_append, List.mem_cons] at this; tauto
      have mb : b ∈ (x :: xs) ++ hs ++ us := by
        simp only [List.mem_append, List.mem_cons] at hb ⊢
        rcases hb with (hb | hb) | hb
        · tauto
        · have := hsub b (by simp [hb]); simp only [List.mem_append, List.mem_cons] at this; tauto
        · have := hsub b (by simp [hb]); simp only [List.mem_append, List.mem_cons] at this; tauto
      exact hc a ma b mb he
    simp only [uniqueLoop, UniqueSpec, List.pairwise_cons]
    by_cases hx : hashable x = true
    · simp only [hx, if_true]
      by_cases hany : hs.any (typedEq x) = true
      · simp only [hany, if_true]
        constructor
        · intro h; exact absurd h (by simp)
        · rintro ⟨h1, _⟩
          obtain ⟨y, hy, hey⟩ := List.any_eq_true.1 hany
          have := h1 x (by simp) y (by simp [hy])
          rw [hey] at this; exact absurd this (by simp)
      · have hany' : hs.any (typedEq x) = false := by simpa using hany
        simp only [hany', Bool.false_eq_true, if_false]
        have hno_us : ∀ y ∈ us, typedEq x y = false := by
          intro y hy
          by_cases he : typedEq x y = true
          · have := hcx y (by simp [hy]) he
            rw [hx, hu y hy] at this; exact absurd this (by simp)
          · simpa using he
        have hno_hs : ∀ y ∈ hs, typedEq x y = false := by
          intro y hy
          by_cases he : typedEq x y = true
          · exact absurd (List.any_eq_true.2 ⟨y, hy, he⟩) hany
          · simpa using he
        rw [ih (x :: hs) us (by intro a ha; simp only [List.mem_cons] at ha; rcases ha with rfl | ha; exact hx; exact hh a ha)
          hu (hc' (x :: hs) us (by intro a ha; simp only [List.mem_append, List.mem_cons] at ha ⊢; tauto))]
        constructor
        · rintro ⟨h1, h2⟩
          refine ⟨?_, ?_, h2⟩
          · intro z hz y hy
            simp only [List.mem_cons] at hz
            rcases hz with rfl | hz
            · simp only [List.mem_append] at hy
              rcases hy with hy | hy
              · exact hno_hs y hy
              · exact hno_us y hy
            · exact h1 z hz y (by simp only [List.mem_append, List.mem_cons] at hy ⊢; tauto)
          · intro b hb
            exact h1 b hb x (by simp)
        · rintro ⟨h1, h2, h3⟩
          refine ⟨?_, h3⟩
          intro z hz y hy
          simp only [List.mem_append, List.mem_cons] at hy
          rcases hy with (rfl | hy) | hy
          · exact h2 z hz
          · exact h1 z (by simp [hz]) y (by simp [hy])
          · exact h1 z (by simp [hz]) y (by simp [hy])
    · have hxf : hashable x = false := by simpa using hx
      simp only [hxf, Bool.false_eq_true, if_false]
      by_cases hany : us.any (typedEq x) = true
      · simp only [hany, if_true]
        constructor
        · intro h; exact absurd h (by simp)
        · rintro ⟨h1, _⟩
          obtain ⟨y, hy, hey⟩ := List.any_eq_true.1 hany
          have := h1 x (by simp) y (by simp [hy])
          rw [hey] at this; exact absurd this (by simp)
      · have hany' : us.any (typedEq x) = false := by simpa using hany
        simp only [hany', Bool.false_eq_true, if_false]
        have hno_hs : ∀ y ∈ hs, typedEq x y = false := by
          intro y hy
          by_cases he : typedEq x y = true
          · have := hcx y (by simp [hy]) he
            rw [hxf, hh y hy] at this; exact absurd this (by simp)
          · simpa using he
        have hno_us : ∀ y ∈ us, typedEq x y = false := by
          intro y hy
          by_cases he : typedEq x y = true
          · exact absurd (List.any_eq_true.2 ⟨y, hy, he⟩) hany
          · simpa using he
        rw [ih hs (x :: us) hh (by intro a ha; simp only [List.mem_cons] at ha; rcases ha with rfl | ha; exact hxf; exact hu a ha)
          (hc' hs (x :: us) (by intro a ha; simp only [List.mem_append, List.mem_cons] at ha ⊢; tauto))]
        constructor
        · rintro ⟨h1, h2⟩
          refine ⟨?_, ?_, h2⟩
          · intro z hz y hy
            simp only [List.mem_cons] at hz
            rcases hz with rfl | hz
            · simp only [List.mem_append] at hy
              rcases hy with hy | hy
              · exact hno_hs y hy
              · exact hno_us y hy
            · exact h1 z hz y (by simp only [List.mem_append, List.mem_cons] at hy ⊢; tauto)
          · intro b hb
            exact h1 b hb x (by simp)
        · rintro ⟨h1, h2, h3⟩
          refine ⟨?_, h3⟩
          intro z hz y hy
          simp only [List.mem_append, List.mem_cons] at hy
          rcases hy with hy | rfl | hy
          · exact h1 z (by simp [hz]) y (by simp [hy])
          · exact h2 z hz
          · exact h1 z (by simp [hz]) y (by simp [hy])

/-- **UniqueItems**: true exactly when no item equals an earlier item *of the same exact type*
    (so `1`, `True`, `1.0` are three distinct items), for hashable and unhashable items alike -/
theorem C15_uniqueItems (oid : Nat) (xs : List PyVal) (hc : HashCompat xs) (hs : snanInsideL xs = false) :
    ∃ b, PredK.uniqueItems.call (.list oid xs) = .ok b ∧ (b = true ↔ UniqueSpec xs) := by
  refine ⟨uniqueLoop xs [] [], by simp [PredK.call, pyIter, hs], ?_⟩
  rw [uniqueLoop_spec xs [] [] (by simp) (by simp) (by simpa using hc)]
  simp

/-- the excluded case is finding D30: with a signalling Decimal NaN among (or inside) the items a comparison may raise -
    `[[sNaN], [1]]` does, `[[sNaN], [1, 2]]` does not (lists of different lengths are unequal before any element is
    looked at) -/
example : PredK.uniqueItems.call (.list 0 [.list 0 [.decimal .snan], .list 0 [.int 1]]) = .error .invalidOperation ∧
          PredK.uniqueItems.call (.list 0 [.list 0 [.decimal .snan], .list 0 [.int 1, .int 2]]) = .ok true := by
  constructor <;> rfl

/-- `1`, `True` and `1.0` are pairwise distinct for `UniqueItems`; two `1`s are not -/
example : PredK.uniqueItems.call (.list 0 [.int 1, .bool true, .float (.fin false 1 0)]) = .ok true ∧
          PredK.uniqueItems.call (.list 0 [.int 1, .list 0 [.int 2], .list 0 [.int 2]]) = .ok false := by
  constructor <;> rfl

end Koda
