/-
  C18 — Composition laws: verdicts are context-free and refinement only narrows.
  Corollaries of C02–C05 on the model (the oracle checks the same relations on the implementation
  without consulting the model).
-/
import KodaModel.Properties.C02
import KodaModel.Properties.C03
import KodaModel.Properties.C04
import KodaModel.Properties.C05

namespace Koda

/-! ### one-element containers around an arbitrary child evaluator `ev` -/

theorem seqPre_singleton (k : SeqKind) (o : Oracle) (m : Mode) (vid oid : Nat) (x : PyVal) :
    seqPre k o m vid [] [] none
      (match k with | .list => .list oid [x] | .set => .set oid [x] | .utuple => .tuple oid [x]) =
    .inr ((match k with | .list => PyVal.list oid [x] | .set => .set oid [x] | .utuple => .tuple oid [x]), [x], []) := by
  cases k <;> cases m <;>
    simp [seqPre, gate, SeqKind.gateTy, PyVal.ty, contPreds, runPreds, runAPreds, pyIter]

/-- `[x]` is accepted by the list validator iff `x` is accepted by the child, with the child's
    payload inside … -/
theorem C18_singleton_list_valid (o : Oracle) (m : Mode) (vid oid : Nat) (ev : Ev1) (x w : PyVal) (t : List Ev)
    (h : ev x = some (.valid w, t)) :
    seqStep .list o m vid [] [] none ev (.list oid [x]) = some (.valid (.list 0 [w]), t) := by
  have hp := seqPre_singleton .list o m vid oid x
  simp only at hp
  simp [seqStep, hp, loopItems, h, finishSeq, SeqKind.build]

/-- … and rejected with the child's own error at position 0 otherwise -/
theorem C18_singleton_list_invalid (o : Oracle) (m : Mode) (vid oid : Nat) (ev : Ev1) (x : PyVal) (e : Inv)
    (t : List Ev) (h : ev x = some (.invalid e, t)) :
    seqStep .list o m vid [] [] none ev (.list oid [x]) =
      some (.invalid (.mk (.index [0]) (.list oid [x]) vid [e]), t) := by
  have hp := seqPre_singleton .list o m vid oid x
  simp only at hp
  simp [seqStep, hp, loopItems, h, finishSeq]

theorem C18_singleton_utuple_valid (o : Oracle) (m : Mode) (vid oid : Nat) (ev : Ev1) (x w : PyVal) (t : List Ev)
    (h : ev x = some (.valid w, t)) :
    seqStep .utuple o m vid [] [] none ev (.tuple oid [x]) = some (.valid (.tuple 0 [w]), t) := by
  have hp := seqPre_singleton .utuple o m vid oid x
  simp only at hp
  simp [seqStep, hp, loopItems, h, finishSeq, SeqKind.build]

theorem C18_singleton_utuple_invalid (o : Oracle) (m : Mode) (vid oid : Nat) (ev : Ev1) (x : PyVal) (e : Inv)
    (t : List Ev) (h : ev x = some (.invalid e, t)) :
    seqStep .utuple o m vid [] [] none ev (.tuple oid [x]) =
      some (.invalid (.mk (.index [0]) (.tuple oid [x]) vid [e]), t) := by
  have hp := seqPre_singleton .utuple o m vid oid x
  simp only at hp
  simp [seqStep, hp, loopItems, h, finishSeq]

theorem C18_singleton_set_valid (o : Oracle) (m : Mode) (vid oid : Nat) (ev : Ev1) (x w : PyVal) (t : List Ev)
    (h : ev x = some (.valid w, t)) (hw : hashable w = true) :
    seqStep .set o m vid [] [] none ev (.set oid [x]) = some (.valid (.set 0 [w]), t) := by
  have hp := seqPre_singleton .set o m vid oid x
  simp only at hp
  simp [seqStep, hp, loopItems, h, hw, finishSeq, SeqKind.build, dedup, setAdd, memL]

theorem C18_singleton_set_invalid (o : Oracle) (m : Mode) (vid oid : Nat) (ev : Ev1) (x : PyVal) (e : Inv)
    (t : List Ev) (h : ev x = some (.invalid e, t)) :
    seqStep .set o m vid [] [] none ev (.set oid [x]) =
      some (.invalid (.mk .set (.set oid [x]) vid [e]), t) := by
  have hp := seqPre_singleton .set o m vid oid x
  simp only at hp
  simp [seqStep, hp, loopItems, h, finishSeq]

theorem C18_singleton_ntuple_valid (o : Oracle) (vid oid lp : Nat) (ev : Ev1) (x w : PyVal) (t : List Ev)
    (h : ev x = some (.valid w, t)) :
    ntupleStep o vid none none lp [ev] (.tuple oid [x]) = some (.valid (.tuple 0 [w]), t) := by
  simp [ntupleStep, ntuplePre, gate, PyVal.ty, pyLen, pyIter, loopFields, h, ntupleFinish, runObjCheck]

theorem C18_singleton_ntuple_invalid (o : Oracle) (vid oid lp : Nat) (ev : Ev1) (x : PyVal) (e : Inv) (t : List Ev)
    (h : ev x = some (.invalid e, t)) :
    ntupleStep o vid none none lp [ev] (.tuple oid [x]) =
      some (.invalid (.mk (.index [0]) (.tuple oid [x]) vid [e]), t) := by
  simp [ntupleStep, ntuplePre, gate, PyVal.ty, pyLen, pyIter, loopFields, h, ntupleFinish]

/-- one-pair map with an accepting key validator: the value position behaves as the child -/
theorem C18_singleton_map_valid (o : Oracle) (m : Mode) (vid oid : Nat) (evk ev : Ev1) (k kw x w : PyVal)
    (tk t : List Ev) (hk : evk k = some (.valid kw, tk)) (hh : hashable kw = true)
    (h : ev x = some (.valid w, t)) :
    mapStep o m vid [] [] none evk ev (.dict oid [(k, x)]) = some (.valid (.dict 0 [(kw, w)]), tk ++ t) := by
  have hp : mapPre o m vid [] [] none (.dict oid [(k, x)]) = .inr (.dict oid [(k, x)], [(k, x)], []) := by
    cases m <;> simp [mapPre, gate, PyVal.ty, contPreds, runPreds, runAPreds, dictItems]
  simp [mapStep, hp, mapLoop, hk, h, hh, mapFinish, dictSet]

theorem C18_singleton_map_invalid (o : Oracle) (m : Mode) (vid oid : Nat) (evk ev : Ev1) (k kw x : PyVal) (e : Inv)
    (tk t : List Ev) (hk : evk k = some (.valid kw, tk)) (h : ev x = some (.invalid e, t)) :
    mapStep o m vid [] [] none evk ev (.dict oid [(k, x)]) =
      some (.invalid (.mk (.map [k] [(false, true)]) (.dict oid [(k, x)]) vid [e]), tk ++ t) := by
  have hp : mapPre o m vid [] [] none (.dict oid [(k, x)]) = .inr (.dict oid [(k, x)], [(k, x)], []) := by
    cases m <;> simp [mapPre, gate, PyVal.ty, contPreds, runPreds, runAPreds, dictItems]
  simp [mapStep, hp, mapLoop, hk, h, mapFinish]

/-- `Just(x)` / one-variant union / lazy / user wrapper: C05 (`C05_maybe_just_valid`,
    `C05_union_first` with `pre = post = []`, `C05_lazy`, `C05_user`) -/
theorem C18_union_one (vid : Nat) (ev : Ev1) (x w : PyVal) (t : List Ev) (h : ev x = some (.valid w, t)) :
    unionStep vid [ev] x = some (.valid w, t) := by
  have := C05_union_first (x := x) .nil h [] vid
  simpa using this

/-- a union accepts iff one of its variants does (the first one that does decides the payload) -/
theorem C18_union_iff (vid : Nat) (evs : List Ev1) (x w : PyVal) (t : List Ev) :
    unionStep vid evs x = some (.valid w, t) ↔
      ∃ pre ev post es t1 tw, evs = pre ++ ev :: post ∧ AllReject x pre es t1 ∧
        ev x = some (.valid w, tw) ∧ t = t1 ++ tw := by
  constructor
  · exact C05_union_valid_inv
  · rintro ⟨pre, ev, post, es, t1, tw, rfl, hr, hv, rfl⟩
    exact C05_union_first hr hv post vid

/-! ### refinement only narrows -/

theorem runPreds_append (ps qs : List Pred) (x : PyVal) :
    (runPreds (ps ++ qs) x).2.2 = none → (runPreds (ps ++ qs) x).1 = [] →
    (runPreds ps x).2.2 = none ∧ (runPreds ps x).1 = [] := by
  induction ps with
  | nil => intro _ _; simp [runPreds]
  | cons p ps ih =>
    simp only [List.cons_append, runPreds]
    cases hc : p.k.call x with
    | error e => simp
    | ok b =>
      cases b with
      | true => simpa using ih
      | false => simp

/-- **adding a predicate**: whatever the refined scalar validator accepts, the original accepts
    with the same payload -/
theorem C18_add_predicate (o : Oracle) (vid : Nat) (tg : Ty) (c : Option CoerceK) (pre : List Proc)
    (ps : List Pred) (p : Pred) (x w : PyVal) (t : List Ev)
    (h : scalarStep o .sync vid tg c pre (ps ++ [p]) [] x = (.valid w, t)) :
    ∃ t', scalarStep o .sync vid tg c pre ps [] x = (.valid w, t') := by
  rw [C02_accept_iff] at h
  obtain ⟨_, y, t0, t1, hg, hp, he, hn, _⟩ := h
  have h1 : (runPreds (ps ++ [p]) w).2.2 = none := by
    simp only [contPreds] at hn
    split at hn
    · simp at hn
    · rename_i hh; exact hh
  have h2 : (runPreds (ps ++ [p]) w).1 = [] := by
    simp only [contPreds, h1] at he
    simpa using he
  obtain ⟨a, b⟩ := runPreds_append ps [p] w h1 h2
  refine ⟨t0 ++ t1 ++ (contPreds .sync ps [] w).2.1, ?_⟩
  rw [C02_accept_iff]
  refine ⟨by simp, y, t0, t1, hg, hp, ?_, ?_, rfl⟩ <;> simp [contPreds, a, b]

/-- **forbidding unknown keys**: whatever the stricter record validator accepts, the laxer one
    accepts with the same payload (same trace, even) -/
theorem C18_forbid_unknown (o : Oracle) (m : Mode) (vid : Nat) (cfg : RecCfg) (evs : List Ev1) (x : PyVal)
    (r : Out × List Ev) (hr : ∃ w, r.1 = .valid w)
    (h : recordStep o m vid { cfg with failUnknown := true } evs x = some r) :
    recordStep o m vid { cfg with failUnknown := false } evs x = some r := by
  have hgate : ∀ c : RecCfg, recGate o { c with failUnknown := true } x = recGate o { c with failUnknown := false } x := by
    intro c; simp [recGate]
  simp only [recordStep] at h ⊢
  cases hp : recPre o m vid { cfg with failUnknown := true } x with
  | inl r' =>
    simp only [hp, Option.some.injEq] at h
    subst h
    -- decided at the container level: not an acceptance
    obtain ⟨w, hw⟩ := hr
    simp only [recPre] at hp
    split at hp
    · simp at hp; subst hp; simp at hw
    · split at hp
      · simp at hp; subst hp; simp at hw
      · simp at hp; subst hp; simp at hw
      · split at hp
        · simp at hp; subst hp; simp at hw
        · split at hp
          · simp at hp; subst hp; simp at hw
          · simp at hp
  | inr q =>
    obtain ⟨y, data, t0⟩ := q
    have hp' : recPre o m vid { cfg with failUnknown := false } x = .inr (y, data, t0) := by
      rw [C04_pre_iff] at hp ⊢
      obtain ⟨h1, h2, h3, _⟩ := hp
      exact ⟨h1, by rw [← hgate cfg]; exact h2, h3, by simp⟩
    simp only [hp, hp'] at h ⊢
    exact h

/-! ### non-vacuity -/
example : seqStep .list default .sync 1 [] [] none (fun x => some (.valid x, [])) (.list 5 [.int 3]) =
    some (.valid (.list 0 [.int 3]), []) := by rfl

end Koda
