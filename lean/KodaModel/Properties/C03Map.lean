/-
  C03 — the map validator *as written in /repo's current source*.

  `Generated/MapSrc.lean` is rewritten on every run from the AST of `MapValidator.__call__` and `validate_async`
  (koda_validate/dictionary.py).  Interpreting the translated methods (`KodaModel/PyMap.lean`) is the model's `mapStep`:
  for every configuration, every key / value validator and every input — container-level failures before any pair, every
  key and every value validated, failing pairs under their original key with separate key / value parts, the payload
  built by item assignment, trace and exceptions.
-/
import KodaModel.Generated.MapSrc
import KodaModel.Properties.C03
import KodaModel.Properties.C01

set_option linter.unusedSimpArgs false

namespace Koda

/-! ### the pieces of the two methods -/

def mGuard : MStmt := .ite (.selfAttr .predicatesAsync) [.expr (.warn (.selfAttr .cls))] []

def mGate : MStmt :=
  .ite (.selfAttr .coerce)
    [.ite (.not (.attr (.walrus .coerced (.call1 (.selfAttr .coerce) .val)) .isJust))
       [.ret (.mkInvalid (.mkCoercionErr (.attr (.selfAttr .coerce) .compatibleTypes) .dictTy) .val .self)]
       [.assign .coercedVal (.attr (.var .coerced) .valA)]]
    [.ite (.typeIs .val .dictTy) [.assign .coercedVal .val]
       [.ret (.mkInvalid (.mkTypeErr .dictTy) .val .self)]]

def mSyncBody : List MStmt :=
  [.ite (.not (.call1 (.var .predicate) (.var .coercedVal))) [.append .predicateErrors (.var .predicate)] []]

def mAsyncBody : List MStmt :=
  [.ite (.not (.await (.validateAsync (.var .predAsync) (.var .coercedVal)))) [.append .predicateErrors (.var .predAsync)] []]

def mPreds : MStmt := .ite (.isNotNone (.selfAttr .predicates)) [.forIn .predicate (.selfAttr .predicates) mSyncBody] []
def mAPreds : MStmt := .ite (.isNotNone (.selfAttr .predicatesAsync)) [.forIn .predAsync (.selfAttr .predicatesAsync) mAsyncBody] []
def mCheck : MStmt :=
  .ite (.var .predicateErrors) [.ret (.mkInvalid (.mkPredErrs (.var .predicateErrors)) (.var .coercedVal) .self)] []

def mChild (aw : Bool) (which : MSelf) (arg : MVar) : MExp :=
  if aw then .await (.validateAsync (.selfAttr which) (.var arg)) else .call1 (.selfAttr which) (.var arg)

def mLoopBody (aw : Bool) : List MStmt :=
  [.assign .keyResult (mChild aw .keyValidator .key),
   .assign .valResult (mChild aw .valueValidator .valU),
   .ite (.and (.attr (.var .keyResult) .isValid) (.attr (.var .valResult) .isValid))
     [.setItem .returnDict (.attr (.var .keyResult) .valA) (.attr (.var .valResult) .valA)]
     [.setItem .errors (.var .key)
        (.mkKeyValErrs (.ifExp (.attr (.var .keyResult) .isValid) .noneLit (.var .keyResult))
                       (.ifExp (.attr (.var .valResult) .isValid) .noneLit (.var .valResult)))]]

def mLoop (aw : Bool) : MStmt := .forIn2 .key .valU (.items (.var .coercedVal)) (mLoopBody aw)

def mFinal : MStmt :=
  .ite (.var .errors) [.ret (.mkInvalid (.mkMapErr (.var .errors)) (.var .coercedVal) .self)]
    [.ret (.mkValid (.var .returnDict))]

def mTail (aw : Bool) : List MStmt := [.assign .returnDict .emptyDict, .assign .errors .emptyDict, mLoop aw, mFinal]

theorem mapSync_eq : Src.mapSync =
    mGuard :: mGate :: .assign .predicateErrors .emptyList :: mPreds :: mCheck :: mTail false := rfl
theorem mapAsync_eq : Src.mapAsync =
    mGate :: .assign .predicateErrors .emptyList :: mPreds :: mAPreds :: mCheck :: mTail true := rfl

def outM : Except (MErr × List Ev) MFlow → Option (Out × List Ev)
  | .error (.exn e, t) => some (.raised e, t)
  | .error (_, _) => none
  | .ok (.returned (.resObj (.valid w)) st) => some (.valid w, st.tr)
  | .ok (.returned (.resObj (.invalid e)) st) => some (.invalid e, st.tr)
  | .ok _ => none

theorem runMapMethod_eq (o : Oracle) (cfg : MapCfg) (body : List MStmt) (x : PyVal) :
    runMapMethod o cfg body x = outM (MStmt.execL o cfg x { env := {}, tr := [] } body) := by
  simp only [runMapMethod, outM]
  rfl

/-! ### unfolding helpers -/

theorem mflow_id (r : Except (MErr × List Ev) MFlow) :
    (match r with
     | .error err => .error err
     | .ok (.next st) => .ok (.next st)
     | .ok (.returned d st) => .ok (.returned d st)) = r := by
  cases r with
  | error e => rfl
  | ok f => cases f <;> rfl

theorem mexecL_nil (o : Oracle) (cfg : MapCfg) (x : PyVal) (st : MSt) : MStmt.execL o cfg x st [] = .ok (.next st) := by
  simp only [MStmt.execL]

theorem mexecL_cons (o : Oracle) (cfg : MapCfg) (x : PyVal) (st : MSt) (s : MStmt) (rest : List MStmt) :
    MStmt.execL o cfg x st (s :: rest) =
      (match s.exec o cfg x st with
       | .error err => .error err
       | .ok (.next st) => MStmt.execL o cfg x st rest
       | .ok (.returned d st) => .ok (.returned d st)) := by
  simp only [MStmt.execL]
  rfl

theorem mexecL_single (o : Oracle) (cfg : MapCfg) (x : PyVal) (st : MSt) (s : MStmt) :
    MStmt.execL o cfg x st [s] = MStmt.exec o cfg x st s := by
  rw [mexecL_cons]
  simp only [mexecL_nil]
  exact mflow_id _

theorem mexec_ite (o : Oracle) (cfg : MapCfg) (x : PyVal) (st : MSt) (c : MExp) (t e : List MStmt) :
    MStmt.exec o cfg x st (.ite c t e) =
      (match c.eval o cfg x st with
       | .error err => .error err
       | .ok (d, st) =>
         match mtruthy d with
         | none => .error (.stuck "truth value", st.tr)
         | some true => MStmt.execL o cfg x st t
         | some false => MStmt.execL o cfg x st e) := by
  simp only [MStmt.exec]
  rfl

theorem mexec_assign (o : Oracle) (cfg : MapCfg) (x : PyVal) (st : MSt) (v : MVar) (e : MExp) :
    MStmt.exec o cfg x st (.assign v e) =
      (match e.eval o cfg x st with
       | .error err => .error err
       | .ok (d, st) => .ok (.next { st with env := st.env.set v d })) := by
  simp only [MStmt.exec]
  rfl

theorem mGuard_exec (o : Oracle) (cfg : MapCfg) (x : PyVal) (st : MSt) (rest : List MStmt) :
    MStmt.execL o cfg x st (mGuard :: rest) =
      (if (cfg.apreds.getD []) ≠ [] then .error (.exn .assertion, st.tr) else MStmt.execL o cfg x st rest) := by
  rw [mexecL_cons, mGuard, mexec_ite]
  have hattr : (MExp.selfAttr .predicatesAsync).eval o cfg x st = .ok (moptList .apreds cfg.apreds, st) := by
    simp [MExp.eval, mselfAttr]
  rw [hattr]
  cases ha : cfg.apreds with
  | none => simp [moptList, mtruthy, mexecL_nil]
  | some l =>
    cases l with
    | nil => simp [moptList, mtruthy, mexecL_nil]
    | cons a l' =>
      simp only [moptList, mtruthy, List.isEmpty_cons, Bool.not_false, Option.getD_some, ne_eq, reduceCtorEq, not_false_eq_true, if_true]
      rw [mexecL_single]
      simp [MStmt.exec, MExp.eval, mselfAttr]

theorem mapCoerce_rej_kind (o : Oracle) (c : CoerceK) (x : PyVal) (k : ErrK) (t : List Ev)
    (h : applyCoerce o Ty.dict Ty.dict default c x = .rej k t) : k = .coercion (mapCompat c) Ty.dict := by
  cases c with
  | dflt =>
    simp only [applyCoerce] at h
    split at h
    · simp at h
    · simp only [Gate.rej.injEq] at h; rw [← h.1]; rfl
  | classOnly =>
    simp only [applyCoerce] at h
    split at h
    · split at h
      · split at h <;> simp at h
      · simp only [Gate.rej.injEq] at h; rw [← h.1]; rfl
    · simp only [Gate.rej.injEq] at h; rw [← h.1]; rfl
  | user cid compat f =>
    simp only [applyCoerce] at h
    split at h
    · simp at h
    · simp only [Gate.rej.injEq] at h; rw [← h.1]; rfl

theorem mGate_exec (o : Oracle) (cfg : MapCfg) (x : PyVal) (st : MSt) (rest : List MStmt) :
    (∀ k t, gate o Ty.dict Ty.dict cfg.coerce x = .rej k t →
      outM (MStmt.execL o cfg x st (mGate :: rest)) = some (.invalid (.mk k x cfg.vid []), st.tr ++ t)) ∧
    (∀ y t, gate o Ty.dict Ty.dict cfg.coerce x = .acc y t →
      ∃ st', MStmt.execL o cfg x st (mGate :: rest) = MStmt.execL o cfg x st' rest ∧
        st'.env.coercedVal = .py y ∧ st'.tr = st.tr ++ t) := by
  rw [mexecL_cons, mGate, mexec_ite]
  have hattr : ∀ st1 : MSt, (MExp.selfAttr .coerce).eval o cfg x st1 =
      .ok ((match cfg.coerce with | some c => MV.coercer c | none => MV.none), st1) := by
    intro st1; cases h : cfg.coerce <;> simp [MExp.eval, mselfAttr, h]
  rw [hattr]
  cases hc : cfg.coerce with
  | none =>
    simp only [mtruthy, gate]
    rw [mexecL_single, mexec_ite]
    have hcond : (MExp.typeIs .val .dictTy).eval o cfg x st = .ok (.bool (x.ty == Ty.dict), st) := by
      simp [MExp.eval]
    rw [hcond]
    by_cases hty : x.ty = Ty.dict
    · have hb : (x.ty == Ty.dict) = true := by simpa using hty
      simp only [hb, mtruthy, if_pos hty]
      refine ⟨?_, ?_⟩
      · intro k t h; simp at h
      · intro y t h
        simp only [Gate.acc.injEq] at h
        obtain ⟨rfl, rfl⟩ := h
        refine ⟨{ st with env := st.env.set .coercedVal (.py x) }, ?_, rfl, by simp⟩
        rw [mexecL_single, mexec_assign]
        simp [MExp.eval]
    · have hb : (x.ty == Ty.dict) = false := by simpa using hty
      simp only [hb, mtruthy, if_neg hty]
      refine ⟨?_, ?_⟩
      · intro k t h
        simp only [Gate.rej.injEq] at h
        obtain ⟨rfl, rfl⟩ := h
        simp [mexecL_single, MStmt.exec, MExp.eval, outM]
      · intro y t h; simp at h
  | some c =>
    simp only [mtruthy, gate]
    rw [mexecL_single, mexec_ite]
    have hcond : (MExp.not (.attr (.walrus .coerced (.call1 (.selfAttr .coerce) .val)) .isJust)).eval o cfg x st =
        .ok (.bool (!(callMapCoercer o c x).1.isSome),
          { env := st.env.set .coerced (.maybe (callMapCoercer o c x).1), tr := st.tr ++ (callMapCoercer o c x).2 }) := by
      simp [MExp.eval, mselfAttr, hc, mtruthy]
    rw [hcond]
    cases hg : applyCoerce o Ty.dict Ty.dict default c x with
    | exn e t =>
      exfalso
      cases c with
      | dflt => simp only [applyCoerce] at hg; split at hg <;> simp at hg
      | classOnly =>
        simp only [applyCoerce] at hg
        split at hg
        · split at hg
          · split at hg <;> simp at hg
          · simp at hg
        · simp at hg
      | user cid compat f => simp only [applyCoerce] at hg; split at hg <;> simp at hg
    | rej k t =>
      have hk := mapCoerce_rej_kind o c x k t hg
      have hcc : callMapCoercer o c x = (none, t) := by simp [callMapCoercer, hg]
      simp only [hcc, Option.isSome_none, Bool.not_false, mtruthy]
      refine ⟨?_, ?_⟩
      · intro k' t' h
        simp only [Gate.rej.injEq] at h
        obtain ⟨rfl, rfl⟩ := h
        simp [mexecL_single, MStmt.exec, MExp.eval, mselfAttr, hc, outM, hk]
      · intro y t' h; simp at h
    | acc y t =>
      have hcc : callMapCoercer o c x = (some y, t) := by simp [callMapCoercer, hg]
      simp only [hcc, Option.isSome_some, Bool.not_true, mtruthy]
      refine ⟨?_, ?_⟩
      · intro k' t' h; simp at h
      · intro y' t' h
        simp only [Gate.acc.injEq] at h
        obtain ⟨rfl, rfl⟩ := h
        refine ⟨{ env := (st.env.set .coerced (.maybe (some y))).set .coercedVal (.py y), tr := st.tr ++ t }, ?_, rfl, rfl⟩
        rw [mexecL_single, mexec_assign]
        simp [MExp.eval, MEnv.get, MEnv.set]

/-- the predicates that fail on `z`, in order -/
def mfailing (ps : List Pred) (z : PyVal) : List Pred :=
  ps.filter (fun p => match p.k.call z with | .ok false => true | _ => false)

/-- `predicate_errors` holds the predicate objects `qs` (an empty Python list has no element type) -/
def MIsErrs (v : MV) (qs : List Pred) : Prop := v = .preds qs ∨ (qs = [] ∧ v = .emptyL)

theorem misErrs_truthy {v : MV} {qs : List Pred} (h : MIsErrs v qs) : mtruthy v = some (!qs.isEmpty) := by
  rcases h with rfl | ⟨rfl, rfl⟩ <;> rfl

/-- `for pred_async in self.predicates_async: if not await pred_async.validate_async(coerced_val): predicate_errors.append(pred_async)` -/
theorem mforFold_preds (o : Oracle) (cfg : MapCfg) (x : PyVal) :
    ∀ (aps : List Pred) (st : MSt) (z : PyVal) (qs : List Pred), st.env.coercedVal = .py z →
      MIsErrs st.env.predicateErrors qs →
      (∀ f t e, runPreds aps z = (f, t, some e) →
        mforFold (fun st => MStmt.execL o cfg x st mSyncBody) .predicate (aps.map MV.pred) st = .error (.exn e, st.tr ++ t)) ∧
      (∀ f t, runPreds aps z = (f, t, none) →
        f = (mfailing aps z).map (·.pid) ∧
        ∃ st', mforFold (fun st => MStmt.execL o cfg x st mSyncBody) .predicate (aps.map MV.pred) st = .ok (.next st') ∧
          st'.env.coercedVal = .py z ∧ st'.tr = st.tr ++ t ∧ MIsErrs st'.env.predicateErrors (qs ++ mfailing aps z)) := by
  intro aps
  induction aps with
  | nil =>
    intro st z qs hz hq
    refine ⟨?_, ?_⟩
    · intro f t e h; simp [runPreds] at h
    · intro f t h
      simp only [runPreds, Prod.mk.injEq] at h
      obtain ⟨rfl, rfl, _⟩ := h
      exact ⟨rfl, st, by simp [mforFold], hz, by simp, by simpa [mfailing] using hq⟩
  | cons p ps ih =>
    intro st z qs hz hq
    -- one round
    have hround : MStmt.execL o cfg x { st with env := st.env.set .predicate (.pred p) } mSyncBody =
        (match p.k.call z with
         | .error e => .error (.exn e, st.tr ++ p.ev)
         | .ok true => .ok (.next { env := st.env.set .predicate (.pred p), tr := st.tr ++ p.ev })
         | .ok false => .ok (.next { env := (st.env.set .predicate (.pred p)).set .predicateErrors (.preds (qs ++ [p])),
                                     tr := st.tr ++ p.ev })) := by
      rw [mSyncBody, mexecL_single, mexec_ite]
      have hc : (MExp.not (.call1 (.var .predicate) (.var .coercedVal))).eval o cfg x
            { st with env := st.env.set .predicate (.pred p) } =
          (match p.k.call z with
           | .ok b => .ok (.bool (!b), { env := st.env.set .predicate (.pred p), tr := st.tr ++ p.ev })
           | .error e => .error (.exn e, st.tr ++ p.ev)) := by
        simp only [MExp.eval, MEnv.get, MEnv.set, hz]
        cases p.k.call z <;> simp [mtruthy]
      rw [hc]
      cases hcall : p.k.call z with
      | error e => rfl
      | ok b =>
        cases b with
        | true => simp [mtruthy, mexecL_nil]
        | false =>
          simp only [Bool.not_false, mtruthy]
          rw [mexecL_single]
          rcases hq with hq | ⟨rfl, hq⟩
          · simp [MStmt.exec, MExp.eval, MEnv.get, MEnv.set, hq]
          · simp [MStmt.exec, MExp.eval, MEnv.get, MEnv.set, hq]
    simp only [List.map_cons, mforFold, hround]
    cases hcall : p.k.call z with
    | error e0 =>
      refine ⟨?_, ?_⟩
      · intro f t e h
        simp only [runPreds, hcall, Prod.mk.injEq, Option.some.injEq] at h
        obtain ⟨_, rfl, rfl⟩ := h
        rfl
      · intro f t h; simp [runPreds, hcall] at h
    | ok b =>
      cases b with
      | true =>
        obtain ⟨i1, i2⟩ := ih { env := st.env.set .predicate (.pred p), tr := st.tr ++ p.ev } z qs
          (by simpa [MEnv.set] using hz) (by simpa [MEnv.set] using hq)
        simp only
        refine ⟨?_, ?_⟩
        · intro f t e h
          simp only [runPreds, hcall, if_true, Prod.mk.injEq] at h
          obtain ⟨_, ht, he⟩ := h
          rw [i1 _ _ e (by rw [← he])]
          simp [← ht]
        · intro f t h
          simp only [runPreds, hcall, if_true, Prod.mk.injEq] at h
          obtain ⟨hf, ht, he⟩ := h
          obtain ⟨hff, st', h1, h2, h3, h4⟩ := i2 _ _ (by rw [← he])
          refine ⟨?_, st', h1, h2, ?_, ?_⟩
          · rw [← hf, hff]; simp [mfailing, hcall]
          · rw [h3, ← ht]; simp
          · simpa [mfailing, hcall] using h4
      | false =>
        obtain ⟨i1, i2⟩ := ih { env := (st.env.set .predicate (.pred p)).set .predicateErrors (.preds (qs ++ [p])),
                                tr := st.tr ++ p.ev } z (qs ++ [p])
          (by simpa [MEnv.set] using hz) (.inl (by simp [MEnv.set]))
        simp only
        refine ⟨?_, ?_⟩
        · intro f t e h
          simp only [runPreds, hcall, Bool.false_eq_true, if_false, Prod.mk.injEq] at h
          obtain ⟨_, ht, he⟩ := h
          rw [i1 _ _ e (by rw [← he])]
          simp [← ht]
        · intro f t h
          simp only [runPreds, hcall, Bool.false_eq_true, if_false, Prod.mk.injEq] at h
          obtain ⟨hf, ht, he⟩ := h
          obtain ⟨hff, st', h1, h2, h3, h4⟩ := i2 _ _ (by rw [← he])
          refine ⟨?_, st', h1, h2, ?_, ?_⟩
          · rw [← hf, hff]; simp [mfailing, hcall]
          · rw [h3, ← ht]; simp
          · simpa [mfailing, hcall, List.append_assoc] using h4

/-- `for pred_async in self.predicates_async: if not await pred_async.validate_async(coerced_val): predicate_errors.append(pred_async)` -/
theorem mforFold_apreds (o : Oracle) (cfg : MapCfg) (x : PyVal) :
    ∀ (aps : List Pred) (st : MSt) (z : PyVal) (qs : List Pred), st.env.coercedVal = .py z →
      MIsErrs st.env.predicateErrors qs →
      (∀ f t e, runAPreds aps z = (f, t, some e) →
        mforFold (fun st => MStmt.execL o cfg x st mAsyncBody) .predAsync (aps.map MV.apred) st = .error (.exn e, st.tr ++ t)) ∧
      (∀ f t, runAPreds aps z = (f, t, none) →
        f = (mfailing aps z).map (·.pid) ∧
        ∃ st', mforFold (fun st => MStmt.execL o cfg x st mAsyncBody) .predAsync (aps.map MV.apred) st = .ok (.next st') ∧
          st'.env.coercedVal = .py z ∧ st'.tr = st.tr ++ t ∧ MIsErrs st'.env.predicateErrors (qs ++ mfailing aps z)) := by
  intro aps
  induction aps with
  | nil =>
    intro st z qs hz hq
    refine ⟨?_, ?_⟩
    · intro f t e h; simp [runAPreds] at h
    · intro f t h
      simp only [runAPreds, Prod.mk.injEq] at h
      obtain ⟨rfl, rfl, _⟩ := h
      exact ⟨rfl, st, by simp [mforFold], hz, by simp, by simpa [mfailing] using hq⟩
  | cons p ps ih =>
    intro st z qs hz hq
    -- one round
    have hround : MStmt.execL o cfg x { st with env := st.env.set .predAsync (.apred p) } mAsyncBody =
        (match p.k.call z with
         | .error e => .error (.exn e, st.tr ++ [Ev.apred p.pid])
         | .ok true => .ok (.next { env := st.env.set .predAsync (.apred p), tr := st.tr ++ [Ev.apred p.pid] })
         | .ok false => .ok (.next { env := (st.env.set .predAsync (.apred p)).set .predicateErrors (.preds (qs ++ [p])),
                                     tr := st.tr ++ [Ev.apred p.pid] })) := by
      rw [mAsyncBody, mexecL_single, mexec_ite]
      have hc : (MExp.not (.await (.validateAsync (.var .predAsync) (.var .coercedVal)))).eval o cfg x
            { st with env := st.env.set .predAsync (.apred p) } =
          (match p.k.call z with
           | .ok b => .ok (.bool (!b), { env := st.env.set .predAsync (.apred p), tr := st.tr ++ [Ev.apred p.pid] })
           | .error e => .error (.exn e, st.tr ++ [Ev.apred p.pid])) := by
        simp only [MExp.eval, MEnv.get, MEnv.set, hz]
        cases p.k.call z <;> simp [mtruthy]
      rw [hc]
      cases hcall : p.k.call z with
      | error e => rfl
      | ok b =>
        cases b with
        | true => simp [mtruthy, mexecL_nil]
        | false =>
          simp only [Bool.not_false, mtruthy]
          rw [mexecL_single]
          rcases hq with hq | ⟨rfl, hq⟩
          · simp [MStmt.exec, MExp.eval, MEnv.get, MEnv.set, hq]
          · simp [MStmt.exec, MExp.eval, MEnv.get, MEnv.set, hq]
    simp only [List.map_cons, mforFold, hround]
    cases hcall : p.k.call z with
    | error e0 =>
      refine ⟨?_, ?_⟩
      · intro f t e h
        simp only [runAPreds, hcall, Prod.mk.injEq, Option.some.injEq] at h
        obtain ⟨_, rfl, rfl⟩ := h
        rfl
      · intro f t h; simp [runAPreds, hcall] at h
    | ok b =>
      cases b with
      | true =>
        obtain ⟨i1, i2⟩ := ih { env := st.env.set .predAsync (.apred p), tr := st.tr ++ [Ev.apred p.pid] } z qs
          (by simpa [MEnv.set] using hz) (by simpa [MEnv.set] using hq)
        simp only
        refine ⟨?_, ?_⟩
        · intro f t e h
          simp only [runAPreds, hcall, if_true, Prod.mk.injEq] at h
          obtain ⟨_, ht, he⟩ := h
          rw [i1 _ _ e (by rw [← he])]
          simp [← ht]
        · intro f t h
          simp only [runAPreds, hcall, if_true, Prod.mk.injEq] at h
          obtain ⟨hf, ht, he⟩ := h
          obtain ⟨hff, st', h1, h2, h3, h4⟩ := i2 _ _ (by rw [← he])
          refine ⟨?_, st', h1, h2, ?_, ?_⟩
          · rw [← hf, hff]; simp [mfailing, hcall]
          · rw [h3, ← ht]; simp
          · simpa [mfailing, hcall] using h4
      | false =>
        obtain ⟨i1, i2⟩ := ih { env := (st.env.set .predAsync (.apred p)).set .predicateErrors (.preds (qs ++ [p])),
                                tr := st.tr ++ [Ev.apred p.pid] } z (qs ++ [p])
          (by simpa [MEnv.set] using hz) (.inl (by simp [MEnv.set]))
        simp only
        refine ⟨?_, ?_⟩
        · intro f t e h
          simp only [runAPreds, hcall, Bool.false_eq_true, if_false, Prod.mk.injEq] at h
          obtain ⟨_, ht, he⟩ := h
          rw [i1 _ _ e (by rw [← he])]
          simp [← ht]
        · intro f t h
          simp only [runAPreds, hcall, Bool.false_eq_true, if_false, Prod.mk.injEq] at h
          obtain ⟨hf, ht, he⟩ := h
          obtain ⟨hff, st', h1, h2, h3, h4⟩ := i2 _ _ (by rw [← he])
          refine ⟨?_, st', h1, h2, ?_, ?_⟩
          · rw [← hf, hff]; simp [mfailing, hcall]
          · rw [h3, ← ht]; simp
          · simpa [mfailing, hcall, List.append_assoc] using h4

/-! ### the container predicates: two `for` loops appending to `predicate_errors`, then the test -/

theorem mPreds_exec (o : Oracle) (cfg : MapCfg) (x : PyVal) (st : MSt) (y : PyVal) (qs : List Pred)
    (hy : st.env.coercedVal = .py y) (hq : MIsErrs st.env.predicateErrors qs) (rest : List MStmt) :
    (∀ f t e, runPreds (cfg.preds.getD []) y = (f, t, some e) →
      MStmt.execL o cfg x st (mPreds :: rest) = .error (.exn e, st.tr ++ t)) ∧
    (∀ f t, runPreds (cfg.preds.getD []) y = (f, t, none) →
      f = (mfailing (cfg.preds.getD []) y).map (·.pid) ∧
      ∃ st1, MStmt.execL o cfg x st (mPreds :: rest) = MStmt.execL o cfg x st1 rest ∧
        st1.env.coercedVal = .py y ∧ st1.tr = st.tr ++ t ∧
        MIsErrs st1.env.predicateErrors (qs ++ mfailing (cfg.preds.getD []) y)) := by
  rw [mexecL_cons, mPreds, mexec_ite]
  have hattr : (MExp.isNotNone (.selfAttr .predicates)).eval o cfg x st = .ok (.bool cfg.preds.isSome, st) := by
    cases ha : cfg.preds <;> simp [MExp.eval, mselfAttr, ha, moptList]
  rw [hattr]
  cases ha : cfg.preds with
  | none =>
    simp only [Option.isSome_none, mtruthy, mexecL_nil, Option.getD_none]
    refine ⟨fun f t e h => by simp [runPreds] at h, ?_⟩
    intro f t h
    simp only [runPreds, Prod.mk.injEq] at h
    obtain ⟨rfl, rfl, _⟩ := h
    exact ⟨rfl, st, rfl, hy, by simp, by simpa [mfailing] using hq⟩
  | some ps =>
    simp only [Option.isSome_some, mtruthy, Option.getD_some]
    rw [mexecL_single]
    have hfor : MStmt.exec o cfg x st (.forIn .predicate (.selfAttr .predicates) mSyncBody) =
        mforFold (fun st => MStmt.execL o cfg x st mSyncBody) .predicate (ps.map MV.pred) st := by
      simp only [MStmt.exec, MExp.eval, mselfAttr, ha, moptList]
    rw [hfor]
    obtain ⟨a1, a2⟩ := mforFold_preds o cfg x ps st y qs hy hq
    refine ⟨?_, ?_⟩
    · intro f t e h
      rw [a1 f t e h]
    · intro f t h
      obtain ⟨hf, st2, g1, g2, g3, g4⟩ := a2 f t h
      exact ⟨hf, st2, by rw [g1], g2, g3, g4⟩

theorem mAPreds_exec (o : Oracle) (cfg : MapCfg) (x : PyVal) (st : MSt) (y : PyVal) (qs : List Pred)
    (hy : st.env.coercedVal = .py y) (hq : MIsErrs st.env.predicateErrors qs) (rest : List MStmt) :
    (∀ f t e, runAPreds (cfg.apreds.getD []) y = (f, t, some e) →
      MStmt.execL o cfg x st (mAPreds :: rest) = .error (.exn e, st.tr ++ t)) ∧
    (∀ f t, runAPreds (cfg.apreds.getD []) y = (f, t, none) →
      f = (mfailing (cfg.apreds.getD []) y).map (·.pid) ∧
      ∃ st1, MStmt.execL o cfg x st (mAPreds :: rest) = MStmt.execL o cfg x st1 rest ∧
        st1.env.coercedVal = .py y ∧ st1.tr = st.tr ++ t ∧
        MIsErrs st1.env.predicateErrors (qs ++ mfailing (cfg.apreds.getD []) y)) := by
  rw [mexecL_cons, mAPreds, mexec_ite]
  have hattr : (MExp.isNotNone (.selfAttr .predicatesAsync)).eval o cfg x st = .ok (.bool cfg.apreds.isSome, st) := by
    cases ha : cfg.apreds <;> simp [MExp.eval, mselfAttr, ha, moptList]
  rw [hattr]
  cases ha : cfg.apreds with
  | none =>
    simp only [Option.isSome_none, mtruthy, mexecL_nil, Option.getD_none]
    refine ⟨fun f t e h => by simp [runAPreds] at h, ?_⟩
    intro f t h
    simp only [runAPreds, Prod.mk.injEq] at h
    obtain ⟨rfl, rfl, _⟩ := h
    exact ⟨rfl, st, rfl, hy, by simp, by simpa [mfailing] using hq⟩
  | some ps =>
    simp only [Option.isSome_some, mtruthy, Option.getD_some]
    rw [mexecL_single]
    have hfor : MStmt.exec o cfg x st (.forIn .predAsync (.selfAttr .predicatesAsync) mAsyncBody) =
        mforFold (fun st => MStmt.execL o cfg x st mAsyncBody) .predAsync (ps.map MV.apred) st := by
      simp only [MStmt.exec, MExp.eval, mselfAttr, ha, moptList]
    rw [hfor]
    obtain ⟨a1, a2⟩ := mforFold_apreds o cfg x ps st y qs hy hq
    refine ⟨?_, ?_⟩
    · intro f t e h
      rw [a1 f t e h]
    · intro f t h
      obtain ⟨hf, st2, g1, g2, g3, g4⟩ := a2 f t h
      exact ⟨hf, st2, by rw [g1], g2, g3, g4⟩

theorem mCheck_exec (o : Oracle) (cfg : MapCfg) (x : PyVal) (st : MSt) (y : PyVal) (qs : List Pred)
    (hy : st.env.coercedVal = .py y) (hq : MIsErrs st.env.predicateErrors qs) (rest : List MStmt) :
    (qs ≠ [] → outM (MStmt.execL o cfg x st (mCheck :: rest)) =
      some (.invalid (.mk (.preds (qs.map (·.pid))) y cfg.vid []), st.tr)) ∧
    (qs = [] → MStmt.execL o cfg x st (mCheck :: rest) = MStmt.execL o cfg x st rest) := by
  rw [mexecL_cons, mCheck, mexec_ite]
  have hv : (MExp.var .predicateErrors).eval o cfg x st = .ok (st.env.predicateErrors, st) := by
    simp [MExp.eval, MEnv.get]
  rw [hv]
  simp only [misErrs_truthy hq]
  refine ⟨?_, ?_⟩
  · intro hne
    have hemp : (!qs.isEmpty) = true := by cases qs with
      | nil => exact absurd rfl hne
      | cons a l => rfl
    rw [hemp]
    simp only
    rw [mexecL_single]
    have hpe : st.env.predicateErrors = .preds qs := by
      rcases hq with hq | ⟨hq, _⟩
      · exact hq
      · exact absurd hq hne
    simp [MStmt.exec, MExp.eval, MEnv.get, hpe, hy, outM]
  · intro h0
    subst h0
    simp [mexecL_nil]

/-! ### the loop over the pairs -/

def invOf : Out → Option Inv
  | .invalid e => some e
  | _ => none

structure MapInv (st : MSt) (acc : List (PyVal × PyVal)) (es : List (PyVal × KVE)) (cv : MV) : Prop where
  rd : st.env.returnDict = .dictPayload acc
  er : (es = [] ∧ st.env.errors = .dictPayload []) ∨ (es ≠ [] ∧ st.env.errors = .mapErrs es)
  cv : st.env.coercedVal = cv

def esKs (es : List (PyVal × KVE)) : List PyVal := es.map Prod.fst
def esShape (es : List (PyVal × KVE)) : List (Bool × Bool) := es.map (fun p => (p.2.1.isSome, p.2.2.isSome))
def esErrs (es : List (PyVal × KVE)) : List Inv := es.flatMap (fun p => p.2.1.toList ++ p.2.2.toList)

/-- the conclusion of the fold lemma, for one list of pairs -/
def PairsOK (o : Oracle) (cfg : MapCfg) (x : PyVal) (aw : Bool) (kvs : List (PyVal × PyVal)) (st : MSt)
    (acc : List (PyVal × PyVal)) (es : List (PyVal × KVE)) (cv : MV) : Prop :=
  (mapLoop cfg.key cfg.value kvs acc = none →
    ∃ t, mforFold2 (fun st => MStmt.execL o cfg x st (mLoopBody aw)) .key .valU kvs st = .error (.diverge, t)) ∧
  (∀ r e, mapLoop cfg.key cfg.value kvs acc = some r → r.r = some e →
    mforFold2 (fun st => MStmt.execL o cfg x st (mLoopBody aw)) .key .valU kvs st = .error (.exn e, st.tr ++ r.t)) ∧
  (∀ r, mapLoop cfg.key cfg.value kvs acc = some r → r.r = none →
    ∃ st1 es', mforFold2 (fun st => MStmt.execL o cfg x st (mLoopBody aw)) .key .valU kvs st = .ok (.next st1) ∧
      st1.tr = st.tr ++ r.t ∧ MapInv st1 r.out (es ++ es') cv ∧
      r.ks = esKs es' ∧ r.shape = esShape es' ∧ r.errs = esErrs es')

theorem mforFold2_unfold (body : MSt → Except (MErr × List Ev) MFlow) (k v : PyVal) (rest : List (PyVal × PyVal)) (st : MSt) :
    mforFold2 body .key .valU ((k, v) :: rest) st =
      (match body { st with env := (st.env.set .key (.py k)).set .valU (.py v) } with
       | .ok (.next st') => mforFold2 body .key .valU rest st'
       | other => other) := by
  rfl

/-- a pair at least one part of which is rejected: filed under its original key, nothing stored -/
theorem mforFold2_pairs_err (o : Oracle) (cfg : MapCfg) (x : PyVal) (aw : Bool) (k v : PyVal) (rest : List (PyVal × PyVal))
    (st : MSt) (acc : List (PyVal × PyVal)) (es : List (PyVal × KVE)) (cv : MV) (hinv : MapInv st acc es cv)
    (ko vo : Out) (tk tv : List Ev) (hk : cfg.key k = some (ko, tk)) (hv : cfg.value v = some (vo, tv))
    (hko : ∀ e, ko ≠ .raised e) (hvo : ∀ e, vo ≠ .raised e) (hbad : ∀ a b, ¬ (ko = .valid a ∧ vo = .valid b))
    (ih : ∀ (st : MSt) (acc : List (PyVal × PyVal)) (es : List (PyVal × KVE)) (cv : MV), MapInv st acc es cv →
      PairsOK o cfg x aw rest st acc es cv) :
    PairsOK o cfg x aw ((k, v) :: rest) st acc es cv := by
  obtain ⟨h1, h2, h3⟩ := hinv
  have hstep : ∃ st2, MStmt.execL o cfg x { st with env := (st.env.set .key (.py k)).set .valU (.py v) } (mLoopBody aw) =
      .ok (.next st2) ∧ MapInv st2 acc (es ++ [(k, (invOf ko, invOf vo))]) cv ∧ st2.tr = st.tr ++ tk ++ tv := by
    rcases h2 with ⟨rfl, h2⟩ | ⟨hne, h2⟩
    · cases ko with
      | raised e => exact absurd rfl (hko e)
      | valid a =>
        cases vo with
        | raised e => exact absurd rfl (hvo e)
        | valid b => exact absurd ⟨rfl, rfl⟩ (hbad a b)
        | invalid ve =>
          cases aw <;> simp [mLoopBody, mChild, MStmt.execL, MStmt.exec, MExp.eval, mselfAttr, MEnv.get, MEnv.set, callMapChild, hk, hv, mtruthy, h1, h2, h3, invOf, List.append_assoc] <;>
            exact ⟨rfl, .inr ⟨by simp, rfl⟩, rfl⟩
      | invalid ke =>
        cases vo with
        | raised e => exact absurd rfl (hvo e)
        | valid b =>
          cases aw <;> simp [mLoopBody, mChild, MStmt.execL, MStmt.exec, MExp.eval, mselfAttr, MEnv.get, MEnv.set, callMapChild, hk, hv, mtruthy, h1, h2, h3, invOf, List.append_assoc] <;>
            exact ⟨rfl, .inr ⟨by simp, rfl⟩, rfl⟩
        | invalid ve =>
          cases aw <;> simp [mLoopBody, mChild, MStmt.execL, MStmt.exec, MExp.eval, mselfAttr, MEnv.get, MEnv.set, callMapChild, hk, hv, mtruthy, h1, h2, h3, invOf, List.append_assoc] <;>
            exact ⟨rfl, .inr ⟨by simp, rfl⟩, rfl⟩
    · cases ko with
      | raised e => exact absurd rfl (hko e)
      | valid a =>
        cases vo with
        | raised e => exact absurd rfl (hvo e)
        | valid b => exact absurd ⟨rfl, rfl⟩ (hbad a b)
        | invalid ve =>
          cases aw <;> simp [mLoopBody, mChild, MStmt.execL, MStmt.exec, MExp.eval, mselfAttr, MEnv.get, MEnv.set, callMapChild, hk, hv, mtruthy, h1, h2, h3, invOf, List.append_assoc] <;>
            exact ⟨rfl, .inr ⟨by simp, rfl⟩, rfl⟩
      | invalid ke =>
        cases vo with
        | raised e => exact absurd rfl (hvo e)
        | valid b =>
          cases aw <;> simp [mLoopBody, mChild, MStmt.execL, MStmt.exec, MExp.eval, mselfAttr, MEnv.get, MEnv.set, callMapChild, hk, hv, mtruthy, h1, h2, h3, invOf, List.append_assoc] <;>
            exact ⟨rfl, .inr ⟨by simp, rfl⟩, rfl⟩
        | invalid ve =>
          cases aw <;> simp [mLoopBody, mChild, MStmt.execL, MStmt.exec, MExp.eval, mselfAttr, MEnv.get, MEnv.set, callMapChild, hk, hv, mtruthy, h1, h2, h3, invOf, List.append_assoc] <;>
            exact ⟨rfl, .inr ⟨by simp, rfl⟩, rfl⟩
  obtain ⟨st2, hstep, hinv2, htr2⟩ := hstep
  -- the model's step for such a pair
  have hmodel : mapLoop cfg.key cfg.value ((k, v) :: rest) acc =
      (match mapLoop cfg.key cfg.value rest acc with
       | none => none
       | some r => some { r with ks := k :: r.ks, shape := ((invOf ko).isSome, (invOf vo).isSome) :: r.shape,
                                 errs := (invOf ko).toList ++ (invOf vo).toList ++ r.errs, t := tk ++ tv ++ r.t }) := by
    cases ko with
    | raised e => exact absurd rfl (hko e)
    | valid a =>
      cases vo with
      | raised e => exact absurd rfl (hvo e)
      | valid b => exact absurd ⟨rfl, rfl⟩ (hbad a b)
      | invalid ve => simp only [mapLoop, hk, hv, invOf]; cases mapLoop cfg.key cfg.value rest acc <;> simp
    | invalid ke =>
      cases vo with
      | raised e => exact absurd rfl (hvo e)
      | valid b => simp only [mapLoop, hk, hv, invOf]; cases mapLoop cfg.key cfg.value rest acc <;> simp
      | invalid ve => simp only [mapLoop, hk, hv, invOf]; cases mapLoop cfg.key cfg.value rest acc <;> simp
  unfold PairsOK
  rw [mforFold2_unfold, hstep, hmodel]
  simp only
  obtain ⟨i1, i2, i3⟩ := ih st2 acc (es ++ [(k, (invOf ko, invOf vo))]) cv hinv2
  cases hl : mapLoop cfg.key cfg.value rest acc with
  | none =>
    refine ⟨?_, ?_, ?_⟩
    · intro _; exact i1 hl
    · intro r e h; simp at h
    · intro r h; simp at h
  | some r' =>
    refine ⟨?_, ?_, ?_⟩
    · intro h; simp at h
    · intro r e h hr
      simp only [Option.some.injEq] at h; subst h
      rw [i2 r' e hl hr, htr2]; simp [List.append_assoc]
    · intro r h hr
      simp only [Option.some.injEq] at h; subst h
      obtain ⟨st3, es', j1, j2, j3, j4, j5, j6⟩ := i3 r' hl hr
      refine ⟨st3, (k, (invOf ko, invOf vo)) :: es', j1, by rw [j2, htr2]; simp [List.append_assoc], by simpa [List.append_assoc] using j3, ?_, ?_, ?_⟩
      · simp [esKs, j4]
      · simp [esShape, j5]
      · simp [esErrs, j6]

theorem mforFold2_pairs (o : Oracle) (cfg : MapCfg) (x : PyVal) (aw : Bool) :
    ∀ (kvs : List (PyVal × PyVal)) (st : MSt) (acc : List (PyVal × PyVal)) (es : List (PyVal × KVE)) (cv : MV),
      MapInv st acc es cv → PairsOK o cfg x aw kvs st acc es cv := by
  intro kvs
  induction kvs with
  | nil =>
    intro st acc es cv hinv
    unfold PairsOK
    refine ⟨?_, ?_, ?_⟩
    · intro h; simp [mapLoop] at h
    · intro r e h hr
      simp only [mapLoop, Option.some.injEq] at h; subst h; simp at hr
    · intro r h _
      simp only [mapLoop, Option.some.injEq] at h; subst h
      exact ⟨st, [], by simp [mforFold2], by simp, by simpa using hinv, rfl, rfl, rfl⟩
  | cons kv rest ih =>
    intro st acc es cv hinv
    obtain ⟨k, v⟩ := kv
    have hinv0 := hinv
    obtain ⟨h1, h2, h3⟩ := hinv
    unfold PairsOK
    cases hk : cfg.key k with
    | none =>
      rw [mforFold2_unfold]; first | simp only [mapLoop, hk, hv] | simp only [mapLoop, hk]
      refine ⟨?_, ?_, ?_⟩
      · intro _
        refine ⟨st.tr, ?_⟩
        cases aw <;> simp [mLoopBody, mChild, MStmt.execL, MStmt.exec, MExp.eval, mselfAttr, MEnv.get, MEnv.set, callMapChild, hk]
      · intro r e h; simp at h
      · intro r h; simp at h
    | some pk =>
      obtain ⟨ko, tk⟩ := pk
      cases ko with
      | raised e0 =>
        rw [mforFold2_unfold]; first | simp only [mapLoop, hk, hv] | simp only [mapLoop, hk]
        refine ⟨?_, ?_, ?_⟩
        · intro h; simp at h
        · intro r e h hr
          simp only [Option.some.injEq] at h; subst h
          simp only [Option.some.injEq] at hr; subst hr
          cases aw <;> simp [mLoopBody, mChild, MStmt.execL, MStmt.exec, MExp.eval, mselfAttr, MEnv.get, MEnv.set, callMapChild, hk]
        · intro r h hr
          simp only [Option.some.injEq] at h; subst h; simp at hr
      | valid kw =>
        cases hv : cfg.value v with
        | none =>
          rw [mforFold2_unfold]; first | simp only [mapLoop, hk, hv] | simp only [mapLoop, hk]
          refine ⟨?_, ?_, ?_⟩
          · intro _
            refine ⟨st.tr ++ tk, ?_⟩
            cases aw <;> simp [mLoopBody, mChild, MStmt.execL, MStmt.exec, MExp.eval, mselfAttr, MEnv.get, MEnv.set, callMapChild, hk, hv]
          · intro r e h; simp at h
          · intro r h; simp at h
        | some pv =>
          obtain ⟨vo, tv⟩ := pv
          cases vo with
          | raised e0 =>
            rw [mforFold2_unfold]; first | simp only [mapLoop, hk, hv] | simp only [mapLoop, hk]
            refine ⟨?_, ?_, ?_⟩
            · intro h; simp at h
            · intro r e h hr
              simp only [Option.some.injEq] at h; subst h
              simp only [Option.some.injEq] at hr; subst hr
              cases aw <;> simp [mLoopBody, mChild, MStmt.execL, MStmt.exec, MExp.eval, mselfAttr, MEnv.get, MEnv.set, callMapChild, hk, hv, List.append_assoc]
            · intro r h hr
              simp only [Option.some.injEq] at h; subst h; simp at hr
          | valid vw =>
            rw [mforFold2_unfold]; simp only [mapLoop, hk, hv]
            by_cases hh : hashable kw = true
            · -- stored
              have hstep : ∃ st2, MStmt.execL o cfg x { st with env := (st.env.set .key (.py k)).set .valU (.py v) } (mLoopBody aw) =
                  .ok (.next st2) ∧ MapInv st2 (dictSet acc kw vw) es cv ∧ st2.tr = st.tr ++ tk ++ tv := by
                rcases h2 with ⟨rfl, h2⟩ | ⟨hne, h2⟩
                · cases aw <;> simp [mLoopBody, mChild, MStmt.execL, MStmt.exec, MExp.eval, mselfAttr, MEnv.get, MEnv.set, callMapChild, hk, hv, mtruthy, h1, h2, h3, hh, List.append_assoc] <;>
                    exact ⟨rfl, .inl ⟨rfl, rfl⟩, rfl⟩
                · cases aw <;> simp [mLoopBody, mChild, MStmt.execL, MStmt.exec, MExp.eval, mselfAttr, MEnv.get, MEnv.set, callMapChild, hk, hv, mtruthy, h1, h2, h3, hh, List.append_assoc] <;>
                    exact ⟨rfl, .inr ⟨hne, rfl⟩, rfl⟩
              obtain ⟨st2, hstep, hinv2, htr2⟩ := hstep
              rw [hstep]
              simp only [hh, Bool.not_true, Bool.false_eq_true, if_false]
              obtain ⟨i1, i2, i3⟩ := ih st2 (dictSet acc kw vw) es cv hinv2
              cases hl : mapLoop cfg.key cfg.value rest (dictSet acc kw vw) with
              | none =>
                refine ⟨?_, ?_, ?_⟩
                · intro _; exact i1 hl
                · intro r e h; simp at h
                · intro r h; simp at h
              | some r' =>
                refine ⟨?_, ?_, ?_⟩
                · intro h; simp at h
                · intro r e h hr
                  simp only [Option.some.injEq] at h; subst h
                  rw [i2 r' e hl hr, htr2]; simp [List.append_assoc]
                · intro r h hr
                  simp only [Option.some.injEq] at h; subst h
                  obtain ⟨st3, es', j1, j2, j3, j4, j5, j6⟩ := i3 r' hl hr
                  exact ⟨st3, es', j1, by rw [j2, htr2]; simp [List.append_assoc], j3, j4, j5, j6⟩
            · have hh' : hashable kw = false := by simpa using hh
              simp only [hh', Bool.not_false, if_true]
              refine ⟨?_, ?_, ?_⟩
              · intro h; simp at h
              · intro r e h hr
                simp only [Option.some.injEq] at h; subst h
                simp only [Option.some.injEq] at hr; subst hr
                cases aw <;> simp [mLoopBody, mChild, MStmt.execL, MStmt.exec, MExp.eval, mselfAttr, MEnv.get, MEnv.set, callMapChild, hk, hv, mtruthy, h1, hh', List.append_assoc]
              · intro r h hr
                simp only [Option.some.injEq] at h; subst h; simp at hr
          | invalid ve =>
            have hh := mforFold2_pairs_err o cfg x aw k v rest st acc es cv hinv0 (.valid kw) (.invalid ve) tk tv hk hv
              (by simp) (by simp) (by simp) ih
            unfold PairsOK at hh
            exact hh
      | invalid ke =>
        cases hv : cfg.value v with
        | none =>
          rw [mforFold2_unfold]; first | simp only [mapLoop, hk, hv] | simp only [mapLoop, hk]
          refine ⟨?_, ?_, ?_⟩
          · intro _
            refine ⟨st.tr ++ tk, ?_⟩
            cases aw <;> simp [mLoopBody, mChild, MStmt.execL, MStmt.exec, MExp.eval, mselfAttr, MEnv.get, MEnv.set, callMapChild, hk, hv]
          · intro r e h; simp at h
          · intro r h; simp at h
        | some pv =>
          obtain ⟨vo, tv⟩ := pv
          cases vo with
          | raised e0 =>
            rw [mforFold2_unfold]; first | simp only [mapLoop, hk, hv] | simp only [mapLoop, hk]
            refine ⟨?_, ?_, ?_⟩
            · intro h; simp at h
            · intro r e h hr
              simp only [Option.some.injEq] at h; subst h
              simp only [Option.some.injEq] at hr; subst hr
              cases aw <;> simp [mLoopBody, mChild, MStmt.execL, MStmt.exec, MExp.eval, mselfAttr, MEnv.get, MEnv.set, callMapChild, hk, hv, List.append_assoc]
            · intro r h hr
              simp only [Option.some.injEq] at h; subst h; simp at hr
          | valid vw =>
            have hh := mforFold2_pairs_err o cfg x aw k v rest st acc es cv hinv0 (.invalid ke) (.valid vw) tk tv hk hv
              (by simp) (by simp) (by simp) ih
            unfold PairsOK at hh
            exact hh
          | invalid ve =>
            have hh := mforFold2_pairs_err o cfg x aw k v rest st acc es cv hinv0 (.invalid ke) (.invalid ve) tk tv hk hv
              (by simp) (by simp) (by simp) ih
            unfold PairsOK at hh
            exact hh

/-! ### after the loop -/

theorem esErrs_eq (es : List (PyVal × KVE)) (vid : Nat) (y : PyVal) :
    mapErrInv vid y es = .mk (.map (esKs es) (esShape es)) y vid (esErrs es) := rfl

theorem mFinal_exec (o : Oracle) (cfg : MapCfg) (x : PyVal) (st : MSt) (y : PyVal) (acc : List (PyVal × PyVal))
    (es : List (PyVal × KVE)) (hinv : MapInv st acc es (.py y)) :
    outM (MStmt.execL o cfg x st [mFinal]) =
      some (if es.isEmpty then (.valid (.dict 0 acc), st.tr)
            else (.invalid (.mk (.map (esKs es) (esShape es)) y cfg.vid (esErrs es)), st.tr)) := by
  obtain ⟨h1, h2, h3⟩ := hinv
  rw [mexecL_single, mFinal, mexec_ite]
  rcases h2 with ⟨rfl, h2⟩ | ⟨hne, h2⟩
  · simp [MExp.eval, MEnv.get, h2, mtruthy, mexecL_single, MStmt.exec, h1, outM]
  · have hemp : es.isEmpty = false := by cases es with
      | nil => exact absurd rfl hne
      | cons a l => rfl
    simp [MExp.eval, MEnv.get, h2, mtruthy, hemp, mexecL_single, MStmt.exec, h3, outM, esErrs_eq]

/-- `return_dict = {}; errors = {}; for key, val_ in coerced_val.items(): …; if errors: … else: …` -/
theorem mTail_exec (o : Oracle) (cfg : MapCfg) (x : PyVal) (aw : Bool) (st : MSt) (y : PyVal)
    (hy : st.env.coercedVal = .py y) :
    outM (MStmt.execL o cfg x st (mTail aw)) =
      (match dictItems y with
       | none => some (.raised .attributeError, st.tr)
       | some kvs =>
         match mapLoop cfg.key cfg.value kvs [] with
         | none => none
         | some r => some (mapFinish cfg.vid y st.tr r)) := by
  have hinit : MStmt.execL o cfg x st (mTail aw) =
      MStmt.execL o cfg x { st with env := (st.env.set .returnDict (.dictPayload [])).set .errors (.dictPayload []) }
        [mLoop aw, mFinal] := by
    simp [mTail, MStmt.execL, MStmt.exec, MExp.eval]
  rw [hinit]
  let st0 : MSt := { st with env := (st.env.set .returnDict (.dictPayload [])).set .errors (.dictPayload []) }
  have hinv0 : MapInv st0 [] [] (.py y) := ⟨rfl, .inl ⟨rfl, rfl⟩, by simpa [st0, MEnv.set] using hy⟩
  rw [mexecL_cons]
  have hloop : MStmt.exec o cfg x st0 (mLoop aw) =
      (match dictItems y with
       | none => .error (.exn .attributeError, st0.tr)
       | some kvs => mforFold2 (fun st => MStmt.execL o cfg x st (mLoopBody aw)) .key .valU kvs st0) := by
    have hcv : st0.env.get .coercedVal = .py y := hinv0.cv
    simp only [mLoop, MStmt.exec, MExp.eval, hcv]
    cases dictItems y <;> rfl
  show outM (match MStmt.exec o cfg x st0 (mLoop aw) with
    | .error err => .error err
    | .ok (.next st) => MStmt.execL o cfg x st [mFinal]
    | .ok (.returned d st) => .ok (.returned d st)) = _
  rw [hloop]
  cases hit : dictItems y with
  | none => rfl
  | some kvs =>
    simp only
    obtain ⟨l1, l2, l3⟩ := mforFold2_pairs o cfg x aw kvs st0 [] [] (.py y) hinv0
    cases hl : mapLoop cfg.key cfg.value kvs [] with
    | none =>
      obtain ⟨t, ht⟩ := l1 hl
      rw [ht]; rfl
    | some r =>
      cases hr : r.r with
      | some e =>
        rw [l2 r e hl hr]
        simp [outM, mapFinish, hr, st0]
      | none =>
        obtain ⟨st1, es', h1, h2, h3, h4, h5, h6⟩ := l3 r hl hr
        rw [h1]
        simp only [List.nil_append] at h3
        simp only
        rw [mFinal_exec o cfg x st1 y r.out es' h3, h2]
        simp only [mapFinish, hr, h4, h5, h6, st0]
        cases es' <;> simp [esKs]

/-! ### the two methods -/

theorem mGate_then (o : Oracle) (cfg : MapCfg) (x : PyVal) (st : MSt) (rest : List MStmt) (y : PyVal) (t : List Ev)
    (hg : gate o .dict .dict cfg.coerce x = .acc y t) :
    ∃ st', MStmt.execL o cfg x st (mGate :: .assign .predicateErrors .emptyList :: rest) = MStmt.execL o cfg x st' rest ∧
      st'.env.coercedVal = .py y ∧ st'.tr = st.tr ++ t ∧ MIsErrs st'.env.predicateErrors [] := by
  obtain ⟨_, g2⟩ := mGate_exec o cfg x st (.assign .predicateErrors .emptyList :: rest)
  obtain ⟨st', h1, h2, h3⟩ := g2 y t hg
  refine ⟨{ st' with env := st'.env.set .predicateErrors .emptyL }, ?_, by simpa [MEnv.set] using h2, h3, .inr ⟨rfl, by simp [MEnv.set]⟩⟩
  rw [h1, mexecL_cons, mexec_assign]
  simp [MExp.eval]

/-- **the synchronous map validator, as written in the source, is the model's `mapStep`** -/
theorem src_map_sync (o : Oracle) (cfg : MapCfg) (x : PyVal) :
    runMapMethod o cfg Src.mapSync x =
      mapStep o .sync cfg.vid (cfg.preds.getD []) (cfg.apreds.getD []) cfg.coerce cfg.key cfg.value x := by
  rw [runMapMethod_eq, mapSync_eq, mGuard_exec]
  simp only [mapStep, mapPre]
  by_cases hap : cfg.apreds.getD [] = []
  · simp only [hap, ne_eq, not_true_eq_false, if_false, and_false]
    obtain ⟨g1, _⟩ := mGate_exec o cfg x { env := {}, tr := [] } (.assign .predicateErrors .emptyList :: mPreds :: mCheck :: mTail false)
    cases hg : gate o .dict .dict cfg.coerce x with
    | exn e t => exact absurd hg (gate_noexn o _ _ cfg.coerce x e t)
    | rej k t => rw [g1 k t hg]; simp
    | acc y t =>
      obtain ⟨st', h1, h2, h3, h4⟩ := mGate_then o cfg x { env := {}, tr := [] } (mPreds :: mCheck :: mTail false) y t hg
      rw [h1]
      obtain ⟨p1, p2⟩ := mPreds_exec o cfg x st' y [] h2 h4 (mCheck :: mTail false)
      simp only [contPreds]
      rcases hr : runPreds (cfg.preds.getD []) y with ⟨f, t2, ex⟩
      cases ex with
      | some e => rw [p1 f t2 e hr, h3]; simp [outM]
      | none =>
        obtain ⟨hf, st1, q1, q2, q3, q4⟩ := p2 f t2 hr
        rw [q1]
        simp only [List.nil_append] at q4
        obtain ⟨c1, c2⟩ := mCheck_exec o cfg x st1 y _ q2 q4 (mTail false)
        simp only [reduceCtorEq, if_false]
        cases hq : mfailing (cfg.preds.getD []) y with
        | cons a l =>
          rw [c1 (by rw [hq]; simp), q3, h3, hf, hq]; simp
        | nil =>
          rw [c2 hq, mTail_exec o cfg x false st1 y q2, q3, h3, hf, hq]
          simp only [List.map_nil, List.isEmpty_nil, Bool.not_true, Bool.false_eq_true, if_false, List.nil_append]
          cases dictItems y with
          | none => rfl
          | some kvs =>
            simp only
            cases mapLoop cfg.key cfg.value kvs [] <;> rfl
  · simp [hap, outM]

/-- **the asynchronous map validator, as written in the source, is the model's `mapStep`** -/
theorem src_map_async (o : Oracle) (cfg : MapCfg) (x : PyVal) :
    runMapMethod o cfg Src.mapAsync x =
      mapStep o .async cfg.vid (cfg.preds.getD []) (cfg.apreds.getD []) cfg.coerce cfg.key cfg.value x := by
  rw [runMapMethod_eq, mapAsync_eq]
  simp only [mapStep, mapPre]
  have hm : ¬ (Mode.async = Mode.sync ∧ cfg.apreds.getD [] ≠ []) := by simp
  simp only [hm, if_false]
  obtain ⟨g1, _⟩ := mGate_exec o cfg x { env := {}, tr := [] } (.assign .predicateErrors .emptyList :: mPreds :: mAPreds :: mCheck :: mTail true)
  cases hg : gate o .dict .dict cfg.coerce x with
  | exn e t => exact absurd hg (gate_noexn o _ _ cfg.coerce x e t)
  | rej k t => rw [g1 k t hg]; simp
  | acc y t =>
    obtain ⟨st', h1, h2, h3, h4⟩ := mGate_then o cfg x { env := {}, tr := [] } (mPreds :: mAPreds :: mCheck :: mTail true) y t hg
    rw [h1]
    obtain ⟨p1, p2⟩ := mPreds_exec o cfg x st' y [] h2 h4 (mAPreds :: mCheck :: mTail true)
    simp only [contPreds]
    rcases hr : runPreds (cfg.preds.getD []) y with ⟨f, t2, ex⟩
    cases ex with
    | some e => rw [p1 f t2 e hr, h3]; simp [outM]
    | none =>
      obtain ⟨hf, st1, q1, q2, q3, q4⟩ := p2 f t2 hr
      rw [q1]
      simp only [List.nil_append] at q4
      obtain ⟨a1, a2⟩ := mAPreds_exec o cfg x st1 y _ q2 q4 (mCheck :: mTail true)
      simp only [if_true]
      rcases hra : runAPreds (cfg.apreds.getD []) y with ⟨f2, t3, ex2⟩
      cases ex2 with
      | some e => rw [a1 f2 t3 e hra, q3, h3]; simp [outM, List.append_assoc]
      | none =>
        obtain ⟨hf2, st2, r1, r2, r3, r4⟩ := a2 f2 t3 hra
        rw [r1]
        obtain ⟨c1, c2⟩ := mCheck_exec o cfg x st2 y _ r2 r4 (mTail true)
        cases hq : mfailing (cfg.preds.getD []) y ++ mfailing (cfg.apreds.getD []) y with
        | cons a l =>
          rw [c1 (by rw [hq]; simp), r3, q3, h3, hf, hf2, ← List.map_append, hq]; simp [List.append_assoc]
        | nil =>
          rw [c2 hq, mTail_exec o cfg x true st2 y r2, r3, q3, h3, hf, hf2, ← List.map_append, hq]
          simp only [List.map_nil, List.isEmpty_nil, Bool.not_true, Bool.false_eq_true, if_false, List.nil_append]
          cases dictItems y with
          | none => simp [List.append_assoc]
          | some kvs =>
            simp only
            cases mapLoop cfg.key cfg.value kvs [] <;> simp [List.append_assoc]

theorem src_map_init : Src.mapInit =
    "self.key_validator = key ; self.value_validator = value ; self.predicates = predicates ; self.predicates_async = predicates_async ; self.coerce = coerce" := rfl

/-! ### non-vacuity: `MapValidator(key=StringValidator(), value=IntValidator())` on `{"a": 1, 2: "x"}` -/

example : runMapMethod default
      ⟨1, fun y => some (scalarStep default .sync 2 .str none [] [] [] y),
          fun y => some (scalarStep default .sync 3 .int none [] [] [] y), none, none, none⟩ Src.mapSync
      (.dict 9 [(.str [97], .int 1), (.int 2, .str [120])]) =
    some (.invalid (.mk (.map [.int 2] [(true, true)]) (.dict 9 [(.str [97], .int 1), (.int 2, .str [120])]) 1
      [.mk (.type .str) (.int 2) 2 [], .mk (.type .int) (.str [120]) 3 []]), []) := by
  rw [src_map_sync]; rfl

end Koda
