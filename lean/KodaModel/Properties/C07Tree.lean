/-
  C07 for whole annotations (strict resolver): for every annotation built from the scalar types,
  arbitrary classes, `Any`, `None`, `List[…]` and `Union[…]` / `Optional[…]` — nested at will — and
  **every** Python value `x`, the validator derived by the signature resolver terminates on `x` and
  accepts it iff `x` is of the annotated type under the exact-type reading (`hasType`).
-/
import KodaModel.Properties.C07
import KodaModel.Properties.C11Glue

namespace Koda

mutual
/-- the annotations covered by the tree theorem -/
def annFrag : Ann → Bool
  | .str | .int | .float | .bool | .bytes | .uuid | .date | .datetime | .decimal | .cls _ => true
  | .any | .none => true
  | .list a => annFrag a
  | .union as => annFragL as
  | _ => false
termination_by structural a => a
def annFragL : List Ann → Bool
  | [] => true
  | a :: as => annFrag a && annFragL as
termination_by structural as => as
end

theorem derive_union (m : ResolveMode) (as : List Ann) (s : Nat) :
    (derive m (.union as) s).1 = .union (deriveL m as s).2 (deriveL m as s).1 := rfl

theorem deriveL_cons (m : ResolveMode) (a : Ann) (as : List Ann) (s : Nat) :
    (deriveL m (a :: as) s).1 = (derive m a s).1 :: (deriveL m as (derive m a s).2).1 := rfl

theorem node_always_validator (o : Oracle) (env : Nat → V) (vid : Nat) (x : PyVal) : VDecides o env (.always vid) x true :=
  ⟨1, .valid x, [], rfl, rfl⟩

/-- the list node for arbitrary Python values (no predicates, no coercer) -/
theorem node_list_plain (o : Oracle) (env : Nat → V) (vid : Nat) (item : V) (x : PyVal) (a : PyVal → Bool)
    (hitems : ∀ y ∈ listItems x, VDecides o env item y (a y)) :
    VDecides o env (.list vid item [] [] none) x (isListV x && (listItems x).all a) := by
  have := node_list_validator o env vid item [] x a (fun _ p hp => by simp at hp) hitems
  simpa using this

theorem strict_scalar_decides (o : Oracle) (env : Nat → V) (a : Ann) (tg : Ty) (h : scalarTy a = some tg) (s : Nat) (x : PyVal) :
    VDecides o env (derive .signature a s).1 x (hasType a x) := by
  rw [derive_scalar .signature a tg h s, hasType_scalar a tg h]
  have hc : (if coercing tg && ResolveMode.signature != .signature then some CoerceK.dflt else none) = none := by simp
  rw [hc]
  have := node_scalar_validator o env s tg [] x (fun _ p hp => by simp at hp)
  have h2 : (decide (x.ty = tg) && ([] : List Pred).all (fun p => holds p.k x)) = (x.ty == tg) := by
    by_cases hty : x.ty = tg <;> simp [hty]
  rw [h2] at this
  exact this

/-- the variants of a derived union decide, one by one, the annotations they were derived from -/
def VariantsDecide (o : Oracle) (env : Nat → V) (x : PyVal) : List V → List Ann → Prop
  | [], [] => True
  | v :: vs, a :: as => VDecides o env v x (hasType a x) ∧ VariantsDecide o env x vs as
  | _, _ => False

/-- a union of decided variants decides "some variant's annotation holds" -/
theorem union_of_variants (o : Oracle) (env : Nat → V) (vid : Nat) (x : PyVal) :
    ∀ (vs : List V) (as : List Ann), VariantsDecide o env x vs as →
      VDecides o env (.union vid vs) x (hasTypeAny as x) := by
  intro vs as h
  -- common fuel, then walk the variants
  have hfuel : ∀ (vs : List V) (as : List Ann), VariantsDecide o env x vs as →
      ∃ N, ∀ n, N ≤ n → ∃ w es t, unionLoop x (vs.map (run o env .sync n)) = some (w, es, t, none) ∧
        w.isSome = hasTypeAny as x := by
    intro vs
    induction vs with
    | nil =>
      intro as h
      cases as with
      | nil => exact ⟨0, fun n _ => ⟨none, [], [], rfl, rfl⟩⟩
      | cons a as => exact h.elim
    | cons v vs ih =>
      intro as h
      cases as with
      | nil => exact h.elim
      | cons a as =>
        obtain ⟨N1, h1⟩ := ih as h.2
        obtain ⟨N2, h2⟩ := h.1.at_fuel
        refine ⟨max N1 N2, fun n hn => ?_⟩
        obtain ⟨out, t, hr, hv⟩ := h2 n (by omega)
        obtain ⟨w, es, t', hl, hw⟩ := h1 n (by omega)
        cases out with
        | raised e => simp [Out.verdict] at hv
        | valid w0 =>
          simp only [Out.verdict, Option.some.injEq] at hv
          exact ⟨some w0, [], t, by simp [unionLoop, hr], by simp [hasTypeAny, ← hv]⟩
        | invalid e0 =>
          simp only [Out.verdict, Option.some.injEq] at hv
          exact ⟨w, e0 :: es, t ++ t', by simp [unionLoop, hr, hl], by simp [hasTypeAny, ← hv, hw]⟩
  obtain ⟨N, hN⟩ := hfuel vs as h
  obtain ⟨w, es, t, hl, hw⟩ := hN N (Nat.le_refl N)
  cases w with
  | none =>
    refine ⟨N + 1, .invalid (.mk .union x vid es), t, by simp [run, unionStep, hl], ?_⟩
    simp only [Option.isSome_none] at hw
    simp [Out.verdict, ← hw]
  | some w =>
    refine ⟨N + 1, .valid w, t, by simp [run, unionStep, hl], ?_⟩
    simp only [Option.isSome_some] at hw
    simp [Out.verdict, ← hw]

mutual
/-- **C07, strict resolver, whole annotations (partial: the forms of `annFrag`)** -/
theorem C07_strict_tree_partial (o : Oracle) (env : Nat → V) :
    ∀ (a : Ann), annFrag a = true → ∀ (s : Nat) (x : PyVal),
      VDecides o env (derive .signature a s).1 x (hasType a x)
  | .str, _, s, x => strict_scalar_decides o env .str .str rfl s x
  | .int, _, s, x => strict_scalar_decides o env .int .int rfl s x
  | .float, _, s, x => strict_scalar_decides o env .float .float rfl s x
  | .bool, _, s, x => strict_scalar_decides o env .bool .bool rfl s x
  | .bytes, _, s, x => strict_scalar_decides o env .bytes .bytes rfl s x
  | .uuid, _, s, x => strict_scalar_decides o env .uuid .uuid rfl s x
  | .date, _, s, x => strict_scalar_decides o env .date .date rfl s x
  | .datetime, _, s, x => strict_scalar_decides o env .datetime .datetime rfl s x
  | .decimal, _, s, x => strict_scalar_decides o env .decimal .decimal rfl s x
  | .cls c, _, s, x => strict_scalar_decides o env (.cls c) (.cls c) rfl s x
  | .any, _, s, x => node_always_validator o env ALWAYS_VID x
  | .none, _, s, x => by
    have := node_none_validator o env s x
    have h2 : hasType .none x = isNoneV x := by cases x <;> rfl
    rw [h2]; exact this
  | .list a, hf, s, x => by
    simp only [annFrag] at hf
    rw [derive_list]
    have := node_list_plain o env (derive .signature a s).2 (derive .signature a s).1 x (hasType a)
      (fun y _ => C07_strict_tree_partial o env a hf s y)
    have h2 : hasType (.list a) x = (isListV x && (listItems x).all (hasType a)) := by cases x <;> rfl
    rw [h2]; exact this
  | .union as, hf, s, x => by
    simp only [annFrag] at hf
    rw [derive_union]
    have hv := C07_strict_tree_partialL o env as hf s x
    exact union_of_variants o env _ x _ as hv
  | .listBare, hf, _, _ => by simp [annFrag] at hf
  | .setBare, hf, _, _ => by simp [annFrag] at hf
  | .tupleBare, hf, _, _ => by simp [annFrag] at hf
  | .dictBare, hf, _, _ => by simp [annFrag] at hf
  | .set _, hf, _, _ => by simp [annFrag] at hf
  | .dict _ _, hf, _, _ => by simp [annFrag] at hf
  | .maybe _, hf, _, _ => by simp [annFrag] at hf
  | .tupleVar _, hf, _, _ => by simp [annFrag] at hf
  | .tupleFixed _, hf, _, _ => by simp [annFrag] at hf
  | .literal _, hf, _, _ => by simp [annFrag] at hf
  | .annotated _ _, hf, _, _ => by simp [annFrag] at hf
  | .dataclass _ _ _ _, hf, _, _ => by simp [annFrag] at hf
  | .namedtuple _ _ _ _, hf, _, _ => by simp [annFrag] at hf
  | .typeddict _ _ _ _, hf, _, _ => by simp [annFrag] at hf
  | .marked _, hf, _, _ => by simp [annFrag] at hf
theorem C07_strict_tree_partialL (o : Oracle) (env : Nat → V) :
    ∀ (as : List Ann), annFragL as = true → ∀ (s : Nat) (x : PyVal),
      VariantsDecide o env x (deriveL .signature as s).1 as
  | [], _, s, x => trivial
  | a :: as, hf, s, x => by
    simp only [annFragL, Bool.and_eq_true] at hf
    rw [deriveL_cons]
    exact ⟨C07_strict_tree_partial o env a hf.1 s x, C07_strict_tree_partialL o env as hf.2 _ x⟩
end


/-- sound and complete: the strict validator accepts `x` iff `x` has the annotated type -/
theorem C07_strict_iff_partial (o : Oracle) (env : Nat → V) (a : Ann) (hf : annFrag a = true) (s : Nat) (x : PyVal) :
    (∃ n w t, run o env .sync n (derive .signature a s).1 x = some (.valid w, t)) ↔ hasType a x = true := by
  obtain ⟨n, out, t, hr, hv⟩ := C07_strict_tree_partial o env a hf s x
  constructor
  · rintro ⟨n', w, t', hr'⟩
    have h1 := run_mono_le o env .sync (Nat.le_max_left n n') _ x _ hr
    have h2 := run_mono_le o env .sync (Nat.le_max_right n n') _ x _ hr'
    rw [h1] at h2
    simp only [Option.some.injEq, Prod.mk.injEq] at h2
    rw [h2.1] at hv
    simpa [Out.verdict] using hv.symm
  · intro h
    rw [h] at hv
    cases out with
    | valid w => exact ⟨n, w, t, hr⟩
    | invalid e => simp [Out.verdict] at hv
    | raised e => simp [Out.verdict] at hv

/-- non-vacuity: `List[Union[int, None]]` (= `List[Optional[int]]`) -/
example : annFrag (.list (.union [.int, .none])) = true := by decide
example : hasType (.list (.union [.int, .none])) (.list 1 [.int 3, .none]) = true ∧
    hasType (.list (.union [.int, .none])) (.list 1 [.bool true]) = false := by
  constructor <;> rfl

end Koda
