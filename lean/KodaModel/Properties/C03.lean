/-
  C03 — Collection validators check every element and report every failing position.

  The children are arbitrary evaluators (`Ev1`): built-in or user-written, any mode, any nesting.
-/
import KodaModel.Lemmas.Mono

namespace Koda

/-! ### what the children did, element by element -/

/-- `ItemsRun ev xs i ws es t`: running `ev` on every element of `xs` (positions `i, i+1, …`) —
    none raised; `ws` are the payloads of the accepted elements in order; `es` is *exactly* the list
    of (position, the child's own error) for the rejected elements; `t` the concatenated trace. -/
inductive ItemsRun (ev : Ev1) : List PyVal → Nat → List PyVal → List (Nat × Inv) → List Ev → Prop
  | nil (i : Nat) : ItemsRun ev [] i [] [] []
  | valid {x xs i w ws es t t'} : ev x = some (.valid w, t) → ItemsRun ev xs (i + 1) ws es t' →
      ItemsRun ev (x :: xs) i (w :: ws) es (t ++ t')
  | invalid {x xs i e ws es t t'} : ev x = some (.invalid e, t) → ItemsRun ev xs (i + 1) ws es t' →
      ItemsRun ev (x :: xs) i ws ((i, e) :: es) (t ++ t')

/-- the loop computes exactly `ItemsRun` (no hashing requirement: lists and tuples) -/
theorem loopItems_iff (ev : Ev1) (xs : List PyVal) :
    ∀ i ne ws es t, loopItems ev false xs i ne = some ⟨ws, es, t, none⟩ ↔ ItemsRun ev xs i ws es t := by
  induction xs with
  | nil =>
    intro i ne ws es t
    constructor
    · intro h
      simp [loopItems] at h
      obtain ⟨rfl, rfl, rfl⟩ := h
      exact .nil i
    · intro h; cases h; rfl
  | cons x xs ih =>
    intro i ne ws es t
    constructor
    · intro h
      simp only [loopItems] at h
      cases hx : ev x with
      | none => simp [hx] at h
      | some p =>
        obtain ⟨o, t0⟩ := p
        cases o with
        | raised e => simp [hx] at h
        | valid w =>
          simp only [hx, Bool.false_and, Bool.false_eq_true, if_false] at h
          cases hl : loopItems ev false xs (i + 1) ne with
          | none => simp [hl] at h
          | some r =>
            obtain ⟨ws', es', t', r'⟩ := r
            simp [hl] at h
            obtain ⟨rfl, rfl, rfl, rfl⟩ := h
            exact .valid hx ((ih _ _ _ _ _).1 hl)
        | invalid e =>
          simp only [hx] at h
          cases hl : loopItems ev false xs (i + 1) false with
          | none => simp [hl] at h
          | some r =>
            obtain ⟨ws', es', t', r'⟩ := r
            simp [hl] at h
            obtain ⟨rfl, rfl, rfl, rfl⟩ := h
            exact .invalid hx ((ih _ _ _ _ _).1 hl)
    · intro h
      cases h with
      | valid hx hr => simp [loopItems, hx, (ih _ ne _ _ _).2 hr]
      | invalid hx hr => simp [loopItems, hx, (ih _ false _ _ _).2 hr]

/-- with hashable payloads the set loop is the same loop -/
theorem loopItems_hash (ev : Ev1) (hh : ∀ x w t, ev x = some (.valid w, t) → hashable w = true)
    (xs : List PyVal) : ∀ i ne, loopItems ev true xs i ne = loopItems ev false xs i ne := by
  induction xs with
  | nil => intro i ne; rfl
  | cons x xs ih =>
    intro i ne
    simp only [loopItems]
    cases hx : ev x with
    | none => rfl
    | some p =>
      obtain ⟨o, t0⟩ := p
      cases o with
      | raised e => rfl
      | valid w => simp [hh x w t0 hx, ih]
      | invalid e => simp [ih]

/-- **only failing positions are reported**, each with the child's own `Invalid` -/
theorem ItemsRun.sound {ev : Ev1} {xs i ws es t} (h : ItemsRun ev xs i ws es t) :
    ∀ p ∈ es, ∃ j x u, p.1 = i + j ∧ xs[j]? = some x ∧ ev x = some (.invalid p.2, u) := by
  induction h with
  | nil i => intro p hp; simp at hp
  | @valid x xs i w ws es t t' hx _ ih =>
    intro p hp
    obtain ⟨j, y, u, h1, h2, h3⟩ := ih p hp
    exact ⟨j + 1, y, u, by omega, by simpa using h2, h3⟩
  | @invalid x xs i e0 ws es t t' hx _ ih =>
    intro p hp
    simp only [List.mem_cons] at hp
    rcases hp with rfl | hp
    · exact ⟨0, x, t, by simp, by simp, hx⟩
    · obtain ⟨j, y, u, h1, h2, h3⟩ := ih p hp
      exact ⟨j + 1, y, u, by omega, by simpa using h2, h3⟩

/-- **every failing position is reported** -/
theorem ItemsRun.complete {ev : Ev1} {xs i ws es t} (h : ItemsRun ev xs i ws es t) :
    ∀ (j : Nat) y e u, xs[j]? = some y → ev y = some (.invalid e, u) → (i + j, e) ∈ es := by
  induction h with
  | nil i => intro j y e u hget; simp at hget
  | @valid x xs i w ws es t t' hx _ ih =>
    intro j y e u hget hev
    cases j with
    | zero => simp at hget; subst hget; rw [hx] at hev; simp at hev
    | succ j =>
      have := ih j y e u (by simpa using hget) hev
      rwa [show i + (j + 1) = i + 1 + j by omega]
  | @invalid x xs i e0 ws es t t' hx _ ih =>
    intro j y e u hget hev
    cases j with
    | zero =>
      simp at hget; subst hget; rw [hx] at hev
      simp only [Option.some.injEq, Prod.mk.injEq, Out.invalid.injEq] at hev
      obtain ⟨rfl, _⟩ := hev
      simp
    | succ j =>
      have := ih j y e u (by simpa using hget) hev
      rw [show i + (j + 1) = i + 1 + j by omega]
      exact List.mem_cons_of_mem _ this

/-- positions are reported in increasing order -/
theorem ItemsRun.sorted {ev : Ev1} {xs i ws es t} (h : ItemsRun ev xs i ws es t) :
    (es.map Prod.fst).Pairwise (· < ·) ∧ ∀ p ∈ es, i ≤ p.1 := by
  induction h with
  | nil i => simp
  | valid _ _ ih =>
    exact ⟨ih.1, fun p hp => by have := ih.2 p hp; omega⟩
  | invalid _ _ ih =>
    refine ⟨?_, ?_⟩
    · simp only [List.map_cons, List.pairwise_cons]
      refine ⟨?_, ih.1⟩
      intro a ha
      simp only [List.mem_map] at ha
      obtain ⟨p, hp, rfl⟩ := ha
      have := ih.2 p hp; omega
    · intro p hp
      simp only [List.mem_cons] at hp
      rcases hp with rfl | hp
      · simp
      · have := ih.2 p hp; omega

/-- payloads and errors together account for every element -/
theorem ItemsRun.length {ev : Ev1} {xs i ws es t} (h : ItemsRun ev xs i ws es t) :
    ws.length + es.length = xs.length := by
  induction h with
  | nil => rfl
  | valid _ _ ih => simp; omega
  | invalid _ _ ih => simp; omega

/-- all elements accepted: the payloads are the children's payloads, position by position -/
theorem ItemsRun.all_valid {ev : Ev1} {xs i ws t} (h : ItemsRun ev xs i ws [] t) :
    ws.length = xs.length ∧ ∀ (j : Nat) y, xs[j]? = some y → ∃ w u, ws[j]? = some w ∧ ev y = some (.valid w, u) := by
  generalize hes : ([] : List (Nat × Inv)) = es at h
  induction h with
  | nil => simp
  | @valid x xs i w ws es t t' hx _ ih =>
    obtain ⟨hl, hall⟩ := ih hes
    refine ⟨by simp [hl], ?_⟩
    intro j y hget
    cases j with
    | zero => simp at hget; subst hget; exact ⟨w, t, by simp, hx⟩
    | succ j => simpa using hall j y (by simpa using hget)
  | invalid => simp at hes

/-! ### list / set / uniform tuple -/

/-- children produce hashable payloads (the property's premise where a set is built) -/
def HashablePayloads (ev : Ev1) : Prop := ∀ x w t, ev x = some (.valid w, t) → hashable w = true

/-- a result decided before the elements is never an acceptance -/
theorem seqPre_inl_not_valid {k o m vid ps aps c x r} (h : seqPre k o m vid ps aps c x = .inl r) :
    ∀ w, r.1 ≠ .valid w := by
  intro w
  simp only [seqPre] at h
  split at h
  · simp at h; subst h; simp
  · split at h
    · simp at h; subst h; simp
    · simp at h; subst h; simp
    · split at h
      · simp at h; subst h; simp
      · split at h
        · simp at h; subst h; simp
        · split at h <;> simp at h
          subst h; simp

/-- **container-level failures are reported before, and instead of, any element being validated**:
    when guard, gate or a container predicate decides, the result does not depend on the child
    evaluator at all (so its trace cannot contain a child event, and a non-terminating child is
    never entered). -/
theorem C03_seq_container_first {k o m vid ps aps c x r} (h : seqPre k o m vid ps aps c x = .inl r)
    (ev : Ev1) : seqStep k o m vid ps aps c ev x = some r := by
  simp [seqStep, h]

/-- what "guard, gate and container predicates passed" means -/
theorem C03_pre_iff (k : SeqKind) (o : Oracle) (m : Mode) (vid : Nat) (ps aps : List Pred)
    (c : Option CoerceK) (x y : PyVal) (xs : List PyVal) (t : List Ev) :
    seqPre k o m vid ps aps c x = .inr (y, xs, t) ↔
      ¬ (m = .sync ∧ aps ≠ []) ∧
      ∃ t0 t1, gate o k.gateTy k.destTy c x = .acc y t0 ∧ contPreds m ps aps y = ([], t1, none) ∧
        pyIter y = some xs ∧ t = t0 ++ t1 := by
  simp only [seqPre]
  constructor
  · intro h
    split at h
    · simp at h
    · rename_i hg
      refine ⟨hg, ?_⟩
      split at h
      · simp at h
      · simp at h
      · rename_i y' t0 hgate
        split at h
        · simp at h
        · rename_i f t1 hp
          split at h
          · simp at h
          · rename_i hf
            split at h
            · simp at h
            · rename_i xs' hit
              simp only [Sum.inr.injEq, Prod.mk.injEq] at h
              obtain ⟨rfl, rfl, rfl⟩ := h
              have : f = [] := by
                cases f with
                | nil => rfl
                | cons a b => simp at hf
              subst this
              exact ⟨t0, t1, hgate, hp, hit, rfl⟩
  · rintro ⟨hg, t0, t1, hgate, hp, hit, rfl⟩
    simp [hg, hgate, hp, hit]

/-- once the container level passed, the step is the element loop followed by `finishSeq` -/
theorem seqStep_inr {k o m vid ps aps c x y xs t0} (h : seqPre k o m vid ps aps c x = .inr (y, xs, t0))
    (ev : Ev1) (hh : k = .set → HashablePayloads ev) :
    seqStep k o m vid ps aps c ev x =
      (loopItems ev false xs 0 true).map (fun r => (finishSeq k vid y r, t0 ++ r.t)) := by
  simp only [seqStep, h]
  have : loopItems ev (k == .set) xs 0 true = loopItems ev false xs 0 true := by
    cases k with
    | set => exact loopItems_hash ev (hh rfl) xs 0 true
    | list => rfl
    | utuple => rfl
  rw [this]
  cases loopItems ev false xs 0 true <;> rfl

/-- **accept ⇔ container level passes ∧ every element is accepted by the child; the payload is a
    new container of that kind holding the children's payloads in order** (sets: merged as Python
    merges equal members, `dedup`) — never the raw elements. -/
theorem C03_seq_accept_iff (k : SeqKind) (o : Oracle) (m : Mode) (vid : Nat) (ps aps : List Pred)
    (c : Option CoerceK) (ev : Ev1) (hh : k = .set → HashablePayloads ev) (x w : PyVal) (t : List Ev) :
    seqStep k o m vid ps aps c ev x = some (.valid w, t) ↔
      ∃ y xs t0 ws t1, seqPre k o m vid ps aps c x = .inr (y, xs, t0) ∧
        ItemsRun ev xs 0 ws [] t1 ∧ w = k.build ws ∧ t = t0 ++ t1 := by
  cases hp : seqPre k o m vid ps aps c x with
  | inl r =>
    rw [C03_seq_container_first hp]
    constructor
    · intro h
      simp only [Option.some.injEq] at h
      exact absurd (by rw [h]) (seqPre_inl_not_valid hp w)
    · rintro ⟨_, _, _, _, _, h, _⟩; simp at h
  | inr q =>
    obtain ⟨y, xs, t0⟩ := q
    rw [seqStep_inr hp ev hh]
    constructor
    · intro h
      cases hl : loopItems ev false xs 0 true with
      | none => simp [hl] at h
      | some r =>
        obtain ⟨ws, es, t1, rr⟩ := r
        simp only [hl, Option.map_some, Option.some.injEq, Prod.mk.injEq] at h
        obtain ⟨h1, rfl⟩ := h
        cases rr with
        | some e => simp [finishSeq] at h1
        | none =>
          cases es with
          | cons p es => cases k <;> simp [finishSeq] at h1
          | nil =>
            simp [finishSeq] at h1
            exact ⟨y, xs, t0, ws, t1, rfl, (loopItems_iff _ _ _ _ _ _ _).1 hl, h1.symm, rfl⟩
    · rintro ⟨y', xs', t0', ws, t1, heq, hrun, rfl, rfl⟩
      simp only [Sum.inr.injEq, Prod.mk.injEq] at heq
      obtain ⟨rfl, rfl, rfl⟩ := heq
      rw [(loopItems_iff _ _ _ true _ _ _).2 hrun]
      simp [finishSeq]

/-- the error a sequence reports for failing elements: `IndexErrs` keyed by position (lists,
    tuples) or `SetErrs` (one entry per failing member), holding the coerced container -/
def seqElemErr (k : SeqKind) (vid : Nat) (y : PyVal) (es : List (Nat × Inv)) : Inv :=
  match k with
  | .set => .mk .set y vid (es.map Prod.snd)
  | _ => .mk (.index (es.map Prod.fst)) y vid (es.map Prod.snd)

/-- **on rejection by elements the error names exactly the failing positions, each holding the
    child's own `Invalid`** (`ItemsRun` fixes `es`: see `ItemsRun.sound`, `.complete`, `.sorted`). -/
theorem C03_seq_reject_iff (k : SeqKind) (o : Oracle) (m : Mode) (vid : Nat) (ps aps : List Pred)
    (c : Option CoerceK) (ev : Ev1) (hh : k = .set → HashablePayloads ev) (x y : PyVal) (xs : List PyVal)
    (t0 : List Ev) (hp : seqPre k o m vid ps aps c x = .inr (y, xs, t0)) (e : Inv) (t : List Ev) :
    seqStep k o m vid ps aps c ev x = some (.invalid e, t) ↔
      ∃ ws es t1, ItemsRun ev xs 0 ws es t1 ∧ es ≠ [] ∧ e = seqElemErr k vid y es ∧ t = t0 ++ t1 := by
  rw [seqStep_inr hp ev hh]
  constructor
  · intro h
    cases hl : loopItems ev false xs 0 true with
    | none => simp [hl] at h
    | some r =>
      obtain ⟨ws, es, t1, rr⟩ := r
      simp only [hl, Option.map_some, Option.some.injEq, Prod.mk.injEq] at h
      obtain ⟨h1, rfl⟩ := h
      cases rr with
      | some e' => simp [finishSeq] at h1
      | none =>
        cases es with
        | nil => simp [finishSeq] at h1
        | cons p es =>
          refine ⟨ws, p :: es, t1, (loopItems_iff _ _ _ _ _ _ _).1 hl, by simp, ?_, rfl⟩
          cases k <;> simp [finishSeq, seqElemErr] at h1 ⊢ <;> exact h1.symm
  · rintro ⟨ws, es, t1, hrun, hne, rfl, rfl⟩
    rw [(loopItems_iff _ _ _ true _ _ _).2 hrun]
    cases es with
    | nil => exact absurd rfl hne
    | cons p es => cases k <;> simp [finishSeq, seqElemErr]

/-- `run` on the three sequence validators is `seqStep` over the child's own `run` -/
theorem C03_list_run (o : Oracle) (env : Nat → V) (m : Mode) (n vid : Nat) (item : V) (ps aps : List Pred)
    (c : Option CoerceK) (x : PyVal) :
    run o env m (n + 1) (.list vid item ps aps c) x = seqStep .list o m vid ps aps c (run o env m n item) x := rfl
theorem C03_set_run (o : Oracle) (env : Nat → V) (m : Mode) (n vid : Nat) (item : V) (ps aps : List Pred)
    (c : Option CoerceK) (x : PyVal) :
    run o env m (n + 1) (.set vid item ps aps c) x = seqStep .set o m vid ps aps c (run o env m n item) x := rfl
theorem C03_utuple_run (o : Oracle) (env : Nat → V) (m : Mode) (n vid : Nat) (item : V) (ps aps : List Pred)
    (c : Option CoerceK) (x : PyVal) :
    run o env m (n + 1) (.utuple vid item ps aps c) x = seqStep .utuple o m vid ps aps c (run o env m n item) x := rfl

/-! ### n-tuples: one validator per slot -/

/-- slot `i + j` is validated by the `j`-th field validator -/
inductive FieldsRun : List Ev1 → List PyVal → Nat → List PyVal → List (Nat × Inv) → List Ev → Prop
  | nil (i : Nat) : FieldsRun [] [] i [] [] []
  | valid {ev evs x xs i w ws es t t'} : ev x = some (.valid w, t) → FieldsRun evs xs (i + 1) ws es t' →
      FieldsRun (ev :: evs) (x :: xs) i (w :: ws) es (t ++ t')
  | invalid {ev evs x xs i e ws es t t'} : ev x = some (.invalid e, t) → FieldsRun evs xs (i + 1) ws es t' →
      FieldsRun (ev :: evs) (x :: xs) i ws ((i, e) :: es) (t ++ t')

theorem loopFields_iff : ∀ (evs : List Ev1) (xs : List PyVal), evs.length = xs.length →
    ∀ i ws es t, loopFields evs xs i = some ⟨ws, es, t, none⟩ ↔ FieldsRun evs xs i ws es t := by
  intro evs
  induction evs with
  | nil =>
    intro xs hl i ws es t
    cases xs with
    | cons _ _ => simp at hl
    | nil =>
      constructor
      · intro h; simp [loopFields] at h; obtain ⟨rfl, rfl, rfl⟩ := h; exact .nil i
      · intro h; cases h; rfl
  | cons ev evs ih =>
    intro xs hl i ws es t
    cases xs with
    | nil => simp at hl
    | cons x xs =>
      have hl' : evs.length = xs.length := by simpa using hl
      constructor
      · intro h
        simp only [loopFields] at h
        cases hx : ev x with
        | none => simp [hx] at h
        | some p =>
          obtain ⟨o, t0⟩ := p
          cases o with
          | raised e => simp [hx] at h
          | valid w =>
            simp only [hx] at h
            cases hr : loopFields evs xs (i + 1) with
            | none => simp [hr] at h
            | some r =>
              obtain ⟨ws', es', t', r'⟩ := r
              simp [hr] at h
              obtain ⟨rfl, rfl, rfl, rfl⟩ := h
              exact .valid hx ((ih xs hl' _ _ _ _).1 hr)
          | invalid e =>
            simp only [hx] at h
            cases hr : loopFields evs xs (i + 1) with
            | none => simp [hr] at h
            | some r =>
              obtain ⟨ws', es', t', r'⟩ := r
              simp [hr] at h
              obtain ⟨rfl, rfl, rfl, rfl⟩ := h
              exact .invalid hx ((ih xs hl' _ _ _ _).1 hr)
      · intro h
        cases h with
        | valid hx hr => simp [loopFields, hx, (ih xs hl' _ _ _ _).2 hr]
        | invalid hx hr => simp [loopFields, hx, (ih xs hl' _ _ _ _).2 hr]

/-- arity and gate failures of an n-tuple are decided before any slot is validated -/
theorem C03_ntuple_container_first {o vid c lp x r} (evs : List Ev1) (oc : Option ObjCheck)
    (h : ntuplePre o vid c lp evs.length x = .inl r) : ntupleStep o vid oc c lp evs x = some r := by
  simp [ntupleStep, h]

/-- what passing the n-tuple's container level means: gate, then **arity** -/
theorem C03_ntuple_pre_iff (o : Oracle) (vid : Nat) (c : Option CoerceK) (lp arity : Nat) (x y : PyVal)
    (xs : List PyVal) (t : List Ev) :
    ntuplePre o vid c lp arity x = .inr (y, xs, t) ↔
      gate o .tuple .list c x = .acc y t ∧ pyLen y = some arity ∧ pyIter y = some xs := by
  simp only [ntuplePre]
  constructor
  · intro h
    split at h
    · simp at h
    · simp at h
    · rename_i y' t' hg
      split at h
      · simp at h
      · rename_i n hn
        split at h
        · simp at h
        · rename_i hne
          split at h
          · simp at h
          · rename_i xs' hit
            simp only [Sum.inr.injEq, Prod.mk.injEq] at h
            obtain ⟨rfl, rfl, rfl⟩ := h
            have : n = arity := by
              by_cases hh : n = arity
              · exact hh
              · simp [hh] at hne
            subst this
            exact ⟨hg, hn, hit⟩
  · rintro ⟨hg, hn, hit⟩
    simp [hg, hn, hit]

/-- an arity mismatch is a predicate error naming the arity predicate and holding the coerced tuple -/
theorem C03_ntuple_arity (o : Oracle) (vid : Nat) (oc : Option ObjCheck) (c : Option CoerceK) (lp : Nat)
    (evs : List Ev1) (x y : PyVal) (t : List Ev) (n : Nat)
    (hg : gate o .tuple .list c x = .acc y t) (hn : pyLen y = some n) (hne : n ≠ evs.length) :
    ntupleStep o vid oc c lp evs x = some (.invalid (.mk (.preds [lp]) y vid []), t) := by
  simp [ntupleStep, ntuplePre, hg, hn, hne]

/-- n-tuple: accepted iff every slot is accepted by its own validator and the whole-object check
    passes; the payload is a new tuple of the slots' payloads -/
theorem C03_ntuple_accept_iff (o : Oracle) (vid : Nat) (oc : Option ObjCheck) (c : Option CoerceK)
    (lp : Nat) (evs : List Ev1) (x y : PyVal) (xs : List PyVal) (t0 : List Ev)
    (hp : ntuplePre o vid c lp evs.length x = .inr (y, xs, t0)) (hlen : evs.length = xs.length)
    (w : PyVal) (t : List Ev) :
    ntupleStep o vid oc c lp evs x = some (.valid w, t) ↔
      ∃ ws t1, FieldsRun evs xs 0 ws [] t1 ∧ w = .tuple 0 ws ∧
        (runObjCheck oc vid (.tuple 0 ws)).1 = .valid (.tuple 0 ws) ∧
        t = t0 ++ t1 ++ (runObjCheck oc vid (.tuple 0 ws)).2 := by
  simp only [ntupleStep, hp]
  constructor
  · intro h
    cases hl : loopFields evs xs 0 with
    | none => simp [hl] at h
    | some r =>
      obtain ⟨ws, es, t1, rr⟩ := r
      simp only [hl, Option.some.injEq] at h
      cases rr with
      | some e => simp [ntupleFinish] at h
      | none =>
        cases es with
        | cons p es => simp [ntupleFinish] at h
        | nil =>
          simp only [ntupleFinish, List.isEmpty_nil, Bool.not_true, Bool.false_eq_true, if_false,
            Prod.mk.injEq] at h
          obtain ⟨h1, rfl⟩ := h
          have hw : w = .tuple 0 ws := by
            unfold runObjCheck at h1
            split at h1
            · simpa using h1.symm
            · split at h1 <;> simp at h1
              exact h1.symm
          subst hw
          exact ⟨ws, t1, (loopFields_iff _ _ hlen _ _ _ _).1 hl, rfl, h1, rfl⟩
  · rintro ⟨ws, t1, hrun, rfl, hoc, rfl⟩
    rw [(loopFields_iff _ _ hlen _ _ _ _).2 hrun]
    simp [ntupleFinish, hoc]

/-- n-tuple: on rejection by slots the error names exactly the failing slots; the whole-object
    check is not run (its event cannot appear: the trace is the slots' trace) -/
theorem C03_ntuple_reject_slots (o : Oracle) (vid : Nat) (oc : Option ObjCheck) (c : Option CoerceK)
    (lp : Nat) (evs : List Ev1) (x y : PyVal) (xs : List PyVal) (t0 : List Ev)
    (hp : ntuplePre o vid c lp evs.length x = .inr (y, xs, t0)) (hlen : evs.length = xs.length)
    (ws : List PyVal) (es : List (Nat × Inv)) (t1 : List Ev) (hrun : FieldsRun evs xs 0 ws es t1)
    (hne : es ≠ []) :
    ntupleStep o vid oc c lp evs x =
      some (.invalid (.mk (.index (es.map Prod.fst)) y vid (es.map Prod.snd)), t0 ++ t1) := by
  simp only [ntupleStep, hp]
  rw [(loopFields_iff _ _ hlen _ _ _ _).2 hrun]
  cases es with
  | nil => exact absurd rfl hne
  | cons p es => simp [ntupleFinish]

/-! ### maps: every key and every value -/

/-- `MapRun evk evv kvs acc out ks shape errs t`: both children ran on every pair; `out` is `acc`
    extended (Python `d[k] = v` semantics) by (key payload, value payload) of the pairs both of whose
    parts were accepted; for every other pair the *original key* is in `ks`, `shape` says which
    part(s) failed and `errs` holds the children's own errors (key part first). -/
inductive MapRun (evk evv : Ev1) : List (PyVal × PyVal) → List (PyVal × PyVal) → List (PyVal × PyVal) →
    List PyVal → List (Bool × Bool) → List Inv → List Ev → Prop
  | nil (acc) : MapRun evk evv [] acc acc [] [] [] []
  | both {k v rest acc out kw vw tk tv ks shape errs t} :
      evk k = some (.valid kw, tk) → evv v = some (.valid vw, tv) → hashable kw = true →
      MapRun evk evv rest (dictSet acc kw vw) out ks shape errs t →
      MapRun evk evv ((k, v) :: rest) acc out ks shape errs (tk ++ tv ++ t)
  | keyBad {k v rest acc out ke vw tk tv ks shape errs t} :
      evk k = some (.invalid ke, tk) → evv v = some (.valid vw, tv) →
      MapRun evk evv rest acc out ks shape errs t →
      MapRun evk evv ((k, v) :: rest) acc out (k :: ks) ((true, false) :: shape) (ke :: errs) (tk ++ tv ++ t)
  | valBad {k v rest acc out kw ve tk tv ks shape errs t} :
      evk k = some (.valid kw, tk) → evv v = some (.invalid ve, tv) →
      MapRun evk evv rest acc out ks shape errs t →
      MapRun evk evv ((k, v) :: rest) acc out (k :: ks) ((false, true) :: shape) (ve :: errs) (tk ++ tv ++ t)
  | bothBad {k v rest acc out ke ve tk tv ks shape errs t} :
      evk k = some (.invalid ke, tk) → evv v = some (.invalid ve, tv) →
      MapRun evk evv rest acc out ks shape errs t →
      MapRun evk evv ((k, v) :: rest) acc out (k :: ks) ((true, true) :: shape) (ke :: ve :: errs) (tk ++ tv ++ t)

/-- the loop computes `MapRun` -/
theorem mapLoop_of_run {evk evv : Ev1} {kvs acc out ks shape errs t}
    (h : MapRun evk evv kvs acc out ks shape errs t) :
    mapLoop evk evv kvs acc = some ⟨out, ks, shape, errs, t, none⟩ := by
  induction h with
  | nil acc => rfl
  | both hk hv hh _ ih => simp [mapLoop, hk, hv, hh, ih, List.append_assoc]
  | keyBad hk hv _ ih => simp [mapLoop, hk, hv, ih, List.append_assoc]
  | valBad hk hv _ ih => simp [mapLoop, hk, hv, ih, List.append_assoc]
  | bothBad hk hv _ ih => simp [mapLoop, hk, hv, ih, List.append_assoc]

theorem C03_map_container_first {o m vid ps aps c x r} (h : mapPre o m vid ps aps c x = .inl r)
    (evk evv : Ev1) : mapStep o m vid ps aps c evk evv x = some r := by
  simp [mapStep, h]

/-- map: all pairs accepted → a new dict of (key payload ↦ value payload), merged as Python merges -/
theorem C03_map_accept (o : Oracle) (m : Mode) (vid : Nat) (ps aps : List Pred) (c : Option CoerceK)
    (evk evv : Ev1) (x y : PyVal) (kvs out : List (PyVal × PyVal)) (t0 t1 : List Ev)
    (hp : mapPre o m vid ps aps c x = .inr (y, kvs, t0)) (hrun : MapRun evk evv kvs [] out [] [] [] t1) :
    mapStep o m vid ps aps c evk evv x = some (.valid (.dict 0 out), t0 ++ t1) := by
  simp [mapStep, hp, mapLoop_of_run hrun, mapFinish]

/-- map: the error is keyed by the *original* keys of exactly the failing pairs, with separate key
    and value parts, each the child's own `Invalid`, holding the coerced dict -/
theorem C03_map_reject (o : Oracle) (m : Mode) (vid : Nat) (ps aps : List Pred) (c : Option CoerceK)
    (evk evv : Ev1) (x y : PyVal) (kvs out : List (PyVal × PyVal)) (t0 t1 : List Ev)
    (ks : List PyVal) (shape : List (Bool × Bool)) (errs : List Inv)
    (hp : mapPre o m vid ps aps c x = .inr (y, kvs, t0)) (hrun : MapRun evk evv kvs [] out ks shape errs t1)
    (hne : ks ≠ []) :
    mapStep o m vid ps aps c evk evv x = some (.invalid (.mk (.map ks shape) y vid errs), t0 ++ t1) := by
  cases ks with
  | nil => exact absurd rfl hne
  | cons k ks => simp [mapStep, hp, mapLoop_of_run hrun, mapFinish]

/-- `ks` lists exactly the failing pairs' original keys, in order -/
theorem MapRun.keys_exact {evk evv : Ev1} {kvs acc out ks shape errs t}
    (h : MapRun evk evv kvs acc out ks shape errs t) :
    ks = (kvs.filter (fun p =>
      !((match evk p.1 with | some (.valid _, _) => true | _ => false) &&
        (match evv p.2 with | some (.valid _, _) => true | _ => false)))).map Prod.fst := by
  induction h with
  | nil => rfl
  | both hk hv _ _ ih => simp [List.filter, hk, hv, ih]
  | keyBad hk hv _ ih => simp [List.filter, hk, hv, ih]
  | valBad hk hv _ ih => simp [List.filter, hk, hv, ih]
  | bothBad hk hv _ ih => simp [List.filter, hk, hv, ih]

/-! ### non-vacuity: concrete runs of the model -/

/-- `[" a", 3, "bcd"]` against `ListValidator(StringValidator(MaxLength(2)))`: positions 1 and 2 -/
example :
    (run default (fun _ => .always 0) .sync 3
      (.list 1 (.scalar 2 .str none [] [⟨7, .maxLength 2⟩] []) [] [] none)
      (.list 9 [.str [32, 97], .int 3, .str [98, 99, 100]])).map (fun r => match r.1 with
        | .invalid (.mk (.index idx) _ _ ch) => (idx, ch.length)
        | _ => ([], 0)) = some ([1, 2], 2) := by rfl

end Koda
