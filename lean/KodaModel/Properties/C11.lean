/-
  C11 — the generated JSON Schema accepts exactly the JSON values the validator accepts.

  `Decides j a`: the schema `j` (evaluated by `evalSchema`, with enough fuel) accepts exactly the
  JSON values satisfying `a`.  The theorems build `Decides (toSchema v) (accept v)` compositionally,
  validator kind by validator kind; the validator side (`accept v x` ↔ `run` returns Valid) is tied in
  by the characterisations of C02–C05.
-/
import KodaModel.SchemaEval
import KodaModel.Properties.C02
import KodaModel.Properties.C10
import KodaModel.Properties.C11Pat

namespace Koda

/-! ### evaluation lemmas -/

theorem OB_and_some (a b : Bool) : OB.and (some a) (some b) = some (a && b) := rfl

theorem OB_and_assoc (a b c : Option Bool) : OB.and (OB.and a b) c = OB.and a (OB.and b c) := by
  cases a <;> cases b <;> cases c <;> simp [OB.and, Bool.and_assoc]

theorem allM_eq_some_all {α : Type} (f : α → Option Bool) (g : α → Bool) :
    ∀ (l : List α), (∀ x ∈ l, f x = some (g x)) → allM f l = some (l.all g) := by
  intro l
  induction l with
  | nil => intro _; rfl
  | cons x xs ih =>
    intro h
    simp only [allM, h x (by simp), ih (fun y hy => h y (by simp [hy])), OB_and_some, List.all_cons]

theorem allM_append {α : Type} (f : α → Option Bool) (a b : List α) :
    allM f (a ++ b) = OB.and (allM f a) (allM f b) := by
  induction a with
  | nil => simp only [List.nil_append, allM]; cases allM f b <;> rfl
  | cons x xs ih =>
    simp only [List.cons_append, allM, ih, OB_and_assoc]

theorem allM_congr {α : Type} (f g : α → Option Bool) (l : List α) (h : ∀ x ∈ l, f x = g x) :
    allM f l = allM g l := by
  induction l with
  | nil => rfl
  | cons x xs ih => simp only [allM, h x (by simp), ih (fun y hy => h y (by simp [hy]))]

theorem countM_eq_some {α : Type} (f : α → Option Bool) (g : α → Bool) :
    ∀ (l : List α), (∀ x ∈ l, f x = some (g x)) → countM f l = some (l.countP g) := by
  intro l
  induction l with
  | nil => intro _; rfl
  | cons x xs ih =>
    intro h
    simp only [countM, h x (by simp), ih (fun y hy => h y (by simp [hy])), List.countP_cons]
    cases g x <;> simp

/-- `jGet` after `jset` -/
theorem jGet_jset_ne (o : JObj) (k : List Nat) (v : J) (k' : String) (h : k ≠ kw k') :
    jGet (jset o k v) k' = jGet o k' := by
  induction o with
  | nil =>
    simp only [jset, jGet, List.find?_cons, List.find?_nil]
    have : (k == kw k') = false := by simpa using h
    simp [this]
  | cons p ps ih =>
    obtain ⟨k0, v0⟩ := p
    simp only [jset]
    split
    · rename_i heq
      have hk : k0 = k := by simpa using heq
      subst hk
      have : (k0 == kw k') = false := by simpa using h
      simp [jGet, List.find?_cons, this]
    · simp only [jGet, List.find?_cons] at ih ⊢
      split
      · rfl
      · exact ih

theorem jGet_jset_eq (o : JObj) (k : String) (v : J) : jGet (jset o (kw k) v) k = some v := by
  induction o with
  | nil => simp [jset, jGet]
  | cons p ps ih =>
    obtain ⟨k0, v0⟩ := p
    simp only [jset]
    split
    · rename_i heq
      simp [jGet, List.find?_cons, heq]
    · rename_i hne
      simp only [jGet, List.find?_cons] at ih ⊢
      have : (k0 == kw k) = false := by simpa using hne
      simp only [this]
      exact ih

/-- the only things a keyword reads from its siblings -/
theorem evalKw_congr (ev : J → PyVal → Option Bool) (root : J) (ref : Option (List Nat)) (o o' : JObj)
    (h1 : jGet o "properties" = jGet o' "properties") (h2 : jGet o "prefixItems" = jGet o' "prefixItems")
    (k : List Nat) (v : J) (x : PyVal) :
    evalKw ev root ref o k v x = evalKw ev root ref o' k v x := by
  have hp : propNames o = propNames o' := by simp only [propNames, h1]
  have hl : prefixLen o = prefixLen o' := by simp only [prefixLen, h2]
  unfold evalKw
  rw [hp, hl]

/-! ### the object under construction: `jset` / `jupdate` / `jaddPred` versus evaluation -/

def hasKey (o : JObj) (k : List Nat) : Bool := o.any (fun q => q.1 == k)

theorem jset_absent (o : JObj) (k : List Nat) (v : J) (h : hasKey o k = false) : jset o k v = o ++ [(k, v)] := by
  induction o with
  | nil => rfl
  | cons p ps ih =>
    obtain ⟨k0, v0⟩ := p
    simp only [hasKey, List.any_cons, Bool.or_eq_false_iff] at h
    simp only [jset, h.1, Bool.false_eq_true, if_false, List.cons_append, ih h.2]

theorem hasKey_append (a b : JObj) (k : List Nat) : hasKey (a ++ b) k = (hasKey a k || hasKey b k) := by
  simp [hasKey]

/-- keys pairwise distinct -/
def keysNodup : JObj → Bool
  | [] => true
  | (k, _) :: rest => !hasKey rest k && keysNodup rest

theorem jupdate_absent (b : JObj) : ∀ (a : JObj), (∀ e ∈ b, hasKey a e.1 = false) → keysNodup b = true →
    jupdate a b = a ++ b := by
  induction b with
  | nil => intro a _ _; simp [jupdate]
  | cons e es ih =>
    intro a h hn
    obtain ⟨k, v⟩ := e
    simp only [keysNodup, Bool.and_eq_true, Bool.not_eq_true'] at hn
    have hk := h (k, v) (by simp)
    simp only [jupdate, List.foldl_cons]
    rw [jset_absent a k v hk]
    have := ih (a ++ [(k, v)]) (by
      intro e he
      rw [hasKey_append]
      have h1 := h e (by simp [he])
      have h2 : hasKey [(k, v)] e.1 = false := by
        simp only [hasKey, List.any_cons, List.any_nil, Bool.or_false]
        -- e.1 ≠ k because k does not occur among the keys of `es`
        apply Bool.eq_false_iff.2
        intro hh
        have hkk : k = e.1 := by simpa using hh
        have : hasKey es k = true := by
          simp only [hasKey, List.any_eq_true]
          exact ⟨e, he, by simp [hkk]⟩
        simp [this] at hn
      simp [h1, h2]) hn.2
    simp only [jupdate] at this
    rw [this]
    simp

/-- replacing the value of the first entry with key `k` -/
theorem allM_jset_replace (f : List Nat × J → Option Bool) (k : List Nat) (v' : J) :
    ∀ (o : JObj) (k0 : List Nat) (vold : J) (b0 e b : Bool),
      o.find? (fun q => q.1 == k) = some (k0, vold) → f (k0, vold) = some b0 → f (k0, v') = some (b0 && e) →
      allM f o = some b → allM f (jset o k v') = some (b && e) := by
  intro o
  induction o with
  | nil => intro k0 vold b0 e b h; simp at h
  | cons p ps ih =>
    intro k0 vold b0 e b hf h0 h1 hb
    obtain ⟨kp, vp⟩ := p
    simp only [List.find?_cons] at hf
    simp only [jset]
    by_cases hk : (kp == k) = true
    · simp only [hk, if_true] at hf ⊢
      cases hf
      simp only [allM, h0] at hb
      cases hr : allM f ps with
      | none => simp [hr, OB.and] at hb
      | some br =>
        simp only [hr, OB_and_some, Option.some.injEq] at hb
        simp only [allM, h1, hr, OB_and_some]
        subst hb
        cases b0 <;> cases e <;> cases br <;> rfl
    · have hk' : (kp == k) = false := by simpa using hk
      simp only [hk', Bool.false_eq_true, if_false] at hf ⊢
      simp only [allM] at hb ⊢
      cases hp : f (kp, vp) with
      | none => simp [hp, OB.and] at hb
      | some bp =>
        cases hr : allM f ps with
        | none => simp [hp, hr, OB.and] at hb
        | some br =>
          simp only [hp, hr, OB_and_some, Option.some.injEq] at hb
          rw [ih k0 vold b0 e br hf h0 h1 hr, OB_and_some]
          subst hb
          cases bp <;> cases br <;> cases e <;> rfl

theorem find_none_hasKey (o : JObj) (k : List Nat) : o.find? (fun q => q.1 == k) = none ↔ hasKey o k = false := by
  simp [hasKey, List.find?_eq_none]

theorem jGet_none_iff (o : JObj) (k : String) : jGet o k = none ↔ hasKey o (kw k) = false := by
  simp [jGet, hasKey, List.find?_eq_none]

theorem jGet_append_absent (a b : JObj) (k : String) (h : hasKey b (kw k) = false) : jGet (a ++ b) k = jGet a k := by
  simp only [jGet, List.find?_append]
  have : b.find? (fun p => p.1 == kw k) = none := (find_none_hasKey b (kw k)).2 h
  simp [this]


/-! ### scalar validators: the predicates' keywords, merged by `_add_predicate_schema` -/

/-- the predicate holds (returns True, does not raise) -/
def holds (p : PredK) (x : PyVal) : Bool :=
  match p.call x with
  | .ok true => true
  | _ => false

/-- evaluation of the entries `o` as members of the object `o'` -/
def objEval (root : J) (ref : Option (List Nat)) (n : Nat) (o' o : JObj) (x : PyVal) : Option Bool :=
  allM (fun kv => evalKw (evalSchema root ref n) root ref o' kv.1 kv.2 x) o

theorem evalSchema_obj (root : J) (ref : Option (List Nat)) (n : Nat) (o : JObj) (x : PyVal) :
    evalSchema root ref (n + 1) (.obj o) x =
      if isNullable o && isNoneV x then some true
      else if typeFails o x then some false
      else objEval root ref n o o x := rfl

/-- the schema emitted for `p` is right on `x`: its keywords do not touch `nullable` / `allOf`, they are
    pairwise distinct, and together they evaluate to "`p` holds on `x`" -/
def PredOK (pr : Printer) (root : J) (ref : Option (List Nat)) (p : PredK) (x : PyVal) : Prop :=
  ∀ po, predSchema pr p = .ok po →
    keysNodup po = true ∧ hasKey po (kw "nullable") = false ∧ hasKey po (kw "allOf") = false ∧
    hasKey po (kw "type") = false ∧
    ∀ ev o', allM (fun kv => evalKw ev root ref o' kv.1 kv.2 x) po = some (holds p x)

/-- an enclosing object that has neither `properties` nor `prefixItems` (so `additionalProperties` ranges
    over every member and `items` over every element) -/
def Good (o' : JObj) : Prop := jGet o' "properties" = none ∧ jGet o' "prefixItems" = none

/-- the accumulated object: evaluates to `b` (at every fuel ≥ `N`, as part of any `Good` object), is not
    nullable, and its `allOf`, if any, is an array -/

structure AccSem (root : J) (ref : Option (List Nat)) (N : Nat) (acc : JObj) (b : Bool) (x : PyVal) : Prop where
  pos : 1 ≤ N
  sem : ∀ n, N ≤ n → ∀ o', Good o' → objEval root ref n o' acc x = some b
  notNullable : hasKey acc (kw "nullable") = false
  allOfArr : ∀ e ∈ acc, (e.1 == kw "allOf") = true → ∃ xs, e.2 = .arr xs

theorem mem_jset (o : JObj) (k : List Nat) (v : J) (e : List Nat × J) (h : e ∈ jset o k v) :
    e ∈ o ∨ ((e.1 == k) = true ∧ e.2 = v) := by
  induction o with
  | nil => simp [jset] at h; subst h; simp
  | cons p ps ih =>
    obtain ⟨k0, v0⟩ := p
    simp only [jset] at h
    split at h
    · rename_i hk
      rcases List.mem_cons.1 h with h | h
      · subst h; exact Or.inr ⟨hk, rfl⟩
      · exact Or.inl (List.mem_cons_of_mem _ h)
    · rcases List.mem_cons.1 h with h | h
      · subst h; exact Or.inl (by simp)
      · rcases ih h with h | h
        · exact Or.inl (List.mem_cons_of_mem _ h)
        · exact Or.inr h

theorem hasKey_jset_ne (o : JObj) (k k' : List Nat) (v : J) (h : (k == k') = false) :
    hasKey (jset o k v) k' = hasKey o k' := by
  induction o with
  | nil => simp [jset, hasKey, h]
  | cons p ps ih =>
    obtain ⟨k0, v0⟩ := p
    simp only [jset]
    split
    · rename_i hk
      have : k0 = k := by simpa using hk
      subst this
      simp [hasKey]
    · simp only [hasKey, List.any_cons] at ih ⊢
      rw [ih]

theorem allM_some_mem {α : Type} (f : α → Option Bool) (l : List α) (b : Bool) (h : allM f l = some b) :
    ∀ x ∈ l, ∃ bx, f x = some bx := by
  induction l generalizing b with
  | nil => intro x hx; simp at hx
  | cons y ys ih =>
    intro x hx
    simp only [allM] at h
    cases hy : f y with
    | none => simp [hy, OB.and] at h
    | some by' =>
      cases hr : allM f ys with
      | none => simp [hy, hr, OB.and] at h
      | some br =>
        rcases List.mem_cons.1 hx with rfl | hx
        · exact ⟨_, hy⟩
        · exact ih br hr x hx

theorem evalKw_allOf (ev : J → PyVal → Option Bool) (root : J) (ref : Option (List Nat)) (o' : JObj) (js : List J) (x : PyVal) :
    evalKw ev root ref o' (kw "allOf") (.arr js) x = allM (fun j => ev j x) js := by
  rfl

/-- one step of `predsSchema` -/
theorem AccSem_step (pr : Printer) (root : J) (ref : Option (List Nat)) (N : Nat) (acc : JObj) (b : Bool) (x : PyVal)
    (p : PredK) (po : JObj) (ha : AccSem root ref N acc b x) (hp : PredOK pr root ref p x)
    (hpo : predSchema pr p = .ok po) : AccSem root ref N (jaddPred acc po) (b && holds p x) x := by
  obtain ⟨hnd, hnn, hna, hnt, hsem⟩ := hp po hpo
  unfold jaddPred
  split
  · -- a keyword is already set: the predicate goes under `allOf`
    have hpoEval : ∀ n, 1 ≤ n → evalSchema root ref n (.obj po) x = some (holds p x) := by
      intro n hn
      obtain ⟨m, rfl⟩ : ∃ m, n = m + 1 := ⟨n - 1, by omega⟩
      rw [evalSchema_obj]
      have : isNullable po = false := by
        have := (jGet_none_iff po "nullable").2 hnn
        simp [isNullable, this]
      have htf : typeFails po x = false := by
        have := (jGet_none_iff po "type").2 hnt
        simp [typeFails, this]
      simp only [this, htf, Bool.false_and, Bool.false_eq_true, if_false, objEval]
      exact hsem _ _
    split
    · rename_i k0 xs hfind
      refine ⟨ha.pos, ?_, ?_, ?_⟩
      · intro n hn o' hg
        have hn1 : 1 ≤ n := Nat.le_trans ha.pos hn
        have hacc := ha.sem n hn o' hg
        have hmem : (k0, J.arr xs) ∈ acc := List.mem_of_find?_eq_some hfind
        have hk0 : (k0 == kw "allOf") = true := by
          have := List.find?_some hfind
          simpa using this
        have hk0' : k0 = kw "allOf" := by simpa using hk0
        obtain ⟨b0, hb0⟩ := allM_some_mem _ _ _ hacc _ hmem
        refine allM_jset_replace _ (kw "allOf") _ acc k0 (.arr xs) b0 (holds p x) b hfind hb0 ?_ hacc
        simp only [hk0', evalKw_allOf] at hb0 ⊢
        rw [allM_append, hb0]
        simp only [allM, hpoEval n hn1, OB_and_some, Bool.and_true]
      · rw [hasKey_jset_ne _ _ _ _ (by decide)]; exact ha.notNullable
      · intro e he hk
        rcases mem_jset _ _ _ _ he with h | h
        · exact ha.allOfArr e h hk
        · exact ⟨_, h.2⟩
    · rename_i hnot
      -- no `allOf` yet (it cannot be a non-array)
      have hnone : acc.find? (fun q => q.1 == kw "allOf") = none := by
        cases hf : acc.find? (fun q => q.1 == kw "allOf") with
        | none => rfl
        | some e =>
          exfalso
          have hmem := List.mem_of_find?_eq_some hf
          have hk := List.find?_some hf
          obtain ⟨xs, hxs⟩ := ha.allOfArr e hmem hk
          obtain ⟨k0, v0⟩ := e
          simp only at hxs
          subst hxs
          exact hnot k0 xs hf
      have habs := (find_none_hasKey acc (kw "allOf")).1 hnone
      rw [jset_absent acc _ _ habs]
      refine ⟨ha.pos, ?_, ?_, ?_⟩
      · intro n hn o' hg
        have hn1 : 1 ≤ n := Nat.le_trans ha.pos hn
        simp only [objEval, allM_append]
        have hacc := ha.sem n hn o' hg
        simp only [objEval] at hacc
        rw [hacc]
        simp only [allM, evalKw_allOf, hpoEval n hn1, OB_and_some, Bool.and_true]
      · rw [hasKey_append, ha.notNullable]; simp only [hasKey, List.any_cons, List.any_nil]; decide
      · intro e he hk
        rcases List.mem_append.1 he with h | h
        · exact ha.allOfArr e h hk
        · simp at h; subst h; exact ⟨_, rfl⟩
  · -- no keyword of the predicate is set yet
    rename_i hclash
    have hfresh : ∀ e ∈ po, hasKey acc e.1 = false := by
      intro e he
      apply Bool.eq_false_iff.2
      intro hh
      apply hclash
      simp only [List.any_eq_true]
      exact ⟨e, he, by simpa [hasKey] using hh⟩
    rw [jupdate_absent po acc hfresh hnd]
    refine ⟨ha.pos, ?_, ?_, ?_⟩
    · intro n hn o' hg
      simp only [objEval, allM_append]
      have hacc := ha.sem n hn o' hg
      simp only [objEval] at hacc
      rw [hacc, hsem _ _, OB_and_some]
    · rw [hasKey_append, ha.notNullable, hnn]; rfl
    · intro e he hk
      rcases List.mem_append.1 he with h | h
      · exact ha.allOfArr e h hk
      · exfalso
        have : hasKey po (kw "allOf") = true := by
          simp only [hasKey, List.any_eq_true]
          exact ⟨e, h, hk⟩
        simp [this] at hna

theorem AccSem_preds (pr : Printer) (root : J) (ref : Option (List Nat)) (N : Nat) (x : PyVal) :
    ∀ (ps : List Pred) (acc o : JObj) (b : Bool), AccSem root ref N acc b x →
      (∀ p ∈ ps, PredOK pr root ref p.k x) → predsSchema pr acc ps = .ok o →
      AccSem root ref N o (b && ps.all (fun p => holds p.k x)) x := by
  intro ps
  induction ps with
  | nil =>
    intro acc o b ha _ h
    simp only [predsSchema, Except.ok.injEq] at h
    subst h
    simpa using ha
  | cons p ps ih =>
    intro acc o b ha hp h
    simp only [predsSchema] at h
    cases hpo : predSchema pr p.k with
    | error e => simp [hpo] at h
    | ok po =>
      simp only [hpo] at h
      have := ih _ o _ (AccSem_step pr root ref N acc b x p.k po ha (hp p (by simp)) hpo)
        (fun q hq => hp q (by simp [hq])) h
      simpa [List.all_cons, Bool.and_assoc] using this


/-! ### the scalar theorem -/

theorem jGet_jupdate_absent (b : JObj) : ∀ (a : JObj) (k : String), hasKey b (kw k) = false →
    jGet (jupdate a b) k = jGet a k := by
  induction b with
  | nil => intro a k _; rfl
  | cons e es ih =>
    intro a k h
    obtain ⟨k0, v0⟩ := e
    simp only [hasKey, List.any_cons, Bool.or_eq_false_iff] at h
    simp only [jupdate, List.foldl_cons]
    have := ih (jset a k0 v0) k (by simpa [hasKey] using h.2)
    simp only [jupdate] at this
    rw [this, jGet_jset_ne]
    intro hk
    simp [hk] at h

theorem jGet_jaddPred_absent (a b : JObj) (k : String) (hb : hasKey b (kw k) = false) (hk : kw "allOf" ≠ kw k) :
    jGet (jaddPred a b) k = jGet a k := by
  unfold jaddPred
  split
  · split
    · exact jGet_jset_ne _ _ _ _ hk
    · exact jGet_jset_ne _ _ _ _ hk
  · exact jGet_jupdate_absent b a k hb

theorem predsSchema_jGet (pr : Printer) (k : String) (hk : kw "allOf" ≠ kw k) :
    ∀ (ps : List Pred) (acc o : JObj),
      (∀ p ∈ ps, ∀ po, predSchema pr p.k = .ok po → hasKey po (kw k) = false) →
      predsSchema pr acc ps = .ok o → jGet o k = jGet acc k := by
  intro ps
  induction ps with
  | nil => intro acc o _ h; simp only [predsSchema, Except.ok.injEq] at h; subst h; rfl
  | cons p ps ih =>
    intro acc o hp h
    simp only [predsSchema] at h
    cases hpo : predSchema pr p.k with
    | error e => simp [hpo] at h
    | ok po =>
      simp only [hpo] at h
      rw [ih _ o (fun q hq => hp q (by simp [hq])) h]
      exact jGet_jaddPred_absent acc po k (hp p (by simp) po hpo) hk

/-- no predicate emits `type`, `nullable` or `allOf`, and the keywords of one predicate are distinct -/
theorem predSchema_keys (pr : Printer) (p : PredK) (po : JObj) (h : predSchema pr p = .ok po) :
    hasKey po (kw "type") = false ∧ hasKey po (kw "nullable") = false ∧ hasKey po (kw "allOf") = false ∧
    keysNodup po = true ∧ hasKey po (kw "properties") = false ∧ hasKey po (kw "prefixItems") = false := by
  cases p with
  | min v e =>
    simp only [predSchema] at h
    unfold boundSchema at h
    split at h
    · split at h
      · cases h; cases e <;> simp [hasKey, keysNodup] <;> decide
      · cases h
    · cases h; cases e <;> simp [hasKey, keysNodup] <;> decide
  | max v e =>
    simp only [predSchema] at h
    unfold boundSchema at h
    split at h
    · split at h
      · cases h; cases e <;> simp [hasKey, keysNodup] <;> decide
      · cases h
    · cases h; cases e <;> simp [hasKey, keysNodup] <;> decide
  | equalTo v =>
    simp only [predSchema] at h
    split at h
    · cases h; simp [hasKey, keysNodup]; decide
    · cases h
  | choices vs =>
    simp only [predSchema] at h
    split at h
    · split at h
      · cases h; simp [hasKey, keysNodup]; decide
      · cases h
    · cases h
  | startsWith q =>
    cases q with
    | str s => simp only [predSchema] at h; cases h; simp [hasKey, keysNodup]; decide
    | bytes b => simp only [predSchema] at h; split at h <;> cases h; simp [hasKey, keysNodup]; decide
    | _ => simp [predSchema] at h
  | endsWith q =>
    cases q with
    | str s => simp only [predSchema] at h; cases h; simp [hasKey, keysNodup]; decide
    | bytes b => simp only [predSchema] at h; split at h <;> cases h; simp [hasKey, keysNodup]; decide
    | _ => simp [predSchema] at h
  | multipleOf f => cases h
  | exactItemCount n => cases h
  | user f => cases h
  | _ => cases h; simp [hasKey, keysNodup] <;> decide

/-- the JSON-native scalar types and their `type` keyword -/
def typeName : Ty → Option String
  | .str => some "string"
  | .int => some "integer"
  | .float => some "number"
  | .bool => some "boolean"
  | _ => none

theorem typeOk_spec (tg : Ty) (t : String) (h : typeName tg = some t) (x : PyVal) :
    typeOk (kw t) x = some (decide (x.ty = tg)) := by
  cases tg <;> simp [typeName] at h <;> subst h <;> cases x <;> simp [typeOk, kw, PyVal.ty] <;> rfl

theorem baseSchema_frag (tg : Ty) (t : String) (h : typeName tg = some t) :
    baseSchema tg = .ok [(kw "type", .str (kw t))] := by
  cases tg <;> simp [typeName] at h <;> subst h <;> rfl

/-- **C11, scalar validators (schema side)**: for a string / integer / float / boolean validator without
    coercion or preprocessing, whose predicates' keywords are right on `x` (`PredOK`, proved per
    predicate below), the generated schema accepts `x` iff `x` is of exactly the validator's type and
    every predicate holds — whatever the number of predicates and however their keywords clash. -/
theorem C11_scalar_schema (pr : Printer) (root : J) (ref : Option (List Nat)) (ctx : RefCtx) (nrs : List Nat)
    (vid : Nat) (tg : Ty) (t : String) (ht : typeName tg = some t) (c : Option CoerceK) (pre : List Proc)
    (ps : List Pred) (j : J) (hj : toSchema pr ctx [] nrs (.scalar vid tg c pre ps []) = .ok j) (x : PyVal)
    (hp : x.ty = tg → ∀ p ∈ ps, PredOK pr root ref p.k x) :
    ∀ n, 2 ≤ n → evalSchema root ref n j x = some (decide (x.ty = tg) && ps.all (fun p => holds p.k x)) := by
  intro n hn
  obtain ⟨m, rfl⟩ : ∃ m, n = m + 1 := ⟨n - 1, by omega⟩
  simp only [toSchema, List.contains_nil, Bool.false_eq_true, if_false, baseSchema_frag tg t ht, bind, Except.bind,
    List.append_nil] at hj
  cases hps : predsSchema pr [(kw "type", .str (kw t))] ps with
  | error e => simp [hps] at hj
  | ok o =>
    simp only [hps, Except.ok.injEq] at hj
    subst hj
    rw [evalSchema_obj]
    by_cases hty : x.ty = tg
    · -- right type: every keyword is evaluated
      have hbase : AccSem root ref 1 [(kw "type", .str (kw t))] true x := by
        refine ⟨Nat.le_refl 1, ?_, by simp only [hasKey, List.any_cons, List.any_nil]; decide, ?_⟩
        · intro n _ o' _
          simp only [objEval, allM]
          have : evalKw (evalSchema root ref n) root ref o' (kw "type") (.str (kw t)) x = typeOk (kw t) x := rfl
          rw [this, typeOk_spec tg t ht x]
          simp [hty, OB_and_some]
        · intro e he hk
          simp at he; subst he
          exact absurd hk (by simp only []; decide)
      have hacc := AccSem_preds pr root ref 1 x ps _ o true hbase (hp hty) hps
      have hnull : isNullable o = false := by
        have := (jGet_none_iff o "nullable").2 hacc.notNullable
        simp [isNullable, this]
      have hty' : jGet o "type" = some (.str (kw t)) := by
        rw [predsSchema_jGet pr "type" (by decide) ps _ o (fun p hpm po hpo => (hp hty p hpm po hpo).2.2.2.1) hps]
        rfl
      have htf : typeFails o x = false := by
        simp [typeFails, hty', typeOk_spec tg t ht x, hty]
      simp only [hnull, htf, Bool.false_and, Bool.false_eq_true, if_false]
      have hgood : Good o := by
        constructor
        · rw [predsSchema_jGet pr "properties" (by decide) ps _ o (fun p _ po hpo => (predSchema_keys pr p.k po hpo).2.2.2.2.1) hps]; rfl
        · rw [predsSchema_jGet pr "prefixItems" (by decide) ps _ o (fun p _ po hpo => (predSchema_keys pr p.k po hpo).2.2.2.2.2) hps]; rfl
      rw [hacc.sem m (by omega) o hgood]
      simp [hty]
    · -- wrong type: rejected whatever the predicates say
      have hty' : jGet o "type" = some (.str (kw t)) := by
        rw [predsSchema_jGet pr "type" (by decide) ps _ o (fun p _ po hpo => (predSchema_keys pr p.k po hpo).1) hps]
        rfl
      have hnn : jGet o "nullable" = none := by
        rw [predsSchema_jGet pr "nullable" (by decide) ps _ o (fun p _ po hpo => (predSchema_keys pr p.k po hpo).2.1) hps]
        rfl
      have hnull : isNullable o = false := by simp [isNullable, hnn]
      have htf : typeFails o x = true := by
        simp [typeFails, hty', typeOk_spec tg t ht x, hty]
      simp [hnull, htf, hty]


/-! ### the validator side -/

theorem runPreds_all (ps : List Pred) (x : PyVal) :
    ((runPreds ps x).1 = [] ∧ (runPreds ps x).2.2 = none) ↔ ps.all (fun p => holds p.k x) = true := by
  induction ps with
  | nil => simp [runPreds]
  | cons p ps ih =>
    simp only [runPreds, List.all_cons, Bool.and_eq_true]
    cases hc : p.k.call x with
    | error e => simp [holds, hc]
    | ok b =>
      cases b with
      | true => simpa [holds, hc] using ih
      | false => simp [holds, hc]

/-- **C11, scalar validators (validator side)**: without coercer, preprocessors and async predicates
    the validator accepts iff the value is of exactly its type and every predicate holds -/
theorem C11_scalar_validator (o : Oracle) (vid : Nat) (tg : Ty) (ps : List Pred) (x : PyVal) :
    (∃ w t, scalarStep o .sync vid tg none [] ps [] x = (.valid w, t)) ↔
      (decide (x.ty = tg) && ps.all (fun p => holds p.k x)) = true := by
  constructor
  · rintro ⟨w, t, h⟩
    rw [C02_accept_iff] at h
    obtain ⟨_, y, t0, t1, hg, hp, he, hn, _⟩ := h
    simp only [gate] at hg
    split at hg
    · rename_i hty
      cases hg
      simp only [runProcs, Prod.mk.injEq, Except.ok.injEq] at hp
      obtain ⟨rfl, _⟩ := hp
      have h2 : (runPreds ps x).2.2 = none := by
        simp only [contPreds] at hn
        split at hn
        · simp at hn
        · rename_i hh; exact hh
      have h1 : (runPreds ps x).1 = [] := by
        simp only [contPreds, h2] at he
        simpa using he
      simp [hty, (runPreds_all ps x).1 ⟨h1, h2⟩]
    · cases hg
  · intro h
    simp only [Bool.and_eq_true, decide_eq_true_eq] at h
    obtain ⟨h1, h2⟩ := (runPreds_all ps x).2 h.2
    refine ⟨x, [] ++ [] ++ (contPreds .sync ps [] x).2.1, ?_⟩
    rw [C02_accept_iff]
    refine ⟨by simp, x, [], [], by simp [gate, h.1], rfl, ?_, ?_, rfl⟩ <;> simp [contPreds, h1, h2]

/-- **C11 for scalar validators**: the generated schema accepts `x` iff the validator does -/
theorem C11_scalar (pr : Printer) (root : J) (ref : Option (List Nat)) (ctx : RefCtx) (nrs : List Nat) (o : Oracle)
    (vid : Nat) (tg : Ty) (t : String) (ht : typeName tg = some t) (ps : List Pred) (j : J)
    (hj : toSchema pr ctx [] nrs (.scalar vid tg none [] ps []) = .ok j) (x : PyVal)
    (hp : x.ty = tg → ∀ p ∈ ps, PredOK pr root ref p.k x) (n : Nat) (hn : 2 ≤ n) :
    evalSchema root ref n j x = some true ↔ ∃ w t', scalarStep o .sync vid tg none [] ps [] x = (.valid w, t') := by
  rw [C11_scalar_schema pr root ref ctx nrs vid tg t ht none [] ps j hj x hp n hn, C11_scalar_validator]
  simp


/-! ### the keywords of the individual predicates -/

theorem PredOK_of_sem (pr : Printer) (root : J) (ref : Option (List Nat)) (p : PredK) (x : PyVal)
    (h : ∀ po, predSchema pr p = .ok po → ∀ (ev : J → PyVal → Option Bool) (o' : JObj),
      allM (fun kv => evalKw ev root ref o' kv.1 kv.2 x) po = some (holds p x)) : PredOK pr root ref p x := by
  intro po hpo
  obtain ⟨h1, h2, h3, h4, _, _⟩ := predSchema_keys pr p po hpo
  exact ⟨h4, h2, h3, h1, h po hpo⟩

theorem allM_one {α : Type} (f : α → Option Bool) (a : α) (x : Bool) (ha : f a = some x) : allM f [a] = some x := by
  simp [allM, ha, OB.and]

theorem allM_two {α : Type} (f : α → Option Bool) (a b : α) (x y : Bool) (ha : f a = some x) (hb : f b = some y) :
    allM f [a, b] = some (x && y) := by
  simp [allM, ha, hb, OB.and]

theorem holds_of_call (p : PredK) (x : PyVal) (b : Bool) (h : p.call x = .ok b) : holds p x = b := by
  simp only [holds, h]; cases b <;> rfl

theorem objEval_one (ev : J → PyVal → Option Bool) (root : J) (ref : Option (List Nat)) (o' : JObj)
    (k : List Nat) (v : J) (x : PyVal) (b : Bool) (h : evalKw ev root ref o' k v x = some b) :
    allM (fun kv => evalKw ev root ref o' kv.1 kv.2 x) [(k, v)] = some b := by
  simp [allM, h, OB.and]

theorem objEval_two (ev : J → PyVal → Option Bool) (root : J) (ref : Option (List Nat)) (o' : JObj)
    (k1 k2 : List Nat) (v1 v2 : J) (x : PyVal) (b1 b2 : Bool) (h1 : evalKw ev root ref o' k1 v1 x = some b1)
    (h2 : evalKw ev root ref o' k2 v2 x = some b2) :
    allM (fun kv => evalKw ev root ref o' kv.1 kv.2 x) [(k1, v1), (k2, v2)] = some (b1 && b2) := by
  simp [allM, h1, h2, OB.and]

theorem kw_minLength (ev : J → PyVal → Option Bool) (root : J) (ref : Option (List Nat)) (o' : JObj) (n : Int) (s : List Nat) :
    evalKw ev root ref o' (kw "minLength") (.int n) (.str s) = some (decide ((s.length : Int) ≥ n)) := rfl

theorem kw_maxLength (ev : J → PyVal → Option Bool) (root : J) (ref : Option (List Nat)) (o' : JObj) (n : Int) (s : List Nat) :
    evalKw ev root ref o' (kw "maxLength") (.int n) (.str s) = some (decide ((s.length : Int) ≤ n)) := rfl

/-- `MinLength` / `MaxLength` / `ExactLength` on strings -/
theorem PredOK_minLength (pr : Printer) (root : J) (ref : Option (List Nat)) (n : Int) (s : List Nat) :
    PredOK pr root ref (.minLength n) (.str s) := by
  apply PredOK_of_sem
  intro po hpo ev o'
  simp only [predSchema, Except.ok.injEq] at hpo
  subst hpo
  rw [objEval_one ev root ref o' _ _ _ _ (kw_minLength ev root ref o' n s),
    holds_of_call (.minLength n) (.str s) (decide ((s.length : Int) ≥ n)) rfl]

theorem PredOK_maxLength (pr : Printer) (root : J) (ref : Option (List Nat)) (n : Int) (s : List Nat) :
    PredOK pr root ref (.maxLength n) (.str s) := by
  apply PredOK_of_sem
  intro po hpo ev o'
  simp only [predSchema, Except.ok.injEq] at hpo
  subst hpo
  rw [objEval_one ev root ref o' _ _ _ _ (kw_maxLength ev root ref o' n s),
    holds_of_call (.maxLength n) (.str s) (decide ((s.length : Int) ≤ n)) rfl]

theorem PredOK_exactLength (pr : Printer) (root : J) (ref : Option (List Nat)) (n : Int) (s : List Nat) :
    PredOK pr root ref (.exactLength n) (.str s) := by
  apply PredOK_of_sem
  intro po hpo ev o'
  simp only [predSchema, Except.ok.injEq] at hpo
  subst hpo
  rw [objEval_two ev root ref o' _ _ _ _ _ _ _ (kw_minLength ev root ref o' n s) (kw_maxLength ev root ref o' n s)]
  rw [holds_of_call (.exactLength n) (.str s) (decide ((s.length : Int) = n)) rfl]
  congr 1
  by_cases h : (s.length : Int) = n
  · simp [h]
  · simp only [h, decide_false]
    by_cases h1 : (s.length : Int) ≥ n
    · have : ¬ (s.length : Int) ≤ n := by omega
      simp [this]
    · simp [h1]


/-! #### numeric bounds -/

theorem xnum_num (a : PyVal) (ha : isNum a = true) : ∃ q, xnum a = some q := by
  cases a <;> simp [isNum] at ha
  · exact ⟨_, rfl⟩
  · rename_i f; cases f <;> exact ⟨_, rfl⟩

theorem pyLt_num (a b : PyVal) (ha : isNum a = true) (hb : isNum b = true) : ∃ r, pyLt a b = .ok r := by
  obtain ⟨qa, hqa⟩ := xnum_num a ha
  obtain ⟨qb, hqb⟩ := xnum_num b hb
  cases a <;> simp [isNum] at ha <;> cases b <;> simp [isNum] at hb <;>
    simp [pyLt, PyVal.unsub, hqa, hqb, isDecNaN]

theorem pyLe_num (a b : PyVal) (ha : isNum a = true) (hb : isNum b = true) : ∃ r, pyLe a b = .ok r := by
  obtain ⟨r, hr⟩ := pyLt_num a b ha hb
  simp only [pyLe, hr]
  cases r <;> simp

theorem toVal_rawJ_num (m : PyVal) (hm : isNum m = true) : (rawJ m).toVal = some m := by
  cases m <;> simp [isNum] at hm <;> rfl

theorem isFmtTy_num (m : PyVal) (hm : isNum m = true) : isFmtTy m = false := by
  cases m <;> simp [isNum] at hm <;> rfl

theorem boundHolds_num (m x : PyVal) (hm : isNum m = true) (hx : isNum x = true)
    (cmp : PyVal → PyVal → Except Exn Bool) (r : Bool) (hr : cmp m x = .ok r) :
    boundHolds (rawJ m) x cmp = some r := by
  simp [boundHolds, toVal_rawJ_num m hm, hm, hx, hr, ofExcept]

theorem kw_minimum (ev : J → PyVal → Option Bool) (root : J) (ref : Option (List Nat)) (o' : JObj) (v : J) (x : PyVal) :
    evalKw ev root ref o' (kw "minimum") v x = boundHolds v x pyLe := rfl
theorem kw_exclusiveMinimum (ev : J → PyVal → Option Bool) (root : J) (ref : Option (List Nat)) (o' : JObj) (v : J) (x : PyVal) :
    evalKw ev root ref o' (kw "exclusiveMinimum") v x = boundHolds v x pyLt := rfl
theorem kw_maximum (ev : J → PyVal → Option Bool) (root : J) (ref : Option (List Nat)) (o' : JObj) (v : J) (x : PyVal) :
    evalKw ev root ref o' (kw "maximum") v x = boundHolds v x (fun b y => pyLe y b) := rfl
theorem kw_exclusiveMaximum (ev : J → PyVal → Option Bool) (root : J) (ref : Option (List Nat)) (o' : JObj) (v : J) (x : PyVal) :
    evalKw ev root ref o' (kw "exclusiveMaximum") v x = boundHolds v x (fun b y => pyLt y b) := rfl

/-- `Min(m)` / `Min(m, exclusive)` with an int / float bound on an int / float value -/
theorem PredOK_min (pr : Printer) (root : J) (ref : Option (List Nat)) (m x : PyVal) (excl : Bool)
    (hm : isNum m = true) (hx : isNum x = true) : PredOK pr root ref (.min m excl) x := by
  apply PredOK_of_sem
  intro po hpo ev o'
  simp only [predSchema, boundSchema, isFmtTy_num m hm, Bool.false_eq_true, if_false, Except.ok.injEq] at hpo
  subst hpo
  cases excl with
  | false =>
    obtain ⟨r, hr⟩ := pyLe_num m x hm hx
    simp only [Bool.false_eq_true, if_false]
    rw [objEval_one ev root ref o' _ _ _ r (by rw [kw_minimum]; exact boundHolds_num m x hm hx _ r hr),
      holds_of_call (.min m false) x r (by simpa [PredK.call] using hr)]
  | true =>
    obtain ⟨r, hr⟩ := pyLt_num m x hm hx
    simp only [if_true]
    rw [objEval_one ev root ref o' _ _ _ r (by rw [kw_exclusiveMinimum]; exact boundHolds_num m x hm hx _ r hr),
      holds_of_call (.min m true) x r (by simpa [PredK.call] using hr)]

/-- `Max(m)` / `Max(m, exclusive)` with an int / float bound on an int / float value -/
theorem PredOK_max (pr : Printer) (root : J) (ref : Option (List Nat)) (m x : PyVal) (excl : Bool)
    (hm : isNum m = true) (hx : isNum x = true) : PredOK pr root ref (.max m excl) x := by
  apply PredOK_of_sem
  intro po hpo ev o'
  simp only [predSchema, boundSchema, isFmtTy_num m hm, Bool.false_eq_true, if_false, Except.ok.injEq] at hpo
  subst hpo
  cases excl with
  | false =>
    obtain ⟨r, hr⟩ := pyLe_num x m hx hm
    simp only [Bool.false_eq_true, if_false]
    rw [objEval_one ev root ref o' _ _ _ r (by rw [kw_maximum]; exact boundHolds_num m x hm hx _ r hr),
      holds_of_call (.max m false) x r (by simpa [PredK.call] using hr)]
  | true =>
    obtain ⟨r, hr⟩ := pyLt_num x m hx hm
    simp only [if_true]
    rw [objEval_one ev root ref o' _ _ _ r (by rw [kw_exclusiveMaximum]; exact boundHolds_num m x hm hx _ r hr),
      holds_of_call (.max m true) x r (by simpa [PredK.call] using hr)]


/-! #### `EqualTo` / `Choices` (and `EqualsValidator`): `enum` -/

/-- constant and datum are of the same JSON kind: both strings, both numbers (int / float), both booleans -/
def SameKind : PyVal → PyVal → Bool
  | .str _, .str _ => true
  | .bool _, .bool _ => true
  | .int _, x => isNum x
  | .float _, x => isNum x
  | _, _ => false

theorem Frac_eq_comm (a b : Frac) : a.eq b = b.eq a := by
  simp only [Frac.eq]
  exact Bool.beq_comm

theorem XNum_eq_comm (a b : XNum) : a.eq b = b.eq a := by
  cases a <;> cases b <;> simp [XNum.eq, Frac_eq_comm, Bool.beq_comm]

theorem numEq_comm (a b : PyVal) : numEq a b = numEq b a := by
  simp only [numEq]
  cases xnum a <;> cases xnum b <;> simp [XNum_eq_comm]

theorem jsonEq_pyEq (v x : PyVal) (h : SameKind v x = true) : jsonEq v x = pyEq x v ∧ jsonEq v x = pyEq v x := by
  have hbool : ∀ a b : Bool, (a == b) = numEq (.bool a) (.bool b) := by
    intro a b; cases a <;> cases b <;> decide
  cases v <;> cases x <;> simp [SameKind, isNum] at h <;>
    simp [jsonEq, pyEq, PyVal.unsub, isNum, numEq_comm, Bool.beq_comm]
  · rename_i a b
    rw [← hbool a b]


theorem enumValue_sameKind (pr : Printer) (v x : PyVal) (h : SameKind v x = true) :
    enumValue pr v = .ok (rawJ v) ∧ (rawJ v).toVal = some v := by
  cases v <;> cases x <;> simp [SameKind] at h <;> exact ⟨rfl, rfl⟩

theorem kw_enum (ev : J → PyVal → Option Bool) (root : J) (ref : Option (List Nat)) (o' : JObj) (js : List J) (x : PyVal) :
    evalKw ev root ref o' (kw "enum") (.arr js) x = enumHolds js x := rfl

theorem enumHolds_map (vs : List PyVal) (x : PyVal) (h : ∀ v ∈ vs, SameKind v x = true) :
    enumHolds (vs.map rawJ) x = some (vs.any (fun v => jsonEq v x)) := by
  have hall : (vs.map rawJ).all (fun j => j.toVal.isSome) = true := by
    rw [List.all_eq_true]
    intro j hj
    obtain ⟨v, hv, rfl⟩ := List.mem_map.1 hj
    have := (enumValue_sameKind default v x (h v hv)).2
    simp [this]
  simp only [enumHolds, hall, if_true, Option.some.injEq]
  induction vs with
  | nil => rfl
  | cons v vs ih =>
    have hv := (enumValue_sameKind default v x (h v (by simp))).2
    simp only [List.map_cons, List.any_cons, hv]
    rw [ih (fun w hw => h w (by simp [hw]))]
    rw [List.all_eq_true]
    intro j hj
    obtain ⟨w, hw, rfl⟩ := List.mem_map.1 hj
    have := (enumValue_sameKind default w x (h w (by simp [hw]))).2
    simp [this]

theorem isSNaN_sameKind (v x : PyVal) (h : SameKind v x = true) : isSNaN x.unsub = false ∧ isSNaN v.unsub = false := by
  cases v <;> cases x <;> simp [SameKind, isNum] at h <;> simp [isSNaN, PyVal.unsub]

/-- `EqualTo(v)` with a constant of the datum's kind -/
theorem PredOK_equalTo (pr : Printer) (root : J) (ref : Option (List Nat)) (v x : PyVal) (h : SameKind v x = true) :
    PredOK pr root ref (.equalTo v) x := by
  apply PredOK_of_sem
  intro po hpo ev o'
  simp only [predSchema, (enumValue_sameKind pr v x h).1, Except.ok.injEq] at hpo
  subst hpo
  have he : enumHolds [rawJ v] x = some (jsonEq v x) := by
    have := enumHolds_map [v] x (by intro w hw; simp at hw; subst hw; exact h)
    simpa using this
  rw [objEval_one ev root ref o' _ _ _ _ (by rw [kw_enum]; exact he)]
  have hc : (PredK.equalTo v).call x = .ok (pyEq x v) := by
    simp [PredK.call, pyEqX, (isSNaN_sameKind v x h).1, (isSNaN_sameKind v x h).2]
  rw [holds_of_call _ _ _ hc, (jsonEq_pyEq v x h).1]

theorem enumValues_sameKind (pr : Printer) (x : PyVal) : ∀ (vs : List PyVal), (∀ v ∈ vs, SameKind v x = true) →
    enumValues pr vs = .ok (vs.map rawJ) := by
  intro vs
  induction vs with
  | nil => intro _; rfl
  | cons v vs ih =>
    intro h
    simp [enumValues, (enumValue_sameKind pr v x (h v (by simp))).1, ih (fun w hw => h w (by simp [hw]))]

theorem insertSorted_mem' (x : PyVal) : ∀ (ys r : List PyVal), insertSorted x ys = some r → x ∈ r ∧ ∀ z ∈ ys, z ∈ r := by
  intro ys
  induction ys with
  | nil => intro r h; simp [insertSorted] at h; subst h; simp
  | cons y ys ih =>
    intro r h
    simp only [insertSorted] at h
    split at h
    · cases h; simp; intro a ha; exact Or.inr (Or.inr ha)
    · cases hi : insertSorted x ys with
      | none => simp [hi] at h
      | some r' =>
        simp only [hi, Option.map_some, Option.some.injEq] at h
        subst h
        obtain ⟨h1, h2⟩ := ih r' hi
        refine ⟨List.mem_cons_of_mem _ h1, ?_⟩
        intro z hz
        rcases List.mem_cons.1 hz with rfl | hz
        · simp
        · exact List.mem_cons_of_mem _ (h2 z hz)
    · cases h

theorem sortVals_mem' : ∀ (vs s : List PyVal), sortVals vs = some s → ∀ z ∈ vs, z ∈ s := by
  intro vs
  induction vs with
  | nil => intro s _ z hz; simp at hz
  | cons v vs ih =>
    intro s h z hz
    simp only [sortVals] at h
    cases hs : sortVals vs with
    | none => simp [hs] at h
    | some s' =>
      simp only [hs, Option.bind_some] at h
      obtain ⟨h1, h2⟩ := insertSorted_mem' v s' s h
      rcases List.mem_cons.1 hz with rfl | hz
      · exact h1
      · exact h2 z (ih s' hs z hz)

theorem any_congr_mem {α : Type} (f : α → Bool) (a b : List α) (h1 : ∀ z ∈ a, z ∈ b) (h2 : ∀ z ∈ b, z ∈ a) :
    a.any f = b.any f := by
  apply Bool.eq_iff_iff.2
  simp only [List.any_eq_true]
  constructor
  · rintro ⟨z, hz, hf⟩; exact ⟨z, h1 z hz, hf⟩
  · rintro ⟨z, hz, hf⟩; exact ⟨z, h2 z hz, hf⟩

/-- `Choices(vs)` with constants of the datum's kind -/
theorem PredOK_choices (pr : Printer) (root : J) (ref : Option (List Nat)) (vs : List PyVal) (x : PyVal)
    (h : ∀ v ∈ vs, SameKind v x = true) (hx : hashable x = true) : PredOK pr root ref (.choices vs) x := by
  apply PredOK_of_sem
  intro po hpo ev o'
  simp only [predSchema] at hpo
  cases hs : sortVals vs with
  | none => simp [hs] at hpo
  | some s =>
    have hsk : ∀ v ∈ s, SameKind v x = true := fun v hv => h v (sortVals_mem vs s hs v hv)
    simp only [hs, enumValues_sameKind pr x s hsk, Except.ok.injEq] at hpo
    subst hpo
    rw [objEval_one ev root ref o' _ _ _ _ (by rw [kw_enum]; exact enumHolds_map s x hsk)]
    have hc : (PredK.choices vs).call x = .ok (memL x vs) := by simp [PredK.call, hx]
    rw [holds_of_call _ _ _ hc]
    congr 1
    rw [any_congr_mem _ s vs (sortVals_mem vs s hs) (sortVals_mem' vs s hs)]
    simp only [memL]
    apply Bool.eq_iff_iff.2
    simp only [List.any_eq_true]
    constructor
    · rintro ⟨v, hv, hf⟩; exact ⟨v, hv, by rw [← (jsonEq_pyEq v x (h v hv)).2]; exact hf⟩
    · rintro ⟨v, hv, hf⟩; exact ⟨v, hv, by rw [(jsonEq_pyEq v x (h v hv)).2]; exact hf⟩


/-! #### `pattern`: StartsWith, EndsWith, RegexPredicate, NotBlank -/

theorem kw_pattern (ev : J → PyVal → Option Bool) (root : J) (ref : Option (List Nat)) (o' : JObj) (t s : List Nat) :
    evalKw ev root ref o' (kw "pattern") (.str t) (.str s) = patHolds t s := rfl

/-- `StartsWith(q)`: the escaped prefix pattern means "starts with `q`" — whatever characters `q` has -/
theorem PredOK_startsWith (pr : Printer) (root : J) (ref : Option (List Nat)) (q s : List Nat) :
    PredOK pr root ref (.startsWith (.str q)) (.str s) := by
  apply PredOK_of_sem
  intro po hpo ev o'
  simp only [predSchema, Except.ok.injEq] at hpo
  subst hpo
  rw [objEval_one ev root ref o' _ _ _ _ (by rw [kw_pattern]; exact patHolds_prefix q s),
    holds_of_call (.startsWith (.str q)) (.str s) (isPrefix q s) rfl]

/-- `EndsWith(q)` -/
theorem PredOK_endsWith (pr : Printer) (root : J) (ref : Option (List Nat)) (q s : List Nat) :
    PredOK pr root ref (.endsWith (.str q)) (.str s) := by
  apply PredOK_of_sem
  intro po hpo ev o'
  simp only [predSchema, Except.ok.injEq] at hpo
  subst hpo
  rw [objEval_one ev root ref o' _ _ _ _ (by rw [kw_pattern]; exact patHolds_suffix q s),
    holds_of_call (.endsWith (.str q)) (.str s) (isSuffix q s) rfl]

/-- `RegexPredicate(p)`, **partial** (finding D15): the schema *searches* for the pattern, the predicate
    *matches at the start*; they agree on `s` exactly when the hypothesis holds (e.g. for patterns that
    begin with `^` and do not end in `$`) -/
theorem PredOK_regex_partial (pr : Printer) (root : J) (ref : Option (List Nat)) (p : Pat) (s : List Nat)
    (hne : (p.source == notBlankText) = false) (hagree : p.search s = p.matchStart s) :
    PredOK pr root ref (.regex p) (.str s) := by
  apply PredOK_of_sem
  intro po hpo ev o'
  simp only [predSchema, Except.ok.injEq] at hpo
  subst hpo
  rw [objEval_one ev root ref o' _ _ _ _ (by rw [kw_pattern]; exact patHolds_user p s hne),
    holds_of_call (.regex p) (.str s) (p.matchStart s) rfl, hagree]

/-- D15 in the model: `a` on `"ba"` -/
example : (⟨false, [.lit 97], false⟩ : Pat).search [98, 97] = true ∧ (⟨false, [.lit 97], false⟩ : Pat).matchStart [98, 97] = false := by
  constructor
  · simp [Pat.search, matchEls, atEnd, List.range, List.range.loop]
  · simp [Pat.matchStart, matchEls]

/-- a pattern anchored at the start (and not at the end) is read alike by schema and predicate -/
theorem regex_agree_anchored (els : List PatEl) (s : List Nat) :
    (⟨true, els, false⟩ : Pat).search s = (⟨true, els, false⟩ : Pat).matchStart s := by
  simp [Pat.search, Pat.matchStart]

/-- `NotBlank`, **partial** (finding D13): the pattern `^(?!\s*$).+` versus `s.strip() != ""` -/
theorem PredOK_notBlank_partial (pr : Printer) (root : J) (ref : Option (List Nat)) (s : List Nat)
    (hagree : notBlankPattern s = !(stripWith isSpaceStr s).isEmpty) :
    PredOK pr root ref .notBlank (.str s) := by
  apply PredOK_of_sem
  intro po hpo ev o'
  simp only [predSchema, Except.ok.injEq] at hpo
  subst hpo
  have hp : patHolds (kw "^(?!\\s*$).+") s = some (notBlankPattern s) := by
    have : (kw "^(?!\\s*$).+" == notBlankText) = true := by decide
    simp [patHolds, this]
  rw [objEval_one ev root ref o' _ _ _ _ (by rw [kw_pattern]; exact hp),
    holds_of_call .notBlank (.str s) (!(stripWith isSpaceStr s).isEmpty) rfl, hagree]

/-- D13 in the model: `"\na"` is not blank, the pattern rejects it -/
example : notBlankPattern [10, 97] = false ∧ (!(stripWith isSpaceStr [10, 97]).isEmpty) = true := by decide

end Koda
