/-
  C01, termination.  `run` takes fuel because `Lazy` makes validator definitions cyclic; "the call
  returns" is therefore the statement that *some* amount of fuel suffices.  Two theorems:

  * `C01_terminates_lazyfree`: a tree without `Lazy` nodes returns on **every** value with fuel
    `height + 1` — every validator kind, any coercer, any predicate.
  * `C01_terminates_partial`: recursive definitions.  In an environment whose definitions are
    *guarded* (`gd false`: every `Lazy` occurs below a container position, where the child is applied to
    a component of the value; a container whose coercer is user-written must have `Lazy`-free
    children, because an arbitrary coercer can return something larger than its argument), every
    guarded tree returns on every value.  Well-founded recursion on
    (size of the value, "may a Lazy occur here", height of the tree).
    An unguarded self-reference (`env 0 = Lazy 0`, `env 0 = Union[Lazy 0, …]`) does not return for any
    fuel (`unguarded_diverges`); the real library then exhausts the interpreter stack — that is the
    excluded case, and the reason the theorem carries the name `_partial`.

  `C01_total_partial` combines this with `C01_never_raises_partial`: a `Safe`, guarded tree in a `Safe`,
  guarded environment returns Valid or Invalid on every value — and with every larger fuel the same.
-/
import KodaModel.Lemmas.Mono
import KodaModel.Properties.C01
import KodaModel.Properties.C03
import KodaModel.Properties.C04

namespace Koda

/-! ### loops return when their children return on the elements they are applied to -/

theorem loopItems_total (ev : Ev1) (hr : Bool) :
    ∀ (xs : List PyVal), (∀ x ∈ xs, ∃ r, ev x = some r) → ∀ i ne, ∃ r, loopItems ev hr xs i ne = some r := by
  intro xs
  induction xs with
  | nil => intro _ i ne; exact ⟨_, rfl⟩
  | cons x xs ih =>
    intro h i ne
    obtain ⟨⟨out, t⟩, hx⟩ := h x (by simp)
    have ih' := ih (fun z hz => h z (by simp [hz]))
    simp only [loopItems, hx]
    cases out with
    | raised e => exact ⟨_, rfl⟩
    | valid w =>
      simp only
      split
      · exact ⟨_, rfl⟩
      · obtain ⟨r, hr'⟩ := ih' (i + 1) ne
        (rw [hr']; exact ⟨_, rfl⟩)
    | invalid e =>
      obtain ⟨r, hr'⟩ := ih' (i + 1) false
      (simp only [hr']; exact ⟨_, rfl⟩)

theorem loopFields_total :
    ∀ (evs : List Ev1) (xs : List PyVal), (∀ ev ∈ evs, ∀ x ∈ xs, ∃ r, ev x = some r) →
      ∀ i, ∃ r, loopFields evs xs i = some r := by
  intro evs
  induction evs with
  | nil => intro xs _ i; (simp only [loopFields]; exact ⟨_, rfl⟩)
  | cons ev evs ih =>
    intro xs h i
    cases xs with
    | nil => (simp only [loopFields]; exact ⟨_, rfl⟩)
    | cons x xs =>
      obtain ⟨⟨out, t⟩, hx⟩ := h ev (by simp) x (by simp)
      obtain ⟨r, hr'⟩ := ih xs (fun e he z hz => h e (by simp [he]) z (by simp [hz])) (i + 1)
      simp only [loopFields, hx]
      cases out with
      | raised e => exact ⟨_, rfl⟩
      | valid w => (simp only [hr']; exact ⟨_, rfl⟩)
      | invalid e => (simp only [hr']; exact ⟨_, rfl⟩)

theorem mapLoop_total (evk evv : Ev1) :
    ∀ (kvs : List (PyVal × PyVal)),
      (∀ p ∈ kvs, (∃ r, evk p.1 = some r) ∧ (∃ r, evv p.2 = some r)) →
      ∀ acc, ∃ r, mapLoop evk evv kvs acc = some r := by
  intro kvs
  induction kvs with
  | nil => intro _ acc; exact ⟨_, rfl⟩
  | cons p kvs ih =>
    intro h acc
    obtain ⟨k, v⟩ := p
    obtain ⟨⟨⟨ko, tk⟩, hk⟩, ⟨⟨vo, tv⟩, hv⟩⟩ := h (k, v) (by simp)
    have ih' := ih (fun q hq => h q (by simp [hq]))
    simp only at hk hv
    cases ko with
    | raised e => (simp only [mapLoop, hk]; exact ⟨_, rfl⟩)
    | valid kw =>
      cases vo with
      | raised e => (simp only [mapLoop, hk, hv]; exact ⟨_, rfl⟩)
      | valid vw =>
        simp only [mapLoop, hk, hv]
        split
        · exact ⟨_, rfl⟩
        · obtain ⟨r, hr'⟩ := ih' (dictSet acc kw vw)
          (simp only [hr']; exact ⟨_, rfl⟩)
      | invalid e =>
        obtain ⟨r, hr'⟩ := ih' acc
        (simp only [mapLoop, hk, hv, hr']; exact ⟨_, rfl⟩)
    | invalid ke =>
      cases vo with
      | raised e => (simp only [mapLoop, hk, hv]; exact ⟨_, rfl⟩)
      | valid vw =>
        obtain ⟨r, hr'⟩ := ih' acc
        (simp only [mapLoop, hk, hv, hr']; exact ⟨_, rfl⟩)
      | invalid e =>
        obtain ⟨r, hr'⟩ := ih' acc
        (simp only [mapLoop, hk, hv, hr']; exact ⟨_, rfl⟩)

theorem dictGet_mem_pair : ∀ (data : List (PyVal × PyVal)) (k v : PyVal), dictGet data k = some v →
    ∃ k', (k', v) ∈ data := by
  intro data
  induction data with
  | nil => intro k v h; simp [dictGet] at h
  | cons p data ih =>
    intro k v h
    obtain ⟨k', v'⟩ := p
    simp only [dictGet] at h
    split at h
    · simp only [Option.some.injEq] at h; subst h; exact ⟨k', by simp⟩
    · obtain ⟨k'', hk⟩ := ih k v h
      exact ⟨k'', by simp [hk]⟩

theorem recLoop_total (vid : Nat) (dv : PyVal) (data : List (PyVal × PyVal)) :
    ∀ (evs : List Ev1), (∀ ev ∈ evs, ∀ p ∈ data, ∃ r, ev p.2 = some r) →
      ∀ ks reqs, ∃ r, recLoop vid dv data evs ks reqs = some r := by
  intro evs
  induction evs with
  | nil => intro _ ks reqs; (simp only [recLoop]; exact ⟨_, rfl⟩)
  | cons ev evs ih =>
    intro h ks reqs
    cases ks with
    | nil => (simp only [recLoop]; exact ⟨_, rfl⟩)
    | cons k ks =>
      cases reqs with
      | nil => (simp only [recLoop]; exact ⟨_, rfl⟩)
      | cons req reqs =>
        obtain ⟨r, hr'⟩ := ih (fun e he p hp => h e (by simp [he]) p hp) ks reqs
        simp only [recLoop]
        cases hg : dictGet data k with
        | none =>
          simp only [hr']
          split <;> exact ⟨_, rfl⟩
        | some xv =>
          obtain ⟨k', hk'⟩ := dictGet_mem_pair data k xv hg
          obtain ⟨⟨out, t⟩, hx⟩ := h ev (by simp) (k', xv) hk'
          simp only at hx
          simp only [hx]
          cases out with
          | raised e => exact ⟨_, rfl⟩
          | valid w => (simp only [hr']; exact ⟨_, rfl⟩)
          | invalid e => (simp only [hr']; exact ⟨_, rfl⟩)

theorem unionLoop_total (x : PyVal) :
    ∀ (evs : List Ev1), (∀ ev ∈ evs, ∃ r, ev x = some r) → ∃ r, unionLoop x evs = some r := by
  intro evs
  induction evs with
  | nil => intro _; exact ⟨_, rfl⟩
  | cons ev evs ih =>
    intro h
    obtain ⟨⟨out, t⟩, hx⟩ := h ev (by simp)
    obtain ⟨⟨w, es, t', r⟩, hr'⟩ := ih (fun e he => h e (by simp [he]))
    simp only [unionLoop, hx]
    cases out with
    | raised e => exact ⟨_, rfl⟩
    | valid w => exact ⟨_, rfl⟩
    | invalid e => (simp only [hr']; exact ⟨_, rfl⟩)

/-! ### steps -/

theorem seqStep_total (k : SeqKind) (o : Oracle) (m : Mode) (vid : Nat) (ps aps : List Pred)
    (c : Option CoerceK) (ev : Ev1) (x : PyVal)
    (h : ∀ y xs t, seqPre k o m vid ps aps c x = .inr (y, xs, t) → ∀ z ∈ xs, ∃ r, ev z = some r) :
    ∃ r, seqStep k o m vid ps aps c ev x = some r := by
  simp only [seqStep]
  cases hp : seqPre k o m vid ps aps c x with
  | inl r => exact ⟨_, rfl⟩
  | inr p =>
    obtain ⟨y, xs, t⟩ := p
    obtain ⟨r, hr'⟩ := loopItems_total ev (k == .set) xs (h y xs t hp) 0 true
    (simp only [hr']; exact ⟨_, rfl⟩)

theorem ntupleStep_total (o : Oracle) (vid : Nat) (oc : Option ObjCheck) (c : Option CoerceK) (lp : Nat)
    (evs : List Ev1) (x : PyVal)
    (h : ∀ y xs t, ntuplePre o vid c lp evs.length x = .inr (y, xs, t) →
      ∀ ev ∈ evs, ∀ z ∈ xs, ∃ r, ev z = some r) :
    ∃ r, ntupleStep o vid oc c lp evs x = some r := by
  simp only [ntupleStep]
  cases hp : ntuplePre o vid c lp evs.length x with
  | inl r => exact ⟨_, rfl⟩
  | inr p =>
    obtain ⟨y, xs, t⟩ := p
    obtain ⟨r, hr'⟩ := loopFields_total evs xs (h y xs t hp) 0
    (simp only [hr']; exact ⟨_, rfl⟩)

theorem mapStep_total (o : Oracle) (m : Mode) (vid : Nat) (ps aps : List Pred) (c : Option CoerceK)
    (evk evv : Ev1) (x : PyVal)
    (h : ∀ y kvs t, mapPre o m vid ps aps c x = .inr (y, kvs, t) →
      ∀ p ∈ kvs, (∃ r, evk p.1 = some r) ∧ (∃ r, evv p.2 = some r)) :
    ∃ r, mapStep o m vid ps aps c evk evv x = some r := by
  simp only [mapStep]
  cases hp : mapPre o m vid ps aps c x with
  | inl r => exact ⟨_, rfl⟩
  | inr p =>
    obtain ⟨y, kvs, t⟩ := p
    obtain ⟨r, hr'⟩ := mapLoop_total evk evv kvs (h y kvs t hp) []
    (simp only [hr']; exact ⟨_, rfl⟩)

theorem recordStep_total (o : Oracle) (m : Mode) (vid : Nat) (cfg : RecCfg) (evs : List Ev1) (x : PyVal)
    (h : ∀ y data t, recPre o m vid cfg x = .inr (y, data, t) →
      ∀ ev ∈ evs, ∀ p ∈ data, ∃ r, ev p.2 = some r) :
    ∃ r, recordStep o m vid cfg evs x = some r := by
  simp only [recordStep]
  cases hp : recPre o m vid cfg x with
  | inl r => exact ⟨_, rfl⟩
  | inr p =>
    obtain ⟨y, data, t⟩ := p
    obtain ⟨r, hr'⟩ := recLoop_total vid y data evs (h y data t hp) cfg.keys cfg.reqs
    (simp only [hr']; exact ⟨_, rfl⟩)

theorem unionStep_total (vid : Nat) (evs : List Ev1) (x : PyVal) (h : ∀ ev ∈ evs, ∃ r, ev x = some r) :
    ∃ r, unionStep vid evs x = some r := by
  obtain ⟨⟨w, es, t, r⟩, hr'⟩ := unionLoop_total x evs h
  simp only [unionStep, hr']
  cases r with
  | some e => exact ⟨_, rfl⟩
  | none => cases w <;> exact ⟨_, rfl⟩

theorem maybeStep_total (vid : Nat) (ev : Ev1) (x : PyVal)
    (h : ∀ oid v, x = .just oid v → ∃ r, ev v = some r) : ∃ r, maybeStep vid ev x = some r := by
  cases x with
  | just oid v =>
    obtain ⟨⟨out, t⟩, hx⟩ := h oid v rfl
    simp only [maybeStep, hx]
    cases out <;> exact ⟨_, rfl⟩
  | nothing => exact ⟨_, rfl⟩
  | _ => exact ⟨_, rfl⟩

theorem knrStep_total (ev : Ev1) (x : PyVal) (h : ∃ r, ev x = some r) : ∃ r, knrStep ev x = some r := by
  obtain ⟨⟨out, t⟩, hx⟩ := h
  simp only [knrStep, hx]
  cases out <;> exact ⟨_, rfl⟩

theorem userStep_total (vid : Nat) (m : Mode) (ev : Ev1) (x : PyVal) (h : ∃ r, ev x = some r) :
    ∃ r, userStep vid m ev x = some r := by
  obtain ⟨⟨out, t⟩, hx⟩ := h
  (simp only [userStep, hx]; exact ⟨_, rfl⟩)

/-! ### height, Lazy-freeness -/

mutual
def V.height : V → Nat
  | .list _ item .. => item.height + 1
  | .set _ item .. => item.height + 1
  | .utuple _ item .. => item.height + 1
  | .ntuple _ fs .. => V.heightL fs + 1
  | .map _ kv vv .. => max kv.height vv.height + 1
  | .record _ _ vs => V.heightL vs + 1
  | .union _ vs => V.heightL vs + 1
  | .optional _ nv inner => max nv.height inner.height + 1
  | .maybe _ inner => inner.height + 1
  | .knr _ inner => inner.height + 1
  | .user _ inner => inner.height + 1
  | _ => 0
termination_by structural v => v
def V.heightL : List V → Nat
  | [] => 0
  | v :: vs => max v.height (V.heightL vs)
termination_by structural vs => vs
end

theorem V.height_mem : ∀ (vs : List V) (v : V), v ∈ vs → v.height ≤ V.heightL vs
  | [], _, h => by simp at h
  | w :: ws, v, h => by
    simp only [List.mem_cons] at h
    simp only [V.heightL]
    rcases h with rfl | h
    · exact Nat.le_max_left _ _
    · exact Nat.le_trans (V.height_mem ws v h) (Nat.le_max_right _ _)

mutual
def lazyFree : V → Bool
  | .lazy .. => false
  | .list _ item .. => lazyFree item
  | .set _ item .. => lazyFree item
  | .utuple _ item .. => lazyFree item
  | .ntuple _ fs .. => lazyFreeL fs
  | .map _ kv vv .. => lazyFree kv && lazyFree vv
  | .record _ _ vs => lazyFreeL vs
  | .union _ vs => lazyFreeL vs
  | .optional _ nv inner => lazyFree nv && lazyFree inner
  | .maybe _ inner => lazyFree inner
  | .knr _ inner => lazyFree inner
  | .user _ inner => lazyFree inner
  | _ => true
termination_by structural v => v
def lazyFreeL : List V → Bool
  | [] => true
  | v :: vs => lazyFree v && lazyFreeL vs
termination_by structural vs => vs
end

theorem lazyFreeL_mem : ∀ (vs : List V), lazyFreeL vs = true → ∀ v ∈ vs, lazyFree v = true
  | [], _, _, h => by simp at h
  | w :: ws, h, v, hv => by
    simp only [lazyFreeL, Bool.and_eq_true] at h
    simp only [List.mem_cons] at hv
    rcases hv with rfl | hv
    · exact h.1
    · exact lazyFreeL_mem ws h.2 v hv

/-- **termination without `Lazy`**: fuel `height + 1` suffices, for every value -/
theorem C01_terminates_lazyfree (o : Oracle) (env : Nat → V) (m : Mode) :
    ∀ n v, lazyFree v = true → v.height < n → ∀ x, ∃ r, run o env m n v x = some r := by
  intro n
  induction n with
  | zero => intro v _ h; omega
  | succ n ih =>
    intro v hf hh x
    cases v with
    | scalar vid tg c pre ps aps => exact ⟨_, rfl⟩
    | equals vid mt pre pid => exact ⟨_, rfl⟩
    | noneV vid c => exact ⟨_, rfl⟩
    | always vid => exact ⟨_, rfl⟩
    | isDict vid => exact ⟨_, rfl⟩
    | list vid item ps aps c =>
      simp only [lazyFree] at hf; simp only [V.height] at hh
      exact seqStep_total _ _ _ _ _ _ _ _ _ (fun _ _ _ _ z _ => ih item hf (by omega) z)
    | set vid item ps aps c =>
      simp only [lazyFree] at hf; simp only [V.height] at hh
      exact seqStep_total _ _ _ _ _ _ _ _ _ (fun _ _ _ _ z _ => ih item hf (by omega) z)
    | utuple vid item ps aps c =>
      simp only [lazyFree] at hf; simp only [V.height] at hh
      exact seqStep_total _ _ _ _ _ _ _ _ _ (fun _ _ _ _ z _ => ih item hf (by omega) z)
    | ntuple vid fs oc c lp =>
      simp only [lazyFree] at hf; simp only [V.height] at hh
      refine ntupleStep_total _ _ _ _ _ _ _ (fun _ _ _ _ ev hev z _ => ?_)
      obtain ⟨w, hw, rfl⟩ := List.mem_map.mp hev
      exact ih w (lazyFreeL_mem fs hf w hw) (by have := V.height_mem fs w hw; omega) z
    | map vid kv vv ps aps c =>
      simp only [lazyFree, Bool.and_eq_true] at hf; simp only [V.height] at hh
      exact mapStep_total _ _ _ _ _ _ _ _ _ (fun _ _ _ _ p _ =>
        ⟨ih kv hf.1 (by omega) p.1, ih vv hf.2 (by omega) p.2⟩)
    | record vid cfg vs =>
      simp only [lazyFree] at hf; simp only [V.height] at hh
      refine recordStep_total _ _ _ _ _ _ (fun _ _ _ _ ev hev p _ => ?_)
      obtain ⟨w, hw, rfl⟩ := List.mem_map.mp hev
      exact ih w (lazyFreeL_mem vs hf w hw) (by have := V.height_mem vs w hw; omega) p.2
    | union vid vs =>
      simp only [lazyFree] at hf; simp only [V.height] at hh
      refine unionStep_total _ _ _ (fun ev hev => ?_)
      obtain ⟨w, hw, rfl⟩ := List.mem_map.mp hev
      exact ih w (lazyFreeL_mem vs hf w hw) (by have := V.height_mem vs w hw; omega) x
    | optional vid nv inner =>
      simp only [lazyFree, Bool.and_eq_true] at hf; simp only [V.height] at hh
      refine unionStep_total _ _ _ (fun ev hev => ?_)
      simp only [List.mem_cons, List.not_mem_nil, or_false] at hev
      rcases hev with rfl | rfl
      · exact ih nv hf.1 (by omega) x
      · exact ih inner hf.2 (by omega) x
    | maybe vid inner =>
      simp only [lazyFree] at hf; simp only [V.height] at hh
      exact maybeStep_total _ _ _ (fun _ v _ => ih inner hf (by omega) v)
    | «lazy» vid ref => simp [lazyFree] at hf
    | knr vid inner =>
      simp only [lazyFree] at hf; simp only [V.height] at hh
      exact knrStep_total _ _ (ih inner hf (by omega) x)
    | user vid inner =>
      simp only [lazyFree] at hf; simp only [V.height] at hh
      exact userStep_total _ _ _ _ (ih inner hf (by omega) x)

/-! ### recursive definitions: guardedness -/

/-- coercers of sequence / map validators that hand the elements on unchanged: none, or the default -/
def tameSeq : Option CoerceK → Bool
  | none => true
  | some .dflt => true
  | _ => false

/-- coercers of record-shaped validators that are not user-written -/
def tameRec : Option CoerceK → Bool
  | some (.user ..) => false
  | _ => true

mutual
/-- `gd b v`: every `Lazy` in `v` occurs below a container position (or `b` allows one here) -/
def gd (b : Bool) : V → Bool
  | .lazy .. => b
  | .list _ item _ _ c => if tameSeq c then gd true item else lazyFree item
  | .set _ item _ _ c => if tameSeq c then gd true item else lazyFree item
  | .utuple _ item _ _ c => if tameSeq c then gd true item else lazyFree item
  | .ntuple _ fs _ c _ => if tameSeq c then gdL true fs else lazyFreeL fs
  | .map _ kv vv _ _ c => if tameSeq c then gd true kv && gd true vv else lazyFree kv && lazyFree vv
  | .record _ cfg vs => if tameRec cfg.coerce then gdL true vs else lazyFreeL vs
  | .union _ vs => gdL b vs
  | .optional _ nv inner => gd b nv && gd b inner
  | .maybe _ inner => gd true inner
  | .knr _ inner => gd b inner
  | .user _ inner => gd b inner
  | _ => true
termination_by structural v => v
def gdL (b : Bool) : List V → Bool
  | [] => true
  | v :: vs => gd b v && gdL b vs
termination_by structural vs => vs
end

theorem gdL_mem (b : Bool) : ∀ (vs : List V), gdL b vs = true → ∀ v ∈ vs, gd b v = true
  | [], _, _, h => by simp at h
  | w :: ws, h, v, hv => by
    simp only [gdL, Bool.and_eq_true] at h
    simp only [List.mem_cons] at hv
    rcases hv with rfl | hv
    · exact h.1
    · exact gdL_mem b ws h.2 v hv

/-! ### components are smaller than the value they come from -/

theorem pyIter_lt : ∀ (x : PyVal) (xs : List PyVal), pyIter x = some xs → ∀ z ∈ xs, sizeOf z < sizeOf x
  | .list _ l, xs, h, z, hz => by
    simp only [pyIter, Option.some.injEq] at h; subst h
    have := List.sizeOf_lt_of_mem hz; simp only [PyVal.list.sizeOf_spec]; omega
  | .tuple _ l, xs, h, z, hz => by
    simp only [pyIter, Option.some.injEq] at h; subst h
    have := List.sizeOf_lt_of_mem hz; simp only [PyVal.tuple.sizeOf_spec]; omega
  | .set _ l, xs, h, z, hz => by
    simp only [pyIter, Option.some.injEq] at h; subst h
    have := List.sizeOf_lt_of_mem hz; simp only [PyVal.set.sizeOf_spec]; omega
  | .dict _ kvs, xs, h, z, hz => by
    simp only [pyIter, Option.some.injEq] at h; subst h
    obtain ⟨p, hp, rfl⟩ := List.mem_map.mp hz
    have := List.sizeOf_lt_of_mem hp
    have h2 : sizeOf p = 1 + sizeOf p.1 + sizeOf p.2 := by cases p; simp
    simp only [PyVal.dict.sizeOf_spec]; omega
  | .sub c v, xs, h, z, hz => by
    have := pyIter_lt v xs (by simpa [pyIter] using h) z hz
    simp only [PyVal.sub.sizeOf_spec]; omega
  | .none, _, h, _, _ => by simp [pyIter] at h
  | .bool _, _, h, _, _ => by simp [pyIter] at h
  | .int _, _, h, _, _ => by simp [pyIter] at h
  | .float _, _, h, _, _ => by simp [pyIter] at h
  | .str _, _, h, _, _ => by simp [pyIter] at h
  | .bytes _, _, h, _, _ => by simp [pyIter] at h
  | .decimal _, _, h, _, _ => by simp [pyIter] at h
  | .uuid _, _, h, _, _ => by simp [pyIter] at h
  | .date _, _, h, _, _ => by simp [pyIter] at h
  | .datetime _ _, _, h, _, _ => by simp [pyIter] at h
  | .just _ _, _, h, _, _ => by simp [pyIter] at h
  | .nothing, _, h, _, _ => by simp [pyIter] at h
  | .inst .., _, h, _, _ => by simp [pyIter] at h

theorem dictItems_lt : ∀ (x : PyVal) (kvs : List (PyVal × PyVal)), dictItems x = some kvs →
    ∀ p ∈ kvs, sizeOf p.1 < sizeOf x ∧ sizeOf p.2 < sizeOf x
  | .dict _ l, kvs, h, p, hp => by
    simp only [dictItems, Option.some.injEq] at h; subst h
    have := List.sizeOf_lt_of_mem hp
    have h2 : sizeOf p = 1 + sizeOf p.1 + sizeOf p.2 := by cases p; simp
    simp only [PyVal.dict.sizeOf_spec]; omega
  | .sub c v, kvs, h, p, hp => by
    have := dictItems_lt v kvs (by simpa [dictItems] using h) p hp
    simp only [PyVal.sub.sizeOf_spec]; omega
  | .none, _, h, _, _ => by simp [dictItems] at h
  | .bool _, _, h, _, _ => by simp [dictItems] at h
  | .int _, _, h, _, _ => by simp [dictItems] at h
  | .float _, _, h, _, _ => by simp [dictItems] at h
  | .str _, _, h, _, _ => by simp [dictItems] at h
  | .bytes _, _, h, _, _ => by simp [dictItems] at h
  | .decimal _, _, h, _, _ => by simp [dictItems] at h
  | .uuid _, _, h, _, _ => by simp [dictItems] at h
  | .date _, _, h, _, _ => by simp [dictItems] at h
  | .datetime _ _, _, h, _, _ => by simp [dictItems] at h
  | .list _ _, _, h, _, _ => by simp [dictItems] at h
  | .tuple _ _, _, h, _, _ => by simp [dictItems] at h
  | .set _ _, _, h, _, _ => by simp [dictItems] at h
  | .just _ _, _, h, _, _ => by simp [dictItems] at h
  | .nothing, _, h, _, _ => by simp [dictItems] at h
  | .inst .., _, h, _, _ => by simp [dictItems] at h

/-- a tame sequence gate hands on the value itself, or the tuple made of a list's elements -/
theorem gate_tameSeq (o : Oracle) (tg dest : Ty) (c : Option CoerceK) (hc : tameSeq c = true)
    (htg : tg = .list ∨ tg = .set ∨ tg = .tuple ∨ tg = .dict) (x y : PyVal) (t : List Ev)
    (h : gate o tg dest c x = .acc y t) :
    y = x ∨ ∃ oid xs, x = .list oid xs ∧ y = .tuple 0 xs := by
  cases c with
  | none =>
    simp only [gate] at h
    split at h
    · simp only [Gate.acc.injEq] at h; exact .inl h.1.symm
    · simp at h
  | some ck =>
    cases ck with
    | dflt =>
      simp only [gate, applyCoerce] at h
      split at h
      · rename_i y' hd
        simp only [Gate.acc.injEq] at h
        obtain ⟨rfl, _⟩ := h
        rcases htg with rfl | rfl | rfl | rfl
        · simp [defaultCoerce] at hd
        · simp [defaultCoerce] at hd
        · simp only [defaultCoerce] at hd
          split at hd
          · simp only [Option.some.injEq] at hd; exact .inl hd.symm
          · simp only [Option.some.injEq] at hd; exact .inr ⟨_, _, rfl, hd.symm⟩
          · simp at hd
        · simp [defaultCoerce] at hd
      · simp at h
    | classOnly => simp [tameSeq] at hc
    | user cid compat f => simp [tameSeq] at hc

theorem gate_tameSeq_iter (o : Oracle) (tg dest : Ty) (c : Option CoerceK) (hc : tameSeq c = true)
    (htg : tg = .list ∨ tg = .set ∨ tg = .tuple ∨ tg = .dict) (x y : PyVal) (t : List Ev)
    (h : gate o tg dest c x = .acc y t) (xs : List PyVal) (hi : pyIter y = some xs) :
    ∀ z ∈ xs, sizeOf z < sizeOf x := by
  rcases gate_tameSeq o tg dest c hc htg x y t h with rfl | ⟨oid, l, rfl, rfl⟩
  · exact pyIter_lt _ _ hi
  · simp only [pyIter, Option.some.injEq] at hi; subst hi
    exact pyIter_lt (.list oid l) l rfl

theorem seqPre_small (k : SeqKind) (o : Oracle) (m : Mode) (vid : Nat) (ps aps : List Pred)
    (c : Option CoerceK) (hc : tameSeq c = true) (x y : PyVal) (xs : List PyVal) (t : List Ev)
    (h : seqPre k o m vid ps aps c x = .inr (y, xs, t)) : ∀ z ∈ xs, sizeOf z < sizeOf x := by
  obtain ⟨_, t0, t1, hg, _, hi, _⟩ := (C03_pre_iff k o m vid ps aps c x y xs t).mp h
  refine gate_tameSeq_iter o _ _ c hc ?_ x y t0 hg xs hi
  cases k <;> simp [SeqKind.gateTy]

theorem ntuplePre_small (o : Oracle) (vid : Nat) (c : Option CoerceK) (hc : tameSeq c = true) (lp arity : Nat)
    (x y : PyVal) (xs : List PyVal) (t : List Ev)
    (h : ntuplePre o vid c lp arity x = .inr (y, xs, t)) : ∀ z ∈ xs, sizeOf z < sizeOf x := by
  obtain ⟨hg, _, hi⟩ := (C03_ntuple_pre_iff o vid c lp arity x y xs t).mp h
  exact gate_tameSeq_iter o _ _ c hc (by simp) x y t hg xs hi

theorem mapPre_gate (o : Oracle) (m : Mode) (vid : Nat) (ps aps : List Pred) (c : Option CoerceK)
    (x y : PyVal) (kvs : List (PyVal × PyVal)) (t : List Ev)
    (h : mapPre o m vid ps aps c x = .inr (y, kvs, t)) :
    ∃ t0, gate o .dict .dict c x = .acc y t0 ∧ dictItems y = some kvs := by
  simp only [mapPre] at h
  split at h
  · simp at h
  · split at h
    · simp at h
    · simp at h
    · rename_i y' t0 hg
      split at h
      · simp at h
      · split at h
        · simp at h
        · split at h
          · simp at h
          · rename_i kvs' hd
            simp only [Sum.inr.injEq, Prod.mk.injEq] at h
            obtain ⟨rfl, rfl, _⟩ := h
            exact ⟨t0, hg, hd⟩

theorem mapPre_small (o : Oracle) (m : Mode) (vid : Nat) (ps aps : List Pred) (c : Option CoerceK)
    (hc : tameSeq c = true) (x y : PyVal) (kvs : List (PyVal × PyVal)) (t : List Ev)
    (h : mapPre o m vid ps aps c x = .inr (y, kvs, t)) :
    ∀ p ∈ kvs, sizeOf p.1 < sizeOf x ∧ sizeOf p.2 < sizeOf x := by
  obtain ⟨t0, hg, hd⟩ := mapPre_gate o m vid ps aps c x y kvs t h
  rcases gate_tameSeq o _ _ c hc (by simp) x y t0 hg with rfl | ⟨oid, l, rfl, rfl⟩
  · exact dictItems_lt _ _ hd
  · simp [dictItems] at hd

theorem instDict_small (oid doid doid' : Nat) (c : ClassId) (names : List String) (vals : List PyVal)
    (data : List (PyVal × PyVal)) (h : dictItems (instDict doid' names vals) = some data) :
    ∀ p ∈ data, sizeOf p.2 < sizeOf (PyVal.inst oid doid c names vals) := by
  simp only [instDict, dictItems, Option.some.injEq] at h
  subst h
  intro p hp
  obtain ⟨k, v⟩ := p
  have hv : v ∈ vals := (List.of_mem_zip hp).2
  have := List.sizeOf_lt_of_mem hv
  simp only [PyVal.inst.sizeOf_spec]; omega

/-- a record gate with a non-user coercer hands on the value itself or the instance's `__dict__` -/
theorem recGate_tame (o : Oracle) (cfg : RecCfg) (hc : tameRec cfg.coerce = true) (x y : PyVal) (t : List Ev)
    (h : recGate o cfg x = .acc y t) :
    y = x ∨ ∃ oid doid doid' c names vals, x = .inst oid doid c names vals ∧ y = instDict doid' names vals := by
  have hco : ∀ (ck : CoerceK), cfg.coerce = some ck → applyCoerce o .dict .dict cfg.cls ck x = .acc y t →
      y = x ∨ ∃ oid doid doid' c names vals, x = .inst oid doid c names vals ∧ y = instDict doid' names vals := by
    intro ck hck ha
    cases ck with
    | dflt =>
      simp only [applyCoerce, defaultCoerce] at ha
      simp at ha
    | classOnly =>
      simp only [applyCoerce] at ha
      split at ha
      · rename_i oid doid c' names vals
        split at ha
        · split at ha
          · simp only [Gate.acc.injEq] at ha; exact .inr ⟨_, _, _, _, _, _, rfl, ha.1.symm⟩
          · simp only [Gate.acc.injEq] at ha; exact .inr ⟨_, _, _, _, _, _, rfl, ha.1.symm⟩
        · simp at ha
      · simp at ha
    | user cid compat f => rw [hck] at hc; simp [tameRec] at hc
  have hplain : ∀ {p : Prop} [Decidable p], (if p then Gate.acc x [] else Gate.rej (.type .dict) []) = .acc y t → y = x := by
    intro p _ hh
    split at hh
    · simp only [Gate.acc.injEq] at hh; exact hh.1.symm
    · simp at hh
  simp only [recGate] at h
  split at h
  · exact .inl (hplain h)
  · exact .inl (hplain h)
  · split at h
    · rename_i ck hck; exact hco ck hck h
    · exact .inl (hplain h)
  · split at h
    · rename_i ck hck; exact hco ck hck h
    · split at h
      · simp only [Gate.acc.injEq] at h; exact .inl h.1.symm
      · split at h
        · rename_i oid doid c' names vals
          split at h
          · split at h
            · simp only [Gate.acc.injEq] at h; exact .inr ⟨_, _, _, _, _, _, rfl, h.1.symm⟩
            · simp only [Gate.acc.injEq] at h; exact .inr ⟨_, _, _, _, _, _, rfl, h.1.symm⟩
          · simp at h
        · simp at h

theorem recPre_small (o : Oracle) (m : Mode) (vid : Nat) (cfg : RecCfg) (hc : tameRec cfg.coerce = true)
    (x y : PyVal) (data : List (PyVal × PyVal)) (t : List Ev)
    (h : recPre o m vid cfg x = .inr (y, data, t)) : ∀ p ∈ data, sizeOf p.2 < sizeOf x := by
  obtain ⟨_, hg, hd, _⟩ := (C04_pre_iff o m vid cfg x y data t).mp h
  rcases recGate_tame o cfg hc x y t hg with rfl | ⟨oid, doid, doid', c, names, vals, rfl, rfl⟩
  · exact fun p hp => (dictItems_lt _ _ hd p hp).2
  · exact instDict_small oid doid doid' c names vals data hd

/-! ### finitely many terminating runs have a common fuel -/

theorem common_fuel_pairs (o : Oracle) (env : Nat → V) (m : Mode) :
    ∀ (l : List (V × PyVal)), (∀ p ∈ l, ∃ n r, run o env m n p.1 p.2 = some r) →
      ∃ N, ∀ p ∈ l, ∃ r, run o env m N p.1 p.2 = some r := by
  intro l
  induction l with
  | nil => intro _; exact ⟨0, by simp⟩
  | cons p l ih =>
    intro h
    obtain ⟨N, hN⟩ := ih (fun q hq => h q (by simp [hq]))
    obtain ⟨n, r, hn⟩ := h p (by simp)
    refine ⟨max N n, ?_⟩
    intro q hq
    simp only [List.mem_cons] at hq
    rcases hq with rfl | hq
    · exact ⟨r, run_mono_le _ _ _ (Nat.le_max_right N n) _ _ _ hn⟩
    · obtain ⟨r', hr'⟩ := hN q hq
      exact ⟨r', run_mono_le _ _ _ (Nat.le_max_left N n) _ _ _ hr'⟩

theorem common_fuel2 (o : Oracle) (env : Nat → V) (m : Mode) (vs : List V) (zs : List PyVal)
    (h : ∀ v ∈ vs, ∀ z ∈ zs, ∃ n r, run o env m n v z = some r) :
    ∃ N, ∀ v ∈ vs, ∀ z ∈ zs, ∃ r, run o env m N v z = some r := by
  obtain ⟨N, hN⟩ := common_fuel_pairs o env m (vs.flatMap (fun v => zs.map (fun z => (v, z)))) (by
    intro p hp
    obtain ⟨v, hv, hp⟩ := List.mem_flatMap.mp hp
    obtain ⟨z, hz, rfl⟩ := List.mem_map.mp hp
    exact h v hv z hz)
  exact ⟨N, fun v hv z hz => hN (v, z) (List.mem_flatMap.mpr ⟨v, hv, List.mem_map.mpr ⟨z, hz, rfl⟩⟩)⟩

/-! ### the theorem -/

/-- validation of `x` by `v` returns -/
def Term (o : Oracle) (env : Nat → V) (m : Mode) (v : V) (x : PyVal) : Prop :=
  ∃ n r, run o env m n v x = some r

theorem Term.of_lazyFree (o : Oracle) (env : Nat → V) (m : Mode) (v : V) (h : lazyFree v = true) (x : PyVal) :
    Term o env m v x := by
  obtain ⟨r, hr⟩ := C01_terminates_lazyfree o env m (v.height + 1) v h (Nat.lt_succ_self _) x
  exact ⟨_, r, hr⟩

theorem seq_term (k : SeqKind) (o : Oracle) (env : Nat → V) (m : Mode) (vid : Nat) (item : V)
    (ps aps : List Pred) (c : Option CoerceK) (x : PyVal) (con : V)
    (hrun : ∀ n, run o env m (n + 1) con x = seqStep k o m vid ps aps c (run o env m n item) x)
    (h : ∀ y xs t, seqPre k o m vid ps aps c x = .inr (y, xs, t) → ∀ z ∈ xs, Term o env m item z) :
    Term o env m con x := by
  cases hp : seqPre k o m vid ps aps c x with
  | inl r => exact ⟨1, r, by rw [hrun]; simp only [seqStep, hp]⟩
  | inr p =>
    obtain ⟨y, xs, t⟩ := p
    obtain ⟨N, hN⟩ := common_fuel2 o env m [item] xs (fun v hv z hz => by
      simp only [List.mem_cons, List.not_mem_nil, or_false] at hv; subst hv; exact h y xs t hp z hz)
    obtain ⟨r, hr⟩ := seqStep_total k o m vid ps aps c (run o env m N item) x (fun y' xs' t' hp' z hz => by
      rw [hp] at hp'
      simp only [Sum.inr.injEq, Prod.mk.injEq] at hp'
      obtain ⟨_, rfl, _⟩ := hp'
      exact hN item (by simp) z hz)
    exact ⟨N + 1, r, by rw [hrun]; exact hr⟩

theorem ntuple_term (o : Oracle) (env : Nat → V) (m : Mode) (vid : Nat) (fs : List V) (oc : Option ObjCheck)
    (c : Option CoerceK) (lp : Nat) (x : PyVal)
    (h : ∀ y xs t, ntuplePre o vid c lp fs.length x = .inr (y, xs, t) → ∀ v ∈ fs, ∀ z ∈ xs, Term o env m v z) :
    Term o env m (.ntuple vid fs oc c lp) x := by
  cases hp : ntuplePre o vid c lp fs.length x with
  | inl r => exact ⟨1, r, by simp only [run, ntupleStep, List.length_map, hp]⟩
  | inr p =>
    obtain ⟨y, xs, t⟩ := p
    obtain ⟨N, hN⟩ := common_fuel2 o env m fs xs (h y xs t hp)
    obtain ⟨r, hr⟩ := ntupleStep_total o vid oc c lp (fs.map (run o env m N)) x (fun y' xs' t' hp' ev hev z hz => by
      rw [List.length_map, hp] at hp'
      simp only [Sum.inr.injEq, Prod.mk.injEq] at hp'
      obtain ⟨_, rfl, _⟩ := hp'
      obtain ⟨w, hw, rfl⟩ := List.mem_map.mp hev
      exact hN w hw z hz)
    exact ⟨N + 1, r, hr⟩

theorem map_term (o : Oracle) (env : Nat → V) (m : Mode) (vid : Nat) (kv vv : V) (ps aps : List Pred)
    (c : Option CoerceK) (x : PyVal)
    (h : ∀ y kvs t, mapPre o m vid ps aps c x = .inr (y, kvs, t) →
      ∀ p ∈ kvs, ∀ v, (v = kv ∨ v = vv) → Term o env m v p.1 ∧ Term o env m v p.2) :
    Term o env m (.map vid kv vv ps aps c) x := by
  cases hp : mapPre o m vid ps aps c x with
  | inl r => exact ⟨1, r, by simp only [run, mapStep, hp]⟩
  | inr p =>
    obtain ⟨y, kvs, t⟩ := p
    obtain ⟨N, hN⟩ := common_fuel2 o env m [kv, vv] (kvs.map Prod.fst ++ kvs.map Prod.snd) (fun v hv z hz => by
      simp only [List.mem_cons, List.not_mem_nil, or_false] at hv
      simp only [List.mem_append, List.mem_map] at hz
      rcases hz with ⟨p, hp', rfl⟩ | ⟨p, hp', rfl⟩
      · exact (h y kvs t hp p hp' v hv).1
      · exact (h y kvs t hp p hp' v hv).2)
    obtain ⟨r, hr⟩ := mapStep_total o m vid ps aps c (run o env m N kv) (run o env m N vv) x (fun y' kvs' t' hp' p hpm => by
      rw [hp] at hp'
      simp only [Sum.inr.injEq, Prod.mk.injEq] at hp'
      obtain ⟨_, rfl, _⟩ := hp'
      exact ⟨hN kv (by simp) p.1 (by simp only [List.mem_append, List.mem_map]; exact .inl ⟨p, hpm, rfl⟩),
        hN vv (by simp) p.2 (by simp only [List.mem_append, List.mem_map]; exact .inr ⟨p, hpm, rfl⟩)⟩)
    exact ⟨N + 1, r, hr⟩

theorem record_term (o : Oracle) (env : Nat → V) (m : Mode) (vid : Nat) (cfg : RecCfg) (vs : List V) (x : PyVal)
    (h : ∀ y data t, recPre o m vid cfg x = .inr (y, data, t) → ∀ v ∈ vs, ∀ p ∈ data, Term o env m v p.2) :
    Term o env m (.record vid cfg vs) x := by
  cases hp : recPre o m vid cfg x with
  | inl r => exact ⟨1, r, by simp only [run, recordStep, hp]⟩
  | inr p =>
    obtain ⟨y, data, t⟩ := p
    obtain ⟨N, hN⟩ := common_fuel2 o env m vs (data.map Prod.snd) (fun v hv z hz => by
      obtain ⟨p, hp', rfl⟩ := List.mem_map.mp hz
      exact h y data t hp v hv p hp')
    obtain ⟨r, hr⟩ := recordStep_total o m vid cfg (vs.map (run o env m N)) x (fun y' data' t' hp' ev hev p hpm => by
      rw [hp] at hp'
      simp only [Sum.inr.injEq, Prod.mk.injEq] at hp'
      obtain ⟨_, rfl, _⟩ := hp'
      obtain ⟨w, hw, rfl⟩ := List.mem_map.mp hev
      exact hN w hw p.2 (List.mem_map.mpr ⟨p, hpm, rfl⟩))
    exact ⟨N + 1, r, hr⟩

theorem union_term (o : Oracle) (env : Nat → V) (m : Mode) (vid : Nat) (vs : List V) (x : PyVal) (con : V)
    (hrun : ∀ n, run o env m (n + 1) con x = unionStep vid (vs.map (run o env m n)) x)
    (h : ∀ v ∈ vs, Term o env m v x) : Term o env m con x := by
  obtain ⟨N, hN⟩ := common_fuel2 o env m vs [x] (fun v hv z hz => by
    simp only [List.mem_cons, List.not_mem_nil, or_false] at hz; subst hz; exact h v hv)
  obtain ⟨r, hr⟩ := unionStep_total vid (vs.map (run o env m N)) x (fun ev hev => by
    obtain ⟨w, hw, rfl⟩ := List.mem_map.mp hev
    exact hN w hw x (by simp))
  exact ⟨N + 1, r, by rw [hrun]; exact hr⟩

/-- **termination of guarded (recursive) definitions** -/
theorem term_guarded (o : Oracle) (env : Nat → V) (m : Mode) (henv : ∀ ref, gd false (env ref) = true) :
    ∀ (x : PyVal) (b : Bool) (v : V), gd b v = true → Term o env m v x
  | x, b, .scalar vid tg c pre ps aps, hg => by exact ⟨1, _, rfl⟩
  | x, b, .equals vid mt pre pid, hg => by exact ⟨1, _, rfl⟩
  | x, b, .noneV vid c, hg => by exact ⟨1, _, rfl⟩
  | x, b, .always vid, hg => by exact ⟨1, _, rfl⟩
  | x, b, .isDict vid, hg => by exact ⟨1, _, rfl⟩
  | x, b, .list vid item ps aps c, hg => by
      simp only [gd] at hg
      refine seq_term .list o env m vid item ps aps c x _ (fun _ => rfl) (fun y xs t hp z hz => ?_)
      split at hg
      · rename_i hc
        have hlt : sizeOf z < sizeOf x := seqPre_small _ o m vid ps aps c hc x y xs t hp z hz
        exact term_guarded o env m henv z true item hg
      · exact Term.of_lazyFree o env m item hg z
  | x, b, .set vid item ps aps c, hg => by
      simp only [gd] at hg
      refine seq_term .set o env m vid item ps aps c x _ (fun _ => rfl) (fun y xs t hp z hz => ?_)
      split at hg
      · rename_i hc
        have hlt : sizeOf z < sizeOf x := seqPre_small _ o m vid ps aps c hc x y xs t hp z hz
        exact term_guarded o env m henv z true item hg
      · exact Term.of_lazyFree o env m item hg z
  | x, b, .utuple vid item ps aps c, hg => by
      simp only [gd] at hg
      refine seq_term .utuple o env m vid item ps aps c x _ (fun _ => rfl) (fun y xs t hp z hz => ?_)
      split at hg
      · rename_i hc
        have hlt : sizeOf z < sizeOf x := seqPre_small _ o m vid ps aps c hc x y xs t hp z hz
        exact term_guarded o env m henv z true item hg
      · exact Term.of_lazyFree o env m item hg z
  | x, b, .ntuple vid fs oc c lp, hg => by
      simp only [gd] at hg
      refine ntuple_term o env m vid fs oc c lp x (fun y xs t hp v hv z hz => ?_)
      split at hg
      · rename_i hc
        have hlt : sizeOf z < sizeOf x := ntuplePre_small o vid c hc lp _ x y xs t hp z hz
        exact term_guarded o env m henv z true v (gdL_mem true fs hg v hv)
      · exact Term.of_lazyFree o env m v (lazyFreeL_mem fs hg v hv) z
  | x, b, .map vid kv vv ps aps c, hg => by
      simp only [gd] at hg
      refine map_term o env m vid kv vv ps aps c x (fun y kvs t hp p hpm v hv => ?_)
      split at hg
      · rename_i hc
        simp only [Bool.and_eq_true] at hg
        have hlt := mapPre_small o m vid ps aps c hc x y kvs t hp p hpm
        have hgv : gd true v = true := by rcases hv with rfl | rfl; exact hg.1; exact hg.2
        exact ⟨term_guarded o env m henv p.1 true v hgv, term_guarded o env m henv p.2 true v hgv⟩
      · simp only [Bool.and_eq_true] at hg
        have hlv : lazyFree v = true := by rcases hv with rfl | rfl; exact hg.1; exact hg.2
        exact ⟨Term.of_lazyFree o env m v hlv _, Term.of_lazyFree o env m v hlv _⟩
  | x, b, .record vid cfg vs, hg => by
      simp only [gd] at hg
      refine record_term o env m vid cfg vs x (fun y data t hp v hv p hpm => ?_)
      split at hg
      · rename_i hc
        have hlt : sizeOf p.2 < sizeOf x := recPre_small o m vid cfg hc x y data t hp p hpm
        exact term_guarded o env m henv p.2 true v (gdL_mem true vs hg v hv)
      · exact Term.of_lazyFree o env m v (lazyFreeL_mem vs hg v hv) _
  | x, b, .union vid vs, hg => by
      simp only [gd] at hg
      refine union_term o env m vid vs x _ (fun _ => rfl) (fun v hv => ?_)
      have hh := V.height_mem vs v hv
      exact term_guarded o env m henv x b v (gdL_mem b vs hg v hv)
  | x, b, .optional vid nv inner, hg => by
      simp only [gd, Bool.and_eq_true] at hg
      refine union_term o env m vid [nv, inner] x _ (fun _ => rfl) (fun v hv => ?_)
      simp only [List.mem_cons, List.not_mem_nil, or_false] at hv
      rcases hv with hv | hv
      · rw [hv]; exact term_guarded o env m henv x b nv hg.1
      · rw [hv]; exact term_guarded o env m henv x b inner hg.2
  | x, b, .maybe vid inner, hg => by
      simp only [gd] at hg
      cases x with
      | just oid w =>
        obtain ⟨n, r, hr⟩ := term_guarded o env m henv w true inner hg
        obtain ⟨r', hr'⟩ := maybeStep_total vid (run o env m n inner) (.just oid w) (fun oid' v' he => by
          simp only [PyVal.just.injEq] at he; obtain ⟨_, rfl⟩ := he; exact ⟨r, hr⟩)
        exact ⟨n + 1, r', hr'⟩
      | _ => exact ⟨1, _, rfl⟩
  | x, false, .lazy vid ref, hg => by simp [gd] at hg
  | x, true, .lazy vid ref, hg => by
      obtain ⟨n, r, hr⟩ := term_guarded o env m henv x false (env ref) (henv ref)
      exact ⟨n + 1, r, hr⟩
  | x, b, .knr vid inner, hg => by
      simp only [gd] at hg
      obtain ⟨n, r, hr⟩ := term_guarded o env m henv x b inner hg
      obtain ⟨r', hr'⟩ := knrStep_total (run o env m n inner) x ⟨r, hr⟩
      exact ⟨n + 1, r', hr'⟩
  | x, b, .user vid inner, hg => by
      simp only [gd] at hg
      obtain ⟨n, r, hr⟩ := term_guarded o env m henv x b inner hg
      obtain ⟨r', hr'⟩ := userStep_total vid m (run o env m n inner) x ⟨r, hr⟩
      exact ⟨n + 1, r', hr'⟩
termination_by x b v => (sizeOf x, b.toNat, v.height)
decreasing_by
  all_goals simp_wf
  all_goals first
    | (apply Prod.Lex.left; omega)
    | (apply Prod.Lex.right; apply Prod.Lex.left; decide)
    | (apply Prod.Lex.right; apply Prod.Lex.right; simp only [V.height]; omega)

/-- **C01, termination (recursive definitions), partial**: in an environment of guarded definitions every
    guarded tree returns on every value — and returns the same with any larger fuel.  "Partial": an
    unguarded self-reference is excluded (`unguarded_diverges`). -/
theorem C01_terminates_partial (o : Oracle) (env : Nat → V) (m : Mode) (henv : ∀ ref, gd false (env ref) = true)
    (v : V) (hv : gd false v = true) (x : PyVal) :
    ∃ n r, ∀ k, n ≤ k → run o env m k v x = some r := by
  obtain ⟨n, r, hr⟩ := term_guarded o env m henv x false v hv
  exact ⟨n, r, fun k hk => run_mono_le o env m hk v x r hr⟩

/-- the excluded case: a definition that refers to itself without a container in between never
    returns, whatever the fuel (the real library exhausts the interpreter stack) -/
theorem unguarded_diverges (o : Oracle) (m : Mode) (x : PyVal) :
    ∀ n, run o (fun _ => .lazy 1 0) m n (.lazy 1 0) x = none := by
  intro n
  induction n with
  | zero => rfl
  | succ n ih => simpa [run] using ih

/-- **C01, total, partial**: a `Safe`, guarded tree in a `Safe`, guarded environment returns Valid or
    Invalid on every value, with every sufficiently large fuel -/
theorem C01_total_partial (o : Oracle) (env : Nat → V) (m : Mode)
    (hsafe : ∀ ref, Safe o m (env ref)) (henv : ∀ ref, gd false (env ref) = true)
    (v : V) (hs : Safe o m v) (hv : gd false v = true) (x : PyVal) :
    ∃ n out t, (∀ k, n ≤ k → run o env m k v x = some (out, t)) ∧
      ((∃ w, out = .valid w) ∨ (∃ e, out = .invalid e)) := by
  obtain ⟨n, ⟨out, t⟩, h⟩ := C01_terminates_partial o env m henv v hv x
  refine ⟨n, out, t, h, ?_⟩
  have hc := C01_never_raises_partial o m env hsafe n v hs x out t (h n (Nat.le_refl n))
  cases out with
  | valid w => exact .inl ⟨w, rfl⟩
  | invalid e => exact .inr ⟨e, rfl⟩
  | raised e => exact absurd rfl (hc e)

/-! ### non-vacuity -/

/-- the recursive definition `T = Union[int, List[T]]` of `Properties/C05` is guarded -/
example : gd false (recEnv 0) = true := by decide

/-- … and `Safe`, so it is total -/
example (o : Oracle) (m : Mode) (x : PyVal) :
    ∃ n r, ∀ k, n ≤ k → run o recEnv m k (recEnv 0) x = some r :=
  C01_terminates_partial o recEnv m (fun _ => by simp only [recEnv]; decide) _ (by decide) x

/-- a Lazy-free tree of height 2 -/
example : lazyFree (.list 1 (.union 2 [.scalar 3 .int none [] [] [], .noneV 4 none]) [] [] none) = true ∧
    (V.list 1 (.union 2 [.scalar 3 .int none [] [] [], .noneV 4 none]) [] [] none).height = 2 := by decide

end Koda
