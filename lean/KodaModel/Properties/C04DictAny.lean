/-
  C04 — `DictValidatorAny` *as written in /repo's current source*.

  `Generated/DictAnySrc.lean` is rewritten on every run from the AST of `DictValidatorAny._validate_to_tuple` and
  `_validate_to_tuple_async` (koda_validate/dictionary.py).  Interpreting the translated methods
  (`KodaModel/PyDictAny.lean`) is the model's `recordStep` for the `dictAny` kind, for every schema, policy, whole-object
  check and input.
-/
import KodaModel.Generated.DictAnySrc
import KodaModel.Properties.C04
import KodaModel.Properties.C01

set_option linter.unusedSimpArgs false

namespace Koda

/-- the model-side configuration of a `DictValidatorAny` -/
def DictAnyCfg.toRec (c : DictAnyCfg) : RecCfg :=
  { kind := .dictAny, keys := c.keys, reqs := c.reqs, cls := default, fieldNames := [], defaults := [], intoId := 0,
    into := fun _ => .none, oc := c.oc, aoc := c.aoc, failUnknown := c.failUnknown, coerce := none }

/-! ### the pieces of the two methods -/

def dGuard : DStmt := .ite (.selfAttr .disallowSync) [.expr (.raiseAsyncInSync (.selfAttr .cls))] []

def dGate : DStmt := .ite (.not (.typeIs .data .dictTy)) [.ret (.pair (.bool false) (.mkInvalid (.mkTypeErr .dictTy) .data .self))] []

def dScanBody : List DStmt :=
  [.ite (.notIn (.var .keyU) (.selfAttr .keysSet)) [.ret (.pair (.bool false) (.mkInvalid (.selfAttr .unknownKeysErr) .data .self))] []]

def dScan : DStmt := .ite (.selfAttr .failOnUnknownKeys) [.forIn .keyU .data dScanBody] []

def dLoopBody (aw : Bool) : List DStmt :=
  [.ite (.notIn (.var .keyU) .data)
     [.ite (.var .keyRequired) [.setItem .errs (.var .keyU) (.mkInvalid .missingKeyErr .data .self)] []]
     [.assign2 .success .newVal
        (if aw then .await (.call1 (.var .validator) (.subscript .data (.var .keyU)))
         else .call1 (.var .validator) (.subscript .data (.var .keyU))),
      .ite (.not (.var .success)) [.setItem .errs (.var .keyU) (.var .newVal)]
        [.ite (.not (.var .errs)) [.setItem .successDict (.var .keyU) (.var .newVal)] []]]]

def dLoop (fast : DSelf) (aw : Bool) : DStmt := .forIn3 .keyU .validator .keyRequired (.selfAttr fast) (dLoopBody aw)

def dOc : DExp := .and (.selfAttr .validateObject) (.walrus .result (.call1 (.selfAttr .validateObject) (.var .successDict)))
def dAoc : DExp :=
  .and (.selfAttr .validateObjectAsync) (.walrus .result (.await (.call1 (.selfAttr .validateObjectAsync) (.var .successDict))))
def dRetCustom : List DStmt := [.ret (.pair (.bool false) (.mkInvalid (.var .result) (.var .successDict) .self))]
def dRetKeys : List DStmt := [.ret (.pair (.bool false) (.mkInvalid (.mkKeyErrs (.var .errs)) .data .self))]

def dFinalSync : DStmt := .ite (.var .errs) dRetKeys [.ite dOc dRetCustom []]
def dFinalAsync : DStmt := .ite (.var .errs) dRetKeys [.ite dOc dRetCustom [.ite dAoc dRetCustom []]]
def dRetOk : DStmt := .ret (.pair (.bool true) (.var .successDict))

theorem dictAnySync_eq : Src.dictAnySync =
    [dGuard, dGate, dScan, .assign .successDict .emptyDict, .assign .errs .emptyDict, dLoop .fastKeysSync false,
     dFinalSync, dRetOk] := rfl
theorem dictAnyAsync_eq : Src.dictAnyAsync =
    [dGate, dScan, .assign .successDict .emptyDict, .assign .errs .emptyDict, dLoop .fastKeysAsync true,
     dFinalAsync, dRetOk] := rfl

def outD : Except (DErr × List Ev) DFlow → Option (Out × List Ev)
  | .error (.exn e, t) => some (.raised e, t)
  | .error (_, _) => none
  | .ok (.returned (.pair (.bool true) (.dictPayload kvs)) st) => some (.valid (.dict 0 kvs), st.tr)
  | .ok (.returned (.pair (.bool true) (.built v)) st) => some (.valid v, st.tr)
  | .ok (.returned (.pair (.bool false) (.invalid e)) st) => some (.invalid e, st.tr)
  | .ok _ => none

theorem runDictAnyMethod_eq (cfg : DictAnyCfg) (body : List DStmt) (x : PyVal) :
    runDictAnyMethod cfg body x = outD (DStmt.execL cfg x { env := {}, tr := [] } body) := by
  simp only [runDictAnyMethod, outD]
  rfl

/-! ### unfolding helpers -/

theorem dflow_id (r : Except (DErr × List Ev) DFlow) :
    (match r with
     | .error err => .error err
     | .ok (.next st) => .ok (.next st)
     | .ok (.returned d st) => .ok (.returned d st)) = r := by
  cases r with
  | error e => rfl
  | ok f => cases f <;> rfl

theorem dexecL_nil (cfg : DictAnyCfg) (x : PyVal) (st : DSt) : DStmt.execL cfg x st [] = .ok (.next st) := by
  simp only [DStmt.execL]

theorem dexecL_cons (cfg : DictAnyCfg) (x : PyVal) (st : DSt) (s : DStmt) (rest : List DStmt) :
    DStmt.execL cfg x st (s :: rest) =
      (match s.exec cfg x st with
       | .error err => .error err
       | .ok (.next st) => DStmt.execL cfg x st rest
       | .ok (.returned d st) => .ok (.returned d st)) := by
  simp only [DStmt.execL]
  rfl

theorem dexecL_single (cfg : DictAnyCfg) (x : PyVal) (st : DSt) (s : DStmt) :
    DStmt.execL cfg x st [s] = DStmt.exec cfg x st s := by
  rw [dexecL_cons]
  simp only [dexecL_nil]
  exact dflow_id _

theorem dexec_ite (cfg : DictAnyCfg) (x : PyVal) (st : DSt) (c : DExp) (t e : List DStmt) :
    DStmt.exec cfg x st (.ite c t e) =
      (match c.eval cfg x st with
       | .error err => .error err
       | .ok (d, st) =>
         match dtruthy d with
         | none => .error (.stuck "truth value", st.tr)
         | some true => DStmt.execL cfg x st t
         | some false => DStmt.execL cfg x st e) := by
  simp only [DStmt.exec]
  rfl

theorem dexec_assign (cfg : DictAnyCfg) (x : PyVal) (st : DSt) (v : DVar) (e : DExp) :
    DStmt.exec cfg x st (.assign v e) =
      (match e.eval cfg x st with
       | .error err => .error err
       | .ok (d, st) => .ok (.next { st with env := st.env.set v d })) := by
  simp only [DStmt.exec]
  rfl

/-! ### guard, gate, unknown-key scan -/

theorem dGuard_exec (cfg : DictAnyCfg) (x : PyVal) (st : DSt) (rest : List DStmt) :
    DStmt.execL cfg x st (dGuard :: rest) =
      (if cfg.aoc.isSome then .error (.exn .assertion, st.tr) else DStmt.execL cfg x st rest) := by
  rw [dexecL_cons, dGuard, dexec_ite]
  cases h : cfg.aoc <;> simp [DExp.eval, dselfAttr, h, dtruthy, dexecL_nil, dexecL_single, DStmt.exec]

theorem dGate_exec (cfg : DictAnyCfg) (x : PyVal) (st : DSt) (rest : List DStmt) :
    (x.ty ≠ .dict → outD (DStmt.execL cfg x st (dGate :: rest)) = some (.invalid (.mk (.type .dict) x cfg.vid []), st.tr)) ∧
    (x.ty = .dict → DStmt.execL cfg x st (dGate :: rest) = DStmt.execL cfg x st rest) := by
  rw [dexecL_cons, dGate, dexec_ite]
  refine ⟨?_, ?_⟩
  · intro h
    have hb : (x.ty == Ty.dict) = false := by simpa using h
    simp [DExp.eval, hb, dtruthy, dexecL_single, DStmt.exec, outD]
  · intro h
    have hb : (x.ty == Ty.dict) = true := by simpa using h
    simp [DExp.eval, hb, dtruthy, dexecL_nil]

/-- `for key_ in data: if key_ not in self._keys_set: return …` -/
theorem dforFold_scan (cfg : DictAnyCfg) (x : PyVal) :
    ∀ (ks : List PyVal) (st : DSt),
      (ks.any (fun k => !memL k cfg.keys) = true →
        ∃ st', dforFold (fun st => DStmt.execL cfg x st dScanBody) .keyU ks st =
          .ok (.returned (.pair (.bool false) (.invalid (.mk (.extraKeys cfg.keys) x cfg.vid []))) st') ∧ st'.tr = st.tr) ∧
      (ks.any (fun k => !memL k cfg.keys) = false →
        ∃ st', dforFold (fun st => DStmt.execL cfg x st dScanBody) .keyU ks st = .ok (.next st') ∧ st'.tr = st.tr) := by
  intro ks
  induction ks with
  | nil =>
    intro st
    exact ⟨by simp, fun _ => ⟨st, by simp [dforFold], rfl⟩⟩
  | cons k ks ih =>
    intro st
    have hbody : DStmt.execL cfg x { st with env := st.env.set .keyU (.py k) } dScanBody =
        (if memL k cfg.keys then .ok (.next { st with env := st.env.set .keyU (.py k) })
         else .ok (.returned (.pair (.bool false) (.invalid (.mk (.extraKeys cfg.keys) x cfg.vid [])))
                    { st with env := st.env.set .keyU (.py k) })) := by
      cases hm : memL k cfg.keys <;>
        simp [dScanBody, dexecL_single, DStmt.exec, DStmt.execL, DExp.eval, dselfAttr, DEnv.get, DEnv.set, hm, dtruthy]
    simp only [dforFold, hbody, List.any_cons]
    cases hm : memL k cfg.keys with
    | false =>
      simp only [Bool.not_false, Bool.true_or, Bool.false_eq_true, if_false]
      exact ⟨fun _ => ⟨_, rfl, rfl⟩, fun h => by simp at h⟩
    | true =>
      simp only [Bool.not_true, Bool.false_or, if_true]
      obtain ⟨i1, i2⟩ := ih { st with env := st.env.set .keyU (.py k) }
      exact ⟨i1, i2⟩

theorem dScan_exec (cfg : DictAnyCfg) (x : PyVal) (st : DSt) (rest : List DStmt) (kvs : List (PyVal × PyVal))
    (hx : dictItems x = some kvs) :
    ((cfg.failUnknown && hasUnknownKey cfg.keys kvs) = true →
      outD (DStmt.execL cfg x st (dScan :: rest)) = some (.invalid (.mk (.extraKeys cfg.keys) x cfg.vid []), st.tr)) ∧
    ((cfg.failUnknown && hasUnknownKey cfg.keys kvs) = false →
      ∃ st', DStmt.execL cfg x st (dScan :: rest) = DStmt.execL cfg x st' rest ∧ st'.tr = st.tr) := by
  rw [dexecL_cons, dScan, dexec_ite]
  have hattr : (DExp.selfAttr .failOnUnknownKeys).eval cfg x st = .ok (.bool cfg.failUnknown, st) := by
    simp [DExp.eval, dselfAttr]
  rw [hattr]
  cases hf : cfg.failUnknown with
  | false =>
    simp only [Bool.false_and, Bool.false_eq_true, dtruthy, dexecL_nil]
    exact ⟨fun h => by simp at h, fun _ => ⟨st, rfl, rfl⟩⟩
  | true =>
    simp only [Bool.true_and, dtruthy]
    rw [dexecL_single]
    have hfor : DStmt.exec cfg x st (.forIn .keyU .data dScanBody) =
        dforFold (fun st => DStmt.execL cfg x st dScanBody) .keyU (kvs.map Prod.fst) st := by
      simp only [DStmt.exec, DExp.eval, hx]
    rw [hfor]
    obtain ⟨s1, s2⟩ := dforFold_scan cfg x (kvs.map Prod.fst) st
    have hany : (kvs.map Prod.fst).any (fun k => !memL k cfg.keys) = hasUnknownKey cfg.keys kvs := by
      simp [hasUnknownKey, List.any_map, Function.comp_def]
    rw [hany] at s1 s2
    refine ⟨?_, ?_⟩
    · intro h
      obtain ⟨st', e1, e2⟩ := s1 h
      rw [e1]
      simp [outD, e2]
    · intro h
      obtain ⟨st', e1, e2⟩ := s2 h
      rw [e1]
      exact ⟨st', rfl, e2⟩

/-! ### the loop over the declared keys -/

structure DInv (st : DSt) (sd : List (PyVal × PyVal)) (es : List (PyVal × Inv)) : Prop where
  sd : st.env.successDict = .dictPayload sd
  er : (es = [] ∧ st.env.errs = .dictPayload []) ∨ (es ≠ [] ∧ st.env.errs = .keyErrs es)

def built (ks : List PyVal) (got : List (Option PyVal)) : List (PyVal × PyVal) :=
  (ks.zip got).filterMap (fun kg => kg.2.map (fun w => (kg.1, w)))

theorem built_cons_some (k : PyVal) (ks : List PyVal) (w : PyVal) (got : List (Option PyVal)) :
    built (k :: ks) (some w :: got) = (k, w) :: built ks got := by simp [built]
theorem built_cons_none (k : PyVal) (ks : List PyVal) (got : List (Option PyVal)) :
    built (k :: ks) (none :: got) = built ks got := by simp [built]

def KeysOK (cfg : DictAnyCfg) (x : PyVal) (aw : Bool) (data : List (PyVal × PyVal)) (evs : List Ev1) (ks : List PyVal)
    (reqs : List Bool) (st : DSt) (sd : List (PyVal × PyVal)) (es : List (PyVal × Inv)) : Prop :=
  (recLoop cfg.vid x data evs ks reqs = none →
    ∃ t, dforFold3 (fun st => DStmt.execL cfg x st (dLoopBody aw)) .keyU .validator .keyRequired (ks.zip (evs.zip reqs)) st =
      .error (.diverge, t)) ∧
  (∀ r e, recLoop cfg.vid x data evs ks reqs = some r → r.r = some e →
    dforFold3 (fun st => DStmt.execL cfg x st (dLoopBody aw)) .keyU .validator .keyRequired (ks.zip (evs.zip reqs)) st =
      .error (.exn e, st.tr ++ r.t)) ∧
  (∀ r, recLoop cfg.vid x data evs ks reqs = some r → r.r = none →
    ∃ st1 es', dforFold3 (fun st => DStmt.execL cfg x st (dLoopBody aw)) .keyU .validator .keyRequired (ks.zip (evs.zip reqs)) st =
        .ok (.next st1) ∧ st1.tr = st.tr ++ r.t ∧ r.ks = es'.map Prod.fst ∧ r.errs = es'.map Prod.snd ∧
      (es ++ es' = [] → DInv st1 (sd ++ built ks r.got) []) ∧ (∃ sd', DInv st1 sd' (es ++ es')))

theorem dforFold3_unfold (body : DSt → Except (DErr × List Ev) DFlow) (k : PyVal) (ev : Ev1) (req : Bool)
    (rest : List (PyVal × Ev1 × Bool)) (st : DSt) :
    dforFold3 body .keyU .validator .keyRequired ((k, ev, req) :: rest) st =
      (match body { st with env := ((st.env.set .keyU (.py k)).set .validator (.fieldV ev)).set .keyRequired (.bool req) } with
       | .ok (.next st') => dforFold3 body .keyU .validator .keyRequired rest st'
       | other => other) := by
  rfl

/-- what one round leaves behind when it does not raise: the trace it adds, the error entry it files (if any), the
    payload it stores (if any) -/
theorem dLoopBody_step (cfg : DictAnyCfg) (x : PyVal) (aw : Bool) (data : List (PyVal × PyVal)) (hx : dictItems x = some data)
    (st : DSt) (k : PyVal) (ev : Ev1) (req : Bool) (sd : List (PyVal × PyVal)) (es : List (PyVal × Inv)) (hinv : DInv st sd es) :
    let st0 : DSt := { st with env := ((st.env.set .keyU (.py k)).set .validator (.fieldV ev)).set .keyRequired (.bool req) }
    (dictGet data k = none → req = true →
      ∃ st1, DStmt.execL cfg x st0 (dLoopBody aw) = .ok (.next st1) ∧ st1.tr = st.tr ∧
        DInv st1 sd (es ++ [(k, .mk .missingKey x cfg.vid [])])) ∧
    (dictGet data k = none → req = false →
      ∃ st1, DStmt.execL cfg x st0 (dLoopBody aw) = .ok (.next st1) ∧ st1.tr = st.tr ∧ DInv st1 sd es) ∧
    (∀ xv, dictGet data k = some xv →
      (ev xv = none → ∃ t, DStmt.execL cfg x st0 (dLoopBody aw) = .error (.diverge, t)) ∧
      (∀ e t, ev xv = some (.raised e, t) → DStmt.execL cfg x st0 (dLoopBody aw) = .error (.exn e, st.tr ++ t)) ∧
      (∀ w t, ev xv = some (.valid w, t) →
        ∃ st1, DStmt.execL cfg x st0 (dLoopBody aw) = .ok (.next st1) ∧ st1.tr = st.tr ++ t ∧
          DInv st1 (if es.isEmpty then sd ++ [(k, w)] else sd) es) ∧
      (∀ e t, ev xv = some (.invalid e, t) →
        ∃ st1, DStmt.execL cfg x st0 (dLoopBody aw) = .ok (.next st1) ∧ st1.tr = st.tr ++ t ∧
          DInv st1 sd (es ++ [(k, e)]))) := by
  intro st0
  obtain ⟨h1, h2⟩ := hinv
  refine ⟨?_, ?_, ?_⟩
  · intro hg hr
    subst hr
    rcases h2 with ⟨rfl, h2⟩ | ⟨hne, h2⟩ <;> cases aw <;>
      simp [st0, dLoopBody, DStmt.execL, DStmt.exec, DExp.eval, DEnv.get, DEnv.set, hx, hg, dtruthy, h1, h2] <;>
      exact ⟨rfl, .inr ⟨by simp, rfl⟩⟩
  · intro hg hr
    subst hr
    rcases h2 with ⟨rfl, h2⟩ | ⟨hne, h2⟩ <;> cases aw <;>
      simp [st0, dLoopBody, DStmt.execL, DStmt.exec, DExp.eval, DEnv.get, DEnv.set, hx, hg, dtruthy, h1, h2]
    · exact ⟨rfl, .inl ⟨rfl, rfl⟩⟩
    · exact ⟨rfl, .inl ⟨rfl, rfl⟩⟩
    · exact ⟨rfl, .inr ⟨hne, rfl⟩⟩
    · exact ⟨rfl, .inr ⟨hne, rfl⟩⟩
  · intro xv hg
    refine ⟨?_, ?_, ?_, ?_⟩
    · intro h
      refine ⟨st.tr, ?_⟩
      cases aw <;> simp [st0, dLoopBody, DStmt.execL, DStmt.exec, DExp.eval, DEnv.get, DEnv.set, hx, hg, dtruthy, h]
    · intro e t h
      cases aw <;> simp [st0, dLoopBody, DStmt.execL, DStmt.exec, DExp.eval, DEnv.get, DEnv.set, hx, hg, dtruthy, h]
    · intro w t h
      rcases h2 with ⟨rfl, h2⟩ | ⟨hne, h2⟩
      · cases aw <;>
          simp [st0, dLoopBody, DStmt.execL, DStmt.exec, DExp.eval, DEnv.get, DEnv.set, hx, hg, dtruthy, h, h1, h2] <;>
          exact ⟨rfl, .inl ⟨rfl, rfl⟩⟩
      · have hemp : es.isEmpty = false := by cases es with
          | nil => exact absurd rfl hne
          | cons a l => rfl
        cases aw <;>
          simp [st0, dLoopBody, DStmt.execL, DStmt.exec, DExp.eval, DEnv.get, DEnv.set, hx, hg, dtruthy, h, h1, h2, hemp] <;>
          exact ⟨rfl, .inr ⟨hne, rfl⟩⟩
    · intro e t h
      rcases h2 with ⟨rfl, h2⟩ | ⟨hne, h2⟩ <;> cases aw <;>
        simp [st0, dLoopBody, DStmt.execL, DStmt.exec, DExp.eval, DEnv.get, DEnv.set, hx, hg, dtruthy, h, h1, h2] <;>
        exact ⟨rfl, .inr ⟨by simp, rfl⟩⟩

theorem dforFold3_keys (cfg : DictAnyCfg) (x : PyVal) (aw : Bool) (data : List (PyVal × PyVal)) (hx : dictItems x = some data) :
    ∀ (evs : List Ev1) (ks : List PyVal) (reqs : List Bool) (st : DSt) (sd : List (PyVal × PyVal)) (es : List (PyVal × Inv)),
      DInv st sd es → KeysOK cfg x aw data evs ks reqs st sd es := by
  intro evs
  induction evs with
  | nil =>
    intro ks reqs st sd es hinv
    unfold KeysOK
    refine ⟨?_, ?_, ?_⟩
    · intro h; simp [recLoop] at h
    · intro r e h hr
      simp only [recLoop, Option.some.injEq] at h; subst h; simp at hr
    · intro r h _
      simp only [recLoop, Option.some.injEq] at h; subst h
      refine ⟨st, [], by simp [dforFold3], by simp, rfl, rfl, ?_, ⟨sd, by simpa using hinv⟩⟩
      intro h0
      simp only [List.append_nil] at h0
      subst h0
      simpa [built] using hinv
  | cons ev evs ih =>
    intro ks reqs st sd es hinv
    -- the three lists run in step: when one of them ends, so does the loop
    have hstop : ∀ (ks : List PyVal) (reqs : List Bool), ks = [] ∨ reqs = [] → KeysOK cfg x aw data (ev :: evs) ks reqs st sd es := by
      intro ks reqs h
      have h0 : ks.zip ((ev :: evs).zip reqs) = [] := by
        rcases h with rfl | rfl
        · simp
        · simp
      have hr : recLoop cfg.vid x data (ev :: evs) ks reqs = some ⟨[], [], [], [], none⟩ := by
        rcases h with rfl | rfl
        · simp [recLoop]
        · cases ks <;> simp [recLoop]
      unfold KeysOK
      rw [h0, hr]
      refine ⟨?_, ?_, ?_⟩
      · intro h; simp at h
      · intro r e h hr'
        simp only [Option.some.injEq] at h; subst h; simp at hr'
      · intro r h _
        simp only [Option.some.injEq] at h; subst h
        refine ⟨st, [], by simp [dforFold3], by simp, rfl, rfl, ?_, ⟨sd, by simpa using hinv⟩⟩
        intro h0'
        simp only [List.append_nil] at h0'
        subst h0'
        simpa [built] using hinv
    cases ks with
    | nil => exact hstop [] reqs (.inl rfl)
    | cons k ks =>
      cases reqs with
      | nil => exact hstop (k :: ks) [] (.inr rfl)
      | cons req reqs =>
        obtain ⟨b1, b2, b3⟩ := dLoopBody_step cfg x aw data hx st k ev req sd es hinv
        unfold KeysOK
        simp only [List.zip_cons_cons]
        rw [dforFold3_unfold]
        simp only [recLoop]
        cases hg : dictGet data k with
        | none =>
          cases req with
          | true =>
            obtain ⟨st1, e1, e2, e3⟩ := b1 hg rfl
            rw [e1]
            simp only [if_true]
            obtain ⟨i1, i2, i3⟩ := ih ks reqs st1 sd (es ++ [(k, .mk .missingKey x cfg.vid [])]) e3
            cases hl : recLoop cfg.vid x data evs ks reqs with
            | none =>
              refine ⟨?_, ?_, ?_⟩
              · intro _; exact i1 hl
              · intro r e h; simp at h
              · intro r h; simp at h
            | some r' =>
              refine ⟨?_, ?_, ?_⟩
              · intro h; simp at h
              · intro r e h hr
                simp only [Option.some.injEq] at h; subst h
                rw [i2 r' e hl hr, e2]
              · intro r h hr
                simp only [Option.some.injEq] at h; subst h
                obtain ⟨st2, es', j1, j2, j3, j4, j5, sd', j6⟩ := i3 r' hl hr
                refine ⟨st2, (k, .mk .missingKey x cfg.vid []) :: es', j1, by rw [j2, e2], by simp [j3], by simp [j4], ?_,
                  ⟨sd', by simpa [List.append_assoc] using j6⟩⟩
                intro h0; simp at h0
          | false =>
            obtain ⟨st1, e1, e2, e3⟩ := b2 hg rfl
            rw [e1]
            simp only [Bool.false_eq_true, if_false]
            obtain ⟨i1, i2, i3⟩ := ih ks reqs st1 sd es e3
            cases hl : recLoop cfg.vid x data evs ks reqs with
            | none =>
              refine ⟨?_, ?_, ?_⟩
              · intro _; exact i1 hl
              · intro r e h; simp at h
              · intro r h; simp at h
            | some r' =>
              refine ⟨?_, ?_, ?_⟩
              · intro h; simp at h
              · intro r e h hr
                simp only [Option.some.injEq] at h; subst h
                rw [i2 r' e hl hr, e2]
              · intro r h hr
                simp only [Option.some.injEq] at h; subst h
                obtain ⟨st2, es', j1, j2, j3, j4, j5, j6⟩ := i3 r' hl hr
                refine ⟨st2, es', j1, by rw [j2, e2], j3, j4, ?_, j6⟩
                intro h0
                simpa [built_cons_none] using j5 h0
        | some xv =>
          obtain ⟨c1, c2, c3, c4⟩ := b3 xv hg
          simp only
          cases hc : ev xv with
          | none =>
            obtain ⟨t0, h0⟩ := c1 hc
            refine ⟨?_, ?_, ?_⟩
            · intro _; exact ⟨t0, by rw [h0]⟩
            · intro r e h; simp at h
            · intro r h; simp at h
          | some p =>
            obtain ⟨out, t0⟩ := p
            cases out with
            | raised e0 =>
              have h0 := c2 e0 t0 hc
              refine ⟨?_, ?_, ?_⟩
              · intro h; simp at h
              · intro r e h hr
                simp only [Option.some.injEq] at h; subst h
                simp only [Option.some.injEq] at hr; subst hr
                rw [h0]
              · intro r h hr
                simp only [Option.some.injEq] at h; subst h; simp at hr
            | valid w0 =>
              obtain ⟨st1, e1, e2, e3⟩ := c3 w0 t0 hc
              rw [e1]
              simp only
              obtain ⟨i1, i2, i3⟩ := ih ks reqs st1 (if es.isEmpty then sd ++ [(k, w0)] else sd) es e3
              cases hl : recLoop cfg.vid x data evs ks reqs with
              | none =>
                refine ⟨?_, ?_, ?_⟩
                · intro _; exact i1 hl
                · intro r e h; simp at h
                · intro r h; simp at h
              | some r' =>
                refine ⟨?_, ?_, ?_⟩
                · intro h; simp at h
                · intro r e h hr
                  simp only [Option.some.injEq] at h; subst h
                  rw [i2 r' e hl hr, e2]; simp [List.append_assoc]
                · intro r h hr
                  simp only [Option.some.injEq] at h; subst h
                  obtain ⟨st2, es', j1, j2, j3, j4, j5, j6⟩ := i3 r' hl hr
                  refine ⟨st2, es', j1, by rw [j2, e2]; simp [List.append_assoc], j3, j4, ?_, j6⟩
                  intro h0
                  have hes : es = [] := (List.append_eq_nil_iff.mp h0).1
                  have := j5 h0
                  subst hes
                  simpa [built_cons_some, List.append_assoc] using this
            | invalid e0 =>
              obtain ⟨st1, e1, e2, e3⟩ := c4 e0 t0 hc
              rw [e1]
              simp only
              obtain ⟨i1, i2, i3⟩ := ih ks reqs st1 sd (es ++ [(k, e0)]) e3
              cases hl : recLoop cfg.vid x data evs ks reqs with
              | none =>
                refine ⟨?_, ?_, ?_⟩
                · intro _; exact i1 hl
                · intro r e h; simp at h
                · intro r h; simp at h
              | some r' =>
                refine ⟨?_, ?_, ?_⟩
                · intro h; simp at h
                · intro r e h hr
                  simp only [Option.some.injEq] at h; subst h
                  rw [i2 r' e hl hr, e2]; simp [List.append_assoc]
                · intro r h hr
                  simp only [Option.some.injEq] at h; subst h
                  obtain ⟨st2, es', j1, j2, j3, j4, j5, sd', j6⟩ := i3 r' hl hr
                  refine ⟨st2, (k, e0) :: es', j1, by rw [j2, e2]; simp [List.append_assoc], by simp [j3], by simp [j4], ?_,
                    ⟨sd', by simpa [List.append_assoc] using j6⟩⟩
                  intro h0; simp at h0

/-! ### after the loop -/

theorem dFinal_keys (cfg : DictAnyCfg) (x : PyVal) (fin : DStmt) (hfin : fin = dFinalSync ∨ fin = dFinalAsync) (st : DSt)
    (sd : List (PyVal × PyVal)) (es : List (PyVal × Inv)) (hne : es ≠ []) (hinv : DInv st sd es) :
    outD (DStmt.execL cfg x st [fin, dRetOk]) =
      some (.invalid (.mk (.keys (es.map Prod.fst)) x cfg.vid (es.map Prod.snd)), st.tr) := by
  obtain ⟨h1, h2⟩ := hinv
  have he : st.env.errs = .keyErrs es := by
    rcases h2 with ⟨h, _⟩ | ⟨_, h⟩
    · exact absurd h hne
    · exact h
  have hemp : es.isEmpty = false := by cases es with
    | nil => exact absurd rfl hne
    | cons a l => rfl
  rcases hfin with rfl | rfl <;>
    simp [dFinalSync, dFinalAsync, dRetKeys, DStmt.execL, DStmt.exec, DExp.eval, DEnv.get, he, dtruthy, hemp, outD]

theorem dFinal_ok (cfg : DictAnyCfg) (x : PyVal) (m : Mode) (fin : DStmt)
    (hfin : (m = .sync ∧ fin = dFinalSync ∧ cfg.aoc = none) ∨ (m = .async ∧ fin = dFinalAsync)) (st : DSt)
    (sd : List (PyVal × PyVal)) (hinv : DInv st sd []) :
    outD (DStmt.execL cfg x st [fin, dRetOk]) =
      some (match (runObjCheck cfg.oc cfg.vid (.dict 0 sd)).1 with
        | .valid _ => ((runAObjCheck m cfg.aoc cfg.vid (.dict 0 sd)).1,
                       st.tr ++ (runObjCheck cfg.oc cfg.vid (.dict 0 sd)).2 ++ (runAObjCheck m cfg.aoc cfg.vid (.dict 0 sd)).2)
        | other => (other, st.tr ++ (runObjCheck cfg.oc cfg.vid (.dict 0 sd)).2)) := by
  obtain ⟨h1, h2⟩ := hinv
  have he : st.env.errs = .dictPayload [] := by
    rcases h2 with ⟨_, h⟩ | ⟨h, _⟩
    · exact h
    · exact absurd rfl h
  rcases hfin with ⟨rfl, rfl, hao⟩ | ⟨rfl, rfl⟩
  · cases hoc : cfg.oc with
    | none =>
      simp [dFinalSync, dOc, dRetOk, DStmt.execL, DStmt.exec, DExp.eval, DEnv.get, DEnv.set, dselfAttr, he, h1, hoc, hao,
        dtruthy, outD, runObjCheck, runAObjCheck]
    | some c =>
      cases hf : c.f (.dict 0 sd) <;>
        simp [dFinalSync, dOc, dRetCustom, dRetOk, DStmt.execL, DStmt.exec, DExp.eval, DEnv.get, DEnv.set, dselfAttr, he, h1,
          hoc, hao, hf, dtruthy, outD, runObjCheck, runAObjCheck]
  · cases hoc : cfg.oc with
    | none =>
      cases hao : cfg.aoc with
      | none =>
        simp [dFinalAsync, dOc, dAoc, dRetOk, DStmt.execL, DStmt.exec, DExp.eval, DEnv.get, DEnv.set, dselfAttr, he, h1, hoc,
          hao, dtruthy, outD, runObjCheck, runAObjCheck]
      | some a =>
        cases hg : a.f (.dict 0 sd) <;>
          simp [dFinalAsync, dOc, dAoc, dRetCustom, dRetOk, DStmt.execL, DStmt.exec, DExp.eval, DEnv.get, DEnv.set, dselfAttr,
            he, h1, hoc, hao, hg, dtruthy, outD, runObjCheck, runAObjCheck]
    | some c =>
      cases hf : c.f (.dict 0 sd) with
      | some e =>
        simp [dFinalAsync, dOc, dAoc, dRetCustom, dRetOk, DStmt.execL, DStmt.exec, DExp.eval, DEnv.get, DEnv.set, dselfAttr,
          he, h1, hoc, hf, dtruthy, outD, runObjCheck, runAObjCheck]
      | none =>
        cases hao : cfg.aoc with
        | none =>
          simp [dFinalAsync, dOc, dAoc, dRetOk, DStmt.execL, DStmt.exec, DExp.eval, DEnv.get, DEnv.set, dselfAttr, he, h1,
            hoc, hf, hao, dtruthy, outD, runObjCheck, runAObjCheck]
        | some a =>
          cases hg : a.f (.dict 0 sd) <;>
            simp [dFinalAsync, dOc, dAoc, dRetCustom, dRetOk, DStmt.execL, DStmt.exec, DExp.eval, DEnv.get, DEnv.set,
              dselfAttr, he, h1, hoc, hf, hao, hg, dtruthy, outD, runObjCheck, runAObjCheck, List.append_assoc]

/-- from the two initialisations to the end, once the gate and the scan have passed -/
theorem dTail_exec (cfg : DictAnyCfg) (x : PyVal) (m : Mode) (fast : DSelf) (aw : Bool) (fin : DStmt)
    (hfast : fast = .fastKeysSync ∨ fast = .fastKeysAsync)
    (hfin : (m = .sync ∧ fin = dFinalSync ∧ cfg.aoc = none) ∨ (m = .async ∧ fin = dFinalAsync))
    (st : DSt) (data : List (PyVal × PyVal)) (hx : dictItems x = some data) :
    outD (DStmt.execL cfg x st [.assign .successDict .emptyDict, .assign .errs .emptyDict, dLoop fast aw, fin, dRetOk]) =
      (match recLoop cfg.vid x data cfg.evs cfg.keys cfg.reqs with
       | none => none
       | some r => some (recFinish m cfg.vid cfg.toRec x st.tr r)) := by
  have hinit : DStmt.execL cfg x st [.assign .successDict .emptyDict, .assign .errs .emptyDict, dLoop fast aw, fin, dRetOk] =
      DStmt.execL cfg x { st with env := (st.env.set .successDict (.dictPayload [])).set .errs (.dictPayload []) }
        [dLoop fast aw, fin, dRetOk] := by
    simp [DStmt.execL, DStmt.exec, DExp.eval]
  rw [hinit]
  let st0 : DSt := { st with env := (st.env.set .successDict (.dictPayload [])).set .errs (.dictPayload []) }
  have hinv0 : DInv st0 [] [] := ⟨rfl, .inl ⟨rfl, rfl⟩⟩
  rw [dexecL_cons]
  have hloop : DStmt.exec cfg x st0 (dLoop fast aw) =
      dforFold3 (fun st => DStmt.execL cfg x st (dLoopBody aw)) .keyU .validator .keyRequired
        (cfg.keys.zip (cfg.evs.zip cfg.reqs)) st0 := by
    rcases hfast with rfl | rfl <;> simp only [dLoop, DStmt.exec, DExp.eval, dselfAttr]
  show outD (match DStmt.exec cfg x st0 (dLoop fast aw) with
    | .error err => .error err
    | .ok (.next st) => DStmt.execL cfg x st [fin, dRetOk]
    | .ok (.returned d st) => .ok (.returned d st)) = _
  rw [hloop]
  obtain ⟨l1, l2, l3⟩ := dforFold3_keys cfg x aw data hx cfg.evs cfg.keys cfg.reqs st0 [] [] hinv0
  cases hl : recLoop cfg.vid x data cfg.evs cfg.keys cfg.reqs with
  | none =>
    obtain ⟨t, ht⟩ := l1 hl
    rw [ht]; rfl
  | some r =>
    cases hr : r.r with
    | some e =>
      rw [l2 r e hl hr]
      simp [outD, recFinish, hr, st0]
    | none =>
      obtain ⟨st1, es', h1, h2, h3, h4, h5, sd', h6⟩ := l3 r hl hr
      rw [h1]
      simp only [List.nil_append] at h5 h6
      simp only
      cases hes : es' with
      | nil =>
        have hinv1 := h5 hes
        rw [dFinal_ok cfg x m fin hfin st1 _ hinv1, h2]
        have hks : r.ks = [] := by rw [h3, hes]; rfl
        simp only [recFinish, hr, hks, List.isEmpty_nil, Bool.not_true, Bool.false_eq_true, if_false, st0]
        have hb : recBuild cfg.toRec r.got = .dict 0 (built cfg.keys r.got) := by
          simp [recBuild, DictAnyCfg.toRec, built]
        have hk : cfg.toRec.kind = .dictAny := rfl
        simp only [hb, hk, reduceCtorEq, if_false, List.append_nil, List.nil_append]
        have hoc : cfg.toRec.oc = cfg.oc := rfl
        have hao : cfg.toRec.aoc = cfg.aoc := rfl
        rw [hoc, hao]
        cases (runObjCheck cfg.oc cfg.vid (.dict 0 (built cfg.keys r.got))).1 <;> simp [List.append_assoc]
      | cons a l =>
        have hne : es' ≠ [] := by rw [hes]; simp
        have hfin' : fin = dFinalSync ∨ fin = dFinalAsync := by
          rcases hfin with ⟨_, h, _⟩ | ⟨_, h⟩
          · exact .inl h
          · exact .inr h
        rw [dFinal_keys cfg x fin hfin' st1 sd' es' hne h6, h2]
        have hks : r.ks.isEmpty = false := by rw [h3, hes]; rfl
        simp [recFinish, hr, hks, h3, h4, st0]
        intro h0; exact absurd h0 hne

/-! ### the two methods -/

theorem dict_of_ty (x : PyVal) (h : x.ty = .dict) : ∃ oid kvs, x = .dict oid kvs := by
  cases x <;> simp [PyVal.ty] at h
  exact ⟨_, _, rfl⟩

/-- **the synchronous `DictValidatorAny`, as written in the source, is the model's `recordStep`** -/
theorem src_dictany_sync (o : Oracle) (cfg : DictAnyCfg) (x : PyVal) :
    runDictAnyMethod cfg Src.dictAnySync x = recordStep o .sync cfg.vid cfg.toRec cfg.evs x := by
  rw [runDictAnyMethod_eq, dictAnySync_eq, dGuard_exec]
  simp only [recordStep, recPre]
  have hao : cfg.toRec.aoc = cfg.aoc := rfl
  rw [hao]
  cases ha : cfg.aoc with
  | some a => simp [outD]
  | none =>
    simp only [Option.isSome_none, Bool.false_eq_true, if_false, and_false]
    obtain ⟨g1, g2⟩ := dGate_exec cfg x { env := {}, tr := [] }
      [dScan, .assign .successDict .emptyDict, .assign .errs .emptyDict, dLoop .fastKeysSync false, dFinalSync, dRetOk]
    have hgate : recGate o cfg.toRec x = (if x.ty = .dict then .acc x [] else .rej (.type .dict) []) := by
      simp [recGate, DictAnyCfg.toRec]
    rw [hgate]
    by_cases hty : x.ty = .dict
    · rw [g2 hty, if_pos hty]
      obtain ⟨oid, kvs, rfl⟩ := dict_of_ty x hty
      simp only [dictItems]
      have hfu : cfg.toRec.failUnknown = cfg.failUnknown := rfl
      have hk : cfg.toRec.keys = cfg.keys := rfl
      have hr : cfg.toRec.reqs = cfg.reqs := rfl
      rw [hfu, hk, hr]
      obtain ⟨s1, s2⟩ := dScan_exec cfg (.dict oid kvs) { env := {}, tr := [] }
        [.assign .successDict .emptyDict, .assign .errs .emptyDict, dLoop .fastKeysSync false, dFinalSync, dRetOk] kvs rfl
      cases hu : (cfg.failUnknown && hasUnknownKey cfg.keys kvs) with
      | true => rw [s1 hu]; simp
      | false =>
        obtain ⟨st', e1, e2⟩ := s2 hu
        rw [e1, dTail_exec cfg (.dict oid kvs) .sync .fastKeysSync false dFinalSync (.inl rfl) (.inl ⟨rfl, rfl, ha⟩) st' kvs rfl, e2]
        simp only [Bool.false_eq_true, if_false]
        cases recLoop cfg.vid (.dict oid kvs) kvs cfg.evs cfg.keys cfg.reqs <;> rfl
    · rw [g1 hty, if_neg hty]

/-- **the asynchronous `DictValidatorAny`, as written in the source, is the model's `recordStep`** -/
theorem src_dictany_async (o : Oracle) (cfg : DictAnyCfg) (x : PyVal) :
    runDictAnyMethod cfg Src.dictAnyAsync x = recordStep o .async cfg.vid cfg.toRec cfg.evs x := by
  rw [runDictAnyMethod_eq, dictAnyAsync_eq]
  simp only [recordStep, recPre]
  have hm : ¬ (Mode.async = Mode.sync ∧ cfg.toRec.aoc.isSome = true) := by simp
  simp only [hm, if_false]
  obtain ⟨g1, g2⟩ := dGate_exec cfg x { env := {}, tr := [] }
    [dScan, .assign .successDict .emptyDict, .assign .errs .emptyDict, dLoop .fastKeysAsync true, dFinalAsync, dRetOk]
  have hgate : recGate o cfg.toRec x = (if x.ty = .dict then .acc x [] else .rej (.type .dict) []) := by
    simp [recGate, DictAnyCfg.toRec]
  rw [hgate]
  by_cases hty : x.ty = .dict
  · rw [g2 hty, if_pos hty]
    obtain ⟨oid, kvs, rfl⟩ := dict_of_ty x hty
    simp only [dictItems]
    have hfu : cfg.toRec.failUnknown = cfg.failUnknown := rfl
    have hk : cfg.toRec.keys = cfg.keys := rfl
    have hr : cfg.toRec.reqs = cfg.reqs := rfl
    rw [hfu, hk, hr]
    obtain ⟨s1, s2⟩ := dScan_exec cfg (.dict oid kvs) { env := {}, tr := [] }
      [.assign .successDict .emptyDict, .assign .errs .emptyDict, dLoop .fastKeysAsync true, dFinalAsync, dRetOk] kvs rfl
    cases hu : (cfg.failUnknown && hasUnknownKey cfg.keys kvs) with
    | true => rw [s1 hu]; simp
    | false =>
      obtain ⟨st', e1, e2⟩ := s2 hu
      rw [e1, dTail_exec cfg (.dict oid kvs) .async .fastKeysAsync true dFinalAsync (.inr rfl) (.inr ⟨rfl, rfl⟩) st' kvs rfl, e2]
      simp only [Bool.false_eq_true, if_false]
      cases recLoop cfg.vid (.dict oid kvs) kvs cfg.evs cfg.keys cfg.reqs <;> rfl
  · rw [g1 hty, if_neg hty]

theorem src_dictany_init : Src.dictAnyInit =
    "self.schema: Dict[Any, Validator[Any]] = schema ; self.validate_object = validate_object ; self.validate_object_async = validate_object_async ; if validate_object is not None and validate_object_async is not None:     _raise_cannot_define_validate_object_and_validate_object_async() ; self.fail_on_unknown_keys = fail_on_unknown_keys ; self._disallow_synchronous = bool(validate_object_async) ; self._fast_keys_sync = [] ; self._fast_keys_async = [] ; self._keys_set = set() ; for key, val in schema.items():     self._keys_set.add(key)     vldtr = val.validator if (is_not_required := isinstance(val, KeyNotRequired)) else val     self._fast_keys_sync.append((key, _wrap_sync_validator(vldtr), not is_not_required))     self._fast_keys_async.append((key, _wrap_async_validator(vldtr), not is_not_required)) ; self._unknown_keys_err = ExtraKeysErr(set(schema.keys()))" := rfl

/-! ### non-vacuity: `DictValidatorAny({"a": IntValidator(), "b": KeyNotRequired(StringValidator())})` on `{"a": "x"}` -/

example : runDictAnyMethod
      { vid := 1, keys := [.str [97], .str [98]],
        evs := [fun y => some (scalarStep default .sync 2 .int none [] [] [] y), fun y => some (scalarStep default .sync 3 .str none [] [] [] y)],
        reqs := [true, false], oc := none, aoc := none, failUnknown := false } Src.dictAnySync (.dict 9 [(.str [97], .str [120])]) =
    some (.invalid (.mk (.keys [.str [97]]) (.dict 9 [(.str [97], .str [120])]) 1 [.mk (.type .int) (.str [120]) 2 []]), []) := by
  rw [src_dictany_sync default]; rfl

end Koda
