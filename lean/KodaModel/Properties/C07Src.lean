/-
  C07, tied to the source for the identity-tested arms of `get_typehint_validator_base` (koda_validate/typehints.py):
  the fifteen leading arms — `annotation is str`, …, `annotation is Dict or annotation is dict` — are read from the
  current source on every run (`Src.typehintSimpleArms` in `Generated/PinsSrc.lean`: what the annotation is compared
  with, what is returned), and what each returns is what the model's `derive .dflt` builds for the annotation of that
  name.  (The generic arms — `origin`, `args` — and the record classes are pinned as text, `src_typehints_pinned`, and
  tied by the correspondence.)
-/
import KodaModel.Typehint
import KodaModel.Generated.PinsSrc

namespace Koda

/-- the annotation a name of typing / builtins denotes, as the model describes it -/
def annOfName : String → Option Ann
  | "str" => some .str | "int" => some .int | "float" => some .float
  | "None" => some .none | "type(None)" => some .none
  | "UUID" => some .uuid | "date" => some .date | "datetime" => some .datetime | "bool" => some .bool
  | "Decimal" => some .decimal | "bytes" => some .bytes | "Any" => some .any
  | "List" => some .listBare | "list" => some .listBare
  | "Set" => some .setBare | "set" => some .setBare
  | "Tuple" => some .tupleBare | "tuple" => some .tupleBare
  | "Dict" => some .dictBare | "dict" => some .dictBare
  | _ => none

/-- a derived validator without predicates, processors or a user coercer, written as the constructor call that builds it
    (default coercers are what the constructors of the UUID / date / datetime / Decimal / tuple validators install) -/
def showCtor : V → Option String
  | .always 1 => some "always_valid"
  | .noneV _ none => some "NoneValidator()"
  | .scalar _ .str none [] [] [] => some "StringValidator()"
  | .scalar _ .int none [] [] [] => some "IntValidator()"
  | .scalar _ .float none [] [] [] => some "FloatValidator()"
  | .scalar _ .bool none [] [] [] => some "BoolValidator()"
  | .scalar _ .bytes none [] [] [] => some "BytesValidator()"
  | .scalar _ .uuid (some .dflt) [] [] [] => some "UUIDValidator()"
  | .scalar _ .date (some .dflt) [] [] [] => some "DateValidator()"
  | .scalar _ .datetime (some .dflt) [] [] [] => some "DatetimeValidator()"
  | .scalar _ .decimal (some .dflt) [] [] [] => some "DecimalValidator()"
  | .list _ (.always 1) [] [] none => some "ListValidator(always_valid)"
  | .set _ (.always 1) [] [] none => some "SetValidator(always_valid)"
  | .utuple _ (.always 1) [] [] (some .dflt) => some "UniformTupleValidator(always_valid)"
  | .map _ (.always 1) (.always 1) [] [] none => some "MapValidator(key=always_valid, value=always_valid)"
  | _ => none

/-- **every identity-tested arm returns what the model derives**: for each arm of the current source and each name it
    tests, the default resolver's `derive` for the annotation of that name is the validator the arm's `return` constructs -/
theorem src_typehint_simple_arms :
    Src.typehintSimpleArms.all (fun row => row.1.all (fun n =>
      match annOfName n with
      | some a => showCtor ((derive .dflt a).run 0).1 == some row.2
      | none => false)) = true := by decide

/-- all fifteen arms are there (the chain has not lost one, nor gained one the model does not know) -/
theorem src_typehint_simple_arms_count : Src.typehintSimpleArms.length = 15 := by decide

/-! ### the signature resolver (`resolve_signature_typehint_default`, signature.py) -/

/-- as `showCtor`, for the validators the strict resolver builds: no coercer -/
def showCtorSig : V → Option String
  | .scalar _ .decimal none [] [] [] => some "DecimalValidator(coerce=None)"
  | .scalar _ .uuid none [] [] [] => some "UUIDValidator(coerce=None)"
  | .scalar _ .date none [] [] [] => some "DateValidator(coerce=None)"
  | .scalar _ .datetime none [] [] [] => some "DatetimeValidator(coerce=None)"
  | .utuple _ (.always 1) [] [] none => some "UniformTupleValidator(always_valid, coerce=None)"
  | _ => none

/-- the five identity-tested arms of the strict resolver return what `derive .signature` builds … -/
theorem src_sigresolver_simple_arms :
    Src.sigResolverSimpleArms.all (fun row => row.1.all (fun n =>
      match annOfName n with
      | some a => showCtorSig ((derive .signature a).run 0).1 == some row.2
      | none => false)) = true ∧ Src.sigResolverSimpleArms.length = 5 := by decide

/-- … and for every other name the base resolver has an arm for, the strict resolver has none of its own: it falls
    through to `get_typehint_validator_base`, and `derive .signature` is `derive .dflt` there -/
theorem src_sigresolver_falls_through :
    Src.typehintSimpleArms.all (fun row => row.1.all (fun n =>
      Src.sigResolverSimpleArms.any (fun r => r.1.contains n) ||
        (match annOfName n with
         | some a => showCtor ((derive .signature a).run 0).1 == some row.2
         | none => false))) = true := by decide

end Koda
