/-
  C11, record-shaped validators: the object schema (`type`, `additionalProperties`, `required`,
  `properties`) — schema side, given what the field schemas decide.
-/
import KodaModel.Properties.C11Containers

namespace Koda

def recordObj (failUnknown : Bool) (req : List (List Nat)) (props : JObj) : JObj :=
  [(kw "type", .str (kw "object")), (kw "additionalProperties", .bool (!failUnknown)),
   (kw "required", .arr (req.map J.str)), (kw "properties", .obj props)]

def isDictV : PyVal → Bool
  | .dict _ _ => true
  | _ => false

def dictKvs : PyVal → List (PyVal × PyVal)
  | .dict _ kvs => kvs
  | _ => []

/-- an object member is a declared property, or additional members are allowed -/
def knownOrAllowed (names : List (List Nat)) (fu : Bool) (p : PyVal × PyVal) : Bool :=
  match keyText p.1 with
  | some nm => names.contains nm || !fu
  | none => false

/-- a declared property, if present, satisfies its schema (as decided by `g`) -/
def propOk (g : J → PyVal → Bool) (kvs : List (PyVal × PyVal)) (p : List Nat × J) : Bool :=
  match dictGet kvs (.str p.1) with
  | some val => g p.2 val
  | none => true

theorem typeOk_object (x : PyVal) : typeOk (kw "object") x = some (isDictV x) := by
  cases x <;> rfl

theorem allM_required (kvs : List (PyVal × PyVal)) : ∀ (req : List (List Nat)),
    allM (fun j => match j with | J.str nm => some (dictHas kvs (.str nm)) | _ => none) (req.map J.str) =
      some (req.all (fun nm => dictHas kvs (.str nm)))
  | [] => rfl
  | r :: rs => by
    simp only [List.map_cons, allM, allM_required kvs rs, List.all_cons]
    rfl

theorem evalKw_required (ev : J → PyVal → Option Bool) (root : J) (ref : Option (List Nat)) (o' : JObj)
    (req : List (List Nat)) (oid : Nat) (kvs : List (PyVal × PyVal)) :
    evalKw ev root ref o' (kw "required") (.arr (req.map J.str)) (.dict oid kvs) =
      some (req.all (fun nm => dictHas kvs (.str nm))) := by
  have : evalKw ev root ref o' (kw "required") (.arr (req.map J.str)) (.dict oid kvs) =
      allM (fun j => match j with | .str nm => some (dictHas kvs (.str nm)) | _ => none) (req.map J.str) := rfl
  rw [this]
  exact allM_required kvs req

theorem evalKw_properties (ev : J → PyVal → Option Bool) (root : J) (ref : Option (List Nat)) (o' : JObj)
    (props : JObj) (oid : Nat) (kvs : List (PyVal × PyVal)) :
    evalKw ev root ref o' (kw "properties") (.obj props) (.dict oid kvs) =
      allM (fun p => match dictGet kvs (.str p.1) with | some val => ev p.2 val | none => some true) props := rfl

theorem evalKw_additionalProperties (ev : J → PyVal → Option Bool) (root : J) (ref : Option (List Nat)) (o' : JObj)
    (v : J) (oid : Nat) (kvs : List (PyVal × PyVal)) :
    evalKw ev root ref o' (kw "additionalProperties") v (.dict oid kvs) =
      allM (fun p => match keyText p.1 with
                     | some nm => if (propNames o').contains nm then some true else ev v p.2
                     | none => none) kvs := rfl

/-- **record-shaped validators (schema side)**: the object schema accepts `x` iff `x` is an object, every
    member is a declared property or additional members are allowed, every required name is present,
    and every present declared property satisfies its schema -/
theorem C11_record_schema (root : J) (ref : Option (List Nat)) (fu : Bool) (req : List (List Nat)) (props : JObj)
    (g : J → PyVal → Bool) (N : Nat) (hN : 1 ≤ N) (x : PyVal)
    (hkeys : ∀ p ∈ dictKvs x, ∃ nm, p.1 = .str nm)
    (hprops : ∀ p ∈ props, ∀ val, dictGet (dictKvs x) (.str p.1) = some val →
      DecidesAt root ref p.2 N val (g p.2 val)) :
    DecidesAt root ref (.obj (recordObj fu req props)) (N + 1) x
      (isDictV x &&
        ((dictKvs x).all (knownOrAllowed (props.map (·.1)) fu) &&
         (req.all (fun nm => dictHas (dictKvs x) (.str nm)) && props.all (propOk g (dictKvs x))))) := by
  intro n hn
  obtain ⟨m, rfl⟩ : ∃ m, n = m + 1 := ⟨n - 1, by omega⟩
  have hm : N ≤ m := by omega
  obtain ⟨m', rfl⟩ : ∃ m', m = m' + 1 := ⟨m - 1, by omega⟩
  rw [evalSchema_obj]
  have hnull : isNullable (recordObj fu req props) = false := rfl
  have hty : jGet (recordObj fu req props) "type" = some (.str (kw "object")) := rfl
  have hpn : propNames (recordObj fu req props) = props.map (·.1) := rfl
  simp only [hnull, Bool.false_and, Bool.false_eq_true, if_false]
  by_cases hd : isDictV x = true
  · obtain ⟨oid, kvs, rfl⟩ : ∃ oid kvs, x = .dict oid kvs := by
      cases x <;> simp [isDictV] at hd
      exact ⟨_, _, rfl⟩
    simp only [dictKvs] at hkeys hprops ⊢
    have htf : typeFails (recordObj fu req props) (.dict oid kvs) = false := by
      simp [typeFails, hty, typeOk_object, isDictV]
    simp only [htf, Bool.false_eq_true, if_false, isDictV, Bool.true_and]
    simp only [objEval, recordObj, allM]
    have e1 : evalKw (evalSchema root ref (m' + 1)) root ref (recordObj fu req props) (kw "type") (.str (kw "object"))
        (.dict oid kvs) = some true := rfl
    -- additionalProperties
    have e2 : evalKw (evalSchema root ref (m' + 1)) root ref (recordObj fu req props) (kw "additionalProperties")
        (.bool (!fu)) (.dict oid kvs) =
        some (kvs.all (knownOrAllowed (props.map (·.1)) fu)) := by
      rw [evalKw_additionalProperties, hpn]
      apply allM_eq_some_all
      intro p hp
      obtain ⟨nm, hnm⟩ := hkeys p hp
      simp only [knownOrAllowed, hnm, keyText]
      by_cases hc : (props.map (·.1)).contains nm = true
      · rw [if_pos hc, hc]; rfl
      · have hc' : (props.map (·.1)).contains nm = false := by simpa using hc
        rw [if_neg hc, hc']
        rfl
    -- properties
    have e4 : evalKw (evalSchema root ref (m' + 1)) root ref (recordObj fu req props) (kw "properties") (.obj props)
        (.dict oid kvs) =
        some (props.all (propOk g kvs)) := by
      rw [evalKw_properties]
      apply allM_eq_some_all
      intro p hp
      simp only [propOk]
      cases hg : dictGet kvs (.str p.1) with
      | none => rfl
      | some val => simp only []; exact hprops p hp val hg (m' + 1) (by omega)
    have e1' := e1
    simp only [recordObj] at e1' e2 e4
    rw [e1', e2, evalKw_required, e4]
    simp [OB_and_some]
  · have hd' : isDictV x = false := by simpa using hd
    have htf : typeFails (recordObj fu req props) x = true := by simp [typeFails, hty, typeOk_object, hd']
    simp [htf, hd']

end Koda
