/-
  C17 — a whole-tree fixed-point theorem.

  `fix17 v`: the fragment — scalars with no coercer (no processor, or one built-in processor on a string
  validator) or with their default coercer and no processor, equality / None / always-valid / is-dict
  validators, lists, sets, uniform tuples and n-tuples without container predicates or whole-object
  check, maps without container predicates, DictValidatorAny / TypedDictValidator (string keys, any
  requiredness, either unknown-key policy, any whole-object check), DataclassValidator /
  NamedTupleValidator whose fields are all required (a default is used "on trust" and need not be a
  fixed point), optionals, Maybe, user-written wrappers and Lazy (through the environment), nested to
  any depth.
  For every such tree, every input and every amount of fuel: if the validator returns `Valid w`, then
  validating `w` returns `Valid w`.

  Not in the fragment, and why: container predicates (finding D22: they are evaluated on the coerced
  input, not the payload), unions (finding D25: an earlier variant may take the payload over; see
  `C17_union_fixed_partial`), `RecordValidator` (its payload is whatever `into` returns, not a dict),
  record coercers, class records with defaulted fields, `KeyNotRequired` (its payload `Just w` is not
  an input of the inner validator).
-/
import KodaModel.Properties.C07
import KodaModel.Properties.C17Union
import KodaModel.Properties.C17Cont

namespace Koda

def builtinProc (p : Proc) : Bool :=
  match p.k with
  | .strip | .upper | .lower => true
  | _ => false

def scalarFix (tg : Ty) (c : Option CoerceK) (pre : List Proc) : Bool :=
  match c, pre with
  | none, [] => true
  | none, [p] => tg == .str && builtinProc p
  | some .dflt, [] => coercing tg
  | _, _ => false

def isDflt17 : Option CoerceK → Bool
  | some .dflt => true
  | _ => false

/-- the declared keys are the field names -/
def keyNamesB : List PyVal → List String → Bool
  | [], [] => true
  | .str s :: ks, n :: ns => s == n.toList.map Char.toNat && keyNamesB ks ns
  | _, _ => false

theorem keyNamesB_eq : ∀ (ks : List PyVal) (ns : List String), keyNamesB ks ns = true → ks = ns.map keyStr
  | [], [], _ => rfl
  | [], _ :: _, h => by simp [keyNamesB] at h
  | .str s :: ks, n :: ns, h => by
    simp only [keyNamesB, Bool.and_eq_true, beq_iff_eq] at h
    simp only [List.map_cons, keyStr, List.cons.injEq, PyVal.str.injEq]
    exact ⟨h.1, keyNamesB_eq ks ns h.2⟩
  | .str _ :: _, [], h => by simp [keyNamesB] at h
  | .none :: _, _, h => by simp [keyNamesB] at h
  | .bool _ :: _, _, h => by simp [keyNamesB] at h
  | .int _ :: _, _, h => by simp [keyNamesB] at h
  | .float _ :: _, _, h => by simp [keyNamesB] at h
  | .bytes _ :: _, _, h => by simp [keyNamesB] at h
  | .decimal _ :: _, _, h => by simp [keyNamesB] at h
  | .uuid _ :: _, _, h => by simp [keyNamesB] at h
  | .date _ :: _, _, h => by simp [keyNamesB] at h
  | .datetime _ _ :: _, _, h => by simp [keyNamesB] at h
  | .list _ _ :: _, _, h => by simp [keyNamesB] at h
  | .tuple _ _ :: _, _, h => by simp [keyNamesB] at h
  | .set _ _ :: _, _, h => by simp [keyNamesB] at h
  | .dict _ _ :: _, _, h => by simp [keyNamesB] at h
  | .just _ _ :: _, _, h => by simp [keyNamesB] at h
  | .nothing :: _, _, h => by simp [keyNamesB] at h
  | .inst .. :: _, _, h => by simp [keyNamesB] at h
  | .sub _ _ :: _, _, h => by simp [keyNamesB] at h

/-- record configurations of the fragment (`n` = number of child validators) -/
def recFix (cfg : RecCfg) (n : Nat) : Bool :=
  keysOKb cfg.keys && n == cfg.keys.length && cfg.keys.length == cfg.reqs.length &&
  (match cfg.kind with
   | .dictAny => true
   | .typeddict => cfg.coerce.isNone
   | .dataclass | .namedtuple =>
     cfg.coerce.isNone && keyNamesB cfg.keys cfg.fieldNames && cfg.fieldNames.length == cfg.defaults.length &&
       cfg.reqs.all id
   | .record => false)

def plainNone : V → Bool
  | .noneV _ none => true
  | _ => false

mutual
def fix17 : V → Bool
  | .scalar _ tg c pre _ _ => scalarFix tg c pre
  | .equals _ _ pre _ => pre.isEmpty
  | .noneV _ c => c.isNone
  | .always _ => true
  | .isDict _ => true
  | .list _ item ps aps c => ps.isEmpty && aps.isEmpty && c.isNone && fix17 item
  | .utuple _ item ps aps c => ps.isEmpty && aps.isEmpty && isDflt17 c && fix17 item
  | .ntuple _ fs oc c _ => oc.isNone && isDflt17 c && fix17L fs
  | .optional _ nv inner => plainNone nv && fix17 inner
  | .maybe _ inner => fix17 inner
  | .lazy _ _ => true
  | .user _ inner => fix17 inner
  | .set _ item ps aps c => ps.isEmpty && aps.isEmpty && c.isNone && fix17 item
  | .map _ kv vv ps aps c => ps.isEmpty && aps.isEmpty && c.isNone && fix17 kv && fix17 vv
  | .record _ cfg vs => recFix cfg vs.length && fix17L vs
  | .union .. => false
  | .knr .. => false
termination_by structural v => v
def fix17L : List V → Bool
  | [] => true
  | v :: vs => fix17 v && fix17L vs
termination_by structural vs => vs
end

theorem fix17L_mem : ∀ {vs : List V}, fix17L vs = true → ∀ v ∈ vs, fix17 v = true
  | [], _, v, hv => by simp at hv
  | a :: vs, h, v, hv => by
    simp only [fix17L, Bool.and_eq_true] at h
    simp only [List.mem_cons] at hv
    rcases hv with rfl | hv
    · exact h.1
    · exact fix17L_mem h.2 v hv

/-- the string a built-in processor returns is a string -/
theorem builtin_call_str (p : Proc) (hb : builtinProc p = true) (s : List Nat) (z : PyVal)
    (h : p.k.call (.str s) = .ok z) : ∃ s', z = .str s' := by
  unfold builtinProc at hb
  cases hk : p.k <;> simp [hk] at hb <;> simp only [hk, ProcK.call, PyVal.unsub, Except.ok.injEq] at h <;>
    exact ⟨_, h.symm⟩

theorem ty_str (x : PyVal) (h : x.ty = .str) : ∃ s, x = .str s := by
  cases x <;> simp [PyVal.ty] at h
  exact ⟨_, rfl⟩

/-- **scalars of the fragment** -/
theorem C17_scalar_tree (o : Oracle) (ho : OracleTyped o) (m : Mode) (vid : Nat) (tg : Ty) (c : Option CoerceK)
    (pre : List Proc) (ps aps : List Pred) (hf : scalarFix tg c pre = true) (x w : PyVal) (t : List Ev)
    (h : scalarStep o m vid tg c pre ps aps x = (.valid w, t)) :
    ∃ t', scalarStep o m vid tg c pre ps aps w = (.valid w, t') := by
  have h' := h
  rw [C02_accept_iff] at h'
  obtain ⟨_, y, t0, t1, hg, hp, _, _, _⟩ := h'
  cases c with
  | none =>
    have hy : y = x ∧ x.ty = tg := by
      simp only [gate] at hg
      split at hg
      · cases hg; exact ⟨rfl, by assumption⟩
      · cases hg
    obtain ⟨rfl, hty⟩ := hy
    cases pre with
    | nil =>
      simp only [runProcs, Prod.mk.injEq, Except.ok.injEq] at hp
      obtain ⟨rfl, _⟩ := hp
      exact C17_scalar_fixed o m vid tg none [] ps aps y y t h (by simp [GateFix, gate, hty]) (ProcsFix_nil y)
    | cons p rest =>
      cases rest with
      | cons q rest => simp [scalarFix] at hf
      | nil =>
        simp only [scalarFix, Bool.and_eq_true, beq_iff_eq] at hf
        obtain ⟨rfl, hb⟩ := hf
        obtain ⟨s, rfl⟩ := ty_str y hty
        simp only [runProcs] at hp
        cases hc : p.k.call (.str s) with
        | error e => simp [hc] at hp
        | ok z =>
          simp only [hc, runProcs, Prod.mk.injEq, Except.ok.injEq] at hp
          obtain ⟨rfl, _⟩ := hp
          obtain ⟨s', rfl⟩ := builtin_call_str p hb s z hc
          have hk : p.k = .strip ∨ p.k = .upper ∨ p.k = .lower := by
            unfold builtinProc at hb
            cases hk : p.k <;> simp [hk] at hb <;> simp
          exact C17_scalar_fixed o m vid .str none [p] ps aps (.str s) (.str s') t h
            (by simp [GateFix, gate, PyVal.ty]) (ProcsFix_builtin p s (.str s') hk hc)
  | some ck =>
    cases ck with
    | dflt =>
      cases pre with
      | cons p rest => simp [scalarFix] at hf
      | nil =>
        simp only [scalarFix] at hf
        simp only [runProcs, Prod.mk.injEq, Except.ok.injEq] at hp
        obtain ⟨rfl, _⟩ := hp
        have hd : defaultCoerce o tg x = some y := by
          simp only [gate, applyCoerce] at hg
          cases hdc : defaultCoerce o tg x with
          | none => simp [hdc] at hg
          | some y' => simp [hdc] at hg; rw [hg.1]
        have hty : y.ty = tg := defaultCoerce_typed o ho tg hf x y hd
        have htg : tg = .decimal ∨ tg = .uuid ∨ tg = .date ∨ tg = .datetime := by
          cases tg <;> simp [coercing] at hf <;> simp
        exact C17_scalar_fixed o m vid tg (some .dflt) [] ps aps x y t h (GateFix_default o tg y hty htg) (ProcsFix_nil y)
    | classOnly => simp [scalarFix] at hf
    | user cid compat f => simp [scalarFix] at hf

/-- payloads of a run over all-accepted items: each is the child's payload of some input -/
theorem ItemsRun_payloads {ev : Ev1} {xs : List PyVal} {i : Nat} {ws : List PyVal} {t : List Ev}
    (h : ItemsRun ev xs i ws [] t) : ∀ w ∈ ws, ∃ x u, ev x = some (.valid w, u) := by
  generalize hes : ([] : List (Nat × Inv)) = es at h
  induction h with
  | nil => intro w hw; simp at hw
  | @valid x xs i w0 ws es t t' hx _ ih =>
    intro w hw
    simp only [List.mem_cons] at hw
    rcases hw with rfl | hw
    · exact ⟨x, t, hx⟩
    · exact ih hes w hw
  | invalid => simp at hes

theorem FieldsRun_payloads : ∀ {evs : List Ev1} {xs : List PyVal} {i : Nat} {ws : List PyVal} {t : List Ev},
    FieldsRun evs xs i ws [] t → evs.length = ws.length ∧ ∀ p ∈ evs.zip ws, ∃ x u, p.1 x = some (.valid p.2, u) := by
  intro evs xs i ws t h
  generalize hes : ([] : List (Nat × Inv)) = es at h
  induction h with
  | nil => simp
  | @valid ev evs x xs i w ws es t t' hx _ ih =>
    obtain ⟨hl, hall⟩ := ih hes
    refine ⟨by simp [hl], ?_⟩
    intro p hp
    simp only [List.zip_cons_cons, List.mem_cons] at hp
    rcases hp with rfl | hp
    · exact ⟨x, t, hx⟩
    · exact hall p hp
  | invalid => simp at hes

/-- the default tuple coercer yields a tuple -/
theorem gate_dflt_tuple (o : Oracle) (x y : PyVal) (t : List Ev)
    (h : gate o .tuple .list (some .dflt) x = .acc y t) : ∃ oid l, y = .tuple oid l := by
  simp only [gate, applyCoerce, defaultCoerce] at h
  cases x <;> simp at h
  · exact ⟨_, _, h.1.symm⟩
  · exact ⟨_, _, h.1.symm⟩

/-- a result decided before the slots is never an acceptance -/
theorem ntuplePre_inl_not_valid {o vid c lp n x r} (h : ntuplePre o vid c lp n x = .inl r) (w : PyVal) :
    r.1 ≠ .valid w := by
  unfold ntuplePre at h
  split at h
  · simp at h; rw [← h]; simp
  · simp at h; rw [← h]; simp
  · split at h
    · simp at h; rw [← h]; simp
    · split at h
      · simp at h; rw [← h]; simp
      · split at h
        · simp at h; rw [← h]; simp
        · simp at h

/-- **C17 for every tree of the fragment** -/
theorem C17_tree_partial (o : Oracle) (ho : OracleTyped o) (env : Nat → V) (henv : ∀ i, fix17 (env i) = true)
    (m : Mode) : ∀ n v x w t, fix17 v = true → run o env m n v x = some (.valid w, t) →
      ∃ t', run o env m n v w = some (.valid w, t') := by
  intro n
  induction n with
  | zero => intro v x w t _ h; simp [run] at h
  | succ n ih =>
    intro v x w t hf h
    cases v with
    | scalar vid tg c pre ps aps =>
      simp only [fix17] at hf
      simp only [run, Option.some.injEq] at h ⊢
      exact C17_scalar_tree o ho m vid tg c pre ps aps hf x w t h
    | equals vid mt pre pid =>
      simp only [fix17, List.isEmpty_iff] at hf
      subst hf
      simp only [run, Option.some.injEq] at h ⊢
      have hw : w = x := by
        unfold equalsStep at h
        split at h
        · simp only [runProcs] at h
          split at h <;> simp at h
          exact h.1.symm
        · simp at h
      subst hw
      exact ⟨t, h⟩
    | noneV vid c =>
      simp only [fix17, Option.isNone_iff_eq_none] at hf
      subst hf
      simp only [run, Option.some.injEq] at h ⊢
      cases x <;> simp [noneStep] at h
      obtain ⟨rfl, _⟩ := h
      exact ⟨[], rfl⟩
    | always vid =>
      simp only [run, Option.some.injEq, Prod.mk.injEq, Out.valid.injEq] at h ⊢
      exact ⟨[], by simp⟩
    | isDict vid =>
      simp only [run, Option.some.injEq] at h ⊢
      unfold isDictStep at h ⊢
      split at h
      · rename_i hb
        simp only [Prod.mk.injEq, Out.valid.injEq] at h
        obtain ⟨rfl, _⟩ := h
        exact ⟨[], by simp [hb]⟩
      · simp at h
    | list vid item ps aps c =>
      simp only [fix17, Bool.and_eq_true, List.isEmpty_iff, Option.isNone_iff_eq_none] at hf
      obtain ⟨⟨⟨rfl, rfl⟩, rfl⟩, hfi⟩ := hf
      simp only [run] at h ⊢
      rw [C03_seq_accept_iff _ _ _ _ _ _ _ _ (by intro hk; cases hk)] at h
      obtain ⟨y, xs, t0, ws, t1, _, hrun, rfl, _⟩ := h
      have hitems : ∀ w ∈ ws, ∃ t, run o env m n item w = some (.valid w, t) := by
        intro w hw
        obtain ⟨x', u, hx'⟩ := ItemsRun_payloads hrun w hw
        exact ih item x' w u hfi hx'
      exact C17_list_fixed o m vid [] [] _ ws (by simp) ⟨[], by simp [contPreds, runPreds, runAPreds]⟩ hitems
    | utuple vid item ps aps c =>
      simp only [fix17, Bool.and_eq_true, List.isEmpty_iff] at hf
      obtain ⟨⟨⟨rfl, rfl⟩, hc⟩, hfi⟩ := hf
      obtain rfl : c = some .dflt := by
        cases c with
        | none => simp [isDflt17] at hc
        | some k => cases k <;> simp [isDflt17] at hc; rfl
      simp only [run] at h ⊢
      rw [C03_seq_accept_iff _ _ _ _ _ _ _ _ (by intro hk; cases hk)] at h
      obtain ⟨y, xs, t0, ws, t1, _, hrun, rfl, _⟩ := h
      have hitems : ∀ w ∈ ws, ∃ t, run o env m n item w = some (.valid w, t) := by
        intro w hw
        obtain ⟨x', u, hx'⟩ := ItemsRun_payloads hrun w hw
        exact ih item x' w u hfi hx'
      exact C17_utuple_fixed o m vid [] [] _ ws (by simp) ⟨[], by simp [contPreds, runPreds, runAPreds]⟩ hitems
    | ntuple vid fs oc c lp =>
      simp only [fix17, Bool.and_eq_true, Option.isNone_iff_eq_none] at hf
      obtain ⟨⟨rfl, hc⟩, hfs⟩ := hf
      obtain rfl : c = some .dflt := by
        cases c with
        | none => simp [isDflt17] at hc
        | some k => cases k <;> simp [isDflt17] at hc; rfl
      simp only [run] at h ⊢
      cases hp : ntuplePre o vid (some .dflt) lp (fs.map (run o env m n)).length x with
      | inl r =>
        simp only [ntupleStep, hp, Option.some.injEq] at h
        exact absurd (by rw [h]) (ntuplePre_inl_not_valid hp w)
      | inr q =>
        obtain ⟨y, xs, t0⟩ := q
        have hlen : (fs.map (run o env m n)).length = xs.length := by
          obtain ⟨hg, hn, hit⟩ := (C03_ntuple_pre_iff o vid (some .dflt) lp _ x y xs t0).1 hp
          obtain ⟨oid, l, rfl⟩ := gate_dflt_tuple o x y t0 hg
          simp only [pyLen, pyIter, Option.some.injEq] at hn hit
          subst hit
          exact hn.symm
        rw [C03_ntuple_accept_iff o vid none (some .dflt) lp _ x y xs t0 hp hlen] at h
        obtain ⟨ws, t1, hrun, rfl, _, _⟩ := h
        obtain ⟨hl2, hall⟩ := FieldsRun_payloads hrun
        have hitems : ∀ p ∈ (fs.map (run o env m n)).zip ws, ∃ t, p.1 p.2 = some (.valid p.2, t) := by
          intro p hp'
          obtain ⟨x', u, hx'⟩ := hall p hp'
          -- p.1 is `run … f` for a field validator f of the fragment
          have hmem : p.1 ∈ fs.map (run o env m n) := (List.of_mem_zip hp').1
          obtain ⟨f, hfm, hfe⟩ := List.mem_map.1 hmem
          rw [← hfe] at hx' ⊢
          exact ih f x' p.2 u (fix17L_mem hfs f hfm) hx'
        exact C17_ntuple_fixed o vid lp _ ws hl2 hitems
    | optional vid nv inner =>
      simp only [fix17, Bool.and_eq_true] at hf
      obtain ⟨hn, hfi⟩ := hf
      obtain ⟨nvid, rfl⟩ : ∃ nvid, nv = .noneV nvid none := by
        cases nv <;> simp [plainNone] at hn
        rename_i nvid c
        cases c <;> simp [plainNone] at hn
        exact ⟨nvid, rfl⟩
      simp only [run] at h ⊢
      cases n with
      | zero => simp [run, unionStep, unionLoop] at h
      | succ n' =>
        have hnv : run o env m (n' + 1) (.noneV nvid none) = fun y => some (noneStep o nvid none y) := by
          funext y; simp [run]
        rw [hnv] at h ⊢
        exact C17_optional_fixed o nvid vid _ x w t h (fun ⟨u, hu⟩ => ih inner x w u hfi hu)
    | maybe vid inner =>
      simp only [fix17] at hf
      simp only [run] at h ⊢
      unfold maybeStep at h
      cases x with
      | nothing =>
        simp only [Option.some.injEq, Prod.mk.injEq, Out.valid.injEq] at h
        obtain ⟨rfl, _⟩ := h
        exact ⟨[], by simp [maybeStep]⟩
      | just oid v =>
        simp only at h
        cases hv : run o env m n inner v with
        | none => simp [hv] at h
        | some p =>
          obtain ⟨out, u⟩ := p
          cases out with
          | valid w' =>
            simp only [hv, Option.some.injEq, Prod.mk.injEq, Out.valid.injEq] at h
            obtain ⟨rfl, _⟩ := h
            obtain ⟨t', ht'⟩ := ih inner v w' u hf hv
            exact ⟨t', by simp [maybeStep, ht']⟩
          | invalid e => simp [hv] at h
          | raised e => simp [hv] at h
      | _ => simp at h
    | «lazy» vid ref =>
      simp only [run] at h ⊢
      exact ih (env ref) x w t (henv ref) h
    | user vid inner =>
      simp only [fix17] at hf
      simp only [run] at h ⊢
      unfold userStep at h ⊢
      cases hv : run o env m n inner x with
      | none => simp [hv] at h
      | some p =>
        obtain ⟨out, u⟩ := p
        simp only [hv, Option.some.injEq, Prod.mk.injEq] at h
        obtain ⟨rfl, _⟩ := h
        obtain ⟨t', ht'⟩ := ih inner x w u hf hv
        exact ⟨Ev.uv vid m :: t', by simp [ht']⟩
    | set vid item ps aps c =>
      simp only [fix17, Bool.and_eq_true, List.isEmpty_iff, Option.isNone_iff_eq_none] at hf
      obtain ⟨⟨⟨rfl, rfl⟩, rfl⟩, hfi⟩ := hf
      simp only [run] at h ⊢
      obtain ⟨ws, rfl, hws⟩ := seqStep_set_valid_inv o m vid _ x w t h
      exact C17_set_fixed o m vid _ ws (fun w' hw' => by
        obtain ⟨hh, x', u, hx'⟩ := hws w' hw'
        exact ⟨hh, ih item x' w' u hfi hx'⟩)
    | map vid kv vv ps aps c =>
      simp only [fix17, Bool.and_eq_true, List.isEmpty_iff, Option.isNone_iff_eq_none] at hf
      obtain ⟨⟨⟨⟨rfl, rfl⟩, rfl⟩, hfk⟩, hfv⟩ := hf
      simp only [run] at h ⊢
      exact C17_map_fixed o m vid _ _ x w t h (fun k kw u hk => ih kv k kw u hfk hk)
        (fun v vw u hv => ih vv v vw u hfv hv)
    | record vid cfg vs =>
      simp only [fix17, recFix, Bool.and_eq_true, beq_iff_eq] at hf
      obtain ⟨⟨⟨⟨hkeys, hl1⟩, hl2⟩, hkind⟩, hfs⟩ := hf
      simp only [run] at h ⊢
      have hfix : ∀ ev ∈ vs.map (run o env m n), ∀ x w u, ev x = some (.valid w, u) →
          ∃ u', ev w = some (.valid w, u') := by
        intro ev hev x' w' u hx'
        obtain ⟨f, hfm, rfl⟩ := List.mem_map.1 hev
        exact ih f x' w' u (fix17L_mem hfs f hfm) hx'
      have hlen : (vs.map (run o env m n)).length = cfg.keys.length := by simpa using hl1
      cases hk : cfg.kind with
      | record => simp [hk] at hkind
      | dictAny => exact C17_dictrecord_fixed o m vid cfg _ x w t (.inl hk) hkeys hlen hl2 h hfix
      | typeddict =>
        simp only [hk, Option.isNone_iff_eq_none] at hkind
        exact C17_dictrecord_fixed o m vid cfg _ x w t (.inr ⟨hk, hkind⟩) hkeys hlen hl2 h hfix
      | dataclass =>
        simp only [hk, Bool.and_eq_true, Option.isNone_iff_eq_none, beq_iff_eq] at hkind
        obtain ⟨⟨⟨hco, hkn⟩, hdl⟩, hreq⟩ := hkind
        exact C17_classrecord_fixed o m vid cfg _ x w t (.inl hk) hco hkeys (keyNamesB_eq _ _ hkn) hdl hreq hlen hl2 h hfix
      | namedtuple =>
        simp only [hk, Bool.and_eq_true, Option.isNone_iff_eq_none, beq_iff_eq] at hkind
        obtain ⟨⟨⟨hco, hkn⟩, hdl⟩, hreq⟩ := hkind
        exact C17_classrecord_fixed o m vid cfg _ x w t (.inr hk) hco hkeys (keyNamesB_eq _ _ hkn) hdl hreq hlen hl2 h hfix
    | union vid vs => simp [fix17] at hf
    | knr vid inner => simp [fix17] at hf

/-! ### non-vacuity: `Optional[List[Tuple[Decimal, str (stripped)]]]` -/

def exFix : V :=
  .optional 1 (.noneV 2 none)
    (.list 3 (.ntuple 4 [.scalar 5 .decimal (some .dflt) [] [] [], .scalar 6 .str none [⟨1, .strip⟩] [⟨2, .minLength 1⟩] []]
      none (some .dflt) 9) [] [] none)

example : fix17 exFix = true := by decide

/-- `TypedDict('T', {'a': Set[int], 'b': NotRequired[Dict[str, Decimal]]})` and a two-field dataclass -/
def exFix2 : V :=
  .record 20 { kind := .typeddict, keys := [.str [97], .str [98]], reqs := [true, false], cls := default,
               fieldNames := [], defaults := [], intoId := 0, into := fun _ => .none, oc := none, aoc := none,
               failUnknown := true, coerce := none }
    [.set 21 (.scalar 22 .int none [] [] []) [] [] none,
     .map 23 (.scalar 24 .str none [] [] []) (.scalar 25 .decimal (some .dflt) [] [] []) [] [] none]

example : fix17 exFix2 = true := by decide

def exFix3 : V :=
  .record 30 { kind := .dataclass, keys := [keyStr "x", keyStr "y"], reqs := [true, true], cls := ⟨1, 1, false, false⟩,
               fieldNames := ["x", "y"], defaults := [none, none], intoId := 0, into := fun _ => .none, oc := none,
               aoc := none, failUnknown := false, coerce := none }
    [.scalar 31 .int none [] [] [], exFix2]

example : fix17 exFix3 = true := by decide

end Koda
