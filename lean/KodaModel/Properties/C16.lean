/-
  C16 — Default coercions accept exactly the declared sources and parse like the stdlib.

  The stdlib parsers are an abstract `Oracle`; every theorem holds for every oracle.  (In the driver
  the oracle is the table of what the real constructors return for the strings of the case.)
-/
import KodaModel.Eval

namespace Koda

/-- **Decimal**: an exact `Decimal` unchanged; a `str` (or subclass) that `Decimal(str)` parses, as
    parsed; an `int` (bool included, as the code has it) exactly; nothing else. -/
theorem C16_decimal (o : Oracle) (x : PyVal) :
    defaultCoerce o .decimal x =
      if x.ty = .decimal then some x
      else match strLike x with
        | some s => o.decimal s
        | none => match intLike x with
          | some i => some (decOfInt i)
          | none => none := rfl

/-- **UUID**: an exact `UUID` unchanged; an exact `str` that `UUID(str)` parses; nothing else -/
theorem C16_uuid (o : Oracle) (x : PyVal) :
    defaultCoerce o .uuid x =
      if x.ty = .uuid then some x else match x with | .str s => o.uuid s | _ => none := rfl

/-- **date**: an exact `date` unchanged; a string `date.fromisoformat` parses; nothing else -/
theorem C16_date (o : Oracle) (x : PyVal) :
    defaultCoerce o .date x =
      if x.ty = .date then some x else match strLike x with | some s => o.date s | none => none := rfl

theorem C16_datetime (o : Oracle) (x : PyVal) :
    defaultCoerce o .datetime x =
      if x.ty = .datetime then some x else match strLike x with | some s => o.datetime s | none => none := rfl

/-- **tuples**: an exact `tuple` unchanged (same object), an exact `list` converted; nothing else -/
theorem C16_tuple (o : Oracle) (x : PyVal) :
    defaultCoerce o .tuple x =
      match x with | .tuple _ _ => some x | .list _ xs => some (.tuple 0 xs) | _ => none := rfl

/-- floats and bytes are never coerced; a datetime is not a date; a date is not a datetime -/
theorem C16_never (o : Oracle) (f : FloatV) (b : List Nat) (us : Int) (off : Option Int) (d : Nat) :
    defaultCoerce o .decimal (.float f) = none ∧ defaultCoerce o .decimal (.bytes b) = none ∧
    defaultCoerce o .uuid (.bytes b) = none ∧ defaultCoerce o .uuid (.int 5) = none ∧
    defaultCoerce o .date (.bytes b) = none ∧ defaultCoerce o .date (.datetime us off) = none ∧
    defaultCoerce o .datetime (.date d) = none ∧ defaultCoerce o .datetime (.bytes b) = none ∧
    defaultCoerce o .tuple (.set 0 []) = none := by
  simp [defaultCoerce, PyVal.ty, strLike, intLike, PyVal.unsub]

/-- subclasses of the target type are rejected (they are not *exactly* the target) — shown for a
    tuple subclass, whose instances are not coerced either -/
theorem C16_subclass_rejected (o : Oracle) (c : ClassId) (oid : Nat) (xs : List PyVal) :
    defaultCoerce o .tuple (.sub c (.tuple oid xs)) = none := rfl

/-- the scalar validator with its default coercer: accepted values and the rejection -/
theorem C16_validator (o : Oracle) (m : Mode) (vid : Nat) (tg : Ty) (x : PyVal) :
    scalarStep o m vid tg (some .dflt) [] [] [] x =
      match defaultCoerce o tg x with
      | some y => (.valid y, [])
      | none => (.invalid (.mk (.coercion (defaultCompat tg) tg) x vid []), []) := by
  simp only [scalarStep, gate, applyCoerce]
  cases hd : defaultCoerce o tg x with
  | none => simp
  | some y => cases m <;> simp [runProcs, finishPreds, contPreds, runPreds, runAPreds]

/-- the declared compatible types -/
theorem C16_compat :
    defaultCompat .decimal = [.str, .int, .decimal] ∧ defaultCompat .uuid = [.str, .uuid] ∧
    defaultCompat .date = [.str, .date] ∧ defaultCompat .datetime = [.str, .datetime] ∧
    defaultCompat .tuple = [.list, .tuple] := ⟨rfl, rfl, rfl, rfl, rfl⟩

/-- **canonical text round-trips**: if the parser inverts the printer (a law of the stdlib pair
    `str`/`Decimal`, `isoformat`/`fromisoformat`, `str`/`UUID`), validating the canonical text of a
    target-type value yields that value -/
theorem C16_roundtrip (o : Oracle) (m : Mode) (vid : Nat) (print : PyVal → List Nat) (d : PyVal)
    (law : o.decimal (print d) = some d) :
    scalarStep o m vid .decimal (some .dflt) [] [] [] (.str (print d)) = (.valid d, []) := by
  rw [C16_validator]
  simp [defaultCoerce, PyVal.ty, strLike, PyVal.unsub, law]

/-- non-vacuity: an oracle that parses "1.5" -/
example : defaultCoerce { (default : Oracle) with decimal := fun s => if s = [49, 46, 53] then some (.decimal (.fin false 15 (-1))) else none }
    .decimal (.str [49, 46, 53]) = some (.decimal (.fin false 15 (-1))) := by rfl

end Koda
