/-
  C06, second half — **whenever no async-only check is configured, the synchronous call returns**:
  the only `AssertionError` in the library is the guard of validators that have async-only checks, so
  a tree without them (`afree`, judged through the environment for `Lazy`) never raises it in sync
  mode, at any fuel, nesting or recursion.
-/
import KodaModel.Properties.C06
import KodaModel.Properties.C01

namespace Koda

/-! ### no predicate, processor or coercer raises an AssertionError -/

theorem pyLt_noassert (a b : PyVal) : pyLt a b ≠ .error .assertion := by
  unfold pyLt
  split <;> try simp
  split
  · split <;> simp
  · simp

theorem pyLe_noassert (a b : PyVal) : pyLe a b ≠ .error .assertion := by
  unfold pyLe
  have := pyLt_noassert a b
  split
  · rename_i e h; intro hh; simp only [Except.error.injEq] at hh; subst hh; exact this h
  · simp
  · simp

theorem pyEqX_noassert (a b : PyVal) : pyEqX a b ≠ .error .assertion := by
  unfold pyEqX
  split
  · split <;> simp
  · simp

theorem decModIsZero_noassert (a b : Dec) : decModIsZero a b ≠ .error .assertion := by
  unfold decModIsZero
  split <;> try simp
  split <;> try simp
  split <;> try simp
  split <;> try simp
  split <;> try simp
  split <;> simp

theorem modIsZero_noassert (v f : PyVal) : modIsZero v f ≠ .error .assertion := by
  unfold modIsZero
  repeat' (first | exact decModIsZero_noassert _ _ | (simp; done) | split)

theorem lenCmp_noassert (x : PyVal) (f : Int → Bool) : lenCmp x f ≠ .error .assertion := by
  unfold lenCmp; split <;> simp

theorem PredK_call_noassert (p : PredK) (x : PyVal) : p.call x ≠ .error .assertion := by
  cases p <;> simp only [PredK.call]
  case min m e => split; exact pyLt_noassert _ _; exact pyLe_noassert _ _
  case max m e => split; exact pyLt_noassert _ _; exact pyLe_noassert _ _
  case multipleOf f => exact modIsZero_noassert _ _
  case equalTo m => exact pyEqX_noassert _ _
  case choices vs => split <;> simp
  case minLength n => exact lenCmp_noassert _ _
  case maxLength n => exact lenCmp_noassert _ _
  case exactLength n => exact lenCmp_noassert _ _
  case startsWith q => split <;> simp
  case endsWith q => split <;> simp
  case notBlank => split <;> simp
  case regex r => split <;> simp
  case email => split <;> simp
  case minItems n => exact lenCmp_noassert _ _
  case maxItems n => exact lenCmp_noassert _ _
  case exactItemCount n => exact lenCmp_noassert _ _
  case uniqueItems => split <;> (try split) <;> (try split) <;> simp
  case minKeys n => exact lenCmp_noassert _ _
  case maxKeys n => exact lenCmp_noassert _ _
  case user f => simp

theorem ProcK_call_noassert (p : ProcK) (x : PyVal) : p.call x ≠ .error .assertion := by
  cases p <;> simp only [ProcK.call] <;> (try split) <;> simp

theorem runPreds_noassert (ps : List Pred) (x : PyVal) : (runPreds ps x).2.2 ≠ some .assertion := by
  induction ps with
  | nil => simp [runPreds]
  | cons p ps ih =>
    simp only [runPreds]
    cases hc : p.k.call x with
    | error e =>
      simp only
      intro h
      simp only [Option.some.injEq] at h
      subst h
      exact PredK_call_noassert p.k x hc
    | ok b => simpa using ih

theorem runAPreds_noassert (ps : List Pred) (x : PyVal) : (runAPreds ps x).2.2 ≠ some .assertion := by
  induction ps with
  | nil => simp [runAPreds]
  | cons p ps ih =>
    simp only [runAPreds]
    cases hc : p.k.call x with
    | error e =>
      simp only
      intro h
      simp only [Option.some.injEq] at h
      subst h
      exact PredK_call_noassert p.k x hc
    | ok b => simpa using ih

theorem contPreds_noassert (m : Mode) (ps aps : List Pred) (x : PyVal) : (contPreds m ps aps x).2.2 ≠ some .assertion := by
  have h1 := runPreds_noassert ps x
  have h2 := runAPreds_noassert aps x
  simp only [contPreds]
  cases he : (runPreds ps x).2.2 with
  | some e =>
    simp only
    intro h
    simp only [Option.some.injEq] at h
    subst h
    exact h1 he
  | none =>
    simp only
    split
    · exact h2
    · simp

theorem runProcs_noassert (pre : List Proc) (x : PyVal) : (runProcs pre x).1 ≠ .error .assertion := by
  induction pre generalizing x with
  | nil => simp [runProcs]
  | cons p ps ih =>
    simp only [runProcs]
    cases hc : p.k.call x with
    | error e =>
      simp only
      intro h
      simp only [Except.error.injEq] at h
      subst h
      exact ProcK_call_noassert p.k x hc
    | ok y => exact ih y


/-! ### the steps: an AssertionError comes out only if a child produced one or the own guard fired -/

theorem scalarStep_noassert (o : Oracle) (m : Mode) (vid : Nat) (tg : Ty) (c : Option CoerceK) (pre : List Proc)
    (ps : List Pred) (x : PyVal) : (scalarStep o m vid tg c pre ps [] x).1 ≠ .raised .assertion := by
  unfold scalarStep
  split
  · rename_i h; exact absurd rfl h.2
  · split
    · rename_i e t hg; exact absurd hg (gate_noexn _ _ _ _ _ _ _)
    · simp
    · rename_i y t hg
      split
      · rename_i e t2 hp
        have := runProcs_noassert pre y
        rw [hp] at this
        intro h; simp only [Out.raised.injEq] at h; subst h; exact this rfl
      · rename_i z t2 hp
        simp only [finishPreds]
        have := contPreds_noassert m ps [] z
        split
        · rename_i e he
          intro h; simp only [Out.raised.injEq] at h; subst h; exact this he
        · split <;> simp

theorem equalsStep_noassert (vid : Nat) (mt : PyVal) (pre : List Proc) (pid : Nat) (x : PyVal) :
    (equalsStep vid mt pre pid x).1 ≠ .raised .assertion := by
  unfold equalsStep
  split
  · split
    · rename_i e t hp
      have := runProcs_noassert pre x
      rw [hp] at this
      intro h; simp only [Out.raised.injEq] at h; subst h; exact this rfl
    · rename_i z t hp
      split
      · rename_i e he
        intro h; simp only [Out.raised.injEq] at h; subst h; exact pyEqX_noassert z mt he
      · simp
      · simp
  · simp

theorem seqPre_noassert (k : SeqKind) (o : Oracle) (m : Mode) (vid : Nat) (ps : List Pred) (c : Option CoerceK) :
    ∀ x r, seqPre k o m vid ps [] c x = .inl r → r.1 ≠ .raised .assertion := by
  intro x r hr
  unfold seqPre at hr
  split at hr
  · rename_i h; exact absurd rfl h.2
  · split at hr
    · rename_i e t hg; exact absurd hg (gate_noexn _ _ _ _ _ _ _)
    · simp only [Sum.inl.injEq] at hr; rw [← hr]; simp
    · rename_i y t hg
      have := contPreds_noassert m ps [] y
      split at hr
      · rename_i f t2 e hc
        simp only [Sum.inl.injEq] at hr
        rw [← hr]
        rw [hc] at this
        intro h; simp only [Out.raised.injEq] at h; subst h; exact this rfl
      · split at hr
        · simp only [Sum.inl.injEq] at hr; rw [← hr]; simp
        · split at hr
          · simp only [Sum.inl.injEq] at hr; rw [← hr]; simp
          · simp at hr

theorem unionLoop_noassert (x : PyVal) : ∀ (evs : List Ev1), (∀ ev ∈ evs, NoAssert ev) →
    ∀ w es t r, unionLoop x evs = some (w, es, t, r) → r ≠ some .assertion := by
  intro evs
  induction evs with
  | nil => intro _ w es t r h; simp [unionLoop] at h; rw [← h.2.2.2]; simp
  | cons ev evs ih =>
    intro hc w es t r h
    simp only [unionLoop] at h
    cases hx : ev x with
    | none => simp [hx] at h
    | some p =>
      obtain ⟨out, t0⟩ := p
      cases out with
      | raised e =>
        simp [hx] at h
        rw [← h.2.2.2]
        intro hh; simp only [Option.some.injEq] at hh; subst hh
        exact hc ev (by simp) x _ _ hx rfl
      | valid w0 => simp [hx] at h; rw [← h.2.2.2]; simp
      | invalid e0 =>
        simp only [hx] at h
        cases hl : unionLoop x evs with
        | none => simp [hl] at h
        | some q =>
          obtain ⟨w1, es1, t1, r1⟩ := q
          simp only [hl, Option.some.injEq, Prod.mk.injEq] at h
          have := ih (fun e' he' => hc e' (by simp [he'])) w1 es1 t1 r1 hl
          rw [← h.2.2.2]; exact this

theorem unionStep_noassert (vid : Nat) (evs : List Ev1) (h : ∀ ev ∈ evs, NoAssert ev) : NoAssert (unionStep vid evs) := by
  intro x r t hr
  unfold unionStep at hr
  cases hl : unionLoop x evs with
  | none => simp [hl] at hr
  | some q =>
    obtain ⟨w, es, t1, rr⟩ := q
    have := unionLoop_noassert x evs h w es t1 rr hl
    simp only [hl] at hr
    cases rr with
    | some e =>
      simp at hr
      rw [← hr.1]
      intro hh; simp only [Out.raised.injEq] at hh; subst hh; exact this rfl
    | none => cases w <;> simp at hr <;> (rw [← hr.1]; simp)

theorem maybeStep_noassert (vid : Nat) (ev : Ev1) (h : NoAssert ev) : NoAssert (maybeStep vid ev) := by
  intro x r t hr
  unfold maybeStep at hr
  cases x <;> simp at hr <;> try (rw [← hr.1]; simp)
  rename_i oid v
  cases hv : ev v with
  | none => simp [hv] at hr
  | some p =>
    obtain ⟨out, t0⟩ := p
    cases out with
    | raised e' =>
      simp [hv] at hr
      rw [← hr.1]
      intro hh; simp only [Out.raised.injEq] at hh; subst hh
      exact h v _ _ hv rfl
    | valid w => simp [hv] at hr; rw [← hr.1]; simp
    | invalid e0 => simp [hv] at hr; rw [← hr.1]; simp

theorem knrStep_noassert (ev : Ev1) (h : NoAssert ev) : NoAssert (knrStep ev) := by
  intro x r t hr
  unfold knrStep at hr
  cases hv : ev x with
  | none => simp [hv] at hr
  | some p =>
    obtain ⟨out, t0⟩ := p
    cases out with
    | raised e' =>
      simp [hv] at hr
      rw [← hr.1]
      intro hh; simp only [Out.raised.injEq] at hh; subst hh
      exact h x _ _ hv rfl
    | valid w => simp [hv] at hr; rw [← hr.1]; simp
    | invalid e0 => simp [hv] at hr; rw [← hr.1]; simp

theorem userStep_noassert (vid : Nat) (m : Mode) (ev : Ev1) (h : NoAssert ev) : NoAssert (userStep vid m ev) := by
  intro x r t hr
  unfold userStep at hr
  cases hv : ev x with
  | none => simp [hv] at hr
  | some p =>
    obtain ⟨out, t0⟩ := p
    simp [hv] at hr
    rw [← hr.1]
    exact h x out t0 hv


theorem loopFields_noassert : ∀ (evs : List Ev1) (xs : List PyVal) (i : Nat) (r : LoopR),
    (∀ ev ∈ evs, NoAssert ev) → loopFields evs xs i = some r → r.r ≠ some .assertion := by
  intro evs
  induction evs with
  | nil => intro xs i r _ h; simp [loopFields] at h; subst h; simp
  | cons ev evs ih =>
    intro xs i r hc h
    cases xs with
    | nil => simp [loopFields] at h; subst h; simp
    | cons x xs =>
      simp only [loopFields] at h
      cases hx : ev x with
      | none => simp [hx] at h
      | some p =>
        obtain ⟨out, t⟩ := p
        rw [hx] at h
        cases out with
        | raised e =>
          simp only [Option.some.injEq] at h; subst h
          intro hh; simp only [Option.some.injEq] at hh; subst hh
          exact hc ev (by simp) x _ _ hx rfl
        | valid w =>
          simp only at h
          cases hl : loopFields evs xs (i + 1) with
          | none => simp [hl] at h
          | some r' =>
            simp only [hl, Option.some.injEq] at h; subst h
            exact ih xs (i + 1) r' (fun e' he' => hc e' (by simp [he'])) hl
        | invalid e =>
          simp only at h
          cases hl : loopFields evs xs (i + 1) with
          | none => simp [hl] at h
          | some r' =>
            simp only [hl, Option.some.injEq] at h; subst h
            exact ih xs (i + 1) r' (fun e' he' => hc e' (by simp [he'])) hl

theorem ntupleStep_noassert (o : Oracle) (vid : Nat) (oc : Option ObjCheck) (c : Option CoerceK) (lp : Nat)
    (evs : List Ev1) (hc : ∀ ev ∈ evs, NoAssert ev) : NoAssert (ntupleStep o vid oc c lp evs) := by
  intro x r t hr
  unfold ntupleStep at hr
  cases hpre : ntuplePre o vid c lp evs.length x with
  | inl r' =>
    simp only [hpre, Option.some.injEq] at hr
    unfold ntuplePre at hpre
    split at hpre
    · rename_i e' t' hg; exact absurd hg (gate_noexn _ _ _ _ _ _ _)
    · simp only [Sum.inl.injEq] at hpre; rw [← hpre] at hr; cases hr; simp
    · split at hpre
      · simp only [Sum.inl.injEq] at hpre; rw [← hpre] at hr; cases hr; simp
      · split at hpre
        · simp only [Sum.inl.injEq] at hpre; rw [← hpre] at hr; cases hr; simp
        · split at hpre
          · simp only [Sum.inl.injEq] at hpre; rw [← hpre] at hr; cases hr; simp
          · simp at hpre
  | inr q =>
    obtain ⟨y, xs, t0⟩ := q
    simp only [hpre] at hr
    cases hl : loopFields evs xs 0 with
    | none => simp [hl] at hr
    | some rr =>
      simp only [hl, Option.some.injEq] at hr
      have hna := loopFields_noassert evs xs 0 rr hc hl
      have : (ntupleFinish vid oc y t0 rr).1 = r := by rw [hr]
      rw [← this]
      unfold ntupleFinish
      split
      · rename_i e he
        intro hh; simp only [Out.raised.injEq] at hh; subst hh; exact hna he
      · split
        · simp
        · exact runObjCheck_clean oc vid _ _

theorem mapLoop_noassert (evk evv : Ev1) (hk : NoAssert evk) (hv : NoAssert evv) :
    ∀ (kvs acc : List (PyVal × PyVal)) (r : MapR), mapLoop evk evv kvs acc = some r → r.r ≠ some .assertion := by
  intro kvs
  induction kvs with
  | nil => intro acc r h; simp [mapLoop] at h; subst h; simp
  | cons p rest ih =>
    intro acc r h
    obtain ⟨k, v⟩ := p
    simp only [mapLoop] at h
    cases hkk : evk k with
    | none => simp [hkk] at h
    | some pk =>
      obtain ⟨ko, tk⟩ := pk
      cases ko with
      | raised e =>
        simp only [hkk, Option.some.injEq] at h; subst h
        intro hh; simp only [Option.some.injEq] at hh; subst hh
        exact hk k _ _ hkk rfl
      | valid kw =>
        simp only [hkk] at h
        cases hvv : evv v with
        | none => simp [hvv] at h
        | some pv =>
          obtain ⟨vo, tv⟩ := pv
          cases vo with
          | raised e =>
            simp only [hvv, Option.some.injEq] at h; subst h
            intro hh; simp only [Option.some.injEq] at hh; subst hh
            exact hv v _ _ hvv rfl
          | valid vw =>
            simp only [hvv] at h
            split at h
            · simp only [Option.some.injEq] at h; subst h; simp
            · cases hl : mapLoop evk evv rest (dictSet acc kw vw) with
              | none => simp [hl] at h
              | some r' => simp only [hl, Option.some.injEq] at h; subst h; exact ih _ r' hl
          | invalid ev' =>
            simp only [hvv] at h
            cases hl : mapLoop evk evv rest acc with
            | none => simp [hl] at h
            | some r' => simp only [hl, Option.some.injEq] at h; subst h; exact ih _ r' hl
      | invalid ke =>
        simp only [hkk] at h
        cases hvv : evv v with
        | none => simp [hvv] at h
        | some pv =>
          obtain ⟨vo, tv⟩ := pv
          cases vo with
          | raised e =>
            simp only [hvv, Option.some.injEq] at h; subst h
            intro hh; simp only [Option.some.injEq] at hh; subst hh
            exact hv v _ _ hvv rfl
          | valid vw =>
            simp only [hvv] at h
            cases hl : mapLoop evk evv rest acc with
            | none => simp [hl] at h
            | some r' => simp only [hl, Option.some.injEq] at h; subst h; exact ih _ r' hl
          | invalid ev' =>
            simp only [hvv] at h
            cases hl : mapLoop evk evv rest acc with
            | none => simp [hl] at h
            | some r' => simp only [hl, Option.some.injEq] at h; subst h; exact ih _ r' hl

theorem mapStep_noassert (o : Oracle) (m : Mode) (vid : Nat) (ps : List Pred) (c : Option CoerceK)
    (evk evv : Ev1) (hk : NoAssert evk) (hv : NoAssert evv) : NoAssert (mapStep o m vid ps [] c evk evv) := by
  intro x r t hr
  unfold mapStep at hr
  cases hpre : mapPre o m vid ps [] c x with
  | inl r' =>
    simp only [hpre, Option.some.injEq] at hr
    unfold mapPre at hpre
    split at hpre
    · rename_i h; exact absurd rfl h.2
    · split at hpre
      · rename_i e' t' hg; exact absurd hg (gate_noexn _ _ _ _ _ _ _)
      · simp only [Sum.inl.injEq] at hpre; rw [← hpre] at hr; cases hr; simp
      · rename_i y t0 hg
        have := contPreds_noassert m ps [] y
        split at hpre
        · rename_i f t2 e hc
          simp only [Sum.inl.injEq] at hpre; rw [← hpre] at hr; cases hr
          rw [hc] at this
          intro hh; simp only [Out.raised.injEq] at hh; subst hh; exact this rfl
        · split at hpre
          · simp only [Sum.inl.injEq] at hpre; rw [← hpre] at hr; cases hr; simp
          · split at hpre
            · simp only [Sum.inl.injEq] at hpre; rw [← hpre] at hr; cases hr; simp
            · simp at hpre
  | inr q =>
    obtain ⟨y, kvs, t0⟩ := q
    simp only [hpre] at hr
    cases hl : mapLoop evk evv kvs [] with
    | none => simp [hl] at hr
    | some rr =>
      simp only [hl, Option.some.injEq] at hr
      have hna := mapLoop_noassert evk evv hk hv kvs [] rr hl
      have : (mapFinish vid y t0 rr).1 = r := by rw [hr]
      rw [← this]
      unfold mapFinish
      split
      · rename_i e he
        intro hh; simp only [Out.raised.injEq] at hh; subst hh; exact hna he
      · split <;> simp

theorem recLoop_noassert (vid : Nat) (dv : PyVal) (data : List (PyVal × PyVal)) :
    ∀ (evs : List Ev1) (ks : List PyVal) (reqs : List Bool) (r : RecR),
      (∀ ev ∈ evs, NoAssert ev) → recLoop vid dv data evs ks reqs = some r → r.r ≠ some .assertion := by
  intro evs
  induction evs with
  | nil => intro ks reqs r _ h; simp [recLoop] at h; subst h; simp
  | cons ev evs ih =>
    intro ks reqs r hc h
    cases ks with
    | nil => simp [recLoop] at h; subst h; simp
    | cons k ks =>
      cases reqs with
      | nil => simp [recLoop] at h; subst h; simp
      | cons req reqs =>
        have hc' : ∀ e' ∈ evs, NoAssert e' := fun e' he' => hc e' (by simp [he'])
        simp only [recLoop] at h
        cases hg : dictGet data k with
        | none =>
          simp only [hg] at h
          cases hl : recLoop vid dv data evs ks reqs with
          | none => simp [hl] at h
          | some r' =>
            simp only [hl] at h
            have := ih ks reqs r' hc' hl
            split at h <;> (simp only [Option.some.injEq] at h; subst h; exact this)
        | some xv =>
          simp only [hg] at h
          cases hx : ev xv with
          | none => simp [hx] at h
          | some p =>
            obtain ⟨out, t⟩ := p
            rw [hx] at h
            cases out with
            | raised e =>
              simp only [Option.some.injEq] at h; subst h
              intro hh; simp only [Option.some.injEq] at hh; subst hh
              exact hc ev (by simp) xv _ _ hx rfl
            | valid w =>
              simp only at h
              cases hl : recLoop vid dv data evs ks reqs with
              | none => simp [hl] at h
              | some r' => simp only [hl, Option.some.injEq] at h; subst h; exact ih ks reqs r' hc' hl
            | invalid e =>
              simp only at h
              cases hl : recLoop vid dv data evs ks reqs with
              | none => simp [hl] at h
              | some r' => simp only [hl, Option.some.injEq] at h; subst h; exact ih ks reqs r' hc' hl

theorem applyCoerce_noexn (o : Oracle) (tg dest : Ty) (cls : ClassId) (c : CoerceK) (x : PyVal) (e : Exn) (t : List Ev) :
    applyCoerce o tg dest cls c x ≠ .exn e t := by
  simp only [applyCoerce]
  cases c with
  | dflt => simp only; split <;> simp
  | classOnly =>
    simp only
    split
    · split
      · split <;> simp
      · simp
    · simp
  | user cid compat f => simp only; split <;> simp

theorem recGate_noexn (o : Oracle) (cfg : RecCfg) (x : PyVal) (e : Exn) (t : List Ev) : recGate o cfg x ≠ .exn e t := by
  unfold recGate
  split
  · split <;> simp
  · split <;> simp
  · split
    · exact applyCoerce_noexn _ _ _ _ _ _ _ _
    · split <;> simp
  · split
    · exact applyCoerce_noexn _ _ _ _ _ _ _ _
    · split
      · simp
      · split
        · split
          · split <;> simp
          · simp
        · simp

theorem recordStep_noassert (o : Oracle) (vid : Nat) (cfg : RecCfg) (haoc : cfg.aoc = none) (evs : List Ev1)
    (hc : ∀ ev ∈ evs, NoAssert ev) : NoAssert (recordStep o .sync vid cfg evs) := by
  intro x r t hr
  unfold recordStep at hr
  cases hpre : recPre o .sync vid cfg x with
  | inl r' =>
    simp only [hpre, Option.some.injEq] at hr
    unfold recPre at hpre
    split at hpre
    · rename_i h; simp [haoc] at h
    · split at hpre
      · rename_i e' t' hg; exact absurd hg (recGate_noexn _ _ _ _ _)
      · simp only [Sum.inl.injEq] at hpre; rw [← hpre] at hr; cases hr; simp
      · split at hpre
        · simp only [Sum.inl.injEq] at hpre; rw [← hpre] at hr; cases hr; simp
        · split at hpre
          · simp only [Sum.inl.injEq] at hpre; rw [← hpre] at hr; cases hr; simp
          · simp at hpre
  | inr q =>
    obtain ⟨y, data, t0⟩ := q
    simp only [hpre] at hr
    cases hl : recLoop vid y data evs cfg.keys cfg.reqs with
    | none => simp [hl] at hr
    | some rr =>
      simp only [hl, Option.some.injEq] at hr
      have hna := recLoop_noassert vid y data evs cfg.keys cfg.reqs rr hc hl
      have : (recFinish .sync vid cfg y t0 rr).1 = r := by rw [hr]
      rw [← this]
      unfold recFinish
      cases hrr : rr.r with
      | some e =>
        simp only
        intro hh; simp only [Out.raised.injEq] at hh; subst hh; exact hna hrr
      | none =>
        simp only
        split
        · simp
        · split
          · exact runAObjCheck_clean .sync cfg.aoc vid _ _
          · exact runObjCheck_clean cfg.oc vid _ _


theorem afreeL_mem : ∀ (vs : List V), afreeL vs = true → ∀ v ∈ vs, afree v = true
  | [], _, v, hv => by simp at hv
  | w :: ws, h, v, hv => by
    simp only [afreeL, Bool.and_eq_true] at h
    rcases List.mem_cons.1 hv with rfl | hv
    · exact h.1
    · exact afreeL_mem ws h.2 v hv

/-- **C06, "the synchronous call returns"**: a tree in which no async-only check is configured
    (`afree`), in an environment of such trees, never raises the guard's AssertionError when called
    synchronously — for every fuel, nesting and recursion through `Lazy` -/
theorem C06_sync_returns (o : Oracle) (env : Nat → V) (henv : ∀ ref, afree (env ref) = true) :
    ∀ n v, afree v = true → NoAssert (run o env .sync n v) := by
  intro n
  induction n with
  | zero => intro v _ x r t h; simp [run] at h
  | succ n ih =>
    intro v hv
    cases v with
    | scalar vid tg c pre ps aps =>
      simp only [afree, List.isEmpty_iff] at hv
      subst hv
      intro x r t h
      simp only [run, Option.some.injEq] at h
      have := scalarStep_noassert o .sync vid tg c pre ps x
      rw [h] at this; exact this
    | equals vid mt pre pid =>
      intro x r t h
      simp only [run, Option.some.injEq] at h
      have := equalsStep_noassert vid mt pre pid x
      rw [h] at this; exact this
    | noneV vid c =>
      intro x r t h
      simp only [run, Option.some.injEq] at h
      have := noneStep_clean o vid c x .assertion
      rw [h] at this; exact this
    | always vid =>
      intro x r t h
      simp only [run, Option.some.injEq, Prod.mk.injEq] at h
      rw [← h.1]; simp
    | isDict vid =>
      intro x r t h
      simp only [run, Option.some.injEq] at h
      have := isDictStep_clean vid x .assertion
      rw [h] at this; exact this
    | list vid item ps aps c =>
      simp only [afree, Bool.and_eq_true, List.isEmpty_iff] at hv
      obtain ⟨rfl, hi⟩ := hv
      simp only [run]
      exact seqStep_noAssert .list o .sync vid ps c (ih item hi) (seqPre_noassert .list o .sync vid ps c)
    | set vid item ps aps c =>
      simp only [afree, Bool.and_eq_true, List.isEmpty_iff] at hv
      obtain ⟨rfl, hi⟩ := hv
      simp only [run]
      exact seqStep_noAssert .set o .sync vid ps c (ih item hi) (seqPre_noassert .set o .sync vid ps c)
    | utuple vid item ps aps c =>
      simp only [afree, Bool.and_eq_true, List.isEmpty_iff] at hv
      obtain ⟨rfl, hi⟩ := hv
      simp only [run]
      exact seqStep_noAssert .utuple o .sync vid ps c (ih item hi) (seqPre_noassert .utuple o .sync vid ps c)
    | ntuple vid fs oc c lp =>
      simp only [afree] at hv
      simp only [run]
      apply ntupleStep_noassert
      intro ev hev
      obtain ⟨w, hw, rfl⟩ := List.mem_map.1 hev
      exact ih w (afreeL_mem fs hv w hw)
    | map vid kv vv ps aps c =>
      simp only [afree, Bool.and_eq_true, List.isEmpty_iff] at hv
      obtain ⟨⟨rfl, hk⟩, hvv⟩ := hv
      simp only [run]
      exact mapStep_noassert o .sync vid ps c _ _ (ih kv hk) (ih vv hvv)
    | record vid cfg vs =>
      simp only [afree, Bool.and_eq_true, Option.isNone_iff_eq_none] at hv
      simp only [run]
      apply recordStep_noassert o vid cfg hv.1
      intro ev hev
      obtain ⟨w, hw, rfl⟩ := List.mem_map.1 hev
      exact ih w (afreeL_mem vs hv.2 w hw)
    | union vid vs =>
      simp only [afree] at hv
      simp only [run]
      apply unionStep_noassert
      intro ev hev
      obtain ⟨w, hw, rfl⟩ := List.mem_map.1 hev
      exact ih w (afreeL_mem vs hv w hw)
    | optional vid nv inner =>
      simp only [afree, Bool.and_eq_true] at hv
      simp only [run]
      apply unionStep_noassert
      intro ev hev
      simp only [List.mem_cons, List.mem_nil_iff, or_false] at hev
      rcases hev with rfl | rfl
      · exact ih nv hv.1
      · exact ih inner hv.2
    | maybe vid inner =>
      simp only [afree] at hv
      simp only [run]
      exact maybeStep_noassert vid _ (ih inner hv)
    | lazy vid ref =>
      simp only [run]
      exact ih (env ref) (henv ref)
    | knr vid inner =>
      simp only [afree] at hv
      simp only [run]
      exact knrStep_noassert _ (ih inner hv)
    | user vid inner =>
      simp only [afree] at hv
      simp only [run]
      exact userStep_noassert vid .sync _ (ih inner hv)

/-- together with `C06_agree`: for `afree` trees the two modes return the same outcome outright -/
example : afree (.list 1 (.scalar 2 .int none [] [⟨1, .min (.int 0) false⟩] []) [] [] none) = true := by decide

end Koda
