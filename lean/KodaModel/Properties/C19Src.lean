/-
  C19, tied to the source: **whatever the validation methods of a validator class depend on is compared by its
  `__eq__`**.

  `Generated/CongrSrc.lean` is rewritten on every run: for each validator class, `harness/pysrc.py` collects the attributes
  its validation methods (`__call__`, `validate_async`, `_validate_to_tuple`, `_validate_to_tuple_async`) read, the
  attributes its `__eq__` compares (for a `@dataclass`: its fields), and — by a conservative dependency analysis of
  `__init__` (data and control dependences through locals, loops, `.append` / `.add`) — the constructor parameters each
  attribute's value depends on.  The obligation below says that every parameter the behaviour depends on is one some
  compared attribute depends on; so two instances that `__eq__` identifies were built from parameters that are equal
  wherever behaviour can see them.  A change that drops a comparison from an `__eq__`, or makes a method read a new,
  uncompared attribute, no longer checks.  (The analysis is part of the translator, hence of the trusted base; that equal
  parameters give equal behaviour is the model-level `C19_rename` plus the correspondence.)
-/
import KodaModel.Generated.CongrSrc

namespace Koda

/-- every constructor parameter (or class attribute) the validation methods depend on is covered by `__eq__` -/
theorem C19_src_reads_compared :
    Src.congr.all (fun c => c.2.1.all (fun p => c.2.2.contains p)) = true := by decide

/-- the classes this is established for -/
theorem C19_src_classes : Src.congr.map (·.1) =
    ["_ToTupleStandardValidator", "ListValidator", "SetValidator", "UniformTupleValidator", "NTupleValidator", "MapValidator",
     "RecordValidator", "DictValidatorAny", "DataclassValidator", "NamedTupleValidator", "TypedDictValidator", "UnionValidator",
     "OptionalValidator", "NoneValidator", "MaybeValidator", "Lazy", "EqualsValidator", "KeyNotRequired"] := by decide

/-- none of them compares by identity only (an empty list of compared dependencies) -/
theorem C19_src_compares_something : Src.congr.all (fun c => !c.2.2.isEmpty) = true := by decide

/-- **predicates and processors**: every `Predicate` / `Processor` class is a `@dataclass` whose `==` is the generated
    one (no `__eq__` / `__ne__` / `__hash__` of its own, no `eq=False`), so it compares exactly the fields; its methods
    read nothing of `self` but those fields, and none of them (the constructor aside) stores to `self`.  Two predicates
    that compare equal therefore have equal fields, which is all their `__call__` can see.  (`RegexPredicate.__eq__`
    compares the compiled pattern object: text *and* flags — seeded change C19-s replaced it by an `__eq__` on the text
    and no longer checks here.) -/
theorem C19_src_preds_compared :
    Src.predCongr.all (fun c => c.2.1 && c.2.2.1 && c.2.2.2.1.all (fun a => c.2.2.2.2.contains a)) = true := by decide

/-- the predicate / processor classes this is established for: all that `Generated/PredSrc.lean` lists -/
theorem C19_src_pred_classes : Src.predCongr.map (·.1) =
    ["Choices", "EmailPredicate", "EndsWith", "EqualTo", "ExactItemCount", "ExactLength", "LowerCase", "Max", "MaxItems",
     "MaxKeys", "MaxLength", "Min", "MinItems", "MinKeys", "MinLength", "MultipleOf", "NotBlank", "RegexPredicate",
     "StartsWith", "Strip", "UniqueItems", "UpperCase"] := by decide

end Koda
