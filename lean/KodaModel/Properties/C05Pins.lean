/-
  Pinned source text: `Valid.map` / `Invalid.map` (koda_validate/valid.py): modelled by `Out.map` (Properties/C05.lean, C05_map_valid / C05_map_invalid).
  The correspondence runs tie the model's behaviour to the code; this theorem ties the *text* the model was written
  against to the text that is there now (`Generated/PinsSrc.lean`, regenerated on every run), one string per top-level
  statement.  A change to any of these functions makes it fail: the check then searches for a failing input and reports
  either that input or `no-failing-input-found`.  Re-pin with tools/repin.py after reviewing the model.
-/
import KodaModel.Generated.PinsSrc

namespace Koda

theorem src_result_map_pinned : Src.resultPins =
    ["Valid.map(self, func: Callable[[A], B])",
    "Valid.map: return Valid(func(self.val))",
    "Invalid.map(self, func: Callable[[Any], B])",
    "Invalid.map: return self"] := rfl

end Koda
