/-
  C07 for the *default* resolver, whole annotations: what the derived validator accepts (`accD`, a
  structural specification), that it terminates on every Python value with exactly that verdict
  (`C07_default_tree_partial`), and completeness: every value that already is of the annotated type is
  accepted (`C07_default_complete_partial`).  Forms: those of `annFrag2`.
-/
import KodaModel.Properties.C07Tree2
import KodaModel.Properties.C17Tree

namespace Koda

/-- elements of a tuple or of a list (what the default tuple coercer lets through) -/
def seqItems : PyVal → List PyVal
  | .tuple _ xs => xs
  | .list _ xs => xs
  | _ => []

def isSeqV : PyVal → Bool
  | .tuple _ _ => true
  | .list _ _ => true
  | _ => false

/-- a scalar annotation under the default resolver: exact type, or whatever the default coercer takes -/
def accScalarD (o : Oracle) (tg : Ty) (x : PyVal) : Bool :=
  if coercing tg then (defaultCoerce o tg x).isSome else x.ty == tg

mutual
/-- what the validator derived by the default resolver accepts -/
def accD (o : Oracle) : Ann → PyVal → Bool
  | .str, x => accScalarD o .str x
  | .int, x => accScalarD o .int x
  | .float, x => accScalarD o .float x
  | .bool, x => accScalarD o .bool x
  | .bytes, x => accScalarD o .bytes x
  | .uuid, x => accScalarD o .uuid x
  | .date, x => accScalarD o .date x
  | .datetime, x => accScalarD o .datetime x
  | .decimal, x => accScalarD o .decimal x
  | .cls c, x => accScalarD o (.cls c) x
  | .any, _ => true
  | .none, x => isNoneV x
  | .listBare, x => isListV x
  | .tupleBare, x => isSeqV x
  | .list a, x => isListV x && (listItems x).all (accD o a)
  | .tupleVar a, x => isSeqV x && (seqItems x).all (accD o a)
  | .maybe a, x => maybeSpec (accD o a) x
  | .union as, x => accDAny o as x
  | .tupleFixed as, x => isSeqV x && accDZip o as (seqItems x)
  | _, _ => false
termination_by structural a => a
def accDAny (o : Oracle) : List Ann → PyVal → Bool
  | [], _ => false
  | a :: as, x => accD o a x || accDAny o as x
termination_by structural as => as
def accDZip (o : Oracle) : List Ann → List PyVal → Bool
  | [], [] => true
  | a :: as, x :: xs => accD o a x && accDZip o as xs
  | _, _ => false
termination_by structural as => as
end

/-! ### node lemmas for the default coercers, arbitrary Python values -/

theorem node_scalar_dflt (o : Oracle) (env : Nat → V) (vid : Nat) (tg : Ty) (x : PyVal) :
    VDecides o env (.scalar vid tg (some .dflt) [] [] []) x (defaultCoerce o tg x).isSome := by
  cases hd : defaultCoerce o tg x with
  | some y =>
    refine ⟨1, .valid y, [], ?_, rfl⟩
    simp [run, scalarStep, gate, applyCoerce, hd, runProcs, contPreds, runPreds, finishPreds]
  | none =>
    refine ⟨1, .invalid (.mk (.coercion (defaultCompat tg) tg) x vid []), [], ?_, rfl⟩
    simp [run, scalarStep, gate, applyCoerce, hd]

theorem derive_scalar_dflt (a : Ann) (tg : Ty) (h : scalarTy a = some tg) (s : Nat) :
    (derive .dflt a s).1 = .scalar s tg (if coercing tg then some .dflt else none) [] [] [] := by
  rw [derive_scalar .dflt a tg h s]
  cases hc : coercing tg <;> simp

theorem dflt_scalar_decides (o : Oracle) (env : Nat → V) (a : Ann) (tg : Ty) (h : scalarTy a = some tg) (s : Nat)
    (x : PyVal) : VDecides o env (derive .dflt a s).1 x (accScalarD o tg x) := by
  rw [derive_scalar_dflt a tg h s]
  unfold accScalarD
  cases hc : coercing tg with
  | true => simpa using node_scalar_dflt o env s tg x
  | false =>
    simp only [Bool.false_eq_true, if_false]
    have := node_scalar_validator o env s tg [] x (fun _ p hp => by simp at hp)
    have h2 : (decide (x.ty = tg) && ([] : List Pred).all (fun p => holds p.k x)) = (x.ty == tg) := by
      by_cases hty : x.ty = tg <;> simp [hty]
    rw [h2] at this
    exact this

theorem gate_tuple_dflt (o : Oracle) (x : PyVal) :
    gate o .tuple .list (some .dflt) x =
      (match x with
       | .tuple oid xs => .acc (.tuple oid xs) []
       | .list _ xs => .acc (.tuple 0 xs) []
       | _ => .rej (.coercion (defaultCompat .tuple) .list) []) := by
  cases x <;> simp [gate, applyCoerce, defaultCoerce]

/-- the uniform-tuple node with the default coercer, for arbitrary Python values -/
theorem node_utuple_dflt (o : Oracle) (env : Nat → V) (vid : Nat) (item : V) (x : PyVal) (a : PyVal → Bool)
    (hitems : ∀ y ∈ seqItems x, VDecides o env item y (a y)) :
    VDecides o env (.utuple vid item [] [] (some .dflt)) x (isSeqV x && (seqItems x).all a) := by
  by_cases hl : isSeqV x = true
  · obtain ⟨y, xs, hg, hxs, hit⟩ : ∃ y xs, gate o .tuple .list (some .dflt) x = .acc y [] ∧ seqItems x = xs ∧ pyIter y = some xs := by
      cases x <;> simp [isSeqV] at hl
      · rename_i oid xs
        exact ⟨.tuple 0 xs, xs, by simp [gate, applyCoerce, defaultCoerce], rfl, rfl⟩
      · rename_i oid xs
        exact ⟨.tuple oid xs, xs, by simp [gate, applyCoerce, defaultCoerce], rfl, rfl⟩
    rw [hxs] at hitems ⊢
    obtain ⟨N, hN⟩ := common_fuel_decided o env item a xs hitems
    have hpre : seqPre .utuple o .sync vid [] [] (some .dflt) x = .inr (y, xs, [] ++ []) := by
      rw [C03_pre_iff]
      exact ⟨by simp, [], [], by simpa [SeqKind.gateTy, SeqKind.destTy] using hg, by simp [contPreds, runPreds], hit, rfl⟩
    obtain ⟨r, hr, hrn, hre⟩ := loopItems_decided (run o env .sync N item) a xs 0 true (hN N (Nat.le_refl N))
    refine ⟨N + 1, finishSeq .utuple vid y r, ([] ++ []) ++ r.t, ?_, ?_⟩
    · simp only [run]
      rw [seqStep_inr hpre _ (by intro h; cases h), hr]
      rfl
    · simp only [finishSeq, hrn, hl, Bool.true_and]
      rw [← hre]
      cases he : r.es.isEmpty <;> simp [he, Out.verdict]
  · have hl' : isSeqV x = false := by simpa using hl
    have hg : gate o .tuple .list (some .dflt) x = .rej (.coercion (defaultCompat .tuple) .list) [] := by
      cases x <;> simp [isSeqV] at hl' <;> simp [gate, applyCoerce, defaultCoerce]
    refine ⟨1, .invalid (.mk (.coercion (defaultCompat .tuple) .list) x vid []), [], ?_, by simp [Out.verdict, hl']⟩
    simp [run, seqStep, seqPre, SeqKind.gateTy, SeqKind.destTy, hg]

/-- the n-tuple node with the default coercer, for arbitrary Python values -/
theorem node_ntuple_dflt (o : Oracle) (env : Nat → V) (vid lp : Nat) (sl : List (V × (PyVal → Bool))) (x : PyVal)
    (hkids : SlotsDecide o env sl (seqItems x)) :
    VDecides o env (.ntuple vid (sl.map Prod.fst) none (some .dflt) lp) x
      (isSeqV x && (decide ((seqItems x).length = sl.length) && allSlots sl (seqItems x))) := by
  by_cases hl : isSeqV x = true
  · obtain ⟨y, xs, hg, hxs, hit, hlen'⟩ : ∃ y xs, gate o .tuple .list (some .dflt) x = .acc y [] ∧ seqItems x = xs ∧
        pyIter y = some xs ∧ pyLen y = some xs.length := by
      cases x <;> simp [isSeqV] at hl
      · rename_i oid xs
        exact ⟨.tuple 0 xs, xs, by simp [gate, applyCoerce, defaultCoerce], rfl, rfl, rfl⟩
      · rename_i oid xs
        exact ⟨.tuple oid xs, xs, by simp [gate, applyCoerce, defaultCoerce], rfl, rfl, rfl⟩
    rw [hxs] at hkids ⊢
    by_cases hlen : xs.length = sl.length
    · obtain ⟨N, hN⟩ := slots_common_fuel o env sl xs hkids
      obtain ⟨r, hr, hrn, hre⟩ := hN N (Nat.le_refl N) 0
      have hmap : (sl.map Prod.fst).map (run o env .sync N) = sl.map (fun p => run o env .sync N p.1) := by
        simp [List.map_map, Function.comp_def]
      have hpre : ntuplePre o vid (some .dflt) lp ((sl.map Prod.fst).map (run o env .sync N)).length x =
          .inr (y, xs, []) := by
        simp [ntuplePre, hg, hlen', hit, hlen]
      refine ⟨N + 1, (ntupleFinish vid none y [] r).1, (ntupleFinish vid none y [] r).2, ?_, ?_⟩
      · simp only [run, ntupleStep, hpre]
        rw [hmap, hr]
      · simp only [ntupleFinish, hrn, hl, Bool.true_and, hlen, decide_true]
        rw [← hre]
        cases he : r.es.isEmpty <;> simp [he, Out.verdict, runObjCheck]
    · refine ⟨1, .invalid (.mk (.preds [lp]) y vid []), [], ?_, by simp [Out.verdict, hl, hlen]⟩
      simp only [run, ntupleStep, ntuplePre, hg, hlen', List.length_map]
      simp [hlen]
  · have hl' : isSeqV x = false := by simpa using hl
    have hg : gate o .tuple .list (some .dflt) x = .rej (.coercion (defaultCompat .tuple) .list) [] := by
      cases x <;> simp [isSeqV] at hl' <;> simp [gate, applyCoerce, defaultCoerce]
    exact ⟨1, .invalid (.mk (.coercion (defaultCompat .tuple) .list) x vid []), [], by simp [run, ntupleStep, ntuplePre, hg],
      by simp [Out.verdict, hl']⟩

/-! ### the tree theorem for the default resolver -/

theorem derive_listBare_d (s : Nat) : (derive .dflt .listBare s).1 = .list s (.always ALWAYS_VID) [] [] none := rfl
theorem derive_tupleBare_d (s : Nat) :
    (derive .dflt .tupleBare s).1 = .utuple s (.always ALWAYS_VID) [] [] (some .dflt) := rfl
theorem derive_tupleVar_d (a : Ann) (s : Nat) :
    (derive .dflt (.tupleVar a) s).1 = .utuple (derive .dflt a s).2 (derive .dflt a s).1 [] [] (some .dflt) := rfl
theorem derive_maybe_d (a : Ann) (s : Nat) :
    (derive .dflt (.maybe a) s).1 = .maybe (derive .dflt a s).2 (derive .dflt a s).1 := rfl
theorem derive_tupleFixed_d (as : List Ann) (s : Nat) :
    (derive .dflt (.tupleFixed as) s).1 =
      .ntuple (deriveL .dflt as s).2 (deriveL .dflt as s).1 none (some .dflt) ((deriveL .dflt as s).2 + 1) := rfl

/-- the variants of a derived union decide, one by one, what `accD` says of their annotations -/
def VariantsDecideD (o : Oracle) (env : Nat → V) (x : PyVal) : List V → List Ann → Prop
  | [], [] => True
  | v :: vs, a :: as => VDecides o env v x (accD o a x) ∧ VariantsDecideD o env x vs as
  | _, _ => False

theorem union_of_variantsD (o : Oracle) (env : Nat → V) (vid : Nat) (x : PyVal) :
    ∀ (vs : List V) (as : List Ann), VariantsDecideD o env x vs as →
      VDecides o env (.union vid vs) x (accDAny o as x) := by
  intro vs as h
  have hfuel : ∀ (vs : List V) (as : List Ann), VariantsDecideD o env x vs as →
      ∃ N, ∀ n, N ≤ n → ∃ w es t, unionLoop x (vs.map (run o env .sync n)) = some (w, es, t, none) ∧
        w.isSome = accDAny o as x := by
    intro vs
    induction vs with
    | nil =>
      intro as h
      cases as with
      | nil => exact ⟨0, fun n _ => ⟨none, [], [], rfl, rfl⟩⟩
      | cons a as => exact h.elim
    | cons v vs ih =>
      intro as h
      cases as with
      | nil => exact h.elim
      | cons a as =>
        obtain ⟨N1, h1⟩ := ih as h.2
        obtain ⟨N2, h2⟩ := h.1.at_fuel
        refine ⟨max N1 N2, fun n hn => ?_⟩
        obtain ⟨out, t, hr, hv⟩ := h2 n (by omega)
        obtain ⟨w, es, t', hl, hw⟩ := h1 n (by omega)
        cases out with
        | raised e => simp [Out.verdict] at hv
        | valid w0 =>
          simp only [Out.verdict, Option.some.injEq] at hv
          exact ⟨some w0, [], t, by simp [unionLoop, hr], by simp [accDAny, ← hv]⟩
        | invalid e0 =>
          simp only [Out.verdict, Option.some.injEq] at hv
          exact ⟨w, e0 :: es, t ++ t', by simp [unionLoop, hr, hl], by simp [accDAny, ← hv, hw]⟩
  obtain ⟨N, hN⟩ := hfuel vs as h
  obtain ⟨w, es, t, hl, hw⟩ := hN N (Nat.le_refl N)
  cases w with
  | none =>
    refine ⟨N + 1, .invalid (.mk .union x vid es), t, by simp [run, unionStep, hl], ?_⟩
    simp only [Option.isSome_none] at hw
    simp [Out.verdict, ← hw]
  | some w =>
    refine ⟨N + 1, .valid w, t, by simp [run, unionStep, hl], ?_⟩
    simp only [Option.isSome_some] at hw
    simp [Out.verdict, ← hw]

def slotsOfD (o : Oracle) (fs : List V) (as : List Ann) : List (V × (PyVal → Bool)) := fs.zip (as.map (accD o))

theorem slotsOfD_fst (o : Oracle) : ∀ (fs : List V) (as : List Ann), fs.length = as.length → (slotsOfD o fs as).map Prod.fst = fs
  | [], [], _ => rfl
  | [], _ :: _, h => by simp at h
  | _ :: _, [], h => by simp at h
  | f :: fs, a :: as, h => by
    simp only [slotsOfD, List.map_cons, List.zip_cons_cons, List.cons.injEq, true_and]
    exact slotsOfD_fst o fs as (by simpa using h)

theorem accDZip_slots (o : Oracle) : ∀ (fs : List V) (as : List Ann) (xs : List PyVal), fs.length = as.length →
    accDZip o as xs = (decide (xs.length = as.length) && allSlots (slotsOfD o fs as) xs)
  | [], [], [], _ => by simp [accDZip, slotsOfD, allSlots]
  | [], [], x :: xs, _ => by simp [accDZip]
  | [], _ :: _, _, h => by simp at h
  | _ :: _, [], _, h => by simp at h
  | f :: fs, a :: as, [], _ => by simp [accDZip]
  | f :: fs, a :: as, x :: xs, h => by
    have ih := accDZip_slots o fs as xs (by simpa using h)
    simp only [accDZip, ih, slotsOfD, List.map_cons, List.zip_cons_cons, allSlots, List.length_cons,
      Nat.add_right_cancel_iff]
    cases accD o a x <;> simp [slotsOfD]

mutual
/-- **C07, default resolver, whole annotations**: the derived validator terminates on every Python value
    and accepts exactly what `accD` describes -/
theorem C07_default_tree_partial (o : Oracle) (env : Nat → V) :
    ∀ (a : Ann), annFrag2 a = true → ∀ (s : Nat) (x : PyVal),
      VDecides o env (derive .dflt a s).1 x (accD o a x)
  | .str, _, s, x => dflt_scalar_decides o env .str .str rfl s x
  | .int, _, s, x => dflt_scalar_decides o env .int .int rfl s x
  | .float, _, s, x => dflt_scalar_decides o env .float .float rfl s x
  | .bool, _, s, x => dflt_scalar_decides o env .bool .bool rfl s x
  | .bytes, _, s, x => dflt_scalar_decides o env .bytes .bytes rfl s x
  | .uuid, _, s, x => dflt_scalar_decides o env .uuid .uuid rfl s x
  | .date, _, s, x => dflt_scalar_decides o env .date .date rfl s x
  | .datetime, _, s, x => dflt_scalar_decides o env .datetime .datetime rfl s x
  | .decimal, _, s, x => dflt_scalar_decides o env .decimal .decimal rfl s x
  | .cls c, _, s, x => dflt_scalar_decides o env (.cls c) (.cls c) rfl s x
  | .any, _, s, x => node_always_validator o env ALWAYS_VID x
  | .none, _, s, x => node_none_validator o env s x
  | .listBare, _, s, x => by
    rw [derive_listBare_d]
    have := node_list_plain o env s (.always ALWAYS_VID) x (fun _ => true)
      (fun y _ => node_always_validator o env ALWAYS_VID y)
    have h2 : ((listItems x).all fun _ => true) = true := by simp
    rw [h2, Bool.and_true] at this
    simpa [accD] using this
  | .tupleBare, _, s, x => by
    rw [derive_tupleBare_d]
    have := node_utuple_dflt o env s (.always ALWAYS_VID) x (fun _ => true)
      (fun y _ => node_always_validator o env ALWAYS_VID y)
    have h2 : ((seqItems x).all fun _ => true) = true := by simp
    rw [h2, Bool.and_true] at this
    simpa [accD] using this
  | .list a, hf, s, x => by
    simp only [annFrag2] at hf
    rw [derive_list]
    exact node_list_plain o env (derive .dflt a s).2 (derive .dflt a s).1 x (accD o a)
      (fun y _ => C07_default_tree_partial o env a hf s y)
  | .tupleVar a, hf, s, x => by
    simp only [annFrag2] at hf
    rw [derive_tupleVar_d]
    exact node_utuple_dflt o env (derive .dflt a s).2 (derive .dflt a s).1 x (accD o a)
      (fun y _ => C07_default_tree_partial o env a hf s y)
  | .maybe a, hf, s, x => by
    simp only [annFrag2] at hf
    rw [derive_maybe_d]
    exact node_maybe o env (derive .dflt a s).2 (derive .dflt a s).1 x (accD o a)
      (fun _ v _ => C07_default_tree_partial o env a hf s v)
  | .union as, hf, s, x => by
    simp only [annFrag2] at hf
    rw [derive_union]
    exact union_of_variantsD o env _ x _ as (C07_default_tree_partialL o env as hf s x)
  | .tupleFixed as, hf, s, x => by
    simp only [annFrag2] at hf
    rw [derive_tupleFixed_d]
    have hlen := deriveL_length .dflt as s
    have hk := C07_default_tree_slots o env as hf s (seqItems x)
    have := node_ntuple_dflt o env (deriveL .dflt as s).2 ((deriveL .dflt as s).2 + 1)
      (slotsOfD o (deriveL .dflt as s).1 as) x hk
    rw [slotsOfD_fst o _ _ hlen] at this
    have hl2 : (slotsOfD o (deriveL .dflt as s).1 as).length = as.length := by simp [slotsOfD, hlen]
    rw [hl2] at this
    have h2 : accD o (.tupleFixed as) x =
        (isSeqV x && (decide ((seqItems x).length = as.length) &&
          allSlots (slotsOfD o (deriveL .dflt as s).1 as) (seqItems x))) := by
      simp only [accD]
      rw [accDZip_slots o _ as _ hlen]
    rw [h2]; exact this
  | .setBare, hf, _, _ => by simp [annFrag2] at hf
  | .dictBare, hf, _, _ => by simp [annFrag2] at hf
  | .set _, hf, _, _ => by simp [annFrag2] at hf
  | .dict _ _, hf, _, _ => by simp [annFrag2] at hf
  | .literal _, hf, _, _ => by simp [annFrag2] at hf
  | .annotated _ _, hf, _, _ => by simp [annFrag2] at hf
  | .dataclass _ _ _ _, hf, _, _ => by simp [annFrag2] at hf
  | .namedtuple _ _ _ _, hf, _, _ => by simp [annFrag2] at hf
  | .typeddict _ _ _ _, hf, _, _ => by simp [annFrag2] at hf
  | .marked _, hf, _, _ => by simp [annFrag2] at hf
theorem C07_default_tree_partialL (o : Oracle) (env : Nat → V) :
    ∀ (as : List Ann), annFrag2L as = true → ∀ (s : Nat) (x : PyVal),
      VariantsDecideD o env x (deriveL .dflt as s).1 as
  | [], _, s, x => trivial
  | a :: as, hf, s, x => by
    simp only [annFrag2L, Bool.and_eq_true] at hf
    rw [deriveL_cons]
    exact ⟨C07_default_tree_partial o env a hf.1 s x, C07_default_tree_partialL o env as hf.2 _ x⟩
theorem C07_default_tree_slots (o : Oracle) (env : Nat → V) :
    ∀ (as : List Ann), annFrag2L as = true → ∀ (s : Nat) (ys : List PyVal),
      SlotsDecide o env (slotsOfD o (deriveL .dflt as s).1 as) ys
  | [], _, s, ys => by simp [slotsOfD, SlotsDecide]
  | a :: as, hf, s, [] => by simp [slotsOfD, deriveL_cons, SlotsDecide]
  | a :: as, hf, s, y :: ys => by
    simp only [annFrag2L, Bool.and_eq_true] at hf
    rw [deriveL_cons]
    simp only [slotsOfD, List.map_cons, List.zip_cons_cons, SlotsDecide]
    exact ⟨C07_default_tree_partial o env a hf.1 s y, C07_default_tree_slots o env as hf.2 _ ys⟩
end

/-! ### completeness: a value of the annotated type is accepted -/

theorem accScalarD_of_ty (o : Oracle) (tg : Ty) (x : PyVal) (h : x.ty = tg) : accScalarD o tg x = true := by
  unfold accScalarD
  cases hc : coercing tg with
  | false => simp [h]
  | true =>
    simp only [if_true]
    cases tg <;> simp [coercing] at hc <;> simp [defaultCoerce, h]

mutual
theorem hasType_accD (o : Oracle) : ∀ (a : Ann), annFrag2 a = true → ∀ x, hasType a x = true → accD o a x = true
  | .str, _, x, h => accScalarD_of_ty o .str x (by simpa [hasType] using h)
  | .int, _, x, h => accScalarD_of_ty o .int x (by simpa [hasType] using h)
  | .float, _, x, h => accScalarD_of_ty o .float x (by simpa [hasType] using h)
  | .bool, _, x, h => accScalarD_of_ty o .bool x (by simpa [hasType] using h)
  | .bytes, _, x, h => accScalarD_of_ty o .bytes x (by simpa [hasType] using h)
  | .uuid, _, x, h => accScalarD_of_ty o .uuid x (by simpa [hasType] using h)
  | .date, _, x, h => accScalarD_of_ty o .date x (by simpa [hasType] using h)
  | .datetime, _, x, h => accScalarD_of_ty o .datetime x (by simpa [hasType] using h)
  | .decimal, _, x, h => accScalarD_of_ty o .decimal x (by simpa [hasType] using h)
  | .cls c, _, x, h => accScalarD_of_ty o (.cls c) x (by simpa [hasType] using h)
  | .any, _, x, _ => rfl
  | .none, _, x, h => by cases x <;> simp [hasType, isNone] at h <;> rfl
  | .listBare, _, x, h => by cases x <;> simp [hasType, PyVal.ty] at h <;> rfl
  | .tupleBare, _, x, h => by cases x <;> simp [hasType, PyVal.ty] at h <;> rfl
  | .list a, hf, x, h => by
    simp only [annFrag2] at hf
    cases x <;> simp only [hasType] at h <;> try (simp at h)
    rename_i oid xs
    simp only [accD, isListV, listItems, Bool.true_and, List.all_eq_true] at h ⊢
    exact fun y hy => hasType_accD o a hf y (h y hy)
  | .tupleVar a, hf, x, h => by
    simp only [annFrag2] at hf
    cases x <;> simp only [hasType] at h <;> try (simp at h)
    rename_i oid xs
    simp only [accD, isSeqV, seqItems, Bool.true_and, List.all_eq_true] at h ⊢
    exact fun y hy => hasType_accD o a hf y (h y hy)
  | .maybe a, hf, x, h => by
    simp only [annFrag2] at hf
    cases x <;> simp only [hasType] at h <;> try (simp at h)
    · rename_i oid v
      simp only [accD, maybeSpec]
      exact hasType_accD o a hf v h
    · rfl
  | .union as, hf, x, h => by
    simp only [annFrag2] at hf
    simp only [hasType] at h
    simp only [accD]
    exact hasTypeAny_accD o as hf x h
  | .tupleFixed as, hf, x, h => by
    simp only [annFrag2] at hf
    cases x <;> simp only [hasType] at h <;> try (simp at h)
    rename_i oid xs
    simp only [accD, isSeqV, seqItems, Bool.true_and]
    exact hasTypeZip_accD o as hf xs h
  | .setBare, hf, _, _ => by simp [annFrag2] at hf
  | .dictBare, hf, _, _ => by simp [annFrag2] at hf
  | .set _, hf, _, _ => by simp [annFrag2] at hf
  | .dict _ _, hf, _, _ => by simp [annFrag2] at hf
  | .literal _, hf, _, _ => by simp [annFrag2] at hf
  | .annotated _ _, hf, _, _ => by simp [annFrag2] at hf
  | .dataclass _ _ _ _, hf, _, _ => by simp [annFrag2] at hf
  | .namedtuple _ _ _ _, hf, _, _ => by simp [annFrag2] at hf
  | .typeddict _ _ _ _, hf, _, _ => by simp [annFrag2] at hf
  | .marked _, hf, _, _ => by simp [annFrag2] at hf
theorem hasTypeAny_accD (o : Oracle) : ∀ (as : List Ann), annFrag2L as = true → ∀ x, hasTypeAny as x = true → accDAny o as x = true
  | [], _, x, h => by simp [hasTypeAny] at h
  | a :: as, hf, x, h => by
    simp only [annFrag2L, Bool.and_eq_true] at hf
    simp only [hasTypeAny, Bool.or_eq_true] at h
    simp only [accDAny, Bool.or_eq_true]
    rcases h with h | h
    · exact Or.inl (hasType_accD o a hf.1 x h)
    · exact Or.inr (hasTypeAny_accD o as hf.2 x h)
theorem hasTypeZip_accD (o : Oracle) : ∀ (as : List Ann), annFrag2L as = true → ∀ xs, hasTypeZip as xs = true → accDZip o as xs = true
  | [], _, [], _ => rfl
  | [], _, _ :: _, h => by simp [hasTypeZip] at h
  | _ :: _, _, [], h => by simp [hasTypeZip] at h
  | a :: as, hf, x :: xs, h => by
    simp only [annFrag2L, Bool.and_eq_true] at hf
    simp only [hasTypeZip, Bool.and_eq_true] at h
    simp only [accDZip, Bool.and_eq_true]
    exact ⟨hasType_accD o a hf.1 x h.1, hasTypeZip_accD o as hf.2 xs h.2⟩
end

/-- **C07, completeness under the default resolver**: every value that already is of the annotated type is
    accepted (the call terminates with a `Valid`) -/
theorem C07_default_complete_partial (o : Oracle) (env : Nat → V) (a : Ann) (hf : annFrag2 a = true) (s : Nat)
    (x : PyVal) (hx : hasType a x = true) :
    ∃ n w t, run o env .sync n (derive .dflt a s).1 x = some (.valid w, t) := by
  obtain ⟨n, out, t, hr, hv⟩ := C07_default_tree_partial o env a hf s x
  rw [hasType_accD o a hf x hx] at hv
  cases out with
  | valid w => exact ⟨n, w, t, hr⟩
  | invalid e => simp [Out.verdict] at hv
  | raised e => simp [Out.verdict] at hv

/-- the accepted set is exactly `accD`: the derived validator accepts `x` iff `accD` says so -/
theorem C07_default_iff_partial (o : Oracle) (env : Nat → V) (a : Ann) (hf : annFrag2 a = true) (s : Nat) (x : PyVal) :
    (∃ n w t, run o env .sync n (derive .dflt a s).1 x = some (.valid w, t)) ↔ accD o a x = true := by
  obtain ⟨n, out, t, hr, hv⟩ := C07_default_tree_partial o env a hf s x
  constructor
  · rintro ⟨n', w, t', hr'⟩
    have h1 := run_mono_le o env .sync (Nat.le_max_left n n') _ x _ hr
    have h2 := run_mono_le o env .sync (Nat.le_max_right n n') _ x _ hr'
    rw [h1] at h2
    simp only [Option.some.injEq, Prod.mk.injEq] at h2
    rw [h2.1] at hv
    simpa [Out.verdict] using hv.symm
  · intro h
    rw [h] at hv
    cases out with
    | valid w => exact ⟨n, w, t, hr⟩
    | invalid e => simp [Out.verdict] at hv
    | raised e => simp [Out.verdict] at hv

/-! ### soundness: whatever is accepted comes out as a value of the annotated type -/

theorem FieldsRun_inv_cons {ev : Ev1} {evs : List Ev1} {xs : List PyVal} {i : Nat} {ws : List PyVal} {t : List Ev}
    (h : FieldsRun (ev :: evs) xs i ws [] t) :
    ∃ x xs' w ws' t1 t2, xs = x :: xs' ∧ ws = w :: ws' ∧ ev x = some (.valid w, t1) ∧ FieldsRun evs xs' (i + 1) ws' [] t2 := by
  cases h with
  | valid hx hrest => exact ⟨_, _, _, _, _, _, rfl, rfl, hx, hrest⟩

theorem FieldsRun_inv_nil {xs : List PyVal} {i : Nat} {ws : List PyVal} {t : List Ev}
    (h : FieldsRun [] xs i ws [] t) : ws = [] := by
  cases h; rfl

mutual
theorem C07_default_sound_partial (o : Oracle) (ho : OracleTyped o) (env : Nat → V) (md : Mode) :
    ∀ (a : Ann), annFrag2 a = true → ∀ (s n : Nat) (x w : PyVal) (t : List Ev),
      run o env md n (derive .dflt a s).1 x = some (.valid w, t) → hasType a w = true
  | .str, _, s, n, x, w, t, h => by
    cases n with
    | zero => simp [run] at h
    | succ n => obtain ⟨h1, rfl, _⟩ := (C07_scalar_strict o env md .dflt .str .str rfl (Or.inl rfl) s n x w t).1 h; exact h1
  | .int, _, s, n, x, w, t, h => by
    cases n with
    | zero => simp [run] at h
    | succ n => obtain ⟨h1, rfl, _⟩ := (C07_scalar_strict o env md .dflt .int .int rfl (Or.inl rfl) s n x w t).1 h; exact h1
  | .float, _, s, n, x, w, t, h => by
    cases n with
    | zero => simp [run] at h
    | succ n => obtain ⟨h1, rfl, _⟩ := (C07_scalar_strict o env md .dflt .float .float rfl (Or.inl rfl) s n x w t).1 h; exact h1
  | .bool, _, s, n, x, w, t, h => by
    cases n with
    | zero => simp [run] at h
    | succ n => obtain ⟨h1, rfl, _⟩ := (C07_scalar_strict o env md .dflt .bool .bool rfl (Or.inl rfl) s n x w t).1 h; exact h1
  | .bytes, _, s, n, x, w, t, h => by
    cases n with
    | zero => simp [run] at h
    | succ n => obtain ⟨h1, rfl, _⟩ := (C07_scalar_strict o env md .dflt .bytes .bytes rfl (Or.inl rfl) s n x w t).1 h; exact h1
  | .cls c, _, s, n, x, w, t, h => by
    cases n with
    | zero => simp [run] at h
    | succ n =>
      obtain ⟨h1, rfl, _⟩ := (C07_scalar_strict o env md .dflt (.cls c) (.cls c) rfl (Or.inl rfl) s n x w t).1 h
      exact h1
  | .uuid, _, s, n, x, w, t, h => by
    cases n with
    | zero => simp [run] at h
    | succ n => exact C07_scalar_default_sound o ho env md .uuid .uuid rfl rfl s n x w t h
  | .date, _, s, n, x, w, t, h => by
    cases n with
    | zero => simp [run] at h
    | succ n => exact C07_scalar_default_sound o ho env md .date .date rfl rfl s n x w t h
  | .datetime, _, s, n, x, w, t, h => by
    cases n with
    | zero => simp [run] at h
    | succ n => exact C07_scalar_default_sound o ho env md .datetime .datetime rfl rfl s n x w t h
  | .decimal, _, s, n, x, w, t, h => by
    cases n with
    | zero => simp [run] at h
    | succ n => exact C07_scalar_default_sound o ho env md .decimal .decimal rfl rfl s n x w t h
  | .any, _, s, n, x, w, t, h => rfl
  | .none, _, s, n, x, w, t, h => by
    cases n with
    | zero => simp [run] at h
    | succ n => obtain ⟨_, rfl, _⟩ := (C07_none o env md .dflt s n x w t).1 h; rfl
  | .listBare, _, s, n, x, w, t, h => by
    cases n with
    | zero => simp [run] at h
    | succ n =>
      rw [derive_listBare_d] at h
      simp only [run] at h
      rw [C03_seq_accept_iff _ _ _ _ _ _ _ _ (by intro hk; cases hk)] at h
      obtain ⟨y, xs, t0, ws, t1, _, _, rfl, _⟩ := h
      rfl
  | .tupleBare, _, s, n, x, w, t, h => by
    cases n with
    | zero => simp [run] at h
    | succ n =>
      rw [derive_tupleBare_d] at h
      simp only [run] at h
      rw [C03_seq_accept_iff _ _ _ _ _ _ _ _ (by intro hk; cases hk)] at h
      obtain ⟨y, xs, t0, ws, t1, _, _, rfl, _⟩ := h
      rfl
  | .list a, hf, s, n, x, w, t, h => by
    simp only [annFrag2] at hf
    cases n with
    | zero => simp [run] at h
    | succ n =>
      rw [derive_list] at h
      simp only [run] at h
      rw [C03_seq_accept_iff _ _ _ _ _ _ _ _ (by intro hk; cases hk)] at h
      obtain ⟨y, xs, t0, ws, t1, _, hrun, rfl, _⟩ := h
      simp only [SeqKind.build, hasType, List.all_eq_true]
      intro w hw
      obtain ⟨x', u, hx'⟩ := ItemsRun_payloads hrun w hw
      exact C07_default_sound_partial o ho env md a hf _ n x' w u hx'
  | .tupleVar a, hf, s, n, x, w, t, h => by
    simp only [annFrag2] at hf
    cases n with
    | zero => simp [run] at h
    | succ n =>
      rw [derive_tupleVar_d] at h
      simp only [run] at h
      rw [C03_seq_accept_iff _ _ _ _ _ _ _ _ (by intro hk; cases hk)] at h
      obtain ⟨y, xs, t0, ws, t1, _, hrun, rfl, _⟩ := h
      simp only [SeqKind.build, hasType, List.all_eq_true]
      intro w hw
      obtain ⟨x', u, hx'⟩ := ItemsRun_payloads hrun w hw
      exact C07_default_sound_partial o ho env md a hf _ n x' w u hx'
  | .maybe a, hf, s, n, x, w, t, h => by
    simp only [annFrag2] at hf
    cases n with
    | zero => simp [run] at h
    | succ n =>
      rw [derive_maybe_d] at h
      simp only [run] at h
      unfold maybeStep at h
      cases x with
      | nothing =>
        simp only [Option.some.injEq, Prod.mk.injEq, Out.valid.injEq] at h
        obtain ⟨rfl, _⟩ := h
        rfl
      | just oid v =>
        simp only at h
        cases hv : run o env md n (derive .dflt a s).1 v with
        | none => simp [hv] at h
        | some p =>
          obtain ⟨out, u⟩ := p
          cases out with
          | valid w' =>
            simp only [hv, Option.some.injEq, Prod.mk.injEq, Out.valid.injEq] at h
            obtain ⟨rfl, _⟩ := h
            simp only [hasType]
            exact C07_default_sound_partial o ho env md a hf s n v w' u hv
          | invalid e => simp [hv] at h
          | raised e => simp [hv] at h
      | _ => simp at h
  | .union as, hf, s, n, x, w, t, h => by
    simp only [annFrag2] at hf
    cases n with
    | zero => simp [run] at h
    | succ n =>
      rw [derive_union] at h
      simp only [run] at h
      obtain ⟨pre, ev, post, es, t1, tw, hdec, _, hev, _⟩ := C05_union_valid_inv h
      have hmem : ev ∈ (deriveL .dflt as s).1.map (run o env md n) := by rw [hdec]; simp
      obtain ⟨v, hv, rfl⟩ := List.mem_map.1 hmem
      simp only [hasType]
      exact C07_default_sound_partialL o ho env md as hf s n x w tw v hv hev
  | .tupleFixed as, hf, s, n, x, w, t, h => by
    simp only [annFrag2] at hf
    cases n with
    | zero => simp [run] at h
    | succ n =>
      rw [derive_tupleFixed_d] at h
      simp only [run] at h
      cases hp : ntuplePre o (deriveL .dflt as s).2 (some .dflt) ((deriveL .dflt as s).2 + 1)
          ((deriveL .dflt as s).1.map (run o env md n)).length x with
      | inl r =>
        simp only [ntupleStep, hp, Option.some.injEq] at h
        exact absurd (by rw [h]) (ntuplePre_inl_not_valid hp w)
      | inr q =>
        obtain ⟨y, xs, t0⟩ := q
        have hlen : ((deriveL .dflt as s).1.map (run o env md n)).length = xs.length := by
          obtain ⟨hg, hn, hit⟩ := (C03_ntuple_pre_iff o _ (some .dflt) _ _ x y xs t0).1 hp
          obtain ⟨oid, l, rfl⟩ := gate_dflt_tuple o x y t0 hg
          simp only [pyLen, pyIter, Option.some.injEq] at hn hit
          subst hit
          exact hn.symm
        rw [C03_ntuple_accept_iff o _ none (some .dflt) _ _ x y xs t0 hp hlen] at h
        obtain ⟨ws, t1, hrun, rfl, _, _⟩ := h
        simp only [hasType]
        exact C07_default_sound_zip o ho env md as hf s n xs 0 ws t1 hrun
  | .setBare, hf, _, _, _, _, _, _ => by simp [annFrag2] at hf
  | .dictBare, hf, _, _, _, _, _, _ => by simp [annFrag2] at hf
  | .set _, hf, _, _, _, _, _, _ => by simp [annFrag2] at hf
  | .dict _ _, hf, _, _, _, _, _, _ => by simp [annFrag2] at hf
  | .literal _, hf, _, _, _, _, _, _ => by simp [annFrag2] at hf
  | .annotated _ _, hf, _, _, _, _, _, _ => by simp [annFrag2] at hf
  | .dataclass _ _ _ _, hf, _, _, _, _, _, _ => by simp [annFrag2] at hf
  | .namedtuple _ _ _ _, hf, _, _, _, _, _, _ => by simp [annFrag2] at hf
  | .typeddict _ _ _ _, hf, _, _, _, _, _, _ => by simp [annFrag2] at hf
  | .marked _, hf, _, _, _, _, _, _ => by simp [annFrag2] at hf
theorem C07_default_sound_partialL (o : Oracle) (ho : OracleTyped o) (env : Nat → V) (md : Mode) :
    ∀ (as : List Ann), annFrag2L as = true → ∀ (s n : Nat) (x w : PyVal) (t : List Ev) (v : V),
      v ∈ (deriveL .dflt as s).1 → run o env md n v x = some (.valid w, t) → hasTypeAny as w = true
  | [], _, s, n, x, w, t, v, hv, _ => by simp [deriveL] at hv; exact absurd hv (by intro h; cases h)
  | a :: as, hf, s, n, x, w, t, v, hv, h => by
    simp only [annFrag2L, Bool.and_eq_true] at hf
    rw [deriveL_cons] at hv
    simp only [List.mem_cons] at hv
    simp only [hasTypeAny, Bool.or_eq_true]
    rcases hv with rfl | hv
    · exact Or.inl (C07_default_sound_partial o ho env md a hf.1 s n x w t h)
    · exact Or.inr (C07_default_sound_partialL o ho env md as hf.2 _ n x w t v hv h)
theorem C07_default_sound_zip (o : Oracle) (ho : OracleTyped o) (env : Nat → V) (md : Mode) :
    ∀ (as : List Ann), annFrag2L as = true → ∀ (s n : Nat) (xs : List PyVal) (i : Nat) (ws : List PyVal) (t : List Ev),
      FieldsRun ((deriveL .dflt as s).1.map (run o env md n)) xs i ws [] t → hasTypeZip as ws = true
  | [], _, s, n, xs, i, ws, t, h => by
    have : (deriveL .dflt [] s).1 = [] := rfl
    rw [this] at h
    rw [FieldsRun_inv_nil h]; rfl
  | a :: as, hf, s, n, xs, i, ws, t, h => by
    simp only [annFrag2L, Bool.and_eq_true] at hf
    rw [deriveL_cons] at h
    simp only [List.map_cons] at h
    obtain ⟨x, xs', w, ws', t1, t2, rfl, rfl, hx, hrest⟩ := FieldsRun_inv_cons h
    simp only [hasTypeZip, Bool.and_eq_true]
    exact ⟨C07_default_sound_partial o ho env md a hf.1 s n x w t1 hx,
      C07_default_sound_zip o ho env md as hf.2 _ n xs' (i + 1) ws' t2 hrest⟩
end

/-- non-vacuity: `Tuple[Decimal, List[Optional[int]]]` accepts the list `["1.5", [3, None]]` (given a parser
    that reads "1.5") although it is not of the type, and accepts every value that is -/
example : annFrag2 (.tupleFixed [.decimal, .list (.union [.int, .none])]) = true := by decide

end Koda
