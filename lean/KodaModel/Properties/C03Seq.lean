/-
  C03 — the set and uniform-tuple validators *as written in /repo's current source*.

  `Generated/SeqSrc.lean` is rewritten on every run from the AST of `SetValidator._validate_to_tuple` /
  `_validate_to_tuple_async` (koda_validate/set.py) and of the same two methods of `UniformTupleValidator`
  (koda_validate/tuple.py).  Interpreting the translated methods (`KodaModel/PySeq.lean`) is the model's
  `seqStep .set` / `seqStep .utuple`: for every configuration (coercer or not, any container predicates, any async
  predicates — `None` and `[]` told apart where the source can), every item validator of either flavour
  (`_ToTupleValidator` or plain `Validator`) and every input — container-level failures before any element, every
  element validated, every failing member / index with the child's own `Invalid`, payloads in order (a set's added one by
  one, `TypeError` on an unhashable one while no error has been seen), trace and exceptions.
-/
import KodaModel.Generated.SeqSrc
import KodaModel.Properties.C03
import KodaModel.Properties.C01

set_option linter.unusedSimpArgs false

namespace Koda

/-! ### the pieces of the four methods -/

def tyExp : Ty → QExp
  | .list => .listTy | .set => .setTy | .tuple => .tupleTy | _ => .unsupported "type name"

def qGuard : QStmt := .ite (.selfAttr .predicatesAsync) [.expr (.warn (.selfAttr .cls))] []

def qGate (k : SeqKind) : QStmt :=
  .ite (.selfAttr .coerce)
    [.ite (.not (.attr (.walrus .coerced (.call1 (.selfAttr .coerce) .val)) .isJust))
       [.ret (.pair (.bool false) (.mkInvalid (.mkCoercionErr (.attr (.selfAttr .coerce) .compatibleTypes) (tyExp k.destTy)) .val .self))]
       [.assign .coercedVal (.attr (.var .coerced) .valA)]]
    [.ite (.typeIs .val (tyExp k.gateTy)) [.assign .coercedVal .val]
       [.ret (.pair (.bool false) (.mkInvalid (.mkTypeErr (tyExp k.gateTy)) .val .self))]]

def qSyncComp (viaMeth : Bool) : QExp :=
  .listComp (.var .pred) .pred (.selfAttr .predicates)
    (.not (if viaMeth then .meth (.var .pred) .call (.var .coercedVal) else .call1 (.var .pred) (.var .coercedVal)))

def qPredsSync : QStmt :=
  .ite (.selfAttr .predicates)
    [.assign .listErrors (qSyncComp false),
     .ite (.var .listErrors) [.ret (.pair (.bool false) (.mkInvalid (.mkPredErrs (.var .listErrors)) (.var .coercedVal) .self))] []]
    []

/-- calling the item validator the way its flavour allows, and reading `(is_valid, payload-or-Invalid)` off the answer -/
def qDispatch (aw : Bool) : QStmt :=
  .ite (.selfAttr .itemIsTuple)
    [.assign2 .isValid .itemResult
       (if aw then .await (.meth (.selfAttr .itemValidator) .validateToTupleAsync (.var .item))
        else .meth (.selfAttr .itemValidator) .validateToTuple (.var .item))]
    [.assign .result
       (if aw then .await (.meth (.selfAttr .itemValidator) .validateAsync (.var .item))
        else .call1 (.selfAttr .itemValidator) (.var .item)),
     .assign2 .isValid .itemResult
       (.ifExp (.attr (.var .result) .isValid) (.pair (.bool true) (.attr (.var .result) .valA)) (.pair (.bool false) (.var .result)))]

def qFile : SeqKind → QStmt
  | .set => .ite (.not (.var .isValid)) [.append .indexErrs (.var .itemResult)]
      [.ite (.not (.var .indexErrs)) [.add .returnList (.var .itemResult)] []]
  | _ => .ite (.not (.var .isValid)) [.setItem .indexErrs (.var .i) (.var .itemResult)]
      [.ite (.not (.var .indexErrs)) [.append .returnList (.var .itemResult)] []]

def qLoopBody (k : SeqKind) (aw : Bool) : List QStmt := [qDispatch aw, qFile k]

def qLoop (k : SeqKind) (aw : Bool) : QStmt := .forIn2 .i .item (.enumerate (.var .coercedVal)) (qLoopBody k aw)

def qFinal : SeqKind → QStmt
  | .set => .ite (.var .indexErrs)
      [.ret (.pair (.bool false) (.mkInvalid (.mkSetErrs (.var .indexErrs)) (.var .coercedVal) .self))]
      [.ret (.pair (.bool true) (.var .returnList))]
  | _ => .ite (.var .indexErrs)
      [.ret (.pair (.bool false) (.mkInvalid (.mkIndexErrs (.var .indexErrs)) (.var .coercedVal) .self))]
      [.ret (.pair (.bool true) (.tupleOf (.var .returnList)))]

def qInit : SeqKind → List QStmt
  | .set => [.assign .returnList .emptySet, .assign .indexErrs .emptyList]
  | _ => [.assign .returnList .emptyList, .assign .indexErrs .emptyDict]

def qTail (k : SeqKind) (aw : Bool) : List QStmt := qInit k ++ [qLoop k aw, qFinal k]

/-- the async predicates: `ev` is the variable collecting the failures, `notNone` whether the list of async predicates
    is tested with `is not None` (set) or for truth (uniform tuple) -/
def qAsyncBody (ev : QVar) : List QStmt :=
  [.ite (.not (.await (.meth (.var .predAsync) .validateAsync (.var .coercedVal))))
     [.append ev (.var .predAsync)] []]

def qAsyncPreds (ev : QVar) (notNone : Bool) : List QStmt :=
  [.assign ev .emptyList,
   .ite (.selfAttr .predicates) [.extend ev (qSyncComp false)] [],
   .ite (if notNone then .isNotNone (.selfAttr .predicatesAsync) else .selfAttr .predicatesAsync)
     [.forIn .predAsync (.selfAttr .predicatesAsync) (qAsyncBody ev)] [],
   .ite (.var ev)
     [.ret (.pair (.bool false) (.mkInvalid (.mkPredErrs (.var ev)) (.var .coercedVal) .self))] []]

theorem setSync_eq : Src.setSync = qGuard :: qGate .set :: qPredsSync :: qTail .set false := rfl
theorem setAsync_eq : Src.setAsync = qGate .set :: (qAsyncPreds .predicateErrors true ++ qTail .set true) := rfl
theorem utupleSync_eq : Src.utupleSync = qGuard :: qGate .utuple :: qPredsSync :: qTail .utuple false := rfl
theorem utupleAsync_eq : Src.utupleAsync = qGate .utuple :: (qAsyncPreds .listErrors false ++ qTail .utuple true) := rfl

/-! ### unfolding helpers -/

theorem qflow_id (r : Except (QErr × List Ev) QFlow) :
    (match r with
     | .error err => .error err
     | .ok (.next st) => .ok (.next st)
     | .ok (.returned d st) => .ok (.returned d st)) = r := by
  cases r with
  | error e => rfl
  | ok f => cases f <;> rfl

theorem qexecL_nil (o : Oracle) (cfg : SeqCfg) (x : PyVal) (st : QSt) : QStmt.execL o cfg x st [] = .ok (.next st) := by
  simp only [QStmt.execL]

theorem qexecL_cons (o : Oracle) (cfg : SeqCfg) (x : PyVal) (st : QSt) (s : QStmt) (rest : List QStmt) :
    QStmt.execL o cfg x st (s :: rest) =
      (match s.exec o cfg x st with
       | .error err => .error err
       | .ok (.next st) => QStmt.execL o cfg x st rest
       | .ok (.returned d st) => .ok (.returned d st)) := by
  simp only [QStmt.execL]
  rfl

theorem qexecL_single (o : Oracle) (cfg : SeqCfg) (x : PyVal) (st : QSt) (s : QStmt) :
    QStmt.execL o cfg x st [s] = QStmt.exec o cfg x st s := by
  rw [qexecL_cons]
  simp only [qexecL_nil]
  exact qflow_id _

theorem qexec_ite (o : Oracle) (cfg : SeqCfg) (x : PyVal) (st : QSt) (c : QExp) (t e : List QStmt) :
    QStmt.exec o cfg x st (.ite c t e) =
      (match c.eval o cfg x st with
       | .error err => .error err
       | .ok (d, st) =>
         match qtruthy d with
         | none => .error (.stuck "truth value", st.tr)
         | some true => QStmt.execL o cfg x st t
         | some false => QStmt.execL o cfg x st e) := by
  simp only [QStmt.exec]
  rfl

theorem qexec_assign (o : Oracle) (cfg : SeqCfg) (x : PyVal) (st : QSt) (v : QVar) (e : QExp) :
    QStmt.exec o cfg x st (.assign v e) =
      (match e.eval o cfg x st with
       | .error err => .error err
       | .ok (d, st) => .ok (.next { st with env := st.env.set v d })) := by
  simp only [QStmt.exec]
  rfl

theorem tyExp_eval (o : Oracle) (cfg : SeqCfg) (x : PyVal) (st : QSt) (t : Ty) (h : t = .list ∨ t = .set ∨ t = .tuple) :
    (tyExp t).eval o cfg x st = .ok (.tyName t, st) := by
  rcases h with rfl | rfl | rfl <;> simp [tyExp, QExp.eval]

theorem gateTy_name (k : SeqKind) : k.gateTy = .list ∨ k.gateTy = .set ∨ k.gateTy = .tuple := by
  cases k <;> simp [SeqKind.gateTy]

theorem destTy_name (k : SeqKind) : k.destTy = .list ∨ k.destTy = .set ∨ k.destTy = .tuple := by
  cases k <;> simp [SeqKind.destTy]

/-! ### the loop over the elements, for any loop body that keeps an invariant `I st payloads errors container` -/

theorem qforFold2_items (cfg : SeqCfg) (hashReq : Bool) (I : QSt → List PyVal → List (Nat × Inv) → QV → Prop)
    (hI : ∀ (st : QSt) (rl : List PyVal) (ie : List (Nat × Inv)) (cv : QV) (n : Nat) (y : PyVal), I st rl ie cv →
      I { st with env := (st.env.set .i (.nat n)).set .item (.py y) } rl ie cv)
    (execBody : QSt → Except (QErr × List Ev) QFlow)
    (Hb : ∀ (st : QSt) (n : Nat) (y : PyVal) (rl : List PyVal) (ie : List (Nat × Inv)) (cv : QV),
      st.env.i = .nat n → st.env.item = .py y → I st rl ie cv →
      (cfg.item y = none → ∃ t, execBody st = .error (.diverge, t)) ∧
      (∀ e t, cfg.item y = some (.raised e, t) → execBody st = .error (.exn e, st.tr ++ t)) ∧
      (∀ w t, cfg.item y = some (.valid w, t) →
        if (hashReq && ie.isEmpty && !hashable w) = true then execBody st = .error (.exn .typeError, st.tr ++ t)
        else ∃ st1, execBody st = .ok (.next st1) ∧ I st1 (if ie.isEmpty then rl ++ [w] else rl) ie cv ∧ st1.tr = st.tr ++ t) ∧
      (∀ e t, cfg.item y = some (.invalid e, t) →
        ∃ st1, execBody st = .ok (.next st1) ∧ I st1 rl (ie ++ [(n, e)]) cv ∧ st1.tr = st.tr ++ t)) :
    ∀ (xs : List PyVal) (n : Nat) (st : QSt) (rl : List PyVal) (ie : List (Nat × Inv)) (cv : QV), I st rl ie cv →
      (loopItems cfg.item hashReq xs n ie.isEmpty = none →
        ∃ t, qforFold2 execBody .i .item xs n st = .error (.diverge, t)) ∧
      (∀ r e, loopItems cfg.item hashReq xs n ie.isEmpty = some r → r.r = some e →
        qforFold2 execBody .i .item xs n st = .error (.exn e, st.tr ++ r.t)) ∧
      (∀ r, loopItems cfg.item hashReq xs n ie.isEmpty = some r → r.r = none →
        ∃ st1, qforFold2 execBody .i .item xs n st = .ok (.next st1) ∧ st1.tr = st.tr ++ r.t ∧
          (ie ++ r.es = [] → I st1 (rl ++ r.ws) [] cv) ∧
          (∃ rl', I st1 rl' (ie ++ r.es) cv)) := by
  intro xs
  induction xs with
  | nil =>
    intro n st rl ie cv hinv
    refine ⟨?_, ?_, ?_⟩
    · intro h; simp [loopItems] at h
    · intro r e h hr
      simp only [loopItems, Option.some.injEq] at h; subst h; simp at hr
    · intro r h _
      simp only [loopItems, Option.some.injEq] at h; subst h
      refine ⟨st, by simp [qforFold2], by simp, ?_, ⟨rl, by simpa using hinv⟩⟩
      intro h0
      simp only [List.append_nil] at h0 ⊢
      subst h0; exact hinv
  | cons y ys ih =>
    intro n st rl ie cv hinv
    have hinv' := hI st rl ie cv n y hinv
    obtain ⟨b1, b2, b3, b4⟩ := Hb { st with env := (st.env.set .i (.nat n)).set .item (.py y) } n y rl ie cv
      (by simp [QEnv.set]) (by simp [QEnv.set]) hinv'
    simp only [loopItems, qforFold2]
    cases hc : cfg.item y with
    | none =>
      obtain ⟨t0, h0⟩ := b1 hc
      refine ⟨?_, ?_, ?_⟩
      · intro _; exact ⟨t0, by rw [h0]⟩
      · intro r e h; simp at h
      · intro r h; simp at h
    | some p =>
      obtain ⟨out, t0⟩ := p
      cases out with
      | raised e0 =>
        have h0 := b2 e0 t0 hc
        refine ⟨?_, ?_, ?_⟩
        · intro h; simp at h
        · intro r e h hr
          simp only [Option.some.injEq] at h; subst h
          simp only [Option.some.injEq] at hr; subst hr
          rw [h0]
        · intro r h hr
          simp only [Option.some.injEq] at h; subst h; simp at hr
      | valid w0 =>
        have hb3 := b3 w0 t0 hc
        by_cases hh : (hashReq && ie.isEmpty && !hashable w0) = true
        · rw [if_pos hh] at hb3
          simp only [hh, if_true]
          refine ⟨?_, ?_, ?_⟩
          · intro h; simp at h
          · intro r e h hr
            simp only [Option.some.injEq] at h; subst h
            simp only [Option.some.injEq] at hr; subst hr
            rw [hb3]
          · intro r h hr
            simp only [Option.some.injEq] at h; subst h; simp at hr
        · rw [if_neg hh] at hb3
          obtain ⟨st1, h0, hi1, ht1⟩ := hb3
          obtain ⟨i1, i2, i3⟩ := ih (n + 1) st1 (if ie.isEmpty then rl ++ [w0] else rl) ie cv hi1
          rw [h0]
          simp only [hh, Bool.false_eq_true, if_false]
          cases hl : loopItems cfg.item hashReq ys (n + 1) ie.isEmpty with
          | none =>
            refine ⟨?_, ?_, ?_⟩
            · intro _; exact i1 hl
            · intro r e h; simp at h
            · intro r h; simp at h
          | some r' =>
            refine ⟨?_, ?_, ?_⟩
            · intro h; simp at h
            · intro r e h hr
              simp only [Option.some.injEq] at h; subst h
              rw [i2 r' e hl hr, ht1]; simp [List.append_assoc]
            · intro r h hr
              simp only [Option.some.injEq] at h; subst h
              obtain ⟨st2, j1, j2, j3, j4⟩ := i3 r' hl hr
              refine ⟨st2, j1, by rw [j2, ht1]; simp [List.append_assoc], ?_, j4⟩
              intro h0'
              have hie : ie = [] := (List.append_eq_nil_iff.mp h0').1
              have := j3 h0'
              subst hie
              simpa [List.append_assoc] using this
      | invalid e0 =>
        obtain ⟨st1, h0, hi1, ht1⟩ := b4 e0 t0 hc
        obtain ⟨i1, i2, i3⟩ := ih (n + 1) st1 rl (ie ++ [(n, e0)]) cv hi1
        have hne : (ie ++ [(n, e0)]).isEmpty = false := by simp
        rw [hne] at i1 i2 i3
        rw [h0]
        simp only
        cases hl : loopItems cfg.item hashReq ys (n + 1) false with
        | none =>
          refine ⟨?_, ?_, ?_⟩
          · intro _; exact i1 hl
          · intro r e h; simp at h
          · intro r h; simp at h
        | some r' =>
          refine ⟨?_, ?_, ?_⟩
          · intro h; simp at h
          · intro r e h hr
            simp only [Option.some.injEq] at h; subst h
            rw [i2 r' e hl hr, ht1]; simp [List.append_assoc]
          · intro r h hr
            simp only [Option.some.injEq] at h; subst h
            obtain ⟨st2, j1, j2, j3, rl', j4⟩ := i3 r' hl hr
            refine ⟨st2, j1, by rw [j2, ht1]; simp [List.append_assoc], ?_, ⟨rl', by simpa [List.append_assoc] using j4⟩⟩
            intro h0'
            simp at h0'

/-! ### one round of each loop -/

/-- uniform tuple: payloads in a list, errors in a dict under their index -/
structure TupInv (st : QSt) (rl : List PyVal) (ie : List (Nat × Inv)) (cv : QV) : Prop where
  rl : st.env.returnList = .payloads rl
  ie : st.env.indexErrs = .idxErrs ie
  cv : st.env.coercedVal = cv

/-- set: payloads added to a set, the members' errors in a list (an empty Python list has no element type) -/
structure SetInv (st : QSt) (rl : List PyVal) (ie : List (Nat × Inv)) (cv : QV) : Prop where
  rl : st.env.returnList = .setPayloads rl
  ie : (ie = [] ∧ st.env.indexErrs = .payloads []) ∨ (ie ≠ [] ∧ st.env.indexErrs = .invs (ie.map Prod.snd))
  cv : st.env.coercedVal = cv

theorem tupInv_set (st : QSt) (rl : List PyVal) (ie : List (Nat × Inv)) (cv : QV) (n : Nat) (y : PyVal) (h : TupInv st rl ie cv) :
    TupInv { st with env := (st.env.set .i (.nat n)).set .item (.py y) } rl ie cv :=
  ⟨by simpa [QEnv.set] using h.rl, by simpa [QEnv.set] using h.ie, by simpa [QEnv.set] using h.cv⟩

theorem setInv_set (st : QSt) (rl : List PyVal) (ie : List (Nat × Inv)) (cv : QV) (n : Nat) (y : PyVal) (h : SetInv st rl ie cv) :
    SetInv { st with env := (st.env.set .i (.nat n)).set .item (.py y) } rl ie cv :=
  ⟨by simpa [QEnv.set] using h.rl, by simpa [QEnv.set] using h.ie, by simpa [QEnv.set] using h.cv⟩

theorem qLoopBodyTup_exec (o : Oracle) (cfg : SeqCfg) (x : PyVal) (aw : Bool)
    (st : QSt) (n : Nat) (y : PyVal) (rl : List PyVal) (ie : List (Nat × Inv)) (cv : QV)
    (hi : st.env.i = .nat n) (hy : st.env.item = .py y) (hinv : TupInv st rl ie cv) :
    (cfg.item y = none → ∃ t, QStmt.execL o cfg x st (qLoopBody .utuple aw) = .error (.diverge, t)) ∧
    (∀ e t, cfg.item y = some (.raised e, t) → QStmt.execL o cfg x st (qLoopBody .utuple aw) = .error (.exn e, st.tr ++ t)) ∧
    (∀ w t, cfg.item y = some (.valid w, t) →
      if (false && ie.isEmpty && !hashable w) = true then QStmt.execL o cfg x st (qLoopBody .utuple aw) = .error (.exn .typeError, st.tr ++ t)
      else ∃ st1, QStmt.execL o cfg x st (qLoopBody .utuple aw) = .ok (.next st1) ∧
        TupInv st1 (if ie.isEmpty then rl ++ [w] else rl) ie cv ∧ st1.tr = st.tr ++ t) ∧
    (∀ e t, cfg.item y = some (.invalid e, t) →
      ∃ st1, QStmt.execL o cfg x st (qLoopBody .utuple aw) = .ok (.next st1) ∧
        TupInv st1 rl (ie ++ [(n, e)]) cv ∧ st1.tr = st.tr ++ t) := by
  obtain ⟨h1, h2, h3⟩ := hinv
  refine ⟨?_, ?_, ?_, ?_⟩
  · intro h
    refine ⟨st.tr, ?_⟩
    cases hT : cfg.isTuple <;> cases aw <;>
      simp [qLoopBody, qDispatch, qFile, QStmt.execL, QStmt.exec, QExp.eval, qselfAttr, callItem, QEnv.get, qtruthy, hy, h, hT]
  · intro e t h
    cases hT : cfg.isTuple <;> cases aw <;>
      simp [qLoopBody, qDispatch, qFile, QStmt.execL, QStmt.exec, QExp.eval, qselfAttr, callItem, QEnv.get, qtruthy, hy, h, hT]
  · intro w t h
    simp only [Bool.false_and, Bool.false_eq_true, if_false]
    cases hie : ie with
    | nil =>
      cases hT : cfg.isTuple <;> cases aw <;>
        simp [qLoopBody, qDispatch, qFile, QStmt.execL, QStmt.exec, QExp.eval, qselfAttr, callItem, QEnv.get, QEnv.set, hy, h, hT, qtruthy, h1, h2, h3, hie] <;>
        exact ⟨rfl, rfl, rfl⟩
    | cons a l =>
      cases hT : cfg.isTuple <;> cases aw <;>
        simp [qLoopBody, qDispatch, qFile, QStmt.execL, QStmt.exec, QExp.eval, qselfAttr, callItem, QEnv.get, QEnv.set, hy, h, hT, qtruthy, h1, h2, h3, hie] <;>
        exact ⟨rfl, rfl, rfl⟩
  · intro e t h
    cases hT : cfg.isTuple <;> cases aw <;>
      simp [qLoopBody, qDispatch, qFile, QStmt.execL, QStmt.exec, QExp.eval, qselfAttr, callItem, QEnv.get, QEnv.set, hy, hi, h, hT, qtruthy, h1, h2, h3] <;>
      exact ⟨rfl, rfl, rfl⟩

theorem qLoopBodySet_exec (o : Oracle) (cfg : SeqCfg) (x : PyVal) (aw : Bool)
    (st : QSt) (n : Nat) (y : PyVal) (rl : List PyVal) (ie : List (Nat × Inv)) (cv : QV)
    (hi : st.env.i = .nat n) (hy : st.env.item = .py y) (hinv : SetInv st rl ie cv) :
    (cfg.item y = none → ∃ t, QStmt.execL o cfg x st (qLoopBody .set aw) = .error (.diverge, t)) ∧
    (∀ e t, cfg.item y = some (.raised e, t) → QStmt.execL o cfg x st (qLoopBody .set aw) = .error (.exn e, st.tr ++ t)) ∧
    (∀ w t, cfg.item y = some (.valid w, t) →
      if (true && ie.isEmpty && !hashable w) = true then QStmt.execL o cfg x st (qLoopBody .set aw) = .error (.exn .typeError, st.tr ++ t)
      else ∃ st1, QStmt.execL o cfg x st (qLoopBody .set aw) = .ok (.next st1) ∧
        SetInv st1 (if ie.isEmpty then rl ++ [w] else rl) ie cv ∧ st1.tr = st.tr ++ t) ∧
    (∀ e t, cfg.item y = some (.invalid e, t) →
      ∃ st1, QStmt.execL o cfg x st (qLoopBody .set aw) = .ok (.next st1) ∧
        SetInv st1 rl (ie ++ [(n, e)]) cv ∧ st1.tr = st.tr ++ t) := by
  obtain ⟨h1, h2, h3⟩ := hinv
  refine ⟨?_, ?_, ?_, ?_⟩
  · intro h
    refine ⟨st.tr, ?_⟩
    cases hT : cfg.isTuple <;> cases aw <;>
      simp [qLoopBody, qDispatch, qFile, QStmt.execL, QStmt.exec, QExp.eval, qselfAttr, callItem, QEnv.get, qtruthy, hy, h, hT]
  · intro e t h
    cases hT : cfg.isTuple <;> cases aw <;>
      simp [qLoopBody, qDispatch, qFile, QStmt.execL, QStmt.exec, QExp.eval, qselfAttr, callItem, QEnv.get, qtruthy, hy, h, hT]
  · intro w t h
    rcases h2 with ⟨rfl, h2⟩ | ⟨hne, h2⟩
    · -- no error so far: the payload is added (or cannot be hashed)
      by_cases hh : hashable w = true
      · simp only [List.isEmpty_nil, Bool.and_true, Bool.true_and, hh, Bool.not_true, Bool.false_eq_true, if_false, if_true]
        cases hT : cfg.isTuple <;> cases aw <;>
          simp [qLoopBody, qDispatch, qFile, QStmt.execL, QStmt.exec, QExp.eval, qselfAttr, callItem, QEnv.get, QEnv.set, hy, h, hT, qtruthy, h1, h2, h3, hh] <;>
          exact ⟨rfl, .inl ⟨rfl, rfl⟩, rfl⟩
      · have hh' : hashable w = false := by simpa using hh
        simp only [List.isEmpty_nil, Bool.and_true, Bool.true_and, hh', Bool.not_false, if_true]
        cases hT : cfg.isTuple <;> cases aw <;>
          simp [qLoopBody, qDispatch, qFile, QStmt.execL, QStmt.exec, QExp.eval, qselfAttr, callItem, QEnv.get, QEnv.set, hy, h, hT, qtruthy, h1, h2, h3, hh']
    · have hie : ie.isEmpty = false := by cases ie with
        | nil => exact absurd rfl hne
        | cons a l => rfl
      have hmap : (ie.map Prod.snd).isEmpty = false := by cases ie with
        | nil => exact absurd rfl hne
        | cons a l => rfl
      simp only [hie, Bool.and_false, Bool.false_and, Bool.false_eq_true, if_false]
      cases hT : cfg.isTuple <;> cases aw <;>
        simp [qLoopBody, qDispatch, qFile, QStmt.execL, QStmt.exec, QExp.eval, qselfAttr, callItem, QEnv.get, QEnv.set, hy, h, hT, qtruthy, h1, h2, h3, hmap] <;>
        exact ⟨rfl, .inr ⟨hne, rfl⟩, rfl⟩
  · intro e t h
    rcases h2 with ⟨rfl, h2⟩ | ⟨hne, h2⟩
    · cases hT : cfg.isTuple <;> cases aw <;>
        simp [qLoopBody, qDispatch, qFile, QStmt.execL, QStmt.exec, QExp.eval, qselfAttr, callItem, QEnv.get, QEnv.set, hy, hi, h, hT, qtruthy, h1, h2, h3] <;>
        exact ⟨rfl, .inr ⟨by simp, rfl⟩, rfl⟩
    · cases hT : cfg.isTuple <;> cases aw <;>
        simp [qLoopBody, qDispatch, qFile, QStmt.execL, QStmt.exec, QExp.eval, qselfAttr, callItem, QEnv.get, QEnv.set, hy, hi, h, hT, qtruthy, h1, h2, h3] <;>
        exact ⟨rfl, .inr ⟨by simp, by simp⟩, rfl⟩

/-! ### reading a method's result; the part after the container level -/

theorem qFinal_utuple : qFinal .utuple = .ite (.var .indexErrs)
      [.ret (.pair (.bool false) (.mkInvalid (.mkIndexErrs (.var .indexErrs)) (.var .coercedVal) .self))]
      [.ret (.pair (.bool true) (.tupleOf (.var .returnList)))] := rfl

theorem qFinal_set : qFinal .set = .ite (.var .indexErrs)
      [.ret (.pair (.bool false) (.mkInvalid (.mkSetErrs (.var .indexErrs)) (.var .coercedVal) .self))]
      [.ret (.pair (.bool true) (.var .returnList))] := rfl

def outQ (cfg : SeqCfg) : Except (QErr × List Ev) QFlow → Option (Out × List Ev)
  | .error (.exn e, t) => some (.raised e, t)
  | .error (_, _) => none
  | .ok (.returned (.pair (.bool true) (.setPayloads ws)) st) =>
    if cfg.kind = .set then some (.valid (.set 0 (dedup ws)), st.tr) else none
  | .ok (.returned (.pair (.bool true) (.tupled ws)) st) =>
    if cfg.kind = .utuple then some (.valid (.tuple 0 ws), st.tr) else none
  | .ok (.returned (.pair (.bool false) (.invalid e)) st) => some (.invalid e, st.tr)
  | .ok _ => none

theorem runSeqMethod_eq (o : Oracle) (cfg : SeqCfg) (body : List QStmt) (x : PyVal) :
    runSeqMethod o cfg body x = outQ cfg (QStmt.execL o cfg x { env := {}, tr := [] } body) := by
  simp only [runSeqMethod, outQ]
  rfl

/-- `return_list = []; index_errors = {}; for i, item in enumerate(coerced_val): …; if index_errors: … else: …` -/
theorem qTailTup_exec (o : Oracle) (cfg : SeqCfg) (hk : cfg.kind = .utuple) (x : PyVal) (aw : Bool)
    (st : QSt) (y : PyVal) (hy : st.env.coercedVal = .py y) :
    outQ cfg (QStmt.execL o cfg x st (qTail .utuple aw)) =
      (match pyIter y with
       | none => some (.raised .typeError, st.tr)
       | some xs =>
         match loopItems cfg.item false xs 0 true with
         | none => none
         | some r => some (finishSeq .utuple cfg.vid y r, st.tr ++ r.t)) := by
  have hinit : QStmt.execL o cfg x st (qTail .utuple aw) =
      QStmt.execL o cfg x { st with env := (st.env.set .returnList (.payloads [])).set .indexErrs (.idxErrs []) }
        [qLoop .utuple aw, qFinal .utuple] := by
    simp [qTail, qInit, QStmt.execL, QStmt.exec, QExp.eval]
  rw [hinit]
  let st0 : QSt := { st with env := (st.env.set .returnList (.payloads [])).set .indexErrs (.idxErrs []) }
  have hinv0 : TupInv st0 [] [] (.py y) := ⟨rfl, rfl, by simpa [st0, QEnv.set] using hy⟩
  rw [qexecL_cons]
  have hloop : QStmt.exec o cfg x st0 (qLoop .utuple aw) =
      (match pyIter y with
       | none => .error (.exn .typeError, st0.tr)
       | some xs => qforFold2 (fun st => QStmt.execL o cfg x st (qLoopBody .utuple aw)) .i .item xs 0 st0) := by
    have hcv : st0.env.get .coercedVal = .py y := hinv0.cv
    simp only [qLoop, QStmt.exec, QExp.eval, hcv]
    cases pyIter y <;> rfl
  show outQ cfg (match QStmt.exec o cfg x st0 (qLoop .utuple aw) with
    | .error err => .error err
    | .ok (.next st) => QStmt.execL o cfg x st [qFinal .utuple]
    | .ok (.returned d st) => .ok (.returned d st)) = _
  rw [hloop]
  cases hit : pyIter y with
  | none => rfl
  | some xs =>
    simp only
    obtain ⟨l1, l2, l3⟩ := qforFold2_items cfg false TupInv tupInv_set (fun st => QStmt.execL o cfg x st (qLoopBody .utuple aw))
      (fun st n y' rl ie cv hi hy' hinv => qLoopBodyTup_exec o cfg x aw st n y' rl ie cv hi hy' hinv)
      xs 0 st0 [] [] (.py y) hinv0
    simp only [List.isEmpty_nil] at l1 l2 l3
    cases hl : loopItems cfg.item false xs 0 true with
    | none =>
      obtain ⟨t, ht⟩ := l1 hl
      rw [ht]; rfl
    | some r =>
      cases hr : r.r with
      | some e =>
        rw [l2 r e hl hr]
        simp [outQ, finishSeq, hr, st0]
      | none =>
        obtain ⟨st1, h1, h2, h3, rl', h4⟩ := l3 r hl hr
        rw [h1]
        simp only
        rw [qexecL_single, qFinal_utuple, qexec_ite]
        have hv : (QExp.var .indexErrs).eval o cfg x st1 = .ok (.idxErrs ([] ++ r.es), st1) := by
          simp [QExp.eval, QEnv.get, h4.ie]
        rw [hv]
        simp only [List.nil_append, qtruthy]
        cases hes : r.es with
        | nil =>
          have hinv1 := h3 (by simp [hes])
          simp only [List.isEmpty_nil, Bool.not_true]
          rw [qexecL_single]
          simp [QStmt.exec, QExp.eval, QEnv.get, hinv1.rl, outQ, hk, finishSeq, hr, hes, SeqKind.build, h2, st0]
        | cons a l =>
          simp only [List.isEmpty_cons, Bool.not_false]
          rw [qexecL_single]
          have hie : st1.env.indexErrs = .idxErrs (a :: l) := by rw [h4.ie, hes]; rfl
          simp [QStmt.exec, QExp.eval, QEnv.get, hie, h4.cv, outQ, finishSeq, hr, hes, h2, st0]

/-- `return_set = set(); item_errs = []; for i, item in enumerate(coerced_val): …; if item_errs: … else: …` -/
theorem qTailSet_exec (o : Oracle) (cfg : SeqCfg) (hk : cfg.kind = .set) (x : PyVal) (aw : Bool)
    (st : QSt) (y : PyVal) (hy : st.env.coercedVal = .py y) :
    outQ cfg (QStmt.execL o cfg x st (qTail .set aw)) =
      (match pyIter y with
       | none => some (.raised .typeError, st.tr)
       | some xs =>
         match loopItems cfg.item true xs 0 true with
         | none => none
         | some r => some (finishSeq .set cfg.vid y r, st.tr ++ r.t)) := by
  have hinit : QStmt.execL o cfg x st (qTail .set aw) =
      QStmt.execL o cfg x { st with env := (st.env.set .returnList (.setPayloads [])).set .indexErrs (.payloads []) }
        [qLoop .set aw, qFinal .set] := by
    simp [qTail, qInit, QStmt.execL, QStmt.exec, QExp.eval]
  rw [hinit]
  let st0 : QSt := { st with env := (st.env.set .returnList (.setPayloads [])).set .indexErrs (.payloads []) }
  have hinv0 : SetInv st0 [] [] (.py y) := ⟨rfl, .inl ⟨rfl, rfl⟩, by simpa [st0, QEnv.set] using hy⟩
  rw [qexecL_cons]
  have hloop : QStmt.exec o cfg x st0 (qLoop .set aw) =
      (match pyIter y with
       | none => .error (.exn .typeError, st0.tr)
       | some xs => qforFold2 (fun st => QStmt.execL o cfg x st (qLoopBody .set aw)) .i .item xs 0 st0) := by
    have hcv : st0.env.get .coercedVal = .py y := hinv0.cv
    simp only [qLoop, QStmt.exec, QExp.eval, hcv]
    cases pyIter y <;> rfl
  show outQ cfg (match QStmt.exec o cfg x st0 (qLoop .set aw) with
    | .error err => .error err
    | .ok (.next st) => QStmt.execL o cfg x st [qFinal .set]
    | .ok (.returned d st) => .ok (.returned d st)) = _
  rw [hloop]
  cases hit : pyIter y with
  | none => rfl
  | some xs =>
    simp only
    obtain ⟨l1, l2, l3⟩ := qforFold2_items cfg true SetInv setInv_set (fun st => QStmt.execL o cfg x st (qLoopBody .set aw))
      (fun st n y' rl ie cv hi hy' hinv => qLoopBodySet_exec o cfg x aw st n y' rl ie cv hi hy' hinv)
      xs 0 st0 [] [] (.py y) hinv0
    simp only [List.isEmpty_nil] at l1 l2 l3
    cases hl : loopItems cfg.item true xs 0 true with
    | none =>
      obtain ⟨t, ht⟩ := l1 hl
      rw [ht]; rfl
    | some r =>
      cases hr : r.r with
      | some e =>
        rw [l2 r e hl hr]
        simp [outQ, finishSeq, hr, st0]
      | none =>
        obtain ⟨st1, h1, h2, h3, rl', h4⟩ := l3 r hl hr
        rw [h1]
        simp only
        rw [qexecL_single, qFinal_set, qexec_ite]
        simp only [List.nil_append] at h3 h4
        cases hes : r.es with
        | nil =>
          have hinv1 := h3 hes
          have hie : st1.env.indexErrs = .payloads [] := by
            rcases hinv1.ie with ⟨_, h⟩ | ⟨h, _⟩
            · exact h
            · exact absurd rfl h
          have hv : (QExp.var .indexErrs).eval o cfg x st1 = .ok (.payloads [], st1) := by
            simp [QExp.eval, QEnv.get, hie]
          rw [hv]
          simp only [qtruthy, List.isEmpty_nil, Bool.not_true]
          rw [qexecL_single]
          simp [QStmt.exec, QExp.eval, QEnv.get, hinv1.rl, outQ, hk, finishSeq, hr, hes, SeqKind.build, h2, st0]
        | cons a l =>
          have hie : st1.env.indexErrs = .invs ((a :: l).map Prod.snd) := by
            rcases h4.ie with ⟨h, _⟩ | ⟨_, h⟩
            · rw [hes] at h; simp at h
            · rw [h, hes]
          have hv : (QExp.var .indexErrs).eval o cfg x st1 = .ok (.invs ((a :: l).map Prod.snd), st1) := by
            simp [QExp.eval, QEnv.get, hie]
          rw [hv]
          simp only [qtruthy, List.map_cons, List.isEmpty_cons, Bool.not_false]
          rw [qexecL_single]
          simp [QStmt.exec, QExp.eval, QEnv.get, hie, h4.cv, outQ, finishSeq, hr, hes, h2, st0]

/-! ### the container predicates -/

/-- the predicates that fail on `z`, in order -/
def qfailing (ps : List Pred) (z : PyVal) : List Pred :=
  ps.filter (fun p => match p.k.call z with | .ok false => true | _ => false)

/-- `[pred for pred in <sync predicates> if not pred(val)]`, generically in the two evaluators -/
theorem qcompFold_sync (evalCond evalElt : QSt → QM QV)
    (Hc : ∀ (st : QSt) (p : Pred) (z : PyVal), st.env.pred = .pred p → st.env.coercedVal = .py z →
      evalCond st = (match p.k.call z with
        | .ok b => .ok (.bool (!b), { st with tr := st.tr ++ p.ev })
        | .error e => .error (.exn e, st.tr ++ p.ev)))
    (He : ∀ (st : QSt) (p : Pred), st.env.pred = .pred p → evalElt st = .ok (.pred p, st)) :
    ∀ (ps : List Pred) (kept : List QV) (st : QSt) (z : PyVal), st.env.coercedVal = .py z →
      (∀ f t e, runPreds ps z = (f, t, some e) →
        qcompFold evalCond evalElt .pred (ps.map QV.pred) (.ok (kept, st)) = .error (.exn e, st.tr ++ t)) ∧
      (∀ f t, runPreds ps z = (f, t, none) →
        f = (qfailing ps z).map (·.pid) ∧
        ∃ st', qcompFold evalCond evalElt .pred (ps.map QV.pred) (.ok (kept, st)) =
            .ok (kept ++ (qfailing ps z).map QV.pred, st') ∧
          st'.env.coercedVal = .py z ∧ st'.tr = st.tr ++ t ∧ (st'.env.predicateErrors = st.env.predicateErrors ∧ st'.env.listErrors = st.env.listErrors)) := by
  intro ps
  induction ps with
  | nil =>
    intro kept st z hz
    refine ⟨?_, ?_⟩
    · intro f t e h; simp [runPreds] at h
    · intro f t h
      simp only [runPreds, Prod.mk.injEq] at h
      obtain ⟨rfl, rfl, _⟩ := h
      exact ⟨rfl, st, by simp [qcompFold, qfailing], hz, by simp, rfl, rfl⟩
  | cons p ps ih =>
    intro kept st z hz
    have hset : ({ st with env := st.env.set .pred (.pred p) } : QSt).env.pred = .pred p := rfl
    have hval : ({ st with env := st.env.set .pred (.pred p) } : QSt).env.coercedVal = .py z := hz
    have hc := Hc { st with env := st.env.set .pred (.pred p) } p z hset hval
    cases hcall : p.k.call z with
    | error e0 =>
      rw [hcall] at hc
      refine ⟨?_, ?_⟩
      · intro f t e h
        simp only [runPreds, hcall, Prod.mk.injEq, Option.some.injEq] at h
        obtain ⟨_, rfl, rfl⟩ := h
        simp [qcompFold, hc]
      · intro f t h; simp [runPreds, hcall] at h
    | ok b =>
      rw [hcall] at hc
      cases b with
      | true =>
        -- the predicate holds: nothing kept
        have step : qcompFold evalCond evalElt .pred ((p :: ps).map QV.pred) (.ok (kept, st)) =
            qcompFold evalCond evalElt .pred (ps.map QV.pred)
              (.ok (kept, { env := st.env.set .pred (.pred p), tr := st.tr ++ p.ev })) := by
          simp [qcompFold, hc, qtruthy]
        obtain ⟨ih1, ih2⟩ := ih kept { env := st.env.set .pred (.pred p), tr := st.tr ++ p.ev } z hz
        refine ⟨?_, ?_⟩
        · intro f t e h
          simp only [runPreds, hcall, if_true, Prod.mk.injEq] at h
          obtain ⟨hf, ht, he⟩ := h
          rw [step, ih1 _ _ e (by rw [← he])]
          simp [← ht, List.append_assoc]
        · intro f t h
          simp only [runPreds, hcall, if_true, Prod.mk.injEq] at h
          obtain ⟨hf, ht, he⟩ := h
          obtain ⟨hff, st', h1, h2, h3, h4⟩ := ih2 _ _ (by rw [← he])
          refine ⟨?_, st', ?_, h2, ?_, h4⟩
          · rw [← hf, hff]; simp [qfailing, hcall]
          · rw [step, h1]; simp [qfailing, hcall]
          · rw [h3, ← ht]; simp [List.append_assoc]
      | false =>
        have hset2 : ({ env := st.env.set .pred (.pred p), tr := st.tr ++ p.ev } : QSt).env.pred = .pred p := rfl
        have he := He { env := st.env.set .pred (.pred p), tr := st.tr ++ p.ev } p hset2
        have step : qcompFold evalCond evalElt .pred ((p :: ps).map QV.pred) (.ok (kept, st)) =
            qcompFold evalCond evalElt .pred (ps.map QV.pred)
              (.ok (kept ++ [.pred p], { env := st.env.set .pred (.pred p), tr := st.tr ++ p.ev })) := by
          simp [qcompFold, hc, qtruthy, he]
        obtain ⟨ih1, ih2⟩ := ih (kept ++ [.pred p]) { env := st.env.set .pred (.pred p), tr := st.tr ++ p.ev } z hz
        refine ⟨?_, ?_⟩
        · intro f t e h
          simp only [runPreds, hcall, Bool.false_eq_true, if_false, Prod.mk.injEq] at h
          obtain ⟨hf, ht, he'⟩ := h
          rw [step, ih1 _ _ e (by rw [← he'])]
          simp [← ht, List.append_assoc]
        · intro f t h
          simp only [runPreds, hcall, Bool.false_eq_true, if_false, Prod.mk.injEq] at h
          obtain ⟨hf, ht, he'⟩ := h
          obtain ⟨hff, st', h1, h2, h3, h4⟩ := ih2 _ _ (by rw [← he'])
          refine ⟨?_, st', ?_, h2, ?_, h4⟩
          · rw [← hf, hff]; simp [qfailing, hcall]
          · rw [step, h1]; simp [qfailing, hcall, List.append_assoc]
          · rw [h3, ← ht]; simp [List.append_assoc]


theorem qfilterMap_preds (ps : List Pred) :
    (ps.map QV.pred).filterMap (fun d => match d with | .pred p => some p | .apred p => some p | _ => Option.none) = ps := by
  induction ps with
  | nil => rfl
  | cons p ps ih => simp [ih]

/-- `[pred for pred in self.predicates if not pred(coerced_val)]` (written either way), for a configured list -/
theorem qSyncComp_eval (o : Oracle) (cfg : SeqCfg) (x : PyVal) (viaMeth : Bool) (ps : List Pred) (hps : cfg.preds = some ps)
    (st : QSt) (z : PyVal) (hz : st.env.coercedVal = .py z) :
    (∀ f t e, runPreds ps z = (f, t, some e) → (qSyncComp viaMeth).eval o cfg x st = .error (.exn e, st.tr ++ t)) ∧
    (∀ f t, runPreds ps z = (f, t, none) →
      f = (qfailing ps z).map (·.pid) ∧
      ∃ st', (qSyncComp viaMeth).eval o cfg x st = .ok (.preds (qfailing ps z), st') ∧
        st'.env.coercedVal = .py z ∧ st'.tr = st.tr ++ t ∧ (st'.env.predicateErrors = st.env.predicateErrors ∧ st'.env.listErrors = st.env.listErrors)) := by
  let cond : QExp := .not (if viaMeth then .meth (.var .pred) .call (.var .coercedVal) else .call1 (.var .pred) (.var .coercedVal))
  have Hc : ∀ (st : QSt) (p : Pred) (z : PyVal), st.env.pred = .pred p → st.env.coercedVal = .py z →
      cond.eval o cfg x st = (match p.k.call z with
        | .ok b => .ok (.bool (!b), { st with tr := st.tr ++ p.ev })
        | .error e => .error (.exn e, st.tr ++ p.ev)) := by
    intro st p z h1 h2
    cases viaMeth <;> simp only [cond, if_true, Bool.false_eq_true, if_false, QExp.eval, QEnv.get, h1, h2] <;>
      cases p.k.call z <;> simp [qtruthy]
  have He : ∀ (st : QSt) (p : Pred), st.env.pred = .pred p → (QExp.var .pred).eval o cfg x st = .ok (.pred p, st) := by
    intro st p h1
    simp [QExp.eval, QEnv.get, h1]
  obtain ⟨c1, c2⟩ := qcompFold_sync _ _ Hc He ps [] st z hz
  have hunf : (qSyncComp viaMeth).eval o cfg x st =
      (match qcompFold (fun st => cond.eval o cfg x st) (fun st => (QExp.var .pred).eval o cfg x st) .pred (ps.map QV.pred) (.ok ([], st)) with
       | .error err => .error err
       | .ok (kept, st) =>
         let qs := kept.filterMap (fun d => match d with | .pred p => some p | .apred p => some p | _ => Option.none)
         if qs.length = kept.length then .ok (.preds qs, st) else .error (.stuck "comprehension element", st.tr)) := by
    simp only [qSyncComp]
    rw [QExp.eval]
    have hattr : (QExp.selfAttr .predicates).eval o cfg x st = .ok (.preds ps, st) := by
      simp [QExp.eval, qselfAttr, hps, qoptList]
    rw [hattr]
    rfl
  refine ⟨?_, ?_⟩
  · intro f t e h
    rw [hunf, c1 f t e h]
  · intro f t h
    obtain ⟨hf, st', h1, h2, h3, h4⟩ := c2 f t h
    refine ⟨hf, st', ?_, h2, h3, h4⟩
    rw [hunf, h1]
    simp only [List.nil_append, qfilterMap_preds, List.length_map, if_true]

/-! ### guard, gate -/

theorem qGuard_exec (o : Oracle) (cfg : SeqCfg) (x : PyVal) (st : QSt) (rest : List QStmt) :
    QStmt.execL o cfg x st (qGuard :: rest) =
      (if (cfg.apreds.getD []) ≠ [] then .error (.exn .assertion, st.tr) else QStmt.execL o cfg x st rest) := by
  rw [qexecL_cons, qGuard, qexec_ite]
  have hattr : (QExp.selfAttr .predicatesAsync).eval o cfg x st = .ok (qoptList .apreds cfg.apreds, st) := by
    simp [QExp.eval, qselfAttr]
  rw [hattr]
  cases ha : cfg.apreds with
  | none => simp [qoptList, qtruthy, qexecL_nil]
  | some l =>
    cases l with
    | nil => simp [qoptList, qtruthy, qexecL_nil]
    | cons a l' =>
      simp only [qoptList, qtruthy, List.isEmpty_cons, Bool.not_false, Option.getD_some, ne_eq, reduceCtorEq, not_false_eq_true, if_true]
      rw [qexecL_single]
      simp [QStmt.exec, QExp.eval, qselfAttr]

theorem seqCoerce_rej_kind (o : Oracle) (sk : SeqKind) (c : CoerceK) (x : PyVal) (k : ErrK) (t : List Ev)
    (h : applyCoerce o sk.gateTy sk.destTy default c x = .rej k t) : k = .coercion (seqCompat sk c) sk.destTy := by
  cases c with
  | dflt =>
    simp only [applyCoerce] at h
    split at h
    · simp at h
    · simp only [Gate.rej.injEq] at h; rw [← h.1]; rfl
  | classOnly =>
    simp only [applyCoerce] at h
    split at h
    · split at h
      · split at h <;> simp at h
      · simp only [Gate.rej.injEq] at h; rw [← h.1]; rfl
    · simp only [Gate.rej.injEq] at h; rw [← h.1]; rfl
  | user cid compat f =>
    simp only [applyCoerce] at h
    split at h
    · simp at h
    · simp only [Gate.rej.injEq] at h; rw [← h.1]; rfl

theorem qGate_exec (o : Oracle) (cfg : SeqCfg) (x : PyVal) (st : QSt) (rest : List QStmt) :
    (∀ k t, gate o cfg.kind.gateTy cfg.kind.destTy cfg.coerce x = .rej k t →
      outQ cfg (QStmt.execL o cfg x st (qGate cfg.kind :: rest)) = some (.invalid (.mk k x cfg.vid []), st.tr ++ t)) ∧
    (∀ y t, gate o cfg.kind.gateTy cfg.kind.destTy cfg.coerce x = .acc y t →
      ∃ st', QStmt.execL o cfg x st (qGate cfg.kind :: rest) = QStmt.execL o cfg x st' rest ∧
        st'.env.coercedVal = .py y ∧ st'.tr = st.tr ++ t) := by
  have hgt := fun st1 => tyExp_eval o cfg x st1 cfg.kind.gateTy (gateTy_name cfg.kind)
  have hdt := fun st1 => tyExp_eval o cfg x st1 cfg.kind.destTy (destTy_name cfg.kind)
  rw [qexecL_cons, qGate, qexec_ite]
  have hattr : ∀ st1 : QSt, (QExp.selfAttr .coerce).eval o cfg x st1 =
      .ok ((match cfg.coerce with | some c => QV.coercer c | none => QV.none), st1) := by
    intro st1; cases h : cfg.coerce <;> simp [QExp.eval, qselfAttr, h]
  rw [hattr]
  cases hc : cfg.coerce with
  | none =>
    simp only [qtruthy, gate]
    rw [qexecL_single, qexec_ite]
    have hcond : (QExp.typeIs .val (tyExp cfg.kind.gateTy)).eval o cfg x st = .ok (.bool (x.ty == cfg.kind.gateTy), st) := by
      simp [QExp.eval, hgt]
    rw [hcond]
    by_cases hty : x.ty = cfg.kind.gateTy
    · have hb : (x.ty == cfg.kind.gateTy) = true := by simpa using hty
      simp only [hb, qtruthy, if_pos hty]
      refine ⟨?_, ?_⟩
      · intro k t h; simp at h
      · intro y t h
        simp only [Gate.acc.injEq] at h
        obtain ⟨rfl, rfl⟩ := h
        refine ⟨{ st with env := st.env.set .coercedVal (.py x) }, ?_, rfl, by simp⟩
        rw [qexecL_single, qexec_assign]
        simp [QExp.eval]
    · have hb : (x.ty == cfg.kind.gateTy) = false := by simpa using hty
      simp only [hb, qtruthy, if_neg hty]
      refine ⟨?_, ?_⟩
      · intro k t h
        simp only [Gate.rej.injEq] at h
        obtain ⟨rfl, rfl⟩ := h
        simp [qexecL_single, QStmt.exec, QExp.eval, outQ, hgt]
      · intro y t h; simp at h
  | some c =>
    simp only [qtruthy, gate]
    rw [qexecL_single, qexec_ite]
    have hcond : (QExp.not (.attr (.walrus .coerced (.call1 (.selfAttr .coerce) .val)) .isJust)).eval o cfg x st =
        .ok (.bool (!(callSeqCoercer o cfg.kind c x).1.isSome),
          { env := st.env.set .coerced (.maybe (callSeqCoercer o cfg.kind c x).1), tr := st.tr ++ (callSeqCoercer o cfg.kind c x).2 }) := by
      simp [QExp.eval, qselfAttr, hc, qtruthy]
    rw [hcond]
    cases hg : applyCoerce o cfg.kind.gateTy cfg.kind.destTy default c x with
    | exn e t =>
      exfalso
      cases c with
      | dflt => simp only [applyCoerce] at hg; split at hg <;> simp at hg
      | classOnly =>
        simp only [applyCoerce] at hg
        split at hg
        · split at hg
          · split at hg <;> simp at hg
          · simp at hg
        · simp at hg
      | user cid compat f => simp only [applyCoerce] at hg; split at hg <;> simp at hg
    | rej k t =>
      have hk := seqCoerce_rej_kind o cfg.kind c x k t hg
      have hcc : callSeqCoercer o cfg.kind c x = (none, t) := by simp [callSeqCoercer, hg]
      simp only [hcc, Option.isSome_none, Bool.not_false, qtruthy]
      refine ⟨?_, ?_⟩
      · intro k' t' h
        simp only [Gate.rej.injEq] at h
        obtain ⟨rfl, rfl⟩ := h
        simp [qexecL_single, QStmt.exec, QExp.eval, qselfAttr, hc, outQ, hk, hdt]
      · intro y t' h; simp at h
    | acc y t =>
      have hcc : callSeqCoercer o cfg.kind c x = (some y, t) := by simp [callSeqCoercer, hg]
      simp only [hcc, Option.isSome_some, Bool.not_true, qtruthy]
      refine ⟨?_, ?_⟩
      · intro k' t' h; simp at h
      · intro y' t' h
        simp only [Gate.acc.injEq] at h
        obtain ⟨rfl, rfl⟩ := h
        refine ⟨{ env := (st.env.set .coerced (.maybe (some y))).set .coercedVal (.py y), tr := st.tr ++ t }, ?_, rfl, rfl⟩
        rw [qexecL_single, qexec_assign]
        simp [QExp.eval, QEnv.get, QEnv.set]

/-! ### the synchronous method -/

theorem qPredsSync_exec (o : Oracle) (cfg : SeqCfg) (x : PyVal) (st : QSt) (y : PyVal) (hy : st.env.coercedVal = .py y)
    (rest : List QStmt) :
    (∀ f t e, runPreds (cfg.preds.getD []) y = (f, t, some e) →
      outQ cfg (QStmt.execL o cfg x st (qPredsSync :: rest)) = some (.raised e, st.tr ++ t)) ∧
    (∀ f t, runPreds (cfg.preds.getD []) y = (f, t, none) → f ≠ [] →
      outQ cfg (QStmt.execL o cfg x st (qPredsSync :: rest)) = some (.invalid (.mk (.preds f) y cfg.vid []), st.tr ++ t)) ∧
    (∀ t, runPreds (cfg.preds.getD []) y = ([], t, none) →
      ∃ st', QStmt.execL o cfg x st (qPredsSync :: rest) = QStmt.execL o cfg x st' rest ∧
        st'.env.coercedVal = .py y ∧ st'.tr = st.tr ++ t) := by
  rw [qexecL_cons, qPredsSync, qexec_ite]
  have hattr : (QExp.selfAttr .predicates).eval o cfg x st = .ok (qoptList .preds cfg.preds, st) := by
    simp [QExp.eval, qselfAttr]
  rw [hattr]
  cases hp : cfg.preds with
  | none =>
    simp only [qoptList, qtruthy, qexecL_nil, Option.getD_none]
    refine ⟨?_, ?_, ?_⟩
    · intro f t e h; simp [runPreds] at h
    · intro f t h hne
      simp only [runPreds, Prod.mk.injEq] at h
      exact absurd h.1.symm hne
    · intro t h
      simp only [runPreds, Prod.mk.injEq] at h
      exact ⟨st, rfl, hy, by rw [← h.2.1]; simp⟩
  | some ps =>
    cases ps with
    | nil =>
      simp only [qoptList, qtruthy, List.isEmpty_nil, Bool.not_true, qexecL_nil, Option.getD_some]
      refine ⟨?_, ?_, ?_⟩
      · intro f t e h; simp [runPreds] at h
      · intro f t h hne
        simp only [runPreds, Prod.mk.injEq] at h
        exact absurd h.1.symm hne
      · intro t h
        simp only [runPreds, Prod.mk.injEq] at h
        exact ⟨st, rfl, hy, by rw [← h.2.1]; simp⟩
    | cons p ps' =>
      simp only [qoptList, qtruthy, List.isEmpty_cons, Bool.not_false, Option.getD_some]
      obtain ⟨c1, c2⟩ := qSyncComp_eval o cfg x false (p :: ps') hp st y hy
      rw [qexecL_cons, qexec_assign]
      refine ⟨?_, ?_, ?_⟩
      · intro f t e h
        rw [c1 f t e h]
        rfl
      · intro f t h hne
        obtain ⟨hf, st', h1, h2, h3, _⟩ := c2 f t h
        rw [h1]
        simp only
        rw [qexecL_single, qexec_ite]
        have hv : (QExp.var .listErrors).eval o cfg x { env := st'.env.set .listErrors (.preds (qfailing (p :: ps') y)), tr := st'.tr } =
            .ok (.preds (qfailing (p :: ps') y), { env := st'.env.set .listErrors (.preds (qfailing (p :: ps') y)), tr := st'.tr }) := by
          simp [QExp.eval, QEnv.get, QEnv.set]
        rw [hv]
        have hne2 : (!(qfailing (p :: ps') y).isEmpty) = true := by
          cases hq : qfailing (p :: ps') y with
          | nil => rw [hq] at hf; simp at hf; exact absurd hf hne
          | cons a l => rfl
        simp only [qtruthy, hne2]
        rw [qexecL_single]
        simp [QStmt.exec, QExp.eval, QEnv.get, QEnv.set, h2, outQ, h3, ← hf]
      · intro t h
        obtain ⟨hf, st', h1, h2, h3, _⟩ := c2 [] t h
        rw [h1]
        simp only
        rw [qexecL_single, qexec_ite]
        have hfe : qfailing (p :: ps') y = [] := by
          have := hf.symm; simpa using this
        have hv : (QExp.var .listErrors).eval o cfg x { env := st'.env.set .listErrors (.preds (qfailing (p :: ps') y)), tr := st'.tr } =
            .ok (.preds [], { env := st'.env.set .listErrors (.preds (qfailing (p :: ps') y)), tr := st'.tr }) := by
          simp [QExp.eval, QEnv.get, QEnv.set, hfe]
        rw [hv]
        simp only [qtruthy, List.isEmpty_nil, Bool.not_true, qexecL_nil]
        exact ⟨_, rfl, by simpa [QEnv.set] using h2, h3⟩

/-! ### the synchronous methods -/

/-- **the synchronous set validator, as written in the source, is the model's `seqStep .set`** -/
theorem src_set_sync (o : Oracle) (cfg : SeqCfg) (hk : cfg.kind = .set) (x : PyVal) :
    runSeqMethod o cfg Src.setSync x =
      seqStep .set o .sync cfg.vid (cfg.preds.getD []) (cfg.apreds.getD []) cfg.coerce cfg.item x := by
  rw [runSeqMethod_eq, setSync_eq, qGuard_exec]
  simp only [seqStep, seqPre]
  by_cases hap : cfg.apreds.getD [] = []
  · simp only [hap, ne_eq, not_true_eq_false, if_false, and_false]
    have hg0 := qGate_exec o cfg x { env := {}, tr := [] } (qPredsSync :: qTail .set false)
    rw [hk] at hg0
    obtain ⟨g1, g2⟩ := hg0
    cases hg : gate o (SeqKind.set).gateTy (SeqKind.set).destTy cfg.coerce x with
    | exn e t => exact absurd hg (gate_noexn o _ _ cfg.coerce x e t)
    | rej k t => rw [g1 k t hg]; simp
    | acc y t =>
      obtain ⟨st', h1, h2, h3⟩ := g2 y t hg
      rw [h1]
      obtain ⟨p1, p2, p3⟩ := qPredsSync_exec o cfg x st' y h2 (qTail .set false)
      simp only [contPreds]
      rcases hr : runPreds (cfg.preds.getD []) y with ⟨f, t2, ex⟩
      cases ex with
      | some e => rw [p1 f t2 e hr, h3]; simp
      | none =>
        simp only [reduceCtorEq, if_false]
        cases f with
        | cons a l =>
          rw [p2 (a :: l) t2 hr (by simp), h3]; simp
        | nil =>
          obtain ⟨st'', q1, q2, q3⟩ := p3 t2 hr
          rw [q1, qTailSet_exec o cfg hk x false st'' y q2, q3, h3]
          simp only [List.isEmpty_nil, Bool.not_true, Bool.false_eq_true, if_false, List.nil_append]
          cases pyIter y with
          | none => rfl
          | some xs =>
            simp only
            have : ((SeqKind.set == SeqKind.set) = true) := by decide
            rw [this]
            cases loopItems cfg.item true xs 0 true <;> rfl
  · simp [hap, outQ]

/-- **the synchronous uniform-tuple validator, as written in the source, is the model's `seqStep .utuple`** -/
theorem src_utuple_sync (o : Oracle) (cfg : SeqCfg) (hk : cfg.kind = .utuple) (x : PyVal) :
    runSeqMethod o cfg Src.utupleSync x =
      seqStep .utuple o .sync cfg.vid (cfg.preds.getD []) (cfg.apreds.getD []) cfg.coerce cfg.item x := by
  rw [runSeqMethod_eq, utupleSync_eq, qGuard_exec]
  simp only [seqStep, seqPre]
  by_cases hap : cfg.apreds.getD [] = []
  · simp only [hap, ne_eq, not_true_eq_false, if_false, and_false]
    have hg0 := qGate_exec o cfg x { env := {}, tr := [] } (qPredsSync :: qTail .utuple false)
    rw [hk] at hg0
    obtain ⟨g1, g2⟩ := hg0
    cases hg : gate o (SeqKind.utuple).gateTy (SeqKind.utuple).destTy cfg.coerce x with
    | exn e t => exact absurd hg (gate_noexn o _ _ cfg.coerce x e t)
    | rej k t => rw [g1 k t hg]; simp
    | acc y t =>
      obtain ⟨st', h1, h2, h3⟩ := g2 y t hg
      rw [h1]
      obtain ⟨p1, p2, p3⟩ := qPredsSync_exec o cfg x st' y h2 (qTail .utuple false)
      simp only [contPreds]
      rcases hr : runPreds (cfg.preds.getD []) y with ⟨f, t2, ex⟩
      cases ex with
      | some e => rw [p1 f t2 e hr, h3]; simp
      | none =>
        simp only [reduceCtorEq, if_false]
        cases f with
        | cons a l =>
          rw [p2 (a :: l) t2 hr (by simp), h3]; simp
        | nil =>
          obtain ⟨st'', q1, q2, q3⟩ := p3 t2 hr
          rw [q1, qTailTup_exec o cfg hk x false st'' y q2, q3, h3]
          simp only [List.isEmpty_nil, Bool.not_true, Bool.false_eq_true, if_false, List.nil_append]
          cases pyIter y with
          | none => rfl
          | some xs =>
            simp only
            have : ((SeqKind.utuple == SeqKind.set) = false) := by decide
            rw [this]
            cases loopItems cfg.item false xs 0 true <;> rfl
  · simp [hap, outQ]

/-! ### the asynchronous method: container predicates -/

/-- `predicate_errors` holds the predicate objects `qs` (an empty Python list has no element type) -/
def QIsErrs (v : QV) (qs : List Pred) : Prop := v = .preds qs ∨ (qs = [] ∧ v = .payloads [])

theorem qisErrs_truthy {v : QV} {qs : List Pred} (h : QIsErrs v qs) : qtruthy v = some (!qs.isEmpty) := by
  rcases h with rfl | ⟨rfl, rfl⟩ <;> rfl

/-- `for pred_async in self.predicates_async: if not await pred_async.validate_async(coerced_val): predicate_errors.append(pred_async)` -/
theorem qforFold_apreds_pe (o : Oracle) (cfg : SeqCfg) (x : PyVal) :
    ∀ (aps : List Pred) (st : QSt) (z : PyVal) (qs : List Pred), st.env.coercedVal = .py z →
      QIsErrs st.env.predicateErrors qs →
      (∀ f t e, runAPreds aps z = (f, t, some e) →
        qforFold (fun st => QStmt.execL o cfg x st (qAsyncBody .predicateErrors)) .predAsync (aps.map QV.apred) st = .error (.exn e, st.tr ++ t)) ∧
      (∀ f t, runAPreds aps z = (f, t, none) →
        f = (qfailing aps z).map (·.pid) ∧
        ∃ st', qforFold (fun st => QStmt.execL o cfg x st (qAsyncBody .predicateErrors)) .predAsync (aps.map QV.apred) st = .ok (.next st') ∧
          st'.env.coercedVal = .py z ∧ st'.tr = st.tr ++ t ∧ QIsErrs st'.env.predicateErrors (qs ++ qfailing aps z)) := by
  intro aps
  induction aps with
  | nil =>
    intro st z qs hz hq
    refine ⟨?_, ?_⟩
    · intro f t e h; simp [runAPreds] at h
    · intro f t h
      simp only [runAPreds, Prod.mk.injEq] at h
      obtain ⟨rfl, rfl, _⟩ := h
      exact ⟨rfl, st, by simp [qforFold], hz, by simp, by simpa [qfailing] using hq⟩
  | cons p ps ih =>
    intro st z qs hz hq
    -- one round
    have hround : QStmt.execL o cfg x { st with env := st.env.set .predAsync (.apred p) } (qAsyncBody .predicateErrors) =
        (match p.k.call z with
         | .error e => .error (.exn e, st.tr ++ [Ev.apred p.pid])
         | .ok true => .ok (.next { env := st.env.set .predAsync (.apred p), tr := st.tr ++ [Ev.apred p.pid] })
         | .ok false => .ok (.next { env := (st.env.set .predAsync (.apred p)).set .predicateErrors (.preds (qs ++ [p])),
                                     tr := st.tr ++ [Ev.apred p.pid] })) := by
      rw [qAsyncBody, qexecL_single, qexec_ite]
      have hc : (QExp.not (.await (.meth (.var .predAsync) .validateAsync (.var .coercedVal)))).eval o cfg x
            { st with env := st.env.set .predAsync (.apred p) } =
          (match p.k.call z with
           | .ok b => .ok (.bool (!b), { env := st.env.set .predAsync (.apred p), tr := st.tr ++ [Ev.apred p.pid] })
           | .error e => .error (.exn e, st.tr ++ [Ev.apred p.pid])) := by
        simp only [QExp.eval, QEnv.get, QEnv.set, hz]
        cases p.k.call z <;> simp [qtruthy]
      rw [hc]
      cases hcall : p.k.call z with
      | error e => rfl
      | ok b =>
        cases b with
        | true => simp [qtruthy, qexecL_nil]
        | false =>
          simp only [Bool.not_false, qtruthy]
          rw [qexecL_single]
          rcases hq with hq | ⟨rfl, hq⟩
          · simp [QStmt.exec, QExp.eval, QEnv.get, QEnv.set, hq]
          · simp [QStmt.exec, QExp.eval, QEnv.get, QEnv.set, hq]
    simp only [List.map_cons, qforFold, hround]
    cases hcall : p.k.call z with
    | error e0 =>
      refine ⟨?_, ?_⟩
      · intro f t e h
        simp only [runAPreds, hcall, Prod.mk.injEq, Option.some.injEq] at h
        obtain ⟨_, rfl, rfl⟩ := h
        rfl
      · intro f t h; simp [runAPreds, hcall] at h
    | ok b =>
      cases b with
      | true =>
        obtain ⟨i1, i2⟩ := ih { env := st.env.set .predAsync (.apred p), tr := st.tr ++ [Ev.apred p.pid] } z qs
          (by simpa [QEnv.set] using hz) (by simpa [QEnv.set] using hq)
        simp only
        refine ⟨?_, ?_⟩
        · intro f t e h
          simp only [runAPreds, hcall, if_true, Prod.mk.injEq] at h
          obtain ⟨_, ht, he⟩ := h
          rw [i1 _ _ e (by rw [← he])]
          simp [← ht]
        · intro f t h
          simp only [runAPreds, hcall, if_true, Prod.mk.injEq] at h
          obtain ⟨hf, ht, he⟩ := h
          obtain ⟨hff, st', h1, h2, h3, h4⟩ := i2 _ _ (by rw [← he])
          refine ⟨?_, st', h1, h2, ?_, ?_⟩
          · rw [← hf, hff]; simp [qfailing, hcall]
          · rw [h3, ← ht]; simp
          · simpa [qfailing, hcall] using h4
      | false =>
        obtain ⟨i1, i2⟩ := ih { env := (st.env.set .predAsync (.apred p)).set .predicateErrors (.preds (qs ++ [p])),
                                tr := st.tr ++ [Ev.apred p.pid] } z (qs ++ [p])
          (by simpa [QEnv.set] using hz) (.inl (by simp [QEnv.set]))
        simp only
        refine ⟨?_, ?_⟩
        · intro f t e h
          simp only [runAPreds, hcall, Bool.false_eq_true, if_false, Prod.mk.injEq] at h
          obtain ⟨_, ht, he⟩ := h
          rw [i1 _ _ e (by rw [← he])]
          simp [← ht]
        · intro f t h
          simp only [runAPreds, hcall, Bool.false_eq_true, if_false, Prod.mk.injEq] at h
          obtain ⟨hf, ht, he⟩ := h
          obtain ⟨hff, st', h1, h2, h3, h4⟩ := i2 _ _ (by rw [← he])
          refine ⟨?_, st', h1, h2, ?_, ?_⟩
          · rw [← hf, hff]; simp [qfailing, hcall]
          · rw [h3, ← ht]; simp
          · simpa [qfailing, hcall, List.append_assoc] using h4

/-- the container predicates of the asynchronous method, then the rest -/
theorem qAsyncPreds_exec_pe (o : Oracle) (cfg : SeqCfg) (x : PyVal) (st : QSt) (y : PyVal) (hy : st.env.coercedVal = .py y)
    (rest : List QStmt) :
    (∀ f t e, contPreds .async (cfg.preds.getD []) (cfg.apreds.getD []) y = (f, t, some e) →
      outQ cfg (QStmt.execL o cfg x st (qAsyncPreds .predicateErrors true ++ rest)) = some (.raised e, st.tr ++ t)) ∧
    (∀ f t, contPreds .async (cfg.preds.getD []) (cfg.apreds.getD []) y = (f, t, none) → f ≠ [] →
      outQ cfg (QStmt.execL o cfg x st (qAsyncPreds .predicateErrors true ++ rest)) = some (.invalid (.mk (.preds f) y cfg.vid []), st.tr ++ t)) ∧
    (∀ t, contPreds .async (cfg.preds.getD []) (cfg.apreds.getD []) y = ([], t, none) →
      ∃ st', QStmt.execL o cfg x st (qAsyncPreds .predicateErrors true ++ rest) = QStmt.execL o cfg x st' rest ∧
        st'.env.coercedVal = .py y ∧ st'.tr = st.tr ++ t) := by
  -- stage 1 + 2: `predicate_errors = []`, then the synchronous predicates
  have stage12 :
      (∀ f t e, runPreds (cfg.preds.getD []) y = (f, t, some e) →
        ∀ rest', QStmt.execL o cfg x st
          (.assign .predicateErrors .emptyList ::
            .ite (.selfAttr .predicates) [.extend .predicateErrors (qSyncComp false)] [] :: rest') = .error (.exn e, st.tr ++ t)) ∧
      (∀ f t, runPreds (cfg.preds.getD []) y = (f, t, none) →
        f = (qfailing (cfg.preds.getD []) y).map (·.pid) ∧
        ∃ st1, (∀ rest', QStmt.execL o cfg x st
          (.assign .predicateErrors .emptyList ::
            .ite (.selfAttr .predicates) [.extend .predicateErrors (qSyncComp false)] [] :: rest') = QStmt.execL o cfg x st1 rest') ∧
          st1.env.coercedVal = .py y ∧ st1.tr = st.tr ++ t ∧ QIsErrs st1.env.predicateErrors (qfailing (cfg.preds.getD []) y)) := by
    have hassign : ∀ rest', QStmt.execL o cfg x st (.assign .predicateErrors .emptyList :: rest') =
        QStmt.execL o cfg x { st with env := st.env.set .predicateErrors (.payloads []) } rest' := by
      intro rest'; rw [qexecL_cons, qexec_assign]; simp [QExp.eval]
    have hy0 : ({ st with env := st.env.set .predicateErrors (.payloads []) } : QSt).env.coercedVal = .py y := by
      simpa [QEnv.set] using hy
    have hattr : ∀ st1 : QSt, (QExp.selfAttr .predicates).eval o cfg x st1 = .ok (qoptList .preds cfg.preds, st1) := by
      intro st1; simp [QExp.eval, qselfAttr]
    have hskip : qtruthy (qoptList .preds cfg.preds) = some false → cfg.preds.getD [] = [] →
        (∀ f t e, runPreds (cfg.preds.getD []) y = (f, t, some e) → False) ∧
        (∀ f t, runPreds (cfg.preds.getD []) y = (f, t, none) →
          f = (qfailing (cfg.preds.getD []) y).map (·.pid) ∧
          ∃ st1, (∀ rest', QStmt.execL o cfg x st
            (.assign .predicateErrors .emptyList ::
              .ite (.selfAttr .predicates) [.extend .predicateErrors (qSyncComp false)] [] :: rest') = QStmt.execL o cfg x st1 rest') ∧
            st1.env.coercedVal = .py y ∧ st1.tr = st.tr ++ t ∧ QIsErrs st1.env.predicateErrors (qfailing (cfg.preds.getD []) y)) := by
      intro htr h0
      rw [h0]
      refine ⟨fun f t e h => by simp [runPreds] at h, ?_⟩
      intro f t h
      simp only [runPreds, Prod.mk.injEq] at h
      obtain ⟨rfl, rfl, _⟩ := h
      refine ⟨rfl, { st with env := st.env.set .predicateErrors (.payloads []) }, ?_, hy0, by simp, .inr ⟨rfl, by simp [QEnv.set]⟩⟩
      intro rest'
      rw [hassign, qexecL_cons, qexec_ite, hattr]
      dsimp only
      rw [htr]
      simp only [qexecL_nil]
    cases hp : cfg.preds with
    | none =>
      obtain ⟨a, b⟩ := hskip (by rw [hp]; rfl) (by rw [hp]; rfl)
      rw [hp] at a b
      exact ⟨fun f t e h => absurd (a f t e h) id, b⟩
    | some ps =>
      cases ps with
      | nil =>
        obtain ⟨a, b⟩ := hskip (by rw [hp]; rfl) (by rw [hp]; rfl)
        rw [hp] at a b
        exact ⟨fun f t e h => absurd (a f t e h) id, b⟩
      | cons p ps' =>
        obtain ⟨c1, c2⟩ := qSyncComp_eval o cfg x false (p :: ps') hp
          { st with env := st.env.set .predicateErrors (.payloads []) } y hy0
        have hunf : ∀ rest', QStmt.execL o cfg x st
            (.assign .predicateErrors .emptyList ::
              .ite (.selfAttr .predicates) [.extend .predicateErrors (qSyncComp false)] [] :: rest') =
            (match QStmt.exec o cfg x { st with env := st.env.set .predicateErrors (.payloads []) }
                (.extend .predicateErrors (qSyncComp false)) with
             | .error err => .error err
             | .ok (.next st) => QStmt.execL o cfg x st rest'
             | .ok (.returned d st) => .ok (.returned d st)) := by
          intro rest'
          rw [hassign, qexecL_cons, qexec_ite, hattr, hp]
          simp only [qoptList, qtruthy, List.isEmpty_cons, Bool.not_false]
          rw [qexecL_single]
        have hext_err : ∀ rest' err, (qSyncComp false).eval o cfg x { st with env := st.env.set .predicateErrors (.payloads []) } = .error err →
            QStmt.execL o cfg x st
              (.assign .predicateErrors .emptyList ::
                .ite (.selfAttr .predicates) [.extend .predicateErrors (qSyncComp false)] [] :: rest') = .error err := by
          intro rest' err he
          rw [hunf]
          simp only [QStmt.exec, he]
        have hext_ok : ∀ rest' qs st2, (qSyncComp false).eval o cfg x { st with env := st.env.set .predicateErrors (.payloads []) } = .ok (.preds qs, st2) →
            st2.env.get .predicateErrors = .payloads [] →
            QStmt.execL o cfg x st
              (.assign .predicateErrors .emptyList ::
                .ite (.selfAttr .predicates) [.extend .predicateErrors (qSyncComp false)] [] :: rest') =
              QStmt.execL o cfg x { st2 with env := st2.env.set .predicateErrors (.preds qs) } rest' := by
          intro rest' qs st2 he hg
          rw [hunf]
          simp only [QStmt.exec, he, hg]
        simp only [Option.getD_some]
        refine ⟨?_, ?_⟩
        · intro f t e h rest'
          exact hext_err rest' _ (c1 f t e h)
        · intro f t h
          obtain ⟨hf, st', h1, h2, h3, h4⟩ := c2 f t h
          refine ⟨hf, { st' with env := st'.env.set .predicateErrors (.preds (qfailing (p :: ps') y)) }, ?_,
            by simpa [QEnv.set] using h2, h3, .inl (by simp [QEnv.set])⟩
          intro rest'
          have hpe : st'.env.get .predicateErrors = .payloads [] := by
            simp only [QEnv.get]; rw [h4.1]; simp [QEnv.set]
          exact hext_ok rest' _ st' h1 hpe
  obtain ⟨s1, s2⟩ := stage12
  simp only [qAsyncPreds, List.cons_append, List.nil_append, if_true, Bool.false_eq_true, if_false]
  rcases hr : runPreds (cfg.preds.getD []) y with ⟨f1, t1, ex1⟩
  cases ex1 with
  | some e1 =>
    have hcp : contPreds .async (cfg.preds.getD []) (cfg.apreds.getD []) y = ([], t1, some e1) := by
      simp [contPreds, hr]
    refine ⟨?_, ?_, ?_⟩
    · intro f t e h
      rw [hcp] at h
      simp only [Prod.mk.injEq, Option.some.injEq] at h
      obtain ⟨_, rfl, rfl⟩ := h
      rw [s1 f1 t1 e1 hr]; rfl
    · intro f t h; rw [hcp] at h; simp at h
    · intro t h; rw [hcp] at h; simp at h
  | none =>
    obtain ⟨hf1, st1, e1, hy1, ht1, hq1⟩ := s2 f1 t1 hr
    rw [e1]
    -- stage 3: the asynchronous predicates
    have hattrA : ∀ stx : QSt, (QExp.isNotNone (.selfAttr .predicatesAsync)).eval o cfg x stx =
        .ok (.bool cfg.apreds.isSome, stx) := by
      intro stx
      cases ha : cfg.apreds <;> simp [QExp.eval, qselfAttr, ha, qoptList]
    have stage3 : ∀ rest',
        (∀ f t e, runAPreds (cfg.apreds.getD []) y = (f, t, some e) →
          QStmt.execL o cfg x st1 (.ite (.isNotNone (.selfAttr .predicatesAsync))
            [.forIn .predAsync (.selfAttr .predicatesAsync) (qAsyncBody .predicateErrors)] [] :: rest') = .error (.exn e, st1.tr ++ t)) ∧
        (∀ f t, runAPreds (cfg.apreds.getD []) y = (f, t, none) →
          f = (qfailing (cfg.apreds.getD []) y).map (·.pid) ∧
          ∃ st2, QStmt.execL o cfg x st1 (.ite (.isNotNone (.selfAttr .predicatesAsync))
              [.forIn .predAsync (.selfAttr .predicatesAsync) (qAsyncBody .predicateErrors)] [] :: rest') = QStmt.execL o cfg x st2 rest' ∧
            st2.env.coercedVal = .py y ∧ st2.tr = st1.tr ++ t ∧
            QIsErrs st2.env.predicateErrors (qfailing (cfg.preds.getD []) y ++ qfailing (cfg.apreds.getD []) y)) := by
      intro rest'
      rw [qexecL_cons, qexec_ite, hattrA]
      cases ha : cfg.apreds with
      | none =>
        simp only [Option.isSome_none, qtruthy, qexecL_nil, Option.getD_none]
        refine ⟨fun f t e h => by simp [runAPreds] at h, ?_⟩
        intro f t h
        simp only [runAPreds, Prod.mk.injEq] at h
        obtain ⟨rfl, rfl, _⟩ := h
        exact ⟨rfl, st1, rfl, hy1, by simp, by simpa [qfailing] using hq1⟩
      | some aps =>
        simp only [Option.isSome_some, qtruthy, Option.getD_some]
        rw [qexecL_single]
        have hfor : QStmt.exec o cfg x st1 (.forIn .predAsync (.selfAttr .predicatesAsync) (qAsyncBody .predicateErrors)) =
            qforFold (fun st => QStmt.execL o cfg x st (qAsyncBody .predicateErrors)) .predAsync (aps.map QV.apred) st1 := by
          simp only [QStmt.exec, QExp.eval, qselfAttr, ha, qoptList]
        rw [hfor]
        obtain ⟨a1, a2⟩ := qforFold_apreds_pe o cfg x aps st1 y _ hy1 hq1
        refine ⟨?_, ?_⟩
        · intro f t e h
          rw [a1 f t e h]
        · intro f t h
          obtain ⟨hf, st2, g1, g2, g3, g4⟩ := a2 f t h
          exact ⟨hf, st2, by rw [g1], g2, g3, g4⟩
    obtain ⟨t3a, t3b⟩ := stage3 (.ite (.var .predicateErrors)
      [.ret (.pair (.bool false) (.mkInvalid (.mkPredErrs (.var .predicateErrors)) (.var .coercedVal) .self))] [] :: rest)
    rcases hra : runAPreds (cfg.apreds.getD []) y with ⟨f2, t2, ex2⟩
    have hcp : contPreds .async (cfg.preds.getD []) (cfg.apreds.getD []) y = (f1 ++ f2, t1 ++ t2, ex2) := by
      simp [contPreds, hr, hra]
    cases ex2 with
    | some e2 =>
      refine ⟨?_, ?_, ?_⟩
      · intro f t e h
        rw [hcp] at h
        simp only [Prod.mk.injEq, Option.some.injEq] at h
        obtain ⟨_, rfl, rfl⟩ := h
        rw [t3a f2 t2 e2 hra, ht1]
        simp [outQ, List.append_assoc]
      · intro f t h; rw [hcp] at h; simp at h
      · intro t h; rw [hcp] at h; simp at h
    | none =>
      obtain ⟨hf2, st2, g1, g2, g3, g4⟩ := t3b f2 t2 hra
      rw [g1, qexecL_cons, qexec_ite]
      have hv : (QExp.var .predicateErrors).eval o cfg x st2 = .ok (st2.env.predicateErrors, st2) := by
        simp [QExp.eval, QEnv.get]
      rw [hv]
      simp only [qisErrs_truthy g4]
      refine ⟨?_, ?_, ?_⟩
      · intro f t e h; rw [hcp] at h; simp at h
      · intro f t h hne
        rw [hcp] at h
        simp only [Prod.mk.injEq] at h
        obtain ⟨rfl, rfl, _⟩ := h
        have hne2 : (qfailing (cfg.preds.getD []) y ++ qfailing (cfg.apreds.getD []) y) ≠ [] := by
          intro h0
          apply hne
          rw [hf1, hf2, ← List.map_append, h0]; rfl
        have hemp : (!(qfailing (cfg.preds.getD []) y ++ qfailing (cfg.apreds.getD []) y).isEmpty) = true := by
          cases hq : (qfailing (cfg.preds.getD []) y ++ qfailing (cfg.apreds.getD []) y) with
          | nil => exact absurd hq hne2
          | cons a l => rfl
        rw [hemp]
        simp only
        rw [qexecL_single]
        have hpe : st2.env.predicateErrors = .preds (qfailing (cfg.preds.getD []) y ++ qfailing (cfg.apreds.getD []) y) := by
          rcases g4 with g4 | ⟨g4, _⟩
          · exact g4
          · exact absurd g4 hne2
        simp [QStmt.exec, QExp.eval, QEnv.get, hpe, g2, outQ, g3, ht1, hf1, hf2, List.append_assoc]
      · intro t h
        rw [hcp] at h
        simp only [Prod.mk.injEq] at h
        obtain ⟨h0, rfl, _⟩ := h
        have hemp : (qfailing (cfg.preds.getD []) y ++ qfailing (cfg.apreds.getD []) y) = [] := by
          have : (f1 ++ f2) = [] := h0
          rw [hf1, hf2, ← List.map_append] at this
          exact List.map_eq_nil_iff.mp this
        rw [hemp]
        simp only [List.isEmpty_nil, Bool.not_true, qexecL_nil]
        exact ⟨st2, rfl, g2, by rw [g3, ht1]; simp [List.append_assoc]⟩

/-- `for pred_async in self.predicates_async: if not await pred_async.validate_async(coerced_val): predicate_errors.append(pred_async)` -/
theorem qforFold_apreds_le (o : Oracle) (cfg : SeqCfg) (x : PyVal) :
    ∀ (aps : List Pred) (st : QSt) (z : PyVal) (qs : List Pred), st.env.coercedVal = .py z →
      QIsErrs st.env.listErrors qs →
      (∀ f t e, runAPreds aps z = (f, t, some e) →
        qforFold (fun st => QStmt.execL o cfg x st (qAsyncBody .listErrors)) .predAsync (aps.map QV.apred) st = .error (.exn e, st.tr ++ t)) ∧
      (∀ f t, runAPreds aps z = (f, t, none) →
        f = (qfailing aps z).map (·.pid) ∧
        ∃ st', qforFold (fun st => QStmt.execL o cfg x st (qAsyncBody .listErrors)) .predAsync (aps.map QV.apred) st = .ok (.next st') ∧
          st'.env.coercedVal = .py z ∧ st'.tr = st.tr ++ t ∧ QIsErrs st'.env.listErrors (qs ++ qfailing aps z)) := by
  intro aps
  induction aps with
  | nil =>
    intro st z qs hz hq
    refine ⟨?_, ?_⟩
    · intro f t e h; simp [runAPreds] at h
    · intro f t h
      simp only [runAPreds, Prod.mk.injEq] at h
      obtain ⟨rfl, rfl, _⟩ := h
      exact ⟨rfl, st, by simp [qforFold], hz, by simp, by simpa [qfailing] using hq⟩
  | cons p ps ih =>
    intro st z qs hz hq
    -- one round
    have hround : QStmt.execL o cfg x { st with env := st.env.set .predAsync (.apred p) } (qAsyncBody .listErrors) =
        (match p.k.call z with
         | .error e => .error (.exn e, st.tr ++ [Ev.apred p.pid])
         | .ok true => .ok (.next { env := st.env.set .predAsync (.apred p), tr := st.tr ++ [Ev.apred p.pid] })
         | .ok false => .ok (.next { env := (st.env.set .predAsync (.apred p)).set .listErrors (.preds (qs ++ [p])),
                                     tr := st.tr ++ [Ev.apred p.pid] })) := by
      rw [qAsyncBody, qexecL_single, qexec_ite]
      have hc : (QExp.not (.await (.meth (.var .predAsync) .validateAsync (.var .coercedVal)))).eval o cfg x
            { st with env := st.env.set .predAsync (.apred p) } =
          (match p.k.call z with
           | .ok b => .ok (.bool (!b), { env := st.env.set .predAsync (.apred p), tr := st.tr ++ [Ev.apred p.pid] })
           | .error e => .error (.exn e, st.tr ++ [Ev.apred p.pid])) := by
        simp only [QExp.eval, QEnv.get, QEnv.set, hz]
        cases p.k.call z <;> simp [qtruthy]
      rw [hc]
      cases hcall : p.k.call z with
      | error e => rfl
      | ok b =>
        cases b with
        | true => simp [qtruthy, qexecL_nil]
        | false =>
          simp only [Bool.not_false, qtruthy]
          rw [qexecL_single]
          rcases hq with hq | ⟨rfl, hq⟩
          · simp [QStmt.exec, QExp.eval, QEnv.get, QEnv.set, hq]
          · simp [QStmt.exec, QExp.eval, QEnv.get, QEnv.set, hq]
    simp only [List.map_cons, qforFold, hround]
    cases hcall : p.k.call z with
    | error e0 =>
      refine ⟨?_, ?_⟩
      · intro f t e h
        simp only [runAPreds, hcall, Prod.mk.injEq, Option.some.injEq] at h
        obtain ⟨_, rfl, rfl⟩ := h
        rfl
      · intro f t h; simp [runAPreds, hcall] at h
    | ok b =>
      cases b with
      | true =>
        obtain ⟨i1, i2⟩ := ih { env := st.env.set .predAsync (.apred p), tr := st.tr ++ [Ev.apred p.pid] } z qs
          (by simpa [QEnv.set] using hz) (by simpa [QEnv.set] using hq)
        simp only
        refine ⟨?_, ?_⟩
        · intro f t e h
          simp only [runAPreds, hcall, if_true, Prod.mk.injEq] at h
          obtain ⟨_, ht, he⟩ := h
          rw [i1 _ _ e (by rw [← he])]
          simp [← ht]
        · intro f t h
          simp only [runAPreds, hcall, if_true, Prod.mk.injEq] at h
          obtain ⟨hf, ht, he⟩ := h
          obtain ⟨hff, st', h1, h2, h3, h4⟩ := i2 _ _ (by rw [← he])
          refine ⟨?_, st', h1, h2, ?_, ?_⟩
          · rw [← hf, hff]; simp [qfailing, hcall]
          · rw [h3, ← ht]; simp
          · simpa [qfailing, hcall] using h4
      | false =>
        obtain ⟨i1, i2⟩ := ih { env := (st.env.set .predAsync (.apred p)).set .listErrors (.preds (qs ++ [p])),
                                tr := st.tr ++ [Ev.apred p.pid] } z (qs ++ [p])
          (by simpa [QEnv.set] using hz) (.inl (by simp [QEnv.set]))
        simp only
        refine ⟨?_, ?_⟩
        · intro f t e h
          simp only [runAPreds, hcall, Bool.false_eq_true, if_false, Prod.mk.injEq] at h
          obtain ⟨_, ht, he⟩ := h
          rw [i1 _ _ e (by rw [← he])]
          simp [← ht]
        · intro f t h
          simp only [runAPreds, hcall, Bool.false_eq_true, if_false, Prod.mk.injEq] at h
          obtain ⟨hf, ht, he⟩ := h
          obtain ⟨hff, st', h1, h2, h3, h4⟩ := i2 _ _ (by rw [← he])
          refine ⟨?_, st', h1, h2, ?_, ?_⟩
          · rw [← hf, hff]; simp [qfailing, hcall]
          · rw [h3, ← ht]; simp
          · simpa [qfailing, hcall, List.append_assoc] using h4

/-- the container predicates of the asynchronous method, then the rest -/
theorem qAsyncPreds_exec_le (o : Oracle) (cfg : SeqCfg) (x : PyVal) (st : QSt) (y : PyVal) (hy : st.env.coercedVal = .py y)
    (rest : List QStmt) :
    (∀ f t e, contPreds .async (cfg.preds.getD []) (cfg.apreds.getD []) y = (f, t, some e) →
      outQ cfg (QStmt.execL o cfg x st (qAsyncPreds .listErrors false ++ rest)) = some (.raised e, st.tr ++ t)) ∧
    (∀ f t, contPreds .async (cfg.preds.getD []) (cfg.apreds.getD []) y = (f, t, none) → f ≠ [] →
      outQ cfg (QStmt.execL o cfg x st (qAsyncPreds .listErrors false ++ rest)) = some (.invalid (.mk (.preds f) y cfg.vid []), st.tr ++ t)) ∧
    (∀ t, contPreds .async (cfg.preds.getD []) (cfg.apreds.getD []) y = ([], t, none) →
      ∃ st', QStmt.execL o cfg x st (qAsyncPreds .listErrors false ++ rest) = QStmt.execL o cfg x st' rest ∧
        st'.env.coercedVal = .py y ∧ st'.tr = st.tr ++ t) := by
  -- stage 1 + 2: `predicate_errors = []`, then the synchronous predicates
  have stage12 :
      (∀ f t e, runPreds (cfg.preds.getD []) y = (f, t, some e) →
        ∀ rest', QStmt.execL o cfg x st
          (.assign .listErrors .emptyList ::
            .ite (.selfAttr .predicates) [.extend .listErrors (qSyncComp false)] [] :: rest') = .error (.exn e, st.tr ++ t)) ∧
      (∀ f t, runPreds (cfg.preds.getD []) y = (f, t, none) →
        f = (qfailing (cfg.preds.getD []) y).map (·.pid) ∧
        ∃ st1, (∀ rest', QStmt.execL o cfg x st
          (.assign .listErrors .emptyList ::
            .ite (.selfAttr .predicates) [.extend .listErrors (qSyncComp false)] [] :: rest') = QStmt.execL o cfg x st1 rest') ∧
          st1.env.coercedVal = .py y ∧ st1.tr = st.tr ++ t ∧ QIsErrs st1.env.listErrors (qfailing (cfg.preds.getD []) y)) := by
    have hassign : ∀ rest', QStmt.execL o cfg x st (.assign .listErrors .emptyList :: rest') =
        QStmt.execL o cfg x { st with env := st.env.set .listErrors (.payloads []) } rest' := by
      intro rest'; rw [qexecL_cons, qexec_assign]; simp [QExp.eval]
    have hy0 : ({ st with env := st.env.set .listErrors (.payloads []) } : QSt).env.coercedVal = .py y := by
      simpa [QEnv.set] using hy
    have hattr : ∀ st1 : QSt, (QExp.selfAttr .predicates).eval o cfg x st1 = .ok (qoptList .preds cfg.preds, st1) := by
      intro st1; simp [QExp.eval, qselfAttr]
    have hskip : qtruthy (qoptList .preds cfg.preds) = some false → cfg.preds.getD [] = [] →
        (∀ f t e, runPreds (cfg.preds.getD []) y = (f, t, some e) → False) ∧
        (∀ f t, runPreds (cfg.preds.getD []) y = (f, t, none) →
          f = (qfailing (cfg.preds.getD []) y).map (·.pid) ∧
          ∃ st1, (∀ rest', QStmt.execL o cfg x st
            (.assign .listErrors .emptyList ::
              .ite (.selfAttr .predicates) [.extend .listErrors (qSyncComp false)] [] :: rest') = QStmt.execL o cfg x st1 rest') ∧
            st1.env.coercedVal = .py y ∧ st1.tr = st.tr ++ t ∧ QIsErrs st1.env.listErrors (qfailing (cfg.preds.getD []) y)) := by
      intro htr h0
      rw [h0]
      refine ⟨fun f t e h => by simp [runPreds] at h, ?_⟩
      intro f t h
      simp only [runPreds, Prod.mk.injEq] at h
      obtain ⟨rfl, rfl, _⟩ := h
      refine ⟨rfl, { st with env := st.env.set .listErrors (.payloads []) }, ?_, hy0, by simp, .inr ⟨rfl, by simp [QEnv.set]⟩⟩
      intro rest'
      rw [hassign, qexecL_cons, qexec_ite, hattr]
      dsimp only
      rw [htr]
      simp only [qexecL_nil]
    cases hp : cfg.preds with
    | none =>
      obtain ⟨a, b⟩ := hskip (by rw [hp]; rfl) (by rw [hp]; rfl)
      rw [hp] at a b
      exact ⟨fun f t e h => absurd (a f t e h) id, b⟩
    | some ps =>
      cases ps with
      | nil =>
        obtain ⟨a, b⟩ := hskip (by rw [hp]; rfl) (by rw [hp]; rfl)
        rw [hp] at a b
        exact ⟨fun f t e h => absurd (a f t e h) id, b⟩
      | cons p ps' =>
        obtain ⟨c1, c2⟩ := qSyncComp_eval o cfg x false (p :: ps') hp
          { st with env := st.env.set .listErrors (.payloads []) } y hy0
        have hunf : ∀ rest', QStmt.execL o cfg x st
            (.assign .listErrors .emptyList ::
              .ite (.selfAttr .predicates) [.extend .listErrors (qSyncComp false)] [] :: rest') =
            (match QStmt.exec o cfg x { st with env := st.env.set .listErrors (.payloads []) }
                (.extend .listErrors (qSyncComp false)) with
             | .error err => .error err
             | .ok (.next st) => QStmt.execL o cfg x st rest'
             | .ok (.returned d st) => .ok (.returned d st)) := by
          intro rest'
          rw [hassign, qexecL_cons, qexec_ite, hattr, hp]
          simp only [qoptList, qtruthy, List.isEmpty_cons, Bool.not_false]
          rw [qexecL_single]
        have hext_err : ∀ rest' err, (qSyncComp false).eval o cfg x { st with env := st.env.set .listErrors (.payloads []) } = .error err →
            QStmt.execL o cfg x st
              (.assign .listErrors .emptyList ::
                .ite (.selfAttr .predicates) [.extend .listErrors (qSyncComp false)] [] :: rest') = .error err := by
          intro rest' err he
          rw [hunf]
          simp only [QStmt.exec, he]
        have hext_ok : ∀ rest' qs st2, (qSyncComp false).eval o cfg x { st with env := st.env.set .listErrors (.payloads []) } = .ok (.preds qs, st2) →
            st2.env.get .listErrors = .payloads [] →
            QStmt.execL o cfg x st
              (.assign .listErrors .emptyList ::
                .ite (.selfAttr .predicates) [.extend .listErrors (qSyncComp false)] [] :: rest') =
              QStmt.execL o cfg x { st2 with env := st2.env.set .listErrors (.preds qs) } rest' := by
          intro rest' qs st2 he hg
          rw [hunf]
          simp only [QStmt.exec, he, hg]
        simp only [Option.getD_some]
        refine ⟨?_, ?_⟩
        · intro f t e h rest'
          exact hext_err rest' _ (c1 f t e h)
        · intro f t h
          obtain ⟨hf, st', h1, h2, h3, h4⟩ := c2 f t h
          refine ⟨hf, { st' with env := st'.env.set .listErrors (.preds (qfailing (p :: ps') y)) }, ?_,
            by simpa [QEnv.set] using h2, h3, .inl (by simp [QEnv.set])⟩
          intro rest'
          have hpe : st'.env.get .listErrors = .payloads [] := by
            simp only [QEnv.get]; rw [h4.2]; simp [QEnv.set]
          exact hext_ok rest' _ st' h1 hpe
  obtain ⟨s1, s2⟩ := stage12
  simp only [qAsyncPreds, List.cons_append, List.nil_append, if_true, Bool.false_eq_true, if_false]
  rcases hr : runPreds (cfg.preds.getD []) y with ⟨f1, t1, ex1⟩
  cases ex1 with
  | some e1 =>
    have hcp : contPreds .async (cfg.preds.getD []) (cfg.apreds.getD []) y = ([], t1, some e1) := by
      simp [contPreds, hr]
    refine ⟨?_, ?_, ?_⟩
    · intro f t e h
      rw [hcp] at h
      simp only [Prod.mk.injEq, Option.some.injEq] at h
      obtain ⟨_, rfl, rfl⟩ := h
      rw [s1 f1 t1 e1 hr]; rfl
    · intro f t h; rw [hcp] at h; simp at h
    · intro t h; rw [hcp] at h; simp at h
  | none =>
    obtain ⟨hf1, st1, e1, hy1, ht1, hq1⟩ := s2 f1 t1 hr
    rw [e1]
    -- stage 3: the asynchronous predicates
    have hattrA : ∀ stx : QSt, (QExp.selfAttr .predicatesAsync).eval o cfg x stx =
        .ok (qoptList .apreds cfg.apreds, stx) := by
      intro stx
      simp [QExp.eval, qselfAttr]
    have stage3 : ∀ rest',
        (∀ f t e, runAPreds (cfg.apreds.getD []) y = (f, t, some e) →
          QStmt.execL o cfg x st1 (.ite (.selfAttr .predicatesAsync)
            [.forIn .predAsync (.selfAttr .predicatesAsync) (qAsyncBody .listErrors)] [] :: rest') = .error (.exn e, st1.tr ++ t)) ∧
        (∀ f t, runAPreds (cfg.apreds.getD []) y = (f, t, none) →
          f = (qfailing (cfg.apreds.getD []) y).map (·.pid) ∧
          ∃ st2, QStmt.execL o cfg x st1 (.ite (.selfAttr .predicatesAsync)
              [.forIn .predAsync (.selfAttr .predicatesAsync) (qAsyncBody .listErrors)] [] :: rest') = QStmt.execL o cfg x st2 rest' ∧
            st2.env.coercedVal = .py y ∧ st2.tr = st1.tr ++ t ∧
            QIsErrs st2.env.listErrors (qfailing (cfg.preds.getD []) y ++ qfailing (cfg.apreds.getD []) y)) := by
      intro rest'
      rw [qexecL_cons, qexec_ite, hattrA]
      cases ha : cfg.apreds with
      | none =>
        simp only [qoptList, qtruthy, qexecL_nil, Option.getD_none]
        refine ⟨fun f t e h => by simp [runAPreds] at h, ?_⟩
        intro f t h
        simp only [runAPreds, Prod.mk.injEq] at h
        obtain ⟨rfl, rfl, _⟩ := h
        exact ⟨rfl, st1, rfl, hy1, by simp, by simpa [qfailing] using hq1⟩
      | some aps =>
        cases aps with
        | nil =>
          simp only [qoptList, qtruthy, List.isEmpty_nil, Bool.not_true, qexecL_nil, Option.getD_some]
          refine ⟨fun f t e h => by simp [runAPreds] at h, ?_⟩
          intro f t h
          simp only [runAPreds, Prod.mk.injEq] at h
          obtain ⟨rfl, rfl, _⟩ := h
          exact ⟨rfl, st1, rfl, hy1, by simp, by simpa [qfailing] using hq1⟩
        | cons ap aps' =>
          simp only [qoptList, qtruthy, List.isEmpty_cons, Bool.not_false, Option.getD_some]
          rw [qexecL_single]
          have hfor : QStmt.exec o cfg x st1 (.forIn .predAsync (.selfAttr .predicatesAsync) (qAsyncBody .listErrors)) =
              qforFold (fun st => QStmt.execL o cfg x st (qAsyncBody .listErrors)) .predAsync ((ap :: aps').map QV.apred) st1 := by
            simp only [QStmt.exec, QExp.eval, qselfAttr, ha, qoptList]
          rw [hfor]
          obtain ⟨a1, a2⟩ := qforFold_apreds_le o cfg x (ap :: aps') st1 y _ hy1 hq1
          refine ⟨?_, ?_⟩
          · intro f t e h
            rw [a1 f t e h]
          · intro f t h
            obtain ⟨hf, st2, g1, g2, g3, g4⟩ := a2 f t h
            exact ⟨hf, st2, by rw [g1], g2, g3, g4⟩
    obtain ⟨t3a, t3b⟩ := stage3 (.ite (.var .listErrors)
      [.ret (.pair (.bool false) (.mkInvalid (.mkPredErrs (.var .listErrors)) (.var .coercedVal) .self))] [] :: rest)
    rcases hra : runAPreds (cfg.apreds.getD []) y with ⟨f2, t2, ex2⟩
    have hcp : contPreds .async (cfg.preds.getD []) (cfg.apreds.getD []) y = (f1 ++ f2, t1 ++ t2, ex2) := by
      simp [contPreds, hr, hra]
    cases ex2 with
    | some e2 =>
      refine ⟨?_, ?_, ?_⟩
      · intro f t e h
        rw [hcp] at h
        simp only [Prod.mk.injEq, Option.some.injEq] at h
        obtain ⟨_, rfl, rfl⟩ := h
        rw [t3a f2 t2 e2 hra, ht1]
        simp [outQ, List.append_assoc]
      · intro f t h; rw [hcp] at h; simp at h
      · intro t h; rw [hcp] at h; simp at h
    | none =>
      obtain ⟨hf2, st2, g1, g2, g3, g4⟩ := t3b f2 t2 hra
      rw [g1, qexecL_cons, qexec_ite]
      have hv : (QExp.var .listErrors).eval o cfg x st2 = .ok (st2.env.listErrors, st2) := by
        simp [QExp.eval, QEnv.get]
      rw [hv]
      simp only [qisErrs_truthy g4]
      refine ⟨?_, ?_, ?_⟩
      · intro f t e h; rw [hcp] at h; simp at h
      · intro f t h hne
        rw [hcp] at h
        simp only [Prod.mk.injEq] at h
        obtain ⟨rfl, rfl, _⟩ := h
        have hne2 : (qfailing (cfg.preds.getD []) y ++ qfailing (cfg.apreds.getD []) y) ≠ [] := by
          intro h0
          apply hne
          rw [hf1, hf2, ← List.map_append, h0]; rfl
        have hemp : (!(qfailing (cfg.preds.getD []) y ++ qfailing (cfg.apreds.getD []) y).isEmpty) = true := by
          cases hq : (qfailing (cfg.preds.getD []) y ++ qfailing (cfg.apreds.getD []) y) with
          | nil => exact absurd hq hne2
          | cons a l => rfl
        rw [hemp]
        simp only
        rw [qexecL_single]
        have hpe : st2.env.listErrors = .preds (qfailing (cfg.preds.getD []) y ++ qfailing (cfg.apreds.getD []) y) := by
          rcases g4 with g4 | ⟨g4, _⟩
          · exact g4
          · exact absurd g4 hne2
        simp [QStmt.exec, QExp.eval, QEnv.get, hpe, g2, outQ, g3, ht1, hf1, hf2, List.append_assoc]
      · intro t h
        rw [hcp] at h
        simp only [Prod.mk.injEq] at h
        obtain ⟨h0, rfl, _⟩ := h
        have hemp : (qfailing (cfg.preds.getD []) y ++ qfailing (cfg.apreds.getD []) y) = [] := by
          have : (f1 ++ f2) = [] := h0
          rw [hf1, hf2, ← List.map_append] at this
          exact List.map_eq_nil_iff.mp this
        rw [hemp]
        simp only [List.isEmpty_nil, Bool.not_true, qexecL_nil]
        exact ⟨st2, rfl, g2, by rw [g3, ht1]; simp [List.append_assoc]⟩

/-! ### the asynchronous methods -/

/-- **the asynchronous set validator, as written in the source, is the model's `seqStep .set`** -/
theorem src_set_async (o : Oracle) (cfg : SeqCfg) (hk : cfg.kind = .set) (x : PyVal) :
    runSeqMethod o cfg Src.setAsync x =
      seqStep .set o .async cfg.vid (cfg.preds.getD []) (cfg.apreds.getD []) cfg.coerce cfg.item x := by
  rw [runSeqMethod_eq, setAsync_eq]
  simp only [seqStep, seqPre]
  have hm : ¬ (Mode.async = Mode.sync ∧ cfg.apreds.getD [] ≠ []) := by simp
  simp only [hm, if_false]
  have hg0 := qGate_exec o cfg x { env := {}, tr := [] } (qAsyncPreds .predicateErrors true ++ qTail .set true)
  rw [hk] at hg0
  obtain ⟨g1, g2⟩ := hg0
  cases hg : gate o (SeqKind.set).gateTy (SeqKind.set).destTy cfg.coerce x with
  | exn e t => exact absurd hg (gate_noexn o _ _ cfg.coerce x e t)
  | rej k t => rw [g1 k t hg]; simp
  | acc y t =>
    obtain ⟨st', h1, h2, h3⟩ := g2 y t hg
    rw [h1]
    obtain ⟨p1, p2, p3⟩ := qAsyncPreds_exec_pe o cfg x st' y h2 (qTail .set true)
    rcases hr : contPreds .async (cfg.preds.getD []) (cfg.apreds.getD []) y with ⟨f, t2, ex⟩
    cases ex with
    | some e => rw [p1 f t2 e hr, h3]; dsimp only; rw [hr]; simp
    | none =>
      cases f with
      | cons a l => rw [p2 (a :: l) t2 hr (by simp), h3]; dsimp only; rw [hr]; simp
      | nil =>
        obtain ⟨st'', q1, q2, q3⟩ := p3 t2 hr
        rw [q1, qTailSet_exec o cfg hk x true st'' y q2, q3, h3]
        dsimp only
        rw [hr]
        simp only [List.isEmpty_nil, Bool.not_true, Bool.false_eq_true, if_false, List.nil_append]
        cases pyIter y with
        | none => rfl
        | some xs =>
          simp only
          have : ((SeqKind.set == SeqKind.set) = true) := by decide
          rw [this]
          cases loopItems cfg.item true xs 0 true <;> rfl

/-- **the asynchronous uniform-tuple validator, as written in the source, is the model's `seqStep .utuple`** -/
theorem src_utuple_async (o : Oracle) (cfg : SeqCfg) (hk : cfg.kind = .utuple) (x : PyVal) :
    runSeqMethod o cfg Src.utupleAsync x =
      seqStep .utuple o .async cfg.vid (cfg.preds.getD []) (cfg.apreds.getD []) cfg.coerce cfg.item x := by
  rw [runSeqMethod_eq, utupleAsync_eq]
  simp only [seqStep, seqPre]
  have hm : ¬ (Mode.async = Mode.sync ∧ cfg.apreds.getD [] ≠ []) := by simp
  simp only [hm, if_false]
  have hg0 := qGate_exec o cfg x { env := {}, tr := [] } (qAsyncPreds .listErrors false ++ qTail .utuple true)
  rw [hk] at hg0
  obtain ⟨g1, g2⟩ := hg0
  cases hg : gate o (SeqKind.utuple).gateTy (SeqKind.utuple).destTy cfg.coerce x with
  | exn e t => exact absurd hg (gate_noexn o _ _ cfg.coerce x e t)
  | rej k t => rw [g1 k t hg]; simp
  | acc y t =>
    obtain ⟨st', h1, h2, h3⟩ := g2 y t hg
    rw [h1]
    obtain ⟨p1, p2, p3⟩ := qAsyncPreds_exec_le o cfg x st' y h2 (qTail .utuple true)
    rcases hr : contPreds .async (cfg.preds.getD []) (cfg.apreds.getD []) y with ⟨f, t2, ex⟩
    cases ex with
    | some e => rw [p1 f t2 e hr, h3]; dsimp only; rw [hr]; simp
    | none =>
      cases f with
      | cons a l => rw [p2 (a :: l) t2 hr (by simp), h3]; dsimp only; rw [hr]; simp
      | nil =>
        obtain ⟨st'', q1, q2, q3⟩ := p3 t2 hr
        rw [q1, qTailTup_exec o cfg hk x true st'' y q2, q3, h3]
        dsimp only
        rw [hr]
        simp only [List.isEmpty_nil, Bool.not_true, Bool.false_eq_true, if_false, List.nil_append]
        cases pyIter y with
        | none => rfl
        | some xs =>
          simp only
          have : ((SeqKind.utuple == SeqKind.set) = false) := by decide
          rw [this]
          cases loopItems cfg.item false xs 0 true <;> rfl

/-! ### what the two `__init__`s contribute (pinned text) -/

/-- `_item_validator_is_tuple = isinstance(item_validator, _ToTupleValidator)`; everything else is stored as given -/
theorem src_seq_inits : Src.seqInits =
    ["SetValidator.__init__: self.item_validator = item_validator ; self.predicates = predicates ; self.predicates_async = predicates_async ; self.coerce = coerce ; self._item_validator_is_tuple = isinstance(item_validator, _ToTupleValidator)",
     "UniformTupleValidator.__init__: self.item_validator = item_validator ; self.predicates = predicates ; self.predicates_async = predicates_async ; self.coerce = coerce ; self._item_validator_is_tuple = isinstance(item_validator, _ToTupleValidator)"] := rfl

/-! ### non-vacuity: `SetValidator(IntValidator())` on `{1, "a"}` and `UniformTupleValidator(IntValidator())` on `[1, 2]`
    (default coercer) through the translated source -/

example : runSeqMethod default
      ⟨.set, 1, fun y => some (scalarStep default .sync 2 .int none [] [] [] y), true, none, none, none⟩ Src.setSync
      (.set 9 [.int 1, .str [97]]) =
    some (.invalid (.mk .set (.set 9 [.int 1, .str [97]]) 1 [.mk (.type .int) (.str [97]) 2 []]), []) := by
  rw [src_set_sync _ _ rfl]; rfl

example : runSeqMethod default
      ⟨.utuple, 1, fun y => some (scalarStep default .sync 2 .int none [] [] [] y), false, some .dflt, none, none⟩ Src.utupleAsync
      (.list 9 [.int 1, .int 2]) =
    some (.valid (.tuple 0 [.int 1, .int 2]), []) := by
  rw [src_utuple_async _ _ rfl]; rfl

end Koda
