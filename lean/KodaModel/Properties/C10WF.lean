/-
  C10 — the generated schema is well-formed: every keyword the generator emits carries a value of the
  shape the Draft 2020-12 metaschema demands (`wf`): `type` a type name, `minLength` / `maxLength` /
  `minItems` / `maxItems` / `minProperties` / `maxProperties` non-negative integers, `minimum` … numbers,
  `pattern` / `format` / `description` / `$ref` strings, `uniqueItems` a boolean, `enum` an array,
  `required` an array of strings, `items` / `additionalProperties` / `additionalItems` schemas,
  `prefixItems` / `oneOf` / `allOf` non-empty arrays of schemas, `properties` an object of schemas.

  `C10_wellformed_partial`: for every validator tree whose length / count parameters are non-negative
  (finding D26 is the excluded case, `D26_witness`), whose numeric bounds are finite numbers (D11) and
  whose unions are non-empty, a returned schema is well-formed.  Not captured: uniqueness of the names
  in `required` (finding D27b), `$ref` resolution, the full metaschema (only the emitted keywords).
-/
import KodaModel.Properties.C10

namespace Koda

def isNonNegInt : J → Bool
  | .int i => decide (0 ≤ i)
  | _ => false

def isNumJ : J → Bool
  | .int _ => true
  | .float (.fin _ _ _) => true
  | _ => false

def isStrJ : J → Bool
  | .str _ => true
  | _ => false

def isBoolJ : J → Bool
  | .bool _ => true
  | _ => false

def isArrJ : J → Bool
  | .arr _ => true
  | _ => false

def isStrArrJ : J → Bool
  | .arr xs => xs.all isStrJ
  | _ => false

def isTypeName : J → Bool
  | .str s => s == kw "string" || s == kw "integer" || s == kw "number" || s == kw "boolean" || s == kw "array" ||
      s == kw "object" || s == kw "null"
  | _ => false

/-- keywords whose value is not a schema -/
def leafOK (k : List Nat) (v : J) : Bool :=
  if k == kw "minLength" || k == kw "maxLength" || k == kw "minItems" || k == kw "maxItems" ||
      k == kw "minProperties" || k == kw "maxProperties" then isNonNegInt v
  else if k == kw "minimum" || k == kw "maximum" || k == kw "exclusiveMinimum" || k == kw "exclusiveMaximum" then isNumJ v
  else if k == kw "type" then isTypeName v
  else if k == kw "pattern" || k == kw "format" || k == kw "description" || k == kw "$ref" then isStrJ v
  else if k == kw "uniqueItems" then isBoolJ v
  else if k == kw "enum" then isArrJ v
  else if k == kw "required" then isStrArrJ v
  else true

def isSchemaKw (k : List Nat) : Bool := k == kw "items" || k == kw "additionalProperties" || k == kw "additionalItems"
def isSchemaArrKw (k : List Nat) : Bool := k == kw "prefixItems" || k == kw "oneOf" || k == kw "allOf"

mutual
/-- well-formed schema (for the keywords the generator emits) -/
def wf : J → Bool
  | .bool _ => true
  | .obj o => wfO o
  | _ => false
termination_by structural j => j
def wfL : List J → Bool
  | [] => true
  | x :: xs => wf x && wfL xs
termination_by structural xs => xs
def wfO : List (List Nat × J) → Bool
  | [] => true
  | (k, v) :: rest =>
    (if isSchemaKw k then wf v
     else if isSchemaArrKw k then (match v with | .arr xs => !xs.isEmpty && wfL xs | _ => false)
     else if k == kw "properties" then (match v with | .obj ps => wfVals ps | _ => false)
     else leafOK k v) && wfO rest
termination_by structural kvs => kvs
def wfVals : List (List Nat × J) → Bool
  | [] => true
  | (_, v) :: rest => wf v && wfVals rest
termination_by structural kvs => kvs
end

/-- the condition on one entry -/
def entryOK (k : List Nat) (v : J) : Bool :=
  if isSchemaKw k then wf v
  else if isSchemaArrKw k then (match v with | .arr xs => !xs.isEmpty && wfL xs | _ => false)
  else if k == kw "properties" then (match v with | .obj ps => wfVals ps | _ => false)
  else leafOK k v

theorem wfO_cons (k : List Nat) (v : J) (rest : List (List Nat × J)) :
    wfO ((k, v) :: rest) = (entryOK k v && wfO rest) := by
  cases v <;> (unfold entryOK; rw [wfO]) <;> (intros; simp_all)

theorem wfO_nil : wfO [] = true := by simp [wfO]

theorem wfL_append (a b : List J) : wfL (a ++ b) = (wfL a && wfL b) := by
  induction a with
  | nil => simp [wfL]
  | cons x xs ih => simp [wfL, ih, Bool.and_assoc]

theorem wfO_jset (o : JObj) (k : List Nat) (v : J) (ho : wfO o = true) (hv : entryOK k v = true) :
    wfO (jset o k v) = true := by
  induction o with
  | nil => simp [jset, wfO_cons, hv, wfO_nil]
  | cons x xs ih =>
    obtain ⟨k', v'⟩ := x
    rw [wfO_cons, Bool.and_eq_true] at ho
    simp only [jset]
    split
    · rename_i hk
      have : k' = k := by simpa using hk
      subst this
      rw [wfO_cons]; simp [hv, ho.2]
    · rw [wfO_cons]; simp [ho.1, ih ho.2]

theorem wfO_jupdate (b : JObj) : ∀ (a : JObj), wfO a = true → wfO b = true → wfO (jupdate a b) = true := by
  induction b with
  | nil => intro a ha _; simpa [jupdate] using ha
  | cons x xs ih =>
    intro a ha hb
    obtain ⟨k, v⟩ := x
    rw [wfO_cons, Bool.and_eq_true] at hb
    simp only [jupdate, List.foldl_cons]
    exact ih _ (wfO_jset a k v ha hb.1) hb.2

theorem wfO_find_allOf (o : JObj) (xs : List J) (ho : wfO o = true)
    (h : o.find? (fun q => q.1 == kw "allOf") = some (kw "allOf", .arr xs)) : wfL xs = true := by
  induction o with
  | nil => simp at h
  | cons x rest ih =>
    obtain ⟨k', v'⟩ := x
    rw [wfO_cons, Bool.and_eq_true] at ho
    simp only [List.find?_cons] at h
    split at h
    · rename_i hk
      simp only [Option.some.injEq, Prod.mk.injEq] at h
      obtain ⟨rfl, rfl⟩ := h
      have h1 := ho.1
      have e1 : isSchemaKw (kw "allOf") = false := by decide
      have e2 : isSchemaArrKw (kw "allOf") = true := by decide
      simp only [entryOK, e1, e2, Bool.false_eq_true, if_false, if_true, Bool.and_eq_true] at h1
      exact h1.2
    · exact ih ho.2 h

theorem find_allOf_key (o : JObj) (p : List Nat × J) (h : o.find? (fun q => q.1 == kw "allOf") = some p) :
    p.1 = kw "allOf" := by
  have := List.find?_some h
  simpa using this

theorem wfO_jaddPred (a b : JObj) (ha : wfO a = true) (hb : wfO b = true) : wfO (jaddPred a b) = true := by
  have e1 : isSchemaKw (kw "allOf") = false := by decide
  have e2 : isSchemaArrKw (kw "allOf") = true := by decide
  unfold jaddPred
  split
  · split
    · rename_i k xs hf
      have hk : k = kw "allOf" := find_allOf_key a _ hf
      subst hk
      have hxs := wfO_find_allOf a xs ha hf
      apply wfO_jset _ _ _ ha
      simp [entryOK, e1, e2, wfL_append, hxs, wfL, wf, hb]
    · apply wfO_jset _ _ _ ha
      simp [entryOK, e1, e2, wfL, wf, hb]
  · exact wfO_jupdate b a ha hb

/-! ### the emitted keywords, one by one -/

theorem entryOK_nonneg (k : String)
    (hk : k = "minLength" ∨ k = "maxLength" ∨ k = "minItems" ∨ k = "maxItems" ∨ k = "minProperties" ∨ k = "maxProperties")
    (n : Int) : entryOK (kw k) (.int n) = decide (0 ≤ n) := by
  rcases hk with rfl | rfl | rfl | rfl | rfl | rfl <;> rfl

theorem entryOK_str (k : String)
    (hk : k = "pattern" ∨ k = "format" ∨ k = "description" ∨ k = "$ref" ∨ k = "formatMinimum" ∨
      k = "formatExclusiveMinimum" ∨ k = "formatMaximum" ∨ k = "formatExclusiveMaximum") (s : List Nat) :
    entryOK (kw k) (.str s) = true := by
  rcases hk with rfl | rfl | rfl | rfl | rfl | rfl | rfl | rfl <;> rfl

theorem entryOK_num (k : String)
    (hk : k = "minimum" ∨ k = "maximum" ∨ k = "exclusiveMinimum" ∨ k = "exclusiveMaximum") (v : J) :
    entryOK (kw k) v = isNumJ v := by
  rcases hk with rfl | rfl | rfl | rfl <;> rfl

theorem entryOK_type (s : String)
    (hs : s = "string" ∨ s = "integer" ∨ s = "number" ∨ s = "boolean" ∨ s = "array" ∨ s = "object") :
    entryOK (kw "type") (.str (kw s)) = true := by
  rcases hs with rfl | rfl | rfl | rfl | rfl | rfl <;> rfl

theorem entryOK_enum (xs : List J) : entryOK (kw "enum") (.arr xs) = true := rfl
theorem entryOK_unique (b : Bool) : entryOK (kw "uniqueItems") (.bool b) = true := rfl
theorem entryOK_nullable (v : J) : entryOK (kw "nullable") v = true := rfl
theorem entryOK_additionalItems (b : Bool) : entryOK (kw "additionalItems") (.bool b) = true := by
  cases b <;> rfl
theorem entryOK_additionalPropertiesB (b : Bool) : entryOK (kw "additionalProperties") (.bool b) = true := by
  cases b <;> rfl
theorem entryOK_items (v : J) : entryOK (kw "items") v = wf v := rfl
theorem entryOK_additionalProperties (v : J) : entryOK (kw "additionalProperties") v = wf v := rfl
theorem entryOK_schemaArr (k : String) (hk : k = "prefixItems" ∨ k = "oneOf" ∨ k = "allOf") (xs : List J) :
    entryOK (kw k) (.arr xs) = (!xs.isEmpty && wfL xs) := by
  rcases hk with rfl | rfl | rfl <;> rfl
theorem entryOK_properties (ps : JObj) : entryOK (kw "properties") (.obj ps) = wfVals ps := rfl
theorem entryOK_required (ts : List (List Nat)) : entryOK (kw "required") (.arr (ts.map J.str)) = true := by
  have : isStrArrJ (.arr (ts.map J.str)) = true := by
    simp [isStrArrJ, isStrJ]
  exact this

/-! ### what must hold of the parameters -/

/-- a Min / Max parameter: a finite number, or one of the "format" types -/
def boundNum : PyVal → Bool
  | .int _ => true
  | .float (.fin _ _ _) => true
  | .decimal _ => true
  | .date _ => true
  | .datetime _ _ => true
  | _ => false

def PredK.wfSafe : PredK → Bool
  | .minLength n => decide (0 ≤ n)
  | .maxLength n => decide (0 ≤ n)
  | .exactLength n => decide (0 ≤ n)
  | .minItems n => decide (0 ≤ n)
  | .maxItems n => decide (0 ≤ n)
  | .minKeys n => decide (0 ≤ n)
  | .maxKeys n => decide (0 ≤ n)
  | .min v _ => boundNum v
  | .max v _ => boundNum v
  | _ => true

mutual
/-- length / count parameters non-negative, numeric bounds finite numbers, unions non-empty -/
def V.wfSafe : V → Bool
  | .scalar _ _ _ _ ps aps => (ps ++ aps).all (fun p => p.k.wfSafe)
  | .list _ item ps aps _ => item.wfSafe && (ps ++ aps).all (fun p => p.k.wfSafe)
  | .utuple _ item ps aps _ => item.wfSafe && (ps ++ aps).all (fun p => p.k.wfSafe)
  | .ntuple _ fs _ _ _ => V.wfSafeL fs
  | .map _ _ v ps aps _ => v.wfSafe && (ps ++ aps).all (fun p => p.k.wfSafe)
  | .record _ _ vs => V.wfSafeL vs
  | .union _ vs => !vs.isEmpty && V.wfSafeL vs
  | .optional _ _ inner => inner.wfSafe
  | .knr _ inner => inner.wfSafe
  | _ => true
termination_by structural v => v
def V.wfSafeL : List V → Bool
  | [] => true
  | v :: vs => v.wfSafe && V.wfSafeL vs
termination_by structural vs => vs
end

theorem boundSchema_wf (pr : Printer) (v : PyVal) (excl : Bool) (a b c d : String) (o : JObj)
    (hab : (a = "exclusiveMinimum" ∧ b = "minimum" ∧ c = "formatExclusiveMinimum" ∧ d = "formatMinimum") ∨
           (a = "exclusiveMaximum" ∧ b = "maximum" ∧ c = "formatExclusiveMaximum" ∧ d = "formatMaximum"))
    (hv : boundNum v = true) (h : boundSchema pr v excl a b c d = .ok o) : wfO o = true := by
  unfold boundSchema at h
  split at h
  · split at h
    · cases h
      rw [wfO_cons, wfO_nil, Bool.and_true]
      rcases hab with ⟨rfl, rfl, rfl, rfl⟩ | ⟨rfl, rfl, rfl, rfl⟩ <;> cases excl <;> exact entryOK_str _ (by simp) _
    · cases h
  · cases h
    rw [wfO_cons, wfO_nil, Bool.and_true]
    rename_i hfmt
    have hnum : isNumJ (rawJ v) = true := by
      cases v with
      | int i => rfl
      | float f => cases f <;> simp [boundNum] at hv; rfl
      | decimal dd => simp [isFmtTy] at hfmt
      | date dd => simp [isFmtTy] at hfmt
      | datetime us off => simp [isFmtTy] at hfmt
      | _ => simp [boundNum] at hv
    rcases hab with ⟨rfl, rfl, rfl, rfl⟩ | ⟨rfl, rfl, rfl, rfl⟩ <;> cases excl <;>
      (rw [entryOK_num _ (by simp)]; exact hnum)

theorem predSchema_wf (pr : Printer) (p : PredK) (o : JObj) (hp : p.wfSafe = true)
    (h : predSchema pr p = .ok o) : wfO o = true := by
  cases p with
  | min v e => exact boundSchema_wf pr v e _ _ _ _ o (Or.inl ⟨rfl, rfl, rfl, rfl⟩) hp h
  | max v e => exact boundSchema_wf pr v e _ _ _ _ o (Or.inr ⟨rfl, rfl, rfl, rfl⟩) hp h
  | equalTo v =>
    simp only [predSchema] at h
    split at h
    · cases h; rw [wfO_cons, wfO_nil, entryOK_enum]; rfl
    · cases h
  | choices vs =>
    simp only [predSchema] at h
    split at h
    · split at h
      · cases h; rw [wfO_cons, wfO_nil, entryOK_enum]; rfl
      · cases h
    · cases h
  | startsWith q =>
    cases q with
    | str s => simp only [predSchema] at h; cases h; rw [wfO_cons, wfO_nil, entryOK_str _ (by simp)]; rfl
    | bytes b =>
      simp only [predSchema] at h
      split at h <;> cases h
      rw [wfO_cons, wfO_nil, entryOK_str _ (by simp)]; rfl
    | _ => simp [predSchema] at h
  | endsWith q =>
    cases q with
    | str s => simp only [predSchema] at h; cases h; rw [wfO_cons, wfO_nil, entryOK_str _ (by simp)]; rfl
    | bytes b =>
      simp only [predSchema] at h
      split at h <;> cases h
      rw [wfO_cons, wfO_nil, entryOK_str _ (by simp)]; rfl
    | _ => simp [predSchema] at h
  | multipleOf f => cases h
  | exactItemCount n => cases h
  | user f => cases h
  | email => cases h; rw [wfO_cons, wfO_nil, entryOK_str _ (by simp)]; rfl
  | notBlank => cases h; rw [wfO_cons, wfO_nil, entryOK_str _ (by simp)]; rfl
  | regex pat => cases h; rw [wfO_cons, wfO_nil, entryOK_str _ (by simp)]; rfl
  | uniqueItems => cases h; rw [wfO_cons, wfO_nil, entryOK_unique]; rfl
  | minLength n => cases h; rw [wfO_cons, wfO_nil, entryOK_nonneg _ (by simp)]; simpa [PredK.wfSafe] using hp
  | maxLength n => cases h; rw [wfO_cons, wfO_nil, entryOK_nonneg _ (by simp)]; simpa [PredK.wfSafe] using hp
  | exactLength n =>
    cases h
    rw [wfO_cons, wfO_cons, wfO_nil, entryOK_nonneg _ (by simp), entryOK_nonneg _ (by simp)]
    simpa [PredK.wfSafe] using hp
  | minItems n => cases h; rw [wfO_cons, wfO_nil, entryOK_nonneg _ (by simp)]; simpa [PredK.wfSafe] using hp
  | maxItems n => cases h; rw [wfO_cons, wfO_nil, entryOK_nonneg _ (by simp)]; simpa [PredK.wfSafe] using hp
  | minKeys n => cases h; rw [wfO_cons, wfO_nil, entryOK_nonneg _ (by simp)]; simpa [PredK.wfSafe] using hp
  | maxKeys n => cases h; rw [wfO_cons, wfO_nil, entryOK_nonneg _ (by simp)]; simpa [PredK.wfSafe] using hp

theorem predsSchema_wf (pr : Printer) : ∀ (ps : List Pred) (base o : JObj),
    ps.all (fun p => p.k.wfSafe) = true → wfO base = true → predsSchema pr base ps = .ok o → wfO o = true := by
  intro ps
  induction ps with
  | nil => intro base o _ hb h; simp [predsSchema] at h; subst h; exact hb
  | cons p ps ih =>
    intro base o hp hb h
    simp only [List.all_cons, Bool.and_eq_true] at hp
    simp only [predsSchema] at h
    split at h
    · cases h
    · rename_i o' ho'
      exact ih _ o hp.2 (wfO_jaddPred base o' hb (predSchema_wf pr p.k o' hp.1 ho')) h

theorem baseSchema_wf (t : Ty) (o : JObj) (h : baseSchema t = .ok o) : wfO o = true := by
  cases t <;> simp [baseSchema] at h <;> subst h <;>
    simp only [wfO_cons, wfO_nil, Bool.and_true, Bool.and_eq_true] <;>
    (try refine ⟨?_, ?_, ?_⟩) <;> (try refine ⟨?_, ?_⟩) <;>
    first | exact entryOK_type _ (by simp) | exact entryOK_str _ (by simp) _

theorem wfVals_jset (o : JObj) (k : List Nat) (v : J) (ho : wfVals o = true) (hv : wf v = true) :
    wfVals (jset o k v) = true := by
  induction o with
  | nil => simp [jset, wfVals, hv]
  | cons x xs ih =>
    obtain ⟨k', v'⟩ := x
    simp only [wfVals, Bool.and_eq_true] at ho
    simp only [jset]
    split
    · simp [wfVals, hv, ho.2]
    · simp [wfVals, ho.1, ih ho.2]

theorem wfVals_props (labels : List (List Nat)) (props : List J) (hp : wfL props = true) :
    ∀ acc, wfVals acc = true → wfVals ((labels.zip props).foldl (fun acc p => jset acc p.1 p.2) acc) = true := by
  induction labels generalizing props with
  | nil => intro acc ha; simpa using ha
  | cons l ls ih =>
    intro acc ha
    cases props with
    | nil => simpa using ha
    | cons p ps =>
      simp only [wfL, Bool.and_eq_true] at hp
      simp only [List.zip_cons_cons, List.foldl_cons]
      exact ih ps hp.2 _ (wfVals_jset acc l p ha hp.1)

mutual
/-- **C10 (well-formed schema), partial**: see the header -/
theorem C10_wellformed_partial (pr : Printer) (ctx : RefCtx) (tvs nrs : List Nat) :
    ∀ (v : V) (j : J), v.wfSafe = true → toSchema pr ctx tvs nrs v = .ok j → wf j = true
  | .scalar vid tg c pre ps aps, j, hs, h => by
    simp only [toSchema] at h
    split at h
    · cases h
    · cases hb : baseSchema tg with
      | error e => simp [hb, bind, Except.bind] at h
      | ok b =>
        cases hp : predsSchema pr b (ps ++ aps) with
        | error e => simp [hb, hp, bind, Except.bind] at h
        | ok o =>
          simp only [hb, hp, bind, Except.bind, Except.ok.injEq] at h
          subst h
          simp only [V.wfSafe] at hs
          simpa [wf] using predsSchema_wf pr _ b o hs (baseSchema_wf tg b hb) hp
  | .equals vid m pre pid, j, _, h => by
    simp only [toSchema] at h
    cases hb : baseSchema m.ty with
    | error e => simp [hb, bind, Except.bind] at h
    | ok b =>
      cases hp : predSchema pr (.equalTo m) with
      | error e => simp [hb, hp, bind, Except.bind] at h
      | ok o =>
        simp only [hb, hp, bind, Except.bind, Except.ok.injEq] at h
        subst h
        have h1 := predSchema_wf pr (.equalTo m) o rfl hp
        simpa [wf] using wfO_jupdate o b (baseSchema_wf _ b hb) h1
  | .noneV _ _, j, _, h => by simp [toSchema] at h
  | .always _, j, _, h => by simp [toSchema] at h
  | .isDict _, j, _, h => by
    simp only [toSchema, Except.ok.injEq] at h; subst h
    simp only [wf, wfO_cons, wfO_nil, Bool.and_true]
    exact entryOK_type _ (by simp)
  | .list vid item ps aps c, j, hs, h => by
    simp only [toSchema] at h
    cases hi : toSchema pr ctx tvs nrs item with
    | error e => simp [hi, bind, Except.bind] at h
    | ok it =>
      simp only [V.wfSafe, Bool.and_eq_true] at hs
      have hit := C10_wellformed_partial pr ctx tvs nrs item it hs.1 hi
      cases hp : predsSchema pr [(kw "type", .str (kw "array")), (kw "items", it)] (ps ++ aps) with
      | error e => simp [hi, hp, bind, Except.bind] at h
      | ok o =>
        simp only [hi, hp, bind, Except.bind, Except.ok.injEq] at h
        subst h
        have hbase : wfO [(kw "type", .str (kw "array")), (kw "items", it)] = true := by
          simp only [wfO_cons, wfO_nil, Bool.and_true, Bool.and_eq_true]
          exact ⟨entryOK_type _ (by simp), by rw [entryOK_items]; exact hit⟩
        simpa [wf] using predsSchema_wf pr _ _ o hs.2 hbase hp
  | .utuple vid item ps aps c, j, hs, h => by
    simp only [toSchema] at h
    cases hi : toSchema pr ctx tvs nrs item with
    | error e => simp [hi, bind, Except.bind] at h
    | ok it =>
      simp only [V.wfSafe, Bool.and_eq_true] at hs
      have hit := C10_wellformed_partial pr ctx tvs nrs item it hs.1 hi
      cases hp : predsSchema pr [(kw "type", .str (kw "array")), (kw "items", it)] (ps ++ aps) with
      | error e => simp [hi, hp, bind, Except.bind] at h
      | ok o =>
        simp only [hi, hp, bind, Except.bind, Except.ok.injEq] at h
        subst h
        have hbase : wfO [(kw "type", .str (kw "array")), (kw "items", it)] = true := by
          simp only [wfO_cons, wfO_nil, Bool.and_true, Bool.and_eq_true]
          exact ⟨entryOK_type _ (by simp), by rw [entryOK_items]; exact hit⟩
        simpa [wf] using predsSchema_wf pr _ _ o hs.2 hbase hp
  | .set _ _ _ _ _, j, _, h => by simp [toSchema] at h
  | .ntuple vid fs oc lp c, j, hs, h => by
    simp only [toSchema] at h
    cases hi : toSchemaL pr ctx tvs nrs fs with
    | error e => simp [hi, bind, Except.bind] at h
    | ok items =>
      simp only [V.wfSafe] at hs
      have hit := C10_wellformed_partialL pr ctx tvs nrs fs items hs hi
      simp only [hi, bind, Except.bind, Except.ok.injEq] at h
      subst h
      simp only [wf]
      have hfront : ∀ tail, wfO tail = true →
          wfO ([(kw "description", .str (kw "a " ++ natText fs.length ++ kw "-tuple of the fields in \"prefixItems\"")),
            (kw "type", .str (kw "array")), (kw "additionalItems", .bool false),
            (kw "maxItems", .int fs.length), (kw "minItems", .int fs.length)] ++ tail) = true := by
        intro tail ht
        simp only [List.cons_append, List.nil_append, wfO_cons, Bool.and_eq_true]
        refine ⟨entryOK_str _ (by simp) _, entryOK_type _ (by simp), entryOK_additionalItems _, ?_, ?_, ht⟩
        · rw [entryOK_nonneg _ (by simp)]; simp
        · rw [entryOK_nonneg _ (by simp)]; simp
      apply hfront
      split
      · exact wfO_nil
      · rename_i hne
        rw [wfO_cons, wfO_nil, Bool.and_true, entryOK_schemaArr _ (by simp)]
        simp [hit]
        simpa using hne
  | .map vid key value ps aps c, j, hs, h => by
    simp only [toSchema] at h
    cases hi : toSchema pr ctx tvs nrs value with
    | error e => simp [hi, bind, Except.bind] at h
    | ok it =>
      simp only [V.wfSafe, Bool.and_eq_true] at hs
      have hit := C10_wellformed_partial pr ctx tvs nrs value it hs.1 hi
      cases hp : predsSchema pr [(kw "type", .str (kw "object")), (kw "additionalProperties", it)] (ps ++ aps) with
      | error e => simp [hi, hp, bind, Except.bind] at h
      | ok o =>
        simp only [hi, hp, bind, Except.bind, Except.ok.injEq] at h
        subst h
        have hbase : wfO [(kw "type", .str (kw "object")), (kw "additionalProperties", it)] = true := by
          simp only [wfO_cons, wfO_nil, Bool.and_true, Bool.and_eq_true]
          exact ⟨entryOK_type _ (by simp), by rw [entryOK_additionalProperties]; exact hit⟩
        simpa [wf] using predsSchema_wf pr _ _ o hs.2 hbase hp
  | .record vid cfg vs, j, hs, h => by
    simp only [toSchema] at h
    cases hi : toSchemaL pr ctx tvs nrs vs with
    | error e => simp [hi, bind, Except.bind] at h
    | ok props =>
      simp only [V.wfSafe] at hs
      have hit := C10_wellformed_partialL pr ctx tvs nrs vs props hs hi
      simp only [hi, bind, Except.bind] at h
      cases hl : labelsText pr cfg.keys with
      | none => simp [hl] at h
      | some labels =>
        simp only [hl, Except.ok.injEq] at h
        subst h
        have hprops := wfVals_props labels props hit [] rfl
        simp only [wf, wfO_cons, wfO_nil, Bool.and_true, Bool.and_eq_true]
        refine ⟨entryOK_type _ (by simp), entryOK_additionalPropertiesB _, ?_, ?_⟩
        · split <;> exact entryOK_required _
        · rw [entryOK_properties]; exact hprops
  | .union vid vs, j, hs, h => by
    simp only [toSchema] at h
    cases hi : toSchemaL pr ctx tvs nrs vs with
    | error e => simp [hi, bind, Except.bind] at h
    | ok items =>
      simp only [V.wfSafe, Bool.and_eq_true] at hs
      have hit := C10_wellformed_partialL pr ctx tvs nrs vs items hs.2 hi
      have hne : items.isEmpty = false := by
        cases vs with
        | nil => simp at hs
        | cons v vs' =>
          simp only [toSchemaL] at hi
          cases hv : toSchema pr ctx tvs nrs v with
          | error e => simp [hv, bind, Except.bind] at hi
          | ok s =>
            cases hr : toSchemaL pr ctx tvs nrs vs' with
            | error e => simp [hv, hr, bind, Except.bind] at hi
            | ok ss => simp [hv, hr, bind, Except.bind] at hi; subst hi; rfl
      simp only [hi, bind, Except.bind, Except.ok.injEq] at h
      subst h
      simp only [wf, wfO_cons, wfO_nil, Bool.and_true]
      rw [entryOK_schemaArr _ (by simp)]
      simp [hit, hne]
  | .optional vid nv inner, j, hs, h => by
    simp only [toSchema] at h
    cases hi : toSchema pr ctx tvs nrs inner with
    | error e => simp [hi, bind, Except.bind] at h
    | ok it =>
      simp only [V.wfSafe] at hs
      have hit := C10_wellformed_partial pr ctx tvs nrs inner it hs hi
      simp only [hi, bind, Except.bind] at h
      cases it with
      | obj o =>
        simp only [Except.ok.injEq] at h
        subst h
        simp only [wf] at hit ⊢
        exact wfO_jset o _ _ hit (entryOK_nullable _)
      | _ => simp at h
  | .maybe _ _, j, _, h => by simp [toSchema] at h
  | .lazy vid ref, j, _, h => by
    simp only [toSchema] at h
    cases ctx with
    | none => simp at h
    | some r =>
      simp only [] at h
      split at h <;> (simp only [Except.ok.injEq] at h; subst h)
      · simp [wf, wfO_nil]
      · simp only [wf, wfO_cons, wfO_nil, Bool.and_true]; exact entryOK_str _ (by simp) _
  | .knr vid inner, j, hs, h => by
    simp only [toSchema] at h
    simp only [V.wfSafe] at hs
    exact C10_wellformed_partial pr ctx tvs nrs inner j hs h
  | .user _ _, j, _, h => by simp [toSchema] at h
theorem C10_wellformed_partialL (pr : Printer) (ctx : RefCtx) (tvs nrs : List Nat) :
    ∀ (vs : List V) (js : List J), V.wfSafeL vs = true → toSchemaL pr ctx tvs nrs vs = .ok js → wfL js = true
  | [], js, _, h => by simp [toSchemaL] at h; subst h; rfl
  | v :: vs, js, hs, h => by
    simp only [toSchemaL] at h
    simp only [V.wfSafeL, Bool.and_eq_true] at hs
    cases hv : toSchema pr ctx tvs nrs v with
    | error e => simp [hv, bind, Except.bind] at h
    | ok s =>
      cases hr : toSchemaL pr ctx tvs nrs vs with
      | error e => simp [hv, hr, bind, Except.bind] at h
      | ok ss =>
        simp only [hv, hr, bind, Except.bind, Except.ok.injEq] at h
        subst h
        simp [wfL, C10_wellformed_partial pr ctx tvs nrs v s hs.1 hv,
          C10_wellformed_partialL pr ctx tvs nrs vs ss hs.2 hr]
end

/-! ### finding D26: the hypothesis on length / count parameters is needed -/

/-- `StringValidator(MinLength(-1))`: the schema carries `minLength: -1`, which is not well-formed -/
theorem D26_witness :
    toSchema trivialPrinter none [] [] (.scalar 1 .str none [] [⟨1, .minLength (-1)⟩] []) =
      .ok (.obj [(kw "type", .str (kw "string")), (kw "minLength", .int (-1))]) ∧
    wf (.obj [(kw "type", .str (kw "string")), (kw "minLength", .int (-1))]) = false := by
  constructor <;> rfl

/-- non-vacuity: a tree inside the hypotheses -/
example : (V.list 1 (.union 2 [.scalar 3 .str none [] [⟨1, .minLength 1⟩] [], .scalar 4 .int none [] [⟨2, .min (.int 0) true⟩] []])
    [⟨3, .maxItems 5⟩] [] none).wfSafe = true := by decide

end Koda
