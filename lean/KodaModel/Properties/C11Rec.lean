/-
  C11 for named recursive schemas: the whole-tree theorem of `C11Glue`, re-proved with three parameters —
  `A` (what the named validator accepts), `O` (its side conditions), `L` (fuel from which a `$ref` to it is
  decided) — and a case for `Lazy` nodes that refer to the named validator below a container; then closed
  by induction on the size of the JSON value (`C11_named_partial`).
-/
import KodaModel.Properties.C11Glue

namespace Koda.Rec
open Koda

mutual
/-- validator trees covered by the whole-tree theorem: string / integer / float / boolean / equality
    validators without coercer, preprocessors and async predicates; lists, uniform and n-tuples, maps,
    records; unions; optionals — nested at will; a reference to the named validator (`Lazy`, reference 0)
    where `g` says it is guarded, i.e. below a container -/
def frag (gd : Bool) : V → Bool
  | .scalar _ tg c pre _ aps => (typeName tg).isSome && c.isNone && pre.isEmpty && aps.isEmpty
  | .list _ item _ aps c => c.isNone && aps.isEmpty && frag true item
  | .union _ vs => fragL gd vs
  | .optional _ nv inner => isDefaultNone nv && frag gd inner
  | .knr _ inner => frag gd inner
  | .ntuple _ fs oc c _ => oc.isNone && isDfltCoerce c && fragL true fs
  | .record _ cfg vs => recCfgOK cfg vs.length && fragL true vs
  | .map _ kv vv _ aps c => c.isNone && aps.isEmpty && isPlainStrV kv && frag true vv
  | .equals _ m pre _ => pre.isEmpty && (typeName m.ty).isSome
  | .utuple _ item _ aps c => isDfltCoerce c && aps.isEmpty && frag true item
  | .lazy _ ref => gd && ref == 0
  | _ => false
termination_by structural v => v
def fragL (gd : Bool) : List V → Bool
  | [] => true
  | v :: vs => frag gd v && fragL gd vs
termination_by structural vs => vs
end

mutual
/-- what it means for `x` to be acceptable to the tree (the specification both sides are proved against);
    `A`: what is acceptable to the named validator a `Lazy` refers to -/
def acc (A : PyVal → Bool) : V → PyVal → Bool
  | .scalar _ tg _ _ ps _, x => decide (x.ty = tg) && ps.all (fun p => holds p.k x)
  | .list _ item ps _ _, x => isListV x && ((listItems x).all (fun y => acc A item y) && ps.all (fun p => holds p.k x))
  | .union _ vs, x => accAny A vs x
  | .optional _ _ inner, x => isNoneV x || acc A inner x
  | .knr _ inner, x => acc A inner x
  | .ntuple _ fs _ _ _, x => isListV x && (decide ((listItems x).length = fs.length) && accZip A fs (listItems x))
  | .record _ cfg vs, x =>
    isDictV x && ((dictKvs x).all (fun p => memL p.1 cfg.keys || !cfg.failUnknown) &&
      accFields A cfg.keys cfg.reqs vs (dictKvs x))
  | .map _ _ vv ps _ _, x =>
    isDictV x && ((dictKvs x).all (fun p => acc A vv p.2) && ps.all (fun p => holds p.k x))
  | .equals _ m _ _, x => decide (x.ty = m.ty) && holds (.equalTo m) x
  | .utuple _ item ps _ _, x => isListV x && ((listItems x).all (fun y => acc A item y) && ps.all (fun p => holds p.k x))
  | .lazy _ _, x => A x
  | _, _ => false
termination_by structural v => v
def accAny (A : PyVal → Bool) : List V → PyVal → Bool
  | [], _ => false
  | v :: vs, x => acc A v x || accAny A vs x
termination_by structural vs => vs
/-- position by position (over the common prefix, like `zip`) -/
def accZip (A : PyVal → Bool) : List V → List PyVal → Bool
  | v :: vs, y :: ys => acc A v y && accZip A vs ys
  | _, _ => true
termination_by structural vs => vs
/-- key by key: a present key's value is acceptable to its field, an absent key is not required -/
def accFields (A : PyVal → Bool) : List PyVal → List Bool → List V → List (PyVal × PyVal) → Bool
  | k :: ks, r :: rs, v :: vs, kvs =>
    (match dictGet kvs k with | some xv => acc A v xv | none => !r) && accFields A ks rs vs kvs
  | _, _, _, _ => true
termination_by structural _ _ vs => vs
end

/-- number of variants acceptable to `x` -/
def countAcc (A : PyVal → Bool) : List V → PyVal → Nat
  | [], _ => 0
  | v :: vs, x => (if acc A v x then 1 else 0) + countAcc A vs x


mutual
/-- the side conditions, at every position of the value: predicates are used on values of their kind
    with parameters of that kind; pattern and predicate agree where they can differ (D13, D15); JSON
    uniqueness agrees with the predicate's; at most one union variant is acceptable (D14); `O`: the side
    conditions of the named validator a `Lazy` refers to -/
def ok (A O : PyVal → Bool) : V → PyVal → Bool
  | .scalar _ tg _ _ ps _, x => !(decide (x.ty = tg)) || ps.all (fun p => predCheck p.k x)
  | .list _ item ps _ _, x => !(isListV x) || (ps.all (fun p => predCheck p.k x) && (listItems x).all (fun y => ok A O item y))
  | .union _ vs, x => okAll A O vs x && decide (countAcc A vs x ≤ 1)
  | .optional _ _ inner, x => isNoneV x || ok A O inner x
  | .knr _ inner, x => ok A O inner x
  | .ntuple _ fs _ _ _, x => !(isListV x) || okZip A O fs (listItems x)
  | .record _ cfg vs, x => okFields A O cfg.keys vs (dictKvs x)
  | .map _ _ vv ps _ _, x =>
    !(isDictV x) || (ps.all (fun p => predCheck p.k x) && (dictKvs x).all (fun p => ok A O vv p.2))
  | .utuple _ item ps _ _, x => !(isListV x) || (ps.all (fun p => predCheck p.k x) && (listItems x).all (fun y => ok A O item y))
  | .lazy _ _, x => O x
  | _, _ => true
termination_by structural v => v
def okAll (A O : PyVal → Bool) : List V → PyVal → Bool
  | [], _ => true
  | v :: vs, x => ok A O v x && okAll A O vs x
termination_by structural vs => vs
def okZip (A O : PyVal → Bool) : List V → List PyVal → Bool
  | v :: vs, y :: ys => ok A O v y && okZip A O vs ys
  | _, _ => true
termination_by structural vs => vs
def okFields (A O : PyVal → Bool) : List PyVal → List V → List (PyVal × PyVal) → Bool
  | k :: ks, v :: vs, kvs =>
    (match dictGet kvs k with | some xv => ok A O v xv | none => true) && okFields A O ks vs kvs
  | _, _, _ => true
termination_by structural _ vs => vs
end

mutual
/-- fuel from which the schema of the tree is decided; `L`: fuel from which a reference to the named schema is -/
def sfuel (L : Nat) : V → Nat
  | .list _ item _ _ _ => max (sfuel L item) 1 + 1
  | .union _ vs => sfuelL L vs + 1
  | .optional _ _ inner => max (sfuel L inner) 1
  | .knr _ inner => sfuel L inner
  | .ntuple _ fs _ _ _ => sfuelL L fs + 1
  | .record _ _ vs => max (sfuelL L vs) 1 + 1
  | .map _ _ vv _ _ _ => max (sfuel L vv) 1 + 1
  | .utuple _ item _ _ _ => max (sfuel L item) 1 + 1
  | .lazy _ _ => max L 2
  | _ => 2
termination_by structural v => v
def sfuelL (L : Nat) : List V → Nat
  | [] => 0
  | v :: vs => max (sfuel L v) (sfuelL L vs)
termination_by structural vs => vs
end

variable {A O : PyVal → Bool} {L : Nat} {gd : Bool} {ctx : RefCtx} {Bd : PyVal → Prop}


theorem common_fuel_zip (o : Oracle) (env : Nat → V) : ∀ (vs : List V) (ys : List PyVal),
    (∀ p ∈ vs.zip ys, VDecides o env p.1 p.2 (acc A p.1 p.2)) →
    ∃ N, ∀ n, N ≤ n → ∀ p ∈ vs.zip ys, ∃ out t, run o env .sync n p.1 p.2 = some (out, t) ∧ out.verdict = some (acc A p.1 p.2)
  | [], _, _ => ⟨0, fun _ _ p hp => by simp at hp⟩
  | _ :: _, [], _ => ⟨0, fun _ _ p hp => by simp at hp⟩
  | v :: vs, y :: ys, h => by
    obtain ⟨N1, h1⟩ := common_fuel_zip o env vs ys (fun p hp => h p (by simp [hp]))
    obtain ⟨N2, h2⟩ := (h (v, y) (by simp)).at_fuel
    refine ⟨max N1 N2, fun n hn p hp => ?_⟩
    simp only [List.zip_cons_cons, List.mem_cons] at hp
    rcases hp with rfl | hp
    · exact h2 n (by omega)
    · exact h1 n (by omega) p hp


theorem loopFields_decided (o : Oracle) (env : Nat → V) (N : Nat) : ∀ (vs : List V) (ys : List PyVal) (i : Nat),
    (∀ p ∈ vs.zip ys, ∃ out t, run o env .sync N p.1 p.2 = some (out, t) ∧ out.verdict = some (acc A p.1 p.2)) →
    ∃ r, loopFields (vs.map (run o env .sync N)) ys i = some r ∧ r.r = none ∧ r.es.isEmpty = accZip A vs ys
  | [], ys, i, _ => ⟨⟨[], [], [], none⟩, by simp [loopFields], rfl, by simp [accZip]⟩
  | v :: vs, [], i, _ => ⟨⟨[], [], [], none⟩, by simp [loopFields], rfl, by simp [accZip]⟩
  | v :: vs, y :: ys, i, h => by
    obtain ⟨out, t, hx, hv⟩ := h (v, y) (by simp)
    obtain ⟨r, hr, h1, h2⟩ := loopFields_decided o env N vs ys (i + 1) (fun p hp => h p (by simp [hp]))
    cases out with
    | raised e => simp [Out.verdict] at hv
    | valid w =>
      simp only [Out.verdict, Option.some.injEq] at hv
      refine ⟨⟨w :: r.ws, r.es, t ++ r.t, r.r⟩, by simp [loopFields, hx, hr], h1, ?_⟩
      simp [accZip, h2, ← hv]
    | invalid e =>
      simp only [Out.verdict, Option.some.injEq] at hv
      refine ⟨⟨r.ws, (i, e) :: r.es, t ++ r.t, r.r⟩, by simp [loopFields, hx, hr], h1, ?_⟩
      simp [accZip, ← hv]


theorem node_ntuple_validator (o : Oracle) (env : Nat → V) (vid lp : Nat) (fs : List V) (x : PyVal)
    (hjson : isJson x = true)
    (hkids : ∀ p ∈ fs.zip (listItems x), VDecides o env p.1 p.2 (acc A p.1 p.2)) :
    VDecides o env (.ntuple vid fs none (some .dflt) lp) x
      (isListV x && (decide ((listItems x).length = fs.length) && accZip A fs (listItems x))) := by
  by_cases hl : isListV x = true
  · obtain ⟨oid, xs, rfl⟩ : ∃ oid xs, x = .list oid xs := by
      cases x <;> simp [isListV] at hl
      exact ⟨_, _, rfl⟩
    simp only [listItems] at hkids ⊢
    have hg : gate o .tuple .list (some .dflt) (.list oid xs) = .acc (.tuple 0 xs) [] := by
      simp [gate, applyCoerce, defaultCoerce]
    by_cases hlen : xs.length = fs.length
    · obtain ⟨N, hN⟩ := common_fuel_zip o env fs xs hkids
      obtain ⟨r, hr, hrn, hre⟩ := loopFields_decided o env N fs xs 0 (hN N (Nat.le_refl N))
      have hpre : ntuplePre o vid (some .dflt) lp (fs.map (run o env .sync N)).length (.list oid xs) =
          .inr (.tuple 0 xs, xs, []) := by
        simp [ntuplePre, hg, pyLen, pyIter, hlen]
      refine ⟨N + 1, (ntupleFinish vid none (.tuple 0 xs) [] r).1, (ntupleFinish vid none (.tuple 0 xs) [] r).2, ?_, ?_⟩
      · simp only [run, ntupleStep, hpre, hr]
      · simp only [ntupleFinish, hrn, isListV, Bool.true_and, hlen, decide_true]
        rw [← hre]
        cases he : r.es.isEmpty <;> simp [he, Out.verdict, runObjCheck]
    · refine ⟨1, .invalid (.mk (.preds [lp]) (.tuple 0 xs) vid []), [], ?_, by simp [Out.verdict, isListV, hlen]⟩
      simp only [run, ntupleStep, ntuplePre, hg, pyLen, List.length_map]
      simp [hlen]
  · have hl' : isListV x = false := by simpa using hl
    have hg : ∃ k, gate o .tuple .list (some .dflt) x = .rej k [] := by
      refine ⟨.coercion (defaultCompat .tuple) .list, ?_⟩
      cases x <;> simp [isListV, isJson] at hl' hjson <;> simp [gate, applyCoerce, defaultCoerce]
    obtain ⟨k, hk⟩ := hg
    exact ⟨1, .invalid (.mk k x vid []), [], by simp [run, ntupleStep, ntuplePre, hk], by simp [Out.verdict, hl']⟩



/-- the present fields are decided at fuel `N` -/
def FieldsDecided (A : PyVal → Bool) (o : Oracle) (env : Nat → V) (N : Nat) (kvs : List (PyVal × PyVal)) : List PyVal → List V → Prop
  | k :: ks, v :: vs =>
    (∀ xv, dictGet kvs k = some xv → ∃ out t, run o env .sync N v xv = some (out, t) ∧ out.verdict = some (acc A v xv)) ∧
    FieldsDecided A o env N kvs ks vs
  | _, _ => True


theorem FieldsDecided.mono {o : Oracle} {env : Nat → V} {kvs : List (PyVal × PyVal)} {N M : Nat} (hm : N ≤ M) :
    ∀ {ks : List PyVal} {vs : List V}, FieldsDecided A o env N kvs ks vs → FieldsDecided A o env M kvs ks vs
  | [], _, _ => by simp [FieldsDecided]
  | _ :: _, [], _ => by simp [FieldsDecided]
  | k :: ks, v :: vs, h => by
    refine ⟨fun xv hx => ?_, FieldsDecided.mono hm h.2⟩
    obtain ⟨out, t, hr, hv⟩ := h.1 xv hx
    exact ⟨out, t, run_mono_le o env .sync hm v xv _ hr, hv⟩


theorem common_fuel_fields (o : Oracle) (env : Nat → V) (kvs : List (PyVal × PyVal)) :
    ∀ (ks : List PyVal) (vs : List V),
      (∀ p ∈ ks.zip vs, ∀ xv, dictGet kvs p.1 = some xv → VDecides o env p.2 xv (acc A p.2 xv)) →
      ∃ N, FieldsDecided A o env N kvs ks vs
  | [], _, _ => ⟨0, by simp [FieldsDecided]⟩
  | _ :: _, [], _ => ⟨0, by simp [FieldsDecided]⟩
  | k :: ks, v :: vs, h => by
    obtain ⟨N1, h1⟩ := common_fuel_fields o env kvs ks vs (fun p hp => h p (by simp [hp]))
    cases hg : dictGet kvs k with
    | none => exact ⟨N1, ⟨fun xv hx => by simp [hg] at hx, h1⟩⟩
    | some xv =>
      obtain ⟨N2, h2⟩ := (h (k, v) (by simp) xv hg).at_fuel
      refine ⟨max N1 N2, ⟨fun xv' hx' => ?_, h1.mono (Nat.le_max_left _ _)⟩⟩
      rw [hg] at hx'
      cases hx'
      exact h2 _ (Nat.le_max_right _ _)


theorem recLoop_decided (o : Oracle) (env : Nat → V) (N vid : Nat) (dv : PyVal) (kvs : List (PyVal × PyVal)) :
    ∀ (ks : List PyVal) (rs : List Bool) (vs : List V), FieldsDecided A o env N kvs ks vs →
      ∃ r, recLoop vid dv kvs (vs.map (run o env .sync N)) ks rs = some r ∧ r.r = none ∧
        r.ks.isEmpty = accFields A ks rs vs kvs
  | [], rs, vs, _ => ⟨⟨[], [], [], [], none⟩, by cases vs <;> simp [recLoop], rfl, by cases rs <;> cases vs <;> simp [accFields]⟩
  | k :: ks, [], vs, _ => ⟨⟨[], [], [], [], none⟩, by cases vs <;> simp [recLoop], rfl, by cases vs <;> simp [accFields]⟩
  | k :: ks, r :: rs, [], _ => ⟨⟨[], [], [], [], none⟩, by simp [recLoop], rfl, by simp [accFields]⟩
  | k :: ks, r :: rs, v :: vs, h => by
    obtain ⟨r', hr', h1, h2⟩ := recLoop_decided o env N vid dv kvs ks rs vs h.2
    cases hg : dictGet kvs k with
    | none =>
      cases r with
      | true =>
        refine ⟨{ r' with got := none :: r'.got, ks := k :: r'.ks, errs := .mk .missingKey dv vid [] :: r'.errs }, ?_, h1, ?_⟩
        · simp [recLoop, hg, hr']
        · simp [accFields, hg]
      | false =>
        refine ⟨{ r' with got := none :: r'.got }, ?_, h1, ?_⟩
        · simp [recLoop, hg, hr']
        · simp [accFields, hg, h2]
    | some xv =>
      obtain ⟨out, t, hx, hv⟩ := h.1 xv hg
      cases out with
      | raised e => simp [Out.verdict] at hv
      | valid w =>
        simp only [Out.verdict, Option.some.injEq] at hv
        refine ⟨{ r' with got := some w :: r'.got, t := t ++ r'.t }, ?_, h1, ?_⟩
        · simp [recLoop, hg, hx, hr']
        · simp [accFields, hg, h2, ← hv]
      | invalid e =>
        simp only [Out.verdict, Option.some.injEq] at hv
        refine ⟨{ r' with got := none :: r'.got, ks := k :: r'.ks, errs := e :: r'.errs, t := t ++ r'.t }, ?_, h1, ?_⟩
        · simp [recLoop, hg, hx, hr']
        · simp [accFields, hg, ← hv]


theorem node_record_validator (o : Oracle) (env : Nat → V) (vid : Nat) (cfg : RecCfg) (vs : List V) (x : PyVal)
    (hj : isJson x = true) (hoc : cfg.oc = none) (haoc : cfg.aoc = none) (hco : cfg.coerce = none)
    (hkids : ∀ p ∈ cfg.keys.zip vs, ∀ xv, dictGet (dictKvs x) p.1 = some xv → VDecides o env p.2 xv (acc A p.2 xv)) :
    VDecides o env (.record vid cfg vs) x
      (isDictV x && ((dictKvs x).all (fun p => memL p.1 cfg.keys || !cfg.failUnknown) &&
        accFields A cfg.keys cfg.reqs vs (dictKvs x))) := by
  by_cases hd : isDictV x = true
  · obtain ⟨oid, kvs, rfl⟩ : ∃ oid kvs, x = .dict oid kvs := by
      cases x <;> simp [isDictV] at hd
      exact ⟨_, _, rfl⟩
    simp only [dictKvs] at hkids ⊢
    simp only [isDictV, Bool.true_and, all_known_iff]
    by_cases hu : (cfg.failUnknown && hasUnknownKey cfg.keys kvs) = true
    · refine ⟨1, .invalid (.mk (.extraKeys cfg.keys) (.dict oid kvs) vid []), [], ?_, by simp [Out.verdict, hu]⟩
      simp [run, recordStep, recPre, haoc, recGate_dict o cfg hco, dictItems, hu]
    · have hu' : (cfg.failUnknown && hasUnknownKey cfg.keys kvs) = false := by simpa using hu
      obtain ⟨N, hN⟩ := common_fuel_fields o env kvs cfg.keys vs hkids
      obtain ⟨r, hr, hrn, hre⟩ := recLoop_decided o env N vid (.dict oid kvs) kvs cfg.keys cfg.reqs vs hN
      have hpre : recPre o .sync vid cfg (.dict oid kvs) = .inr (.dict oid kvs, kvs, []) := by
        simp [recPre, haoc, recGate_dict o cfg hco, dictItems, hu']
      refine ⟨N + 1, (recFinish .sync vid cfg (.dict oid kvs) [] r).1, (recFinish .sync vid cfg (.dict oid kvs) [] r).2, ?_, ?_⟩
      · simp only [run]
        rw [recordStep_inr hpre, hr]
        rfl
      · simp only [recFinish, hrn, hu', Bool.not_false, Bool.true_and]
        rw [← hre]
        cases he : r.ks.isEmpty <;> simp [he, Out.verdict, runObjCheck, runAObjCheck, hoc, haoc]
  · have hd' : isDictV x = false := by simpa using hd
    obtain ⟨k, hk⟩ := recGate_nondict o cfg hco x hj hd'
    exact ⟨1, .invalid (.mk k x vid []), [], by simp [run, recordStep, recPre, haoc, hk], by simp [Out.verdict, hd']⟩



/-- the schema of `EqualsValidator(m)` is the schema of the scalar validator of `m`'s type with `EqualTo(m)` -/
theorem equals_schema_eq (pr : Printer) (cx : RefCtx) (vid pid : Nat) (m : PyVal) (t : String) (ht : typeName m.ty = some t) :
    toSchema pr cx [] [] (.equals vid m [] pid) =
      toSchema pr cx [] [] (.scalar vid m.ty none [] [⟨pid, .equalTo m⟩] []) := by
  simp only [toSchema, List.contains_nil, Bool.false_eq_true, if_false, baseSchema_frag m.ty t ht, bind, Except.bind,
    List.append_nil, predsSchema]
  cases hp : predSchema pr (.equalTo m) with
  | error e => rfl
  | ok po =>
    simp only
    obtain ⟨h1, _, _, _, _, _⟩ := predSchema_keys pr (.equalTo m) po hp
    have hfresh : ∀ p ∈ po, hasKey [(kw "type", J.str (kw t))] p.1 = false := by
      intro p hp'
      simp only [hasKey, List.any_cons, List.any_nil, Bool.or_false]
      apply Bool.eq_false_iff.2
      intro hh
      have : hasKey po (kw "type") = true := by
        simp only [hasKey, List.any_eq_true]
        exact ⟨p, hp', by rw [Bool.beq_comm]; exact hh⟩
      simp [this] at h1
    rw [jaddPred_noclash _ _ hfresh]


/-- the schemas `js` of the variants `vs` decide, one by one, what the variants accept -/
def SchemasDecide (A : PyVal → Bool) (root : J) (ref : Option (List Nat)) : List V → List J → PyVal → Nat → Prop
  | [], [], _, _ => True
  | v :: vs, j :: js, x, N => DecidesAt root ref j N x (acc A v x) ∧ SchemasDecide A root ref vs js x N
  | _, _, _, _ => False


theorem SchemasDecide.mono {root : J} {ref : Option (List Nat)} : ∀ {vs : List V} {js : List J} {x : PyVal} {N M : Nat},
    SchemasDecide A root ref vs js x N → N ≤ M → SchemasDecide A root ref vs js x M
  | [], [], _, _, _, _, _ => trivial
  | _ :: _, _ :: _, _, _, _, h, hm => ⟨h.1.mono hm, h.2.mono hm⟩
  | [], _ :: _, _, _, _, h, _ => h.elim
  | _ :: _, [], _, _, _, h, _ => h.elim


theorem SchemasDecide.count {root : J} {ref : Option (List Nat)} (N : Nat) (x : PyVal) :
    ∀ (vs : List V) (js : List J), SchemasDecide A root ref vs js x N →
      (∀ j ∈ js, DecidesAt root ref j N x (evalSchema root ref N j x == some true)) ∧
      js.countP (fun j => evalSchema root ref N j x == some true) = countAcc A vs x
  | [], [], _ => ⟨fun j hj => by simp at hj, rfl⟩
  | v :: vs, j :: js, h => by
    obtain ⟨h1, h2⟩ := SchemasDecide.count N x vs js h.2
    have hj : (evalSchema root ref N j x == some true) = acc A v x := by
      rw [h.1 N (Nat.le_refl N)]
      cases acc A v x <;> rfl
    refine ⟨?_, ?_⟩
    · intro j' hj'
      rcases List.mem_cons.1 hj' with rfl | hj'
      · rw [hj]; exact h.1
      · exact h1 j' hj'
    · simp only [List.countP_cons, hj, countAcc, h2]
      cases acc A v x <;> simp <;> omega
  | [], _ :: _, h => h.elim
  | _ :: _, [], h => h.elim


theorem accAny_eq_any (vs : List V) (x : PyVal) : accAny A vs x = vs.any (fun v => acc A v x) := by
  induction vs with
  | nil => rfl
  | cons v vs ih => simp [accAny, ih]


theorem countAcc_pos (vs : List V) (x : PyVal) : accAny A vs x = decide (0 < countAcc A vs x) := by
  induction vs with
  | nil => rfl
  | cons v vs ih =>
    simp only [accAny, countAcc, ih]
    by_cases ha : acc A v x = true
    · simp [ha]; omega
    · have ha' : acc A v x = false := by simpa using ha
      simp [ha']


theorem countAcc_one (vs : List V) (x : PyVal) (h : countAcc A vs x ≤ 1) : (countAcc A vs x == 1) = accAny A vs x := by
  rw [countAcc_pos]
  have : countAcc A vs x = 0 ∨ countAcc A vs x = 1 := by omega
  rcases this with h0 | h0 <;> simp [h0]



/-- what the whole-tree theorem says of one tree -/
def TreeOK (A O : PyVal → Bool) (L : Nat) (ctx : RefCtx) (Bd : PyVal → Prop) (pr : Printer) (o : Oracle) (env : Nat → V) (root : J) (v : V) : Prop :=
  ∀ (x : PyVal), isJson x = true → Bd x → ok A O v x = true →
    VDecides o env v x (acc A v x) ∧
    ∀ j, toSchema pr ctx [] [] v = .ok j → DecidesAt root ctx j (sfuel L v) x (acc A v x)


theorem toSchemaL_spec (pr : Printer) (ctx : RefCtx) (tvs nrs : List Nat) : ∀ (vs : List V) (js : List J),
    toSchemaL pr ctx tvs nrs vs = .ok js → AllZip (fun v j => toSchema pr ctx tvs nrs v = .ok j) vs js
  | [], js, h => by simp only [toSchemaL, Except.ok.injEq] at h; subst h; exact AllZip.nil
  | v :: vs, js, h => by
    simp only [toSchemaL] at h
    cases h1 : toSchema pr ctx tvs nrs v with
    | error e => simp [h1, bind, Except.bind] at h
    | ok j =>
      cases h2 : toSchemaL pr ctx tvs nrs vs with
      | error e => simp [h1, h2, bind, Except.bind] at h
      | ok js' =>
        simp only [h1, h2, bind, Except.bind, Except.ok.injEq] at h
        subst h
        exact AllZip.cons h1 (toSchemaL_spec pr ctx tvs nrs vs js' h2)


theorem sfuel_le_sfuelL (v : V) : ∀ (vs : List V), v ∈ vs → sfuel L v ≤ sfuelL L vs
  | [], h => by simp at h
  | w :: ws, h => by
    simp only [sfuelL]
    rcases List.mem_cons.1 h with rfl | h
    · omega
    · have := sfuel_le_sfuelL v ws h; omega


theorem okAll_mem : ∀ (vs : List V) (x : PyVal), okAll A O vs x = true → ∀ v ∈ vs, ok A O v x = true
  | [], _, _, v, hv => by simp at hv
  | w :: ws, x, h, v, hv => by
    simp only [okAll, Bool.and_eq_true] at h
    rcases List.mem_cons.1 hv with rfl | hv
    · exact h.1
    · exact okAll_mem ws x h.2 v hv


theorem SchemasDecide_of_members (pr : Printer) (root : J) : ∀ (vs : List V) (js : List J) (x : PyVal) {N : Nat},
    AllZip (fun v j => toSchema pr ctx [] [] v = .ok j) vs js →
    (∀ v ∈ vs, ∀ j, toSchema pr ctx [] [] v = .ok j → DecidesAt root ctx j N x (acc A v x)) →
    SchemasDecide A root ctx vs js x N
  | [], [], _, _, _, _ => trivial
  | v :: vs, j :: js, x, N, hf, h => by
    cases hf with
    | cons h1 h2 =>
      exact ⟨h v (by simp) j h1, SchemasDecide_of_members pr root vs js x h2 (fun w hw => h w (by simp [hw]))⟩
  | [], _ :: _, _, _, hf, _ => by cases hf
  | _ :: _, [], _, _, hf, _ => by cases hf



theorem okZip_nil (fs : List V) : okZip A O fs [] = true := by cases fs <;> rfl


/-- the schemas of the fields decide, position by position, what the fields accept -/
theorem zip_decides (pr : Printer) (o : Oracle) (env : Nat → V) (root : J) (N : Nat) :
    ∀ (fs : List V) (items : List J) (ys : List PyVal),
      AllZip (fun v j => toSchema pr ctx [] [] v = .ok j) fs items → (∀ v ∈ fs, TreeOK A O L ctx Bd pr o env root v) →
      okZip A O fs ys = true → (∀ y ∈ ys, isJson y = true) → (∀ y ∈ ys, Bd y) → sfuelL L fs ≤ N →
      (∀ p ∈ items.zip ys, DecidesAt root ctx p.1 N p.2 (evalSchema root ctx N p.1 p.2 == some true)) ∧
      (items.zip ys).all (fun p => evalSchema root ctx N p.1 p.2 == some true) = accZip A fs ys ∧
      (∀ p ∈ fs.zip ys, VDecides o env p.1 p.2 (acc A p.1 p.2))
  | [], [], ys, _, _, _, _, _, _ => ⟨fun p hp => by simp at hp, by simp [accZip], fun p hp => by simp at hp⟩
  | v :: vs, j :: js, [], _, _, _, _, _, _ => ⟨fun p hp => by simp at hp, by simp [accZip], fun p hp => by simp at hp⟩
  | v :: vs, j :: js, y :: ys, .cons hj hrest, hmem, hok, hjs, hbd, hN => by
    simp only [okZip, Bool.and_eq_true] at hok
    simp only [sfuelL] at hN
    obtain ⟨h1, h2, h3⟩ := zip_decides pr o env root N vs js ys hrest (fun w hw => hmem w (by simp [hw])) hok.2
      (fun z hz => hjs z (by simp [hz])) (fun z hz => hbd z (by simp [hz])) (by omega)
    obtain ⟨hv, hs⟩ := hmem v (by simp) y (hjs y (by simp)) (hbd y (by simp)) hok.1
    have hd : DecidesAt root ctx j N y (acc A v y) := (hs j hj).mono (by omega)
    have hg : (evalSchema root ctx N j y == some true) = acc A v y := by
      rw [hd N (Nat.le_refl N)]; cases acc A v y <;> rfl
    refine ⟨?_, ?_, ?_⟩
    · intro p hp
      simp only [List.zip_cons_cons, List.mem_cons] at hp
      rcases hp with rfl | hp
      · simp only []; rw [hg]; exact hd
      · exact h1 p hp
    · simp only [List.zip_cons_cons, List.all_cons, accZip, hg, h2]
    · intro p hp
      simp only [List.zip_cons_cons, List.mem_cons] at hp
      rcases hp with rfl | hp
      · exact hv
      · exact h3 p hp



theorem foldl_jset_nodup : ∀ (ts : List (List Nat)) (js : List J) (acc0 : JObj), textsNodup ts = true →
    (∀ t ∈ ts, hasKey acc0 t = false) →
    (ts.zip js).foldl (fun acc p => jset acc p.1 p.2) acc0 = acc0 ++ ts.zip js
  | [], _, acc0, _, _ => by simp
  | _ :: _, [], acc0, _, _ => by simp
  | t :: ts, j :: js, acc0, hn, hd => by
    simp only [textsNodup, Bool.and_eq_true, Bool.not_eq_true'] at hn
    simp only [List.zip_cons_cons, List.foldl_cons]
    rw [jset_absent acc0 t j (hd t (by simp))]
    rw [foldl_jset_nodup ts js (acc0 ++ [(t, j)]) hn.2 (by
      intro t' ht'
      rw [hasKey_append, hd t' (by simp [ht'])]
      simp only [hasKey, List.any_cons, List.any_nil, Bool.or_false, Bool.false_or]
      apply Bool.eq_false_iff.2
      intro hh
      have : t = t' := by simpa using hh
      subst this
      exact absurd ht' (by simpa using hn.1))]
    simp


/-- the field schemas agree with the field validators on the values found under their keys -/
def FieldsAgree (A : PyVal → Bool) (g : J → PyVal → Bool) (kvs : List (PyVal × PyVal)) : List (List Nat) → List V → List J → Prop
  | t :: ts, v :: vs, j :: js =>
    (∀ val, dictGet kvs (.str t) = some val → g j val = acc A v val) ∧ FieldsAgree A g kvs ts vs js
  | _, _, _ => True


theorem fields_formula (g : J → PyVal → Bool) (kvs : List (PyVal × PyVal)) :
    ∀ (ts : List (List Nat)) (rs : List Bool) (vs : List V) (js : List J),
      ts.length = vs.length → rs.length = vs.length → js.length = vs.length → FieldsAgree A g kvs ts vs js →
      ((((ts.zip rs).filter (·.2)).map (·.1)).all (fun nm => dictHas kvs (.str nm)) &&
        (ts.zip js).all (propOk g kvs)) =
      accFields A (ts.map PyVal.str) rs vs kvs
  | [], [], [], [], _, _, _, _ => rfl
  | t :: ts, r :: rs, v :: vs, j :: js, h1, h2, h3, ha => by
    have ih := fields_formula g kvs ts rs vs js (by simpa using h1) (by simpa using h2) (by simpa using h3) ha.2
    simp only [List.map_cons, accFields, ← ih, List.zip_cons_cons, List.all_cons, propOk]
    cases hg : dictGet kvs (.str t) with
    | none =>
      cases r
      · simp [List.filter, hg]
      · simp [List.filter, dictHas_get, hg]
    | some val =>
      have := ha.1 val hg
      cases r
      · simp only [List.filter, this]
        cases acc A v val <;> simp
      · simp only [List.filter, List.map_cons, List.all_cons, dictHas_get, hg, Option.isSome_some, Bool.true_and, this]
        cases acc A v val <;> simp
  | [], _ :: _, _, _, _, h2, _, _ => by cases ‹List V› <;> simp at *
  | _ :: _, [], _, _, h1, h2, _, _ => by cases ‹List V› <;> simp at *
  | [], [], _ :: _, _, h1, _, _, _ => by simp at h1
  | [], [], [], _ :: _, _, _, h3, _ => by simp at h3
  | _ :: _, _ :: _, [], _, h1, _, _, _ => by simp at h1
  | _ :: _, _ :: _, _ :: _, [], _, _, h3, _ => by simp at h3



/-- from the members' `TreeOK`: agreement of field schemas and field validators on the values found
    under their keys, decidedness of the field schemas there, decidedness of the field validators there -/
theorem fields_decide (pr : Printer) (o : Oracle) (env : Nat → V) (root : J) (N : Nat) (kvs : List (PyVal × PyVal))
    (hjv : ∀ p ∈ kvs, isJson p.2 = true) (hbd : ∀ p ∈ kvs, Bd p.2) :
    ∀ (ts : List (List Nat)) (vs : List V) (js : List J),
      AllZip (fun v j => toSchema pr ctx [] [] v = .ok j) vs js → (∀ v ∈ vs, TreeOK A O L ctx Bd pr o env root v) →
      okFields A O (ts.map PyVal.str) vs kvs = true → sfuelL L vs ≤ N →
      FieldsAgree A (fun j y => evalSchema root ctx N j y == some true) kvs ts vs js ∧
      (∀ p ∈ ts.zip js, ∀ val, dictGet kvs (.str p.1) = some val →
        DecidesAt root ctx p.2 N val (evalSchema root ctx N p.2 val == some true)) ∧
      (∀ p ∈ (ts.map PyVal.str).zip vs, ∀ xv, dictGet kvs p.1 = some xv → VDecides o env p.2 xv (acc A p.2 xv))
  | [], vs, js, _, _, _, _ => ⟨by cases vs <;> cases js <;> simp [FieldsAgree], fun p hp => by simp at hp, fun p hp => by simp at hp⟩
  | t :: ts, [], [], _, _, _, _ => ⟨by simp [FieldsAgree], fun p hp => by simp at hp, fun p hp => by simp at hp⟩
  | t :: ts, v :: vs, j :: js, .cons hj hrest, hmem, hok, hN => by
    simp only [List.map_cons, okFields, Bool.and_eq_true] at hok
    simp only [sfuelL] at hN
    obtain ⟨h1, h2, h3⟩ := fields_decide pr o env root N kvs hjv hbd ts vs js hrest (fun w hw => hmem w (by simp [hw])) hok.2 (by omega)
    have hval : ∀ val, dictGet kvs (.str t) = some val →
        VDecides o env v val (acc A v val) ∧ DecidesAt root ctx j N val (acc A v val) := by
      intro val hg
      obtain ⟨p, hp, hpv⟩ := dictGet_mem kvs _ _ hg
      have hjs : isJson val = true := by rw [← hpv]; exact hjv p hp
      have hokv : ok A O v val = true := by simpa [hg] using hok.1
      have hbv : Bd val := by rw [← hpv]; exact hbd p hp
      obtain ⟨hv, hs⟩ := hmem v (by simp) val hjs hbv hokv
      exact ⟨hv, (hs j hj).mono (by omega)⟩
    have hgv : ∀ val, dictGet kvs (.str t) = some val → (evalSchema root ctx N j val == some true) = acc A v val := by
      intro val hg
      rw [(hval val hg).2 N (Nat.le_refl N)]
      cases acc A v val <;> rfl
    refine ⟨⟨hgv, h1⟩, ?_, ?_⟩
    · intro p hp val hg
      simp only [List.zip_cons_cons, List.mem_cons] at hp
      rcases hp with rfl | hp
      · simp only [] at hg ⊢
        rw [hgv val hg]
        exact (hval val hg).2
      · exact h2 p hp val hg
    · intro p hp xv hg
      simp only [List.map_cons, List.zip_cons_cons, List.mem_cons] at hp
      rcases hp with rfl | hp
      · exact (hval xv hg).1
      · exact h3 p hp xv hg


/-- the values a subtree may be applied to, in terms of the budget `B` of the named validator: anything of size
    `≤ B` at an unguarded position (the root), of size `< B` once a container has been entered -/
def BdP (B : Nat) (gd : Bool) (x : PyVal) : Prop := sizeOf x < B + (if gd then 0 else 1)


theorem BdP_child {B : Nat} {gd : Bool} {x y : PyVal} (h : BdP B gd x) (hlt : sizeOf y < sizeOf x) : BdP B true y := by
  unfold BdP at *
  cases gd <;> simp at h ⊢ <;> omega


theorem sizeOf_list_item (oid : Nat) (xs : List PyVal) (y : PyVal) (hy : y ∈ xs) : sizeOf y < sizeOf (PyVal.list oid xs) := by
  have := List.sizeOf_lt_of_mem hy
  simp only [PyVal.list.sizeOf_spec]
  omega


theorem sizeOf_dict_val (oid : Nat) (kvs : List (PyVal × PyVal)) (p : PyVal × PyVal) (hp : p ∈ kvs) :
    sizeOf p.2 < sizeOf (PyVal.dict oid kvs) := by
  have := List.sizeOf_lt_of_mem hp
  have h2 : sizeOf p = 1 + sizeOf p.1 + sizeOf p.2 := by cases p; simp
  simp only [PyVal.dict.sizeOf_spec]
  omega


mutual
/-- **C11 for whole trees, partial**: for every tree of the fragment (any depth, any width), every JSON
    value `x` and under the side conditions `ok v x`, the validator terminates with verdict `acc v x`, and
    the generated schema, from fuel `sfuel v` on, evaluates to `acc v x` as well — so the schema accepts
    `x` iff the validator does.  (`_partial`: `ok` contains the agreement conditions that the code
    violates in findings D13, D14, D15; maps, records, tuples and named recursion are not covered.) -/
theorem C11_tree_partial (pr : Printer) (o : Oracle) (env : Nat → V) (root : J) (B : Nat)
    (HL : ∀ vid y, isJson y = true → sizeOf y < B → O y = true →
      VDecides o env (.lazy vid 0) y (A y) ∧
      ∀ j, toSchema pr ctx [] [] (.lazy vid 0) = .ok j → DecidesAt root ctx j (max L 2) y (A y)) :
    ∀ (v : V) (gd : Bool), frag gd v = true → TreeOK A O L ctx (BdP B gd) pr o env root v
  | .scalar vid tg c pre ps aps, gd, hf, x, _, hbx, hok => by
    simp only [frag, Bool.and_eq_true, Option.isSome_iff_exists, Option.isNone_iff_eq_none, List.isEmpty_iff] at hf
    obtain ⟨⟨⟨⟨t, ht⟩, rfl⟩, rfl⟩, rfl⟩ := hf
    have hchk : x.ty = tg → ∀ p ∈ ps, predCheck p.k x = true := by
      intro hty p hp
      simp only [ok, hty, decide_true, Bool.not_true, Bool.false_or, List.all_eq_true] at hok
      exact hok p hp
    refine ⟨node_scalar_validator o env vid tg ps x hchk, ?_⟩
    intro j hj
    exact C11_scalar_schema pr root ctx ctx [] vid tg t ht none [] ps j hj x
      (fun hty p hp => predCheck_PredOK pr root ctx p.k x (hchk hty p hp))
  | .list vid item ps aps c, gd, hf, x, hx, hbx, hok => by
    simp only [frag, Bool.and_eq_true, Option.isNone_iff_eq_none, List.isEmpty_iff] at hf
    obtain ⟨⟨rfl, rfl⟩, hfi⟩ := hf
    have hchk : isListV x = true → (∀ p ∈ ps, predCheck p.k x = true) ∧ ∀ y ∈ listItems x, ok A O item y = true := by
      intro hl
      simp only [ok, hl, Bool.not_true, Bool.false_or, Bool.and_eq_true, List.all_eq_true] at hok
      exact hok
    have hjson : ∀ y ∈ listItems x, isJson y = true := by
      intro y hy
      cases x <;> simp [listItems] at hy
      rename_i oid xs
      exact isJson_items oid xs hx y hy
    have hkids : ∀ y ∈ listItems x, VDecides o env item y (acc A item y) ∧
        ∀ j, toSchema pr ctx [] [] item = .ok j → DecidesAt root ctx j (sfuel L item) y (acc A item y) := by
      intro y hy
      have hl : isListV x = true := by cases x <;> simp [listItems] at hy <;> rfl
      have hby : BdP B true y := by
        cases x <;> simp [listItems] at hy
        exact BdP_child hbx (sizeOf_list_item _ _ y hy)
      exact C11_tree_partial pr o env root B HL item true hfi y (hjson y hy) hby ((hchk hl).2 y hy)
    refine ⟨?_, ?_⟩
    · have := node_list_validator o env vid item ps x (fun y => acc A item y) (fun hl => (hchk hl).1)
        (fun y hy => (hkids y hy).1)
      simpa [acc] using this
    · intro j hj
      simp only [toSchema] at hj
      cases hi : toSchema pr ctx [] [] item with
      | error e => simp [hi, bind, Except.bind] at hj
      | ok it =>
        rw [List.append_nil] at hj
        cases hp : predsSchema pr [(kw "type", .str (kw "array")), (kw "items", it)] ps with
        | error e => simp [hi, hp, bind, Except.bind] at hj
        | ok ob =>
          simp only [hi, hp, bind, Except.bind, Except.ok.injEq] at hj
          subst hj
          have := C11_list_schema pr root ctx it ps ob hp x (fun y => acc A item y) (sfuel L item)
            (fun y hy => (hkids y hy).2 it hi)
            (fun hl p hpm => predCheck_PredOK pr root ctx p.k x ((hchk hl).1 p hpm))
          simpa [acc, sfuel] using this
  | .union vid vs, gd, hf, x, hx, hbx, hok => by
    simp only [frag] at hf
    simp only [ok, Bool.and_eq_true, decide_eq_true_eq] at hok
    obtain ⟨hall, hone⟩ := hok
    have hmem : ∀ v ∈ vs, TreeOK A O L ctx (BdP B gd) pr o env root v := (C11_tree_partialL pr o env root B HL vs gd hf).mem
    have hokv : ∀ v ∈ vs, ok A O v x = true := okAll_mem vs x hall
    refine ⟨?_, ?_⟩
    · have := node_union_validator o env vid vs x (fun v => acc A v x) (fun v hv => (hmem v hv x hx hbx (hokv v hv)).1)
      simpa [acc, accAny_eq_any] using this
    · intro j hj
      simp only [toSchema] at hj
      cases hi : toSchemaL pr ctx [] [] vs with
      | error e => simp [hi, bind, Except.bind] at hj
      | ok js =>
        simp only [hi, bind, Except.bind, Except.ok.injEq] at hj
        subst hj
        have hsd : SchemasDecide A root ctx vs js x (sfuelL L vs) :=
          SchemasDecide_of_members pr root vs js x (toSchemaL_spec pr ctx [] [] vs js hi)
            (fun v hv j hj => ((hmem v hv x hx hbx (hokv v hv)).2 j hj).mono (sfuel_le_sfuelL v vs hv))
        obtain ⟨hg, hc⟩ := SchemasDecide.count (sfuelL L vs) x vs js hsd
        have := C11_union_schema root ctx js _ (sfuelL L vs) x hg
        rw [hc, countAcc_one vs x hone] at this
        simpa [acc, sfuel] using this
  | .optional vid nv inner, gd, hf, x, hx, hbx, hok => by
    simp only [frag, Bool.and_eq_true] at hf
    obtain ⟨hnv, hfi⟩ := hf
    obtain ⟨nvid, rfl⟩ : ∃ nvid, nv = .noneV nvid none := by
      cases nv <;> simp [isDefaultNone] at hnv
      rename_i a c
      cases c <;> simp [isDefaultNone] at hnv
      exact ⟨a, rfl⟩
    by_cases hn : isNoneV x = true
    · -- `None`: accepted by both sides whatever the inner validator says
      refine ⟨?_, ?_⟩
      · have hx0 : x = .none := by cases x <;> simp [isNoneV] at hn; rfl
        subst hx0
        refine ⟨2, .valid .none, [], ?_, by simp [Out.verdict, acc, isNoneV]⟩
        rw [C05_optional_run]
        simp [unionStep, unionLoop, run, noneStep]
      · intro j hj
        simp only [toSchema] at hj
        cases hi : toSchema pr ctx [] [] inner with
        | error e => simp [hi, bind, Except.bind] at hj
        | ok it =>
          simp only [hi, bind, Except.bind] at hj
          cases it with
          | obj ob =>
            simp only [Except.ok.injEq] at hj
            subst hj
            have := C11_optional_schema root ctx ob (sfuel L inner) x false (fun h => by simp [hn] at h)
            simpa [acc, sfuel, hn] using this
          | _ => simp at hj
    · have hn' : isNoneV x = false := by simpa using hn
      have hoki : ok A O inner x = true := by simpa [ok, hn'] using hok
      obtain ⟨hv, hs⟩ := C11_tree_partial pr o env root B HL inner gd hfi x hx hbx hoki
      refine ⟨?_, ?_⟩
      · have := node_optional_validator o env vid nvid inner x _ hv
        simpa [acc] using this
      · intro j hj
        simp only [toSchema] at hj
        cases hi : toSchema pr ctx [] [] inner with
        | error e => simp [hi, bind, Except.bind] at hj
        | ok it =>
          simp only [hi, bind, Except.bind] at hj
          cases it with
          | obj ob =>
            simp only [Except.ok.injEq] at hj
            subst hj
            have := C11_optional_schema root ctx ob (sfuel L inner) x (acc A inner x) (fun _ => hs _ hi)
            simpa [acc, sfuel] using this
          | _ => simp at hj
  | .equals vid m pre pid, gd, hf, x, _, hbx, _ => by
    simp only [frag, Bool.and_eq_true, List.isEmpty_iff, Option.isSome_iff_exists] at hf
    obtain ⟨rfl, t, ht⟩ := hf
    refine ⟨by simpa [acc] using node_equals_validator o env vid pid m x t ht, ?_⟩
    intro j hj
    rw [equals_schema_eq pr ctx vid pid m t ht] at hj
    have := C11_scalar_schema pr root ctx ctx [] vid m.ty t ht none [] [⟨pid, .equalTo m⟩] j hj x
      (fun hty p hp => by
        simp only [List.mem_cons, List.mem_nil_iff, or_false] at hp
        subst hp
        exact PredOK_equalTo pr root ctx m x (sameKind_of_ty m x t ht hty))
    simpa [acc, sfuel, DecidesAt] using this
  | .noneV .., gd, hf, _, _, _, _ => by simp [frag] at hf
  | .always _, gd, hf, _, _, _, _ => by simp [frag] at hf
  | .isDict _, gd, hf, _, _, _, _ => by simp [frag] at hf
  | .set .., gd, hf, _, _, _, _ => by simp [frag] at hf
  | .utuple vid item ps aps c, gd, hf, x, hx, hbx, hok => by
    simp only [frag, Bool.and_eq_true, List.isEmpty_iff] at hf
    obtain ⟨⟨hc, rfl⟩, hfi⟩ := hf
    obtain rfl : c = some .dflt := by
      cases c with
      | none => simp [isDfltCoerce] at hc
      | some k => cases k <;> simp [isDfltCoerce] at hc; rfl
    have hchk : isListV x = true → (∀ p ∈ ps, predCheck p.k x = true) ∧ ∀ y ∈ listItems x, ok A O item y = true := by
      intro hl
      simp only [ok, hl, Bool.not_true, Bool.false_or, Bool.and_eq_true, List.all_eq_true] at hok
      exact hok
    have hjson : ∀ y ∈ listItems x, isJson y = true := by
      intro y hy
      cases x <;> simp [listItems] at hy
      rename_i oid xs
      exact isJson_items oid xs hx y hy
    have hkids : ∀ y ∈ listItems x, VDecides o env item y (acc A item y) ∧
        ∀ j, toSchema pr ctx [] [] item = .ok j → DecidesAt root ctx j (sfuel L item) y (acc A item y) := by
      intro y hy
      have hl : isListV x = true := by cases x <;> simp [listItems] at hy <;> rfl
      have hby : BdP B true y := by
        cases x <;> simp [listItems] at hy
        exact BdP_child hbx (sizeOf_list_item _ _ y hy)
      exact C11_tree_partial pr o env root B HL item true hfi y (hjson y hy) hby ((hchk hl).2 y hy)
    refine ⟨?_, ?_⟩
    · have := node_utuple_validator o env vid item ps x (fun y => acc A item y) hx (fun hl => (hchk hl).1)
        (fun y hy => (hkids y hy).1)
      simpa [acc] using this
    · intro j hj
      simp only [toSchema] at hj
      cases hi : toSchema pr ctx [] [] item with
      | error e => simp [hi, bind, Except.bind] at hj
      | ok it =>
        rw [List.append_nil] at hj
        cases hp : predsSchema pr [(kw "type", .str (kw "array")), (kw "items", it)] ps with
        | error e => simp [hi, hp, bind, Except.bind] at hj
        | ok ob =>
          simp only [hi, hp, bind, Except.bind, Except.ok.injEq] at hj
          subst hj
          have := C11_list_schema pr root ctx it ps ob hp x (fun y => acc A item y) (sfuel L item)
            (fun y hy => (hkids y hy).2 it hi)
            (fun hl p hpm => predCheck_PredOK pr root ctx p.k x ((hchk hl).1 p hpm))
          simpa [acc, sfuel] using this
  | .ntuple vid fs oc c lp, gd, hf, x, hx, hbx, hok => by
    simp only [frag, Bool.and_eq_true, Option.isNone_iff_eq_none] at hf
    obtain ⟨⟨rfl, hc⟩, hfl⟩ := hf
    obtain rfl : c = some .dflt := by
      cases c with
      | none => simp [isDfltCoerce] at hc
      | some k => cases k <;> simp [isDfltCoerce] at hc; rfl
    have hmem : ∀ v ∈ fs, TreeOK A O L ctx (BdP B true) pr o env root v := (C11_tree_partialL pr o env root B HL fs true hfl).mem
    have hokz : okZip A O fs (listItems x) = true := by
      by_cases hl : isListV x = true
      · simpa [ok, hl] using hok
      · have : listItems x = [] := by cases x <;> simp [isListV] at hl <;> rfl
        rw [this]; exact okZip_nil fs
    have hjs : ∀ y ∈ listItems x, isJson y = true := by
      intro y hy
      cases x <;> simp [listItems] at hy
      rename_i oid xs
      exact isJson_items oid xs hx y hy
    have hbs : ∀ y ∈ listItems x, BdP B true y := by
      intro y hy
      cases x <;> simp [listItems] at hy
      exact BdP_child hbx (sizeOf_list_item _ _ y hy)
    refine ⟨?_, ?_⟩
    · -- validator side needs the children decided; take them from `zip_decides` once schemas exist, or directly
      have hkids : ∀ p ∈ fs.zip (listItems x), VDecides o env p.1 p.2 (acc A p.1 p.2) := by
        have : ∀ (fs' : List V) (ys : List PyVal), (∀ v ∈ fs', TreeOK A O L ctx (BdP B true) pr o env root v) → okZip A O fs' ys = true →
            (∀ y ∈ ys, isJson y = true) → (∀ y ∈ ys, BdP B true y) → ∀ p ∈ fs'.zip ys, VDecides o env p.1 p.2 (acc A p.1 p.2) := by
          intro fs'
          induction fs' with
          | nil => intro ys _ _ _ _ p hp; simp at hp
          | cons v vs ih =>
            intro ys hm hz hj hb p hp
            cases ys with
            | nil => simp at hp
            | cons y ys =>
              simp only [okZip, Bool.and_eq_true] at hz
              simp only [List.zip_cons_cons, List.mem_cons] at hp
              rcases hp with rfl | hp
              · exact (hm v (by simp) y (hj y (by simp)) (hb y (by simp)) hz.1).1
              · exact ih ys (fun w hw => hm w (by simp [hw])) hz.2 (fun z hz' => hj z (by simp [hz']))
                  (fun z hz' => hb z (by simp [hz'])) p hp
        exact this fs (listItems x) hmem hokz hjs hbs
      have := node_ntuple_validator o env vid lp fs x hx hkids
      simpa [acc] using this
    · intro j hj
      simp only [toSchema] at hj
      cases hi : toSchemaL pr ctx [] [] fs with
      | error e => simp [hi, bind, Except.bind] at hj
      | ok items =>
        simp only [hi, bind, Except.bind, Except.ok.injEq] at hj
        subst hj
        have hz := toSchemaL_spec pr ctx [] [] fs items hi
        have hlen : fs.length = items.length := hz.length
        obtain ⟨h1, h2, _⟩ := zip_decides pr o env root (sfuelL L fs) fs items (listItems x) hz hmem hokz hjs hbs (Nat.le_refl _)
        have := C11_ntuple_schema root ctx items (fun j y => evalSchema root ctx (sfuelL L fs) j y == some true)
          (sfuelL L fs) x h1
        rw [h2, ← hlen] at this
        simpa [acc, sfuel, ntupleObj, hlen] using this
  | .map vid kv vv ps aps c, gd, hf, x, hx, hbx, hok => by
    simp only [frag, Bool.and_eq_true, Option.isNone_iff_eq_none, List.isEmpty_iff] at hf
    obtain ⟨⟨⟨rfl, rfl⟩, hkv⟩, hfv⟩ := hf
    have hjd : (∀ p ∈ dictKvs x, ∃ nm, p.1 = .str nm) ∧ ∀ p ∈ dictKvs x, isJson p.2 = true := by
      cases x with
      | dict oid kvs => exact isJson_dict oid kvs hx
      | _ => exact ⟨fun p hp => by simp [dictKvs] at hp, fun p hp => by simp [dictKvs] at hp⟩
    have hchk : isDictV x = true → (∀ p ∈ ps, predCheck p.k x = true) ∧ ∀ p ∈ dictKvs x, ok A O vv p.2 = true := by
      intro hd
      simp only [ok, hd, Bool.not_true, Bool.false_or, Bool.and_eq_true, List.all_eq_true] at hok
      exact hok
    have hkids : ∀ p ∈ dictKvs x, VDecides o env vv p.2 (acc A vv p.2) ∧
        ∀ j, toSchema pr ctx [] [] vv = .ok j → DecidesAt root ctx j (sfuel L vv) p.2 (acc A vv p.2) := by
      intro p hp
      have hd : isDictV x = true := by cases x <;> simp [dictKvs] at hp <;> rfl
      have hbp : BdP B true p.2 := by
        cases x <;> simp [dictKvs] at hp
        exact BdP_child hbx (sizeOf_dict_val _ _ p hp)
      exact C11_tree_partial pr o env root B HL vv true hfv p.2 (hjd.2 p hp) hbp ((hchk hd).2 p hp)
    refine ⟨?_, ?_⟩
    · have := node_map_validator o env vid kv vv ps x (fun y => acc A vv y) hkv hjd.1 (fun hd => (hchk hd).1)
        (fun p hp => (hkids p hp).1)
      simpa [acc] using this
    · intro j hj
      simp only [toSchema] at hj
      cases hi : toSchema pr ctx [] [] vv with
      | error e => simp [hi, bind, Except.bind] at hj
      | ok it =>
        rw [List.append_nil] at hj
        cases hp : predsSchema pr [(kw "type", .str (kw "object")), (kw "additionalProperties", it)] ps with
        | error e => simp [hi, hp, bind, Except.bind] at hj
        | ok ob =>
          simp only [hi, hp, bind, Except.bind, Except.ok.injEq] at hj
          subst hj
          have := C11_map_schema pr root ctx it ps ob hp x (fun y => acc A vv y) (sfuel L vv) hjd.1
            (fun p hpm => (hkids p hpm).2 it hi)
            (fun hd p hpm => predCheck_PredOK pr root ctx p.k x ((hchk hd).1 p hpm))
          simpa [acc, sfuel] using this
  | .record vid cfg vs, gd, hf, x, hx, hbx, hok => by
    simp only [frag, Bool.and_eq_true] at hf
    obtain ⟨hcfg, hfl⟩ := hf
    simp only [recCfgOK, Bool.and_eq_true, Option.isNone_iff_eq_none, beq_iff_eq] at hcfg
    obtain ⟨⟨⟨⟨⟨hoc, haoc⟩, hco⟩, hkeys⟩, hlk⟩, hlr⟩ := hcfg
    cases hkt : keyTexts cfg.keys with
    | none => simp [hkt] at hkeys
    | some ts =>
      have hnd : textsNodup ts = true := by simpa [hkt] using hkeys
      have hks : cfg.keys = ts.map PyVal.str := keyTexts_spec _ _ hkt
      have hlt : ts.length = vs.length := by rw [← hlk, hks]; simp
      have hmem : ∀ v ∈ vs, TreeOK A O L ctx (BdP B true) pr o env root v := (C11_tree_partialL pr o env root B HL vs true hfl).mem
      have hjd : (∀ p ∈ dictKvs x, ∃ nm, p.1 = .str nm) ∧ ∀ p ∈ dictKvs x, isJson p.2 = true := by
        cases x with
        | dict oid kvs => exact isJson_dict oid kvs hx
        | _ => exact ⟨fun p hp => by simp [dictKvs] at hp, fun p hp => by simp [dictKvs] at hp⟩
      have hokf : okFields A O (ts.map PyVal.str) vs (dictKvs x) = true := by simpa [ok, hks] using hok
      have hbd : ∀ p ∈ dictKvs x, BdP B true p.2 := by
        intro p hp
        cases x <;> simp [dictKvs] at hp
        exact BdP_child hbx (sizeOf_dict_val _ _ p hp)
      refine ⟨?_, ?_⟩
      · -- validator side: the children are decided wherever their key is present
        have hkids : ∀ p ∈ cfg.keys.zip vs, ∀ xv, dictGet (dictKvs x) p.1 = some xv → VDecides o env p.2 xv (acc A p.2 xv) := by
          -- no schema needed here: re-derive from `TreeOK` directly
          have : ∀ (ts' : List (List Nat)) (vs' : List V), (∀ v ∈ vs', TreeOK A O L ctx (BdP B true) pr o env root v) →
              okFields A O (ts'.map PyVal.str) vs' (dictKvs x) = true →
              ∀ p ∈ (ts'.map PyVal.str).zip vs', ∀ xv, dictGet (dictKvs x) p.1 = some xv →
                VDecides o env p.2 xv (acc A p.2 xv) := by
            intro ts'
            induction ts' with
            | nil => intro vs' _ _ p hp; simp at hp
            | cons t ts' ih =>
              intro vs' hm hz p hp xv hg
              cases vs' with
              | nil => simp at hp
              | cons v vs' =>
                simp only [List.map_cons, okFields, Bool.and_eq_true] at hz
                simp only [List.map_cons, List.zip_cons_cons, List.mem_cons] at hp
                rcases hp with rfl | hp
                · obtain ⟨q, hq, hqv⟩ := dictGet_mem _ _ _ hg
                  have hjs : isJson xv = true := by rw [← hqv]; exact hjd.2 q hq
                  have hokv : ok A O v xv = true := by simpa [hg] using hz.1
                  have hbv : BdP B true xv := by rw [← hqv]; exact hbd q hq
                  exact (hm v (by simp) xv hjs hbv hokv).1
                · exact ih vs' (fun w hw => hm w (by simp [hw])) hz.2 p hp xv hg
          rw [hks]
          exact this ts vs hmem hokf
        have := node_record_validator o env vid cfg vs x hx hoc haoc hco hkids
        simpa [acc] using this
      · intro j hj
        simp only [toSchema] at hj
        cases hi : toSchemaL pr ctx [] [] vs with
        | error e => simp [hi, bind, Except.bind] at hj
        | ok js =>
          have hz := toSchemaL_spec pr ctx [] [] vs js hi
          have hlj : js.length = vs.length := hz.length.symm
          simp only [hi, bind, Except.bind, hks, labelsText_strs] at hj
          rw [foldl_jset_nodup ts js [] hnd (fun t _ => rfl)] at hj
          simp only [List.nil_append, Except.ok.injEq] at hj
          subst hj
          obtain ⟨hag, hprops, _⟩ := fields_decide pr o env root (max (sfuelL L vs) 1) (dictKvs x) hjd.2 hbd ts vs js hz hmem hokf
            (Nat.le_max_left _ _)
          have hrec := C11_record_schema root ctx cfg.failUnknown
            (if cfg.kind = .typeddict then sortTexts (((ts.zip cfg.reqs).filter (·.2)).map (·.1))
             else ((ts.zip cfg.reqs).filter (·.2)).map (·.1))
            (ts.zip js) (fun j y => evalSchema root ctx (max (sfuelL L vs) 1) j y == some true)
            (max (sfuelL L vs) 1) (Nat.le_max_right _ _) x hjd.1 hprops
          -- rewrite the decided formula into `acc`
          have hfst : (ts.zip js).map (·.1) = ts := zip_map_fst ts js (by omega)
          have hknown : (dictKvs x).all (knownOrAllowed ((ts.zip js).map (·.1)) cfg.failUnknown) =
              (dictKvs x).all (fun p => memL p.1 cfg.keys || !cfg.failUnknown) := by
            apply all_congr_mem
            intro p hp
            obtain ⟨nm, hnm⟩ := hjd.1 p hp
            simp only [knownOrAllowed, hnm, keyText, hfst, hks, memL_strs]
          have hreq : (if cfg.kind = .typeddict then sortTexts (((ts.zip cfg.reqs).filter (·.2)).map (·.1))
              else ((ts.zip cfg.reqs).filter (·.2)).map (·.1)).all (fun nm => dictHas (dictKvs x) (.str nm)) =
              (((ts.zip cfg.reqs).filter (·.2)).map (·.1)).all (fun nm => dictHas (dictKvs x) (.str nm)) := by
            split
            · exact sortTexts_all _ _
            · rfl
          have hfields := fields_formula (fun j y => evalSchema root ctx (max (sfuelL L vs) 1) j y == some true)
            (dictKvs x) ts cfg.reqs vs js hlt hlr hlj hag
          rw [hknown, hreq, hfields, ← hks] at hrec
          simpa [acc, sfuel, recordObj] using hrec
  | .maybe .., gd, hf, _, _, _, _ => by simp [frag] at hf
  | .lazy vid ref, gd, hf, x, hx, hbx, hok => by
    simp only [frag, Bool.and_eq_true, beq_iff_eq] at hf
    obtain ⟨rfl, rfl⟩ := hf
    have hb : sizeOf x < B := by simpa [BdP] using hbx
    have ho : O x = true := by simpa [ok] using hok
    obtain ⟨h1, h2⟩ := HL vid x hx hb ho
    exact ⟨by simpa [acc] using h1, fun j hj => by simpa [acc, sfuel] using h2 j hj⟩
  | .knr vid inner, gd, hf, x, hx, hbx, hok => by
    simp only [frag] at hf
    have hoki : ok A O inner x = true := by simpa [ok] using hok
    obtain ⟨hv, hs⟩ := C11_tree_partial pr o env root B HL inner gd hf x hx hbx hoki
    refine ⟨by simpa [acc] using node_knr_validator o env vid inner x _ hv, ?_⟩
    intro j hj
    simp only [toSchema] at hj
    simpa [acc, sfuel] using hs j hj
  | .user .., gd, hf, _, _, _, _ => by simp [frag] at hf
theorem C11_tree_partialL (pr : Printer) (o : Oracle) (env : Nat → V) (root : J) (B : Nat)
    (HL : ∀ vid y, isJson y = true → sizeOf y < B → O y = true →
      VDecides o env (.lazy vid 0) y (A y) ∧
      ∀ j, toSchema pr ctx [] [] (.lazy vid 0) = .ok j → DecidesAt root ctx j (max L 2) y (A y)) :
    ∀ (vs : List V) (gd : Bool), fragL gd vs = true → AllP (TreeOK A O L ctx (BdP B gd) pr o env root) vs
  | [], _, _ => trivial
  | w :: ws, gd, hf => by
    simp only [fragL, Bool.and_eq_true] at hf
    exact ⟨C11_tree_partial pr o env root B HL w gd hf.1, C11_tree_partialL pr o env root B HL ws gd hf.2⟩
end

/-! ### closing the recursion: induction on the size of the JSON value -/

/-- what the named validator `body` accepts among the values of size `≤ B` -/
def AccB (body : V) : Nat → PyVal → Bool
  | 0 => fun _ => false
  | B + 1 => fun x => acc (AccB body B) body x

/-- its side conditions, level by level -/
def OkB (body : V) : Nat → PyVal → Bool
  | 0 => fun _ => true
  | B + 1 => fun x => ok (AccB body B) (OkB body B) body x

/-- fuel from which the named schema is decided on values of size `≤ B` -/
def SF (body : V) : Nat → Nat
  | 0 => sfuel 0 body
  | B + 1 => sfuel (SF body B + 1) body

theorem evalKw_ref (ev : J → PyVal → Option Bool) (root : J) (ref : List Nat) (o : JObj) (y : PyVal) :
    evalKw ev root (some ref) o (kw "$ref") (.str ref) y = (if ref == ref then ev root y else none) := rfl

/-- a `$ref` to the named schema is decided one step after the named schema itself -/
theorem ref_decides (rootJ : J) (ref : List Nat) (N : Nat) (y : PyVal) (b : Bool)
    (h : DecidesAt rootJ (some ref) rootJ N y b) :
    DecidesAt rootJ (some ref) (.obj [(kw "$ref", .str ref)]) (max (N + 1) 2) y b := by
  intro n hn
  obtain ⟨n', rfl⟩ : ∃ n', n = n' + 1 := ⟨n - 1, by omega⟩
  have hN : N ≤ n' := by omega
  have := h n' hN
  have hnl : isNullable [(kw "$ref", J.str ref)] = false := rfl
  have htf : typeFails [(kw "$ref", J.str ref)] y = false := rfl
  simp only [evalSchema, hnl, htf, Bool.false_and, Bool.false_eq_true, if_false, allM, evalKw_ref, beq_self_eq_true,
    if_true, this]
  cases b <;> rfl

theorem lazy_schema (pr : Printer) (ref : List Nat) (vid : Nat) (j : J)
    (h : toSchema pr (some ref) [] [] (.lazy vid 0) = .ok j) : j = .obj [(kw "$ref", .str ref)] := by
  simp [toSchema] at h
  exact h.symm

/-- **C11 for a named recursive validator** (`Lazy` nodes referring to the named validator itself, below a
    container): for every JSON value `x`, the validator terminates on `x` and the named schema — `$ref`s
    resolved to itself — is decided on `x`, with the same verdict. -/
theorem C11_named_tree_partial (pr : Printer) (o : Oracle) (env : Nat → V) (body : V) (ref : List Nat) (rootJ : J)
    (henv : env 0 = body) (hf : frag false body = true)
    (hroot : toSchema pr (some ref) [] [] body = .ok rootJ) :
    ∀ (B : Nat) (x : PyVal), isJson x = true → sizeOf x < B + 1 → OkB body (B + 1) x = true →
      VDecides o env body x (AccB body (B + 1) x) ∧
      DecidesAt rootJ (some ref) rootJ (SF body B) x (AccB body (B + 1) x) := by
  intro B
  induction B with
  | zero =>
    intro x hx hb hok
    have HL : ∀ vid y, isJson y = true → sizeOf y < 0 → OkB body 0 y = true →
        VDecides o env (.lazy vid 0) y (AccB body 0 y) ∧
        ∀ j, toSchema pr (some ref) [] [] (.lazy vid 0) = .ok j →
          DecidesAt rootJ (some ref) j (max 0 2) y (AccB body 0 y) := by
      intro vid y _ h; omega
    obtain ⟨h1, h2⟩ := C11_tree_partial (A := AccB body 0) (O := OkB body 0) (L := 0) (ctx := some ref) pr o env rootJ 0 HL
      body false hf x hx (by simpa [BdP] using hb) (by simpa [OkB] using hok)
    exact ⟨by simpa [AccB] using h1, by simpa [AccB, SF] using h2 rootJ hroot⟩
  | succ B ih =>
    intro x hx hb hok
    have HL : ∀ vid y, isJson y = true → sizeOf y < B + 1 → OkB body (B + 1) y = true →
        VDecides o env (.lazy vid 0) y (AccB body (B + 1) y) ∧
        ∀ j, toSchema pr (some ref) [] [] (.lazy vid 0) = .ok j →
          DecidesAt rootJ (some ref) j (max (SF body B + 1) 2) y (AccB body (B + 1) y) := by
      intro vid y hy hby hoy
      obtain ⟨⟨n, out, t, hr, hv⟩, hs⟩ := ih y hy hby hoy
      refine ⟨⟨n + 1, out, t, by simp [run, henv, hr], hv⟩, ?_⟩
      intro j hj
      rw [lazy_schema pr ref vid j hj]
      exact ref_decides rootJ ref (SF body B) y _ hs
    obtain ⟨h1, h2⟩ := C11_tree_partial (A := AccB body (B + 1)) (O := OkB body (B + 1)) (L := SF body B + 1)
      (ctx := some ref) pr o env rootJ (B + 1) HL body false hf x hx (by simpa [BdP] using hb) (by simpa [OkB] using hok)
    exact ⟨by simpa [AccB] using h1, by simpa [AccB, SF] using h2 rootJ hroot⟩

/-- the headline for named recursive schemas: **the named schema accepts `x` ⇔ the validator accepts `x`** -/
theorem C11_named_iff_partial (pr : Printer) (o : Oracle) (env : Nat → V) (body : V) (ref : List Nat) (rootJ : J)
    (henv : env 0 = body) (hf : frag false body = true)
    (hroot : toSchema pr (some ref) [] [] body = .ok rootJ)
    (x : PyVal) (hx : isJson x = true) (hok : OkB body (sizeOf x + 1) x = true) :
    (∀ n, SF body (sizeOf x) ≤ n → evalSchema rootJ (some ref) n rootJ x = some true) ↔
      ∃ n w t, run o env .sync n body x = some (.valid w, t) := by
  obtain ⟨⟨n, out, t, hr, hv⟩, hs⟩ := C11_named_tree_partial pr o env body ref rootJ henv hf hroot (sizeOf x) x hx
    (Nat.lt_succ_self _) hok
  constructor
  · intro h
    have h1 := h _ (Nat.le_refl _)
    rw [hs _ (Nat.le_refl _)] at h1
    have hacc : AccB body (sizeOf x + 1) x = true := by simpa using h1
    rw [hacc] at hv
    cases out with
    | valid w => exact ⟨n, w, t, hr⟩
    | invalid e => simp [Out.verdict] at hv
    | raised e => simp [Out.verdict] at hv
  · rintro ⟨n', w, t', hr'⟩
    have : AccB body (sizeOf x + 1) x = true := by
      have h1 := run_mono_le o env .sync (Nat.le_max_left n n') body x _ hr
      have h2 := run_mono_le o env .sync (Nat.le_max_right n n') body x _ hr'
      rw [h1] at h2
      simp only [Option.some.injEq, Prod.mk.injEq] at h2
      rw [h2.1] at hv
      simpa [Out.verdict] using hv.symm
    intro m hm
    rw [hs m hm, this]

/-! ### non-vacuity: `Tree = Union[int, List[Tree]]` and a linked list `{"val": int, "next"?: Optional[Node]}` -/

/-- `Tree = Union[int, List[Tree]]` -/
def exTreeRec : V :=
  .union 1 [.scalar 2 .int none [] [] [], .list 3 (.lazy 4 0) [] [] none]

example : frag false exTreeRec = true := by decide

/-- `[1, [2, []]]` is a Tree, `[1, ["a"]]` is not (the size budget 20 is ample for both) -/
example : AccB exTreeRec 20 (.list 1 [.int 1, .list 2 [.int 2, .list 3 []]]) = true ∧
    AccB exTreeRec 20 (.list 1 [.int 1, .list 2 [.str [97]]]) = false ∧
    OkB exTreeRec 20 (.list 1 [.int 1, .list 2 [.int 2, .list 3 []]]) = true := by
  refine ⟨by decide, by decide, by decide⟩

/-- an unguarded self-reference (`Union[int, Tree]`) is outside the fragment: it would not terminate -/
example : frag false (.union 1 [.scalar 2 .int none [] [] [], .lazy 4 0]) = false := by decide

end Koda.Rec
