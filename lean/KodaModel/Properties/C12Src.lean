/-
  C12, tied to the source: `to_serializable_errs` as it stands in koda_validate/serialization/errors.py,
  translated on every run (`Generated/RenderSrc.lean`), interpreted (`KodaModel/PyRender.lean`), is the model's
  `render` — for every error node, every assignment of validator classes, every `next_level`.  And
  `pred_to_err_message` has an arm for every predicate class the library defines (`Generated/PredSrc.lean`),
  its last arm raising `TypeError`.
-/
import KodaModel.PyRender
import KodaModel.Properties.C12
import KodaModel.Generated.RenderSrc
import KodaModel.Generated.PredSrc

namespace Koda

/-- the four scalar validator classes the coercion arm names first do not coerce to a list / tuple (their
    coercers' destination is their own scalar type) -/
def RWF (cfg : RCfg) : Inv → Prop
  | .mk (.coercion _ d) _ vid _ =>
    (cfg.vcls vid = .uuid ∨ cfg.vcls vid = .decimal ∨ cfg.vcls vid = .datetime ∨ cfg.vcls vid = .date) →
      d ≠ .list ∧ d ≠ .tuple
  | _ => True

theorem src_render (cfg : RCfg) (recordVids : List Nat)
    (hrec : ∀ vid, recordVids.contains vid = (cfg.vcls vid == .dataclass || cfg.vcls vid == .namedtuple))
    (e : Inv) (hwf : RWF cfg e) :
    runRender cfg Src.toSerializableErrs e = render cfg.userPids recordVids cfg.next e := by
  obtain ⟨k, v, vid, ch⟩ := e
  cases k with
  | type t =>
    by_cases h1 : t = .dict
    · subst h1
      simp [runRender, Src.toSerializableErrs, RStmt.execL, RStmt.exec, RCond.eval, RErr.matches, RExp.eval, render, renderLeaf]
    · have e1 : (t == Ty.dict) = false := beq_false_of_ne h1
      by_cases h2 : t = .list
      · subst h2
        simp [runRender, Src.toSerializableErrs, RStmt.execL, RStmt.exec, RCond.eval, RErr.matches, RExp.eval, render, renderLeaf, e1]
      · have e2 : (t == Ty.list) = false := beq_false_of_ne h2
        by_cases h3 : t = .tuple
        · subst h3
          simp [runRender, Src.toSerializableErrs, RStmt.execL, RStmt.exec, RCond.eval, RErr.matches, RExp.eval, render, renderLeaf, e1, e2]
        · have e3 : (t == Ty.tuple) = false := beq_false_of_ne h3
          simp [runRender, Src.toSerializableErrs, RStmt.execL, RStmt.exec, RCond.eval, RErr.matches, RExp.eval, render, renderLeaf, e1, e2, e3]
  | coercion compat dest =>
    have hr := hrec vid
    simp only [RWF] at hwf
    by_cases hl : dest = .list ∨ dest = .tuple
    · have hd : (dest == Ty.list || dest == Ty.tuple) = true := by
        rcases hl with h | h <;> subst h <;> decide
      have hnot : ¬ (cfg.vcls vid = .uuid ∨ cfg.vcls vid = .decimal ∨ cfg.vcls vid = .datetime ∨ cfg.vcls vid = .date) := by
        intro hc; have := hwf hc; rcases hl with h | h <;> simp [h] at this
      simp only [not_or] at hnot
      obtain ⟨n1, n2, n3, n4⟩ := hnot
      have tl : (Ty.tuple == Ty.list) = false := by decide
      rcases hl with h | h <;> subst h <;>
        simp [runRender, Src.toSerializableErrs, RStmt.execL, RStmt.exec, RCond.eval, RErr.matches, RExp.eval, render,
          renderLeaf, n1, n2, n3, n4, tl]
    · simp only [not_or] at hl
      have e1 : (dest == Ty.list) = false := beq_false_of_ne hl.1
      have e2 : (dest == Ty.tuple) = false := beq_false_of_ne hl.2
      cases hv : cfg.vcls vid <;>
        simp [hv] at hr <;>
        simp [runRender, Src.toSerializableErrs, RStmt.execL, RStmt.exec, RCond.eval, RErr.matches, RExp.eval, render,
          renderLeaf, hv, hr, e1, e2]
  | preds pids => simp [runRender, Src.toSerializableErrs, RStmt.execL, RStmt.exec, RCond.eval, RErr.matches, RExp.eval, render, renderLeaf]
  | index idx => simp [runRender, Src.toSerializableErrs, RStmt.execL, RStmt.exec, RCond.eval, RErr.matches, RExp.eval, render]
  | keys ks => simp [runRender, Src.toSerializableErrs, RStmt.execL, RStmt.exec, RCond.eval, RErr.matches, RExp.eval, render]
  | map ks shape => simp [runRender, Src.toSerializableErrs, RStmt.execL, RStmt.exec, RCond.eval, RErr.matches, RExp.eval, render]
  | set => simp [runRender, Src.toSerializableErrs, RStmt.execL, RStmt.exec, RCond.eval, RErr.matches, RExp.eval, render]
  | union => simp [runRender, Src.toSerializableErrs, RStmt.execL, RStmt.exec, RCond.eval, RErr.matches, RExp.eval, render]
  | container =>
    match ch with
    | [] => simp [runRender, Src.toSerializableErrs, RStmt.execL, RStmt.exec, RCond.eval, RErr.matches, RExp.eval, render]
    | [c] => simp [runRender, Src.toSerializableErrs, RStmt.execL, RStmt.exec, RCond.eval, RErr.matches, RExp.eval, render]
    | _ :: _ :: _ => simp [runRender, Src.toSerializableErrs, RStmt.execL, RStmt.exec, RCond.eval, RErr.matches, RExp.eval, render]
  | extraKeys ex => simp [runRender, Src.toSerializableErrs, RStmt.execL, RStmt.exec, RCond.eval, RErr.matches, RExp.eval, render, renderLeaf]
  | missingKey => simp [runRender, Src.toSerializableErrs, RStmt.execL, RStmt.exec, RCond.eval, RErr.matches, RExp.eval, render, renderLeaf]
  | custom id => simp [runRender, Src.toSerializableErrs, RStmt.execL, RStmt.exec, RCond.eval, RErr.matches, RExp.eval, render, renderLeaf]

/-! ### the default callback: the function calling itself -/

/-- the coercion errors in the tree are well-formed (`RWF`) at every depth -/
def RWFk (vcls : Nat → RVld) : ErrK → Nat → Prop
  | .coercion _ d, vid =>
    (vcls vid = .uuid ∨ vcls vid = .decimal ∨ vcls vid = .datetime ∨ vcls vid = .date) → d ≠ .list ∧ d ≠ .tuple
  | _, _ => True

mutual
def RWFTree (vcls : Nat → RVld) : Inv → Prop
  | .mk k _ vid ch => RWFk vcls k vid ∧ RWFTreeL vcls ch
def RWFTreeL (vcls : Nat → RVld) : List Inv → Prop
  | [] => True
  | e :: es => RWFTree vcls e ∧ RWFTreeL vcls es
end

/-- one level: if the callback answers on the children what `renderFull` answers, the translated body answers on the
    node what `renderFull` answers -/
theorem src_render_step (up recordVids : List Nat) (vcls : Nat → RVld) (next : Inv → Except Exn Ser)
    (hrec : ∀ vid, recordVids.contains vid = (vcls vid == .dataclass || vcls vid == .namedtuple))
    (k : ErrK) (v : PyVal) (vid : Nat) (ch : List Inv) (hwf : RWFk vcls k vid)
    (h : mapME next ch = renderFullL up recordVids ch) :
    runRenderM up vcls next Src.toSerializableErrs (.mk k v vid ch) = renderFull up recordVids (.mk k v vid ch) := by
  cases k with
  | type t =>
    by_cases h1 : t = .dict
    · subst h1
      simp [runRenderM, Src.toSerializableErrs, RStmt.execLM, RStmt.execM, RCond.eval, RErr.matches, RExp.evalM, renderFull, renderLeaf]
    · have e1 : (t == Ty.dict) = false := beq_false_of_ne h1
      by_cases h2 : t = .list
      · subst h2
        simp [runRenderM, Src.toSerializableErrs, RStmt.execLM, RStmt.execM, RCond.eval, RErr.matches, RExp.evalM, renderFull, renderLeaf, e1]
      · have e2 : (t == Ty.list) = false := beq_false_of_ne h2
        by_cases h3 : t = .tuple
        · subst h3
          simp [runRenderM, Src.toSerializableErrs, RStmt.execLM, RStmt.execM, RCond.eval, RErr.matches, RExp.evalM, renderFull, renderLeaf, e1, e2]
        · have e3 : (t == Ty.tuple) = false := beq_false_of_ne h3
          simp [runRenderM, Src.toSerializableErrs, RStmt.execLM, RStmt.execM, RCond.eval, RErr.matches, RExp.evalM, renderFull, renderLeaf, e1, e2, e3]
  | coercion compat dest =>
    have hr := hrec vid
    simp only [RWFk] at hwf
    by_cases hl : dest = .list ∨ dest = .tuple
    · have hnot : ¬ (vcls vid = .uuid ∨ vcls vid = .decimal ∨ vcls vid = .datetime ∨ vcls vid = .date) := by
        intro hc; have := hwf hc; rcases hl with h | h <;> simp [h] at this
      simp only [not_or] at hnot
      obtain ⟨n1, n2, n3, n4⟩ := hnot
      have tl : (Ty.tuple == Ty.list) = false := by decide
      rcases hl with h | h <;> subst h <;>
        simp [runRenderM, Src.toSerializableErrs, RStmt.execLM, RStmt.execM, RCond.eval, RErr.matches, RExp.evalM, renderFull,
          renderLeaf, n1, n2, n3, n4, tl]
    · simp only [not_or] at hl
      have e1 : (dest == Ty.list) = false := beq_false_of_ne hl.1
      have e2 : (dest == Ty.tuple) = false := beq_false_of_ne hl.2
      cases hv : vcls vid <;>
        simp [hv] at hr <;>
        simp [runRenderM, Src.toSerializableErrs, RStmt.execLM, RStmt.execM, RCond.eval, RErr.matches, RExp.evalM, renderFull,
          renderLeaf, hv, hr, e1, e2]
  | preds pids => simp [runRenderM, Src.toSerializableErrs, RStmt.execLM, RStmt.execM, RCond.eval, RErr.matches, RExp.evalM, renderFull, renderLeaf]
  | index idx => simp [runRenderM, Src.toSerializableErrs, RStmt.execLM, RStmt.execM, RCond.eval, RErr.matches, RExp.evalM, renderFull, h]
  | keys ks => simp [runRenderM, Src.toSerializableErrs, RStmt.execLM, RStmt.execM, RCond.eval, RErr.matches, RExp.evalM, renderFull, h]
  | map ks shape => simp [runRenderM, Src.toSerializableErrs, RStmt.execLM, RStmt.execM, RCond.eval, RErr.matches, RExp.evalM, renderFull, h]
  | set => simp [runRenderM, Src.toSerializableErrs, RStmt.execLM, RStmt.execM, RCond.eval, RErr.matches, RExp.evalM, renderFull, h]
  | union => simp [runRenderM, Src.toSerializableErrs, RStmt.execLM, RStmt.execM, RCond.eval, RErr.matches, RExp.evalM, renderFull, h]
  | container =>
    simp [runRenderM, Src.toSerializableErrs, RStmt.execLM, RStmt.execM, RCond.eval, RErr.matches, RExp.evalM, renderFull, h]
    cases renderFullL up recordVids ch with
    | error e => rfl
    | ok cs =>
      match cs with
      | [] => rfl
      | [c] => rfl
      | _ :: _ :: _ => rfl
  | extraKeys ex => simp [runRenderM, Src.toSerializableErrs, RStmt.execLM, RStmt.execM, RCond.eval, RErr.matches, RExp.evalM, renderFull, renderLeaf]
  | missingKey => simp [runRenderM, Src.toSerializableErrs, RStmt.execLM, RStmt.execM, RCond.eval, RErr.matches, RExp.evalM, renderFull, renderLeaf]
  | custom id => simp [runRenderM, Src.toSerializableErrs, RStmt.execLM, RStmt.execM, RCond.eval, RErr.matches, RExp.evalM, renderFull, renderLeaf]

mutual
/-- **the translated function with its default callback is `renderFull`**: for every error tree there is a recursion
    depth from which on the translated `to_serializable_errs`, calling itself on the children, returns (or raises)
    exactly what the model's `renderFull` does -/
theorem src_render_full (up recordVids : List Nat) (vcls : Nat → RVld)
    (hrec : ∀ vid, recordVids.contains vid = (vcls vid == .dataclass || vcls vid == .namedtuple)) :
    ∀ e, RWFTree vcls e → ∃ n0, ∀ n, n0 ≤ n →
      runRenderFuel up vcls Src.toSerializableErrs n e = renderFull up recordVids e
  | .mk k v vid ch, hwf => by
    simp only [RWFTree] at hwf
    obtain ⟨n0, hn0⟩ := src_render_fullL up recordVids vcls hrec ch hwf.2
    refine ⟨n0 + 1, ?_⟩
    intro n hn
    obtain ⟨m, rfl⟩ : ∃ m, n = m + 1 := ⟨n - 1, by omega⟩
    simp only [runRenderFuel]
    exact src_render_step up recordVids vcls _ hrec k v vid ch hwf.1 (hn0 m (by omega))
theorem src_render_fullL (up recordVids : List Nat) (vcls : Nat → RVld)
    (hrec : ∀ vid, recordVids.contains vid = (vcls vid == .dataclass || vcls vid == .namedtuple)) :
    ∀ es, RWFTreeL vcls es → ∃ n0, ∀ n, n0 ≤ n →
      mapME (runRenderFuel up vcls Src.toSerializableErrs n) es = renderFullL up recordVids es
  | [], _ => ⟨0, fun _ _ => rfl⟩
  | e :: es, hwf => by
    simp only [RWFTreeL] at hwf
    obtain ⟨a, ha⟩ := src_render_full up recordVids vcls hrec e hwf.1
    obtain ⟨b, hb⟩ := src_render_fullL up recordVids vcls hrec es hwf.2
    refine ⟨max a b, ?_⟩
    intro n hn
    simp only [mapME, renderFullL, ha n (by omega), hb n (by omega)]
end

/-- **C12 at the source**: on an error tree built from the library's own error types and predicates (`renderable`),
    the translated `to_serializable_errs` with its default callback returns a rendering - it does not raise -/
theorem C12_src_total (up recordVids : List Nat) (vcls : Nat → RVld)
    (hrec : ∀ vid, recordVids.contains vid = (vcls vid == .dataclass || vcls vid == .namedtuple))
    (e : Inv) (hwf : RWFTree vcls e) (hr : renderable up e = true) :
    ∃ n0 s, ∀ n, n0 ≤ n → runRenderFuel up vcls Src.toSerializableErrs n e = .ok s := by
  obtain ⟨n0, h⟩ := src_render_full up recordVids vcls hrec e hwf
  obtain ⟨s, hs⟩ := C12_total up recordVids e hr
  exact ⟨n0, s, fun n hn => by rw [h n hn, hs]⟩

/-- non-vacuity: a type error under a key error under an index error, recursion depth 3 -/
example : runRenderFuel [] (fun v => if v = 7 then .dataclass else .other "ListValidator") Src.toSerializableErrs 3
    (.mk (.index [2]) .none 1 [.mk (.keys [.none]) .none 7 [.mk (.type .int) .none 9 []]]) =
    .ok (.list [.list [.num 2, .dict [("k", .list [.msg])]]]) := by rfl

/-- every predicate class the library defines has an arm in `pred_to_err_message`; anything else is a `TypeError` -/
theorem src_pred_messages_cover :
    (∀ c ∈ Src.classes, c.2.1 = "Predicate" → c.1 ∈ Src.predToErrMessage.handled) ∧
      Src.predToErrMessage.elseRaisesTypeError = true := by decide

/-- and no arm is for something else than a predicate class (no unsupported arm) -/
theorem src_pred_messages_only :
    ∀ h ∈ Src.predToErrMessage.handled, h ∈ Src.classes.map (·.1) := by decide

/-- the argument-failure message renderer of signature.py (`_safe_repr`, `_trunc_str`, `_get_arg_fail_message`,
    `_get_args_fail_msg`, the two exception constructors) is outside the translated subset (string building): its text
    is pinned, statement by statement; the model `messageLines` stays tied by the correspondence -/
theorem src_message_renderer_pinned : Src.messagePins = ["_safe_repr(obj: Any)",
    "_safe_repr: try:\n    return repr(obj)\nexcept Exception:\n    return f'<{type(obj).__name__} instance>'",
    "_trunc_str(s: str, max_chars: int)",
    "_trunc_str: ellip = '...'",
    "_trunc_str: ellip_len = len(ellip)",
    "_trunc_str: if max_chars < ellip_len:\n    raise AssertionError(f'max_chars must be greater than or equal to {ellip_len}')",
    "_trunc_str: return s[:max_chars - ellip_len] + ellip if len(s) > max_chars else s",
    "_get_arg_fail_message(invalid: Invalid, indent: str='', prefix: str='')",
    "_get_arg_fail_message: err_type = invalid.err_type",
    "_get_arg_fail_message: next_indent = f'    {indent}'",
    "_get_arg_fail_message: ret = indent + prefix",
    "_get_arg_fail_message: if isinstance(err_type, TypeErr):\n    ret += f'expected {err_type.expected_type}'\nelif isinstance(err_type, PredicateErrs):\n    ret += f'{err_type.__class__.__name__}\\n'\n    ret += '\\n'.join([f'{next_indent}{repr(p)}' for p in err_type.predicates])\nelif isinstance(err_type, CoercionErr):\n    ret += f'expected any of {sorted(err_type.compatible_types, key=lambda t: repr(t))} to coerce to {repr(err_type.dest_type)}'\nelif isinstance(err_type, ContainerErr):\n    return _get_arg_fail_message(err_type.child, prefix)\nelif isinstance(err_type, MissingKeyErr):\n    ret += 'key missing'\nelif isinstance(err_type, UnionErrs):\n    variant_errors = [_get_arg_fail_message(variant, next_indent, prefix=f'variant {i + 1}: ') for i, variant in enumerate(err_type.variants)]\n    ret += '\\n'.join([err_type.__class__.__name__] + variant_errors)\nelif isinstance(err_type, KeyErrs):\n    ret += f'{err_type.__class__.__name__}\\n'\n    ret += '\\n'.join([_get_arg_fail_message(inv, next_indent, prefix=f'{repr(k)}: ') for k, inv in err_type.keys.items()])\nelif isinstance(err_type, ExtraKeysErr):\n    ret += f'{err_type.__class__.__name__}\\n'\n    ret += f'{next_indent}only expected keys {sorted(err_type.expected_keys, key=repr)}'\nelif isinstance(err_type, IndexErrs):\n    ret += f'{err_type.__class__.__name__}\\n'\n    ret += '\\n'.join([_get_arg_fail_message(inv, next_indent, prefix=f'{idx}: ') for idx, inv in err_type.indexes.items()])\nelif isinstance(err_type, MapErr):\n    ret += 'MapErr'\n    for key, key_val_errs in err_type.keys.items():\n        if key_val_errs.key:\n            next_ = _get_arg_fail_message(key_val_errs.key, next_indent, prefix=f'{_safe_repr(key)} (key): ')\n            ret += f'\\n{next_}'\n        if key_val_errs.val:\n            next_ = _get_arg_fail_message(key_val_errs.val, next_indent, prefix=f'{_safe_repr(key)} (val): ')\n            ret += f'\\n{next_}'\nelif isinstance(err_type, SetErrs):\n    ret += f'{err_type.__class__.__name__}\\n'\n    ret += '\\n'.join([f'{_get_arg_fail_message(e, next_indent)} :: {_trunc_str(_safe_repr(e.value), 30)}' for e in err_type.item_errs])",
    "_get_arg_fail_message: return ret",
    "_get_args_fail_msg(errs: Dict[str, Invalid])",
    "_get_args_fail_msg: messages = [f'{k}={_trunc_str(_safe_repr(v.value), 60)}\\n{_get_arg_fail_message(v, '    ')}' for k, v in errs.items()]",
    "_get_args_fail_msg: return '\\n'.join(messages)",
    "InvalidArgsError.__init__: super().__init__(_INVALID_ARGS_MESSAGE_HEADER + _get_args_fail_msg(errs)) ; self.errs = errs",
    "InvalidReturnError.__init__: super().__init__(_INVALID_RETURN_MESSAGE_HEADER + _get_arg_fail_message(err)) ; self.err = err"] := rfl

/-- non-vacuity: a record validator's coercion failure under a list index renders as the container message at that index -/
example :
    runRender { userPids := [], vcls := fun v => if v = 7 then .dataclass else .other "ListValidator", next := fun _ => .mark }
      Src.toSerializableErrs (.mk (.index [2]) .none 1 [.mk (.coercion [.dict] (.cls default)) .none 7 []]) =
    .ok (.list [.list [.num 2, .mark]]) := by
  simp [runRender, Src.toSerializableErrs, RStmt.execL, RStmt.exec, RCond.eval, RErr.matches, RExp.eval]

end Koda
